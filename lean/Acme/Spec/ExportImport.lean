/-
Specification vocabulary for C11 at message level: the DBC-expressible fragment of imported /
built trees (`Expressible`, decidable) and the normalisation `norm` under which
export → import is the identity.
-/
import Acme.Spec.Import

namespace Acme.Import
open Acme.Layout Acme.Conv Acme.Arith

instance decWFfrom : ∀ (lo cap : Int) (l : List Slot), Decidable (WFfrom lo cap l)
  | lo, cap, [] => inferInstanceAs (Decidable (lo ≤ cap))
  | lo, cap, s :: r =>
    have := decWFfrom (s.start + s.size) cap r
    inferInstanceAs (Decidable (lo ≤ s.start ∧ 0 < s.size ∧ WFfrom (s.start + s.size) cap r))

instance (cap : Int) (l : List Slot) : Decidable (WF cap l) := decWFfrom 0 cap l

/-- the multiplexers among the top-level items -/
def muxesOf : List Item → List MuxNode
  | [] => []
  | .sig _ :: r => muxesOf r
  | .mux n :: r => n :: muxesOf r

/-- the top-level standard signals -/
def leavesOf : List Item → List Leaf
  | [] => []
  | .sig l :: r => l :: leavesOf r
  | .mux _ :: r => leavesOf r

/-- A multiplexer whose shape the DBC format can express:
    * the group count is the power of two of its selector width (1 … 62 bits) — a DBC file only
      states the width of the multiplexor signal;
    * every group is a well-formed layout; ids in range, strictly ascending; a child is never
      listed for EVERY group (the importer reads that as "fixed");
    * some child ends at the last bit of the group (the group size is not written to the
      file: the importer takes the highest end bit of the multiplexed signals) — in
      particular the multiplexer is not empty (D76). -/
def MuxExpressible (n : MuxNode) : Prop :=
  1 ≤ n.selW ∧ n.selW ≤ 62 ∧ n.groupCount = calcValue n.selW ∧ 0 < n.groupSize ∧
  (∀ k ∈ List.range n.groupCount.toNat, WF n.groupSize (childSlots (groupOf n.children ((k : Nat) : Int)))) ∧
  (∀ c ∈ n.children, (∀ g ∈ c.gids, 0 ≤ g ∧ g < n.groupCount) ∧ c.gids.Pairwise (· < ·) ∧
      (c.gids.length : Int) < n.groupCount ∧ 0 < c.size ∧ c.isMux = false) ∧
  (∃ c ∈ n.children, c.rel + c.size = n.groupSize)

instance (n : MuxNode) : Decidable (MuxExpressible n) := by unfold MuxExpressible; exact inferInstance

/-- The DBC-expressible fragment: a message of at most 8 bytes (what a CAN 2.0 bus of an
    import takes) whose top-level placement is a well-formed layout, with pairwise different
    names, with NO multiplexer or EXACTLY ONE, non-empty and without nested multiplexers (no child
    `isMux`, `nested = []`; D54, D76 are outside),
    of an expressible shape; an empty message is little endian (a file states the byte order
    per signal only). -/
def Expressible (t : ITree) : Prop :=
  0 ≤ t.sizeByte ∧ t.sizeByte ≤ 8 ∧ WF (8 * t.sizeByte) (topSlots t.top) ∧ (regNames t.top).Nodup ∧
  (muxesOf t.top).length ≤ 1 ∧ (∀ n ∈ muxesOf t.top, MuxExpressible n) ∧
  (t.top = [] → t.bigEndian = false) ∧ t.nested = []

instance (t : ITree) : Decidable (Expressible t) := by unfold Expressible; exact inferInstance

/-- the children of a multiplexer in the order in which the exporter writes them (group by
    group, every child where it is seen first), each with the id of that group -/
def seenChildren (n : MuxNode) : List (Child × Int) :=
  walkGroups n.children (List.range n.groupCount.toNat) []

/-- the start bit the exporter writes for a child -/
def kidKey (be : Bool) (n : MuxNode) (p : Child × Int) : Nat := fileStart be (n.start + n.selW + p.1.rel)

/-- Normalisation of a multiplexer: the registry of its children (a Go map — its order is not
    observable) is listed in the order in which the importer meets them: by the start bit written
    to the file, ties in the order of the file.  Nothing else changes. -/
def normMux (be : Bool) (n : MuxNode) : MuxNode :=
  { n with children := (sortBy (kidKey be n) (seenChildren n)).map (·.1) }

def normItem (be : Bool) : Item → Item
  | .sig l => .sig l
  | .mux n => .mux (normMux be n)

def norm (t : ITree) : ITree := { t with top := t.top.map (normItem t.bigEndian) }

end Acme.Import
