/- Specification vocabulary for C14 (fixed; proofs live in Acme.Proofs.CanId). -/
import Acme.Core.CanId

namespace Acme.CanId

/-- the source value an id / priority operation reads -/
def src (k : Kind) (prio mid nid : BitVec 32) : BitVec 32 :=
  match k with | .prio => prio | .msgId => mid | .nodeId => nid | .mask => 0#32

/-- "valid" operation = what `InsertOperation` accepts -/
def ValidOp (op : BOp) : Prop := 0 ≤ op.from_ ∧ op.from_ ≤ 31 ∧ 0 ≤ op.len ∧ op.len ≤ 32 - op.from_

end Acme.CanId
