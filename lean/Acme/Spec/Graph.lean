/-
Specification of the registry / link / reference invariants of the object-graph model
`Acme.Graph` (properties C04, C05 and the graph part of C06).

It is written independently of the control flow of `step`: every statement is about the
*state*, read through "views" — total look-up functions, one per record field — so that
a statement never has to open a record.  E.g. `busParent B b = some n` says "bus `b`
exists and reports network `n` as its parent", `netBuses N n` is the `buses` registry of
network `n` (empty if `n` does not exist).

Core Lean only.
-/
import Acme.Core.Graph

namespace Acme.Graph

/-! ### Views: one total look-up function per record field -/

def netBuses (m : AMap NetE) (k : Nat) : Reg Nat :=
  match m.get k with | some e => e.buses | none => []

def netBusNames (m : AMap NetE) (k : Nat) : Reg String :=
  match m.get k with | some e => e.busNames | none => []

def busName (m : AMap BusE) (k : Nat) : Option String :=
  match m.get k with | some e => some e.name | none => none

def busParent (m : AMap BusE) (k : Nat) : Option Nat :=
  match m.get k with | some e => e.parent | none => none

def busBuilder (m : AMap BusE) (k : Nat) : Option Nat :=
  match m.get k with | some e => e.builder | none => none

def busNodeInts (m : AMap BusE) (k : Nat) : Reg Nat :=
  match m.get k with | some e => e.nodeInts | none => []

def busNodeNames (m : AMap BusE) (k : Nat) : Reg String :=
  match m.get k with | some e => e.nodeNames | none => []

def busNodeIDs (m : AMap BusE) (k : Nat) : Reg Nat :=
  match m.get k with | some e => e.nodeIDs | none => []

def busStaticIDs (m : AMap BusE) (k : Nat) : Reg Nat :=
  match m.get k with | some e => e.staticIDs | none => []

def busAttrs (m : AMap BusE) (k : Nat) : Reg Nat :=
  match m.get k with | some e => e.attrs | none => []

def nodeNameC (m : AMap NodeE) (k : Nat) : String :=
  match m.get k with | some e => e.name | none => ""

def nodeNidC (m : AMap NodeE) (k : Nat) : Nat :=
  match m.get k with | some e => e.nid | none => 0

def nodeIfaces (m : AMap NodeE) (k : Nat) : List Nat :=
  match m.get k with | some e => e.ifaces | none => []

def nodeIfaceCount (m : AMap NodeE) (k : Nat) : Int :=
  match m.get k with | some e => e.ifaceCount | none => 0

def nodeAttrs (m : AMap NodeE) (k : Nat) : Reg Nat :=
  match m.get k with | some e => e.attrs | none => []

def ifaceNode (m : AMap IfaceE) (k : Nat) : Option Nat :=
  match m.get k with | some e => some e.node | none => none

def ifaceNumber (m : AMap IfaceE) (k : Nat) : Int :=
  match m.get k with | some e => e.number | none => 0

def ifaceBus (m : AMap IfaceE) (k : Nat) : Option Nat :=
  match m.get k with | some e => e.parentBus | none => none

def ifaceSent (m : AMap IfaceE) (k : Nat) : Reg Nat :=
  match m.get k with | some e => e.sent | none => []

def ifaceSentNames (m : AMap IfaceE) (k : Nat) : Reg String :=
  match m.get k with | some e => e.sentNames | none => []

def ifaceSentIDs (m : AMap IfaceE) (k : Nat) : Reg Nat :=
  match m.get k with | some e => e.sentIDs | none => []

def ifaceSentStatic (m : AMap IfaceE) (k : Nat) : Reg Nat :=
  match m.get k with | some e => e.sentStatic | none => []

def ifaceRecv (m : AMap IfaceE) (k : Nat) : Reg Nat :=
  match m.get k with | some e => e.received | none => []

def msgName (m : AMap MsgE) (k : Nat) : Option String :=
  match m.get k with | some e => some e.name | none => none

def msgMid (m : AMap MsgE) (k : Nat) : Option Nat :=
  match m.get k with | some e => some e.mid | none => none

def msgStatic (m : AMap MsgE) (k : Nat) : Option Nat :=
  match m.get k with | some e => e.static | none => none

def msgSender (m : AMap MsgE) (k : Nat) : Option Nat :=
  match m.get k with | some e => e.sender | none => none

def msgReceivers (m : AMap MsgE) (k : Nat) : Reg Nat :=
  match m.get k with | some e => e.receivers | none => []

def msgAttrs (m : AMap MsgE) (k : Nat) : Reg Nat :=
  match m.get k with | some e => e.attrs | none => []

def builderRefs (m : AMap BuilderE) (k : Nat) : List Nat :=
  match m.get k with | some e => e.refs | none => []

def attrRefs (m : AMap AttrE) (k : Nat) : List Nat :=
  match m.get k with | some e => e.refs | none => []

def defRefs (m : AMap DefE) (k : Nat) : List Nat :=
  match m.get k with | some e => e.refs | none => []

def sigTyp (m : AMap SigE) (k : Nat) : Option Nat :=
  match m.get k with | some e => some e.typ | none => none

def sigUnit (m : AMap SigE) (k : Nat) : Option Nat :=
  match m.get k with | some e => e.unit | none => none

def sigAttrs (m : AMap SigE) (k : Nat) : Reg Nat :=
  match m.get k with | some e => e.attrs | none => []


/-- message `m` is sent by an interface that is attached to bus `b` -/
def MsgOnBus (M : AMap MsgE) (I : AMap IfaceE) (m b : Nat) : Prop :=
  ∃ i, msgSender M m = some i ∧ ifaceBus I i = some b

/-- entity `x` (of any attributable kind) carries an assignment of attribute `a` -/
def HasAttr (B : AMap BusE) (D : AMap NodeE) (M : AMap MsgE) (S : AMap SigE) (x a : Nat) : Prop :=
  (busAttrs B x).get a ≠ none ∨ (nodeAttrs D x).get a ≠ none ∨
  (msgAttrs M x).get a ≠ none ∨ (sigAttrs S x).get a ≠ none

/-! ### The invariants, grouped by the stores they read

Form of every C04 field: the registry has no duplicate keys, and
`reg.get k = some x ↔ x is a current content of the container ∧ key x = k`. -/

/-- network ↔ bus: `buses` (contents; also the C05 parent/child symmetry) and the
`busNames` index -/
structure NetI (N : AMap NetE) (B : AMap BusE) : Prop where
  buses_nodup : ∀ n, (netBuses N n).keys.Nodup
  names_nodup : ∀ n, (netBusNames N n).keys.Nodup
  /-- C05: network `n` lists bus `b` (under its own id) iff `b` reports `n` as parent -/
  buses_get : ∀ n b v, (netBuses N n).get b = some v ↔ v = b ∧ busParent B b = some n
  /-- C04: `busNames` agrees with `buses`; key = the current name of the bus -/
  names_get : ∀ n name b, (netBusNames N n).get name = some b ↔
    (netBuses N n).get b = some b ∧ busName B b = some name

/-- bus ↔ node interface: `nodeInts` (contents, keyed by the node of the interface; also
the C05 symmetry) and the `nodeNames` / `nodeIDs` indexes -/
structure BusI (B : AMap BusE) (I : AMap IfaceE) (D : AMap NodeE) : Prop where
  ints_nodup : ∀ b, (busNodeInts B b).keys.Nodup
  names_nodup : ∀ b, (busNodeNames B b).keys.Nodup
  ids_nodup : ∀ b, (busNodeIDs B b).keys.Nodup
  /-- C05: bus `b` lists interface `i` under its node iff `i` reports `b` as its bus -/
  ints_get : ∀ b nd i, (busNodeInts B b).get nd = some i ↔
    ifaceNode I i = some nd ∧ ifaceBus I i = some b
  /-- C04: key = the current name of the node of an attached interface -/
  names_get : ∀ b name nd, (busNodeNames B b).get name = some nd ↔
    (busNodeInts B b).get nd ≠ none ∧ nodeNameC D nd = name
  /-- C04: key = the current node number of the node of an attached interface -/
  ids_get : ∀ b nid nd, (busNodeIDs B b).get nid = some nd ↔
    (busNodeInts B b).get nd ≠ none ∧ nodeNidC D nd = nid

/-- bus `messageStaticCANIDs` vs the static CAN-IDs of all messages sent by attached
interfaces -/
structure StaticI (B : AMap BusE) (I : AMap IfaceE) (M : AMap MsgE) : Prop where
  static_nodup : ∀ b, (busStaticIDs B b).keys.Nodup
  static_get : ∀ b c m, (busStaticIDs B b).get c = some m ↔
    msgStatic M m = some c ∧ MsgOnBus M I m b

/-- interface ↔ sent message: `sent` (contents; also the C05 symmetry) and the three
indexes; a sent message is in exactly one of `sentIDs` / `sentStatic` -/
structure SentI (I : AMap IfaceE) (M : AMap MsgE) : Prop where
  sent_nodup : ∀ i, (ifaceSent I i).keys.Nodup
  names_nodup : ∀ i, (ifaceSentNames I i).keys.Nodup
  ids_nodup : ∀ i, (ifaceSentIDs I i).keys.Nodup
  static_nodup : ∀ i, (ifaceSentStatic I i).keys.Nodup
  /-- C05: interface `i` lists message `m` iff `m` reports `i` as its sender -/
  sent_get : ∀ i m v, (ifaceSent I i).get m = some v ↔ v = m ∧ msgSender M m = some i
  names_get : ∀ i name m, (ifaceSentNames I i).get name = some m ↔
    (ifaceSent I i).get m = some m ∧ msgName M m = some name
  /-- key = message id, only for messages WITHOUT a static CAN-ID -/
  ids_get : ∀ i mid m, (ifaceSentIDs I i).get mid = some m ↔
    (ifaceSent I i).get m = some m ∧ msgMid M m = some mid ∧ msgStatic M m = none
  /-- key = static CAN-ID, only for messages WITH one -/
  static_get : ∀ i c m, (ifaceSentStatic I i).get c = some m ↔
    (ifaceSent I i).get m = some m ∧ msgStatic M m = some c

/-- interface ↔ received message (`msg.receivers` is keyed by the NODE of the receiving
interface, D26) -/
structure RecvI (I : AMap IfaceE) (M : AMap MsgE) : Prop where
  recv_nodup : ∀ i, (ifaceRecv I i).keys.Nodup
  receivers_nodup : ∀ m, (msgReceivers M m).keys.Nodup
  recv_val : ∀ i m v, (ifaceRecv I i).get m = some v → v = m
  /-- C05: interface `i` (of node `nd`) lists `m` as received iff `m` lists `nd ↦ i` -/
  recv_get : ∀ i nd m, ifaceNode I i = some nd →
    ((ifaceRecv I i).get m = some m ↔ (msgReceivers M m).get nd = some i)
  receivers_node : ∀ m nd i, (msgReceivers M m).get nd = some i → ifaceNode I i = some nd

/-- node ↔ its interfaces -/
structure NodeI (D : AMap NodeE) (I : AMap IfaceE) : Prop where
  ifaces_nodup : ∀ n, (nodeIfaces D n).Nodup
  /-- the listed interfaces exist and belong to the node -/
  ifaces_node : ∀ n i, i ∈ nodeIfaces D n → ifaceNode I i = some n
  /-- numbered 0..n-1 in list order -/
  ifaces_num : ∀ n (k : Nat) i, (nodeIfaces D n)[k]? = some i → ifaceNumber I i = (k : Int)
  count : ∀ n, nodeIfaceCount D n = ((nodeIfaces D n).length : Int)
  /-- the node of every interface exists -/
  node_exists : ∀ i n, ifaceNode I i = some n → D.get n ≠ none
  /-- an interface that was removed from its node (`ifaceNode = some n` but not listed)
  is on no bus -/
  attached_live : ∀ i n b, ifaceNode I i = some n → ifaceBus I i = some b → i ∈ nodeIfaces D n

/-- CAN-ID builder references = exactly the buses using it -/
structure BuilderI (C : AMap BuilderE) (B : AMap BusE) : Prop where
  refs_nodup : ∀ c, (builderRefs C c).Nodup
  refs_mem : ∀ c b, b ∈ builderRefs C c ↔ busBuilder B b = some c

/-- attribute references = exactly the entities (of any kind) carrying an assignment;
entity ids are unique across the attributable kinds -/
structure AttrI (A : AMap AttrE) (B : AMap BusE) (D : AMap NodeE) (M : AMap MsgE) (S : AMap SigE) : Prop where
  refs_nodup : ∀ a, (attrRefs A a).Nodup
  refs_mem : ∀ a x, x ∈ attrRefs A a ↔ HasAttr B D M S x a
  bus_node : ∀ x, B.get x ≠ none → D.get x = none
  bus_msg : ∀ x, B.get x ≠ none → M.get x = none
  bus_sig : ∀ x, B.get x ≠ none → S.get x = none
  node_msg : ∀ x, D.get x ≠ none → M.get x = none
  node_sig : ∀ x, D.get x ≠ none → S.get x = none
  msg_sig : ∀ x, M.get x ≠ none → S.get x = none

/-- signal type references = exactly the signals of that type -/
structure TypeI (T : AMap DefE) (S : AMap SigE) : Prop where
  refs_nodup : ∀ t, (defRefs T t).Nodup
  refs_mem : ∀ t s, s ∈ defRefs T t ↔ sigTyp S s = some t

/-- signal unit references = exactly the signals with that unit -/
structure UnitI (U : AMap DefE) (S : AMap SigE) : Prop where
  refs_nodup : ∀ u, (defRefs U u).Nodup
  refs_mem : ∀ u s, s ∈ defRefs U u ↔ sigUnit S s = some u

structure Inv (g : G) : Prop where
  net : NetI g.nets g.buses
  bus : BusI g.buses g.ifaces g.nodes
  static : StaticI g.buses g.ifaces g.msgs
  sent : SentI g.ifaces g.msgs
  recv : RecvI g.ifaces g.msgs
  node : NodeI g.nodes g.ifaces
  builder : BuilderI g.builders g.buses
  attr : AttrI g.attrs g.buses g.nodes g.msgs g.sigs
  typ : TypeI g.types g.sigs
  unit : UnitI g.units g.sigs

/-! ### Admissible operations -/

/-- the extra admissibility clauses of an operation (on the pre-state) -/
def OpExtra (g : G) : Op → Prop
  -- D26: `msg.receivers` is keyed by node, so two interfaces of ONE node receiving the
  -- same message share a key: only if no OTHER interface of that node receives it already
  | .ifaceAddRecv i m | .msgAddReceiver m i =>
    ∀ nd j, ifaceNode g.ifaces i = some nd → (msgReceivers g.msgs m).get nd = some j → j = i
  -- "removed interface reused" (D25 family): `Node.RemoveInterface` leaves the removed
  -- `*NodeInterface` usable; attached to a bus it escapes `Node.UpdateName/UpdateID`.
  -- Only interfaces still listed by their node are attached.
  | .busAddIface _ i => ∀ n, ifaceNode g.ifaces i = some n → i ∈ nodeIfaces g.nodes n
  -- harness id discipline: attribute references are keyed by entity id, whatever the
  -- kind, so ids are unique across the attributable kinds (bus, node, message, signal)
  | .busNew b _ => g.nodes.get b = none ∧ g.msgs.get b = none ∧ g.sigs.get b = none
  | .nodeNew n _ _ _ _ => g.buses.get n = none ∧ g.msgs.get n = none ∧ g.sigs.get n = none
  | .msgNew m _ _ _ => g.buses.get m = none ∧ g.nodes.get m = none ∧ g.sigs.get m = none
  | .sigNew s _ => g.buses.get s = none ∧ g.nodes.get s = none ∧ g.msgs.get s = none
  | _ => True

/-- admissible: inside the model (`unsupported` covers a missing callee, an id created
twice and — D25 — attaching an entity that already has a parent) and the clauses above -/
def OpOK (g : G) (op : Op) : Prop := (step g op).2 ≠ .unsupported ∧ OpExtra g op

/-- the worlds reachable from the empty one by admissible operations -/
inductive Reach : G → Prop
  | init : Reach {}
  | step {g : G} {op : Op} : Reach g → OpOK g op → Reach (step g op).1

end Acme.Graph
