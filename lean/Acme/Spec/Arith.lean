/- Specification vocabulary for C03 (fixed; proofs live in Acme.Proofs.Arith). -/
import Acme.Core.Arith

namespace Acme.Arith

/-- two's-complement reading of an n-bit raw value -/
def twos (n : Nat) (raw : Nat) : Int :=
  if raw.testBit (n - 1) then (raw : Int) - 2 ^ n else (raw : Int)

/-- `w` is the smallest width ≥ 1 able to represent `v` -/
def IsBitLen (v : Int) (w : Int) : Prop :=
  1 ≤ w ∧ v < 2 ^ w.toNat ∧ (w = 1 ∨ 2 ^ (w.toNat - 1) ≤ v)

end Acme.Arith
