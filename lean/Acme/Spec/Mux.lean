/-
Specification for the multiplexer world (C07): the invariant, the admissible operations and
the reachable worlds, written independently of the control flow of `Acme.Mux.step`.
-/
import Acme.Core.Mux
import Acme.Spec.Layout

namespace Acme.Mux
open Acme.Layout Acme.Arith

/-- `t` is the `k`-th ancestor of `s` along `parentMux` (`k = 0`: `t = s`) -/
def Anc (w : MW) : Nat → Nat → Nat → Prop
  | 0, s, t => s = t
  | k + 1, s, t => ∃ e p, w.sigs.get s = some e ∧ e.parentMux = some p ∧ Anc w k p t

/-- The local invariant: every clause speaks about one multiplexer, one message or one
    parent link.  `Inv` below adds the global reading of the message view. -/
structure InvCore (w : MW) : Prop where
  /-- leaf sizes are positive -/
  sizesPos : ∀ s e z, w.sigs.get s = some e → e.kind = .leaf z → 0 < z
  /-- every group of a multiplexer is a well-formed layout (disjoint, in bounds, ordered)
      within the group size, without repeated members -/
  groupsWF : ∀ x xe gc gs, w.sigs.get x = some xe → xe.kind = .mux gc gs →
      xe.mx.groups.length = gc.toNat ∧ 0 < gc ∧ 0 < gs ∧
      ∀ g ∈ xe.mx.groups, WF gs (slotsOf w g) ∧ g.Nodup
  /-- a signal inserted without group ids is present in every group -/
  fixedEverywhere : ∀ x xe gc gs, w.sigs.get x = some xe → xe.kind = .mux gc gs →
      ∀ s ∈ xe.mx.fixed, ∀ g ∈ xe.mx.groups, s ∈ g
  /-- a signal inserted with group ids is present in exactly those groups -/
  listedExactly : ∀ x xe gc gs, w.sigs.get x = some xe → xe.kind = .mux gc gs →
      (∀ s gids, xe.mx.groupIds.get s = some gids →
          gids ≠ [] ∧ gids.Pairwise (· < ·) ∧ (∀ k ∈ gids, 0 ≤ k ∧ k < gc) ∧
          ∀ k : Nat, k < gc.toNat → (s ∈ xe.mx.groups.getD k [] ↔ (k : Int) ∈ gids)) ∧
      (∀ s, s ∉ xe.mx.fixed → xe.mx.groupIds.get s = none → ∀ g ∈ xe.mx.groups, s ∉ g)
  /-- the child registry of a multiplexer: fixed ∪ listed (disjoint), exactly the signals
      whose parent multiplexer it is, registered under their (pairwise different) names -/
  childrenExact : ∀ x xe gc gs, w.sigs.get x = some xe → xe.kind = .mux gc gs →
      (∀ s, s ∈ xe.mx.signals ↔ (s ∈ xe.mx.fixed ∨ (xe.mx.groupIds.get s).isSome)) ∧
      (∀ s, s ∈ xe.mx.fixed → xe.mx.groupIds.get s = none) ∧
      (∀ s, s ∈ xe.mx.signals ↔ ∃ e, w.sigs.get s = some e ∧ e.parentMux = some x) ∧
      (xe.mx.signalNames.map (·.1)).Nodup ∧
      (∀ n i, (n, i) ∈ xe.mx.signalNames ↔ i ∈ xe.mx.signals ∧ nameOf w i = n) ∧
      xe.mx.signals.Nodup
  /-- a parent link leads to a multiplexer that belongs to the same message (or to none) -/
  parentIsMux : ∀ s e x, w.sigs.get s = some e → e.parentMux = some x →
      ∃ xe gc gs, w.sigs.get x = some xe ∧ xe.kind = .mux gc gs ∧ xe.parentMsg = e.parentMsg
  parentMsgExists : ∀ s e m, w.sigs.get s = some e → e.parentMsg = some m → (w.msgs.get m).isSome
  /-- the top-level layout of a message -/
  msgLayoutWF : ∀ m msg, w.msgs.get m = some msg →
      msg.cap = msg.sizeByte * 8 ∧ 0 ≤ msg.sizeByte ∧
      WF msg.cap (slotsOf w msg.layout) ∧ msg.layout.Nodup ∧
      ∀ s, s ∈ msg.layout ↔ ∃ e, w.sigs.get s = some e ∧ e.parentMux = none ∧ e.parentMsg = some m
  /-- the registry of a message: exactly the signals that name it as their message,
      registered under their (pairwise different) names -/
  msgRegistry : ∀ m msg, w.msgs.get m = some msg →
      (∀ s, s ∈ msg.signals ↔ ∃ e, w.sigs.get s = some e ∧ e.parentMsg = some m) ∧
      (msg.signalNames.map (·.1)).Nodup ∧
      (∀ n i, (n, i) ∈ msg.signalNames ↔ i ∈ msg.signals ∧ nameOf w i = n)
  /-- the parent relation is well-founded -/
  acyclic : ∃ depth : Nat → Nat, ∀ s e x, w.sigs.get s = some e → e.parentMux = some x → depth x < depth s

/-- The invariant of C07. -/
structure Inv (w : MW) : Prop extends InvCore w where
  /-- the fuel of the tree recursions suffices: every ancestor chain is shorter than `fuelOf w` -/
  fuelOK : ∀ k s t e, w.sigs.get s = some e → Anc w k s t → k < fuelOf w
  /-- the owning message's view stays in step: the registry is the top-level layout plus
      everything nested in it at any depth, under pairwise different names -/
  msgView : ∀ m msg, w.msgs.get m = some msg →
      (∀ s, s ∈ msg.signals ↔ s ∈ msg.layout ∨ ∃ t ∈ msg.layout, s ∈ descendants w (fuelOf w) t) ∧
      (∀ s e, w.sigs.get s = some e → (e.parentMsg = some m ↔ s ∈ msg.signals)) ∧
      (∀ n i, nmGet msg.signalNames n = some i ↔ i ∈ msg.signals ∧ nameOf w i = n) ∧
      (∀ i j, i ∈ msg.signals → j ∈ msg.signals → nameOf w i = nameOf w j → i = j)

/-! ### admissible operations -/

/-- the members of the slice `g` behind `s` -/
def followersOf (g : List Nat) (s : Nat) : List Nat := (g.dropWhile (fun t => t ≠ s)).drop 1

/-- `t` is a member of exactly one group of the multiplexer (listed for a single group id) -/
def exclusive (xe : SigE) (t : Nat) : Bool :=
  match xe.mx.groupIds.get t with
  | some [_] => true
  | _ => false

/-- The restrictions of the domain, all stated on the pre-state. -/
def admissible (w : MW) : Op → Bool
  -- domain restriction: message sizes are non-negative (`NewMessage` accepts any int)
  | .msgNew _ k => decide (0 ≤ k)
  | .muxIns x s st gids =>
    match w.sigs.get x, w.sigs.get s with
    | some xe, some se =>
      -- KNOWN DEFECT D35: a child of `x` may be inserted again only for further groups
      -- (it is listed, not fixed, and ids are given) and only at its current position
      if se.parentMux = some x then !xe.mx.fixed.contains s && !gids.isEmpty && decide (st = se.rel)
      else true
    | _, _ => true
  | .leafSize s n =>
    match w.sigs.get s with
    | some se =>
      match se.parentMux with
      | some x =>
        match w.sigs.get x with
        | some xe =>
          -- KNOWN DEFECT D73: a size change moves the followers of `s` in every group that
          -- holds `s`; each of them must live in that group only (one shared position)
          decide (se.kind = .leaf n) ||
            xe.mx.groups.all (fun g => !g.contains s || (followersOf g s).all (exclusive xe))
        | none => true
      | none => true
    | none => true
  | _ => true

/-- Operations inside the modelled region (no re-attachment D25, no self-insertion, known
    containers) and outside the two known-defect regions. -/
def OpOK (w : MW) (op : Op) : Prop :=
  (step w op).2 ≠ .unsupported ∧ admissible w op = true

instance (w : MW) (op : Op) : Decidable (OpOK w op) := by unfold OpOK; exact inferInstance

/-- worlds reachable from the empty one by admissible operations -/
inductive Reach : MW → Prop where
  | init : Reach {}
  | step (w : MW) (op : Op) : Reach w → OpOK w op → Reach (Acme.Mux.step w op).1

end Acme.Mux
