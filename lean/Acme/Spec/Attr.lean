/-
Specification vocabulary for the attribute round trip (C11) and the typing of attribute values
on import (C10): the normal form of a model attribute set, what the public API guarantees
(`AttrWF`), the sub-case in which the real exporter loses information (`Lossless` excludes it),
and the one-line files used to state the typing table.
-/
import Acme.Core.Attr

namespace Acme.Attr
open Acme.Conv

instance exceptDecEq {ε α : Type} [DecidableEq ε] [DecidableEq α] : DecidableEq (Except ε α)
  | .ok a, .ok b => if h : a = b then isTrue (by rw [h]) else isFalse (fun hc => h (Except.ok.inj hc))
  | .error a, .error b =>
    if h : a = b then isTrue (by rw [h]) else isFalse (fun hc => h (Except.error.inj hc))
  | .ok _, .error _ => isFalse (fun hc => by cases hc)
  | .error _, .ok _ => isFalse (fun hc => by cases hc)

/-! ## normal form -/

/-- the hex format flag survives only when the attribute is written as HEX (`exportsAsHex`: flag
    set and range inside 0 .. 2^32-1); bounds, default, and every other type are untouched -/
def normTy : AttrType → AttrType
  | .int d mn mx hex => .int d mn mx (exportsAsHex hex mn mx)
  | t => t

def normAtt (a : AttrDef) : AttrDef := ⟨a.name, normTy a.ty⟩

/-- an assignment with its attribute normalised; the value is untouched -/
def normAsg (a : Asg) : Asg := ⟨normAtt a.att, a.val⟩

/-- the assignments in the order `AttributeAssignments()` returns them (sorted by attribute name),
    each with the hex flag of its attribute normalised -/
def normAsgs (l : List Asg) : List Asg := (sortAsgs l).map normAsg

def Ent.norm : Ent → Ent
  | .node n a => .node n (normAsgs a)
  | .msg id f a => .msg id f (normAsgs a)
  | .sig id n f a => .sig id n f (normAsgs a)

/-- `normA` does exactly two things: it sorts every assignment list by attribute name, and it
    clears the hex format flag of integer attributes whose range does not fit unsigned 32 bit
    (`hex := hex ∧ 0 ≤ min ∧ max ≤ 2^32-1`).  Entities, their order, the dedicated fields (zero /
    unset included), names, bounds, defaults, value lists and values are untouched. -/
def normA (A : ModelAttrs) : ModelAttrs := { bus := normAsgs A.bus, ents := A.ents.map Ent.norm }

/-- the part of `normA` that is only an order: used when every hex attribute fits -/
def Ent.sorted : Ent → Ent
  | .node n a => .node n (sortAsgs a)
  | .msg id f a => .msg id f (sortAsgs a)
  | .sig id n f a => .sig id n f (sortAsgs a)

def sortA (A : ModelAttrs) : ModelAttrs := { bus := sortAsgs A.bus, ents := A.ents.map Ent.sorted }

/-! ## what the public API guarantees -/

/-- `NewIntegerAttribute` / `NewFloatAttribute`: min ≤ default ≤ max; `NewEnumAttribute`: at least
    one value, the values are distinct, the default is the first one -/
def DefOK : AttrType → Prop
  | .str _ => True
  | .int d mn mx _ => mn ≤ d ∧ d ≤ mx
  | .float d mn mx => mn ≤ d ∧ d ≤ mx
  | .enum vs d => vs.Nodup ∧ vs.head? = some d

instance : DecidablePred DefOK := fun t => by
  cases t <;> unfold DefOK <;> infer_instance

/-- `AssignAttribute` accepted the value -/
def ValOK (a : Asg) : Prop := checkAssign a.att.ty a.val = .ok ()

instance : DecidablePred ValOK := fun a => by unfold ValOK; infer_instance

/-- every assignment of the model: of the bus, then of the entities -/
def allAsgs (A : ModelAttrs) : List Asg := A.bus ++ A.ents.flatMap Ent.asgs

def names (l : List Asg) : List String := l.map (·.att.name)

/-- `AttrWF`: entities are distinct; every attribute is one the constructors can make; every
    value is one `AssignAttribute` accepts; an entity holds an attribute name once; one name
    means one attribute in the whole model -/
structure AttrWF (A : ModelAttrs) : Prop where
  keys : (A.ents.map Ent.key).Nodup
  defs : ∀ a ∈ allAsgs A, DefOK a.att.ty
  vals : ∀ a ∈ allAsgs A, ValOK a
  busNames : (names A.bus).Nodup
  entNames : ∀ e ∈ A.ents, (names e.asgs).Nodup
  oneName : ∀ a ∈ allAsgs A, ∀ b ∈ allAsgs A, a.att.name = b.att.name → a.att = b.att

instance (A : ModelAttrs) : Decidable (AttrWF A) :=
  if h : (A.ents.map Ent.key).Nodup ∧ (∀ a ∈ allAsgs A, DefOK a.att.ty) ∧ (∀ a ∈ allAsgs A, ValOK a) ∧
      (names A.bus).Nodup ∧ (∀ e ∈ A.ents, (names e.asgs).Nodup) ∧
      (∀ a ∈ allAsgs A, ∀ b ∈ allAsgs A, a.att.name = b.att.name → a.att = b.att) then
    isTrue ⟨h.1, h.2.1, h.2.2.1, h.2.2.2.1, h.2.2.2.2.1, h.2.2.2.2.2⟩
  else isFalse (fun w => h ⟨w.keys, w.defs, w.vals, w.busNames, w.entNames, w.oneName⟩)

/-! ## the restriction of the round trip: where the real exporter loses information -/

/-- `Lossless`: no attribute of the user is named like a well-known one -/
structure Lossless (A : ModelAttrs) : Prop where
  noReserved : ∀ a ∈ allAsgs A, special? a.att.name = none

instance (A : ModelAttrs) : Decidable (Lossless A) :=
  if h : ∀ a ∈ allAsgs A, special? a.att.name = none then isTrue ⟨h⟩
  else isFalse (fun w => h w.noReserved)

/-- the condition under which the hex FLAG of an attribute survives as well: a hex attribute has
    its bounds (hence default and values) in 0 .. 2^32-1 -/
def HexFits : AttrType → Prop
  | .int _ mn mx true => 0 ≤ mn ∧ mx < 4294967296
  | _ => True

instance : DecidablePred HexFits := fun t => by
  cases t with
  | int d mn mx h => cases h <;> unfold HexFits <;> infer_instance
  | _ => unfold HexFits; infer_instance

/-- every hex attribute of the model fits 32 bits -/
def AllHexFit (A : ModelAttrs) : Prop := ∀ a ∈ allAsgs A, HexFits a.att.ty

instance (A : ModelAttrs) : Decidable (AllHexFit A) := by unfold AllHexFit; infer_instance

/-! ## one-line files (typing table of C10) -/

/-- a file with one definition, its default, and one `BA_` line for the bus -/
def single (d : DAttr) (dflt : DVal) (v : DVal) : DbcAttrs :=
  { keys := [], defs := [d], defaults := [⟨d.name, dflt⟩], values := [⟨d.name, .general, v⟩] }

/-- the import of such a file: the bus holds one assignment -/
def busOnly (att : AttrDef) (v : Val) : ModelAttrs := { bus := [⟨att, v⟩], ents := [] }

/-- the int range -/
def inInt64 (i : Int) : Prop := -9223372036854775808 ≤ i ∧ i < 9223372036854775808

instance : DecidablePred inInt64 := fun i => by unfold inInt64; infer_instance

end Acme.Attr
