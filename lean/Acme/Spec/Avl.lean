/-
Specification for C19 (interval tree): invariant and abstract multiset, written
independently of the tree code.  Fixed; proofs live in Acme.Proofs.Avl.
-/
import Acme.Core.Avl

namespace Acme.Avl
open Tree

/-- lexicographic (low, high) order, non-strict -/
def le2 (a b : Int × Int) : Prop := a.1 < b.1 ∨ (a.1 = b.1 ∧ a.2 ≤ b.2)

/-- true height -/
def realHeight : Tree → Int
  | nil => 0
  | node l _ _ _ _ r => 1 + max (realHeight l) (realHeight r)

/-- true maximum of the highs of a non-empty subtree (value irrelevant for nil) -/
def realMax : Tree → Int
  | nil => 0
  | node l _ hi _ _ r =>
    let m1 := match l with | nil => hi | _ => max hi (realMax l)
    match r with | nil => m1 | _ => max m1 (realMax r)

/-- search-tree order, non-strict on both sides (rotations move equal keys to the left) -/
def IsBst : Tree → Prop
  | nil => True
  | node l lo hi _ _ r =>
    IsBst l ∧ IsBst r ∧ (∀ x ∈ inorder l, le2 x (lo, hi)) ∧ (∀ x ∈ inorder r, le2 (lo, hi) x)

/-- every stored height is the true height -/
def HeightOK : Tree → Prop
  | nil => True
  | node l lo hi mx h r => HeightOK l ∧ HeightOK r ∧ h = realHeight (node l lo hi mx h r)

/-- AVL balance at every node -/
def Balanced : Tree → Prop
  | nil => True
  | node l _ _ _ _ r => Balanced l ∧ Balanced r ∧
      realHeight l - realHeight r ≤ 1 ∧ realHeight r - realHeight l ≤ 1

/-- every stored max is the true subtree maximum -/
def MaxOK : Tree → Prop
  | nil => True
  | node l lo hi mx h r => MaxOK l ∧ MaxOK r ∧ mx = realMax (node l lo hi mx h r)

/-- every stored interval is proper (inverted ones are never inserted) -/
def Proper (t : Tree) : Prop := ∀ x ∈ inorder t, x.1 ≤ x.2

def Inv (t : Tree) : Prop := IsBst t ∧ HeightOK t ∧ Balanced t ∧ MaxOK t ∧ Proper t

/-! ### Abstract multiset and brute-force queries -/

/-- The abstract multiset after a history: a plain list, newest first. -/
def specStep (s : List (Int × Int)) : Op → List (Int × Int)
  | .insert lo hi => if lo > hi then s else (lo, hi) :: s
  | .delete lo hi => s.erase (lo, hi)
  | .clear => []

def specRun (s : List (Int × Int)) (ops : List Op) : List (Int × Int) := ops.foldl specStep s

/-- brute-force overlap scan -/
def anyOverlap (xs : List (Int × Int)) (lo hi : Int) : Bool :=
  xs.any (fun x => x.1 ≤ hi ∧ lo ≤ x.2)

/-- brute-force overlap scan that skips every interval equal to (slo, shi) -/
def anyOtherOverlap (xs : List (Int × Int)) (slo shi lo hi : Int) : Bool :=
  xs.any (fun x => ¬ (x.1 = slo ∧ x.2 = shi) ∧ x.1 ≤ hi ∧ lo ≤ x.2)

end Acme.Avl
