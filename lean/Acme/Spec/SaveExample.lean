/-
The example network of `Acme.Props.C12Struct.examples` (also a fixture of stream `sv`): two buses
sharing a node, a custom CAN-ID builder, a nested multiplexer whose first group is empty, a child
that lives in two groups, an enum attribute whose default value is not its first value.
The payloads are written in the `k=v;…` form the harness understands; the model never looks into
them.
-/
import Acme.Spec.Save

namespace Acme.Save.Ex
open Acme.Save

def tU8 : Ent := ⟨"t1", "uint8", "d=;k=3;sz=8;sg=0;mn=0;mx=255;sc=1;of=0"⟩
def tU4 : Ent := ⟨"t2", "uint4", "d=;k=3;sz=4;sg=0;mn=0;mx=15;sc=1;of=0"⟩
def uV : Ent := ⟨"u1", "volt", "d=;k=3;sy=V"⟩
def eMode : Ent := ⟨"e1", "mode", "d=;ms=1;vs=OFF:0:/ON:1:"⟩
def aPrio : Attr := ⟨⟨"a1", "prio", "d="⟩, .enm ["low", "mid", "high"] "mid"⟩
def aNote : Attr := ⟨⟨"a2", "note", "d=;dv=x"⟩, .str⟩
def cb : Builder := ⟨⟨"c1", "custom", "d="⟩, [⟨2, 0, 4⟩, ⟨1, 4, 7⟩, ⟨3, 0, 11⟩]⟩
def nA : Node := ⟨⟨"n1", "ecu_a", "d="⟩, 1, 2, [⟨"a1", "high"⟩]⟩
def nB : Node := ⟨⟨"n2", "ecu_b", "d="⟩, 2, 1, []⟩

def leaf (id name ty : String) : Sig := .mk ⟨id, name, "d=;st=0;sv=0"⟩ [] (.std ty none)

/-- inner multiplexer: two groups, a fixed child and a child in group 1 -/
def inner : Sig :=
  .mk ⟨"s5", "inner", "d=;st=0;sv=0;gs=5"⟩ [] (.mux 2
    [ .mk (leaf "s6" "flag" "t2") 0 none,
      .mk (.mk ⟨"s7", "m", "d=;st=1;sv=0"⟩ [] (.enm "e1")) 4 (some [1]) ])

/-- outer multiplexer: group 0 EMPTY, group 1 holds the inner multiplexer, group 2 a leaf;
    one child lives in groups 1 and 2 -/
def outer : Sig :=
  .mk ⟨"s2", "outer", "d=;st=0;sv=0;gs=16"⟩ [⟨"a2", "hello"⟩] (.mux 3
    [ .mk (leaf "s4" "late" "t1") 0 (some [2]),
      .mk inner 0 (some [1]),
      .mk (leaf "s8" "both" "t2") 12 (some [1, 2]) ])

def m1 : Msg :=
  { e := ⟨"m1", "status", "d=;sz=8;pr=1;bo=1;ct=100;st=1;dt=0;sd=0"⟩, asg := [⟨"a2", "x"⟩, ⟨"a1", "low"⟩], mid := 5, static := none
    sigs := [(outer, 8), (.mk ⟨"s1", "volt", "d=;st=0;sv=0"⟩ [] (.std "t1" (some "u1")), 0)]
    recvs := [⟨"n2", 0⟩] }
def m2 : Msg :=
  { e := ⟨"m2", "cmd", "d=;sz=2;pr=2;bo=2;ct=0;st=0;dt=0;sd=0"⟩, asg := [], mid := 256, static := some 256
    sigs := [(leaf "s9" "c" "t2", 0)], recvs := [⟨"n1", 0⟩] }

def net : Net :=
  { e := ⟨"N", "net", "d="⟩
    buses := [ { e := ⟨"b2", "powertrain", "d=;br=500000;ty=1"⟩, builder := none
                 ifaces := [⟨"n1", 1, [m2]⟩], asg := [] },
               { e := ⟨"b1", "body", "d=;br=125000;ty=1"⟩, builder := some "c1"
                 ifaces := [⟨"n2", 0, []⟩, ⟨"n1", 0, [m1]⟩], asg := [⟨"a2", "bus"⟩] } ]
    t := { builders := [cb], nodes := [nB, nA], types := [tU8, tU4], units := [uV], enums := [eMode]
           attrs := [aPrio, aNote] } }


end Acme.Save.Ex
