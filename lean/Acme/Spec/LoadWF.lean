/-
What EVERY network that comes out of the model loader `Acme.Save.load` satisfies (property C13,
the positive half: "loading … terminates with either an error or a network that satisfies the
model invariants").

`loadedWf` is `wf` (Spec/Save) with

* the clauses the loader does not establish REMOVED:
    - "every entry of a definition table is referenced" (six clauses of `tblWf`) — a fact about
      what the saver writes, not an invariant of a network;
    - "the entity ids of the top-level signals of a message are distinct" and, with it, "the
      entity ids of all signals of the network are distinct" — the loader refuses a signal id that
      is listed by two DIFFERENT parents (two messages, a message and a multiplexer, two
      multiplexers), but the same message listing an id twice passes this check (the real loader
      refuses such a tree later, through the geometry check of `Message.InsertSignal`, which the
      model does not cover: both signals get the one position the payload map holds for the id);
* in their place the clause the loader does establish: a signal id has ONE owner in the whole
  network (`ownersFunctional`);
* two clauses STRENGTHENED to what the loader establishes:
    - an enum attribute has distinct values and its default value is the FIRST value;
    - no interface both sends a message with some entity id and is a receiver of a message with
      that entity id, ANYWHERE in the network (`wf` says it of one message only; the loader keeps
      the sent / received sets of the interfaces per entity id).  Since the loader refuses a
      message id that occurs twice in the network this follows from the clause of `wf`; it is kept
      because it is what the state of the loader says directly.

`Acme.Props.C13Load.load_ok_wf` proves it for every saved tree; the counterexamples for the removed
clauses are in the same file, and `wf_of_loadedWf` shows that the removed clauses are all that
separates `loadedWf` from `wf`.
-/
import Acme.Spec.Save

namespace Acme.Save

/-- an enum attribute: the values are distinct and the default value is the first one
    (`newEnumAttributeFromBase` drops duplicates and makes the first value the default);
    other attributes: nothing the model can see -/
def attrLWf (a : Attr) : Bool :=
  match a.kind with
  | .enm vs d => nodupB vs && vs.head? == some d
  | _ => true

/-- a message:
    * its attribute assignments are one per attribute, of an attribute of the table, an enum value
      is a value of the attribute (`asgsWf`);
    * static CAN-ID agreement: a static CAN-ID is also the message id;
    * every top-level signal is well-formed (`sigWf`, recursively: assignments; type / unit / enum
      resolve, a unit id is not `""`; a multiplexer has a positive group count, children with
      distinct entity ids, and every listed child has a non-empty, strictly ascending list of
      groups below the group count);
    * every receiver names a node of the table and an interface number below its interface count;
    * at most one receiver per node.
    NOT here (see the header): distinct entity ids of the top-level signals. -/
def msgLWf (t : Tbl) (m : Msg) : Bool :=
  asgsWf t m.asg &&
  (match m.static with | none => true | some v => m.mid == v) &&
  m.sigs.all (fun p => sigWf t p.1) &&
  m.recvs.all (recvWf t) &&
  nodupB (m.recvs.map (·.node))

/-- an interface:
    * its node is in the table and its number is below the interface count of the node;
    * every message is well-formed and does not list the interface it is sent by as a receiver. -/
def ifaceLWf (t : Tbl) (i : Iface) : Bool :=
  recvWf t ⟨i.node, i.num⟩ &&
  i.msgs.all (fun m => msgLWf t m && !(m.recvs.contains ⟨i.node, i.num⟩))

/-- a bus:
    * well-formed attribute assignments;
    * a CAN-ID builder id is not `""` and names a builder of the table;
    * every interface is well-formed. -/
def busLWf (t : Tbl) (b : Bus) : Bool :=
  asgsWf t b.asg &&
  (match b.builder with | none => true | some id => id != "" && (t.builder id).isSome) &&
  b.ifaces.all (ifaceLWf t)

/-- the definition tables:
    * the entity ids of each table are distinct;
    * every operation of a CAN-ID builder has a kind constant 0 … 3;
    * the attribute assignments of every node are well-formed;
    * every attribute satisfies `attrLWf`.
    NOT here (see the header): every entry is referenced. -/
def tblLWf (t : Tbl) : Bool :=
  nodupB (t.builders.map (·.e.id)) && nodupB (t.nodes.map (·.e.id)) && nodupB (t.types.map (·.id)) &&
  nodupB (t.units.map (·.id)) && nodupB (t.enums.map (·.id)) && nodupB (t.attrs.map (·.e.id)) &&
  t.builders.all (fun x => x.ops.all (fun o => decide (o.kind ≤ 3))) &&
  t.nodes.all (fun x => asgsWf t x.asg) &&
  t.attrs.all attrLWf

/-- (interface, message entity id) for every message an interface sends -/
def sentPairs (n : Net) : List ((Id × Nat) × Id) :=
  n.buses.flatMap fun b => b.ifaces.flatMap fun i => i.msgs.map fun m => ((i.node, i.num), m.e.id)

/-- (interface, message entity id) for every receiver of every message -/
def recvPairs (n : Net) : List ((Id × Nat) × Id) :=
  n.buses.flatMap fun b => b.ifaces.flatMap fun i => i.msgs.flatMap fun m =>
    m.recvs.map fun r => ((r.node, r.num), m.e.id)

/-- a signal id is listed by one owner only: whenever an entity id occurs twice among the signals
    of the network (nested children included), both occurrences are listed by the same message,
    or by multiplexers with the same entity id -/
def ownersFunctional (n : Net) : Bool :=
  (netOwners n).all fun p => (netOwners n).all fun q => p.1 != q.1 || p.2 == q.2

/-- the invariant of a loaded network:
    * the tables (`tblLWf`);
    * every bus (`busLWf`);
    * the entity ids of the buses are distinct;
    * an interface (node, number) is attached once in the whole network;
    * the entity ids of the messages of the whole network are distinct;
    * no interface sends a message with an entity id of which it is a receiver;
    * a signal id is listed by one owner only (`ownersFunctional`). -/
def loadedWf (n : Net) : Bool :=
  tblLWf n.t &&
  n.buses.all (busLWf n.t) &&
  nodupB (n.buses.map (·.e.id)) &&
  decide (ifaceKeys n).Nodup &&
  nodupB (msgIds n) &&
  (sentPairs n).all (fun x => !(recvPairs n).contains x) &&
  ownersFunctional n

/-- decidable: what every network the loader answers with satisfies -/
def LoadedWF (n : Net) : Prop := loadedWf n = true

instance (n : Net) : Decidable (LoadedWF n) := inferInstanceAs (Decidable (loadedWf n = true))

/-! ## the clauses of `wf` that a loaded network need not satisfy -/

/-- every entry of every definition table is referenced (by what the saver walks) -/
def allUsed (n : Net) : Bool :=
  let t := n.t
  let used := usedRefs n
  t.builders.all (fun x => used.contains (RefK.builder, x.e.id)) &&
  t.nodes.all (fun x => (walkRefs n).contains (RefK.node, x.e.id)) &&
  t.types.all (fun x => used.contains (RefK.type, x.id)) &&
  t.units.all (fun x => used.contains (RefK.unit, x.id)) &&
  t.enums.all (fun x => used.contains (RefK.enum, x.id)) &&
  t.attrs.all (fun x => used.contains (RefK.attr, x.e.id))

/-- the top-level signals of every message have distinct entity ids -/
def topSigIdsDistinct (n : Net) : Bool :=
  n.buses.all fun b => b.ifaces.all fun i => i.msgs.all fun m => nodupB (m.sigs.map (·.1.id))

/-- the signals of the whole network (nested children included) have distinct entity ids -/
def sigIdsDistinct (n : Net) : Bool := nodupB ((netOwners n).map (·.1))

end Acme.Save
