/-
Decidable equality of the networks of the structural save / load model (`deriving DecidableEq`
does not handle the nested inductive types `Sig` / `Body` / `Kid` and `PSig` / `PBody`), so that
concrete round trips can be checked by `decide`.
-/
import Acme.Core.Save

namespace Acme.Save

mutual
  def Sig.beq : Sig → Sig → Bool
    | .mk e a b, .mk e' a' b' => decide (e = e') && decide (a = a') && Body.beq b b'
  def Body.beq : Body → Body → Bool
    | .std t u, .std t' u' => decide (t = t') && decide (u = u')
    | .enm e, .enm e' => decide (e = e')
    | .mux g k, .mux g' k' => decide (g = g') && Kid.beqList k k'
    | _, _ => false
  def Kid.beqList : List Kid → List Kid → Bool
    | [], [] => true
    | .mk s p g :: r, .mk s' p' g' :: r' =>
      Sig.beq s s' && decide (p = p') && decide (g = g') && Kid.beqList r r'
    | _, _ => false
end

mutual
  theorem Sig.beq_iff : (a b : Sig) → (Sig.beq a b = true ↔ a = b)
    | .mk e a b, .mk e' a' b' => by
      simp only [Sig.beq, Bool.and_eq_true, decide_eq_true_eq, Body.beq_iff b b', Sig.mk.injEq, and_assoc]
  theorem Body.beq_iff : (a b : Body) → (Body.beq a b = true ↔ a = b)
    | .std t u, .std t' u' => by simp [Body.beq]
    | .enm e, .enm e' => by simp [Body.beq]
    | .mux g k, .mux g' k' => by simp [Body.beq, Kid.beqList_iff k k']
    | .std _ _, .enm _ => by simp [Body.beq]
    | .std _ _, .mux _ _ => by simp [Body.beq]
    | .enm _, .std _ _ => by simp [Body.beq]
    | .enm _, .mux _ _ => by simp [Body.beq]
    | .mux _ _, .std _ _ => by simp [Body.beq]
    | .mux _ _, .enm _ => by simp [Body.beq]
  theorem Kid.beqList_iff : (a b : List Kid) → (Kid.beqList a b = true ↔ a = b)
    | [], [] => by simp [Kid.beqList]
    | [], _ :: _ => by simp [Kid.beqList]
    | _ :: _, [] => by simp [Kid.beqList]
    | .mk s p g :: r, .mk s' p' g' :: r' => by
      simp only [Kid.beqList, Bool.and_eq_true, decide_eq_true_eq, Sig.beq_iff s s', Kid.beqList_iff r r',
        List.cons.injEq, Kid.mk.injEq, and_assoc]
end

instance : DecidableEq Sig := fun a b => decidable_of_iff _ (Sig.beq_iff a b)
instance : DecidableEq Body := fun a b => decidable_of_iff _ (Body.beq_iff a b)
instance : DecidableEq Kid := fun a b =>
  decidable_of_iff (Kid.beqList [a] [b] = true) (by rw [Kid.beqList_iff]; simp)

mutual
  def PSig.beq : PSig → PSig → Bool
    | .mk e a k b, .mk e' a' k' b' => decide (e = e') && decide (a = a') && decide (k = k') && PBody.beq b b'
  def PBody.beq : PBody → PBody → Bool
    | .none, .none => true
    | .std t u, .std t' u' => decide (t = t') && decide (u = u')
    | .enm e, .enm e' => decide (e = e')
    | .mux g s f gr, .mux g' s' f' gr' =>
      decide (g = g') && PSig.beqList s s' && decide (f = f') && decide (gr = gr')
    | _, _ => false
  def PSig.beqList : List PSig → List PSig → Bool
    | [], [] => true
    | a :: r, a' :: r' => PSig.beq a a' && PSig.beqList r r'
    | _, _ => false
end

mutual
  theorem PSig.beq_iff : (a b : PSig) → (PSig.beq a b = true ↔ a = b)
    | .mk e a k b, .mk e' a' k' b' => by
      simp only [PSig.beq, Bool.and_eq_true, decide_eq_true_eq, PBody.beq_iff b b', PSig.mk.injEq, and_assoc]
  theorem PBody.beq_iff : (a b : PBody) → (PBody.beq a b = true ↔ a = b)
    | .none, .none => by simp [PBody.beq]
    | .std t u, .std t' u' => by simp [PBody.beq]
    | .enm e, .enm e' => by simp [PBody.beq]
    | .mux g s f gr, .mux g' s' f' gr' => by
      simp only [PBody.beq, Bool.and_eq_true, decide_eq_true_eq, PSig.beqList_iff s s', PBody.mux.injEq,
        and_assoc]
    | .none, .std _ _ => by simp [PBody.beq]
    | .none, .enm _ => by simp [PBody.beq]
    | .none, .mux _ _ _ _ => by simp [PBody.beq]
    | .std _ _, .none => by simp [PBody.beq]
    | .std _ _, .enm _ => by simp [PBody.beq]
    | .std _ _, .mux _ _ _ _ => by simp [PBody.beq]
    | .enm _, .none => by simp [PBody.beq]
    | .enm _, .std _ _ => by simp [PBody.beq]
    | .enm _, .mux _ _ _ _ => by simp [PBody.beq]
    | .mux _ _ _ _, .none => by simp [PBody.beq]
    | .mux _ _ _ _, .std _ _ => by simp [PBody.beq]
    | .mux _ _ _ _, .enm _ => by simp [PBody.beq]
  theorem PSig.beqList_iff : (a b : List PSig) → (PSig.beqList a b = true ↔ a = b)
    | [], [] => by simp [PSig.beqList]
    | [], _ :: _ => by simp [PSig.beqList]
    | _ :: _, [] => by simp [PSig.beqList]
    | a :: r, a' :: r' => by
      simp only [PSig.beqList, Bool.and_eq_true, PSig.beq_iff a a', PSig.beqList_iff r r', List.cons.injEq]
end

instance : DecidableEq PSig := fun a b => decidable_of_iff _ (PSig.beq_iff a b)
instance : DecidableEq PBody := fun a b => decidable_of_iff _ (PBody.beq_iff a b)

deriving instance DecidableEq for Recv, Msg, Iface, Bus, Tbl, Net
deriving instance DecidableEq for PMsg, PIface, PBus, PNet
deriving instance DecidableEq for St

instance {ε α : Type} [DecidableEq ε] [DecidableEq α] : DecidableEq (Except ε α)
  | .ok a, .ok b => if h : a = b then isTrue (by rw [h]) else isFalse (fun hc => h (Except.ok.inj hc))
  | .error a, .error b => if h : a = b then isTrue (by rw [h]) else isFalse (fun hc => h (Except.error.inj hc))
  | .ok _, .error _ => isFalse (fun hc => by cases hc)
  | .error _, .ok _ => isFalse (fun hc => by cases hc)

end Acme.Save
