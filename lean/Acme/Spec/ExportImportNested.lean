/-
Specification vocabulary for C11 at message level, NESTED multiplexers (extended multiplexing,
`SG_MUL_VAL_`): the class `ExpressibleN` of message trees whose real export is re-importable, and
the normal form `normN` the import returns.  Extends `Expressible` / `norm` of
Acme/Spec/ExportImport.lean (the flat class is one disjunct, the flat normal form one branch).

What the two Go functions do with a nested tree (exporter.go `exportMultiplexerSignal`, importer.go
`importMessage` case "several multiplexors"), and what the class therefore asks:

  * exactly ONE top-level multiplexer.  With a nested multiplexer in the message the importer is in
    its third case and demands an SG_MUL_VAL_ entry for EVERY multiplexed signal; the exporter
    writes such an entry for every child only of a multiplexer that is nested or holds a nested one
    (`nestedMux`): a second, flat top-level multiplexer would be refused (`extMuxRequired`, D54).
  * every multiplexer (any depth) of an expressible SHAPE, as in the flat class: group count = 2^selector
    width, groups well formed, ids ascending / in range / never all groups, some child ends at the
    last bit of the group — in particular NOT EMPTY (D76).  A nested multiplexer is a child like any
    other (its size is selector + one group, it may sit in one group, several groups or be fixed:
    the entry `SG_MUL_VAL_ id nested parent from-to,…` expresses any set of groups).
  * the links: a child `isMux` has its node in `nested` (found by name), the child's size is the
    node's total size and the node's absolute start is parent start + selector width + relative start.
  * the written start bit of a nested multiplexor is ABOVE its parent's.  The importer builds the
    multiplexors from the last to the first in the order of the written start bits and refuses
    (`should precede`) a nested multiplexor that is sorted before its parent.  In little endian this
    always holds (selector width ≥ 1); in big endian it is a real restriction (D54 family,
    `C11Msg.ex_nested_BE_refused`).
  * names pairwise different over all depths; `nested` lists exactly the multiplexers reachable
    from the top-level one.

The exporter quirk `patchLast` (after a nested multiplexer the parent's group id is written onto the
LAST signal written so far — the nested multiplexer's last descendant — and the nested multiplexor
itself keeps switch value 0) is triggered by EVERY tree of the class (a nested multiplexer is not
empty).  It does not leave the class: in the third case the importer never reads a switch value,
every multiplexed signal has an entry (the proof describes the exported signals up to their switch
values: `eraseSw`, `sigCore` in Proofs/ExportNestedTree.lean / ExportNestedBasic.lean).

`normN`: per multiplexer the registry of children in the order in which the importer registers
them — first the plain children by written start bit (ties in file order), then the nested
multiplexers from the LAST written start bit to the first (they are handed to their parent as they
are built) —; `nested` in the order in which the importer builds the nodes (last written start bit
first).  Starts, sizes, group counts / sizes, group ids are unchanged.
-/
import Acme.Spec.ExportImport
import Acme.Core.ImportNested

namespace Acme.Import
open Acme.Layout Acme.Conv Acme.Arith

/-- `P` holds of the value of an option that is not `none` -/
def optAll {α : Type} (o : Option α) (P : α → Prop) : Prop :=
  match o with
  | none => False
  | some a => P a

instance {α : Type} (o : Option α) (P : α → Prop) [∀ a, Decidable (P a)] : Decidable (optAll o P) := by
  cases o with
  | none => exact isFalse (fun h => h)
  | some a => exact (inferInstance : Decidable (P a))

/-- the nested multiplexer a child stands for -/
def subOf (N : List MuxNode) (c : Child) : Option MuxNode := if c.isMux then findNode N c.name else none

/-- the nested multiplexers below `n` in the order in which the exporter writes their multiplexor
    signals: depth first, the children of a multiplexer as the exporter sees them -/
def below (N : List MuxNode) : Nat → MuxNode → List MuxNode
  | 0, _ => []
  | fuel + 1, n => (seenChildren n).flatMap (fun p =>
      match subOf N p.1 with
      | some sub => sub :: below N fuel sub
      | none => [])

/-- `MuxExpressible` without "no child is a multiplexer" -/
def MuxShapeN (n : MuxNode) : Prop :=
  1 ≤ n.selW ∧ n.selW ≤ 62 ∧ n.groupCount = calcValue n.selW ∧ 0 < n.groupSize ∧
  (∀ k ∈ List.range n.groupCount.toNat, WF n.groupSize (childSlots (groupOf n.children ((k : Nat) : Int)))) ∧
  (∀ c ∈ n.children, (∀ g ∈ c.gids, 0 ≤ g ∧ g < n.groupCount) ∧ c.gids.Pairwise (· < ·) ∧
      (c.gids.length : Int) < n.groupCount ∧ 0 < c.size) ∧
  (∃ c ∈ n.children, c.rel + c.size = n.groupSize)

instance (n : MuxNode) : Decidable (MuxShapeN n) := by unfold MuxShapeN; exact inferInstance

/-- the multiplexer `p` and everything below it: shapes, links (node found by name, total size,
    absolute start), and the order of the written start bits.  `fuel` bounds the depth
    (`nested.length + 1` suffices for a tree). -/
def LinkedN (be : Bool) (N : List MuxNode) : Nat → MuxNode → Prop
  | 0, _ => False
  | fuel + 1, p => MuxShapeN p ∧ ∀ c ∈ p.children, c.isMux = true →
      optAll (findNode N c.name) (fun sub =>
        c.size = sub.groupSize + sub.selW ∧ sub.start = p.start + p.selW + c.rel ∧
        fileStart be p.start < fileStart be sub.start ∧ LinkedN be N fuel sub)

instance decLinkedN (be : Bool) (N : List MuxNode) : ∀ (fuel : Nat) (p : MuxNode), Decidable (LinkedN be N fuel p)
  | 0, _ => isFalse (fun h => h)
  | fuel + 1, p => by
    have := decLinkedN be N fuel
    unfold LinkedN
    exact inferInstance

/-- the only top-level multiplexer -/
def theMux (top : List Item) : Option MuxNode :=
  match muxesOf top with
  | [r] => some r
  | _ => none

/-- the nested multiplexers reachable from the top-level multiplexer `r` -/
def reach (t : ITree) (r : MuxNode) : List MuxNode := below t.nested (t.nested.length + 1) r

/-- the names of the signals of the message: top-level signals, the top-level multiplexer, and the
    children of every multiplexer (a nested multiplexer is named by its child entry) -/
def sigNamesN (t : ITree) (r : MuxNode) : List String :=
  (leavesOf t.top).map (·.name) ++ r.name :: (r :: reach t r).flatMap (fun n => n.children.map (·.name))

/-- the nested part of the class: see the header -/
def ExpressibleNested (t : ITree) : Prop :=
  0 ≤ t.sizeByte ∧ t.sizeByte ≤ 8 ∧ WF (8 * t.sizeByte) (topSlots t.top) ∧ t.nested ≠ [] ∧
  optAll (theMux t.top) (fun r =>
    (sigNamesN t r).Nodup ∧ LinkedN t.bigEndian t.nested (t.nested.length + 1) r ∧
    (reach t r).Perm t.nested)

instance (t : ITree) : Decidable (ExpressibleNested t) := by unfold ExpressibleNested; exact inferInstance

/-- The class of C11 with nested multiplexers: the flat class or the nested one. -/
def ExpressibleN (t : ITree) : Prop := Expressible t ∨ ExpressibleNested t

instance (t : ITree) : Decidable (ExpressibleN t) := by unfold ExpressibleN; exact inferInstance

/-- the written start bit of a multiplexor -/
def headKey (be : Bool) (n : MuxNode) : Nat := fileStart be n.start

/-- Normalisation of a multiplexer that may hold nested ones: the plain children in the order of
    `normMux`, then the nested multiplexers from the last written start bit to the first. -/
def normNodeN (be : Bool) (n : MuxNode) : MuxNode :=
  { n with children :=
      (sortBy (kidKey be n) ((seenChildren n).filter (fun p => !p.1.isMux))).map (·.1) ++
      ((sortBy (kidKey be n) ((seenChildren n).filter (fun p => p.1.isMux))).reverse).map (·.1) }

def normItemN (be : Bool) : Item → Item
  | .sig l => .sig l
  | .mux n => .mux (normNodeN be n)

def normNested (t : ITree) : ITree :=
  { t with
    top := t.top.map (normItemN t.bigEndian),
    nested := match theMux t.top with
      | some r => ((sortBy (headKey t.bigEndian) (reach t r)).reverse).map (normNodeN t.bigEndian)
      | none => t.nested }

/-- the normal form the import returns: `norm` on a tree without nested multiplexers -/
def normN (t : ITree) : ITree := if t.nested = [] then norm t else normNested t

end Acme.Import
