/- Specification vocabulary for C17 (fixed). -/
import Acme.Core.BusLoad

namespace Acme.BusLoad

/-- messages of the quantifier: sizes 0..8, cycle time 0 (= default) or positive -/
def MsgOK (m : Msg) : Prop := 0 ≤ m.size ∧ m.size ≤ 8 ∧ 0 ≤ m.cycle

/-- the load value as a function (baud > 0) -/
def loadOf (baud : Int) (msgs : List Msg) (d : Int) : Rat :=
  (msgs.map (fun m => bpsOf m d)).sum / (baud : Rat) * 100

end Acme.BusLoad
