/-
Specification vocabulary for C08 / C09 (DBC writer / parser round trip).

Core Lean only; written against the AST, the token type and the NUMBER-TEXT functions of
`Acme.Core.Dbc` (`classifyWord`, `parseInt`, `parseDouble`, `containsDot`), and independent of
the control flow of `writeToks` / `parseToks` (this file does not import them).

Contents
* `DbcWF hex f`   — "the document is expressible in the DBC grammar" (decidable, `dbcWF`);
* `norm hex f`    — the document the writer+parser are expected to turn a well-formed `f` into;
* `NumEq`         — "the same number, possibly with another tag" (what `norm` may change);
* `TokensWF ts`   — "the token list is in the image of the scanner".

The well-formedness predicate is parametric in the predicate on float texts
(`fileOK fl hex f`):
* `DbcWF`        uses `finiteFloatText` — the texts `strconv.FormatFloat(x,'f',-1,64)` produces
  for a finite `x`: optional `-`, digits, optional `.digits`, no exponent, no `NaN`/`Inf`, and
  the value is below the `ParseFloat` overflow threshold;
* `DbcWFParsed`  uses `acceptedFloatText` — every number text `strconv.ParseFloat` accepts (the
  model keeps the accepted token text as the float, so a parsed document may carry `1e5`).
  `DbcWF → DbcWFParsed`; the round-trip theorem is proved for `DbcWFParsed`.
-/
import Acme.Core.Dbc

namespace Acme.Dbc

/-! ## lexical classes -/

/-- `[A-Za-z][A-Za-z0-9_-]*` -/
def isWordChar (c : Char) : Bool := c.isAlphanum || c == '_' || c == '-'

def isWord (s : String) : Bool :=
  match s.toList with
  | [] => false
  | c :: cs => c.isAlpha && cs.all isWordChar

/-- an identifier of the DBC grammar: a word that the scanner emits as an `ident` token (not a
keyword, not shaped like a multiplexer indicator `M` / `m<digits>[M]`) -/
def identOK (s : String) : Bool := isWord s && decide (classifyWord s = .ident s)

/-- a string of the DBC grammar: no `"` (there is no escape) and no NUL (the scanner's eof) -/
def strOK (s : String) : Bool := s.toList.all (fun c => c != '"' && c != Char.ofNat 0)

/-- the attribute name of `BA_DEF_` / `BA_DEF_DEF_`: a string without blank, tab, new line -/
def attrNameOK (s : String) : Bool :=
  strOK s && !(s.toList.any (fun c => c == ' ' || c == '\t' || c == '\n'))

/-- `uint32` -/
def u32 (n : Nat) : Bool := decide (n < 2 ^ 32)

/-- Go `int` (64 bit) -/
def i64 (i : Int) : Bool := decide (-(2 ^ 63 : Int) ≤ i ∧ i < (2 ^ 63 : Int))

/-- optional `-`, digits, optional `.digits` (both digit runs non-empty) -/
def isFloatShape (cs : List Char) : Bool :=
  let body := match cs with
    | '-' :: r => r
    | r => r
  let ip := body.takeWhile Char.isDigit
  match body.dropWhile Char.isDigit with
  | [] => !ip.isEmpty
  | '.' :: fp => !ip.isEmpty && !fp.isEmpty && fp.all Char.isDigit
  | _ => false

/-- every number text `ParseFloat` accepts -/
def acceptedFloatText (s : String) : Bool := (parseDouble s).isSome

/-- the `FormatFloat(x,'f',-1,64)` texts of finite doubles (shape; and within the double range,
which is all that `acceptedFloatText` adds for a text of this shape:
`Acme.Dbc.isFloatShape_readFloat`, `Acme.Dbc.finiteFloatText_iff_range`) -/
def finiteFloatText (s : String) : Bool := isFloatShape s.toList && acceptedFloatText s

/-! ## tagged-union discipline

The Go structs `Comment`, `Attribute`, `AttributeDefault`, `AttributeValue`, `ValueEncoding`
are tagged unions flattened into one struct.  `canon` keeps the tag and the fields the tag
selects and resets the others to their zero value; a document is expressible only if
`x.canon = x` (the writer does not print the unselected fields). -/

def Comment.canon (c : Comment) : Comment :=
  match c.kind with
  | .general => { kind := .general, text := c.text }
  | .node => { kind := .node, text := c.text, nodeName := c.nodeName }
  | .message => { kind := .message, text := c.text, messageID := c.messageID }
  | .signal =>
    { kind := .signal, text := c.text, messageID := c.messageID, signalName := c.signalName }
  | .envVar => { kind := .envVar, text := c.text, envVarName := c.envVarName }

def Attribute.canon (a : Attribute) : Attribute :=
  match a.type with
  | .int => { kind := a.kind, type := .int, name := a.name, minInt := a.minInt, maxInt := a.maxInt }
  | .hex => { kind := a.kind, type := .hex, name := a.name, minHex := a.minHex, maxHex := a.maxHex }
  | .float =>
    { kind := a.kind, type := .float, name := a.name, minFloat := a.minFloat,
      maxFloat := a.maxFloat }
  | .string => { kind := a.kind, type := .string, name := a.name }
  | .enum => { kind := a.kind, type := .enum, name := a.name, enumValues := a.enumValues }

/-- a tagged attribute value (default or value): tag and the four payload fields -/
structure TaggedVal where
  type : AttrValType := .int
  valueString : String := ""
  valueInt : Int := 0
  valueHex : Nat := 0
  valueFloat : String := "0"
  deriving DecidableEq, Repr, Inhabited

def TaggedVal.canon (v : TaggedVal) : TaggedVal :=
  match v.type with
  | .int => { type := .int, valueInt := v.valueInt }
  | .string => { type := .string, valueString := v.valueString }
  | .float => { type := .float, valueFloat := v.valueFloat }
  | .hex => { type := .hex, valueHex := v.valueHex }

def AttributeDefault.val (d : AttributeDefault) : TaggedVal :=
  { type := d.type, valueString := d.valueString, valueInt := d.valueInt, valueHex := d.valueHex,
    valueFloat := d.valueFloat }

def AttributeDefault.withVal (d : AttributeDefault) (v : TaggedVal) : AttributeDefault :=
  { attributeName := d.attributeName, type := v.type, valueString := v.valueString,
    valueInt := v.valueInt, valueHex := v.valueHex, valueFloat := v.valueFloat }

def AttributeValue.val (d : AttributeValue) : TaggedVal :=
  { type := d.type, valueString := d.valueString, valueInt := d.valueInt, valueHex := d.valueHex,
    valueFloat := d.valueFloat }

/-- the object selector of an attribute value, unselected fields reset -/
def AttributeValue.canonObj (v : AttributeValue) : AttributeValue :=
  match v.attributeKind with
  | .general => { attributeKind := .general }
  | .node => { attributeKind := .node, nodeName := v.nodeName }
  | .message => { attributeKind := .message, messageID := v.messageID }
  | .signal => { attributeKind := .signal, messageID := v.messageID, signalName := v.signalName }
  | .envVar => { attributeKind := .envVar, envVarName := v.envVarName }

def AttributeValue.withVal (d : AttributeValue) (v : TaggedVal) : AttributeValue :=
  { d.canonObj with
    attributeName := d.attributeName
    type := v.type
    valueString := v.valueString
    valueInt := v.valueInt
    valueHex := v.valueHex
    valueFloat := v.valueFloat }

def ValueEncoding.canon (e : ValueEncoding) : ValueEncoding :=
  match e.kind with
  | .signal =>
    { kind := .signal, messageID := e.messageID, signalName := e.signalName, values := e.values }
  | .envVar => { kind := .envVar, envVarName := e.envVarName, values := e.values }

/-! ## `norm`: re-tagging of numeric attribute values

The parser does not know the declared type of an attribute when it reads a `BA_DEF_DEF_` /
`BA_` value: it tags the value by the look of the number text.  `retag` is the tag the text of
a well-formed value gets; the NUMBER is unchanged (`retag_numEq`). -/

/-- The tagged value that the text of `v` denotes for a reader that classifies number texts by
their look (`0x…` = hex, contains `.` = float, otherwise an int if it fits 64 bits, else float).
* `int`, `string`: unchanged;
* `hex`: unchanged in hex-number mode (printed `0x…`); in decimal mode it is printed as a
  decimal number and is therefore an `int` with the same value;
* `float`: a text with a `.` stays a float; a text without `.` (an integral double such as `5`,
  `-0`, `100000000000000000000`) is an `int` if it is the decimal text of a 64-bit integer,
  otherwise (more than 64 bits) it stays a float. -/
def retag (hex : Bool) (v : TaggedVal) : TaggedVal :=
  match v.type with
  | .int => v.canon
  | .string => v.canon
  | .hex => if hex then v.canon else { type := .int, valueInt := (v.valueHex : Int) }
  | .float =>
    if containsDot v.valueFloat then v.canon
    else match parseInt v.valueFloat with
      | some i => { type := .int, valueInt := i }
      | none => v.canon

def normAttributeDefault (hex : Bool) (d : AttributeDefault) : AttributeDefault :=
  d.withVal (retag hex d.val)

def normAttributeValue (hex : Bool) (v : AttributeValue) : AttributeValue :=
  v.withVal (retag hex v.val)

/-- What writer + parser turn a well-formed document into.  Clauses:
1. `version`: `""` becomes `"_"` — KNOWN DEFECT D44 (`writeFile` prints `VERSION "_"` for an empty
   version; pinned by a test of the Go repository);
2. `newSymbols`: `nil` becomes the default list `newSymbolsValues` (`writeFile` prints the
   default `NS_` section when the pointer is nil);
3. `bitTiming`: `nil` becomes the zero bit timing (`writeFile` prints `BS_:` when the pointer
   is nil, the parser allocates a `BitTiming` for every `BS_`);
4. `attributeDefaults`, 5. `attributeValues`: numeric values are re-tagged by `retag`
   (same number, `NumEq`); on well-formed documents (`x.canon = x`) nothing else changes.
Every other field, `nodes == nil` included, is unchanged. -/
def norm (hex : Bool) (f : File) : File :=
  { f with
    version := if f.version = "" then "_" else f.version
    newSymbols := some (f.newSymbols.getD newSymbolsValues)
    bitTiming := some (f.bitTiming.getD {})
    attributeDefaults := f.attributeDefaults.map (normAttributeDefault hex)
    attributeValues := f.attributeValues.map (normAttributeValue hex) }

/-- "Numeric attribute values compared by value": same tag and payload, or a `hex`/`int` pair
with the same value, or a `float` whose text (no `.`) is the decimal text of the `int`. -/
inductive NumEq : TaggedVal → TaggedVal → Prop
  | refl (v : TaggedVal) : NumEq v v.canon
  | hexInt (v : TaggedVal) : v.type = .hex → NumEq v { type := .int, valueInt := (v.valueHex : Int) }
  | floatInt (v : TaggedVal) (i : Int) : v.type = .float → containsDot v.valueFloat = false →
      parseInt v.valueFloat = some i → NumEq v { type := .int, valueInt := i }

/-! ## well-formed documents -/

section
variable (fl : String → Bool)

def valueDescriptionOK (vd : ValueDescription) : Bool := u32 vd.id && strOK vd.name

def valueTableOK (vt : ValueTable) : Bool := identOK vt.name && vt.values.all valueDescriptionOK

/-- every signal has ≥ 1 receiver; `muxSwitchValue = 0` when not multiplexed (the text has no
place for it) -/
def signalOK (s : Signal) : Bool :=
  identOK s.name && u32 s.muxSwitchValue && (s.isMultiplexed || s.muxSwitchValue == 0) &&
  u32 s.size && u32 s.startBit && fl s.factor && fl s.offset && fl s.min && fl s.max &&
  strOK s.unit && !s.receivers.isEmpty && s.receivers.all identOK

def messageOK (m : Message) : Bool :=
  u32 m.id && identOK m.name && u32 m.size && identOK m.transmitter && m.signals.all (signalOK fl)

def messageTransmitterOK (t : MessageTransmitter) : Bool :=
  u32 t.messageID && t.transmitters.all identOK

/-- every environment variable has ≥ 1 access node -/
def envVarOK (e : EnvVar) : Bool :=
  identOK e.name && fl e.min && fl e.max && strOK e.unit && fl e.initialValue && u32 e.id &&
  !e.accessNodes.isEmpty && e.accessNodes.all identOK

def envVarDataOK (d : EnvVarData) : Bool := identOK d.envVarName && u32 d.dataSize

def signalTypeOK (t : SignalType) : Bool :=
  identOK t.typeName && u32 t.size && fl t.factor && fl t.offset && fl t.min && fl t.max &&
  strOK t.unit && fl t.defaultValue && identOK t.valueTableName

def signalTypeRefOK (r : SignalTypeRef) : Bool :=
  identOK r.typeName && u32 r.messageID && identOK r.signalName

def commentOK (c : Comment) : Bool :=
  strOK c.text && decide (c.canon = c) &&
  (match c.kind with
   | .general => true
   | .node => identOK c.nodeName
   | .message => u32 c.messageID
   | .signal => u32 c.messageID && identOK c.signalName
   | .envVar => identOK c.envVarName)

def attributeOK (a : Attribute) : Bool :=
  attrNameOK a.name && decide (a.canon = a) &&
  (match a.type with
   | .int => i64 a.minInt && i64 a.maxInt
   | .hex => u32 a.minHex && u32 a.maxHex
   | .float => fl a.minFloat && fl a.maxFloat
   | .string => true
   | .enum => a.enumValues.all strOK)

def taggedValOK (v : TaggedVal) : Bool :=
  decide (v.canon = v) &&
  (match v.type with
   | .int => i64 v.valueInt
   | .hex => u32 v.valueHex
   | .float => fl v.valueFloat
   | .string => strOK v.valueString)

def attributeDefaultOK (d : AttributeDefault) : Bool :=
  attrNameOK d.attributeName && taggedValOK fl d.val

/-- (the attribute name of a `BA_` entry is any string: the parser does not check it) -/
def attributeValueOK (v : AttributeValue) : Bool :=
  strOK v.attributeName && taggedValOK fl v.val &&
  decide (v.withVal v.val = v) &&
  (match v.attributeKind with
   | .general => true
   | .node => identOK v.nodeName
   | .message => u32 v.messageID
   | .signal => u32 v.messageID && identOK v.signalName
   | .envVar => identOK v.envVarName)

def valueEncodingOK (e : ValueEncoding) : Bool :=
  decide (e.canon = e) && e.values.all valueDescriptionOK &&
  (match e.kind with
   | .signal => u32 e.messageID && identOK e.signalName
   | .envVar => identOK e.envVarName)

def signalGroupOK (g : SignalGroup) : Bool :=
  u32 g.messageID && identOK g.groupName && u32 g.repetitions && g.signalNames.all identOK

def signalExtValueTypeOK (t : SignalExtValueType) : Bool := u32 t.messageID && identOK t.signalName

def extendedMuxRangeOK (r : ExtendedMuxRange) : Bool := u32 r.from_ && u32 r.to

/-- every extended multiplexing entry has ≥ 1 range -/
def extendedMuxOK (m : ExtendedMux) : Bool :=
  u32 m.messageID && identOK m.multiplexorName && identOK m.multiplexedName &&
  !m.ranges.isEmpty && m.ranges.all extendedMuxRangeOK

def bitTimingOK (b : BitTiming) : Bool := u32 b.baudrate && u32 b.bitTimingReg1 && u32 b.bitTimingReg2

/-- the sections of a document are expressible in the DBC grammar (`hex` is not needed: every
number is expressible in both modes; the modes differ in `norm`) -/
def fileOK (f : File) : Bool :=
  strOK f.version &&
  (match f.newSymbols with
   | some syms => syms.all (fun s => newSymbolsValues.contains s)
   | none => true) &&
  (match f.bitTiming with
   | some b => bitTimingOK b
   | none => true) &&
  (match f.nodes with
   | some ns => ns.all identOK
   | none => true) &&
  f.valueTables.all valueTableOK &&
  f.messages.all (messageOK fl) &&
  f.messageTransmitters.all messageTransmitterOK &&
  f.envVars.all (envVarOK fl) &&
  f.envVarDatas.all envVarDataOK &&
  f.signalTypes.all (signalTypeOK fl) &&
  f.comments.all commentOK &&
  f.attributes.all (attributeOK fl) &&
  f.attributeDefaults.all (attributeDefaultOK fl) &&
  f.attributeValues.all (attributeValueOK fl) &&
  f.valueEncodings.all valueEncodingOK &&
  f.signalTypeRefs.all signalTypeRefOK &&
  f.signalGroups.all signalGroupOK &&
  f.signalExtValueTypes.all signalExtValueTypeOK &&
  f.extendedMuxes.all extendedMuxOK

end

/-- Bool version of `DbcWF` -/
def dbcWF (_hex : Bool) (f : File) : Bool := fileOK finiteFloatText f

/-- the document is expressible in the DBC grammar, floats being `FormatFloat` texts -/
def DbcWF (hex : Bool) (f : File) : Prop := dbcWF hex f = true

instance (hex : Bool) (f : File) : Decidable (DbcWF hex f) :=
  inferInstanceAs (Decidable (dbcWF hex f = true))

/-- the same with every `ParseFloat`-accepted number text as a float (parsed documents) -/
def DbcWFParsed (_hex : Bool) (f : File) : Prop := fileOK acceptedFloatText f = true

instance (hex : Bool) (f : File) : Decidable (DbcWFParsed hex f) :=
  inferInstanceAs (Decidable (fileOK acceptedFloatText f = true))

/-- attribute defaults / values are in the form the parser produces: `retag` is the identity
(`hex`-typed values only in hex-number mode, no `float` whose text is an integer text) and an
attribute value carries only the object fields its kind selects (`withVal v.val = v`; implied by
`DbcWF`).  The hypothesis of `C08_norm_id`. -/
def AttrNormal (hex : Bool) (f : File) : Prop :=
  (∀ d ∈ f.attributeDefaults, retag hex d.val = d.val) ∧
  (∀ v ∈ f.attributeValues, retag hex v.val = v.val ∧ v.withVal v.val = v)

/-! ## scanner image -/

/-- the characters of the scanner's number tokens (`scanNumber`, `scanHexNumber`,
`scanExpNumber`): sign, digits, `.`, exponent mark, hex prefix and hex digits -/
def isNumberTextChar (c : Char) : Bool :=
  c.isDigit || c == '.' || c == '+' || c == '-' || c == 'x' || c == 'X' ||
  ('a' ≤ c && c ≤ 'f') || ('A' ≤ c && c ≤ 'F')

/-- a token the scanner can emit.  What the scanner guarantees (scanner.go) and the parser relies
on: an `ident` is a word that is neither a keyword nor mux-indicator shaped; a `keyword` is in
the keyword table; a mux indicator is a word of that shape; a string has no `"` and no NUL; a
number starts with a digit or a sign and consists of number characters; a number range starts
with a digit and contains a `-`; a punct is one of the eleven punctuation characters.  (The
parser validates the inside of numbers itself.) -/
def tokenOK : Token → Bool
  | .ident v => identOK v
  | .keyword v => isKeywordStr v
  | .muxIndicator v => decide (classifyWord v = .muxIndicator v)
  | .string v => strOK v
  | .number v =>
    (match v.toList with
     | [] => false
     | c :: _ => c.isDigit || c == '+' || c == '-') && v.toList.all isNumberTextChar
  | .numberRange v =>
    (match v.toList with
     | [] => false
     | c :: cs => c.isDigit && cs.any (· == '-')) && v.toList.all isNumberTextChar
  | .punct v => ["(", ")", "[", "]", ":", ",", "|", ";", "@", "+", "-"].contains v
  | .eof => true
  | .error _ => true

/-- the token list is in the image of the scanner -/
def TokensWF (ts : List Token) : Prop := ∀ t ∈ ts, tokenOK t = true

instance (ts : List Token) : Decidable (TokensWF ts) :=
  inferInstanceAs (Decidable (∀ t ∈ ts, tokenOK t = true))

end Acme.Dbc
