/-
Specification for the payload world (C01 part 2, C02 freshness, C03 enum width over
histories, C04 for signal / value keys, C06 for the payload mutators): the invariant and
the admissible operations, written independently of `step`.
-/
import Acme.Core.Payload
import Acme.Spec.Layout
import Acme.Spec.Bits

namespace Acme.Payload
open Acme.Layout Acme.Bits Acme.Arith

/-- the enum a signal references, if it is an enum signal -/
def enumOf (w : W) (s : Nat) : Option Nat :=
  match w.sigs.get s with
  | some sg => match sg.kind with | .enm e => some e | _ => none
  | none => none

/-- The model invariant.  `wf` is C01's first sentence for every message; `fresh` is C02's
    last clause; `enumMax` feeds C03's enum-width clause; `names`, `valIdx`, `valNames`
    are C04 for signals of a message and values of an enum. -/
structure Inv (w : W) : Prop where
  typesPos : ∀ t ty, w.types.get t = some ty → 0 < ty.size
  sigKind : ∀ s sg, w.sigs.get s = some sg →
      match sg.kind with
      | .std t => (w.types.get t).isSome
      | .enm e => (w.enums.get e).isSome
      | .mux gc gs => 0 < gc ∧ 0 < gs
  msgCap : ∀ m msg, w.msgs.get m = some msg → msg.cap = msg.sizeByte * 8 ∧ 0 ≤ msg.sizeByte
  layoutParent : ∀ m msg s, w.msgs.get m = some msg → s ∈ msg.layout →
      ∃ sg, w.sigs.get s = some sg ∧ sg.parent = some m ∧ sg.be = msg.be
  parentLayout : ∀ s sg m, w.sigs.get s = some sg → sg.parent = some m →
      ∃ msg, w.msgs.get m = some msg ∧ s ∈ msg.layout
  layoutNodup : ∀ m msg, w.msgs.get m = some msg → msg.layout.Nodup
  wf : ∀ m msg, w.msgs.get m = some msg → WF msg.cap (slotsOf w msg.layout)
  fresh : ∀ m msg, w.msgs.get m = some msg → msg.filters = genFilters (slotsBe w msg.layout)
  names : ∀ m msg, w.msgs.get m = some msg → (msg.layout.map (sigName w)).Nodup
  enumRefs : ∀ e en, w.enums.get e = some en →
      en.refs.Nodup ∧ ∀ s, s ∈ en.refs ↔ enumOf w s = some e
  enumVals : ∀ e en, w.enums.get e = some en →
      en.values.Nodup ∧ ∀ v ∈ en.values, ∃ val, w.vals.get v = some val ∧ val.parent = some e ∧ 0 ≤ val.index
  valParent : ∀ v val e, w.vals.get v = some val → val.parent = some e →
      ∃ en, w.enums.get e = some en ∧ v ∈ en.values
  valIdx : ∀ e en, w.enums.get e = some en → (en.values.map (valIndex w)).Nodup
  valNames : ∀ e en, w.enums.get e = some en → (en.values.map (valName w)).Nodup
  enumMax : ∀ e en, w.enums.get e = some en → en.maxIndex = trueMaxIndex w en.values
  /-- D74 region excluded: the signals of one layout reference pairwise different enums -/
  refsApart : ∀ m msg, w.msgs.get m = some msg → (msg.layout.filterMap (enumOf w)).Nodup

/-- Operations inside the modelled region: the step is supported (no re-attachment of an
    entity that has a parent, no kind confusion, fresh ids for constructors) and it does not
    put two signals referencing the same enum into one layout (D74). -/
def OpOK (w : W) (op : Op) : Prop :=
  (step w op).2 ≠ .unsupported ∧
  match op with
  | .msgAppend m s | .msgInsert m s _ =>
    ∀ msg e, w.msgs.get m = some msg → enumOf w s = some e → e ∉ msg.layout.filterMap (enumOf w)
  | .sigSetEnum s e =>
    ∀ sg m msg, w.sigs.get s = some sg → sg.parent = some m → w.msgs.get m = some msg →
      e ∉ (msg.layout.filter (· ≠ s)).filterMap (enumOf w)
  -- domain restriction (message sizes are non-negative; C01 quantifies over 0..8 bytes): `NewMessage` accepts a negative size (`msgNew m (-1)`): the message then has
  -- a negative payload size, `msgCap` and `wf` (0 ≤ cap) fail.  Reproduced by `[.msgNew 1 (-1)]`.
  | .msgNew _ k => 0 ≤ k
  | _ => True

/-- worlds reachable from the empty one by admissible operations -/
inductive Reach : W → Prop where
  | init : Reach {}
  | step (w : W) (op : Op) : Reach w → OpOK w op → Reach (Acme.Payload.step w op).1

end Acme.Payload
