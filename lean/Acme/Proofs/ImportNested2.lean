/-
Message-level importer model, part 7: the matching between the signals of the file and the
entries of the imported tree when multiplexors are nested (case "several multiplexors" in full).
-/
import Acme.Spec.Import
import Acme.Proofs.ImportNested

namespace Acme.Import
open Acme.Layout Acme.Conv Acme.Arith

def muxorEntry (n : MuxNode) : Entry := ⟨n.name, n.selW, n.start, .muxor⟩

def stepSigs (steps : List Step) (s : Step) : List DSig :=
  (if s.isTop then [s.mx] else []) ++ (s.kids ++ s.pend.map (origOf steps))

def stepEntries (F : List MuxNode) (s : Step) : List Entry :=
  (if s.isTop then [muxorEntry s.n] else []) ++ nodeEntriesN F s.n

theorem steps_matching (exts : List DExt) (F : List MuxNode) (steps : List Step)
    (hok : ∀ s ∈ steps, StepOK exts s) (hmx : ∀ s ∈ steps, s.mx.isMultiplexor = true)
    (hF : (F.map (·.name)).Nodup) (hnd : (steps.map (·.mx.name)).Nodup)
    (hkids : ∀ s ∈ steps, ∀ k ∈ s.kids, k.isMultiplexor = false)
    (hpend : ∀ s ∈ steps, ∀ k ∈ s.pend, ∃ q ∈ steps, k = q.kid ∧ q.n ∈ F) :
    ∀ sub : List Step, (∀ s ∈ sub, s ∈ steps) →
    Matching exts (sub.flatMap (stepSigs steps)) (sub.flatMap (stepEntries F))
  | [], _ => Matching.nil exts
  | s :: r, hsub => by
    have hs := hsub s (List.mem_cons_self ..)
    rw [List.flatMap_cons, List.flatMap_cons]
    refine Matching.append ?_ (steps_matching exts F steps hok hmx hF hnd hkids hpend r
      (fun q hq => hsub q (List.mem_cons_of_mem _ hq)))
    unfold stepSigs stepEntries
    refine Matching.append ?_ ?_
    · cases s.isTop
      · exact Matching.nil exts
      · exact Matching.single ⟨(hok s hs).name, (hok s hs).selW, (hok s hs).start, hmx s hs⟩
    · refine step_matching exts F steps s (hok s hs) hF hnd (hkids s hs) ?_
      intro k hk
      obtain ⟨q, hq, hkq, hqF⟩ := hpend s hs k hk
      exact ⟨q, hq, hkq, hok q hq, hmx q hq, hqF⟩

theorem flatMap_append_perm {α β : Type} (f g : α → List β) : ∀ l : List α,
    (l.flatMap (fun x => f x ++ g x)).Perm (l.flatMap f ++ l.flatMap g)
  | [] => List.Perm.refl _
  | a :: r => by
    simp only [List.flatMap_cons]
    have ih := flatMap_append_perm f g r
    refine (List.Perm.append_left _ ih).trans ?_
    -- f a ++ g a ++ (F ++ G)  ~  f a ++ F ++ (g a ++ G)
    rw [List.append_assoc, List.append_assoc]
    refine List.Perm.append_left _ ?_
    rw [← List.append_assoc, ← List.append_assoc]
    exact List.Perm.append_right _ List.perm_append_comm

theorem flatMap_ite_top (sub : List Step) :
    sub.flatMap (fun s => if s.isTop then [s.mx] else []) = (sub.filter (·.isTop)).map (·.mx) := by
  induction sub with
  | nil => rfl
  | cons s r ih =>
    rw [List.flatMap_cons, ih, List.filter_cons]
    cases s.isTop <;> simp

theorem stepSigs_perm (steps sub : List Step) :
    (sub.flatMap (stepSigs steps)).Perm
      ((sub.filter (·.isTop)).map (·.mx) ++ (sub.flatMap (·.kids) ++ (sub.flatMap (·.pend)).map (origOf steps))) := by
  unfold stepSigs
  refine (flatMap_append_perm _ _ sub).trans ?_
  rw [flatMap_ite_top]
  refine List.Perm.append_left _ ?_
  refine (flatMap_append_perm _ _ sub).trans ?_
  refine List.Perm.append_left _ ?_
  rw [List.map_flatMap]

theorem stepEntries_perm (F : List MuxNode) (steps : List Step) :
    (((topNodes steps).map Item.mux).flatMap (itemEntriesN F) ++ (nestedNodes steps).flatMap (nodeEntriesN F)).Perm
      (steps.flatMap (stepEntries F)) := by
  have hsplit := (List.filter_append_perm (fun s : Step => s.isTop) steps).flatMap_right (stepEntries F)
  rw [List.flatMap_append] at hsplit
  refine List.Perm.trans ?_ hsplit
  have e1 : ((topNodes steps).map Item.mux).flatMap (itemEntriesN F) =
      (steps.filter (fun s => s.isTop)).flatMap (stepEntries F) := by
    unfold topNodes
    rw [List.map_map, List.flatMap_map]
    apply List.flatMap_congr
    intro s hs
    have := (List.mem_filter.1 hs).2
    simp [stepEntries, this, itemEntriesN, muxorEntry]
  have e2 : (nestedNodes steps).flatMap (nodeEntriesN F) =
      (steps.filter (fun s => !s.isTop)).flatMap (stepEntries F) := by
    unfold nestedNodes
    rw [List.flatMap_map]
    apply List.flatMap_congr
    intro s hs
    have := (List.mem_filter.1 hs).2
    have h' : s.isTop = false := by simpa using this
    simp [stepEntries, h']
  rw [e1, e2]

/-- case "several multiplexors", nesting included: the matching -/
theorem importMany_matchN (cap : Int) (exts : List DExt) (muxes sorted : List DSig) (top' : List Item)
    (nested' : List MuxNode)
    (h : importMany cap exts muxes sorted = .ok (top', nested')) (hcap : 0 ≤ cap)
    (hmuxes : muxes = sorted.filter (·.isMultiplexor))
    (hnames : ∀ s ∈ sorted, isMuxName muxes s = s.isMultiplexor)
    (hnd : (sorted.map (·.name)).Nodup) :
    Matching exts sorted (top'.flatMap (itemEntriesN nested') ++ nested'.flatMap (nodeEntriesN nested')) := by
  unfold importMany at h
  split at h
  · cases h
  · rename_i top1 groups hsplit
    obtain ⟨hinv1, hlen, hp1, hg, hpos⟩ := splitMany_spec cap exts muxes sorted [] _ top1 groups hsplit
      (by simp) (topInv_nil cap hcap)
    simp only [List.flatten_replicate_nil, List.append_nil] at hg hp1
    obtain ⟨steps, hwork, hmux, hpendS, hpar, _, ⟨tops, htop1, htop2⟩, hnest⟩ :=
      placeMuxes_trace cap exts muxes _ top1 [] [] top' nested' h
    rw [List.nil_append] at hnest
    -- the work list
    have hW1 : steps.map (·.mx) = muxes.reverse := by
      have : steps.map (·.mx) = (steps.map Step.work).map (fun w => w.1.1) := by
        rw [List.map_map]; rfl
      rw [this, hwork]
      have e : ((muxes.zip groups).zipIdx.reverse).map (fun w => w.1.1) =
          (((muxes.zip groups).zipIdx.reverse).map Prod.fst).map Prod.fst := by
        rw [List.map_map]; rfl
      rw [e, List.map_reverse, List.zipIdx_map_fst, List.map_reverse, List.map_fst_zip (by omega)]
    have hW2 : (steps.flatMap (·.kids)).Perm groups.flatten := by
      have : steps.flatMap (·.kids) = ((steps.map Step.work).map Prod.fst).flatMap Prod.snd := by
        rw [List.map_map, List.flatMap_map]; rfl
      rw [this, hwork, List.map_reverse, List.zipIdx_map_fst]
      refine ((List.reverse_perm _).flatMap_right _).trans ?_
      have e : (muxes.zip groups).flatMap Prod.snd = ((muxes.zip groups).map Prod.snd).flatten := by
        rw [List.flatten_eq_flatMap, List.flatMap_map]; simp
      rw [e, List.map_snd_zip (by omega)]
    have hJ : steps.map (·.j) = (List.range muxes.length).reverse := by
      have : steps.map (·.j) = (steps.map Step.work).map Prod.snd := by
        rw [List.map_map]; rfl
      rw [this, hwork, List.map_reverse, List.zipIdx_map_snd, List.length_zip, hlen, Nat.min_self,
        List.range_eq_range']
    have hJdesc : (steps.map (·.j)).Pairwise (· > ·) := by
      rw [hJ, List.pairwise_reverse]
      exact List.pairwise_lt_range
    have hJnd : (steps.map (·.j)).Nodup := by
      rw [hJ]
      exact (List.reverse_perm _).nodup_iff.2 List.nodup_range
    have hlenS : steps.length = muxes.length := by
      have := congrArg List.length hW1
      simpa using this
    -- membership
    have hmxmem : ∀ s ∈ steps, s.mx ∈ muxes := by
      intro s hs
      have : s.mx ∈ steps.map (·.mx) := List.mem_map.2 ⟨s, hs, rfl⟩
      rw [hW1] at this
      exact List.mem_reverse.1 this
    have hmxmux : ∀ s ∈ steps, s.mx.isMultiplexor = true := by
      intro s hs
      have := hmxmem s hs
      rw [hmuxes] at this
      exact (List.mem_filter.1 this).2
    have hgmem : ∀ k ∈ groups.flatten, k ∈ sorted ∧ isMuxName muxes k = false := by
      intro k hk
      have := (hg.mem_iff).1 hk
      obtain ⟨h1, h2⟩ := List.mem_filter.1 this
      simp only [Bool.and_eq_true, Bool.not_eq_true'] at h2
      exact ⟨h1, h2.1⟩
    have hkidmem : ∀ s ∈ steps, ∀ k ∈ s.kids, k ∈ groups.flatten := by
      intro s hs k hk
      exact hW2.mem_iff.1 (List.mem_flatMap.2 ⟨s, hs, hk⟩)
    have hkidpos : ∀ s ∈ steps, ∀ k ∈ s.kids, 0 < k.size := by
      intro s hs k hk
      obtain ⟨h1, h2⟩ := hgmem k (hkidmem s hs k hk)
      exact hpos k h1 h2
    have hkidnm : ∀ s ∈ steps, ∀ k ∈ s.kids, k.isMultiplexor = false := by
      intro s hs k hk
      obtain ⟨h1, h2⟩ := hgmem k (hkidmem s hs k hk)
      rw [← hnames k h1]; exact h2
    have hok := steps_ok exts steps [] hpendS (fun p hp => by cases hp) hmux hkidpos
    -- names
    have hmuxnd : (muxes.map (·.name)).Nodup := by
      rw [hmuxes]
      exact List.Nodup.sublist (List.Sublist.map _ List.filter_sublist) hnd
    have hstepnd : (steps.map (·.mx.name)).Nodup := by
      have : steps.map (·.mx.name) = (steps.map (·.mx)).map (·.name) := by rw [List.map_map]; rfl
      rw [this, hW1, List.map_reverse]
      exact (List.reverse_perm _).nodup_iff.2 hmuxnd
    have hFnd : (nested'.map (·.name)).Nodup := by
      rw [hnest]
      unfold nestedNodes
      rw [List.map_map]
      have e : (steps.filter (fun s => !s.isTop)).map ((fun x : MuxNode => x.name) ∘ fun s : Step => s.n) =
          (steps.filter (fun s => !s.isTop)).map (·.mx.name) := by
        apply List.map_congr_left
        intro s hs
        exact (hok s (List.mem_filter.1 hs).1).name
      rw [e]
      exact List.Nodup.sublist (List.Sublist.map _ List.filter_sublist) hstepnd
    -- the pending signals
    have hfin := stepsPend_final steps [] hpendS hJdesc hpar
    have hEfin : extraFinal [] steps = addedOf steps := by rw [extraFinal_eq]; simp
    have hpendmem : ∀ s ∈ steps, ∀ k ∈ s.pend, ∃ q ∈ steps, k = q.kid ∧ q.n ∈ nested' := by
      intro s hs k hk
      rw [hfin s hs, hEfin] at hk
      obtain ⟨p, hp, rfl⟩ := mem_pendingFor _ _ _ hk
      obtain ⟨q, hq, hqp, hqk⟩ := mem_addedOf steps p hp
      refine ⟨q, hq, hqk, ?_⟩
      rw [hnest]
      unfold nestedNodes
      refine List.mem_map.2 ⟨q, List.mem_filter.2 ⟨hq, ?_⟩, rfl⟩
      simp [Step.isTop, hqp]
    have hM := steps_matching exts nested' steps hok hmxmux hFnd hstepnd hkidnm hpendmem steps (fun s hs => hs)
    -- the leaves
    let tops0 := sorted.filter (fun s => !isMuxName muxes s && !s.isMultiplexed)
    have htopmux : ∀ s ∈ tops0, s.isMultiplexor = false := by
      intro s hs
      obtain ⟨h1, h2⟩ := List.mem_filter.1 hs
      simp only [Bool.and_eq_true, Bool.not_eq_true'] at h2
      rw [← hnames s h1]; exact h2.1
    have hM2 : Matching exts tops0 (tops0.map leafEntry) :=
      Matching.map tops0 leafEntry (fun s hs => leafEntry_rel exts s (htopmux s hs))
    have hall := Matching.append hM hM2
    -- entries
    have hleafE : ∀ l : List DSig, (l.map leafOf).flatMap (itemEntriesN nested') = l.map leafEntry := by
      intro l
      induction l with
      | nil => rfl
      | cons a r ih =>
        rw [List.map_cons, List.flatMap_cons, ih]
        rfl
    have hE : (steps.flatMap (stepEntries nested') ++ tops0.map leafEntry).Perm
        (top'.flatMap (itemEntriesN nested') ++ nested'.flatMap (nodeEntriesN nested')) := by
      have e1 : (top'.flatMap (itemEntriesN nested')).Perm
          (((topNodes steps).map Item.mux).flatMap (itemEntriesN nested') ++ tops0.map leafEntry) := by
        have := (htop1.trans (List.Perm.append htop2 hp1)).flatMap_right (itemEntriesN nested')
        rw [List.flatMap_append, hleafE] at this
        exact this
      have e2 := stepEntries_perm nested' steps
      rw [← hnest] at e2
      refine List.Perm.symm ?_
      refine (List.Perm.append_right _ e1).trans ?_
      rw [List.append_assoc]
      refine (List.Perm.append_left _ List.perm_append_comm).trans ?_
      rw [← List.append_assoc]
      exact List.Perm.append_right _ e2
    -- signals
    have hS : (steps.flatMap (stepSigs steps) ++ tops0).Perm sorted := by
      have e0 := stepSigs_perm steps steps
      -- the handed-over multiplexers are the nested multiplexors
      have e1 : ((steps.flatMap (·.pend)).map (origOf steps)).Perm ((steps.filter (fun s => !s.isTop)).map (·.mx)) := by
        have hb : (steps.flatMap (·.pend)).Perm ((addedOf steps).map (·.2)) := by
          have h1 : steps.flatMap (·.pend) = steps.flatMap (fun s => pendingFor (addedOf steps) s.j) := by
            apply List.flatMap_congr
            intro s hs
            rw [hfin s hs, hEfin]
          rw [h1]
          refine bucket_perm (fun s : Step => s.j) (addedOf steps) steps hJnd ?_
          intro p hp
          obtain ⟨q, hq, hqp, _⟩ := mem_addedOf steps p hp
          have hlt := hpar q hq p.1 hqp
          have hqj : q.j ∈ steps.map (·.j) := List.mem_map.2 ⟨q, hq, rfl⟩
          rw [hJ, List.mem_reverse, List.mem_range] at hqj
          rw [hJ, List.mem_reverse, List.mem_range]
          omega
        refine (hb.map (origOf steps)).trans ?_
        have h2 : ∀ l : List Step, (∀ q ∈ l, q ∈ steps) →
            ((addedOf l).map (·.2)).map (origOf steps) = (l.filter (fun s => !s.isTop)).map (·.mx) := by
          intro l
          induction l with
          | nil => intro _; rfl
          | cons q r ih =>
            intro hl
            have hq := hl q (List.mem_cons_self ..)
            have ihr := ih (fun x hx => hl x (List.mem_cons_of_mem _ hx))
            unfold addedOf at ihr ⊢
            rw [List.filterMap_cons, List.filter_cons]
            cases hp : q.parent with
            | none =>
              simp only [Option.map_none, Step.isTop, hp, Option.isNone_none, Bool.not_true,
                Bool.false_eq_true, if_false]
              exact ihr
            | some i =>
              simp only [Option.map_some, Step.isTop, hp, Option.isNone_some, Bool.not_false, if_true,
                List.map_cons]
              rw [origOf_kid steps hstepnd q hq]
              congr 1
        rw [h2 steps (fun q hq => hq)]
      have e2 : ((steps.filter (·.isTop)).map (·.mx) ++ (steps.filter (fun s => !s.isTop)).map (·.mx)).Perm muxes := by
        rw [← List.map_append]
        refine ((List.filter_append_perm _ steps).map _).trans ?_
        rw [hW1]
        exact List.reverse_perm _
      have e3 : (sorted.filter (·.isMultiplexor) ++ sorted.filter (fun s => !s.isMultiplexor)).Perm sorted :=
        List.filter_append_perm _ _
      have hL : sorted.filter (fun s => !s.isMultiplexor) = sorted.filter (fun s => !isMuxName muxes s) := by
        apply List.filter_congr
        intro s hs
        rw [hnames s hs]
      have e4 : (sorted.filter (fun s => !isMuxName muxes s && s.isMultiplexed) ++ tops0).Perm
          (sorted.filter (fun s => !s.isMultiplexor)) := by
        rw [hL]
        have := List.filter_append_perm (fun s : DSig => s.isMultiplexed) (sorted.filter (fun s => !isMuxName muxes s))
        rw [List.filter_filter, List.filter_filter] at this
        have c1 : sorted.filter (fun a => a.isMultiplexed && !isMuxName muxes a) =
            sorted.filter (fun s => !isMuxName muxes s && s.isMultiplexed) :=
          List.filter_congr (fun a _ => Bool.and_comm _ _)
        have c2 : sorted.filter (fun a => (!a.isMultiplexed) && !isMuxName muxes a) = tops0 :=
          List.filter_congr (fun a _ => Bool.and_comm _ _)
        rw [c1, c2] at this
        exact this
      -- put together
      refine (List.Perm.append_right _ e0).trans ?_
      have e5 : ((steps.filter (·.isTop)).map (·.mx) ++
          (steps.flatMap (·.kids) ++ (steps.flatMap (·.pend)).map (origOf steps)) ++ tops0).Perm
          (muxes ++ (groups.flatten ++ tops0)) := by
        have s1 : ((steps.filter (·.isTop)).map (·.mx) ++
            (steps.flatMap (·.kids) ++ (steps.flatMap (·.pend)).map (origOf steps))).Perm
            (((steps.filter (·.isTop)).map (·.mx) ++ (steps.filter (fun s => !s.isTop)).map (·.mx)) ++ groups.flatten) := by
          rw [List.append_assoc]
          refine List.Perm.append_left _ ?_
          exact (List.Perm.append hW2 e1).trans List.perm_append_comm
        refine (List.Perm.append_right _ s1).trans ?_
        rw [List.append_assoc]
        exact List.Perm.append e2 (List.Perm.refl _)
      refine e5.trans ?_
      refine (List.Perm.append_left _ ((List.Perm.append_right _ hg).trans e4)).trans ?_
      have e3' : (muxes ++ sorted.filter (fun s => !s.isMultiplexor)).Perm sorted := by
        rw [hmuxes]; exact e3
      exact e3'
    exact hall.perm hS hE

/-- without nested multiplexers the two flat views coincide -/
theorem entriesN_flat (t : ITree) (hn : t.nested = [])
    (hc : ∀ n, Item.mux n ∈ t.top → ∀ c ∈ n.children, c.isMux = false) : entriesN t = entries t := by
  unfold entriesN entries
  rw [hn, List.flatMap_nil, List.append_nil]
  apply List.flatMap_congr
  intro x hx
  cases x with
  | sig l => rfl
  | mux n =>
    simp only [itemEntriesN, itemEntries, nodeEntriesN]
    congr 1
    apply List.map_congr_left
    intro c hcm
    simp [childEntryN, hc n hx c hcm]

/-- (b) for every accepted import, nested multiplexors included -/
theorem importMsg_matchN (m : DMsg) (t : ITree) (h : importMsg m = .ok t) :
    Matching m.exts m.sigs (entriesN t) := by
  by_cases hn : t.nested = []
  · obtain ⟨_, _, _, _, _, _, _, _, _, hlink, hflat⟩ := importMsg_ok m t h
    rw [entriesN_flat t hn]
    · exact hflat hn
    · intro n hnt c hc
      cases hm : c.isMux
      · rfl
      · obtain ⟨n', hn', _⟩ := hlink n hnt c hc hm
        rw [hn] at hn'
        cases hn'
  · have h0 := h
    unfold importMsg at h
    dsimp only at h
    split at h
    · cases h
    · rename_i hfirst
      split at h
      · cases h
      · rename_i hsize
        have hcap : (0 : Int) ≤ 8 * (m.size : Int) := by omega
        have hsort := sortSigs_perm m.sigs
        have hnd : ((sortSigs m.sigs).map (·.name)).Nodup := (firstLoop_names _ _ _ [] hfirst).1
        have hinj : ∀ s ∈ sortSigs m.sigs, ∀ x ∈ sortSigs m.sigs, s.name = x.name → s = x :=
          fun s hs x hx hn => List.inj_on_of_nodup_map hnd hs hx hn
        split at h
        · cases h
        · rename_i top nested hres
          injection h with h
          subst h
          split at hres
          · obtain ⟨top0, _, hpair⟩ := except_map_ok _ _ _ hres
            injection hpair with e1 e2
            exact absurd e2.symm hn
          · obtain ⟨top0, _, hpair⟩ := except_map_ok _ _ _ hres
            injection hpair with e1 e2
            exact absurd e2.symm hn
          · have h1 : ∀ s ∈ sortSigs m.sigs,
                isMuxName ((sortSigs m.sigs).filter (·.isMultiplexor)) s = s.isMultiplexor := by
              intro s hs
              cases hb : s.isMultiplexor
              · cases hnm : isMuxName ((sortSigs m.sigs).filter (·.isMultiplexor)) s
                · rfl
                · obtain ⟨x, hx, hxn⟩ := List.any_eq_true.1 hnm
                  obtain ⟨hx1, hx2⟩ := List.mem_filter.1 hx
                  have := hinj s hs x hx1 (by have := hxn; simp at this; exact this.symm)
                  rw [this, hx2] at hb; cases hb
              · apply List.any_eq_true.2
                exact ⟨s, List.mem_filter.2 ⟨hs, hb⟩, by simp⟩
            have := importMany_matchN _ m.exts _ _ top nested hres hcap rfl h1 hnd
            exact this.perm hsort (List.Perm.refl _)

end Acme.Import
