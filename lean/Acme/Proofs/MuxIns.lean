/-
Multiplexer world, part N: `mux.ins` (`MultiplexerSignal.InsertSignal`) — the insertion loop.
-/
import Acme.Proofs.MuxRm2

namespace Acme.Mux
open Acme.Layout Acme.Arith

/-- the slice of a group after `s` was inserted at `st` -/
def insAt (w : MW) (g : List Nat) (s : Nat) (sz st : Int) : List Nat :=
  (Layout.insert (slotsOf w g) s sz st).map (·.id)

theorem groupInsert_get (w : MW) (x k s : Nat) (st : Int) (xe se : SigE)
    (hx : w.sigs.get x = some xe) (hs : w.sigs.get s = some se) (hxs : x ≠ s) (i : Nat) :
    (groupInsert w x k s st).sigs.get i =
      if i = s then some { se with rel := st }
      else if i = x then some { xe with mx := { xe.mx with groups := xe.mx.groups.set k (insAt w (xe.mx.groups.getD k []) s (sigSize se) st) } }
      else w.sigs.get i := by
  unfold groupInsert
  simp only [hs]
  rw [setRel_get, updMux_get, updMux_get, hx]
  have hsx : s ≠ x := fun e => hxs e.symm
  by_cases his : i = s
  · subst his
    simp [hsx, hs]
  · by_cases hix : i = x
    · subst hix
      simp [his, insAt, groupOf, hx]
    · simp [his, hix]

theorem groupInsert_msgs (w : MW) (x k s : Nat) (st : Int) : (groupInsert w x k s st).msgs = w.msgs := by
  unfold groupInsert
  split
  · rfl
  · simp only; exact updMux_msgs _ _ _

/-- the slot view of the new slice in a world that stores the new position of `s` -/
theorem slotsOf_insAt (w w' : MW) (g : List Nat) (s : Nat) (se : SigE) (st : Int)
    (hst : ∀ i ∈ g, (w.sigs.get i).isSome) (hsg : s ∉ g)
    (hs' : ∃ e', w'.sigs.get s = some e' ∧ e'.rel = st ∧ sigSize e' = sigSize se)
    (hrest : ∀ i ∈ g, (w'.sigs.get i).map geo = (w.sigs.get i).map geo) :
    slotsOf w' (insAt w g s (sigSize se) st) = Layout.insert (slotsOf w g) s (sigSize se) st := by
  unfold insAt
  apply slotsOf_of_pointwise
  intro sl hsl
  have hperm := insertAt_perm ⟨s, st, sigSize se⟩ (slotsOf w g)
  have := hperm.mem_iff.mp hsl
  simp only [List.mem_cons] at this
  rcases this with rfl | hmem
  · exact hs'
  · obtain ⟨hid, e, he, a1, a2⟩ := mem_slotsOf w g sl hmem
    have := hrest sl.id hid
    rw [he] at this
    cases hg : w'.sigs.get sl.id with
    | none => rw [hg] at this; simp at this
    | some e' =>
      rw [hg] at this
      simp only [Option.map_some, Option.some.injEq, geo, Prod.mk.injEq] at this
      exact ⟨e', rfl, by rw [this.1, a1], by rw [this.2, a2]⟩

theorem insertMany_spec (gs : Int) (x s : Nat) (st : Int) (hxs : x ≠ s) (ks : List Nat) :
    ∀ (w : MW) (xe se : SigE), w.sigs.get x = some xe → w.sigs.get s = some se → 0 < sigSize se →
    ks.Nodup → (ks ≠ [] ∨ se.rel = st) →
    (∀ k ∈ ks, k < xe.mx.groups.length ∧ WF gs (slotsOf w (xe.mx.groups.getD k [])) ∧
        (∀ i ∈ xe.mx.groups.getD k [], (w.sigs.get i).isSome) ∧
        verifyInsert gs (slotsOf w (xe.mx.groups.getD k [])) (sigSize se) st = .ok () ∧
        s ∉ xe.mx.groups.getD k []) →
    ∃ G' : List (List Nat), (insertMany w x s st ks).2 = false ∧ (insertMany w x s st ks).1.msgs = w.msgs ∧
      (∀ i, (insertMany w x s st ks).1.sigs.get i =
        if i = s then some { se with rel := st }
        else if i = x then some { xe with mx := { xe.mx with groups := G' } }
        else w.sigs.get i) ∧
      G'.length = xe.mx.groups.length ∧
      ∀ j, G'.getD j [] = if j ∈ ks then insAt w (xe.mx.groups.getD j []) s (sigSize se) st else xe.mx.groups.getD j [] := by
  induction ks with
  | nil =>
    intro w xe se hx hs _ _ hrel _
    refine ⟨xe.mx.groups, rfl, rfl, ?_, rfl, by simp⟩
    intro i
    have hr : se.rel = st := by rcases hrel with h | h; exact absurd rfl h; exact h
    simp only [insertMany]
    by_cases his : i = s
    · subst his; rw [if_pos rfl, hs]; congr 1; cases se; simp_all
    · by_cases hix : i = x
      · subst hix; rw [if_neg his, if_pos rfl, hx]
      · rw [if_neg his, if_neg hix]
  | cons k rest ih =>
    intro w xe se hx hs hsz hnd _ hks
    simp only [List.nodup_cons] at hnd
    obtain ⟨hklt, hkwf, hkst, hkv, hks'⟩ := hks k List.mem_cons_self
    simp only [insertMany]
    have hg1 := groupInsert_get w x k s st xe se hx hs hxs
    have hgeo1 : ∀ i, i ≠ s → ((groupInsert w x k s st).sigs.get i).map geo = (w.sigs.get i).map geo := by
      intro i his
      rw [hg1, if_neg his]
      by_cases hix : i = x
      · subst hix; simp [hx, geo, sigSize]
      · simp [hix]
    have hs1 : (groupInsert w x k s st).sigs.get s = some { se with rel := st } := by rw [hg1, if_pos rfl]
    have hx1 : (groupInsert w x k s st).sigs.get x = some { xe with mx := { xe.mx with groups := xe.mx.groups.set k (insAt w (xe.mx.groups.getD k []) s (sigSize se) st) } } := by
      rw [hg1, if_neg hxs, if_pos rfl]
    have hslots : slotsOf (groupInsert w x k s st) (insAt w (xe.mx.groups.getD k []) s (sigSize se) st) =
        Layout.insert (slotsOf w (xe.mx.groups.getD k [])) s (sigSize se) st := by
      apply slotsOf_insAt w _ _ s se st hkst hks'
      · exact ⟨_, hs1, rfl, rfl⟩
      · intro i hi
        exact hgeo1 i (by rintro rfl; exact hks' hi)
    have hins : verifyAndInsert gs (slotsOf w (xe.mx.groups.getD k [])) s (sigSize se) st =
        .ok (Layout.insert (slotsOf w (xe.mx.groups.getD k [])) s (sigSize se) st) := by
      simp only [verifyAndInsert, hkv]
    have hwfnew := (insert_wf gs _ hkwf s (sigSize se) st hsz _ hins).1
    have hnp : genPanics (groupInsert w x k s st) (groupOf (groupInsert w x k s st) x k) = false := by
      unfold groupOf
      rw [hx1]
      simp only
      rw [getD_set, if_pos ⟨rfl, hklt⟩]
      exact genPanics_false _ gs _ (by rw [hslots]; exact hwfnew)
    rw [hnp]
    simp only [Bool.false_eq_true, ↓reduceIte]
    have hunch : ∀ g : List Nat, s ∉ g → slotsOf (groupInsert w x k s st) g = slotsOf w g := by
      intro g hsg
      apply slotsOf_congr
      intro i hi
      exact hgeo1 i (by rintro rfl; exact hsg hi)
    obtain ⟨G', i1, i2, i3, i4, i5⟩ := ih (groupInsert w x k s st) _ _ hx1 hs1 (by simpa [sigSize] using hsz) hnd.2 (Or.inr rfl)
      (by
        intro k' hk'
        have hkk : k' ≠ k := by rintro rfl; exact hnd.1 hk'
        obtain ⟨a1, a2, a3, a4, a5⟩ := hks k' (List.mem_cons_of_mem _ hk')
        have hgd : (xe.mx.groups.set k (insAt w (xe.mx.groups.getD k []) s (sigSize se) st)).getD k' [] = xe.mx.groups.getD k' [] := by
          rw [getD_set, if_neg (by rintro ⟨hh, _⟩; exact hkk hh)]
        simp only
        rw [hgd, hunch _ a5]
        refine ⟨by simpa using a1, a2, ?_, by simpa [sigSize] using a4, a5⟩
        intro i hi
        have := a3 i hi
        rw [hg1]
        by_cases his : i = s
        · simp [his]
        · by_cases hix : i = x
          · subst hix; simp [his]
          · simp [his, hix, this])
    refine ⟨G', i1, ?_, ?_, ?_, ?_⟩
    · rw [i2, groupInsert_msgs]
    · intro i
      rw [i3, hg1]
      by_cases his : i = s
      · simp [his]
      · by_cases hix : i = x
        · simp [his, hix]
        · simp [his, hix]
    · rw [i4]; simp
    · intro j
      rw [i5]
      simp only [List.mem_cons]
      by_cases hjr : j ∈ rest
      · have hjk : j ≠ k := by rintro rfl; exact hnd.1 hjr
        simp only [hjr, or_true, ↓reduceIte]
        rw [getD_set, if_neg (by rintro ⟨hh, _⟩; exact hjk hh)]
        obtain ⟨_, _, _, _, a5⟩ := hks j (List.mem_cons_of_mem _ hjr)
        unfold insAt
        rw [hunch _ a5]
        rfl
      · simp only [hjr, or_false, ↓reduceIte]
        rw [getD_set]
        by_cases hjk : j = k
        · subst hjk; simp [hklt]
        · simp [hjk]

end Acme.Mux
