/-
The generated raw-value loop of `(*SignalLayout).Decode` (signal_layout.go; `K.decodeRaw` in
Acme/Gen/Kernels.lean) equals the hand-written `Acme.Bits.decodeRaw`.

The Go accumulator `rawValue` is a `uint64` (`BitVec 64`), the model's is an unbounded `Nat`: the
loop invariant is `rawValue = BitVec.ofNat 64 raw` (the model's value modulo 2^64).  The payload
bytes are `BitVec 8` on the Go side and `Nat` on the model's (`data.map BitVec.toNat`).  The
generated loop APPENDS a finished (id, raw) pair to `decodings` when the next signal begins and
after the loop; the model conses it in front of the result of the tail.
-/
import Acme.Gen.Kernels
import Acme.Core.Bits
import Acme.Proofs.Bits
import Acme.Proofs.GenKernelsBits

namespace Acme.GenK

open Acme.Gen Acme.Bits Acme.GoSem Acme.Layout

/-- what `Decode` keeps of the model's result: the signals for which `decodeSignal` does not
    return nil (`keep`), the raw value as the `uint64` it is -/
def rawOut (keep : Nat → Bool) (out : List (Nat × Nat)) : List (Nat × BitVec 64) :=
  (out.filter (fun p => keep p.1)).map (fun p => (p.1, BitVec.ofNat 64 p.2))

/-- the model's `none` (a byte index out of range) is the Go index panic -/
def resOfRaw (keep : Nat → Bool) : Option (List (Nat × Nat)) → Res (List (Nat × BitVec 64))
  | none => .panic
  | some out => .val (rawOut keep out)

/-- `rawValue <<= uint64(filter.length)` is the model's `<<< length.toNat` for a length that is
    a non-negative 64-bit value (only read for big-endian filters) -/
def LenOK (filters : List Filter) : Prop :=
  ∀ f ∈ filters, f.be = true → 0 ≤ f.length ∧ f.length < 2 ^ 64

theorem rawOut_nil (keep : Nat → Bool) : rawOut keep [] = [] := rfl

theorem rawOut_cons (keep : Nat → Bool) (p : Nat × Nat) (out : List (Nat × Nat)) :
    rawOut keep (p :: out) = rawOut keep [p] ++ rawOut keep out := by
  unfold rawOut
  by_cases h : keep p.1 = true <;> simp [h]

/-! ### the bit operations: `uint8` / `uint64` against `Nat` -/

theorem tmp8_toNat (b : BitVec 8) (mask off : Nat) :
    ((b &&& BitVec.ofNat 8 mask) >>> off).toNat = (b.toNat &&& mask) >>> off := by
  have hb : b.toNat < 2 ^ 8 := b.isLt
  have h1 : b.toNat &&& mask % 2 ^ 8 = b.toNat &&& mask := by
    have := Nat.and_mod_two_pow (a := b.toNat) (b := mask) (n := 8)
    have h3 : (b.toNat &&& mask) < 2 ^ 8 := Nat.lt_of_le_of_lt Nat.and_le_left hb
    rw [Nat.mod_eq_of_lt hb, Nat.mod_eq_of_lt h3] at this
    exact this.symm
  rw [BitVec.toNat_ushiftRight, BitVec.toNat_and, BitVec.toNat_ofNat, h1]

/-- `uint64((data[i] & mask) >> leftOffset)` (the mask of a filter is the `Nat` of a `uint8`;
    any `Nat` mask works: the byte is < 256) -/
theorem tmp_toNat (b : BitVec 8) (mask off : Nat) :
    (BitVec.setWidth 64 ((b &&& BitVec.ofNat 8 mask) >>> off)).toNat = (b.toNat &&& mask) >>> off := by
  rw [BitVec.toNat_setWidth, tmp8_toNat]
  have hb : b.toNat < 2 ^ 8 := b.isLt
  have h4 : (b.toNat &&& mask) >>> off ≤ b.toNat &&& mask := Nat.shiftRight_le _ _
  have h5 : b.toNat &&& mask ≤ b.toNat := Nat.and_le_left
  apply Nat.mod_eq_of_lt
  omega

/-- little endian: `tmpData <<= consumedBits; rawValue |= tmpData` -/
theorem le_step (r t c : Nat) (tb : BitVec 64) (h : tb.toNat = t) :
    BitVec.ofNat 64 r ||| (tb <<< c) = BitVec.ofNat 64 (r ||| t <<< c) := by
  apply BitVec.eq_of_toNat_eq
  simp [BitVec.toNat_or, BitVec.toNat_shiftLeft, h]

/-- big endian: `rawValue <<= length; rawValue |= tmpData` -/
theorem be_step (r t n : Nat) (tb : BitVec 64) (h : tb.toNat = t) :
    (BitVec.ofNat 64 r <<< n) ||| tb = BitVec.ofNat 64 ((r <<< n) ||| t) := by
  apply BitVec.eq_of_toNat_eq
  have ht : t < 2 ^ 64 := h ▸ tb.isLt
  simp [BitVec.toNat_or, BitVec.toNat_shiftLeft, h, Nat.shiftLeft_eq, Nat.mod_eq_of_lt ht]

/-- `uint64(filter.length)` as a shift count -/
theorem len_toNat (n : Int) (h0 : 0 ≤ n) (h : n < 2 ^ 64) : (BitVec.ofInt 64 n).toNat = n.toNat := by
  simp [BitVec.toNat_ofInt]
  omega

/-- `data[filter.byteIdx]`: the model's `chunk` reads the same byte, and is `none` exactly when
    the Go index expression panics -/
theorem chunk_eq (data : List (BitVec 8)) (f : Filter) :
    chunk (data.map BitVec.toNat) f =
      (index? data f.byteIdx).map (fun b =>
        (BitVec.setWidth 64 ((b &&& BitVec.ofNat 8 f.mask) >>> f.leftOffset.toNat)).toNat) := by
  unfold chunk index?
  by_cases h : f.byteIdx < 0
  · simp [h]
  · simp only [h, if_false, List.getElem?_map]
    cases data[f.byteIdx.toNat]? with
    | none => rfl
    | some b => simp only [Option.map_some, tmp_toNat]

/-! ### the loop -/

/-- the `if currSig != nil { if dec := sl.decodeSignal(currSig, rawValue); dec != nil { append } }`
    block, as the generated code spells it -/
theorem emit_eq (keep : Nat → Bool) (acc : List (Nat × BitVec 64)) (cur : Option Nat) (r : Nat) :
    (match cur with
      | some c =>
        (match (if keep c = true then some (c, BitVec.ofNat 64 r) else none : Option (Nat × BitVec 64)) with
          | some dec => acc ++ [dec]
          | none => acc)
      | none => acc) =
    acc ++ rawOut keep (match cur with | some c => [(c, r)] | none => []) := by
  cases cur with
  | none => simp [rawOut]
  | some c => by_cases h : keep c = true <;> simp [rawOut, h]

theorem after_eq (keep : Nat → Bool) (sigs : List (Acme.Layout.Slot × Bool)) (fs0 : List Filter)
    (data : List (BitVec 8)) (sc : Int) (acc : List (Nat × BitVec 64)) (consumed : Int)
    (prev cur : Option Nat) (r : Nat) :
    K.decodeRaw_after1 keep sigs fs0 data sc acc consumed prev cur (BitVec.ofNat 64 r) =
      .val (acc ++ rawOut keep (match cur with | some c => [(c, r)] | none => [])) := by
  unfold K.decodeRaw_after1
  exact congrArg Res.val (emit_eq keep acc cur r)

theorem int10 : ((1 : Int) = 0) = False := eq_false (by decide)

/-- the loop invariant: `prevEntID` and `currSig` are both the model's current id, `rawValue` is
    the model's raw value modulo 2^64, `consumedBits` is the model's; `decodings` is what was
    emitted so far -/
theorem loop_eq (keep : Nat → Bool) (sigs : List (Acme.Layout.Slot × Bool)) (fs0 : List Filter)
    (data : List (BitVec 8)) (sc : Int) :
    ∀ (filters : List Filter) (acc : List (Nat × BitVec 64)) (consumed : Int) (cur : Option Nat)
      (r : Nat), LenOK filters →
      K.decodeRaw_loop1 keep sigs fs0 data sc acc consumed cur cur (BitVec.ofNat 64 r) filters =
        match decodeLoop (data.map BitVec.toNat) filters cur r consumed with
        | none => .panic
        | some out => .val (acc ++ rawOut keep out) := by
  intro filters
  induction filters with
  | nil =>
    intro acc consumed cur r _
    unfold K.decodeRaw_loop1 decodeLoop
    rw [after_eq]
    cases cur <;> rfl
  | cons f rest ih =>
    intro acc consumed cur r hlen
    have hrest : LenOK rest := fun g hg => hlen g (List.mem_cons_of_mem _ hg)
    have hf := hlen f (List.mem_cons_self ..)
    unfold K.decodeRaw_loop1 decodeLoop
    rw [chunk_eq]
    by_cases hfresh : cur = some f.id
    · -- the same signal goes on
      subst hfresh
      cases hidx : index? data f.byteIdx with
      | none => simp only [Option.map_none]
      | some b =>
        cases hbe : f.be with
        | false =>
          simp only [ne_eq, not_true_eq_false, if_false, Option.map_some, Bool.false_eq_true, if_true,
            Bool.not_false]
          rw [tmp_toNat, le_step _ _ _ _ (tmp_toNat b f.mask f.leftOffset.toNat), ih _ _ _ _ hrest]
          cases decodeLoop (data.map BitVec.toNat) rest (some f.id) _ _ <;> rfl
        | true =>
          have hl := hf hbe
          simp only [ne_eq, not_true_eq_false, if_false, Option.map_some, if_true, int10,
            Bool.not_true, Bool.false_eq_true]
          rw [tmp_toNat, len_toNat _ hl.1 hl.2, be_step _ _ _ _ (tmp_toNat b f.mask f.leftOffset.toNat),
            ih _ _ _ _ hrest]
          cases decodeLoop (data.map BitVec.toNat) rest (some f.id) _ _ <;> rfl
    · -- a new signal begins: the finished one is emitted, the accumulators are reset
      have hne : ¬ (some f.id = cur) := fun h => hfresh h.symm
      cases hidx : index? data f.byteIdx with
      | none => simp only [Option.map_none]
      | some b =>
        cases hbe : f.be with
        | false =>
          simp only [ne_eq, hne, hfresh, not_false_eq_true, if_true, if_false, Option.map_some, Bool.false_eq_true,
            Bool.not_false]
          refine Eq.trans (congrArg (fun A => K.decodeRaw_loop1 keep sigs fs0 data sc A _ _ _ _ rest) (emit_eq keep acc cur r)) ?_
          rw [tmp_toNat, show (0#64) = BitVec.ofNat 64 0 from rfl,
            le_step _ _ _ _ (tmp_toNat b f.mask f.leftOffset.toNat), ih _ _ _ _ hrest]
          cases decodeLoop (data.map BitVec.toNat) rest (some f.id) _ _ with
          | none => rfl
          | some out =>
            cases cur with
            | none => simp only [rawOut_nil, List.append_nil]
            | some c => simp only [rawOut_cons keep (c, r) out, List.append_assoc]
        | true =>
          have hl := hf hbe
          simp only [ne_eq, hne, hfresh, not_false_eq_true, if_true, if_false, Option.map_some, int10,
            Bool.not_true, Bool.false_eq_true]
          refine Eq.trans (congrArg (fun A => K.decodeRaw_loop1 keep sigs fs0 data sc A _ _ _ _ rest) (emit_eq keep acc cur r)) ?_
          rw [tmp_toNat, show (0#64) = BitVec.ofNat 64 0 from rfl, len_toNat _ hl.1 hl.2,
            be_step _ _ _ _ (tmp_toNat b f.mask f.leftOffset.toNat), ih _ _ _ _ hrest]
          cases decodeLoop (data.map BitVec.toNat) rest (some f.id) _ _ with
          | none => rfl
          | some out =>
            cases cur with
            | none => simp only [rawOut_nil, List.append_nil]
            | some c => simp only [rawOut_cons keep (c, r) out, List.append_assoc]

/-- `Decode` = `Acme.Bits.decodeRaw` -/
theorem decodeRaw_eq (keep : Nat → Bool) (sigs : List (Acme.Layout.Slot × Bool)) (filters : List Filter)
    (data : List (BitVec 8)) (hsig : sigs = [] → filters = []) (hlen : LenOK filters) :
    K.decodeRaw keep sigs filters data =
      resOfRaw keep (Acme.Bits.decodeRaw filters (data.map BitVec.toNat)) := by
  unfold K.decodeRaw Acme.Bits.decodeRaw
  cases sigs with
  | nil =>
    rw [hsig rfl]
    rfl
  | cons s rest =>
    have h0 : ¬ (Int.ofNat (s :: rest).length = 0) := by
      simp only [List.length_cons, Int.ofNat_eq_natCast]
      omega
    simp only [h0, if_false]
    have := loop_eq keep (s :: rest) filters data (Int.ofNat (s :: rest).length) filters [] 0 none 0 hlen
    rw [show (0#64) = BitVec.ofNat 64 0 from rfl, this]
    cases decodeLoop (data.map BitVec.toNat) filters none 0 0 with
    | none => rfl
    | some out => simp only [resOfRaw, List.nil_append]

/-- the same over the model's payload (a list of `Nat` bytes) -/
theorem decodeRaw_eq_nat (keep : Nat → Bool) (sigs : List (Acme.Layout.Slot × Bool)) (filters : List Filter)
    (data : List Nat) (hd : ∀ b ∈ data, b < 256) (hsig : sigs = [] → filters = []) (hlen : LenOK filters) :
    K.decodeRaw keep sigs filters (data.map (BitVec.ofNat 8)) =
      resOfRaw keep (Acme.Bits.decodeRaw filters data) := by
  rw [decodeRaw_eq keep sigs filters _ hsig hlen, List.map_map]
  have : data.map (BitVec.toNat ∘ BitVec.ofNat 8) = data := by
    have h : ∀ b ∈ data, (BitVec.toNat ∘ BitVec.ofNat 8) b = id b := by
      intro b hb
      simp only [Function.comp, BitVec.toNat_ofNat, id]
      exact Nat.mod_eq_of_lt (hd b hb)
    rw [List.map_congr_left h, List.map_id]
  rw [this]

/-- the model does not fail when every filter's byte index is inside the payload -/
theorem decodeLoop_some (data : List Nat) :
    ∀ (filters : List Filter) (cur : Option Nat) (raw : Nat) (consumed : Int),
      (∀ f ∈ filters, 0 ≤ f.byteIdx ∧ f.byteIdx < data.length) →
      decodeLoop data filters cur raw consumed ≠ none := by
  intro filters
  induction filters with
  | nil =>
    intro cur raw consumed _
    unfold decodeLoop
    cases cur <;> simp
  | cons f rest ih =>
    intro cur raw consumed h
    have hf := h f (List.mem_cons_self ..)
    have hrest : ∀ g ∈ rest, 0 ≤ g.byteIdx ∧ g.byteIdx < data.length :=
      fun g hg => h g (List.mem_cons_of_mem _ hg)
    have hlt : f.byteIdx.toNat < data.length := by omega
    have hch : chunk data f = some ((data[f.byteIdx.toNat] &&& f.mask) >>> f.leftOffset.toNat) := by
      unfold chunk
      simp [Int.not_lt.mpr hf.1, List.getElem?_eq_getElem hlt]
    unfold decodeLoop
    simp only [hch]
    split
    · rename_i heq
      exact absurd heq (ih _ _ _ hrest)
    · split
      · split <;> simp
      · simp

/-- `data[filter.byteIdx]` never panics when every filter's byte index is inside the payload -/
theorem decodeRaw_no_panic (keep : Nat → Bool) (sigs : List (Acme.Layout.Slot × Bool)) (filters : List Filter)
    (data : List (BitVec 8)) (hsig : sigs = [] → filters = []) (hlen : LenOK filters)
    (hidx : ∀ f ∈ filters, 0 ≤ f.byteIdx ∧ f.byteIdx < data.length) :
    K.decodeRaw keep sigs filters data ≠ .panic := by
  rw [decodeRaw_eq keep sigs filters data hsig hlen]
  have := decodeLoop_some (data.map BitVec.toNat) filters none 0 0 (by simpa using hidx)
  unfold Acme.Bits.decodeRaw
  cases h : decodeLoop (data.map BitVec.toNat) filters none 0 0 with
  | none => exact absurd h this
  | some out => simp [resOfRaw]

/-- the Go index panic is exactly the model's `none` -/
theorem decodeRaw_panic_iff (keep : Nat → Bool) (sigs : List (Acme.Layout.Slot × Bool)) (filters : List Filter)
    (data : List (BitVec 8)) (hsig : sigs = [] → filters = []) (hlen : LenOK filters) :
    K.decodeRaw keep sigs filters data = .panic ↔
      Acme.Bits.decodeRaw filters (data.map BitVec.toNat) = none := by
  rw [decodeRaw_eq keep sigs filters data hsig hlen]
  cases Acme.Bits.decodeRaw filters (data.map BitVec.toNat) <;> simp [resOfRaw]

/-! ### end to end: the generated `Decode` over the generated `generateFilters` (property C02) -/

theorem multiLoop_be (id : Nat) (be : Bool) (startPos firstIdx lastIdx : Int) :
    ∀ (fuel : Nat) (i remaining : Int), ∀ f ∈ multiLoop id be startPos firstIdx lastIdx fuel i remaining, f.be = be := by
  intro fuel
  induction fuel with
  | zero => intro i remaining f hf; simp [multiLoop] at hf
  | succ n ih =>
    intro i remaining f hf
    unfold multiLoop at hf
    simp only [List.mem_cons] at hf
    rcases hf with h | h
    · subst h
      split
      · rfl
      · split
        · split <;> rfl
        · split <;> rfl
    · exact ih _ _ f h

theorem genFilters_be (be : Bool) (l : List Slot) :
    ∀ f ∈ genFilters (l.map (fun s => (s, be))), f.be = be := by
  intro f hf
  unfold genFilters at hf
  simp only [List.mem_flatMap, List.mem_map] at hf
  obtain ⟨p, ⟨s, _, rfl⟩, hf⟩ := hf
  simp only [sigFilters] at hf
  split at hf
  · simp only [List.mem_singleton] at hf
    subst hf; rfl
  · exact multiLoop_be _ _ _ _ _ _ _ _ f hf

/-- end to end, little endian: `Decode` over `generateFilters` (both as generated from the source)
    returns, for every well-formed layout and every payload of at least `n` bytes, the payload
    bits `start .. start+size-1` of each kept signal, in layout order, and never panics -/
theorem decode_le_gen (keep : Nat → Bool) (n : Nat) (l : List Slot) (hwf : WF (8 * n) l) (hn : IdsNodup l)
    (h64 : ∀ s ∈ l, s.size ≤ 64) (data : List (BitVec 8)) (hd : n ≤ data.length) :
    K.decodeRaw keep (l.map (fun s => (s, false))) (K.generateFilters (l.map (fun s => (s, false)))) data =
      .val (rawOut keep (l.map (fun s => (s.id, rawLE (data.map BitVec.toNat) s.start.toNat s.size.toNat)))) := by
  rw [generateFilters_eq]
  have hlen : LenOK (genFilters (l.map (fun s => (s, false)))) := by
    intro f hf hbe
    rw [genFilters_be false l f hf] at hbe
    exact absurd hbe (by decide)
  have hsig : l.map (fun s => (s, false)) = [] → genFilters (l.map (fun s => (s, false))) = [] := by
    intro h; rw [h]; rfl
  have hdata : DataOK n (data.map BitVec.toNat) := by
    refine ⟨by simpa using hd, ?_⟩
    intro b hb
    simp only [List.mem_map] at hb
    obtain ⟨x, _, rfl⟩ := hb
    exact x.isLt
  rw [decodeRaw_eq keep _ _ data hsig hlen, Acme.Bits.decode_le n l hwf hn h64 _ hdata]
  rfl

theorem chain_len {be : Bool} {id pos tot : Nat} {fs : List Filter} (h : Chain be id pos fs tot) :
    ∀ f ∈ fs, 1 ≤ f.length ∧ f.length ≤ 8 := by
  induction h with
  | nil => intro f hf; cases hf
  | cons hg _ ih =>
    intro f hf
    rcases List.mem_cons.mp hf with rfl | hf
    · obtain ⟨k, lo, _, _, _, hl, _, h1, h8, _⟩ := hg
      omega
    · exact ih f hf

theorem genFilters_len (cap : Int) (be : Bool) :
    ∀ (l : List Slot) (lo : Int), 0 ≤ lo → WFfrom lo cap l → (be = true → ∀ s ∈ l, BeOK s) →
      ∀ f ∈ genFilters (l.map (fun s => (s, be))), 1 ≤ f.length ∧ f.length ≤ 8 := by
  intro l
  induction l with
  | nil => intro lo _ _ _ f hf; simp [genFilters] at hf
  | cons s rest ih =>
    intro lo hlo hwf hok f hf
    obtain ⟨h1, h2, h3⟩ := hwf
    have hgen : genFilters ((s :: rest).map (fun s => (s, be))) =
        sigFilters s be ++ genFilters (rest.map (fun s => (s, be))) := by
      simp [genFilters]
    rw [hgen] at hf
    rcases List.mem_append.mp hf with hf | hf
    · exact chain_len (chain_sigFilters s be (by omega) (by omega) (fun hb => hok hb s (by simp))) f hf
    · exact ih (s.start + s.size) (by omega) h3 (fun hb t ht => hok hb t (by simp [ht])) f hf

/-- end to end, big endian (outside the known defect D08, hypothesis `BeOK`) -/
theorem decode_be_gen (keep : Nat → Bool) (n : Nat) (l : List Slot) (hwf : WF (8 * n) l) (hn : IdsNodup l)
    (h64 : ∀ s ∈ l, s.size ≤ 64) (hok : ∀ s ∈ l, BeOK s) (data : List (BitVec 8)) (hd : n ≤ data.length) :
    K.decodeRaw keep (l.map (fun s => (s, true))) (K.generateFilters (l.map (fun s => (s, true)))) data =
      .val (rawOut keep (l.map (fun s => (s.id, rawBE (data.map BitVec.toNat) s.start.toNat s.size.toNat)))) := by
  rw [generateFilters_eq]
  have hlen : LenOK (genFilters (l.map (fun s => (s, true)))) := by
    intro f hf _
    have := genFilters_len (8 * n) true l 0 (by omega) hwf (fun _ => hok) f hf
    omega
  have hsig : l.map (fun s => (s, true)) = [] → genFilters (l.map (fun s => (s, true))) = [] := by
    intro h; rw [h]; rfl
  have hdata : DataOK n (data.map BitVec.toNat) := by
    refine ⟨by simpa using hd, ?_⟩
    intro b hb
    simp only [List.mem_map] at hb
    obtain ⟨x, _, rfl⟩ := hb
    exact x.isLt
  rw [decodeRaw_eq keep _ _ data hsig hlen, Acme.Bits.decode_be n l hwf hn h64 hok _ hdata]
  rfl

end Acme.GenK
