/-
Payload world, part C: the invariant split into groups
  `InvV` (values of enums), `InvS` (graph structure), `WFAll`, `FreshAll`,
facts derived from the invariant, and congruence / frame lemmas for each group.
-/
import Acme.Proofs.PayloadBasic

namespace Acme.Payload
open Acme.Layout Acme.Bits Acme.Arith

/-! ### the groups -/

structure InvV (w : W) : Prop where
  enumVals : ∀ e en, w.enums.get e = some en →
      en.values.Nodup ∧ ∀ v ∈ en.values, ∃ val, w.vals.get v = some val ∧ val.parent = some e ∧ 0 ≤ val.index
  valParent : ∀ v val e, w.vals.get v = some val → val.parent = some e →
      ∃ en, w.enums.get e = some en ∧ v ∈ en.values
  valIdx : ∀ e en, w.enums.get e = some en → (en.values.map (valIndex w)).Nodup
  valNames : ∀ e en, w.enums.get e = some en → (en.values.map (valName w)).Nodup
  enumMax : ∀ e en, w.enums.get e = some en → en.maxIndex = trueMaxIndex w en.values

/-- the referenced type / enum exists, a multiplexer has positive dimensions -/
def KindOK (w : W) : SigKind → Prop
  | .std t => (w.types.get t).isSome
  | .enm e => (w.enums.get e).isSome
  | .mux gc gs => 0 < gc ∧ 0 < gs

structure InvS (w : W) : Prop where
  typesPos : ∀ t ty, w.types.get t = some ty → 0 < ty.size
  sigKind : ∀ s sg, w.sigs.get s = some sg → KindOK w sg.kind
  msgCap : ∀ m msg, w.msgs.get m = some msg → msg.cap = msg.sizeByte * 8 ∧ 0 ≤ msg.sizeByte
  layoutParent : ∀ m msg s, w.msgs.get m = some msg → s ∈ msg.layout →
      ∃ sg, w.sigs.get s = some sg ∧ sg.parent = some m ∧ sg.be = msg.be
  parentLayout : ∀ s sg m, w.sigs.get s = some sg → sg.parent = some m →
      ∃ msg, w.msgs.get m = some msg ∧ s ∈ msg.layout
  layoutNodup : ∀ m msg, w.msgs.get m = some msg → msg.layout.Nodup
  names : ∀ m msg, w.msgs.get m = some msg → (msg.layout.map (sigName w)).Nodup
  enumRefs : ∀ e en, w.enums.get e = some en →
      en.refs.Nodup ∧ ∀ s, s ∈ en.refs ↔ enumOf w s = some e
  refsApart : ∀ m msg, w.msgs.get m = some msg → (msg.layout.filterMap (enumOf w)).Nodup

def WFAll (w : W) : Prop := ∀ m msg, w.msgs.get m = some msg → WF msg.cap (slotsOf w msg.layout)

def FreshAll (w : W) : Prop := ∀ m, FreshM w m

theorem Inv.toV {w : W} (h : Inv w) : InvV w :=
  ⟨h.enumVals, h.valParent, h.valIdx, h.valNames, h.enumMax⟩

theorem Inv.toS {w : W} (h : Inv w) : InvS w :=
  ⟨h.typesPos, fun s sg hs => by
      have := h.sigKind s sg hs
      cases hk : sg.kind <;> rw [hk] at this <;> exact this, h.msgCap, h.layoutParent, h.parentLayout, h.layoutNodup, h.names,
   h.enumRefs, h.refsApart⟩

theorem Inv.toWF {w : W} (h : Inv w) : WFAll w := h.wf

theorem Inv.toFresh {w : W} (h : Inv w) : FreshAll w := fun m msg hm => h.fresh m msg hm

theorem Inv.ofParts {w : W} (hv : InvV w) (hs : InvS w) (hw : WFAll w) (hf : FreshAll w) : Inv w where
  typesPos := hs.typesPos
  sigKind := fun s sg h => by
    have := hs.sigKind s sg h
    cases hk : sg.kind <;> rw [hk] at this <;> exact this
  msgCap := hs.msgCap
  layoutParent := hs.layoutParent
  parentLayout := hs.parentLayout
  layoutNodup := hs.layoutNodup
  wf := hw
  fresh := fun m msg hm => hf m msg hm
  names := hs.names
  enumRefs := hs.enumRefs
  enumVals := hv.enumVals
  valParent := hv.valParent
  valIdx := hv.valIdx
  valNames := hv.valNames
  enumMax := hv.enumMax
  refsApart := hs.refsApart

/-! ### option helpers -/

theorem map_eq_some_left {α β : Type} {f : α → β} {a' a : Option α} (h : a'.map f = a.map f)
    {x' : α} (hx : a' = some x') : ∃ x, a = some x ∧ f x' = f x := by
  subst hx
  cases a with
  | none => simp at h
  | some x => exact ⟨x, rfl, by simpa using h⟩

theorem map_eq_some_right {α β : Type} {f : α → β} {a' a : Option α} (h : a'.map f = a.map f)
    {x : α} (hx : a = some x) : ∃ x', a' = some x' ∧ f x' = f x := by
  subst hx
  cases a' with
  | none => simp at h
  | some x' => exact ⟨x', rfl, by simpa using h⟩

theorem map_eq_isSome {α β : Type} {f : α → β} {a' a : Option α} (h : a'.map f = a.map f) :
    a'.isSome = a.isSome := by
  cases a' <;> cases a <;> simp_all

theorem filterMap_nodup_inj {α β : Type} {f : α → Option β} {a b : α} {e : β} :
    ∀ {l : List α}, (l.filterMap f).Nodup → a ∈ l → b ∈ l → f a = some e → f b = some e → a = b
  | [], _, ha, _, _, _ => by cases ha
  | x :: rest, hn, ha, hb, hea, heb => by
    rcases List.mem_cons.1 ha with rfl | ha'
    · rcases List.mem_cons.1 hb with rfl | hb'
      · rfl
      · rw [List.filterMap_cons, hea, List.nodup_cons] at hn
        exact absurd (List.mem_filterMap.2 ⟨b, hb', heb⟩) hn.1
    · rcases List.mem_cons.1 hb with rfl | hb'
      · rw [List.filterMap_cons, heb, List.nodup_cons] at hn
        exact absurd (List.mem_filterMap.2 ⟨a, ha', hea⟩) hn.1
      · rw [List.filterMap_cons] at hn
        cases hx : f x with
        | none => rw [hx] at hn; exact filterMap_nodup_inj hn ha' hb' hea heb
        | some y =>
          rw [hx, List.nodup_cons] at hn
          exact filterMap_nodup_inj hn.2 ha' hb' hea heb

/-! ### facts derived from the structure group -/

theorem InvS.sizeOf_pos {w : W} (h : InvS w) {s : Nat} {sg : SigE} (hs : w.sigs.get s = some sg) :
    0 < sizeOf w sg := by
  have hk := h.sigKind s sg hs
  unfold sizeOf
  cases hkind : sg.kind with
  | std t =>
    rw [hkind] at hk
    simp only [KindOK] at hk ⊢
    obtain ⟨ty, hty⟩ := Option.isSome_iff_exists.1 hk
    rw [hty]
    exact h.typesPos t ty hty
  | enm e =>
    rw [hkind] at hk
    simp only [KindOK] at hk ⊢
    obtain ⟨en, hen⟩ := Option.isSome_iff_exists.1 hk
    rw [hen]
    exact enumSizeOf_pos en
  | mux gc gs =>
    rw [hkind] at hk
    simp only [KindOK] at hk ⊢
    have := muxSelWidth_pos gc
    omega

theorem InvS.layout_present {w : W} (h : InvS w) {m : Nat} {msg : MsgE} (hm : w.msgs.get m = some msg) :
    ∀ i ∈ msg.layout, (w.sigs.get i).isSome := by
  intro i hi
  obtain ⟨sg, hsg, _⟩ := h.layoutParent m msg i hm hi
  rw [hsg]; rfl

theorem InvS.idsNodup {w : W} (h : InvS w) {m : Nat} {msg : MsgE} (hm : w.msgs.get m = some msg) :
    IdsNodup (slotsOf w msg.layout) :=
  slotsOf_idsNodup (h.layout_present hm) (h.layoutNodup m msg hm)

/-- a signal is in at most one layout -/
theorem InvS.layout_disjoint {w : W} (h : InvS w) {m m' : Nat} {msg msg' : MsgE}
    (hm : w.msgs.get m = some msg) (hm' : w.msgs.get m' = some msg') (hne : m ≠ m')
    {i : Nat} (hi : i ∈ msg.layout) : i ∉ msg'.layout := by
  intro hi'
  obtain ⟨sg, hsg, hp, _⟩ := h.layoutParent m msg i hm hi
  obtain ⟨sg', hsg', hp', _⟩ := h.layoutParent m' msg' i hm' hi'
  rw [hsg] at hsg'
  injection hsg' with e
  subst e
  rw [hp] at hp'
  injection hp' with e
  exact hne e

theorem InvS.noparent_notin {w : W} (h : InvS w) {m s : Nat} {msg : MsgE} {sg : SigE}
    (hm : w.msgs.get m = some msg) (hs : w.sigs.get s = some sg) (hp : sg.parent ≠ some m) :
    s ∉ msg.layout := by
  intro hi
  obtain ⟨sg', hsg', hp', _⟩ := h.layoutParent m msg s hm hi
  rw [hs] at hsg'
  injection hsg' with e
  subst e
  exact hp hp'

/-- two different signals of one layout reference different enums -/
theorem InvS.apart {w : W} (h : InvS w) {m : Nat} {msg : MsgE} (hm : w.msgs.get m = some msg)
    {a b e : Nat} (ha : a ∈ msg.layout) (hb : b ∈ msg.layout)
    (hea : enumOf w a = some e) (heb : enumOf w b = some e) : a = b := by
  exact filterMap_nodup_inj (h.refsApart m msg hm) ha hb hea heb

/-! ### congruence for the value group -/

theorem InvV.congr {w w' : W} (hv : ∀ v, w'.vals.get v = w.vals.get v)
    (he : ∀ e, (w'.enums.get e).map (fun en => (en.values, en.maxIndex)) =
               (w.enums.get e).map (fun en => (en.values, en.maxIndex)))
    (h : InvV w) : InvV w' := by
  have hidx : ∀ v, valIndex w' v = valIndex w v := fun v => valIndex_congr (by rw [hv])
  have hnm : ∀ v, valName w' v = valName w v := fun v => valName_congr (by rw [hv])
  have hidx' : valIndex w' = valIndex w := funext hidx
  have hnm' : valName w' = valName w := funext hnm
  have get : ∀ e en', w'.enums.get e = some en' →
      ∃ en, w.enums.get e = some en ∧ en'.values = en.values ∧ en'.maxIndex = en.maxIndex := by
    intro e en' h1
    obtain ⟨en, h2, h3⟩ := map_eq_some_left (he e) h1
    simp only [Prod.mk.injEq] at h3
    exact ⟨en, h2, h3.1, h3.2⟩
  constructor
  · intro e en' h1
    obtain ⟨en, h2, h3, _⟩ := get e en' h1
    rw [h3]
    have := h.enumVals e en h2
    refine ⟨this.1, fun v hv' => ?_⟩
    rw [hv]; exact this.2 v hv'
  · intro v val e h1 h2
    rw [hv] at h1
    obtain ⟨en, h3, h4⟩ := h.valParent v val e h1 h2
    obtain ⟨en', h5, h6⟩ := map_eq_some_right (he e) h3
    simp only [Prod.mk.injEq] at h6
    exact ⟨en', h5, by rw [h6.1]; exact h4⟩
  · intro e en' h1
    obtain ⟨en, h2, h3, _⟩ := get e en' h1
    rw [h3, hidx']; exact h.valIdx e en h2
  · intro e en' h1
    obtain ⟨en, h2, h3, _⟩ := get e en' h1
    rw [h3, hnm']; exact h.valNames e en h2
  · intro e en' h1
    obtain ⟨en, h2, h3, h4⟩ := get e en' h1
    rw [h3, h4, trueMaxIndex_congr (fun v _ => hidx v)]; exact h.enumMax e en h2

/-! ### congruence for the structure group -/

/-- a signal without its position -/
def SigE.core (s : SigE) : SigE := { s with rel := 0 }
/-- a message without its filters -/
def MsgE.core (m : MsgE) : MsgE := { m with filters := [] }

theorem SigE.core_eq {s' s : SigE} (h : s'.core = s.core) :
    s'.name = s.name ∧ s'.kind = s.kind ∧ s'.parent = s.parent ∧ s'.be = s.be := by
  cases s'; cases s
  simp only [SigE.core, SigE.mk.injEq] at h
  simp_all

theorem SigE.core_setRel (s : SigE) (r : Int) : ({ s with rel := r } : SigE).core = s.core := rfl

theorem MsgE.core_eq {m' m : MsgE} (h : m'.core = m.core) :
    m'.sizeByte = m.sizeByte ∧ m'.cap = m.cap ∧ m'.layout = m.layout ∧ m'.be = m.be := by
  cases m'; cases m
  simp only [MsgE.core, MsgE.mk.injEq] at h
  simp_all

theorem MsgE.core_setFilters (m : MsgE) (f : List Filter) : ({ m with filters := f } : MsgE).core = m.core := rfl

theorem InvS.congr {w w' : W} (ht : ∀ t, w'.types.get t = w.types.get t)
    (hs : ∀ s, (w'.sigs.get s).map SigE.core = (w.sigs.get s).map SigE.core)
    (hm : ∀ m, (w'.msgs.get m).map MsgE.core = (w.msgs.get m).map MsgE.core)
    (he : ∀ e, (w'.enums.get e).map (·.refs) = (w.enums.get e).map (·.refs))
    (h : InvS w) : InvS w' := by
  have gs : ∀ s sg', w'.sigs.get s = some sg' → ∃ sg, w.sigs.get s = some sg ∧
      sg'.name = sg.name ∧ sg'.kind = sg.kind ∧ sg'.parent = sg.parent ∧ sg'.be = sg.be := by
    intro s sg' h1
    obtain ⟨sg, h2, h3⟩ := map_eq_some_left (hs s) h1
    exact ⟨sg, h2, SigE.core_eq h3⟩
  have gs' : ∀ s sg, w.sigs.get s = some sg → ∃ sg', w'.sigs.get s = some sg' ∧
      sg'.name = sg.name ∧ sg'.kind = sg.kind ∧ sg'.parent = sg.parent ∧ sg'.be = sg.be := by
    intro s sg h1
    obtain ⟨sg', h2, h3⟩ := map_eq_some_right (hs s) h1
    exact ⟨sg', h2, SigE.core_eq h3⟩
  have gm : ∀ m msg', w'.msgs.get m = some msg' → ∃ msg, w.msgs.get m = some msg ∧
      msg'.sizeByte = msg.sizeByte ∧ msg'.cap = msg.cap ∧ msg'.layout = msg.layout ∧ msg'.be = msg.be := by
    intro m msg' h1
    obtain ⟨msg, h2, h3⟩ := map_eq_some_left (hm m) h1
    exact ⟨msg, h2, MsgE.core_eq h3⟩
  have gm' : ∀ m msg, w.msgs.get m = some msg → ∃ msg', w'.msgs.get m = some msg' ∧
      msg'.sizeByte = msg.sizeByte ∧ msg'.cap = msg.cap ∧ msg'.layout = msg.layout ∧ msg'.be = msg.be := by
    intro m msg h1
    obtain ⟨msg', h2, h3⟩ := map_eq_some_right (hm m) h1
    exact ⟨msg', h2, MsgE.core_eq h3⟩
  have hname : sigName w' = sigName w := by
    funext s
    apply sigName_congr
    have := congrArg (Option.map (·.name)) (hs s)
    simpa [Option.map_map, Function.comp_def, SigE.core] using this
  have henum : enumOf w' = enumOf w := by
    funext s
    apply enumOf_congr
    have := congrArg (Option.map (·.kind)) (hs s)
    simpa [Option.map_map, Function.comp_def, SigE.core] using this
  constructor
  · intro t ty h1
    rw [ht] at h1; exact h.typesPos t ty h1
  · intro s sg' h1
    obtain ⟨sg, h2, _, hk, _⟩ := gs s sg' h1
    have := h.sigKind s sg h2
    rw [hk]
    cases hkk : sg.kind with
    | std t => rw [hkk] at this; simpa [KindOK, ht] using this
    | enm e => rw [hkk] at this; simp only [KindOK] at this ⊢; rw [map_eq_isSome (he e)]; exact this
    | mux gc gs => rw [hkk] at this; exact this
  · intro m msg' h1
    obtain ⟨msg, h2, a, b, _⟩ := gm m msg' h1
    rw [a, b]; exact h.msgCap m msg h2
  · intro m msg' s h1 hin
    obtain ⟨msg, h2, _, _, c, d⟩ := gm m msg' h1
    rw [c] at hin
    obtain ⟨sg, h3, h4, h5⟩ := h.layoutParent m msg s h2 hin
    obtain ⟨sg', h6, _, _, p, q⟩ := gs' s sg h3
    exact ⟨sg', h6, by rw [p, h4], by rw [q, h5, d]⟩
  · intro s sg' m h1 hp
    obtain ⟨sg, h2, _, _, p, _⟩ := gs s sg' h1
    rw [p] at hp
    obtain ⟨msg, h3, h4⟩ := h.parentLayout s sg m h2 hp
    obtain ⟨msg', h5, _, _, c, _⟩ := gm' m msg h3
    exact ⟨msg', h5, by rw [c]; exact h4⟩
  · intro m msg' h1
    obtain ⟨msg, h2, _, _, c, _⟩ := gm m msg' h1
    rw [c]; exact h.layoutNodup m msg h2
  · intro m msg' h1
    obtain ⟨msg, h2, _, _, c, _⟩ := gm m msg' h1
    rw [c, hname]; exact h.names m msg h2
  · intro e en' h1
    obtain ⟨en, h2, h3⟩ := map_eq_some_left (he e) h1
    have h3' : en'.refs = en.refs := h3
    rw [h3', henum]; exact h.enumRefs e en h2
  · intro m msg' h1
    obtain ⟨msg, h2, _, _, c, _⟩ := gm m msg' h1
    rw [c, henum]; exact h.refsApart m msg h2

/-! ### frames for well-formedness and freshness -/

theorem slotAt_of_slotBeAt {w w' : W} {i : Nat} (h : slotBeAt w' i = slotBeAt w i) :
    slotAt w' i = slotAt w i := by
  have := congrArg (Option.map Prod.fst) h
  simpa [slotBeAt, slotAt, Option.map_map, Function.comp_def] using this

/-- the slots of a signal are unchanged when the signal and its size are -/
theorem slotBeAt_of_get {w w' : W} {i : Nat} (h : w'.sigs.get i = w.sigs.get i)
    (hsz : ∀ sg, w.sigs.get i = some sg → sizeOf w' sg = sizeOf w sg) :
    slotBeAt w' i = slotBeAt w i := by
  unfold slotBeAt
  rw [h]
  cases hg : w.sigs.get i with
  | none => rfl
  | some sg => simp [hsz sg hg]

/-- operations that touch no attached signal and no existing message keep `wf` and `fresh`;
    new messages are empty -/
theorem wf_fresh_frame {w w' : W} (hw : WFAll w) (hf : FreshAll w)
    (hm : ∀ m msg', w'.msgs.get m = some msg' →
      (w.msgs.get m = some msg' ∧ ∀ i ∈ msg'.layout, slotBeAt w' i = slotBeAt w i) ∨
      (msg'.layout = [] ∧ msg'.filters = [] ∧ 0 ≤ msg'.cap)) :
    WFAll w' ∧ FreshAll w' := by
  constructor
  · intro m msg' h1
    rcases hm m msg' h1 with ⟨h2, h3⟩ | ⟨h2, _, h4⟩
    · rw [slotsOf_congr (fun i hi => slotAt_of_slotBeAt (h3 i hi))]
      exact hw m msg' h2
    · rw [h2]; exact h4
  · intro m msg' h1
    rcases hm m msg' h1 with ⟨h2, h3⟩ | ⟨h2, h3, _⟩
    · rw [slotsBe_congr h3]
      exact hf m msg' h2
    · rw [h2, h3]; rfl

/-- operations on one message `m0` that end with regenerating its filters -/
theorem wf_fresh_regen {w w1 : W} (hS : InvS w) (hw : WFAll w) (hf : FreshAll w) (m0 : Nat)
    (hsz : ∀ i sg, w.sigs.get i = some sg → sizeOf w1 sg = sizeOf w sg)
    (hsig : ∀ i sg m, w.sigs.get i = some sg → sg.parent = some m → m ≠ m0 → w1.sigs.get i = some sg)
    (hmsg : ∀ m, m ≠ m0 → w1.msgs.get m = w.msgs.get m)
    (hwf : ∀ msg1, w1.msgs.get m0 = some msg1 → WF msg1.cap (slotsOf w1 msg1.layout)) :
    WFAll (regen w1 m0) ∧ FreshAll (regen w1 m0) := by
  have key : ∀ m msg, m ≠ m0 → w.msgs.get m = some msg →
      ∀ i ∈ msg.layout, slotBeAt w1 i = slotBeAt w i := by
    intro m msg hne hg i hi
    obtain ⟨sg, h1, h2, _⟩ := hS.layoutParent m msg i hg hi
    apply slotBeAt_of_get
    · rw [h1]; exact hsig i sg m h1 h2 hne
    · intro sg' h3; exact hsz i sg' h3
  constructor
  · intro m msg' h1
    obtain ⟨msg, h2, _, hc, hl, _, _, _⟩ := regen_msgs_some h1
    rw [regen_slotsOf, hc, hl]
    by_cases hmm : m = m0
    · subst hmm; exact hwf msg h2
    · rw [hmsg m hmm] at h2
      rw [slotsOf_congr (fun i hi => slotAt_of_slotBeAt (key m msg hmm h2 i hi))]
      exact hw m msg h2
  · intro m
    by_cases hmm : m = m0
    · subst hmm; exact regen_fresh_self w1 m
    · apply regen_fresh_other
      intro msg h2
      rw [hmsg m hmm] at h2
      rw [slotsBe_congr (key m msg hmm h2)]
      exact hf m msg h2

/-! ### `regen*` only change filters -/

theorem regen_msgs_core (w : W) (m m' : Nat) :
    ((regen w m).msgs.get m').map MsgE.core = (w.msgs.get m').map MsgE.core := by
  rw [regen_msgs_get]
  cases w.msgs.get m' with
  | none => rfl
  | some msg =>
    simp only [Option.map_some]
    split <;> rfl

theorem regenSig_msgs_core (w : W) (s m' : Nat) :
    ((regenSig w s).msgs.get m').map MsgE.core = (w.msgs.get m').map MsgE.core := by
  unfold regenSig
  cases w.sigs.get s with
  | none => rfl
  | some sg =>
    simp only
    cases sg.parent with
    | none => rfl
    | some m => exact regen_msgs_core w m m'

theorem regenSigs_msgs_core (w : W) (l : List Nat) (m' : Nat) :
    ((regenSigs w l).msgs.get m').map MsgE.core = (w.msgs.get m').map MsgE.core := by
  induction l generalizing w with
  | nil => rfl
  | cons s rest ih => unfold regenSigs; rw [ih, regenSig_msgs_core]

theorem InvS.regen {w : W} (h : InvS w) (m : Nat) : InvS (regen w m) :=
  InvS.congr (fun _ => by rw [regen_types]) (fun _ => by rw [regen_sigs])
    (regen_msgs_core w m) (fun _ => by rw [regen_enums]) h

theorem InvS.regenSig {w : W} (h : InvS w) (s : Nat) : InvS (regenSig w s) :=
  InvS.congr (fun _ => by rw [regenSig_types]) (fun _ => by rw [regenSig_sigs])
    (regenSig_msgs_core w s) (fun _ => by rw [regenSig_enums]) h

theorem InvS.regenSigs {w : W} (h : InvS w) (l : List Nat) : InvS (regenSigs w l) :=
  InvS.congr (fun _ => by rw [regenSigs_types]) (fun _ => by rw [regenSigs_sigs])
    (regenSigs_msgs_core w l) (fun _ => by rw [regenSigs_enums]) h

theorem InvV.regen {w : W} (h : InvV w) (m : Nat) : InvV (regen w m) :=
  InvV.congr (fun _ => by rw [regen_vals]) (fun _ => by rw [regen_enums]) h

theorem InvV.regenSig {w : W} (h : InvV w) (s : Nat) : InvV (regenSig w s) :=
  InvV.congr (fun _ => by rw [regenSig_vals]) (fun _ => by rw [regenSig_enums]) h

theorem InvV.regenSigs {w : W} (h : InvV w) (l : List Nat) : InvV (regenSigs w l) :=
  InvV.congr (fun _ => by rw [regenSigs_vals]) (fun _ => by rw [regenSigs_enums]) h

/-- `setStarts` only changes positions -/
theorem setStarts_core (sigs : AMap SigE) (sl : List Slot) (i : Nat) :
    ((setStarts sigs sl).get i).map SigE.core = (sigs.get i).map SigE.core := by
  rw [setStarts_get]
  cases sigs.get i <;> rfl

/-! ### field-wise congruences of the structure group -/

theorem KindOK.mono {w w' : W} {k : SigKind}
    (ht : ∀ t, (w.types.get t).isSome → (w'.types.get t).isSome)
    (he : ∀ e, (w.enums.get e).isSome → (w'.enums.get e).isSome) (h : KindOK w k) : KindOK w' k := by
  cases k with
  | std t => exact ht t h
  | enm e => exact he e h
  | mux gc gs => exact h

theorem InvS.kind_mono {w w' : W} (h : InvS w)
    (ht : ∀ t, (w.types.get t).isSome → (w'.types.get t).isSome)
    (he : ∀ e, (w.enums.get e).isSome → (w'.enums.get e).isSome)
    (hk : ∀ s sg', w'.sigs.get s = some sg' →
      (∃ sg, w.sigs.get s = some sg ∧ sg'.kind = sg.kind) ∨ KindOK w' sg'.kind) :
    ∀ s sg, w'.sigs.get s = some sg → KindOK w' sg.kind := by
  intro s sg' h1
  rcases hk s sg' h1 with ⟨sg, h2, h3⟩ | h2
  · rw [h3]; exact (h.sigKind s sg h2).mono ht he
  · exact h2

theorem InvS.names_congr {w w' : W} (h : InvS w)
    (hm : ∀ m msg', w'.msgs.get m = some msg' → ∃ msg, w.msgs.get m = some msg ∧
      msg'.layout = msg.layout ∧ ∀ s ∈ msg.layout, sigName w' s = sigName w s) :
    ∀ m msg, w'.msgs.get m = some msg → (msg.layout.map (sigName w')).Nodup := by
  intro m msg' h1
  obtain ⟨msg, h2, h3, h4⟩ := hm m msg' h1
  rw [h3, List.map_congr_left h4]
  exact h.names m msg h2

theorem InvS.apart_congr {w w' : W} (h : InvS w)
    (hm : ∀ m msg', w'.msgs.get m = some msg' → ∃ msg, w.msgs.get m = some msg ∧
      msg'.layout = msg.layout ∧ ∀ s ∈ msg.layout, enumOf w' s = enumOf w s) :
    ∀ m msg, w'.msgs.get m = some msg → (msg.layout.filterMap (enumOf w')).Nodup := by
  intro m msg' h1
  obtain ⟨msg, h2, h3, h4⟩ := hm m msg' h1
  rw [h3, List.filterMap_congr h4]
  exact h.refsApart m msg h2

theorem InvS.refs_congr {w w' : W} (h : InvS w)
    (he : ∀ e en', w'.enums.get e = some en' → ∃ en, w.enums.get e = some en ∧ en'.refs = en.refs)
    (hk : ∀ s, enumOf w' s = enumOf w s) :
    ∀ e en, w'.enums.get e = some en → en.refs.Nodup ∧ ∀ s, s ∈ en.refs ↔ enumOf w' s = some e := by
  intro e en' h1
  obtain ⟨en, h2, h3⟩ := he e en' h1
  rw [h3]
  have := h.enumRefs e en h2
  exact ⟨this.1, fun s => by rw [hk]; exact this.2 s⟩

theorem InvS.links_congr {w w' : W} (h : InvS w)
    (hs : ∀ s, (w'.sigs.get s).map (fun x => (x.parent, x.be)) = (w.sigs.get s).map (fun x => (x.parent, x.be)))
    (hm : ∀ m, (w'.msgs.get m).map (fun x => (x.layout, x.be)) = (w.msgs.get m).map (fun x => (x.layout, x.be))) :
    (∀ m msg s, w'.msgs.get m = some msg → s ∈ msg.layout →
      ∃ sg, w'.sigs.get s = some sg ∧ sg.parent = some m ∧ sg.be = msg.be) ∧
    (∀ s sg m, w'.sigs.get s = some sg → sg.parent = some m →
      ∃ msg, w'.msgs.get m = some msg ∧ s ∈ msg.layout) ∧
    (∀ m msg, w'.msgs.get m = some msg → msg.layout.Nodup) := by
  refine ⟨?_, ?_, ?_⟩
  · intro m msg' s h1 hin
    obtain ⟨msg, h2, h3⟩ := map_eq_some_left (hm m) h1
    simp only [Prod.mk.injEq] at h3
    rw [h3.1] at hin
    obtain ⟨sg, h4, h5, h6⟩ := h.layoutParent m msg s h2 hin
    obtain ⟨sg', h7, h8⟩ := map_eq_some_right (hs s) h4
    simp only [Prod.mk.injEq] at h8
    exact ⟨sg', h7, by rw [h8.1, h5], by rw [h8.2, h6, h3.2]⟩
  · intro s sg' m h1 hp
    obtain ⟨sg, h2, h3⟩ := map_eq_some_left (hs s) h1
    simp only [Prod.mk.injEq] at h3
    rw [h3.1] at hp
    obtain ⟨msg, h4, h5⟩ := h.parentLayout s sg m h2 hp
    obtain ⟨msg', h6, h7⟩ := map_eq_some_right (hm m) h4
    simp only [Prod.mk.injEq] at h7
    exact ⟨msg', h6, by rw [h7.1]; exact h5⟩
  · intro m msg' h1
    obtain ⟨msg, h2, h3⟩ := map_eq_some_left (hm m) h1
    simp only [Prod.mk.injEq] at h3
    rw [h3.1]; exact h.layoutNodup m msg h2

theorem InvS.cap_congr {w w' : W} (h : InvS w)
    (hm : ∀ m, (w'.msgs.get m).map (fun x => (x.cap, x.sizeByte)) = (w.msgs.get m).map (fun x => (x.cap, x.sizeByte))) :
    ∀ m msg, w'.msgs.get m = some msg → msg.cap = msg.sizeByte * 8 ∧ 0 ≤ msg.sizeByte := by
  intro m msg' h1
  obtain ⟨msg, h2, h3⟩ := map_eq_some_left (hm m) h1
  simp only [Prod.mk.injEq] at h3
  rw [h3.1, h3.2]; exact h.msgCap m msg h2

theorem hasSigName_false {w : W} {l : List Nat} {n : String} (h : hasSigName w l n = false) :
    ∀ x ∈ l, sigName w x ≠ n := by
  intro x hx he
  unfold hasSigName at h
  rw [List.any_eq_false] at h
  exact h x hx (by simpa using he)

end Acme.Payload
