/-
C11 at message level, nested multiplexers, part 1: the facts about one multiplexer of an
expressible shape that may hold nested multiplexers (`MuxOKN` = `MuxOK` of Proofs/ExportMux.lean
without "no child is a multiplexer"; the lemmas `…N` are those of ExportMux.lean, restated for it),
and the multiplexer read back by `importMuxSignal` from ANY signals that carry the names,
positions, sizes and multiplexor flags of its children, given an SG_MUL_VAL_ entry for every
child (`importMux_nested`) — the switch values of the signals are not read.
-/
import Acme.Spec.ExportImportNested
import Acme.Proofs.ExportImport

namespace Acme.Import
open Acme.Layout Acme.Conv Acme.Arith
open Acme.Mux (sortInts compactAdj)

/-- what the proofs use of `MuxExpressible`, in convenient form -/
structure MuxOKN (n : MuxNode) : Prop where
  w1 : 1 ≤ n.selW
  w62 : n.selW ≤ 62
  gc : n.groupCount = calcValue n.selW
  gc2 : 2 ≤ n.groupCount
  gsPos : 0 < n.groupSize
  wf : GroupsWF n.groupCount n.groupSize n.children
  ids : ∀ c ∈ n.children, (∀ g ∈ c.gids, 0 ≤ g ∧ g < n.groupCount) ∧ c.gids.Pairwise (· < ·) ∧
      (c.gids.length : Int) < n.groupCount ∧ 0 < c.size
  tight : ∃ c ∈ n.children, c.rel + c.size = n.groupSize
  names : (n.children.map (·.name)).Nodup

/-- every child is a member of some group -/
theorem child_in_some_groupN (n : MuxNode) (h : MuxOKN n) (c : Child) (hc : c ∈ n.children) :
    ∃ k : Nat, (k : Int) < n.groupCount ∧ c.inGroup (k : Int) = true := by
  cases hg : c.gids with
  | nil => exact ⟨0, by have := h.gc2; omega, by simp [Child.inGroup, hg]⟩
  | cons g r =>
    have hgm : g ∈ c.gids := by rw [hg]; exact List.mem_cons_self ..
    obtain ⟨a, b⟩ := (h.ids c hc).1 g hgm
    refine ⟨g.toNat, by omega, ?_⟩
    have : ((g.toNat : Nat) : Int) = g := Int.toNat_of_nonneg a
    rw [this]
    simp only [Child.inGroup, Bool.or_eq_true]
    right
    simpa using hgm

theorem child_boundsN (n : MuxNode) (h : MuxOKN n) (c : Child) (hc : c ∈ n.children) :
    0 ≤ c.rel ∧ c.rel + c.size ≤ n.groupSize := by
  obtain ⟨k, hk, hin⟩ := child_in_some_groupN n h c hc
  have hm : c ∈ groupOf n.children (k : Int) := (mem_groupOf _ _ _).2 ⟨hc, hin⟩
  have hs : c.slot ∈ childSlots (groupOf n.children (k : Int)) := List.mem_map.2 ⟨c, hm, rfl⟩
  have := WFfrom_mem (h.wf k hk) c.slot hs
  exact ⟨this.1, this.2.2⟩

/-! ### the children the exporter sees -/

theorem seen_invN (n : MuxNode) (h : MuxOKN n) : SeenInv n.children (seenChildren n) :=
  (walkGroups_spec h.names _ [] ⟨fun p hp => (by cases hp), (by simp)⟩).1

theorem seen_memN (n : MuxNode) (h : MuxOKN n) (x : Child) :
    x ∈ (seenChildren n).map (·.1) ↔ x ∈ n.children := by
  have := (walkGroups_spec h.names (List.range n.groupCount.toNat) [] ⟨fun p hp => (by cases hp), (by simp)⟩).2.1 x
  unfold seenChildren
  rw [this]
  constructor
  · rintro (h0 | ⟨k, _, hk⟩)
    · simp at h0
    · exact ((mem_groupOf _ _ _).1 hk).1
  · intro hx
    obtain ⟨k, hk, hin⟩ := child_in_some_groupN n h x hx
    exact Or.inr ⟨k, List.mem_range.2 (by omega), (mem_groupOf _ _ _).2 ⟨hx, hin⟩⟩

theorem seen_groupN (n : MuxNode) (h : MuxOKN n) (p : Child × Int) (hp : p ∈ seenChildren n) :
    0 ≤ p.2 ∧ p.2 < n.groupCount ∧ p.1.inGroup p.2 = true := by
  have := (walkGroups_spec h.names (List.range n.groupCount.toNat) [] ⟨fun p hp => (by cases hp), (by simp)⟩).2.2 p hp
  rcases this with h0 | ⟨k, hk, h1, h2⟩
  · cases h0
  · have hk' := List.mem_range.1 hk
    rw [h1]
    exact ⟨by omega, by omega, ((mem_groupOf _ _ _).1 h2).2⟩

theorem seen_permN (n : MuxNode) (h : MuxOKN n) : ((seenChildren n).map (·.1)).Perm n.children := by
  apply (List.perm_ext_iff_of_nodup ?_ ?_).2 (seen_memN n h)
  · have := (seen_invN n h).nodup
    have e : (seenChildren n).map (fun p => p.1.name) = ((seenChildren n).map (·.1)).map (·.name) := by
      rw [List.map_map]; rfl
    rw [e] at this
    exact List.Nodup.of_map _ this
  · exact List.Nodup.of_map _ h.names

theorem idsOfName_eqN (n : MuxNode) (h : MuxOKN n) (c : Child) (hc : c ∈ n.children) :
    idsOfName n.children n.groupCount c.name = memberIds n.groupCount c := by
  unfold idsOfName memberIds
  congr 1
  apply List.filter_congr
  intro k _
  cases hin : c.inGroup (k : Int)
  · apply List.any_eq_false.2
    intro d hd
    obtain ⟨hd1, hd2⟩ := (mem_groupOf _ _ _).1 hd
    simp only [beq_iff_eq]
    intro hn
    have := name_inj h.names hd1 hc hn
    subst this
    rw [hin] at hd2; cases hd2
  · apply List.any_eq_true.2
    exact ⟨c, (mem_groupOf _ _ _).2 ⟨hc, hin⟩, by simp⟩

theorem memberIds_listedN (n : MuxNode) (h : MuxOKN n) (c : Child) (hc : c ∈ n.children) (hg : c.gids ≠ []) :
    memberIds n.groupCount c = c.gids := by
  obtain ⟨h1, h2, _, _⟩ := h.ids c hc
  apply perm_sorted_eq (fun x => x) _ _ ?_ (memberIds_sorted _ _) h2
  apply (List.perm_ext_iff_of_nodup (strict_nodup (memberIds_sorted _ _)) (strict_nodup h2)).2
  intro x
  rw [mem_memberIds]
  constructor
  · rintro ⟨_, _, hin⟩
    simp only [Child.inGroup, Bool.or_eq_true, List.isEmpty_iff] at hin
    rcases hin with h0 | h0
    · exact absurd h0 hg
    · simpa using h0
  · intro hx
    obtain ⟨a, b⟩ := h1 x hx
    refine ⟨a, b, ?_⟩
    simp only [Child.inGroup, Bool.or_eq_true]
    right; simpa using hx

theorem memberIds_ne_nilN (n : MuxNode) (h : MuxOKN n) (c : Child) (hc : c ∈ n.children) :
    memberIds n.groupCount c ≠ [] := by
  obtain ⟨k, hk, hin⟩ := child_in_some_groupN n h c hc
  intro he
  have : (k : Int) ∈ memberIds n.groupCount c := (mem_memberIds _ _ _).2 ⟨by omega, hk, hin⟩
  rw [he] at this; cases this

/-- the ids the importer computes from what is written for `c` give `c.gids` back -/
theorem memberIds_backN (n : MuxNode) (h : MuxOKN n) (c : Child) (hc : c ∈ n.children) :
    (if ((memberIds n.groupCount c).length : Int) = n.groupCount then [] else memberIds n.groupCount c) = c.gids := by
  by_cases hg : c.gids = []
  · rw [if_pos (memberIds_fixed_length _ c hg (by have := h.gc2; omega)), hg]
  · rw [memberIds_listedN n h c hc hg]
    have := (h.ids c hc).2.2.1
    rw [if_neg (by omega)]

theorem muxOKN_of (n : MuxNode) (h : MuxShapeN n) (hn : (n.children.map (·.name)).Nodup) : MuxOKN n := by
  obtain ⟨h1, h2, h3, h4, h5, h6, h7⟩ := h
  refine ⟨h1, h2, h3, ?_, h4, ?_, h6, h7, hn⟩
  · rw [h3]; exact calcValue_ge_two _ h1 h2
  · intro k hk
    apply h5 k
    rw [List.mem_range]
    omega

/-! ### the multiplexer read back -/

/-- the SG_MUL_VAL_ entry the exporter writes for the child `c` of `n` when every child gets one -/
def extN (n : MuxNode) (c : Child) : DExt :=
  ⟨n.name, c.name, toNatRanges ((compress (idsOfName n.children n.groupCount c.name)).getD [])⟩

/-- what the importer reads of a signal handed to `importMuxSignal` (NOT the switch value) -/
def sigCore (k : DSig) : String × Int × Int × Bool := (k.name, sigPos k, (k.size : Int), k.isMultiplexor)

/-- the same four values of a child of the multiplexer `n` -/
def kidCore (n : MuxNode) (c : Child) : String × Int × Int × Bool :=
  (c.name, n.start + n.selW + c.rel, c.size, c.isMux)

theorem kidIds_nested (E : List DExt) (n : MuxNode) (h : MuxOKN n) (c : Child) (hc : c ∈ n.children)
    (k : DSig) (hk : k.name = c.name) (hE : findExt E c.name = some (extN n c)) :
    kidIds E n.groupCount k = .ok c.gids := by
  have hsorted := memberIds_sorted n.groupCount c
  have hne := memberIds_ne_nilN n h c hc
  have hb : ∀ g ∈ memberIds n.groupCount c, 0 ≤ g ∧ g < n.groupCount := fun g hg =>
    ⟨((mem_memberIds _ _ _).1 hg).1, ((mem_memberIds _ _ _).1 hg).2.1⟩
  obtain ⟨rs, hrs, hexp⟩ := Acme.Conv.ranges_roundtrip n.groupCount _ hne hsorted hb
  have hnat : natRanges (toNatRanges rs) = rs := by
    unfold natRanges toNatRanges
    rw [List.map_map]
    have : rs.map ((fun r : Nat × Nat => ((r.1 : Int), (r.2 : Int))) ∘ fun r : Int × Int => (r.1.toNat, r.2.toNat)) =
        rs.map id := by
      apply List.map_congr_left
      intro r hr
      obtain ⟨a, b⟩ := expand_first_mem _ rs _ hexp r hr
      have a0 := (hb _ a).1
      simp only [Function.comp, id]
      rw [Int.toNat_of_nonneg a0, Int.toNat_of_nonneg (by omega)]
    rw [this, List.map_id]
  unfold kidIds
  rw [hk, hE]
  dsimp only [extN]
  rw [idsOfName_eqN n h c hc, hrs]
  simp only [Option.getD_some]
  unfold extIds
  rw [hnat, hexp]
  dsimp only
  rw [compactSort_of_strict _ hsorted, memberIds_backN n h c hc]

theorem addKids_nested (E : List DExt) (n : MuxNode) (h : MuxOKN n)
    (hE : ∀ c ∈ n.children, findExt E c.name = some (extN n c)) :
    ∀ (cs : List Child) (ks : List DSig) (acc : List Child),
    ks.map sigCore = cs.map (kidCore n) → (∀ c ∈ cs, c ∈ n.children) →
    KidsInv n.groupCount n.groupSize acc →
    (acc ++ cs).Pairwise (GroupDisj n.groupCount) → ((acc ++ cs).map (·.name)).Nodup →
    addKids E n.groupCount n.groupSize (n.start + n.selW) acc ks = .ok (acc ++ cs)
  | [], ks, acc, hks, _, _, _, _ => by
    have : ks = [] := by simpa using hks
    subst this
    simp [addKids]
  | c :: r, ks, acc, hks, hmem, hinv, hpw, hnd => by
    match ks, hks with
    | k :: kr, hks =>
      simp only [List.map_cons, List.cons.injEq] at hks
      obtain ⟨hk, hkr⟩ := hks
      simp only [sigCore, kidCore, Prod.mk.injEq] at hk
      obtain ⟨k1, k2, k3, k4⟩ := hk
      have hc : c ∈ n.children := hmem c (List.mem_cons_self ..)
      obtain ⟨hid1, hid2, _, hsz⟩ := h.ids c hc
      obtain ⟨hb0, hb1⟩ := child_boundsN n h c hc
      have hchild : (⟨k.name, sigPos k - (n.start + n.selW), (k.size : Int), c.gids, k.isMultiplexor⟩ : Child) = c := by
        rw [k1, k2, k3, k4]
        have : n.start + n.selW + c.rel - (n.start + n.selW) = c.rel := by omega
        rw [this]
      have hfresh : ∀ d ∈ acc, d.name ≠ c.name := by
        intro d hd hn
        rw [List.map_append, List.nodup_append] at hnd
        exact hnd.2.2 d.name (List.mem_map.2 ⟨d, hd, rfl⟩) c.name (by simp) hn
      have hdisj : ∀ d ∈ acc, GroupDisj n.groupCount d c := by
        intro d hd
        exact (List.pairwise_append.1 hpw).2.2 d hd c (by simp)
      have hins := muxInsert_ok n.groupCount n.groupSize acc c hinv hsz hfresh ⟨hid1, hid2⟩ hb0 hb1 hdisj
      obtain ⟨c', hc', _, _, _, _, _, hw', hi', hn'⟩ :=
        muxInsert_spec n.groupCount n.groupSize acc _ c hins hsz hinv.wf hinv.ids hinv.names
      have hinv' : KidsInv n.groupCount n.groupSize (acc ++ [c]) := by
        refine ⟨hw', hi', hn', ?_⟩
        intro d hdm
        rcases List.mem_append.1 hdm with h1 | h1
        · exact hinv.sizes d h1
        · rw [List.mem_singleton] at h1; subst h1; exact hsz
      have ih := addKids_nested E n h hE r kr (acc ++ [c]) hkr
        (fun q hq => hmem q (List.mem_cons_of_mem _ hq)) hinv'
        (by simpa [List.append_assoc] using hpw) (by simpa [List.append_assoc] using hnd)
      simp only [addKids, kidIds_nested E n h c hc k k1 (hE c hc), hchild, hins]
      rw [ih]
      simp [List.append_assoc]

theorem importMux_nested (E : List DExt) (n : MuxNode) (h : MuxOKN n) (h0 : 0 ≤ n.start)
    (hE : ∀ c ∈ n.children, findExt E c.name = some (extN n c))
    (mx : DSig) (hm1 : mx.name = n.name) (hm2 : sigPos mx = n.start) (hm3 : (mx.size : Int) = n.selW)
    (cs : List Child) (ks : List DSig) (hks : ks.map sigCore = cs.map (kidCore n))
    (hperm : cs.Perm n.children) :
    importMux E mx ks = .ok { n with children := cs } := by
  have hmemcs : ∀ c ∈ cs, c ∈ n.children := fun c hc => hperm.mem_iff.1 hc
  have hcore : ∀ k ∈ ks, ∃ c ∈ cs, sigCore k = kidCore n c := by
    intro k hk
    have : sigCore k ∈ cs.map (kidCore n) := by rw [← hks]; exact List.mem_map.2 ⟨k, hk, rfl⟩
    obtain ⟨c, hc, he⟩ := List.mem_map.1 this
    exact ⟨c, hc, he.symm⟩
  have hcore' : ∀ c ∈ cs, ∃ k ∈ ks, sigCore k = kidCore n c := by
    intro c hc
    have : kidCore n c ∈ ks.map sigCore := by rw [hks]; exact List.mem_map.2 ⟨c, hc, rfl⟩
    obtain ⟨k, hk, he⟩ := List.mem_map.1 this
    exact ⟨k, hk, he⟩
  have hmax : maxEnd ks 0 = n.start + n.selW + n.groupSize := by
    apply maxEnd_eq
    · have := h.w1; have := h.gsPos; omega
    · intro k hk
      obtain ⟨c, hc, he⟩ := hcore k hk
      simp only [sigCore, kidCore, Prod.mk.injEq] at he
      obtain ⟨hb0, hb1⟩ := child_boundsN n h c (hmemcs c hc)
      rw [he.2.1, he.2.2.1]; omega
    · right
      obtain ⟨c, hc, htight⟩ := h.tight
      obtain ⟨k, hk, he⟩ := hcore' c (hperm.mem_iff.2 hc)
      simp only [sigCore, kidCore, Prod.mk.injEq] at he
      refine ⟨k, hk, ?_⟩
      rw [he.2.1, he.2.2.1]; omega
  have hgc : calcValue n.selW = n.groupCount := h.gc.symm
  have hnew : newMux n.groupCount n.groupSize = .ok () := by
    unfold newMux
    have := h.gc2; have := h.gsPos
    rw [if_neg (by omega), if_neg (by omega), if_neg (by omega), if_neg (by omega)]
  have hsel : calcSize (n.groupCount - 1) = n.selW := by
    rw [h.gc]
    exact Acme.Conv.selector_roundtrip n.selW h.w1 h.w62
  have hkids := addKids_nested E n h hE cs ks [] hks hmemcs (kidsInv_nil _ _ (by have := h.gsPos; omega))
    (by
      rw [List.nil_append]
      exact (hperm.pairwise_iff (fun hab => GroupDisj.symm hab)).2 (groupsWF_pairwise _ _ _ h.wf))
    (by
      rw [List.nil_append]
      exact ((hperm.map _).nodup_iff).2 h.names)
  unfold importMux
  simp only [hm2, hm3, hmax, hgc]
  have hpos : n.start + n.selW + n.groupSize > 0 := by have := h.w1; have := h.gsPos; omega
  rw [if_pos hpos]
  have e : n.start + n.selW + n.groupSize - n.start - n.selW = n.groupSize := by omega
  have hsz0 : ¬ mx.size = 0 := by
    have := h.w1
    omega
  rw [e, if_neg hsz0, hnew]
  simp only [hkids, List.nil_append, hsel, hm1]

end Acme.Import
