/-
C08: number-text round trips of the DBC model (`formatX` then `parseX`), the string-level
facts behind `Acme.Props.C08`.  Core Lean only (`Init.Data.Nat.ToString` lemmas).
-/
import Acme.Core.Dbc
import Acme.Core.DbcWrite
import Acme.Core.DbcParse
import Acme.Spec.Dbc

namespace Acme.Dbc

/-! ## decimal -/

theorem all_isDigit_toDigits (n : Nat) : (Nat.toDigits 10 n).all Char.isDigit = true := by
  rw [List.all_eq_true]
  intro c hc
  exact Nat.isDigit_of_mem_toDigits (by decide) (by decide) hc

theorem decDigits?_toDigits (n : Nat) : decDigits? (Nat.toDigits 10 n) = some n := by
  unfold decDigits?
  rw [all_isDigit_toDigits, Nat.ofDigitChars_ten_toDigits]
  have : (Nat.toDigits 10 n).isEmpty = false := by
    cases h : Nat.toDigits 10 n with
    | nil => exact absurd h Nat.toDigits_ne_nil
    | cons _ _ => rfl
  simp [this]

theorem parseUintCs_toDigits (n : Nat) (h : u32 n = true) :
    parseUintCs (Nat.toDigits 10 n) = some n := by
  have h' : n < 2 ^ 32 := by simpa [u32] using h
  unfold parseUintCs
  rw [decDigits?_toDigits]
  simp only [h', if_true]

theorem toList_formatUint (n : Nat) : (formatUint n).toList = Nat.toDigits 10 n := by
  simp [formatUint]

theorem parseUint_formatUint (n : Nat) (h : u32 n = true) : parseUint (formatUint n) = some n := by
  unfold parseUint
  rw [toList_formatUint]
  exact parseUintCs_toDigits n h

/-- the head of a decimal text is a digit -/
theorem toDigits_eq_cons (n : Nat) :
    ∃ c cs, Nat.toDigits 10 n = c :: cs ∧ c.isDigit = true ∧ cs.all Char.isDigit = true := by
  have hall := all_isDigit_toDigits n
  cases h : Nat.toDigits 10 n with
  | nil => exact absurd h Nat.toDigits_ne_nil
  | cons c cs =>
    rw [h] at hall
    simp only [List.all_cons, Bool.and_eq_true] at hall
    exact ⟨c, cs, rfl, hall.1, hall.2⟩

theorem isDigit_ne {c d : Char} (h : c.isDigit = true) (hd : d.isDigit = false) : c ≠ d := by
  intro e
  subst e
  rw [h] at hd
  exact Bool.noConfusion hd

/-- `parseInt` on a text that starts with a digit -/
theorem parseInt_digits (s : String) (n : Nat) (h : s.toList = Nat.toDigits 10 n)
    (hn : n < 2 ^ 63) : parseInt s = some (n : Int) := by
  obtain ⟨c, cs, hcs, hc, _⟩ := toDigits_eq_cons n
  have hdec := decDigits?_toDigits n
  unfold parseInt
  rw [h]
  split
  · rename_i cs' heq
    rw [hcs] at heq
    injection heq with h1 _
    exact absurd h1 (isDigit_ne hc (by decide))
  · rename_i cs' heq
    rw [hcs] at heq
    injection heq with h1 _
    exact absurd h1 (isDigit_ne hc (by decide))
  · rw [hdec]
    simp only [hn, if_true]

theorem toList_formatInt_ofNat (n : Nat) : (formatInt (Int.ofNat n)).toList = Nat.toDigits 10 n := by
  simp [formatInt]

theorem toList_formatInt_negSucc (n : Nat) :
    (formatInt (Int.negSucc n)).toList = '-' :: Nat.toDigits 10 (n + 1) := by
  simp [formatInt]

theorem parseInt_formatInt (i : Int) (h : i64 i = true) : parseInt (formatInt i) = some i := by
  have h' : -(2 ^ 63 : Int) ≤ i ∧ i < (2 ^ 63 : Int) := by simpa [i64] using h
  cases i with
  | ofNat n =>
    have hn : n < 2 ^ 63 := by
      have := h'.2
      simp only [Int.ofNat_eq_natCast] at this
      omega
    exact parseInt_digits _ n (toList_formatInt_ofNat n) hn
  | negSucc n =>
    have hn : n + 1 ≤ 2 ^ 63 := by
      have := h'.1
      omega
    unfold parseInt
    rw [toList_formatInt_negSucc]
    simp only [decDigits?_toDigits, hn, if_true]
    rfl

theorem parseInt_formatUint (n : Nat) (h : u32 n = true) :
    parseInt (formatUint n) = some (n : Int) := by
  have h' : n < 2 ^ 32 := by simpa [u32] using h
  exact parseInt_digits _ n (toList_formatUint n) (by omega)

/-! ## look of the decimal texts -/

theorem hasHexPrefixCs_digits (cs : List Char) (h : cs.all Char.isDigit = true) :
    hasHexPrefixCs cs = false := by
  unfold hasHexPrefixCs
  split
  · simp only [List.all_cons, Bool.and_eq_true] at h
    exact absurd h.2.1 (by decide)
  · simp only [List.all_cons, Bool.and_eq_true] at h
    exact absurd h.2.1 (by decide)
  · rfl

theorem containsDot_digits (cs : List Char) (h : cs.all Char.isDigit = true) :
    cs.any (· == '.') = false := by
  rw [List.any_eq_false]
  intro c hc
  rw [List.all_eq_true] at h
  have := h c hc
  simp only [beq_iff_eq]
  exact isDigit_ne this (by decide)

theorem hasHexPrefix_formatUint (n : Nat) : hasHexPrefix (formatUint n) = false := by
  unfold hasHexPrefix
  rw [toList_formatUint]
  exact hasHexPrefixCs_digits _ (all_isDigit_toDigits n)

theorem containsDot_formatUint (n : Nat) : containsDot (formatUint n) = false := by
  unfold containsDot
  rw [toList_formatUint]
  exact containsDot_digits _ (all_isDigit_toDigits n)

theorem hasHexPrefix_formatInt (i : Int) : hasHexPrefix (formatInt i) = false := by
  unfold hasHexPrefix
  cases i with
  | ofNat n =>
    rw [toList_formatInt_ofNat]
    exact hasHexPrefixCs_digits _ (all_isDigit_toDigits n)
  | negSucc n =>
    rw [toList_formatInt_negSucc]
    rfl

theorem containsDot_formatInt (i : Int) : containsDot (formatInt i) = false := by
  unfold containsDot
  cases i with
  | ofNat n =>
    rw [toList_formatInt_ofNat]
    exact containsDot_digits _ (all_isDigit_toDigits n)
  | negSucc n =>
    rw [toList_formatInt_negSucc]
    simp only [List.any_cons]
    rw [containsDot_digits _ (all_isDigit_toDigits (n + 1))]
    rfl

/-! ## hexadecimal -/

theorem hexDigitVal?_digitChar : ∀ d, d < 16 → hexDigitVal? (Nat.digitChar d) = some d := by
  decide

theorem hexDigitsAux_append (l : List Char) (c : Char) (acc : Nat) :
    hexDigitsAux (l ++ [c]) acc =
      match hexDigitsAux l acc with
      | some a =>
        match hexDigitVal? c with
        | some d => some (16 * a + d)
        | none => none
      | none => none := by
  induction l generalizing acc with
  | nil =>
    simp only [List.nil_append, hexDigitsAux]
    cases hexDigitVal? c <;> rfl
  | cons x xs ih =>
    simp only [List.cons_append, hexDigitsAux]
    cases hexDigitVal? x with
    | none => rfl
    | some d => exact ih _

theorem hexDigitsAux_toDigits (n : Nat) : hexDigitsAux (Nat.toDigits 16 n) 0 = some n := by
  induction n using Nat.strongRecOn with
  | _ n ih =>
    rw [Nat.toDigits_eq_if (by decide)]
    split
    · rename_i h
      simp only [hexDigitsAux, hexDigitVal?_digitChar n h]
      simp
    · rename_i h
      have hlt : n / 16 < n := by omega
      rw [hexDigitsAux_append, ih _ hlt, hexDigitVal?_digitChar _ (Nat.mod_lt n (by decide))]
      simp only
      congr 1
      omega

theorem parseHexCs_toDigits (n : Nat) (h : u32 n = true) :
    parseHexCs (Nat.toDigits 16 n) = some n := by
  have h' : n < 2 ^ 32 := by simpa [u32] using h
  unfold parseHexCs
  have : (Nat.toDigits 16 n).isEmpty = false := by
    cases h : Nat.toDigits 16 n with
    | nil => exact absurd h Nat.toDigits_ne_nil
    | cons _ _ => rfl
  rw [this, hexDigitsAux_toDigits]
  simp only [h', if_true]
  rfl

theorem toList_formatHexInt_true (n : Nat) :
    (formatHexInt true n).toList = '0' :: 'x' :: Nat.toDigits 16 n := by
  simp [formatHexInt, formatHexDigits]

theorem formatHexInt_false (n : Nat) : formatHexInt false n = formatUint n := rfl

theorem hasHexPrefix_formatHexInt_true (n : Nat) : hasHexPrefix (formatHexInt true n) = true := by
  unfold hasHexPrefix
  rw [toList_formatHexInt_true]
  rfl

theorem parseHexInt_formatHexInt (hex : Bool) (n : Nat) (h : u32 n = true) :
    parseHexInt hex (formatHexInt hex n) = some n := by
  cases hex with
  | false =>
    show parseUint (formatUint n) = some n
    exact parseUint_formatUint n h
  | true =>
    unfold parseHexInt
    rw [hasHexPrefix_formatHexInt_true, toList_formatHexInt_true]
    exact parseHexCs_toDigits n h

/-! ## floats (as texts) -/

theorem parseDouble_eq_some {x y : String} (h : parseDouble x = some y) : y = x := by
  unfold parseDouble at h
  split at h
  · split at h
    · cases h
    · exact (Option.some.inj h).symm
  · cases h

theorem parseDouble_of_accepted {x : String} (h : acceptedFloatText x = true) :
    parseDouble x = some x := by
  unfold acceptedFloatText at h
  cases hp : parseDouble x with
  | none => rw [hp] at h; exact Bool.noConfusion h
  | some y => rw [parseDouble_eq_some hp]

theorem accepted_of_finite {x : String} (h : finiteFloatText x = true) :
    acceptedFloatText x = true := by
  unfold finiteFloatText at h
  rw [Bool.and_eq_true] at h
  exact h.2

/-- a hex-looking text is not a float text -/
theorem parseDouble_hexPrefix {x : String} (h : hasHexPrefix x = true) : parseDouble x = none := by
  unfold hasHexPrefix at h
  unfold parseDouble
  generalize x.toList = cs at h
  have : readFloat cs = none := by
    unfold hasHexPrefixCs at h
    split at h
    · simp [readFloat, stripSign, List.takeWhile, List.dropWhile, readExp]
    · simp [readFloat, stripSign, List.takeWhile, List.dropWhile, readExp]
    · exact Bool.noConfusion h
  rw [this]

theorem hasHexPrefix_of_accepted {x : String} (h : acceptedFloatText x = true) :
    hasHexPrefix x = false := by
  cases hh : hasHexPrefix x with
  | false => rfl
  | true =>
    have := parseDouble_hexPrefix hh
    unfold acceptedFloatText at h
    rw [this] at h
    exact Bool.noConfusion h

theorem doubleToks_of_accepted {x : String} (h : acceptedFloatText x = true) :
    doubleToks x = [.number x] := by
  have hne : ∀ s : String, acceptedFloatText s = false → x ≠ s := by
    intro s hs e
    rw [e, hs] at h
    exact Bool.noConfusion h
  unfold doubleToks
  rw [if_neg (hne "NaN" (by decide)), if_neg (hne "+Inf" (by decide)),
    if_neg (hne "-Inf" (by decide))]
  rfl

/-! ## multiplexer indicators and number ranges -/

theorem takeWhile_append_stop {α} (p : α → Bool) (l : List α) (x : α) (r : List α)
    (hl : l.all p = true) (hx : p x = false) : (l ++ x :: r).takeWhile p = l := by
  induction l with
  | nil => simp [hx]
  | cons a l ih =>
    simp only [List.all_cons, Bool.and_eq_true] at hl
    simp only [List.cons_append, List.takeWhile, hl.1, ih hl.2]

theorem dropWhile_append_stop {α} (p : α → Bool) (l : List α) (x : α) (r : List α)
    (hl : l.all p = true) (hx : p x = false) : (l ++ x :: r).dropWhile p = x :: r := by
  induction l with
  | nil => simp [hx]
  | cons a l ih =>
    simp only [List.all_cons, Bool.and_eq_true] at hl
    simp only [List.cons_append, List.dropWhile, hl.1, ih hl.2]

theorem takeWhile_all {α} (p : α → Bool) (l : List α) (hl : l.all p = true) :
    l.takeWhile p = l := by
  induction l with
  | nil => rfl
  | cons a l ih =>
    simp only [List.all_cons, Bool.and_eq_true] at hl
    simp only [List.takeWhile, hl.1, ih hl.2]

theorem all_ne_minus_toDigits (n : Nat) : (Nat.toDigits 10 n).all (· != '-') = true := by
  rw [List.all_eq_true]
  intro c hc
  have := Nat.isDigit_of_mem_toDigits (b := 10) (n := n) (by decide) (by decide) hc
  simp only [bne_iff_ne, ne_eq]
  exact isDigit_ne this (by decide)

theorem parseRangeText_format (a b : Nat) (ha : u32 a = true) (hb : u32 b = true) :
    parseRangeText (formatUint a ++ "-" ++ formatUint b) = .ok { from_ := a, to := b } := by
  have hl : (formatUint a ++ "-" ++ formatUint b).toList =
      Nat.toDigits 10 a ++ '-' :: Nat.toDigits 10 b := by
    simp [formatUint]
  unfold parseRangeText
  simp only [hl]
  rw [takeWhile_append_stop _ _ _ _ (all_ne_minus_toDigits a) (by decide),
    dropWhile_append_stop _ _ _ _ (all_ne_minus_toDigits a) (by decide)]
  simp only [takeWhile_all _ _ (all_ne_minus_toDigits b), parseUintCs_toDigits a ha,
    parseUintCs_toDigits b hb]

theorem parseMuxIndicator_M : parseMuxIndicator "M" = .ok (true, false, 0) := by
  simp [parseMuxIndicator]

theorem parseMuxIndicator_m (n : Nat) (h : u32 n = true) :
    parseMuxIndicator ("m" ++ formatUint n) = .ok (false, true, n) := by
  have hl : ("m" ++ formatUint n).toList = 'm' :: Nat.toDigits 10 n := by
    simp [formatUint]
  have hlast : (('m' :: Nat.toDigits 10 n).getLast? == some 'M') = false := by
    cases hg : ('m' :: Nat.toDigits 10 n).getLast? with
    | none => rfl
    | some c =>
      have hm := List.mem_of_getLast? hg
      rw [List.mem_cons] at hm
      have hne : c ≠ 'M' := by
        cases hm with
        | inl e => rw [e]; decide
        | inr hm =>
          exact isDigit_ne (Nat.isDigit_of_mem_toDigits (by decide) (by decide) hm) (by decide)
      simp [hne]
  unfold parseMuxIndicator
  simp only [hl, hlast, Bool.false_eq_true, if_false, parseUintCs_toDigits n h]

theorem parseMuxIndicator_mM (n : Nat) (h : u32 n = true) :
    parseMuxIndicator ("m" ++ formatUint n ++ "M") = .ok (true, true, n) := by
  have hl : ("m" ++ formatUint n ++ "M").toList = 'm' :: (Nat.toDigits 10 n ++ ['M']) := by
    simp [formatUint]
  have hlast : (('m' :: (Nat.toDigits 10 n ++ ['M'])).getLast? == some 'M') = true := by
    rw [← List.cons_append, List.getLast?_append]
    rfl
  unfold parseMuxIndicator
  simp only [hl, hlast, if_true, List.dropLast_concat, parseUintCs_toDigits n h]

/-! ## the `FormatFloat` shape is accepted syntactically

so `finiteFloatText` adds to `isFloatShape` only the range condition of `ParseFloat` -/

theorem dropWhile_all {α} (p : α → Bool) (l : List α) (hl : l.all p = true) :
    l.dropWhile p = [] := by
  induction l with
  | nil => rfl
  | cons a l ih =>
    simp only [List.all_cons, Bool.and_eq_true] at hl
    simp only [List.dropWhile, hl.1, ih hl.2]

/-- the shape test on the text without its sign -/
def shapeOfBody (body : List Char) : Bool :=
  match body.dropWhile Char.isDigit with
  | [] => !(body.takeWhile Char.isDigit).isEmpty
  | '.' :: fp => !(body.takeWhile Char.isDigit).isEmpty && !fp.isEmpty && fp.all Char.isDigit
  | _ => false

theorem isFloatShape_minus (r : List Char) : isFloatShape ('-' :: r) = shapeOfBody r := rfl

theorem isFloatShape_other (cs : List Char) (h : ∀ r, cs ≠ '-' :: r) :
    isFloatShape cs = shapeOfBody cs := by
  unfold isFloatShape
  split
  · exact absurd rfl (h _)
  · rfl

theorem stripSign_of_digit (c : Char) (cs : List Char) (hc : c.isDigit = true) :
    stripSign (c :: cs) = c :: cs := by
  unfold stripSign
  split
  · rename_i heq
    injection heq with h1 _
    exact absurd h1 (isDigit_ne hc (by decide))
  · rename_i heq
    injection heq with h1 _
    exact absurd h1 (isDigit_ne hc (by decide))
  · rfl

/-- the head of a float-shaped body is a digit -/
theorem body_head_digit (body : List Char) (h : shapeOfBody body = true) :
    ∃ c cs, body = c :: cs ∧ c.isDigit = true := by
  unfold shapeOfBody at h
  have hne : (body.takeWhile Char.isDigit).isEmpty = false := by
    split at h
    · simpa using h
    · simp only [Bool.and_eq_true, Bool.not_eq_true'] at h
      exact h.1.1
    · cases h
  cases body with
  | nil => simp at hne
  | cons c cs =>
    refine ⟨c, cs, rfl, ?_⟩
    cases hc : c.isDigit with
    | true => rfl
    | false => simp [List.takeWhile, hc] at hne

/-- `readFloat` on a text whose (already sign-free) body has the shape -/
theorem readFloat_of_body (cs body : List Char) (hs : stripSign cs = body)
    (h : shapeOfBody body = true) : (readFloat cs).isSome = true := by
  unfold shapeOfBody at h
  unfold readFloat
  simp only [hs]
  split at h
  · rename_i h0
    simp only [h0]
    simp only [Bool.not_eq_true'] at h
    simp [h, readExp]
  · rename_i fp h0
    simp only [h0]
    simp only [Bool.and_eq_true, Bool.not_eq_true'] at h
    simp [h.1.1, takeWhile_all _ _ h.2, dropWhile_all _ _ h.2, readExp]
  · cases h

/-- every text of the `FormatFloat(x,'f',-1,64)` shape is syntactically a float for `ParseFloat` -/
theorem isFloatShape_readFloat (cs : List Char) (h : isFloatShape cs = true) :
    (readFloat cs).isSome = true := by
  by_cases hm : ∃ r, cs = '-' :: r
  · obtain ⟨r, rfl⟩ := hm
    rw [isFloatShape_minus] at h
    exact readFloat_of_body _ r rfl h
  · have hm' : ∀ r, cs ≠ '-' :: r := fun r e => hm ⟨r, e⟩
    rw [isFloatShape_other cs hm'] at h
    obtain ⟨c, rest, rfl, hc⟩ := body_head_digit cs h
    exact readFloat_of_body _ _ (stripSign_of_digit c rest hc) h

/-- for a text of the `FormatFloat` shape, `finiteFloatText` is exactly "not out of range" -/
theorem finiteFloatText_iff_range (s : String) (h : isFloatShape s.toList = true) :
    finiteFloatText s = true ↔
      ∃ m e, readFloat s.toList = some (m, e) ∧ floatOverflows m e = false := by
  have hr := isFloatShape_readFloat _ h
  unfold finiteFloatText acceptedFloatText parseDouble
  rw [h, Bool.true_and]
  cases hrf : readFloat s.toList with
  | none => rw [hrf] at hr; cases hr
  | some p =>
    obtain ⟨m, e⟩ := p
    simp only
    cases hov : floatOverflows m e
    · simp only [Bool.false_eq_true, if_false, Option.isSome_some, true_iff]
      exact ⟨m, e, rfl, hov⟩
    · simp only [if_true, Option.isSome_none, Bool.false_eq_true, false_iff]
      rintro ⟨m', e', heq, hov'⟩
      injection heq with heq
      injection heq with h1 h2
      subst h1 h2
      rw [hov] at hov'
      cases hov'

end Acme.Dbc
