/-
Translator stage 13, bus.go: the four `verify*` checks and `RemoveNodeInterface`,
`RemoveAllNodeInterfaces`, `UpdateName` of the GENERATED `Acme.Gen.R` against `Acme.Graph`.
-/
import Acme.Proofs.GenRegistry

namespace Acme.GenR
open Acme Acme.Graph Acme.RegSem Acme.Gen

def dupErr : R.Err := ⟨.ErrIsDuplicated, ""⟩
def bigErr : R.Err := ⟨.ErrTooBig, ""⟩

theorem Bus_verifyNodeName_eq (g : G) (b : Nat) (name : String) :
    R.Bus_verifyNodeName (view g) b name = match g.buses.get b with
      | none => .dangling
      | some bus => .val (if bus.nodeNames.has name then some dupErr else none) := by
  unfold R.Bus_verifyNodeName
  simp only [view_buses]
  cases g.buses.get b with
  | none => rfl
  | some bus =>
    simp only [Option.map_some, vBus, set_verifyKeyUnique_eq, dupErr]
    cases Reg.has bus.nodeNames name <;> rfl

theorem Bus_verifyNodeID_eq (g : G) (b : Nat) (nid : Nat) :
    R.Bus_verifyNodeID (view g) b nid = match g.buses.get b with
      | none => .dangling
      | some bus => .val (if bus.nodeIDs.has nid then some dupErr else none) := by
  unfold R.Bus_verifyNodeID
  simp only [view_buses]
  cases g.buses.get b with
  | none => rfl
  | some bus =>
    simp only [Option.map_some, vBus, set_verifyKeyUnique_eq, dupErr]
    cases Reg.has bus.nodeIDs nid <;> rfl

theorem Bus_verifyStaticCANID_eq (g : G) (b : Nat) (c : Nat) :
    R.Bus_verifyStaticCANID (view g) b c = match g.buses.get b with
      | none => .dangling
      | some bus => .val (if bus.staticIDs.has c then some dupErr else none) := by
  unfold R.Bus_verifyStaticCANID
  simp only [view_buses]
  cases g.buses.get b with
  | none => rfl
  | some bus =>
    simp only [Option.map_some, vBus, set_verifyKeyUnique_eq, dupErr]
    cases Reg.has bus.staticIDs c <;> rfl

theorem Bus_verifyMessageSize_eq (g : G) (b : Nat) (size : Int) :
    R.Bus_verifyMessageSize (view g) b size = match g.buses.get b with
      | none => .dangling
      | some _ => .val (if busSizeOK size then none else some bigErr) := by
  unfold R.Bus_verifyMessageSize
  simp only [view_buses]
  cases g.buses.get b with
  | none => rfl
  | some bus =>
    simp only [Option.map_some, vBus, busSizeOK, bigErr, ↓reduceIte, decide_eq_true_eq]
    split <;> rfl

/-! ### RemoveNodeInterface -/

theorem staticOf_cons (g : G) (m : Nat) (ms : List Nat) :
    staticOf g (m :: ms) = (match g.msgs.get m with
      | some e => match e.static with | some c => [(c, m)] | none => []
      | none => []) ++ staticOf g ms := by
  unfold staticOf
  rw [List.filterMap_cons]
  cases g.msgs.get m with
  | none => rfl
  | some e => cases hs : e.static <;> simp [hs]

def busRm (bus : BusR) (ks : List Nat) : BusR :=
  { bus with messageStaticCANIDs := removeKeys bus.messageStaticCANIDs ks }

theorem removeNI_loop (g : G) (b x : Nat) (y : Option Nat) (z : Option R.Err) (ms : List Nat)
    (hex : ∀ m ∈ ms, g.msgs.get m ≠ none) :
    ∀ (h : H) (bus : BusR), h.msgs = (view g).msgs → h.buses.get b = some bus →
    ∃ h', R.Bus_RemoveNodeInterface_loop1 h b x y z ms = .val (h', none) ∧
      h'.nets = h.nets ∧ h'.nodes = h.nodes ∧ h'.ifaces = h.ifaces ∧ h'.msgs = h.msgs ∧
      ∀ k, h'.buses.get k = if k = b then some (busRm bus ((staticOf g ms).map (·.1))) else h.buses.get k := by
  induction ms with
  | nil =>
    intro h bus hm hb
    refine ⟨h, rfl, rfl, rfl, rfl, rfl, ?_⟩
    intro k; by_cases hk : k = b
    · subst hk; simp [staticOf, removeKeys, hb, busRm]
    · simp [hk]
  | cons m ms ih =>
    intro h bus hm hb
    have ih := ih (fun m' hm' => hex m' (List.mem_cons_of_mem _ hm'))
    obtain ⟨msg, hmsg⟩ := Option.ne_none_iff_exists'.1 (hex m List.mem_cons_self)
    have hget : h.msgs.get m = some (vMsg msg) := by rw [hm]; simp [hmsg]
    simp only [R.Bus_RemoveNodeInterface_loop1, hget, hmsg, staticOf_cons]
    cases hs : msg.static with
    | none =>
      simp only [vMsg, hs, Option.isSome_none, Bool.false_eq_true, ↓reduceIte, List.nil_append]
      exact ih h bus hm hb
    | some c =>
      simp only [vMsg, hs, Option.isSome_some, ↓reduceIte, hb, Option.getD_some, set_remove_eq]
      obtain ⟨h', e1, e2, e3, e4, e5, e6⟩ := ih { h with buses := h.buses.set b { bus with messageStaticCANIDs := Reg.remove bus.messageStaticCANIDs c } }
        { bus with messageStaticCANIDs := Reg.remove bus.messageStaticCANIDs c } hm (by simp)
      refine ⟨h', e1, e2, e3, e4, e5, ?_⟩
      intro k; rw [e6]
      by_cases hk : k = b
      · subst hk; simp [removeKeys, busRm]
      · simp [hk]

theorem R_Bus_RemoveNodeInterface_raw (g : G) (b nodeId : Nat) (hc : Closed g) :
    ObsEq (obs (R.Bus_RemoveNodeInterface (view g) b nodeId)) (obsG (stepBusRemoveIface g b nodeId)) := by
  unfold R.Bus_RemoveNodeInterface stepBusRemoveIface busRemoveIfaceCore
  simp only [view_buses]
  cases hb : g.buses.get b with
  | none => simp [obs, obsG, ObsEq]
  | some bus =>
    simp only [Option.map_some, vBus, set_getValue_eq]
    cases hi : Reg.get bus.nodeInts nodeId with
    | none => simp [obs, obsG, ObsEq, outOf, ofCause, Heq.rfl']
    | some i =>
      simp only [view_ifaces]
      cases hifc : g.ifaces.get i with
      | none => simp [obs, obsG, ObsEq]
      | some ifc =>
        obtain ⟨nd, hnd⟩ := Option.ne_none_iff_exists'.1 (hc.node i ifc hifc)
        simp only [Option.map_some, vIface, view_nodes, hnd, vNode, set_remove_eq]
        refine obs_of_exists (removeNI_loop g b nodeId (some i) none ifc.sent.vals (hc.sent i ifc hifc) _ _ rfl
          (get_set_self _ _ _)) ?_
        rintro h' ⟨e2, e3, e4, e5, e6⟩
        have hn1 : nodeNameC g.nodes ifc.node = nd.name := by simp [nodeNameC, hnd]
        have hn2 : nodeNidC g.nodes ifc.node = nd.nid := by simp [nodeNidC, hnd]
        simp only [obsG, ObsEq, and_true]
        refine ⟨?_, ?_, ?_, ?_, ?_⟩ <;> intro k
        · rw [e2]; simp
        · rw [e6]; by_cases hk : k = b <;> simp [hk, busRm, vBus, hn1, hn2]
        · rw [e3]; simp
        · rw [e4]; by_cases hk : k = i <;> simp [hk, vIface]
        · rw [e5]; simp

end Acme.GenR
