/-
The rendering round trip of the scanner model: a token list of the scanner's image, printed with
blank separators (empty where the tokens cannot merge), scans back to itself (`render_scan`).
-/
import Acme.Proofs.DbcScanLocal

namespace Acme.Dbc.Scan


/-- once a digit or a dot has been read (`hasMore`), `scanNumber` does not emit a punct -/
theorem numLoop_hm (f : Char) (n : Nat) : ∀ (inp : List Item), inp.length ≤ n →
    ∀ (prev : Char) (rg : Bool) (pre : List Char),
      (numLoop f prev true rg pre inp).kind ≠ .punct := by
  have fin : ∀ (rg : Bool) (pre : List Char) (inp : List Item),
      (numFinish f true rg pre inp).kind ≠ .punct := by
    intro rg pre inp
    unfold numFinish
    simp only [Bool.not_true, Bool.false_and, Bool.false_eq_true, if_false]
    split <;> simp
  have hex : ∀ (pre : List Char) (inp : List Item), (scanHexNumber pre inp).kind ≠ .punct := by
    intro pre inp
    unfold scanHexNumber
    split
    · simp
    · split <;> simp
  have exp : ∀ (pre : List Char) (inp : List Item), (scanExpNumber pre inp).kind ≠ .punct := by
    intro pre inp
    unfold scanExpNumber
    simp only []
    split
    · split <;> simp
    · split
      · split
        · split <;> simp
        · simp
      · split <;> simp
  induction n with
  | zero =>
    intro inp hl prev rg pre
    cases inp with
    | nil => unfold numLoop; exact fin _ _ _
    | cons a w => simp at hl
  | succ n ih =>
    intro inp hl prev rg pre
    cases inp with
    | nil => unfold numLoop; exact fin _ _ _
    | cons a w =>
      unfold numLoop
      simp only []
      split
      · exact fin _ _ _
      split
      · exact hex _ _
      split
      · split
        · exact exp _ _
        split
        · cases w with
          | nil => exact fin _ _ _
          | cons b w' =>
            simp only []
            split
            · exact ih w' (by simp at hl; omega) _ _ _
            · exact fin _ _ _
        · exact fin _ _ _
      split
      · exact fin _ _ _
      · exact ih w (by simp at hl; omega) _ _ _

/-- a punct emitted by `scanNumber` is the sign alone, nothing else was read -/
theorem scanNumber_punct (f : Char) (inp : List Item) (h : (scanNumber f inp).kind = .punct) :
    (scanNumber f inp).raw = [f] ∧ (scanNumber f inp).rest = inp := by
  have hsign := numLoop_punct f inp.length inp (Nat.le_refl _) f false false [f] h
  have hnn : isNumber f = false := by rcases hsign with h | h <;> rw [h] <;> decide
  have hex : ∀ (pre : List Char) (inp : List Item), (scanHexNumber pre inp).kind ≠ .punct := by
    intro pre inp
    unfold scanHexNumber
    split
    · simp
    · split <;> simp
  have exp : ∀ (pre : List Char) (inp : List Item), (scanExpNumber pre inp).kind ≠ .punct := by
    intro pre inp
    unfold scanExpNumber
    simp only []
    split
    · split <;> simp
    · split
      · split
        · split <;> simp
        · simp
      · split <;> simp
  have fin : ∀ (hm rg : Bool) (pre : List Char) (inp : List Item),
      (numFinish f hm rg pre inp).raw = pre ∧ (numFinish f hm rg pre inp).rest = inp := by
    intro hm rg pre inp
    unfold numFinish
    split
    · exact ⟨rfl, rfl⟩
    · split <;> exact ⟨rfl, rfl⟩
  unfold scanNumber at h ⊢
  cases inp with
  | nil => unfold numLoop; exact fin _ _ _ _
  | cons a w =>
    unfold numLoop at h ⊢
    simp only [] at h ⊢
    split
    · exact fin _ _ _ _
    rename_i c0; rw [if_neg c0] at h
    split
    · rename_i c; rw [if_pos c] at h; exact absurd h (hex _ _)
    rename_i c1; rw [if_neg c1] at h
    split
    · rename_i c; rw [if_pos c] at h
      split
      · rename_i c'; rw [if_pos c'] at h; exact absurd h (exp _ _)
      rename_i c2; rw [if_neg c2] at h
      split
      · rename_i c'
        simp [hnn] at c'
      · exact fin _ _ _ _
    rename_i c3; rw [if_neg c3] at h
    split
    · exact fin _ _ _ _
    · rename_i c; rw [if_neg c] at h
      exact absurd h (numLoop_hm f w.length w (Nat.le_refl _) _ _ _)



theorem rds_itemsOfChars (cs : List Char) : rds (itemsOfChars cs) = cs := by
  simp [rds, itemsOfChars, itemOfChar, Function.comp_def]

theorem itemsOfChars_append (a b : List Char) : itemsOfChars (a ++ b) = itemsOfChars a ++ itemsOfChars b := by
  simp [itemsOfChars]

theorem itemOfChar_stop {c : Char} (h : stopChar c = true) : itemOfChar c = ⟨c, true⟩ := by
  have := stopChar_cases h
  simp only [List.mem_cons, List.mem_nil_iff, or_false] at this
  rcases this with h|h|h|h|h|h|h|h|h|h|h|h|h|h|h <;> subst h <;> decide

theorem itemOfChar_rd (c : Char) : (itemOfChar c).rd = c := rfl

/-- the items of `t₁ sep₁ t₂ sep₂ …` -/
def R : List (Token × String) → List Item
  | [] => []
  | p :: l => itemsOfChars (tokText p.1).toList ++ (itemsOfChars p.2.toList ++ R l)

theorem R_eq (l : List (Token × String)) : itemsOfChars (renderToks l).toList = R l := by
  induction l with
  | nil => rfl
  | cons p l ih => simp [renderToks, R, itemsOfChars_append, ih]

/-- what `lexAlone` says -/
structure Alone (t : Token) : Prop where
  rest : (scanTok (itemsOfChars (tokText t).toList)).rest = []
  raw : (scanTok (itemsOfChars (tokText t).toList)).raw = (tokText t).toList
  tok : tokOf (scanTok (itemsOfChars (tokText t).toList)).kind (scanTok (itemsOfChars (tokText t).toList)).msg
      (scanTok (itemsOfChars (tokText t).toList)).raw = t
  notEof : (scanTok (itemsOfChars (tokText t).toList)).kind ≠ .eof
  notErr : (scanTok (itemsOfChars (tokText t).toList)).kind ≠ .error
  notSpace : (scanTok (itemsOfChars (tokText t).toList)).kind ≠ .space

theorem alone_of_lexAlone {t : Token} (h : lexAlone t = true) : Alone t := by
  simp only [lexAlone, Bool.and_eq_true, List.isEmpty_iff, decide_eq_true_eq, bne_iff_ne, ne_eq] at h
  obtain ⟨⟨⟨⟨⟨h1, h2⟩, h3⟩, h4⟩, h5⟩, h6⟩ := h
  exact ⟨h1, h2, h3, h4, h5, h6⟩

/-- the text of a token of the scanner's image starts with a non-blank character -/
theorem alone_head {t : Token} (h : Alone t) : ∃ c cs, (tokText t).toList = c :: cs ∧ isSpace c = false := by
  cases hw : (tokText t).toList with
  | nil =>
    exfalso; apply h.notEof
    rw [hw]; rfl
  | cons c cs =>
    refine ⟨c, cs, rfl, ?_⟩
    cases hsp : isSpace c with
    | false => rfl
    | true =>
      exfalso; apply h.notSpace
      rw [hw]
      exact scanTok_space (itemOfChar c) _ hsp

theorem isSpace_eof : isSpace eofCh = false := by decide

/-- a non-empty run of blanks in front of a non-blank (or the end) is one space token -/
theorem scanTok_blanks (c : Char) (cs : List Char) (X : List Item) (hc : isSpace c = true)
    (hcs : ∀ x ∈ cs, isSpace x = true) (hX : ∀ a, X.head? = some a → isSpace a.pk = false) :
    scanTok (itemsOfChars (c :: cs) ++ X) = { kind := .space, raw := c :: cs, rest := X } := by
  have h0 : isEOF c = false := by
    simp only [isSpace, Bool.or_eq_true, beq_iff_eq] at hc
    rcases hc with ((h | h) | h) | h <;> rw [h] <;> decide
  have hall : ∀ x ∈ itemsOfChars cs, (fun it : Item => isSpace it.pk) x = true := by
    intro x hx
    simp only [itemsOfChars, List.mem_map] at hx
    obtain ⟨y, hy, rfl⟩ := hx
    have hs := hcs y hy
    have : stopChar y = true := by simp [stopChar, hs]
    rw [itemOfChar_stop this]
    simpa [Item.pk] using hs
  have := tw_append (fun it : Item => isSpace it.pk) (itemsOfChars cs) X hall hX
  show scanTok (itemOfChar c :: (itemsOfChars cs ++ X)) = _
  unfold scanTok
  simp only [itemOfChar_rd, h0, hc, Bool.false_eq_true, if_false, if_true, scanSpace, this.1, this.2,
    rds_itemsOfChars]




theorem stopsFor_of_stopsB (lx : Lex) {rest : List Item} (h : stopsB rest = true) :
    stopsFor lx rest = true := by
  have h2 := stopsNumB_of_stopsB h
  unfold stopsFor
  cases lx.kind <;> simp [h, h2]

theorem stopsFor_nil (lx : Lex) : stopsFor lx [] = true := stopsFor_of_stopsB lx rfl

theorem tok_eq (t : PTok) : t.tok = tokOf t.kind t.msg t.raw := by
  unfold tokOf PTok.tok
  cases t.kind <;> rfl

theorem tokOf_string {k : Kind} {m : String} {r : List Char} {v : String}
    (h : tokOf k m r = .string v) : k = .string := by
  cases k <;> simp [tokOf, PTok.tok] at h ⊢

theorem tokOf_punct {k : Kind} {m : String} {r : List Char} {v : String}
    (h : tokOf k m r = .punct v) : k = .punct ∧ r = v.toList := by
  cases k <;> simp [tokOf, PTok.tok] at h ⊢
  rw [← h]; simp

theorem tokOf_num {k : Kind} {m : String} {r : List Char} {t : Token}
    (h : tokOf k m r = t) (hn : isNumTok t = true) : k = .number ∨ k = .numberRange := by
  subst h
  cases k <;> simp [tokOf, PTok.tok, isNumTok] at hn ⊢

theorem isEmpty_of_toList {s : String} (h : s.toList = []) : s.isEmpty = true := by
  simp_all

theorem R_cons_head (t : Token) (s : String) (l : List (Token × String)) (c : Char) (cs : List Char)
    (h : (tokText t).toList = c :: cs) :
    R ((t, s) :: l) = itemOfChar c :: (itemsOfChars cs ++ (itemsOfChars s.toList ++ R l)) := by
  simp [R, h, itemsOfChars]

theorem chainOK_cons2 (p q : Token × String) (l : List (Token × String)) :
    chainOK (p :: q :: l) = (sepOK p.1 p.2 q.1 && chainOK (q :: l)) := rfl

theorem chainOK_tail (p : Token × String) (l : List (Token × String)) (h : chainOK (p :: l) = true) :
    chainOK l = true := by
  cases l with
  | nil => rfl
  | cons q l => rw [chainOK_cons2] at h; simp only [Bool.and_eq_true] at h; exact h.2

theorem chainOK_blank (p : Token × String) (l : List (Token × String)) (h : chainOK (p :: l) = true) :
    isBlankStr p.2 = true := by
  cases l with
  | nil => exact h
  | cons q l =>
    rw [chainOK_cons2] at h
    simp only [Bool.and_eq_true, sepOK] at h
    exact h.1.1

/-- what follows a `-` printed directly behind a number is not a digit -/
theorem after_minus (sep2 : String) (l : List (Token × String))
    (h : chainOK ((Token.punct "-", sep2) :: l) = true) :
    isNumber (peek0 (itemsOfChars sep2.toList ++ R l)) = false := by
  have hb := chainOK_blank _ _ h
  cases hs : sep2.toList with
  | cons c cs =>
    have hc : isSpace c = true := by
      simp only [isBlankStr, hs, List.all_cons, Bool.and_eq_true] at hb; exact hb.1
    have hst : stopChar c = true := by simp [stopChar, hc]
    show isNumber (peek0 (itemOfChar c :: _)) = false
    rw [itemOfChar_stop hst]
    exact (stopFacts hst).notNum
  | nil =>
    cases l with
    | nil => exact isNumber_eof
    | cons q l =>
      rw [chainOK_cons2] at h
      simp only [Bool.and_eq_true, sepOK, isEmpty_of_toList hs, Bool.not_true, Bool.false_or] at h
      have hnm := h.1.2
      simp only [noMerge, selfDelimiting, isNumTok, Bool.false_and, Bool.or_false] at hnm
      have hsd : (("-" : String) != "+" && ("-" : String) != "-") = false := by decide
      rw [hsd, Bool.false_or] at hnm
      cases hq : (tokText q.1).toList with
      | nil => rw [hq] at hnm; cases hnm
      | cons c cs =>
        rw [hq] at hnm
        simp only [] at hnm
        have hst : stopChar c = true := by simp [stopChar, hnm]
        obtain ⟨q1, q2⟩ := q
        show isNumber (peek0 ([] ++ R ((q1, q2) :: l))) = false
        rw [List.nil_append, R_cons_head q1 q2 l c cs hq, itemOfChar_stop hst]
        exact (stopFacts hst).notNum




/-- a punct token is one character: a self-delimiting one or a sign -/
theorem scanTok_punct (it : Item) (w : List Item) (hk : (scanTok (it :: w)).kind = .punct) :
    (scanTok (it :: w)).raw = [it.rd] ∧ (selfPunct it.rd = true ∨ it.rd = '-' ∨ it.rd = '+') := by
  unfold scanTok at hk ⊢
  simp only [] at hk ⊢
  by_cases c0 : isEOF it.rd = true
  · rw [if_pos c0] at hk; cases hk
  rw [if_neg c0] at hk ⊢
  by_cases c1 : isSpace it.rd = true
  · rw [if_pos c1] at hk; simp [scanSpace] at hk
  rw [if_neg c1] at hk ⊢
  by_cases c2 : isLetter it.rd = true
  · rw [if_pos c2] at hk
    rcases scanText_kind it.rd w with h | h | h <;> rw [h] at hk <;> cases hk
  rw [if_neg c2] at hk ⊢
  by_cases c3 : (isNumber it.rd || it.rd == '-' || it.rd == '+') = true
  · rw [if_pos c3] at hk ⊢
    refine ⟨(scanNumber_punct it.rd w hk).1, Or.inr ?_⟩
    exact numLoop_punct it.rd _ _ (Nat.le_refl _) it.rd false false [it.rd] hk
  rw [if_neg c3] at hk ⊢
  by_cases c4 : (it.rd == '"') = true
  · rw [if_pos c4] at hk
    unfold scanString at hk
    simp only [] at hk
    split at hk
    · cases hk
    · split at hk <;> cases hk
  rw [if_neg c4] at hk ⊢
  by_cases c5 : isPunct it.rd = true
  · rw [if_pos c5]
    refine ⟨rfl, Or.inl ?_⟩
    simp only [Bool.or_eq_true, beq_iff_eq, not_or] at c3
    simp [selfPunct, c5, c3.2, c3.1.2]
  · rw [if_neg c5] at hk; cases hk



/-- the text behind a token of a well-separated rendering stops that token -/
theorem stops_next (t : Token) (sep : String) (l : List (Token × String)) (hA : Alone t)
    (h : chainOK ((t, sep) :: l) = true) :
    stopsFor (scanTok (itemsOfChars (tokText t).toList)) (itemsOfChars sep.toList ++ R l) = true := by
  have hb := chainOK_blank _ _ h
  cases hs : sep.toList with
  | cons c cs =>
    have hc : isSpace c = true := by
      simp only [isBlankStr, hs, List.all_cons, Bool.and_eq_true] at hb; exact hb.1
    have hst : stopChar c = true := by simp [stopChar, hc]
    apply stopsFor_of_stopsB
    show stopsB (itemOfChar c :: _) = true
    rw [itemOfChar_stop hst]
    simp [stopsB, hst]
  | nil =>
    show stopsFor _ ([] ++ R l) = true
    rw [List.nil_append]
    cases l with
    | nil => exact stopsFor_nil _
    | cons q l =>
      obtain ⟨q1, q2⟩ := q
      rw [chainOK_cons2] at h
      simp only [Bool.and_eq_true, sepOK, isEmpty_of_toList hs, Bool.not_true, Bool.false_or] at h
      obtain ⟨⟨_, hnm⟩, hch⟩ := h
      simp only [noMerge, Bool.or_eq_true, Bool.and_eq_true, decide_eq_true_eq] at hnm
      rcases hnm with (hsd | hhs) | ⟨hnum, hq⟩
      · -- self-delimiting
        cases t with
        | string v =>
          have := tokOf_string hA.tok
          simp [stopsFor, this]
        | punct v =>
          obtain ⟨hk, hr⟩ := tokOf_punct hA.tok
          simp only [selfDelimiting, Bool.and_eq_true, bne_iff_ne, ne_eq] at hsd
          -- the raw value is one punctuation character that is not a sign
          have hraw := hA.raw
          have hv : tokText (Token.punct v) = v := rfl
          rw [hv] at hraw hk hr
          cases hw : v.toList with
          | nil =>
            exfalso; apply hA.notEof; rw [hv, hw]; rfl
          | cons c cs =>
            rw [hw] at hk hraw
            have hp := scanTok_punct (itemOfChar c) (itemsOfChars cs) hk
            have hraw2 : (scanTok (itemsOfChars (c :: cs))).raw = [c] := hp.1
            have hcs : cs = [] := by
              rw [hraw2] at hraw; simpa using hraw.symm
            subst hcs
            have hveq : v = String.ofList [c] := by rw [← String.ofList_toList (s := v), hw]
            rcases hp.2 with hsp | hm | hpl
            · rw [itemOfChar_rd] at hsp
              simp only [stopsFor, hv, hw, hk, hraw2, hsp, Bool.true_or]
            · exfalso; apply hsd.2; rw [hveq]; rw [itemOfChar_rd] at hm; rw [hm]
            · exfalso; apply hsd.1; rw [hveq]; rw [itemOfChar_rd] at hpl; rw [hpl]
        | _ => simp [selfDelimiting] at hsd
      · -- the next token starts with a hard stop
        cases hq : (tokText q1).toList with
        | nil => rw [hq] at hhs; cases hhs
        | cons c cs =>
          rw [hq] at hhs
          simp only [] at hhs
          have hst : stopChar c = true := by simp [stopChar, hhs]
          apply stopsFor_of_stopsB
          rw [R_cons_head q1 q2 l c cs hq, itemOfChar_stop hst]
          simp [stopsB, hst]
      · -- a number, then `-`
        subst hq
        have hkind := tokOf_num hA.tok hnum
        have hmin : (tokText (Token.punct "-")).toList = ['-'] := by decide
        have hnn := after_minus q2 l hch
        have : stopsNumB (R ((Token.punct "-", q2) :: l)) = true := by
          rw [R_cons_head _ q2 l '-' [] hmin]
          have : itemOfChar '-' = ⟨'-', true⟩ := by decide
          rw [this]
          simp only [stopsNumB, Bool.true_and, Bool.or_eq_true, beq_self_eq_true,
            Bool.not_eq_true']
          right
          simpa [itemsOfChars] using hnn
        rcases hkind with hk | hk <;> simp [stopsFor, hk, this]



/-- the tokens of a scan without the spaces and without positions -/
def toksOf (ts : List PTok) : List Token := (ts.filter (fun t => t.kind != .space)).map PTok.tok

theorem scanFuel_go (fuel : Nat) (s : St) (hk1 : (scanTok s.inp).kind ≠ .eof)
    (hk2 : (scanTok s.inp).kind ≠ .error) :
    scanFuel (fuel + 1) s = (scanFuel fuel (step s).2).map ((step s).1 :: ·) := by
  conv => lhs; unfold scanFuel
  simp only []
  rw [if_neg]
  simp [step_kind, hk1, hk2]

theorem scanFuel_eof (fuel : Nat) (s : St) (hk : (scanTok s.inp).kind = .eof) :
    scanFuel (fuel + 1) s = some [(step s).1] := by
  conv => lhs; unfold scanFuel
  simp only []
  rw [if_pos]
  simp [step_kind, hk]

theorem step_tok (s : St) : (step s).1.tok =
    tokOf (scanTok s.inp).kind (scanTok s.inp).msg (scanTok s.inp).raw := tok_eq _

theorem R_length_pos (t : Token) (hA : Alone t) : 0 < (itemsOfChars (tokText t).toList).length := by
  obtain ⟨c, cs, h, _⟩ := alone_head hA
  simp [h, itemsOfChars]

theorem R_head_notSpace (l : List (Token × String)) (hall : ∀ p ∈ l, Alone p.1) :
    ∀ a, (R l).head? = some a → isSpace a.pk = false := by
  intro a ha
  cases l with
  | nil => simp [R] at ha
  | cons p l =>
    obtain ⟨p1, p2⟩ := p
    obtain ⟨c, cs, h, hsp⟩ := alone_head (hall (p1, p2) (by simp))
    rw [R_cons_head p1 p2 l c cs h] at ha
    simp only [List.head?_cons, Option.some.injEq] at ha
    subst ha
    unfold Item.pk
    split
    · exact hsp
    · exact isSpace_eof

theorem render_scan (l : List (Token × String)) : chainOK l = true → (∀ p ∈ l, Alone p.1) →
    ∀ (s : St) (fuel : Nat), s.inp = R l → (R l).length < fuel →
      ∃ ts, scanFuel fuel s = some ts ∧ toksOf ts = l.map (·.1) ++ [.eof] := by
  induction l with
  | nil =>
    intro _ _ s fuel hinp hf
    cases fuel with
    | zero => omega
    | succ f =>
      have hk : (scanTok s.inp).kind = .eof := by rw [hinp]; rfl
      refine ⟨_, scanFuel_eof f s hk, ?_⟩
      have hkk : (step s).1.kind = .eof := hk
      simp [toksOf, hkk, PTok.tok]
  | cons p l ih =>
    intro hch hall s fuel hinp hf
    obtain ⟨t, sep⟩ := p
    have hA := hall (t, sep) (by simp)
    have hall' : ∀ p ∈ l, Alone p.1 := fun p hp => hall p (by simp [hp])
    have hch' := chainOK_tail _ _ hch
    have hstop := stops_next t sep l hA hch
    have hloc := scanTok_append _ _ hA.rest hA.notEof hA.notErr hA.notSpace hstop
    have hinp' : s.inp = itemsOfChars (tokText t).toList ++ (itemsOfChars sep.toList ++ R l) := hinp
    have hWpos := R_length_pos t hA
    have hlen : (R ((t, sep) :: l)).length =
        (itemsOfChars (tokText t).toList).length + ((itemsOfChars sep.toList).length + (R l).length) := by
      simp [R]
    cases fuel with
    | zero => omega
    | succ f =>
      have hlx : scanTok s.inp = withRest (scanTok (itemsOfChars (tokText t).toList))
          (itemsOfChars sep.toList ++ R l) := by rw [hinp']; exact hloc
      have hk1 : (scanTok s.inp).kind ≠ .eof := by rw [hlx]; exact hA.notEof
      have hk2 : (scanTok s.inp).kind ≠ .error := by rw [hlx]; exact hA.notErr
      have hk3 : (step s).1.kind ≠ .space := by
        show (scanTok s.inp).kind ≠ .space
        rw [hlx]; exact hA.notSpace
      have htok : (step s).1.tok = t := by
        rw [step_tok, hlx]; exact hA.tok
      have hinp1 : (step s).2.inp = itemsOfChars sep.toList ++ R l := by
        rw [step_inp, hlx]; rfl
      rw [scanFuel_go f s hk1 hk2]
      cases hs : sep.toList with
      | nil =>
        rw [hs] at hinp1 hlen
        obtain ⟨ts, h1, h2⟩ := ih hch' hall' (step s).2 f (by simpa [itemsOfChars] using hinp1)
          (by simp [itemsOfChars] at hlen hWpos; omega)
        refine ⟨(step s).1 :: ts, by rw [h1]; rfl, ?_⟩
        have : ((step s).1.kind != Kind.space) = true := by simpa using hk3
        simp only [toksOf, List.filter_cons, this, if_true, List.map_cons, htok, List.map_cons,
          List.cons_append, List.cons.injEq, true_and]
        exact h2
      | cons c cs =>
        rw [hs] at hinp1 hlen
        have hb := chainOK_blank _ _ hch
        have hbl : ∀ x ∈ c :: cs, isSpace x = true := by
          simpa [isBlankStr, hs] using hb
        have hsp := scanTok_blanks c cs (R l) (hbl c (by simp)) (fun x hx => hbl x (by simp [hx]))
          (R_head_notSpace l hall')
        cases f with
        | zero => simp [itemsOfChars] at hlen hWpos; omega
        | succ f' =>
          have hk1' : (scanTok (step s).2.inp).kind ≠ .eof := by rw [hinp1, hsp]; simp
          have hk2' : (scanTok (step s).2.inp).kind ≠ .error := by rw [hinp1, hsp]; simp
          rw [scanFuel_go f' _ hk1' hk2']
          have hinp2 : (step (step s).2).2.inp = R l := by rw [step_inp, hinp1, hsp]
          have hkind2 : (step (step s).2).1.kind = .space := by
            show (scanTok (step s).2.inp).kind = .space
            rw [hinp1, hsp]
          obtain ⟨ts, h1, h2⟩ := ih hch' hall' (step (step s).2).2 f' hinp2
            (by simp [itemsOfChars] at hlen hWpos; omega)
          refine ⟨(step s).1 :: (step (step s).2).1 :: ts, by rw [h1]; rfl, ?_⟩
          have : ((step s).1.kind != Kind.space) = true := by simpa using hk3
          simp only [toksOf, List.filter_cons, this, if_true, List.map_cons, htok, hkind2, List.cons_append,
            List.cons.injEq, true_and]
          exact h2



theorem scanToks_eq (bs : List UInt8) : scanToks bs = toksOf (scanItemsAll (decode bs)) := rfl

/-- the rendering round trip on the item level, with a leading blank string -/
theorem render_scan_lead (lead : String) (l : List (Token × String)) (hlead : isBlankStr lead = true)
    (hch : chainOK l = true) (hall : ∀ p ∈ l, Alone p.1) :
    toksOf (scanItemsAll (itemsOfChars (render lead l).toList)) = l.map (·.1) ++ [.eof] := by
  have hitems : itemsOfChars (render lead l).toList = itemsOfChars lead.toList ++ R l := by
    simp [render, itemsOfChars_append, R_eq]
  rw [hitems]
  unfold scanItemsAll
  cases hs : lead.toList with
  | nil =>
    simp only [itemsOfChars, List.map_nil, List.nil_append]
    obtain ⟨ts, h1, h2⟩ := render_scan l hch hall { inp := R l } ((R l).length + 1) rfl (Nat.lt_succ_self _)
    rw [h1]; exact h2
  | cons c cs =>
    have hbl : ∀ x ∈ c :: cs, isSpace x = true := by
      simpa [isBlankStr, hs] using hlead
    have hsp := scanTok_blanks c cs (R l) (hbl c (by simp)) (fun x hx => hbl x (by simp [hx]))
      (R_head_notSpace l hall)
    generalize hs0 : ({ inp := itemsOfChars (c :: cs) ++ R l } : St) = s0
    have hinp0 : s0.inp = itemsOfChars (c :: cs) ++ R l := by rw [← hs0]
    have hk1 : (scanTok s0.inp).kind ≠ .eof := by rw [hinp0, hsp]; simp
    have hk2 : (scanTok s0.inp).kind ≠ .error := by rw [hinp0, hsp]; simp
    rw [scanFuel_go _ s0 hk1 hk2]
    have hinp1 : (step s0).2.inp = R l := by rw [step_inp, hinp0, hsp]
    have hkind : (step s0).1.kind = .space := by
      show (scanTok s0.inp).kind = .space
      rw [hinp0, hsp]
    obtain ⟨ts, h1, h2⟩ := render_scan l hch hall (step s0).2
      (itemsOfChars (c :: cs) ++ R l).length hinp1 (by simp [itemsOfChars]; omega)
    rw [h1]
    simp only [Option.map_some, Option.getD_some, toksOf, List.filter_cons, hkind]
    exact h2

end Acme.Dbc.Scan
