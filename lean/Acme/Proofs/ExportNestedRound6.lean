/-
C11 at message level, nested multiplexers, part 11: the composition — export → import on the
nested class.
-/
import Acme.Proofs.ExportNestedRound5
import Acme.Proofs.ExportRound2

namespace Acme.Import
open Acme.Layout Acme.Conv Acme.Arith

theorem importMsg_eval_many (m : DMsg) (top : List Item) (nested : List MuxNode) (a b : DSig) (rest : List DSig)
    (hf : firstLoop (8 * (m.size : Int)) (headBE (sortSigs m.sigs)) [] (sortSigs m.sigs) = .ok ())
    (hs : m.size ≤ 8) (hm : (sortSigs m.sigs).filter (·.isMultiplexor) = a :: b :: rest)
    (hr : importMany (8 * (m.size : Int)) m.exts (a :: b :: rest) (sortSigs m.sigs) = .ok (top, nested)) :
    importMsg m = .ok ⟨m.id, m.size, headBE (sortSigs m.sigs), top, nested⟩ := by
  unfold importMsg
  dsimp only
  rw [hf]
  simp only [if_neg (by omega : ¬ m.size > 8), hm, hr]

theorem zip_map_self {α β : Type} (f : α → β) : ∀ l : List α, l.zip (l.map f) = l.map (fun x => (x, f x))
  | [] => rfl
  | a :: r => by simp [zip_map_self f r]

theorem normItemN_start (be : Bool) (x : Item) : (normItemN be x).start = x.start := by
  cases x <;> rfl

theorem muxesOf_one_mapN (be : Bool) (n : MuxNode) : ∀ top : List Item, muxesOf top = [n] →
    (top.map (normItemN be)).Perm ((leavesOf top).map Item.sig ++ [Item.mux (normNodeN be n)])
  | [], h => by simp [muxesOf] at h
  | .sig l :: r, h => by
    simp only [muxesOf] at h
    simp only [List.map_cons, normItemN, leavesOf, List.cons_append]
    exact List.Perm.cons _ (muxesOf_one_mapN be n r h)
  | .mux m :: r, h => by
    simp only [muxesOf, List.cons.injEq] at h
    obtain ⟨rfl, hr⟩ := h
    simp only [List.map_cons, normItemN, leavesOf]
    have h1 : r.map (normItemN be) = r := by
      have := muxesOf_nil_top r hr
      rw [this, List.map_map]
      apply List.map_congr_left
      intro l _
      rfl
    rw [h1]
    have := muxesOf_nil_top r hr
    rw [← this]
    exact (List.perm_append_comm (l₁ := [Item.mux (normNodeN be m)]) (l₂ := r))

section
variable {t : ITree} {r : MuxNode} (c : NCtx t r)
include c

theorem NCtx.groups_eq :
    (List.replicate (Hx t).length ([] : List DSig)).mapIdx (fun i g => g ++ (Sx t).filter (fun s =>
      !isMuxName (Hx t) s && s.isMultiplexed && (ownIdx (exportMsgN t).exts (Hx t) s == some i))) =
    (Hx t).map (fun mx => (Sx t).filter (Pn t mx.name)) := by
  apply List.ext_getElem?
  intro j
  rw [List.getElem?_mapIdx, List.getElem?_map, List.getElem?_replicate]
  by_cases hj : j < (Hx t).length
  · rw [if_pos hj, List.getElem?_eq_getElem hj]
    simp only [Option.map_some, List.nil_append, Option.some.injEq]
    apply List.filter_congr
    intro s _
    unfold Pn
    congr 1
    unfold ownIdx ownerIs
    cases hf : findExt (exportMsgN t).exts s.name with
    | none => rfl
    | some e =>
      simp only
      by_cases he : e.muxor = (Hx t)[j].name
      · rw [he, muxIdx_of_nodup _ c.hxNodup j _ (List.getElem?_eq_getElem hj)]
        simp
      · have : muxIdx (Hx t) e.muxor ≠ some j := by
          intro hc
          have := muxIdx_name _ _ _ hc
          rw [List.getElem?_eq_getElem hj] at this
          simp only [Option.map_some, Option.some.injEq] at this
          exact he this.symm
        simp [this, he]
  · rw [if_neg hj, List.getElem?_eq_none (by omega)]
    rfl

end

end Acme.Import

namespace Acme.Import
open Acme.Layout Acme.Conv Acme.Arith

theorem zipIdx_mem_get (R : List PRec) : ∀ (k : Nat) (e : PRec × Nat), e ∈ R.zipIdx k →
    k ≤ e.2 ∧ R[e.2 - k]? = some e.1 := by
  induction R with
  | nil => intro k e he; simp at he
  | cons a rest ih =>
    intro k e he
    rw [List.zipIdx_cons] at he
    rcases List.mem_cons.1 he with rfl | he
    · simp
    · obtain ⟨h1, h2⟩ := ih (k + 1) e he
      refine ⟨by omega, ?_⟩
      have : e.2 - k = (e.2 - (k + 1)) + 1 := by omega
      rw [this, List.getElem?_cons_succ]
      exact h2

section
variable {t : ITree} {r : MuxNode} (c : NCtx t r)
include c

/-- every multiplexor of the sorted file is the multiplexor signal of a multiplexer of the tree -/
theorem NCtx.head_node (h : DSig) (hh : h ∈ Hx t) :
    ∃ m ∈ r :: reach t r, h.name = m.name ∧ h.start = fileStart t.bigEndian m.start := by
  have hheads : (Hx t).map eraseSw = headSig t.bigEndian false r :: (Ds t r).map (sigOfD t.bigEndian t.nested) :=
    c.heads
  have : eraseSw h ∈ (Hx t).map eraseSw := List.mem_map.2 ⟨h, hh, rfl⟩
  rw [hheads] at this
  rcases List.mem_cons.1 this with he | he
  · exact ⟨r, List.mem_cons_self .., congrArg DSig.name he, congrArg DSig.start he⟩
  · obtain ⟨d, hd, hde⟩ := List.mem_map.1 he
    obtain ⟨hd1, hd2⟩ := c.ds_mem d hd
    unfold isSub at hd2
    cases hsub : subOf t.nested d.2.1 with
    | none => rw [hsub] at hd2; cases hd2
    | some sub =>
      have hsr : sub ∈ reach t r := by
        rw [c.below_eq]
        exact List.mem_filterMap.2 ⟨d, List.mem_filter.2 ⟨hd1, by unfold isSub; rw [hsub]; rfl⟩, hsub⟩
      have hs : eraseSw h = headSig t.bigEndian true sub := by
        rw [← hde]; unfold sigOfD; rw [hsub]
      exact ⟨sub, List.mem_cons_of_mem _ hsr, congrArg DSig.name hs, congrArg DSig.start hs⟩

theorem NCtx.nestedEq : sortBy (headKey t.bigEndian) (reach t r) = (Ds t r).map (subNode t.nested) := by
  have h1 : reach t r = ((Dt t r).filter (isSub t.nested)).map (subNode t.nested) := by
    rw [c.below_eq]
    rw [← List.filterMap_eq_map]
    apply List.filterMap_congr
    intro d hd
    have := (List.mem_filter.1 hd).2
    unfold isSub at this
    unfold subNode
    cases hsub : subOf t.nested d.2.1 with
    | none => rw [hsub] at this; cases this
    | some sub => simp [Function.comp, hsub]
  rw [h1, sortBy_map]
  unfold Ds
  congr 1
  apply sortBy_congr
  intro d hd
  have := (List.mem_filter.1 hd).2
  unfold isSub at this
  simp only [Function.comp, headKey, dKey, subNode, sigOfD]
  cases hsub : subOf t.nested d.2.1 with
  | none => rw [hsub] at this; cases this
  | some sub => rfl

/-- what the first loop of the importer needs of every signal -/
theorem NCtx.split_hyp (s : DSig) (hs : s ∈ Sx t) (hnm : isMuxName (Hx t) s = false) :
    (s.isMultiplexed = true → (ownIdx (exportMsgN t).exts (Hx t) s).isSome = true) ∧
    (s.isMultiplexed = false → s.isMultiplexor = false ∧ ∃ l, Item.sig l ∈ t.top ∧ eraseSw s = leafSig t.bigEndian l) := by
  have hnotin : s.name ∉ (Hx t).map (·.name) := by
    intro hc
    have := (isMuxName_iff _ _).2 hc
    rw [hnm] at this
    cases this
  rcases c.mem_Lc (eraseSw s) (c.mem_sorted s hs) with ⟨l, hl, he⟩ | he | ⟨d, hd, he⟩
  · have hmd : s.isMultiplexed = false := congrArg DSig.isMultiplexed he
    have hmr : s.isMultiplexor = false := congrArg DSig.isMultiplexor he
    exact ⟨fun h => (by rw [hmd] at h; cases h), fun _ => ⟨hmr, l, hl, he⟩⟩
  · exfalso
    apply hnotin
    have : s.name = r.name := congrArg DSig.name he
    rw [this]
    exact c.node_name_mem r (List.mem_cons_self ..)
  · have hname : s.name = d.2.1.name := by
      have h' : (eraseSw s).name = (sigOfD t.bigEndian t.nested d).name := congrArg DSig.name he
      have : s.name = (sigOfD t.bigEndian t.nested d).name := h'
      rw [this, c.sigName d hd]
    have hmd : s.isMultiplexed = true := by
      have h' : (eraseSw s).isMultiplexed = (sigOfD t.bigEndian t.nested d).isMultiplexed :=
        congrArg DSig.isMultiplexed he
      have : s.isMultiplexed = (sigOfD t.bigEndian t.nested d).isMultiplexed := h'
      rw [this, sigOfD_md]
    cases hsub : isSub t.nested d with
    | true =>
      exfalso
      apply hnotin
      rw [hname, c.hxNames]
      apply List.mem_cons_of_mem
      refine List.mem_map.2 ⟨d, ?_, rfl⟩
      exact (sortBy_perm _ _).mem_iff.2 (List.mem_filter.2 ⟨hd, hsub⟩)
    | false =>
      refine ⟨fun _ => ?_, fun h => (by rw [hmd] at h; cases h)⟩
      obtain ⟨_, hown⟩ := c.good d hd
      obtain ⟨i, hi⟩ := c.node_idx d.1 hown
      unfold ownIdx
      rw [hname, c.ext_found d hd]
      show (muxIdx (Hx t) d.1.name).isSome = true
      rw [hi]
      rfl

end

end Acme.Import
