/-
`Inv` is preserved by the message operations: msgNew, msgRename, msgSetId, msgSetStatic,
msgResize.
-/
import Acme.Proofs.GraphTac

namespace Acme.Graph

theorem stepMsgNew_inv {g : G} (h : Inv g) (m : Nat) (name : String) (mid : Nat) (size : Int)
    (hx : g.buses.get m = none ∧ g.nodes.get m = none ∧ g.sigs.get m = none) :
    Inv (stepMsgNew g m name mid size).1 := by
  unfold stepMsgNew
  repeat' split
  all_goals first | exact h | skip
  inv_groups h

theorem stepMsgResize_inv {g : G} (h : Inv g) (m : Nat) (k : Int) : Inv (stepMsgResize g m k).1 := by
  unfold stepMsgResize
  try dsimp only
  repeat' split
  all_goals first | exact h | skip
  all_goals inv_groups h

theorem stepMsgRename_inv {g : G} (h : Inv g) (m : Nat) (name : String) : Inv (stepMsgRename g m name).1 := by
  unfold stepMsgRename
  try dsimp only
  repeat' split
  all_goals first | exact h | skip
  · inv_groups h
  · rename_i _ msg hm hne _ i hs _ ifc hi hfree
    have s1 : msgSender g.msgs m = some i := by rw [msgSender_of_get hm]; exact hs
    have s2 := h.sent.s2 s1
    have s3 := h.sent.n2 s1 (msgName_of_get hm)
    inv_groups h

end Acme.Graph
