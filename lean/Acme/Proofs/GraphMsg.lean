/-
`Inv` is preserved by the message operations: msgNew, msgRename, msgSetId, msgSetStatic,
msgResize.
-/
import Acme.Proofs.GraphTac

namespace Acme.Graph

theorem stepMsgNew_inv {g : G} (h : Inv g) (m : Nat) (name : String) (mid : Nat) (size : Int)
    (hx : g.buses.get m = none ∧ g.nodes.get m = none ∧ g.sigs.get m = none) :
    Inv (stepMsgNew g m name mid size).1 := by
  unfold stepMsgNew
  repeat' split
  all_goals first | exact h | skip
  inv_groups h []

theorem stepMsgResize_inv {g : G} (h : Inv g) (m : Nat) (k : Int) : Inv (stepMsgResize g m k).1 := by
  unfold stepMsgResize
  try dsimp only
  repeat' split
  all_goals first | exact h | skip
  all_goals inv_groups h []

theorem stepMsgRename_inv {g : G} (h : Inv g) (m : Nat) (name : String) : Inv (stepMsgRename g m name).1 := by
  unfold stepMsgRename
  try dsimp only
  repeat' split
  all_goals first | exact h | skip
  · rename_i _ msg hm hne _ hs
    inv_groups h [hm]
  · rename_i _ msg hm hne _ i hs _ ifc hi hfree
    have s1 : msgSender g.msgs m = some i := by rw [msgSender_of_get hm]; exact hs
    have s2 := h.sent.s2 s1
    have s3 := h.sent.n2 s1 (msgName_of_get hm)
    inv_groups h [hm, hi]

set_option maxHeartbeats 1000000 in
theorem stepMsgSetId_inv {g : G} (h : Inv g) (m mid : Nat) : Inv (stepMsgSetId g m mid).1 := by
  unfold stepMsgSetId
  try dsimp only
  repeat' split
  all_goals first | exact h | skip
  · rename_i _ msg hm hne _ hs
    inv_groups h [hm]
  · rename_i _ msg hm hne _ i hs _ ifc hi hfree _ c hc
    have s1 : msgSender g.msgs m = some i := by rw [msgSender_of_get hm]; exact hs
    have s2 := h.sent.s2 s1
    have s3 : msgStatic g.msgs m = some c := by rw [msgStatic_of_get hm]; exact hc
    have s4 := h.sent.t2 s1 s3
    have s5 : ifaceBus g.ifaces i = ifc.parentBus := ifaceBus_of_get hi
    have s7 : ∀ b, ifc.parentBus = some b → g.buses.get b ≠ none := fun b hb =>
      h.bus.bus_exists (ifaceNode_of_get hi) (by rw [s5]; exact hb)
    have e1 := ifaceSentIDs_of_get hi
    have e2 := ifaceSentStatic_of_get hi
    inv_norm
    inv_split
    case static =>
      o_static h
      refine ⟨?_, ?_⟩
      · inv_field [hm, hi]
      · intro b
        views_simp
        split
        · rename_i hb
          have hb' : ifaceBus g.ifaces i = some b := by rw [s5]; exact hb.1
          refine idx_remove (st_g b) ⟨s3, i, s1, hb'⟩ ?_ ?_
          · intro k hk; have := hk.1; rw [s3] at this; exact (Option.some.inj this).symm
          · intro k x; unfold MsgOnBus; grind
        · refine idx_congr (st_g b) ?_
          intro k x; unfold MsgOnBus; grind
    case sent =>
      o_sent h
      refine ⟨?_, ?_, ?_, ?_, ?_, ?_, ?ids, ?stat⟩
      case ids =>
        intro j
        views_simp
        split
        · rename_i hj; subst hj
          rw [← e1]
          refine idx_add (se_ig j) (by rw [e1]; exact hfree) ?_ ?_
          · intro k hk; rw [s3] at hk; simp at hk
          · intro k x; grind
        · refine idx_congr (se_ig j) ?_
          intro k x; grind
      case stat =>
        intro j
        views_simp
        split
        · rename_i hj; subst hj
          rw [← e2]
          refine idx_remove (se_tg j) ⟨s2, s3⟩ ?_ ?_
          · intro k hk; have := hk.2; rw [s3] at this; exact (Option.some.inj this).symm
          · intro k x; grind
        · refine idx_congr (se_tg j) ?_
          intro k x; grind
      all_goals inv_field [hm, hi]
    inv_rest h [hm, hi]
  · rename_i _ msg hm hne _ i hs _ ifc hi hfree _ hc
    have s1 : msgSender g.msgs m = some i := by rw [msgSender_of_get hm]; exact hs
    have s2 := h.sent.s2 s1
    have s3 : msgStatic g.msgs m = none := by rw [msgStatic_of_get hm]; exact hc
    have s4 : msgMid g.msgs m = some msg.mid := msgMid_of_get hm
    have e1 := ifaceSentIDs_of_get hi
    inv_norm
    inv_split
    case sent =>
      o_sent h
      refine ⟨?_, ?_, ?_, ?_, ?_, ?_, ?ids, ?_⟩
      case ids =>
        intro j
        views_simp
        split
        · rename_i hj; subst hj
          rw [← e1]
          refine idx_modify (se_ig j) ⟨s2, s4, s3⟩ ?_ (Or.inr (by rw [e1]; exact hfree)) ?_
          · intro k hk; have := hk.2.1; rw [s4] at this; exact (Option.some.inj this).symm
          · intro k x; grind
        · refine idx_congr (se_ig j) ?_
          intro k x; grind
      all_goals inv_field [hm, hi]
    inv_rest h [hm, hi]

set_option maxHeartbeats 1000000 in
theorem stepMsgSetStatic_inv {g : G} (h : Inv g) (m c : Nat) : Inv (stepMsgSetStatic g m c).1 := by
  unfold stepMsgSetStatic
  try dsimp only
  repeat' split
  all_goals first | exact h | skip
  · rename_i _ msg hm _ hs
    inv_groups h [hm]
  · -- the message already has a static CAN-ID `old`
    rename_i _ msg hm _ i hs _ ifc hi hfree hclash _ old hc
    have s1 : msgSender g.msgs m = some i := by rw [msgSender_of_get hm]; exact hs
    have s2 := h.sent.s2 s1
    have s3 : msgStatic g.msgs m = some old := by rw [msgStatic_of_get hm]; exact hc
    have s5 : ifaceBus g.ifaces i = ifc.parentBus := ifaceBus_of_get hi
    have s7 : ∀ b, ifc.parentBus = some b → g.buses.get b ≠ none := fun b hb =>
      h.bus.bus_exists (ifaceNode_of_get hi) (by rw [s5]; exact hb)
    have e2 := ifaceSentStatic_of_get hi
    inv_norm
    inv_split
    case static =>
      o_static h
      refine ⟨?_, ?_⟩
      · inv_field [hm, hi]
      · intro b
        views_simp
        split
        · rename_i hb
          have hb' : ifaceBus g.ifaces i = some b := by rw [s5]; exact hb.1
          refine idx_modify (st_g b) ⟨s3, i, s1, hb'⟩ ?_ (Or.inr ?_) ?_
          · intro k hk; have := hk.1; rw [s3] at this; exact (Option.some.inj this).symm
          · rw [hb.1] at hclash; simpa using hclash
          · intro k x; unfold MsgOnBus; grind
        · refine idx_congr (st_g b) ?_
          intro k x; unfold MsgOnBus; grind
    case sent =>
      o_sent h
      refine ⟨?_, ?_, ?_, ?_, ?_, ?_, ?_, ?stat⟩
      case stat =>
        intro j
        views_simp
        split
        · rename_i hj; subst hj
          rw [← e2]
          refine idx_modify (se_tg j) ⟨s2, s3⟩ ?_ (Or.inr (by rw [e2]; exact hfree)) ?_
          · intro k hk; have := hk.2; rw [s3] at this; exact (Option.some.inj this).symm
          · intro k x; grind
        · refine idx_congr (se_tg j) ?_
          intro k x; grind
      all_goals inv_field [hm, hi]
    inv_rest h [hm, hi]
  · -- the message had a generated CAN-ID
    rename_i _ msg hm _ i hs _ ifc hi hfree hclash _ hc
    have s1 : msgSender g.msgs m = some i := by rw [msgSender_of_get hm]; exact hs
    have s2 := h.sent.s2 s1
    have s3 : msgStatic g.msgs m = none := by rw [msgStatic_of_get hm]; exact hc
    have s4 : msgMid g.msgs m = some msg.mid := msgMid_of_get hm
    have s5 : ifaceBus g.ifaces i = ifc.parentBus := ifaceBus_of_get hi
    have s7 : ∀ b, ifc.parentBus = some b → g.buses.get b ≠ none := fun b hb =>
      h.bus.bus_exists (ifaceNode_of_get hi) (by rw [s5]; exact hb)
    have e1 := ifaceSentIDs_of_get hi
    have e2 := ifaceSentStatic_of_get hi
    inv_norm
    inv_split
    case static =>
      o_static h
      refine ⟨?_, ?_⟩
      · inv_field [hm, hi]
      · intro b
        views_simp
        split
        · rename_i hb
          have hb' : ifaceBus g.ifaces i = some b := by rw [s5]; exact hb.1
          refine idx_add (st_g b) ?_ ?_ ?_
          · rw [hb.1] at hclash; simpa using hclash
          · intro k hk; have := hk.1; rw [s3] at this; cases this
          · intro k x; unfold MsgOnBus; grind
        · refine idx_congr (st_g b) ?_
          intro k x; unfold MsgOnBus; grind
    case sent =>
      o_sent h
      refine ⟨?_, ?_, ?_, ?_, ?_, ?_, ?ids, ?stat⟩
      case ids =>
        intro j
        views_simp
        split
        · rename_i hj; subst hj
          rw [← e1]
          refine idx_remove (se_ig j) ⟨s2, s4, s3⟩ ?_ ?_
          · intro k hk; have := hk.2.1; rw [s4] at this; exact (Option.some.inj this).symm
          · intro k x; grind
        · refine idx_congr (se_ig j) ?_
          intro k x; grind
      case stat =>
        intro j
        views_simp
        split
        · rename_i hj; subst hj
          rw [← e2]
          refine idx_add (se_tg j) (by rw [e2]; exact hfree) ?_ ?_
          · intro k hk; have := hk.2; rw [s3] at this; cases this
          · intro k x; grind
        · refine idx_congr (se_tg j) ?_
          intro k x; grind
      all_goals inv_field [hm, hi]
    inv_rest h [hm, hi]

end Acme.Graph
