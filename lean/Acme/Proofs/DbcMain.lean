/-
C08: the write-then-parse theorem, assembled (`parse_write`), and the facts about `norm`.
-/
import Acme.Proofs.DbcRound4
import Acme.Proofs.DbcTotal

set_option linter.unusedSimpArgs false

namespace Acme.Dbc

/-- a fuel-free run is the result of `parseToks` (whose fuel never runs out) -/
theorem parseToks_of_runs (hex : Bool) (ts : List Token) (f : File)
    (h : Runs hex {} {} ts f) : parseToks hex ts = .ok f := by
  obtain ⟨n, hn⟩ := h
  unfold parseToks
  have hnf := parseLoop_ne_fuel hex (ts.length + 1) {} {} ts (Nat.lt_succ_self _)
  have h1 := parseLoop_mono hex n {} {} ts _ hn (by simp) (max n (ts.length + 1)) (Nat.le_max_left _ _)
  have h2 := parseLoop_mono hex (ts.length + 1) {} {} ts _ rfl hnf (max n (ts.length + 1))
    (Nat.le_max_right _ _)
  rw [← h2, h1]

theorem Runs.congr {hex pf ast ts f f'} (h : Runs hex pf ast ts f) (e : f = f') :
    Runs hex pf ast ts f' := e ▸ h

theorem step_newSymbols' (hex : Bool) (pf : PFlags) (ast : File) (syms : List String)
    (bt : BitTiming) (rest : List Token) (hpf : pf.foundNewSym = false)
    (h : syms.all (fun s => newSymbolsValues.contains s) = true) :
    stepSection hex pf ast (writeNewSymbols syms ++ (writeBitTiming bt ++ rest)) =
      .ok (({ ast with newSymbols := some syms }, { pf with foundNewSym := true }),
        writeBitTiming bt ++ rest) := by
  have : writeBitTiming bt ++ rest = Token.kw .bitTiming :: ((writeBitTiming bt).tail ++ rest) := rfl
  rw [this]
  exact step_newSymbols hex pf ast syms _ hpf h

theorem all_newSymbolsValues :
    newSymbolsValues.all (fun s => newSymbolsValues.contains s) = true := by decide

/-- the `BU_` section of `writeFile` -/
def nodesToks : Option (List String) → List Token
  | some n => writeNodes n
  | none => []

theorem writeFile_eq (hex : Bool) (f : File) :
    writeFile hex f =
      writeVersion (if f.version ≠ "" then f.version else "_") ++
      writeNewSymbols (f.newSymbols.getD newSymbolsValues) ++
      writeBitTiming (f.bitTiming.getD {}) ++
      nodesToks f.nodes ++
      writeSlice writeValueTable f.valueTables ++
      writeSlice writeMessage f.messages ++
      writeSlice writeMessageTransmitter f.messageTransmitters ++
      writeSlice writeEnvVar f.envVars ++
      writeSlice writeEnvVarData f.envVarDatas ++
      writeSlice writeSignalType f.signalTypes ++
      writeSlice writeComment f.comments ++
      writeSlice (writeAttribute hex) f.attributes ++
      writeSlice (writeAttributeDefault hex) f.attributeDefaults ++
      writeSlice (writeAttributeValue hex) f.attributeValues ++
      writeSlice writeValueEncoding f.valueEncodings ++
      writeSlice writeSignalTypeRef f.signalTypeRefs ++
      writeSlice writeSignalGroup f.signalGroups ++
      writeSlice writeSignalExtValueType f.signalExtValueTypes ++
      writeSlice writeExtendedMux f.extendedMuxes := by
  unfold writeFile
  cases f.newSymbols <;> cases f.bitTiming <;> cases f.nodes <;> rfl

theorem parse_write (fl : String → Bool) (hfl : ∀ s, fl s = true → acceptedFloatText s = true)
    (hex : Bool) (f : File) (h : fileOK fl f = true) :
    parseToks hex (writeToks hex f) = .ok (norm hex f) := by
  apply parseToks_of_runs
  simp only [fileOK, Bool.and_eq_true, List.all_eq_true] at h
  obtain ⟨⟨⟨⟨⟨⟨⟨⟨⟨⟨⟨⟨⟨⟨⟨⟨⟨⟨_, hsyms⟩, hbt⟩, hnodes⟩, h1⟩, h2⟩, h3⟩, h4⟩, h5⟩, h6⟩, h7⟩, h8⟩, h9⟩, h10⟩,
    h11⟩, h12⟩, h13⟩, h14⟩, h15⟩ := h
  have hS := runsF_slices fl hfl hex f h1 h2 h3 h4 h5 h6 h7 h8 h9 h10 h11 h12 h13 h14 h15
  unfold writeToks
  rw [writeFile_eq]
  simp only [List.append_assoc]
  have hsyms' : (f.newSymbols.getD newSymbolsValues).all
      (fun s => newSymbolsValues.contains s) = true := by
    cases hs : f.newSymbols with
    | none => exact all_newSymbolsValues
    | some syms =>
      rw [hs] at hsyms
      simpa using hsyms
  have hbt' : bitTimingOK (f.bitTiming.getD {}) = true := by
    cases hb : f.bitTiming with
    | none => decide
    | some b =>
      rw [hb] at hbt
      exact hbt
  refine Runs.step (step_version hex {} {} _ _ rfl) ?_
  refine Runs.step (step_newSymbols' hex _ _ _ _ _ rfl hsyms') ?_
  cases hn : f.nodes with
  | none =>
    simp only [nodesToks, List.nil_append]
    have hS' := hS { foundVer := true, foundNewSym := true, foundBitTim := true }
      { version := if f.version ≠ "" then f.version else "_",
        newSymbols := some (f.newSymbols.getD newSymbolsValues),
        bitTiming := some (f.bitTiming.getD {}) }
    refine Runs.step (step_bitTiming hex _ _ _ _ rfl hbt' hS'.1.sig) ?_
    refine Runs.congr hS'.2 ?_
    · obtain ⟨v, ns, bt, nd, _, _, _, _, _, _, _, _, _, _, _, _, _, _, _⟩ := f
      simp only at hn
      subst hn
      by_cases hv : v = "" <;> simp [norm, hv]
  | some ns =>
    rw [hn] at hnodes
    simp only [nodesToks]
    have hS' := hS { foundVer := true, foundNewSym := true, foundBitTim := true, foundNode := true }
      { version := if f.version ≠ "" then f.version else "_",
        newSymbols := some (f.newSymbols.getD newSymbolsValues),
        bitTiming := some (f.bitTiming.getD {}),
        nodes := some ns }
    refine Runs.step (step_bitTiming hex _ _ _ _ rfl hbt' (by
      simp only [writeNodes, List.cons_append, List.nil_append, List.append_assoc]
      exact (follow_kw .node (by decide) _).sig)) ?_
    refine Runs.step (step_nodes hex _ _ ns _ rfl (by simpa [List.all_eq_true] using hnodes)
      hS'.1.sig.noIdent) ?_
    refine Runs.congr hS'.2 ?_
    · obtain ⟨v, ns', bt, nd, _, _, _, _, _, _, _, _, _, _, _, _, _, _, _⟩ := f
      simp only at hn
      subst hn
      by_cases hv : v = "" <;> simp [norm, hv]

end Acme.Dbc
