/-
Payload world, part H: the enum operations (`enumSetMinSize`, `enumAddValue`,
`enumRemoveValue`, `enumRemoveAll`, `valSetIndex`) preserve the invariant and never panic.
-/
import Acme.Proofs.PayloadRefs
import Acme.Proofs.PayloadVal

namespace Acme.Payload
open Acme.Layout Acme.Bits Acme.Arith

/-- common end of the enum operations: positions adapted (`RefsOK`), entry of `e` replaced
    (same `refs`), filters of the referencing signals regenerated -/
theorem inv_enum_finish {w w1 w2 : W} (h : Inv w) {e : Nat} {en en' : EnumE}
    (he : w.enums.get e = some en) {newSize : Int} (hr : RefsOK w w1 en.refs newSize)
    (hsigs : w2.sigs = w1.sigs) (hmsgs : w2.msgs = w.msgs) (htypes : w2.types = w.types)
    (henums : w2.enums = upd w.enums e en') (hrefs : en'.refs = en.refs)
    (hsz : enumSizeOf en' = newSize) (hV : InvV w2) : Inv (regenSigs w2 en.refs) := by
  have hS := h.toS
  have hS2 : InvS w2 := by
    apply InvS.congr (fun _ => by rw [htypes]) (fun i => by rw [hsigs]; exact hr.core i)
      (fun _ => by rw [hmsgs]) _ hS
    intro x
    rw [henums, upd_get]
    split
    · subst_vars; rw [he]; simp [hrefs]
    · rfl
  obtain ⟨hw, hf⟩ := wf_fresh_enum hS h.toWF h.toFresh he hr hsigs hmsgs htypes
    (by
      intro x hx
      rw [henums, upd_get, if_neg hx])
    (by rw [henums, upd_get, if_pos rfl]) hsz
  exact Inv.ofParts (hV.regenSigs _) (hS2.regenSigs _) hw hf

theorem inv_enumSetMinSize (w : W) (e : Nat) (k : Int) (h : Inv w) :
    Inv (step w (.enumSetMinSize e k)).1 := by
  simp only [step]
  cases he : w.enums.get e with
  | none => exact h
  | some en =>
    simp only
    cases hv : enumVerifySize w en (enumSize k en.maxIndex) with
    | error er => exact h
    | ok u =>
      simp only
      cases hmod : enumModifySize w en (enumSize k en.maxIndex) with
      | none => exact h
      | some w1 =>
        simp only
        have hr := enumModifySize_spec h.toS h.toWF he _ (enumSize_pos _ _) w1 hmod
        generalize hw2 : ({ w1 with enums := upd w1.enums e { en with minSize := k } } : W) = w2
        have g1 : w2.types = w.types := by rw [← hw2]; exact hr.types
        have g2 : w2.vals = w.vals := by rw [← hw2]; exact hr.vals
        have g3 : w2.enums = upd w.enums e { en with minSize := k } := by rw [← hw2, ← hr.enums]
        have g4 : w2.msgs = w.msgs := by rw [← hw2]; exact hr.msgs
        have g5 : w2.sigs = w1.sigs := by rw [← hw2]
        refine inv_enum_finish h he hr g5 g4 g1 g3 rfl rfl ?_
        apply InvV.enumsCore h.toV _ g2
        intro x
        rw [g3, upd_get]
        split
        · subst_vars; rw [he]; rfl
        · rfl

theorem nopanic_enumSetMinSize (w : W) (h : Inv w) (e : Nat) (k : Int) :
    (step w (.enumSetMinSize e k)).2 ≠ .panic := by
  simp only [step]
  cases he : w.enums.get e with
  | none => simp
  | some en =>
    simp only
    cases hv : enumVerifySize w en (enumSize k en.maxIndex) with
    | error er =>
      simp only
      intro hh
      have := outOfLErr_eq_panic hh
      subst this
      exact enumVerifySize_nopanic _ _ _ hv
    | ok u =>
      simp only
      obtain ⟨w1, h1⟩ := enumModifySize_nopanic h.toS h.toWF he _ (enumSize_pos _ _) hv
      rw [h1]
      simp

theorem inv_enumRemoveAll (w : W) (e : Nat) (h : Inv w) : Inv (step w (.enumRemoveAll e)).1 := by
  simp only [step]
  cases he : w.enums.get e with
  | none => exact h
  | some en =>
    simp only
    have hmax : en.maxIndex = trueMaxIndex w en.values := h.enumMax e en he
    have hr : RefsOK w w en.refs (enumSize en.minSize 0) :=
      RefsOK.shrink h.toS h.toWF he (refs_hyps h.toS h.toWF he).1 (enumSize_pos _ _)
        (enumSize_mono _ (Int.le_refl 0) (by rw [hmax]; exact trueMaxIndex_nonneg w _))
    generalize hw2 : ({ w with vals := clearValParents w.vals en.values
                               enums := upd w.enums e { en with values := [], maxIndex := 0 } } : W) = w2
    have g1 : w2.types = w.types := by rw [← hw2]
    have g2 : w2.vals = clearValParents w.vals en.values := by rw [← hw2]
    have g3 : w2.enums = upd w.enums e { en with values := [], maxIndex := 0 } := by rw [← hw2]
    have g4 : w2.msgs = w.msgs := by rw [← hw2]
    have g5 : w2.sigs = w.sigs := by rw [← hw2]
    exact inv_enum_finish h he hr g5 g4 g1 g3 rfl rfl (h.toV.removeAll he w2 g2 g3)

theorem inv_enumRemoveValue (w : W) (e v : Nat) (h : Inv w) : Inv (step w (.enumRemoveValue e v)).1 := by
  simp only [step]
  cases he : w.enums.get e with
  | none => exact h
  | some en =>
    simp only
    split
    · exact h
    · rename_i hc
      have hin : v ∈ en.values := by simpa using hc
      cases hv : w.vals.get v with
      | none => exact h
      | some val =>
        simp only
        have hmax : en.maxIndex = trueMaxIndex w en.values := h.enumMax e en he
        split
        · rename_i hidx
          generalize hw1 : ({ w with vals := upd w.vals v { val with parent := none } } : W) = w1
          have hw1v : w1.vals = upd w.vals v { val with parent := none } := by rw [← hw1]
          generalize hmx : trueMaxIndex w1 (en.values.erase v) = mx
          have hidxs : ∀ x, valIndex w1 x = valIndex w x := by
            intro x
            apply valIndex_congr
            rw [hw1v, upd_get]
            split
            · subst_vars; rw [hv]; rfl
            · rfl
          have hle : mx ≤ en.maxIndex := by
            rw [← hmx, hmax, trueMaxIndex_congr (fun x _ => hidxs x)]
            exact trueMaxIndex_sublist_le w List.erase_sublist
          have h0 : 0 ≤ mx := by rw [← hmx]; exact trueMaxIndex_nonneg _ _
          have hr : RefsOK w w en.refs (enumSize en.minSize mx) :=
            RefsOK.shrink h.toS h.toWF he (refs_hyps h.toS h.toWF he).1 (enumSize_pos _ _)
              (enumSize_mono _ h0 hle)
          generalize hw2 : ({ types := w.types, vals := upd w.vals v { val with parent := none },
                              enums := upd w.enums e { en with values := en.values.erase v, maxIndex := mx },
                              sigs := w.sigs, msgs := w.msgs } : W) = w2
          have g1 : w2.types = w.types := by rw [← hw2]
          have g2 : w2.vals = upd w.vals v { val with parent := none } := by rw [← hw2]
          have g3 : w2.enums = upd w.enums e { en with values := en.values.erase v, maxIndex := mx } := by
            rw [← hw2]
          have g4 : w2.msgs = w.msgs := by rw [← hw2]
          have g5 : w2.sigs = w.sigs := by rw [← hw2]
          refine inv_enum_finish h he hr g5 g4 g1 g3 rfl rfl ?_
          refine h.toV.removeValue he hin hv w2 g2 mx (fun _ => ?_) (fun hne => absurd hidx hne) g3
          rw [← hmx]
          exact (trueMaxIndex_vals (by rw [g2, hw1v]) _).symm
        · rename_i hidx
          generalize hw2 : ({ types := w.types, vals := upd w.vals v { val with parent := none },
                              enums := upd w.enums e { en with values := en.values.erase v },
                              sigs := w.sigs, msgs := w.msgs } : W) = w2
          have g1 : w2.types = w.types := by rw [← hw2]
          have g2 : w2.vals = upd w.vals v { val with parent := none } := by rw [← hw2]
          have g3 : w2.enums = upd w.enums e { en with values := en.values.erase v, maxIndex := en.maxIndex } := by
            rw [← hw2]
          have g4 : w2.msgs = w.msgs := by rw [← hw2]
          have g5 : w2.sigs = w.sigs := by rw [← hw2]
          have hV : InvV w2 :=
            h.toV.removeValue he hin hv w2 g2 en.maxIndex (fun he' => absurd he' hidx) (fun _ => rfl) g3
          have hS2 : InvS w2 := by
            apply InvS.congr (fun _ => by rw [g1]) (fun i => by rw [g5]) (fun _ => by rw [g4]) _ h.toS
            intro x
            rw [g3, upd_get]
            split
            · subst_vars; rw [he]; rfl
            · rfl
          obtain ⟨hw, hf⟩ := wf_fresh_frame (w' := w2) h.toWF h.toFresh (fun m msg' h1 =>
            Or.inl ⟨by rw [← g4]; exact h1, fun i _ =>
              slotBeAt_of_get (by rw [g5]) (fun sg _ => by
                apply sizeOf_congr
                · intro t _; rw [g1]
                · intro x _
                  rw [g3, upd_get]
                  split
                  · subst_vars; rw [he]; rfl
                  · rfl)⟩)
          exact Inv.ofParts hV hS2 hw hf

theorem verifyValueIndex_ok {w : W} {en : EnumE} {v : Nat} {i : Int} {u : Unit}
    (h : verifyValueIndex w en v i = .ok u) :
    0 ≤ i ∧ hasIndex w en.values i = false ∧
    enumVerifySize w en (enumSize en.minSize (maxIndexWith w en.values v i)) = .ok () := by
  unfold verifyValueIndex at h
  split at h
  · cases h
  · split at h
    · cases h
    · split at h
      · cases h
      · rename_i h1 h2 _ hv
        exact ⟨by omega, by simpa using h2, hv⟩

theorem verifyValueIndex_nopanic_err {w : W} {en : EnumE} {v : Nat} {i : Int} {c : Cause}
    (_h : verifyValueIndex w en v i = .error c) : (Out.err c) ≠ .panic := by
  intro hh; cases hh

/-- the size `AddValue` verified is the size it installs -/
theorem addValue_max {w : W} (h : Inv w) {e v : Nat} {en : EnumE} {val : ValE}
    (he : w.enums.get e = some en) (hv : w.vals.get v = some val) (hp : val.parent = none) :
    maxIndexWith w en.values v val.index =
      if val.index > en.maxIndex then val.index else en.maxIndex := by
  have hnot : v ∉ en.values :=
    h.toV.notin_of_parent he hv (by rw [hp]; intro e'; cases e')
  rw [maxIndexWith_notin w hnot, ← h.enumMax e en he]

/-- the outcome of the `grown` computation of `AddValue` -/
theorem addValue_grown {w : W} (h : Inv w) {e : Nat} {en : EnumE} (he : w.enums.get e = some en)
    (idx : Int) {w1 : W} {mx : Int}
    (hg : (if idx > en.maxIndex then
            Option.map (fun w' => (w', idx)) (enumModifySize w en (enumSize en.minSize idx))
          else some (w, en.maxIndex)) = some (w1, mx)) :
    RefsOK w w1 en.refs (enumSize en.minSize mx) ∧
    mx = if idx > en.maxIndex then idx else en.maxIndex := by
  by_cases hgt : idx > en.maxIndex
  · rw [if_pos hgt] at hg ⊢
    cases hmod : enumModifySize w en (enumSize en.minSize idx) with
    | none => rw [hmod] at hg; cases hg
    | some w' =>
      rw [hmod] at hg
      simp only [Option.map_some, Option.some.injEq, Prod.mk.injEq] at hg
      obtain ⟨rfl, rfl⟩ := hg
      exact ⟨enumModifySize_spec h.toS h.toWF he _ (enumSize_pos _ _) _ hmod, rfl⟩
  · rw [if_neg hgt] at hg ⊢
    simp only [Option.some.injEq, Prod.mk.injEq] at hg
    obtain ⟨rfl, rfl⟩ := hg
    exact ⟨RefsOK.shrink h.toS h.toWF he (refs_hyps h.toS h.toWF he).1 (enumSize_pos _ _)
      (Int.le_refl _), rfl⟩

theorem inv_enumAddValue (w : W) (e v : Nat) (h : Inv w) : Inv (step w (.enumAddValue e v)).1 := by
  simp only [step]
  cases he : w.enums.get e with
  | none => exact h
  | some en =>
    simp only
    cases hv : w.vals.get v with
    | none => exact h
    | some val =>
      simp only
      split
      · exact h
      · rename_i hp
        have hp' : val.parent = none := by
          cases hpp : val.parent with
          | none => rfl
          | some x => rw [hpp] at hp; simp at hp
        cases hver : verifyValueIndex w en v val.index with
        | error c => exact h
        | ok u =>
          simp only
          split
          · exact h
          · rename_i hname
            obtain ⟨hi0, hidx, _⟩ := verifyValueIndex_ok hver
            generalize hg : (if val.index > en.maxIndex then
                Option.map (fun w' => (w', val.index)) (enumModifySize w en (enumSize en.minSize val.index))
              else some (w, en.maxIndex)) = g
            cases g with
            | none => exact h
            | some p =>
              obtain ⟨w1, mx⟩ := p
              simp only
              obtain ⟨hr, hmx⟩ := addValue_grown h he val.index hg
              generalize hw2 : ({ types := w1.types, vals := upd w1.vals v { val with parent := some e },
                                  enums := upd w1.enums e { en with maxIndex := mx, values := en.values ++ [v] },
                                  sigs := w1.sigs, msgs := w1.msgs } : W) = w2
              have g1 : w2.types = w.types := by rw [← hw2]; exact hr.types
              have g2 : w2.vals = upd w.vals v { val with parent := some e } := by rw [← hw2, ← hr.vals]
              have g3 : w2.enums = upd w.enums e { en with maxIndex := mx, values := en.values ++ [v] } := by
                rw [← hw2, ← hr.enums]
              have g4 : w2.msgs = w.msgs := by rw [← hw2]; exact hr.msgs
              have g5 : w2.sigs = w1.sigs := by rw [← hw2]
              refine inv_enum_finish h he hr g5 g4 g1 g3 rfl rfl ?_
              exact h.toV.addValue he hv hp' hi0 hidx (by simpa using hname) mx hmx w2 g2 g3

theorem nopanic_enumAddValue (w : W) (h : Inv w) (e v : Nat) : (step w (.enumAddValue e v)).2 ≠ .panic := by
  simp only [step]
  cases he : w.enums.get e with
  | none => simp
  | some en =>
    simp only
    cases hv : w.vals.get v with
    | none => simp
    | some val =>
      simp only
      split
      · simp
      · rename_i hp
        have hp' : val.parent = none := by
          cases hpp : val.parent with
          | none => rfl
          | some x => rw [hpp] at hp; simp at hp
        cases hver : verifyValueIndex w en v val.index with
        | error c => simp
        | ok u =>
          simp only
          split
          · simp
          · obtain ⟨_, _, hvs⟩ := verifyValueIndex_ok hver
            rw [addValue_max h he hv hp'] at hvs
            by_cases hgt : val.index > en.maxIndex
            · rw [if_pos hgt] at hvs ⊢
              obtain ⟨w1, h1⟩ := enumModifySize_nopanic h.toS h.toWF he _ (enumSize_pos _ _) hvs
              rw [h1]; simp
            · rw [if_neg hgt]; simp

theorem inv_valSetIndex (w : W) (v : Nat) (i : Int) (h : Inv w) : Inv (step w (.valSetIndex v i)).1 := by
  simp only [step]
  cases hv : w.vals.get v with
  | none => exact h
  | some val =>
    simp only
    split
    · exact h
    · cases hp : val.parent with
      | none =>
        simp only
        exact inv_of_vals h rfl rfl rfl rfl (h.toV.setIndexFree i hv hp _ (by rw [hp]) rfl)
      | some e =>
        simp only
        cases he : w.enums.get e with
        | none => exact h
        | some en =>
          simp only
          cases hver : verifyValueIndex w en v i with
          | error c => exact h
          | ok u =>
            simp only
            cases hmod : enumModifySize w en (enumSize en.minSize (maxIndexWith w en.values v i)) with
            | none => exact h
            | some w1 =>
              simp only
              obtain ⟨hi0, hidx, _⟩ := verifyValueIndex_ok hver
              have hr := enumModifySize_spec h.toS h.toWF he _ (enumSize_pos _ _) w1 hmod
              generalize hw2 : ({ types := w1.types,
                                  vals := upd w1.vals v { name := val.name, index := i, parent := some e },
                                  enums := upd w1.enums e { en with maxIndex := maxIndexWith w en.values v i },
                                  sigs := w1.sigs, msgs := w1.msgs } : W) = w2
              have g1 : w2.types = w.types := by rw [← hw2]; exact hr.types
              have g2 : w2.vals = upd w.vals v { val with index := i } := by
                rw [← hw2, hp]
                show upd w1.vals v _ = upd w.vals v _
                rw [hr.vals]
              have g3 : w2.enums = upd w.enums e { en with maxIndex := maxIndexWith w en.values v i } := by
                rw [← hw2, ← hr.enums]
              have g4 : w2.msgs = w.msgs := by rw [← hw2]; exact hr.msgs
              have g5 : w2.sigs = w1.sigs := by rw [← hw2]
              refine inv_enum_finish h he hr g5 g4 g1 g3 rfl rfl ?_
              exact h.toV.setIndex hv hp he hi0 hidx w2 g2 g3

theorem nopanic_valSetIndex (w : W) (h : Inv w) (v : Nat) (i : Int) : (step w (.valSetIndex v i)).2 ≠ .panic := by
  simp only [step]
  cases hv : w.vals.get v with
  | none => simp
  | some val =>
    simp only
    split
    · simp
    · cases hp : val.parent with
      | none => simp
      | some e =>
        simp only
        cases he : w.enums.get e with
        | none => simp
        | some en =>
          simp only
          cases hver : verifyValueIndex w en v i with
          | error c => simp
          | ok u =>
            simp only
            obtain ⟨_, _, hvs⟩ := verifyValueIndex_ok hver
            obtain ⟨w1, h1⟩ := enumModifySize_nopanic h.toS h.toWF he _ (enumSize_pos _ _) hvs
            rw [h1]; simp

theorem nopanic_enumRemoveValue (w : W) (e v : Nat) : (step w (.enumRemoveValue e v)).2 ≠ .panic := by
  simp only [step]
  repeat' split
  all_goals simp

theorem nopanic_enumRemoveAll (w : W) (e : Nat) : (step w (.enumRemoveAll e)).2 ≠ .panic := by
  simp only [step]
  repeat' split
  all_goals simp

end Acme.Payload
