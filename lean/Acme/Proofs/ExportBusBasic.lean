/-
Bus-level exporter model (Acme.Core.ExportBus), part 1: the sorts, the order of the messages,
look-ups in the exported comments and value encodings.
Core Lean only.
-/
import Acme.Spec.ExportBus
import Acme.Proofs.ImportBusAccept

namespace Acme.ExportBus
open Acme.ImportBus Acme.Arith
open Acme.Import (sortBy insBy)

/-! ### sorting by a name -/

theorem insStr_perm {α : Type} (key : α → String) (x : α) : ∀ l : List α, (insStr key x l).Perm (x :: l)
  | [] => List.Perm.refl _
  | y :: r => by
    unfold insStr
    split
    · exact List.Perm.refl _
    · exact ((insStr_perm key x r).cons y).trans (List.Perm.swap x y r)

theorem sortStr_perm {α : Type} (key : α → String) : ∀ l : List α, (sortStr key l).Perm l
  | [] => List.Perm.refl _
  | x :: r => by
    unfold sortStr
    exact (insStr_perm key x _).trans ((sortStr_perm key r).cons x)

theorem mem_sortStr {α : Type} (key : α → String) {l : List α} {a : α} : a ∈ sortStr key l ↔ a ∈ l :=
  (sortStr_perm key l).mem_iff

/-! ### the stable sort on a list that is sorted already -/

theorem insBy_head' {α : Type} (key : α → Nat) (x : α) : ∀ l : List α,
    (∀ y, l.head? = some y → key x ≤ key y) → insBy key x l = x :: l
  | [], _ => rfl
  | y :: r, h => by
    unfold insBy
    rw [if_pos (h y rfl)]

/-- a list whose neighbours are in order is left alone -/
theorem sortBy_chain {α : Type} (key : α → Nat) : ∀ l : List α,
    l.Pairwise (fun a c => key a ≤ key c) → sortBy key l = l
  | [], _ => rfl
  | x :: r, h => by
    rw [List.pairwise_cons] at h
    unfold sortBy
    rw [sortBy_chain key r h.2]
    apply insBy_head'
    intro y hy
    cases r with
    | nil => simp at hy
    | cons z r' =>
      simp only [List.head?_cons, Option.some.injEq] at hy
      subst hy
      exact h.1 z (List.mem_cons_self ..)

/-! ### uniqueness from `Nodup` of a projection -/

theorem eq_of_nodup_map {α β : Type} {f : α → β} : ∀ {l : List α}, (l.map f).Nodup →
    ∀ {a c : α}, a ∈ l → c ∈ l → f a = f c → a = c
  | [], _, _, _, ha, _, _ => by simp at ha
  | x :: r, h, a, c, ha, hc, heq => by
    rw [List.map_cons, List.nodup_cons] at h
    rcases List.mem_cons.mp ha with hax | har
    · rcases List.mem_cons.mp hc with hcx | hcr
      · rw [hax, hcx]
      · exact absurd (hax ▸ heq ▸ List.mem_map_of_mem hcr) h.1
    · rcases List.mem_cons.mp hc with hcx | hcr
      · exact absurd (hcx ▸ heq ▸ List.mem_map_of_mem har) h.1
      · exact eq_of_nodup_map h.2 har hcr heq

/-! ### the order of the messages -/

theorem sortedNodes_perm (b : IBus) : (sortedNodes b).Perm b.nodes := sortBy_perm' _ _

theorem mem_sortedNodes {b : IBus} {n : INode} : n ∈ sortedNodes b ↔ n ∈ b.nodes :=
  (sortedNodes_perm b).mem_iff

theorem mem_msgsOf {b : IBus} {n : INode} {m : IMessage} :
    m ∈ msgsOf b n ↔ m ∈ b.msgs ∧ m.sender = n.name := by
  unfold msgsOf
  rw [mem_sortBy', List.mem_filter]
  simp

theorem mem_exportOrder {b : IBus} {m : IMessage} :
    m ∈ exportOrder b ↔ m ∈ b.msgs ∧ m.sender ∈ b.nodes.map (·.name) := by
  unfold exportOrder
  rw [List.mem_flatMap]
  constructor
  · rintro ⟨n, hn, hm⟩
    obtain ⟨h1, h2⟩ := mem_msgsOf.mp hm
    exact ⟨h1, List.mem_map.mpr ⟨n, mem_sortedNodes.mp hn, h2.symm⟩⟩
  · rintro ⟨h1, h2⟩
    obtain ⟨n, hn, hname⟩ := List.mem_map.mp h2
    exact ⟨n, mem_sortedNodes.mpr hn, mem_msgsOf.mpr ⟨h1, hname.symm⟩⟩

theorem flatMap_perm_congr {α β : Type} {f g : α → List β} : ∀ (l : List α),
    (∀ a ∈ l, (f a).Perm (g a)) → (l.flatMap f).Perm (l.flatMap g)
  | [], _ => List.Perm.refl _
  | a :: r, h => by
    rw [List.flatMap_cons, List.flatMap_cons]
    exact (h a (List.mem_cons_self ..)).append
      (flatMap_perm_congr r (fun x hx => h x (List.mem_cons_of_mem _ hx)))

theorem flatMap_filter_skip (x : IMessage) (r : List IMessage) : ∀ (s : List INode),
    (∀ n ∈ s, x.sender ≠ n.name) →
    s.flatMap (fun n => (x :: r).filter (fun m => m.sender = n.name))
      = s.flatMap (fun n => r.filter (fun m => m.sender = n.name))
  | [], _ => rfl
  | n :: s', h => by
    rw [List.flatMap_cons, List.flatMap_cons, flatMap_filter_skip x r s' (fun k hk => h k (List.mem_cons_of_mem _ hk))]
    have := h n (List.mem_cons_self ..)
    simp [this]

/-- grouping by sender (every sender is one of the distinctly named nodes) only permutes -/
theorem group_perm (ns : List INode) (hnd : (ns.map (·.name)).Nodup) : ∀ (l : List IMessage),
    (∀ m ∈ l, m.sender ∈ ns.map (·.name)) →
    (ns.flatMap (fun n => l.filter (fun m => m.sender = n.name))).Perm l
  | [], _ => by simp
  | x :: r, h => by
    have ih := group_perm ns hnd r (fun m hm => h m (List.mem_cons_of_mem _ hm))
    obtain ⟨n0, hn0, hname⟩ := List.mem_map.mp (h x (List.mem_cons_self ..))
    obtain ⟨s, t, rfl⟩ := List.append_of_mem hn0
    rw [List.map_append, List.map_cons, List.nodup_append] at hnd
    obtain ⟨_, hnd2, hdisj⟩ := hnd
    rw [List.nodup_cons] at hnd2
    have hs : ∀ n ∈ s, x.sender ≠ n.name := by
      intro n hn heq
      exact hdisj n.name (List.mem_map_of_mem hn) n0.name (List.mem_cons_self ..) (by rw [hname, heq])
    have ht : ∀ n ∈ t, x.sender ≠ n.name := by
      intro n hn heq
      exact hnd2.1 (by rw [hname, heq]; exact List.mem_map_of_mem hn)
    rw [List.flatMap_append, List.flatMap_cons] at ih ⊢
    rw [flatMap_filter_skip x r s hs, flatMap_filter_skip x r t ht]
    have hx : (x :: r).filter (fun m => m.sender = n0.name) = x :: r.filter (fun m => m.sender = n0.name) := by
      simp [hname]
    rw [hx, List.cons_append]
    exact List.perm_middle.trans (ih.cons x)

theorem exportOrder_perm {b : IBus} (hnd : (b.nodes.map (·.name)).Nodup)
    (hs : ∀ m ∈ b.msgs, m.sender ∈ b.nodes.map (·.name)) : (exportOrder b).Perm b.msgs := by
  unfold exportOrder
  have h1 : ((sortedNodes b).flatMap (msgsOf b)).Perm
      ((sortedNodes b).flatMap (fun n => b.msgs.filter (fun m => m.sender = n.name))) :=
    flatMap_perm_congr _ (fun n _ => sortBy_perm' _ _)
  refine h1.trans (group_perm _ ?_ _ ?_)
  · exact (((sortedNodes_perm b).map (·.name)).nodup_iff).mpr hnd
  · intro m hm
    exact (((sortedNodes_perm b).map (·.name)).mem_iff).mpr (hs m hm)

/-! ### look-ups in lists where all hits agree -/

theorem lastText_some {sel : DComment → Option String} : ∀ {l : List DComment} {t : String},
    lastText sel l = some t → ∃ c ∈ l, sel c = some t
  | [], _, h => by simp [lastText] at h
  | c :: r, t, h => by
    unfold lastText at h
    split at h
    · rename_i t' ht'
      cases h
      obtain ⟨c', hc', hs⟩ := lastText_some ht'
      exact ⟨c', List.mem_cons_of_mem _ hc', hs⟩
    · exact ⟨c, List.mem_cons_self .., h⟩

theorem lastText_none {sel : DComment → Option String} : ∀ {l : List DComment},
    lastText sel l = none → ∀ c ∈ l, sel c = none
  | [], _, c, hc => by simp at hc
  | x :: r, h, c, hc => by
    unfold lastText at h
    split at h
    · cases h
    · rename_i hr
      rcases List.mem_cons.mp hc with rfl | hc
      · exact h
      · exact lastText_none hr c hc

/-- all comments the selector finds carry `d`, and there is one unless `d` is empty -/
theorem descOf_eq {sel : DComment → Option String} {l : List DComment} {d : String}
    (hall : ∀ c ∈ l, ∀ t, sel c = some t → t = d) (hex : d ≠ "" → ∃ c ∈ l, sel c = some d) :
    descOf sel l = d := by
  unfold descOf
  cases h : lastText sel l with
  | some t =>
    obtain ⟨c, hc, hs⟩ := lastText_some h
    simp [hall c hc t hs]
  | none =>
    simp only [Option.getD_none]
    by_cases hd : d = ""
    · exact hd.symm
    · obtain ⟨c, hc, hs⟩ := hex hd
      rw [lastText_none h c hc] at hs
      cases hs

theorem encOf_eq_none : ∀ {l : List DEnc} {id : Nat} {name : String},
    (∀ c ∈ l, ¬(c.msgId = id ∧ c.sigName = name)) → encOf l id name = none
  | [], _, _, _ => rfl
  | c :: r, id, name, h => by
    unfold encOf
    rw [encOf_eq_none (fun c' hc' => h c' (List.mem_cons_of_mem _ hc'))]
    simp only
    rw [if_neg (h c (List.mem_cons_self ..))]

theorem encOf_eq_some : ∀ {l : List DEnc} {id : Nat} {name : String} {vals : List DVal},
    (∃ c ∈ l, c.msgId = id ∧ c.sigName = name) →
    (∀ c ∈ l, c.msgId = id → c.sigName = name → c.values = vals) → encOf l id name = some vals
  | [], _, _, _, ⟨c, hc, _⟩, _ => by simp at hc
  | c :: r, id, name, vals, hex, hall => by
    unfold encOf
    by_cases hr : ∃ c' ∈ r, c'.msgId = id ∧ c'.sigName = name
    · rw [encOf_eq_some hr (fun c' hc' => hall c' (List.mem_cons_of_mem _ hc'))]
    · have hnone : encOf r id name = none :=
        encOf_eq_none (fun c' hc' hk => hr ⟨c', hc', hk⟩)
      rw [hnone]
      simp only
      obtain ⟨c', hc', hk⟩ := hex
      rcases List.mem_cons.mp hc' with rfl | hc'
      · rw [if_pos hk, hall c' (List.mem_cons_self ..) hk.1 hk.2]
      · exact absurd ⟨c', hc', hk⟩ hr

/-! ### the set of receivers of an exported message -/

theorem dedup_of_nodup : ∀ {l : List String}, l.Nodup → dedup l = l
  | [], _ => rfl
  | x :: r, h => by
    rw [List.nodup_cons] at h
    unfold dedup
    rw [if_neg (fun hc => h.1 (List.contains_iff_mem.mp hc)), dedup_of_nodup h.2]

theorem dedup_append_of_subset : ∀ (p q : List String), (∀ x ∈ p, x ∈ q) → dedup (p ++ q) = dedup q
  | [], _, _ => rfl
  | x :: p', q, h => by
    rw [List.cons_append, dedup,
      if_pos (List.contains_iff_mem.mpr (List.mem_append_right _ (h x (List.mem_cons_self ..))))]
    exact dedup_append_of_subset p' q (fun y hy => h y (List.mem_cons_of_mem _ hy))

theorem dedup_repeat {α : Type} (rx : List String) (hnd : rx.Nodup) : ∀ (l : List α), l ≠ [] →
    dedup (l.flatMap (fun _ => rx)) = rx
  | [], h => absurd rfl h
  | [_], _ => by simp [dedup_of_nodup hnd]
  | _ :: a' :: r, _ => by
    rw [List.flatMap_cons, dedup_append_of_subset]
    · exact dedup_repeat rx hnd (a' :: r) (by simp)
    · intro x hx
      rw [List.flatMap_cons]
      exact List.mem_append_left _ hx

end Acme.ExportBus
