/-
The generated exporter (Acme/Gen/Exporter.lean, namespace Acme.Gen.X) against the hand model,
part 1: `getStartBit`, the leaves (`exportStandardSignal` / `exportEnumSignal` through
`exportSignal`), and the small facts about the prelude (`modifyAt` on the last element,
`mapGet2` / `mapSet`).
-/
import Acme.Proofs.GenExporterDefs
import Acme.Proofs.ExportMux

namespace Acme.GenX
open Acme.Import Acme.XSem Acme.Conv Acme.Gen Acme.GoSem

/-! ## getStartBit -/

theorem X_getStartBit (s : Int) (be : Bool) :
    X.getStartBit s (bo be) = (u32 (wpos be s), if be then .bigEndian else .littleEndian) := by
  cases be
  · simp [X.getStartBit, bo, wpos]
  · simp [X.getStartBit, bo, wpos, convStart]

theorem fileStart_eq (be : Bool) (x : Int) : fileStart be x = (wpos be x).toNat := rfl

theorem u32_eq {x : Int} (h : U32 x) : u32 x = x.toNat := u32_of_range x h.1 h.2

/-! ## what `exportSignal` does to the state, as seen by the hand model -/

/-- `exportSignal` on `g` never panics; from any state it appends signals whose view is `ds` and
    SG_MUL_VAL_ entries of the message whose view is `es`, and leaves the messages alone -/
def Exports (pm : ParentMsg) (mid : Nat) (g : Sig) (ds : List DSig) (es : List DExt) : Prop :=
  ∀ st : St, ∃ (new : List DbcSignal) (xs : List Acme.Dbc.ExtendedMux) (st' : St),
    X.exportSignal id pm g mid st = .val st' ∧
    st'.curSignals = st.curSignals ++ new ∧ new.map sigView = ds ∧
    st'.extendedMuxes = st.extendedMuxes ++ xs ∧ xs.map extView = es ∧
    (∀ e ∈ xs, e.messageID = mid) ∧ st'.messages = st.messages

/-- the hand model's signal of a leaf -/
def leafD (be : Bool) (name : String) (start size : Int) (muxed : Bool) : DSig :=
  { name := name, start := fileStart be start, size := size.toNat, bigEndian := be, isMultiplexed := muxed }

theorem leafSig_base_name (P : Pay) (name : String) (start size : Int) (muxed : Bool) :
    (leafSig P name start size muxed).base.name = name := by
  unfold leafSig
  split <;> rfl

theorem leafSig_kind (P : Pay) (name : String) (start size : Int) (muxed : Bool) :
    (leafSig P name start size muxed).kind ≠ .multiplexer := by
  unfold leafSig
  split <;> simp [Sig.kind]

theorem ite_comment_cur (c : Prop) [Decidable c] (cm : Acme.Dbc.Comment) (st : St) :
    (if c then X.addDBCComment cm st else st).curSignals = st.curSignals := by
  split <;> rfl

theorem ite_comment_ext (c : Prop) [Decidable c] (cm : Acme.Dbc.Comment) (st : St) :
    (if c then X.addDBCComment cm st else st).extendedMuxes = st.extendedMuxes := by
  split <;> rfl

theorem ite_comment_msgs (c : Prop) [Decidable c] (cm : Acme.Dbc.Comment) (st : St) :
    (if c then X.addDBCComment cm st else st).messages = st.messages := by
  split <;> rfl

theorem X_exportSignal_leaf (P : Pay) (pm : ParentMsg) (be : Bool) (hpm : pm.byteOrder = bo be)
    (name : String) (start size : Int) (muxed : Bool) (hs : U32 (wpos be start)) (hz : U32 size) (mid : Nat) :
    Exports pm mid (leafSig P name start size muxed) [leafD be name start size muxed] [] := by
  intro st
  unfold leafSig
  split
  · rw [X.exportSignal]
    by_cases hd : (P.leaf name).desc = ""
    all_goals
      simp only [Sig.base, hd, ne_eq, not_true_eq_false, not_false_eq_true, if_true, if_false]
      refine ⟨[_], [], _, rfl, rfl, ?_, by simp [X.addDBCComment], rfl, by simp, rfl⟩
      simp only [List.map_cons, List.map_nil, List.cons.injEq, and_true]
      simp only [X.exportStandardSignal, hpm, X_getStartBit, sigView, leafD, fileStart_eq,
        u32_eq hs, u32_eq hz, id]
      cases be <;> cases muxed <;> simp <;> (repeat' split) <;> simp
  · rw [X.exportSignal]
    by_cases hd : (P.leaf name).desc = ""
    all_goals
      simp only [Sig.base, hd, ne_eq, not_true_eq_false, not_false_eq_true, if_true, if_false]
      refine ⟨[_], [], _, rfl, rfl, ?_, by simp [X.addDBCComment, X.exportEnumSignal], rfl, by simp, rfl⟩
      simp only [List.map_cons, List.map_nil, List.cons.injEq, and_true]
      simp only [X.exportEnumSignal, hpm, X_getStartBit, sigView, leafD, fileStart_eq,
        u32_eq hs, u32_eq hz, id]
      cases be <;> cases muxed <;> simp <;> (repeat' split) <;> simp

/-! ## the last element -/

/-- `l[len-1].F = v` -/
def modLast {α : Type} (f : α → α) : List α → List α
  | [] => []
  | [s] => [f s]
  | s :: r => s :: modLast f r

theorem modLast_ne_nil {α : Type} (f : α → α) : ∀ l : List α, l ≠ [] → modLast f l ≠ []
  | [], h => absurd rfl h
  | [_], _ => by simp [modLast]
  | _ :: _ :: _, _ => by simp [modLast]

theorem modify_last {α : Type} (f : α → α) : ∀ l : List α, l ≠ [] → l.modify (l.length - 1) f = modLast f l
  | [], h => absurd rfl h
  | [s], _ => by simp [modLast]
  | s :: t :: r, _ => by
    have := modify_last f (t :: r) (by simp)
    simp only [List.length_cons, Nat.add_sub_cancel] at this ⊢
    rw [modLast, List.modify_succ_cons, this]
    simp

theorem modifyAt_last {α : Type} (f : α → α) (l : List α) (h : l ≠ []) :
    modifyAt l ((l.length : Int) - 1) f = .val (modLast f l) := by
  have hl : 0 < l.length := List.length_pos_iff.2 h
  unfold modifyAt index?
  have h1 : ¬ ((l.length : Int) - 1 < 0) := by omega
  have h2 : ((l.length : Int) - 1).toNat = l.length - 1 := by omega
  simp only [h1, if_false, h2]
  have : l[l.length - 1]? = some (l[l.length - 1]'(by omega)) := List.getElem?_eq_getElem (by omega)
  rw [this]
  simp only []
  rw [modify_last f l h]

theorem modLast_append {α : Type} (f : α → α) : ∀ (a b : List α), b ≠ [] → modLast f (a ++ b) = a ++ modLast f b
  | [], b, _ => rfl
  | x :: a, b, hb => by
    have ih := modLast_append f a b hb
    have : a ++ b ≠ [] := by simp [hb]
    cases hab : a ++ b with
    | nil => exact absurd hab this
    | cons y r =>
      rw [List.cons_append, hab, modLast, ← hab, ih]
      · rfl
      · intro h; cases h

theorem patchLast_append (v : Nat) : ∀ (a b : List DSig), b ≠ [] → patchLast v (a ++ b) = a ++ patchLast v b
  | [], b, _ => rfl
  | x :: a, b, hb => by
    have ih := patchLast_append v a b hb
    have : a ++ b ≠ [] := by simp [hb]
    cases hab : a ++ b with
    | nil => exact absurd hab this
    | cons y r =>
      rw [List.cons_append, hab, patchLast, ← hab, ih]
      · rfl
      · intro h; cases h

theorem patchLast_ne_nil (v : Nat) : ∀ l : List DSig, l ≠ [] → patchLast v l ≠ []
  | [], h => absurd rfl h
  | [_], _ => by simp [patchLast]
  | _ :: _ :: _, _ => by simp [patchLast]

theorem map_sigView_modLast (v : Nat) : ∀ l : List DbcSignal,
    (modLast (fun x_ => { x_ with muxSwitchValue := v }) l).map sigView = patchLast v (l.map sigView)
  | [] => rfl
  | [s] => rfl
  | s :: t :: r => by
    have ih := map_sigView_modLast v (t :: r)
    simp only [modLast, List.map_cons, patchLast] at ih ⊢
    rw [ih]

/-! ## Go maps -/

theorem mapGet2_mapSet {ν : Type} (m : List (String × ν)) (a : String) (v : ν) (b : String) (z : ν) :
    mapGet2 (mapSet m a v) b z = if b = a then (v, true) else mapGet2 m b z := by
  induction m with
  | nil =>
    by_cases h : b = a
    · subst h; simp [mapSet, mapGet2]
    · have : ¬ a = b := fun e => h e.symm
      simp [mapSet, mapGet2, h, this]
  | cons p r ih =>
    unfold mapSet
    by_cases hp : p.1 = a
    · simp only [hp, if_true]
      by_cases h : b = a
      · subst h; simp [mapGet2]
      · have : ¬ a = b := fun e => h e.symm
        simp [mapGet2, h, this, hp]
    · simp only [hp, if_false]
      by_cases h : b = a
      · subst h
        have := ih
        simp only [if_true] at this
        simp only [mapGet2, List.find?_cons, hp, decide_false, if_true] at this ⊢
        exact this
      · simp only [h, if_false] at ih ⊢
        by_cases hb : p.1 = b
        · simp [mapGet2, hb]
        · simp only [mapGet2, List.find?_cons, hb, decide_false] at ih ⊢
          exact ih

theorem mapGet_mapSet {ν : Type} (m : List (String × ν)) (a : String) (v : ν) (b : String) (z : ν) :
    mapGet (mapSet m a v) b z = if b = a then v else mapGet m b z := by
  unfold mapGet
  rw [mapGet2_mapSet]
  split <;> rfl

end Acme.GenX
