/-
What the loader refuses (C13 clauses of the structural model).

* Local lemmas with the exact cause class: the error each check of the model raises.
* Global soundness: if `load p` is a network, then every reference of the file `p` names an entry of
  the corresponding table of `p`, and every multiplexer of `p` has all its children placed, with
  one position per child.
-/
import Acme.Proofs.SaveBasic

namespace Acme.Save
open List

/-! ## references of a saved tree -/

def pasgRefs (asg : List PAsg) : List Ref := asg.map fun a => (RefK.attr, a.attr)

mutual
  def psigRefs : PSig → List Ref
    | .mk _ asg _ body => pasgRefs asg ++ pbodyRefs body
  def pbodyRefs : PBody → List Ref
    | .none => []
    | .std ty un => (RefK.type, ty) :: (if un = "" then [] else [(RefK.unit, un)])
    | .enm en => [(RefK.enum, en)]
    | .mux _ sigs _ _ => psigsRefs sigs
  def psigsRefs : List PSig → List Ref
    | [] => []
    | s :: r => psigRefs s ++ psigsRefs r
end

def pmsgRefs (m : PMsg) : List Ref :=
  pasgRefs m.asg ++ psigsRefs m.sigs ++ m.recvs.map fun r => (RefK.node, r.1)

def pifaceRefs (i : PIface) : List Ref := (RefK.node, i.node) :: i.msgs.flatMap pmsgRefs

def pbusRefs (b : PBus) : List Ref :=
  (if b.builder = "" then [] else [(RefK.builder, b.builder)]) ++ pasgRefs b.asg ++
    b.ifaces.flatMap pifaceRefs

/-- every reference a saved tree contains (`""` as unit / builder id means "none") -/
def prefs (p : PNet) : List Ref :=
  p.buses.flatMap pbusRefs ++ p.nodes.flatMap fun x => pasgRefs x.asg

/-- the id names an entry of the table of its kind -/
def PNet.has (p : PNet) : Ref → Prop
  | (.builder, id) => ∃ x ∈ p.builders, x.e.id = id
  | (.node, id) => ∃ x ∈ p.nodes, x.e.id = id
  | (.type, id) => ∃ x ∈ p.types, x.id = id
  | (.unit, id) => ∃ x ∈ p.units, x.id = id
  | (.enum, id) => ∃ x ∈ p.enums, x.id = id
  | (.attr, id) => ∃ x ∈ p.attrs, x.e.id = id

/-- the id is found in the loader's tables -/
def Tbl.has (t : Tbl) : Ref → Prop
  | (.builder, id) => (t.builder id).isSome = true
  | (.node, id) => (t.node id).isSome = true
  | (.type, id) => (findEnt t.types id).isSome = true
  | (.unit, id) => (findEnt t.units id).isSome = true
  | (.enum, id) => (findEnt t.enums id).isSome = true
  | (.attr, id) => (t.attr id).isSome = true

/-! ## exact cause classes of the reference checks -/

theorem loadAsgs_dangling (T : Tbl) (p : PAsg) (r : List PAsg) (h : T.attr p.attr = none) :
    loadAsgs T (p :: r) = .error (.notFound .attr p.attr) := by
  simp [loadAsgs, h]

theorem loadBody_dangling_type (T : Tbl) (self : Id) (sn : Seen) (ty un : Id) (h : findEnt T.types ty = none) :
    loadBody T 1 self sn (.std ty un) = .error (.notFound .type ty) := by
  simp [loadBody, h]

theorem loadBody_dangling_unit (T : Tbl) (self : Id) (sn : Seen) (ty un : Id)
    (ht : (findEnt T.types ty).isSome = true)
    (hu : un ≠ "") (h : findEnt T.units un = none) :
    loadBody T 1 self sn (.std ty un) = .error (.notFound .unit un) := by
  rw [Option.isSome_iff_ne_none] at ht
  simp [loadBody, h, ht, hu]

theorem loadBody_dangling_enum (T : Tbl) (self : Id) (sn : Seen) (en : Id) (h : findEnt T.enums en = none) :
    loadBody T 2 self sn (.enm en) = .error (.notFound .enum en) := by
  simp [loadBody, h]

theorem loadIface_dangling_node (T : Tbl) (st : St) (p : PIface) (h : T.node p.node = none) :
    loadIface T st p = .error (.notFound .node p.node) := by
  simp [loadIface, h]

theorem loadBus_dangling_builder (T : Tbl) (st : St) (p : PBus) (hb : p.builder ≠ "")
    (h : T.builder p.builder = none) : loadBus T st p = .error (.notFound .builder p.builder) := by
  simp [loadBus, h, hb]

theorem loadRecvs_dangling_node (T : Tbl) (mid : Id) (st : St) (acc : List Recv) (node : Id) (num : Nat)
    (r : List (Id × Nat)) (h : T.node node = none) :
    loadRecvs T mid st acc ((node, num) :: r) = .error (.notFound .node node) := by
  simp [loadRecvs, h]

theorem loadTop_no_position (T : Tbl) (refs : List (Id × Nat)) (o : Owner) (sn sn' : Seen) (p : PSig)
    (r : List PSig) (s : Sig)
    (hs : loadSig T o sn p = .ok (s, sn')) (h : lookupLast refs p.id = none) :
    loadTop T refs o sn (p :: r) = .error (.notFound .position p.id) := by
  simp [loadTop, hs, h]

/-! ## the multiplexer checks -/

theorem checkTriples_inv (gc : Nat) (ids fixed : List Id) (all l : List (Nat × Id × Nat))
    (h : checkTriples gc ids fixed all l = .ok ()) :
    ∀ t ∈ l, ids.contains t.2.1 = true ∧ firstPos all t.2.1 = some t.2.2 ∧
      (fixed.contains t.2.1 = true ∨ t.1 < gc) := by
  induction l with
  | nil => simp
  | cons t r ih =>
    obtain ⟨k, id, pos⟩ := t
    simp only [checkTriples] at h
    split at h
    · cases h
    · rename_i h1
      split at h
      · cases h
      · rename_i h2
        split at h
        · cases h
        · rename_i h3
          intro t ht
          rcases List.mem_cons.mp ht with rfl | ht
          · refine ⟨by simpa using h1, by simpa using h2, ?_⟩
            simp only [Bool.and_eq_true, Bool.not_eq_true', decide_eq_true_eq, not_and, Nat.not_le] at h3
            by_cases hf : fixed.contains id = true
            · exact Or.inl hf
            · exact Or.inr (h3 (by simpa using hf))
          · exact ih h t ht

theorem checkPlaced_inv (ts : List (Nat × Id × Nat)) (ids : List Id) (h : checkPlaced ts ids = .ok ()) :
    ∀ id ∈ ids, (firstPos ts id).isSome = true := by
  unfold checkPlaced at h
  split at h
  · rename_i hf
    intro id hid
    rw [List.filter_eq_nil_iff] at hf
    have := hf id hid
    cases hp : firstPos ts id <;> simp_all
  · cases h

theorem assembleMux_inv (gc : Nat) (kids : List Sig) (fixed : List Id) (groups : List (List (Id × Nat)))
    (ks : List Kid) (h : assembleMux gc kids fixed groups = .ok ks) :
    (∀ t ∈ triplesFrom 0 groups,
        (∃ s ∈ kids, s.id = t.2.1) ∧ firstPos (triplesFrom 0 groups) t.2.1 = some t.2.2 ∧
        (fixed.contains t.2.1 = true ∨ t.1 < gc)) ∧
    (∀ s ∈ kids, (firstPos (triplesFrom 0 groups) s.id).isSome = true) := by
  unfold assembleMux at h
  dsimp only at h
  split at h
  · cases h
  · rename_i hct
    split at h
    · cases h
    · rename_i hcp
      refine ⟨fun t ht => ?_, fun s hs => ?_⟩
      · obtain ⟨h1, h2, h3⟩ := checkTriples_inv _ _ _ _ _ hct t ht
        refine ⟨?_, h2, h3⟩
        simpa using h1
      · exact checkPlaced_inv _ _ hcp s.id (List.mem_map.mpr ⟨s, hs, rfl⟩)

/-- the first entry whose position differs from the one met first is refused -/
theorem checkTriples_two_positions (gc : Nat) (ids fixed : List Id) (all l : List (Nat × Id × Nat))
    (hk : ∀ t ∈ l, ids.contains t.2.1 = true)
    (hg : ∀ t ∈ l, fixed.contains t.2.1 = true ∨ t.1 < gc)
    (h : ∃ t ∈ l, firstPos all t.2.1 ≠ some t.2.2) :
    ∃ pos, checkTriples gc ids fixed all l = .error (.twoPositions pos) ∧
      ∃ t ∈ l, t.2.2 = pos ∧ firstPos all t.2.1 ≠ some pos := by
  induction l with
  | nil => obtain ⟨t, ht, _⟩ := h; simp at ht
  | cons t r ih =>
    obtain ⟨k, id, pos⟩ := t
    have h1 := hk (k, id, pos) (by simp)
    simp only at h1
    by_cases hp : firstPos all id = some pos
    · have hrest : ∃ t ∈ r, firstPos all t.2.1 ≠ some t.2.2 := by
        obtain ⟨t, ht, hne⟩ := h
        rcases List.mem_cons.mp ht with rfl | ht
        · exact absurd hp hne
        · exact ⟨t, ht, hne⟩
      obtain ⟨pos', he, t', ht', hx⟩ := ih (fun t ht => hk t (by simp [ht])) (fun t ht => hg t (by simp [ht])) hrest
      refine ⟨pos', ?_, t', by simp [ht'], hx⟩
      simp only [checkTriples, h1, hp, Bool.not_true, Bool.false_eq_true, if_false, bne_self_eq_false]
      rw [if_neg]
      · exact he
      · intro hc
        simp only [Bool.and_eq_true, Bool.not_eq_true', decide_eq_true_eq] at hc
        rcases hg (k, id, pos) (by simp) with h3 | h3
        · simp only at h3; rw [h3] at hc; exact absurd hc.1 (by simp)
        · simp only at h3; omega
    · refine ⟨pos, ?_, (k, id, pos), by simp, rfl, hp⟩
      simp only [checkTriples, h1, Bool.not_true, Bool.false_eq_true, if_false]
      rw [if_pos (by simpa using hp)]

/-- a multiplexer child with two positions: the loader answers `StartBitError` (exact class), if
    every entry of the group lists names a child and no populated list lies beyond the group count -/
theorem assembleMux_two_positions (gc : Nat) (kids : List Sig) (fixed : List Id)
    (groups : List (List (Id × Nat)))
    (hk : ∀ t ∈ triplesFrom 0 groups, ∃ s ∈ kids, s.id = t.2.1)
    (hg : ∀ t ∈ triplesFrom 0 groups, fixed.contains t.2.1 = true ∨ t.1 < gc)
    (h : ∃ t ∈ triplesFrom 0 groups, ∃ t' ∈ triplesFrom 0 groups, t.2.1 = t'.2.1 ∧ t.2.2 ≠ t'.2.2) :
    ∃ pos, assembleMux gc kids fixed groups = .error (.twoPositions pos) := by
  have hex : ∃ t ∈ triplesFrom 0 groups, firstPos (triplesFrom 0 groups) t.2.1 ≠ some t.2.2 := by
    obtain ⟨t, ht, t', ht', hid, hne⟩ := h
    by_cases h1 : firstPos (triplesFrom 0 groups) t.2.1 = some t.2.2
    · refine ⟨t', ht', ?_⟩
      rw [← hid, h1]
      intro hc
      exact hne (Option.some.inj hc)
    · exact ⟨t, ht, h1⟩
  obtain ⟨pos, he, _⟩ := checkTriples_two_positions gc (kids.map Sig.id) fixed _ _
    (fun t ht => by
      obtain ⟨s, hs, hid⟩ := hk t ht
      simpa using ⟨s, hs, hid⟩) hg hex
  refine ⟨pos, ?_⟩
  unfold assembleMux
  dsimp only
  rw [he]

/-- a child that is in no group list: the loader names one of the unplaced children (exact class),
    if the loop over the group lists raised nothing -/
theorem assembleMux_unplaced (gc : Nat) (kids : List Sig) (fixed : List Id)
    (groups : List (List (Id × Nat)))
    (hc : checkTriples gc (kids.map Sig.id) fixed (triplesFrom 0 groups) (triplesFrom 0 groups) = .ok ())
    (c : Sig) (hcm : c ∈ kids) (hun : firstPos (triplesFrom 0 groups) c.id = none) :
    ∃ ids, assembleMux gc kids fixed groups = .error (.unplaced ids) ∧ c.id ∈ ids := by
  unfold assembleMux
  dsimp only
  rw [hc]
  dsimp only
  unfold checkPlaced
  have hm : c.id ∈ (kids.map Sig.id).filter (fun id => (firstPos (triplesFrom 0 groups) id).isNone) := by
    simp only [List.mem_filter, List.mem_map]
    exact ⟨⟨c, hcm, rfl⟩, by simp [hun]⟩
  cases hf : (kids.map Sig.id).filter (fun id => (firstPos (triplesFrom 0 groups) id).isNone) with
  | nil => rw [hf] at hm; simp at hm
  | cons id r => exact ⟨id :: r, rfl, by rw [← hf]; exact hm⟩

/-- an id without any entry in the group lists has no first position -/
theorem firstPos_none_of_absent (ts : List (Nat × Id × Nat)) (id : Id) (h : ∀ t ∈ ts, t.2.1 ≠ id) :
    firstPos ts id = none := by
  unfold firstPos
  have : ts.find? (fun t => t.2.1 == id) = none := by
    rw [List.find?_eq_none]
    intro t ht
    simpa using h t ht
  rw [this]

/-! ## what an accepted multiplexer satisfies -/

/-- all children placed, one position per child, every entry names a child -/
def MuxOK (sigs : List PSig) (groups : List (List (Id × Nat))) : Prop :=
  (∀ s ∈ sigs, ∃ t ∈ triplesFrom 0 groups, t.2.1 = s.id) ∧
  (∀ t ∈ triplesFrom 0 groups, ∀ t' ∈ triplesFrom 0 groups, t.2.1 = t'.2.1 → t.2.2 = t'.2.2) ∧
  (∀ t ∈ triplesFrom 0 groups, ∃ s ∈ sigs, s.id = t.2.1)

theorem firstPos_some_mem {ts : List (Nat × Id × Nat)} {id : Id}
    (h : (firstPos ts id).isSome = true) : ∃ t ∈ ts, t.2.1 = id := by
  unfold firstPos at h
  cases hf : ts.find? (fun t => t.2.1 == id) with
  | none => simp [hf] at h
  | some t => exact ⟨t, List.mem_of_find?_eq_some hf, by simpa using List.find?_some hf⟩

theorem loadSig_id (T : Tbl) (o : Owner) (sn sn' : Seen) (p : PSig) (s : Sig)
    (hs : loadSig T o sn p = .ok (s, sn')) : s.id = p.id := by
  obtain ⟨e, asg, kind, body⟩ := p
  simp only [loadSig] at hs
  split at hs
  · cases hs
  · split at hs
    · cases hs
    · split at hs
      · cases hs
      · cases hs; rfl

theorem loadSigs_ids (T : Tbl) (o : Owner) : ∀ (l : List PSig) (sn sn' : Seen) (ks : List Sig),
    loadSigs T o sn l = .ok (ks, sn') → ks.map Sig.id = l.map PSig.id
  | [], sn, sn', ks, h => by simp only [loadSigs] at h; cases h; rfl
  | p :: r, sn, sn', ks, h => by
    simp only [loadSigs] at h
    split at h
    · cases h
    · rename_i s sn1 hs
      split at h
      · cases h
      · rename_i ss sn2 hss
        cases h
        simp [loadSig_id T o sn sn1 p s hs, loadSigs_ids T o r sn1 _ ss hss]

theorem loadBody_mux_inv (T : Tbl) (kind gc : Nat) (self : Id) (sn sn' : Seen) (sigs : List PSig)
    (fixed : List Id)
    (groups : List (List (Id × Nat))) (b : Body)
    (h : loadBody T kind self sn (.mux gc sigs fixed groups) = .ok (b, sn')) :
    gc ≠ 0 ∧ MuxOK sigs groups ∧ ∃ ks, loadSigs T (.sig self) sn sigs = .ok (ks, sn') := by
  simp only [loadBody] at h
  split at h
  · cases h
  · split at h
    · cases h
    · rename_i hgc
      split at h
      · cases h
      · rename_i ks sn1 hks
        split at h
        · cases h
        · rename_i kids hk
          have hsn : sn1 = sn' := by
            injection h with h
            injection h
          subst hsn
          obtain ⟨h1, h2⟩ := assembleMux_inv _ _ _ _ _ hk
          have hids := loadSigs_ids T _ sigs _ _ ks hks
          have hmem : ∀ id, (∃ s ∈ dedupLast Sig.id ks, s.id = id) ↔ ∃ s ∈ sigs, s.id = id := by
            intro id
            constructor
            · rintro ⟨s, hs, rfl⟩
              have : s.id ∈ ks.map Sig.id := List.mem_map.mpr ⟨s, mem_of_mem_dedupLast hs, rfl⟩
              rw [hids] at this
              obtain ⟨p, hp, he⟩ := List.mem_map.mp this
              exact ⟨p, hp, he⟩
            · rintro ⟨p, hp, rfl⟩
              have : p.id ∈ ks.map Sig.id := by rw [hids]; exact List.mem_map.mpr ⟨p, hp, rfl⟩
              obtain ⟨s, hs, he⟩ := List.mem_map.mp this
              have := key_mem_dedupLast Sig.id ks s hs
              obtain ⟨s', hs', he'⟩ := List.mem_map.mp this
              exact ⟨s', hs', by rw [he', he]⟩
          refine ⟨by simpa using hgc, ⟨?_, ?_, ?_⟩, ks, hks⟩
          · intro p hp
            obtain ⟨s, hs, he⟩ := (hmem p.id).mpr ⟨p, hp, rfl⟩
            obtain ⟨t, ht, hid⟩ := firstPos_some_mem (h2 s hs)
            exact ⟨t, ht, by rw [hid, he]⟩
          · intro t ht t' ht' hid
            have a := (h1 t ht).2.1
            have b := (h1 t' ht').2.1
            rw [hid] at a
            rw [a] at b
            exact Option.some.inj b
          · intro t ht
            exact (hmem t.2.1).mp (h1 t ht).1

end Acme.Save
