/-
Multiplexer world, part P: `mux.ins` — group ids (`slices.Sort`, `slices.Compact`), the
verification loops, and the invariant of the multiplexer after the insertion.
-/
import Acme.Proofs.MuxIns2

namespace Acme.Mux
open Acme.Layout Acme.Arith

/-! ### sorting and compacting group ids -/

theorem mem_compactAdj (a : Int) : ∀ l : List Int, a ∈ compactAdj l ↔ a ∈ l
  | [] => by simp [compactAdj]
  | [b] => by simp [compactAdj]
  | b :: c :: rest => by
    simp only [compactAdj]
    split
    · rename_i hbc
      rw [mem_compactAdj a (c :: rest)]
      subst hbc
      simp
    · simp only [List.mem_cons]
      rw [mem_compactAdj a (c :: rest)]
      simp

theorem compactAdj_strict : ∀ l : List Int, l.Pairwise (· ≤ ·) → (compactAdj l).Pairwise (· < ·)
  | [], _ => by simp [compactAdj]
  | [b], _ => by simp [compactAdj]
  | b :: c :: rest, h => by
    simp only [compactAdj]
    have h' : (c :: rest).Pairwise (· ≤ ·) := (List.pairwise_cons.mp h).2
    have ih := compactAdj_strict (c :: rest) h'
    split
    · exact ih
    · rename_i hbc
      rw [List.pairwise_cons]
      refine ⟨?_, ih⟩
      intro a ha
      have hac : a ∈ c :: rest := (mem_compactAdj a _).mp ha
      have hb := (List.pairwise_cons.mp h).1
      have hbcle : b ≤ c := hb c List.mem_cons_self
      simp only [List.mem_cons] at hac
      rcases hac with rfl | har
      · omega
      · have := (List.pairwise_cons.mp h').1 a har
        omega

theorem insInt_perm (a : Int) : ∀ l : List Int, (insInt a l).Perm (a :: l)
  | [] => List.Perm.refl _
  | b :: rest => by
    simp only [insInt]
    split
    · exact List.Perm.refl _
    · exact ((insInt_perm a rest).cons b).trans (List.Perm.swap a b rest)

theorem sortInts_perm : ∀ l : List Int, (sortInts l).Perm l
  | [] => List.Perm.refl _
  | a :: rest => (insInt_perm a (sortInts rest)).trans ((sortInts_perm rest).cons a)

theorem insInt_sorted (a : Int) : ∀ l : List Int, l.Pairwise (· ≤ ·) → (insInt a l).Pairwise (· ≤ ·)
  | [], _ => by simp [insInt]
  | b :: rest, h => by
    simp only [insInt]
    have hb := List.pairwise_cons.mp h
    split
    · rename_i hab
      rw [List.pairwise_cons]
      refine ⟨?_, h⟩
      intro c hc
      simp only [List.mem_cons] at hc
      rcases hc with rfl | hc
      · exact hab
      · have := hb.1 c hc; omega
    · rename_i hab
      rw [List.pairwise_cons]
      refine ⟨?_, insInt_sorted a rest hb.2⟩
      intro c hc
      have := (insInt_perm a rest).mem_iff.mp hc
      simp only [List.mem_cons] at this
      rcases this with rfl | hc'
      · omega
      · exact hb.1 c hc'

theorem sortInts_sorted : ∀ l : List Int, (sortInts l).Pairwise (· ≤ ·)
  | [] => by simp [sortInts]
  | a :: rest => insInt_sorted a _ (sortInts_sorted rest)

theorem mem_sortInts (l : List Int) (a : Int) : a ∈ sortInts l ↔ a ∈ l := (sortInts_perm l).mem_iff

theorem sortInts_strict (l : List Int) (h : l.Nodup) : (sortInts l).Pairwise (· < ·) := by
  have h1 := sortInts_sorted l
  have h2 : (sortInts l).Pairwise (· ≠ ·) := (sortInts_perm l).nodup_iff.mpr h
  exact (h1.and h2).imp (fun ⟨a, b⟩ => by omega)

/-- the ids of `InsertSignal`: sorted, without duplicates, the same set as the arguments -/
theorem insIds_spec (gids : List Int) :
    (compactAdj (sortInts gids)).Pairwise (· < ·) ∧ ∀ a, a ∈ compactAdj (sortInts gids) ↔ a ∈ gids :=
  ⟨compactAdj_strict _ (sortInts_sorted gids), fun a => by rw [mem_compactAdj, mem_sortInts]⟩

theorem nodup_of_strict (l : List Int) (h : l.Pairwise (· < ·)) : l.Nodup :=
  h.imp (fun hab => by omega)

/-! ### the verification loops -/

theorem verifyIds_ok (w : MW) (gc gs : Int) (groups : List (List Nat)) (prev : List Int) (sz st : Int) :
    ∀ ids : List Int, verifyIds w gc gs groups prev sz st ids = .ok () →
      ∀ g ∈ ids, 0 ≤ g ∧ g < gc ∧ g ∉ prev ∧ verifyInsert gs (slotsOf w (groups.getD g.toNat [])) sz st = .ok ()
  | [], _ => by simp
  | g :: rest, h => by
    simp only [verifyIds] at h
    split at h
    · cases h
    · split at h
      · cases h
      · split at h
        · cases h
        · rename_i h1 h2 h3
          split at h
          · cases h
          · rename_i hv
            have ih := verifyIds_ok w gc gs groups prev sz st rest h
            intro g' hg'
            simp only [List.mem_cons] at hg'
            rcases hg' with rfl | hg'
            · refine ⟨by omega, by omega, ?_, hv⟩
              intro hm; apply h3; simpa using hm
            · exact ih g' hg'

theorem verifyFixed_ok (w : MW) (gs : Int) (groups : List (List Nat)) (sz st : Int) :
    ∀ ks : List Nat, verifyFixed w gs groups sz st ks = .ok () →
      ∀ k ∈ ks, verifyInsert gs (slotsOf w (groups.getD k [])) sz st = .ok ()
  | [], _ => by simp
  | k :: rest, h => by
    simp only [verifyFixed] at h
    split at h
    · cases h
    · rename_i hv
      have ih := verifyFixed_ok w gs groups sz st rest h
      intro k' hk'
      simp only [List.mem_cons] at hk'
      rcases hk' with rfl | hk'
      · exact hv
      · exact ih k' hk'

theorem verifyIds_ne_panic (w : MW) (gc gs : Int) (groups : List (List Nat)) (prev : List Int) (sz st : Int) :
    ∀ ids : List Int, verifyIds w gc gs groups prev sz st ids ≠ .error .panic
  | [] => by simp [verifyIds]
  | g :: rest => by
    simp only [verifyIds]
    split
    · simp
    · split
      · simp
      · split
        · simp
        · split
          · rename_i e he
            have := verifyInsert_ne_panic gs (slotsOf w (groups.getD g.toNat [])) sz st
            intro hh
            apply this
            rw [he]
            cases e <;> simp [outOfLErr] at hh ⊢
          · exact verifyIds_ne_panic w gc gs groups prev sz st rest

theorem verifyFixed_ne_panic (w : MW) (gs : Int) (groups : List (List Nat)) (sz st : Int) :
    ∀ ks : List Nat, verifyFixed w gs groups sz st ks ≠ .error .panic
  | [] => by simp [verifyFixed]
  | k :: rest => by
    simp only [verifyFixed]
    split
    · rename_i e he
      have := verifyInsert_ne_panic gs (slotsOf w (groups.getD k [])) sz st
      intro hh
      apply this
      rw [he]
      cases e <;> simp [outOfLErr] at hh ⊢
    · exact verifyFixed_ne_panic w gs groups sz st rest

/-! ### the groups after the insertion -/

theorem insAt_perm (w : MW) (g : List Nat) (s : Nat) (sz st : Int) (hst : ∀ i ∈ g, (w.sigs.get i).isSome) :
    (insAt w g s sz st).Perm (s :: g) := by
  unfold insAt Layout.insert
  have := (insertAt_perm ⟨s, st, sz⟩ (slotsOf w g)).map (·.id)
  simpa [slotsOf_map_id w g hst] using this

theorem groups_ins (w W' : MW) (x s : Nat) (xe se : SigE) (gc gs : Int) (hxo : MuxOK w x xe gc gs)
    (hs : w.sigs.get s = some se) (hsz : 0 < sigSize se) (st : Int) (ks : List Nat) (G' : List (List Nat))
    (hks : ∀ k ∈ ks, k < xe.mx.groups.length ∧
        verifyInsert gs (slotsOf w (xe.mx.groups.getD k [])) (sigSize se) st = .ok () ∧ s ∉ xe.mx.groups.getD k [])
    (hG : G'.length = xe.mx.groups.length ∧
      ∀ j, G'.getD j [] = if j ∈ ks then insAt w (xe.mx.groups.getD j []) s (sigSize se) st else xe.mx.groups.getD j [])
    (hs' : ∃ e', W'.sigs.get s = some e' ∧ e'.rel = st ∧ sigSize e' = sigSize se)
    (hrest : ∀ t, t ≠ s → t ∈ xe.mx.signals → (W'.sigs.get t).map geo = (w.sigs.get t).map geo)
    (hrelB : ∀ g ∈ xe.mx.groups, s ∈ g → st = se.rel) :
    (∀ g' ∈ G', WF gs (slotsOf W' g') ∧ g'.Nodup) ∧
    (∀ k t, t ≠ s → (t ∈ G'.getD k [] ↔ t ∈ xe.mx.groups.getD k [])) ∧
    (∀ k, k < xe.mx.groups.length → (s ∈ G'.getD k [] ↔ (s ∈ xe.mx.groups.getD k [] ∨ k ∈ ks))) := by
  have hstored : ∀ k, k < xe.mx.groups.length → ∀ i ∈ xe.mx.groups.getD k [], (w.sigs.get i).isSome := by
    intro k hk i hi
    obtain ⟨e, he, _⟩ := hxo.mem_stored (getD_mem xe.mx.groups k [] hk) hi
    simp [he]
  refine ⟨?_, ?_, ?_⟩
  · intro g' hg'
    obtain ⟨k, hk, rfl⟩ := mem_getD G' [] g' hg'
    rw [hG.1] at hk
    have hgm := getD_mem xe.mx.groups k [] hk
    rw [hG.2]
    by_cases hkk : k ∈ ks
    · rw [if_pos hkk]
      obtain ⟨_, hv, hsn⟩ := hks k hkk
      constructor
      · rw [slotsOf_insAt w W' _ s se st (hstored k hk) hsn hs']
        · have hins : verifyAndInsert gs (slotsOf w (xe.mx.groups.getD k [])) s (sigSize se) st =
              .ok (Layout.insert (slotsOf w (xe.mx.groups.getD k [])) s (sigSize se) st) := by
            simp only [verifyAndInsert, hv]
          exact (insert_wf gs _ (hxo.wf _ hgm) s (sigSize se) st hsz _ hins).1
        · intro i hi
          exact hrest i (by rintro rfl; exact hsn hi) (hxo.mem_child hgm hi)
      · rw [(insAt_perm w _ s _ st (hstored k hk)).nodup_iff]
        exact List.nodup_cons.mpr ⟨hsn, hxo.nodup _ hgm⟩
    · rw [if_neg hkk]
      refine ⟨?_, hxo.nodup _ hgm⟩
      rw [slotsOf_congr w W' _]
      · exact hxo.wf _ hgm
      · intro i hi
        by_cases his : i = s
        · subst his
          have hrel := hrelB _ hgm hi
          obtain ⟨e', he', a1, a2⟩ := hs'
          rw [he', hs]
          simp [geo, a1, a2, hrel]
        · exact hrest i his (hxo.mem_child hgm hi)
  · intro k t hts
    rw [hG.2]
    by_cases hkk : k ∈ ks
    · rw [if_pos hkk]
      obtain ⟨hlt, _, _⟩ := hks k hkk
      rw [(insAt_perm w _ s _ st (hstored k hlt)).mem_iff]
      simp [hts]
    · rw [if_neg hkk]
  · intro k hk
    rw [hG.2]
    by_cases hkk : k ∈ ks
    · rw [if_pos hkk, (insAt_perm w _ s _ st (hstored k hk)).mem_iff]
      simp [hkk]
    · rw [if_neg hkk]
      simp [hkk]

theorem muxOK_ins (w W' : MW) (x s : Nat) (xe xe' se : SigE) (gc gs : Int) (hxo : MuxOK w x xe gc gs)
    (hs : w.sigs.get s = some se) (ks : List Nat)
    (G : ∀ g' ∈ xe'.mx.groups, WF gs (slotsOf W' g') ∧ g'.Nodup)
    (hlen : xe'.mx.groups.length = xe.mx.groups.length)
    (Gt : ∀ k t, t ≠ s → (t ∈ xe'.mx.groups.getD k [] ↔ t ∈ xe.mx.groups.getD k []))
    (Gs : ∀ k, k < xe.mx.groups.length → (s ∈ xe'.mx.groups.getD k [] ↔ (s ∈ xe.mx.groups.getD k [] ∨ k ∈ ks)))
    (hFt : ∀ t, t ≠ s → (t ∈ xe'.mx.fixed ↔ t ∈ xe.mx.fixed))
    (hIt : ∀ t, t ≠ s → xe'.mx.groupIds.get t = xe.mx.groupIds.get t)
    (hmode : (s ∈ xe'.mx.fixed ∧ xe'.mx.groupIds.get s = none ∧
                ∀ k, k < xe.mx.groups.length → (s ∈ xe.mx.groups.getD k [] ∨ k ∈ ks)) ∨
             (s ∉ xe'.mx.fixed ∧ ∃ ids, xe'.mx.groupIds.get s = some ids ∧ ids ≠ [] ∧ ids.Pairwise (· < ·) ∧
                (∀ k ∈ ids, 0 ≤ k ∧ k < gc) ∧
                ∀ k : Nat, k < gc.toNat → ((k : Int) ∈ ids ↔ (s ∈ xe.mx.groups.getD k [] ∨ k ∈ ks))))
    (hsig : xe'.mx.signals = sAdd xe.mx.signals s)
    (hnm : xe'.mx.signalNames = nmSet xe.mx.signalNames se.name s)
    (hfree : ∀ i, (se.name, i) ∈ xe.mx.signalNames → i = s)
    (hs' : ∃ e', W'.sigs.get s = some e' ∧ e'.parentMux = some x ∧ e'.name = se.name)
    (hch : ∀ t ∈ xe.mx.signals, t ≠ s → ∃ e e', w.sigs.get t = some e ∧ W'.sigs.get t = some e' ∧
        e'.name = e.name ∧ e'.parentMux = e.parentMux)
    (hnew : ∀ t e', W'.sigs.get t = some e' → e'.parentMux = some x → t = s ∨ t ∈ xe.mx.signals) :
    MuxOK W' x xe' gc gs := by
  have hlen' : xe'.mx.groups.length = gc.toNat := by rw [hlen]; exact hxo.shape.1
  have hidx : ∀ g', g' ∈ xe'.mx.groups → ∃ k, k < xe.mx.groups.length ∧ g' = xe'.mx.groups.getD k [] ∧
      xe.mx.groups.getD k [] ∈ xe.mx.groups := by
    intro g' hg'
    obtain ⟨k, hk, rfl⟩ := mem_getD xe'.mx.groups [] g' hg'
    rw [hlen] at hk
    exact ⟨k, hk, rfl, getD_mem _ _ _ hk⟩
  have hnameW : ∀ t, t ∈ xe.mx.signals → t ≠ s → nameOf W' t = nameOf w t := by
    intro t ht hts
    obtain ⟨e, e', h1, h2, h3, _⟩ := hch t ht hts
    exact nameOf_eq h1 h2 h3
  have hnameS : nameOf W' s = se.name := by
    obtain ⟨e', he', _, hn⟩ := hs'
    simp [nameOf, he', hn]
  refine ⟨⟨hlen', hxo.shape.2.1, hxo.shape.2.2⟩, fun g' hg' => (G g' hg').1, fun g' hg' => (G g' hg').2,
    ?_, ?_, ?_, ?_, ?_, ?_, ?_, ?_, ?_⟩
  · -- fixed signals are in every group
    intro t ht g' hg'
    obtain ⟨k, hk, rfl, hgm⟩ := hidx g' hg'
    by_cases hts : t = s
    · subst hts
      rcases hmode with ⟨_, _, hall⟩ | ⟨hnf, _⟩
      · exact (Gs k hk).mpr (hall k hk)
      · exact absurd ht hnf
    · rw [Gt k t hts]
      exact hxo.fixedEv t ((hFt t hts).mp ht) _ hgm
  · -- listed signals
    intro t gids ht
    by_cases hts : t = s
    · subst hts
      rcases hmode with ⟨_, hnone, _⟩ | ⟨_, ids, hget, h1, h2, h3, h4⟩
      · rw [hnone] at ht; cases ht
      · rw [hget] at ht; cases ht
        refine ⟨h1, h2, h3, ?_⟩
        intro k hk
        rw [Gs k (by rw [hxo.shape.1]; exact hk), h4 k hk]
    · rw [hIt t hts] at ht
      obtain ⟨a1, a2, a3, a4⟩ := hxo.listed t gids ht
      refine ⟨a1, a2, a3, ?_⟩
      intro k hk
      rw [Gt k t hts]
      exact a4 k hk
  · -- neither
    intro t hnf hnl g' hg'
    obtain ⟨k, hk, rfl, hgm⟩ := hidx g' hg'
    by_cases hts : t = s
    · subst hts
      rcases hmode with ⟨hf, _, _⟩ | ⟨_, ids, hget, _⟩
      · exact absurd hf hnf
      · rw [hget] at hnl; cases hnl
    · rw [Gt k t hts]
      exact hxo.neither t (fun hh => hnf ((hFt t hts).mpr hh)) (by rw [← hIt t hts]; exact hnl) _ hgm
  · -- split
    intro t
    rw [hsig, mem_sAdd]
    by_cases hts : t = s
    · subst hts
      simp only [true_or, true_iff]
      rcases hmode with ⟨hf, _, _⟩ | ⟨_, ids, hget, _⟩
      · exact Or.inl hf
      · right; rw [hget]; rfl
    · simp only [hts, false_or]
      rw [hxo.split, hFt t hts, hIt t hts]
  · -- disjoint
    intro t ht
    by_cases hts : t = s
    · subst hts
      rcases hmode with ⟨_, hnone, _⟩ | ⟨hnf, _⟩
      · exact hnone
      · exact absurd ht hnf
    · rw [hIt t hts]
      exact hxo.disj t ((hFt t hts).mp ht)
  · -- children
    intro t
    rw [hsig, mem_sAdd]
    constructor
    · rintro (rfl | ht)
      · obtain ⟨e', he', hp, _⟩ := hs'
        exact ⟨e', he', hp⟩
      · by_cases hts : t = s
        · subst hts
          obtain ⟨e', he', hp, _⟩ := hs'
          exact ⟨e', he', hp⟩
        · obtain ⟨e, e', h1, h2, _, h4⟩ := hch t ht hts
          obtain ⟨e0, he0, hp0⟩ := (hxo.child t).mp ht
          rw [h1] at he0; cases he0
          exact ⟨e', h2, by rw [h4, hp0]⟩
    · rintro ⟨e', he', hp⟩
      exact hnew t e' he' hp
  · rw [hnm]; exact keysNodup_nmSet _ _ _ hxo.namesNodup
  · -- names
    intro n i
    rw [hnm, hsig, mem_nmSet, mem_sAdd]
    constructor
    · rintro (he | ⟨hm, hne⟩)
      · cases he
        exact ⟨Or.inl rfl, hnameS⟩
      · obtain ⟨hi, hn⟩ := (hxo.names n i).mp hm
        have his : i ≠ s := by
          rintro rfl
          simp only at hne
          apply hne
          have : nameOf w i = se.name := by simp [nameOf, hs]
          rw [← hn, this]
        exact ⟨Or.inr hi, by rw [hnameW i hi his, hn]⟩
    · rintro ⟨hi, hn⟩
      by_cases his : i = s
      · subst his
        left
        rw [← hn, hnameS]
      · rcases hi with hi | hi
        · exact absurd hi his
        · right
          have hn0 : nameOf w i = n := by rw [← hnameW i hi his, hn]
          refine ⟨(hxo.names n i).mpr ⟨hi, hn0⟩, ?_⟩
          simp only
          intro hne
          apply his
          apply hfree
          rw [← hne]
          exact (hxo.names n i).mpr ⟨hi, hn0⟩
  · rw [hsig]
    unfold sAdd
    split
    · exact hxo.sigsNodup
    · rename_i hc
      exact List.nodup_cons.mpr ⟨by simpa using hc, hxo.sigsNodup⟩

end Acme.Mux
