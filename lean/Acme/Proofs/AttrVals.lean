/-
Round trip of the VALUES: an exported `BA_` line is read by the second loop of `importAttributes`
as the assignment (or the dedicated field) it came from.
-/
import Acme.Proofs.AttrDefs
import Acme.Proofs.Conv

namespace Acme.Attr
open Acme.Conv

/-! ## the value of a user attribute -/

theorem resolveVal_export (att : AttrDef) (v : Val) (hd : DefOK att.ty)
    (hv : checkAssign att.ty v = .ok ()) :
    resolveVal (entryOf (normAtt att)) (exportVal att.ty v) = .ok v := by
  obtain ⟨n, ty⟩ := att
  cases ty with
  | str d =>
    cases v with
    | str s => rfl
    | int i => simp [checkAssign] at hv
    | float q => simp [checkAssign] at hv
  | int d mn mx hex =>
    cases v with
    | str s => simp [checkAssign] at hv
    | float q => simp [checkAssign] at hv
    | int i =>
      cases hx : exportsAsHex hex mn mx with
      | false => simp only [exportVal, hx, Bool.false_eq_true, if_false, resolveVal, entryOf, normAtt, normTy]
      | true =>
        obtain ⟨_, f1, f2⟩ := exportsAsHex_true hx
        simp only [checkAssign] at hv
        split at hv
        · cases hv
        · rename_i hb
          have e := u32_cast (i := i) (by omega) (by omega)
          simp only [exportVal, hx, if_true, resolveVal, entryOf, normAtt, normTy, e]
  | float d mn mx =>
    cases v with
    | str s => simp [checkAssign] at hv
    | int i => simp [checkAssign] at hv
    | float q => rfl
  | enum vs d =>
    cases v with
    | int i => simp [checkAssign] at hv
    | float q => simp [checkAssign] at hv
    | str s =>
      simp only [checkAssign] at hv
      split at hv
      · rename_i hc
        have hm : s ∈ vs := List.contains_iff_mem.1 hc
        simp only [DefOK] at hd
        simp only [exportVal, resolveVal, entryOf, normAtt, normTy, fileValues, enum_attr_roundtrip vs hd.1 s hm]
      · cases hv

/-- a user assignment: attribute of the constructors, value `AssignAttribute` accepts, name not
    a well-known one, found in the table -/
structure AsgOK (table : List Entry) (a : Asg) : Prop where
  look : lookupEntry table a.att.name = some (entryOf (normAtt a.att))
  defOK : DefOK a.att.ty
  val : checkAssign a.att.ty a.val = .ok ()
  user : special? a.att.name = none

theorem resolve_bus (keys : List Key) (table : List Entry) (a : Asg) (ok : AsgOK table a) :
    resolve keys table (exportItem ⟨.general, .general, a⟩) = .ok (some (.bus, .assign (normAsg a))) := by
  have hr := resolveVal_export a.att a.val ok.defOK ok.val
  simp only [exportItem, resolve, ok.look, hr, assignAct]
  simp only [entryOf, normAtt, checkAssign_normTy, ok.val]
  rfl

theorem resolve_node (keys : List Key) (table : List Entry) (n : String) (hk : Key.node n ∈ keys)
    (a : Asg) (ok : AsgOK table a) :
    resolve keys table (exportItem ⟨.node, .node n, a⟩) = .ok (some (.node n, .assign (normAsg a))) := by
  have hc : keys.contains (Key.node n) = true := List.contains_iff_mem.2 hk
  have hr := resolveVal_export a.att a.val ok.defOK ok.val
  simp only [exportItem, resolve, ok.look, hr, assignAct, hc, if_true]
  simp only [entryOf, normAtt, checkAssign_normTy, ok.val]
  rfl

theorem resolve_msg (keys : List Key) (table : List Entry) (id : Nat) (hk : Key.msg id ∈ keys)
    (a : Asg) (ok : AsgOK table a) :
    resolve keys table (exportItem ⟨.message, .msg id, a⟩) = .ok (some (.msg id, .assign (normAsg a))) := by
  have hc : keys.contains (Key.msg id) = true := List.contains_iff_mem.2 hk
  have hr := resolveVal_export a.att a.val ok.defOK ok.val
  simp only [exportItem, resolve, ok.look, hr, assignAct, hc, if_true, ok.user]
  simp only [entryOf, normAtt, checkAssign_normTy, ok.val]
  rfl

theorem resolve_sig (keys : List Key) (table : List Entry) (id : Nat) (n : String)
    (hk : Key.sig id n ∈ keys) (a : Asg) (ok : AsgOK table a) :
    resolve keys table (exportItem ⟨.signal, .sig id n, a⟩) = .ok (some (.sig id n, .assign (normAsg a))) := by
  have hc : keys.contains (Key.sig id n) = true := List.contains_iff_mem.2 hk
  have hr := resolveVal_export a.att a.val ok.defOK ok.val
  simp only [exportItem, resolve, ok.look, hr, assignAct, hc, if_true, ok.user]
  simp only [entryOf, normAtt, checkAssign_normTy, ok.val]
  rfl

/-! ## the dedicated fields -/

theorem resolve_cycle (keys : List Key) (table : List Entry) (id : Nat) (hk : Key.msg id ∈ keys) (i : Int)
    (hl : lookupEntry table msgCycleTimeAtt.name = some (entryOf msgCycleTimeAtt)) :
    resolve keys table (exportItem ⟨.message, .msg id, ⟨msgCycleTimeAtt, .int i⟩⟩) =
      .ok (some (.msg id, .cycle i)) := by
  have hc : keys.contains (Key.msg id) = true := List.contains_iff_mem.2 hk
  have hs : special? msgCycleTimeAtt.name = some .msgCycleTime := by decide
  simp only [exportItem, resolve, hl, hc, if_true, hs]
  rfl

theorem resolve_delay (keys : List Key) (table : List Entry) (id : Nat) (hk : Key.msg id ∈ keys) (i : Int)
    (hl : lookupEntry table msgDelayTimeAtt.name = some (entryOf msgDelayTimeAtt)) :
    resolve keys table (exportItem ⟨.message, .msg id, ⟨msgDelayTimeAtt, .int i⟩⟩) =
      .ok (some (.msg id, .delay i)) := by
  have hc : keys.contains (Key.msg id) = true := List.contains_iff_mem.2 hk
  have hs : special? msgDelayTimeAtt.name = some .msgDelayTime := by decide
  simp only [exportItem, resolve, hl, hc, if_true, hs]
  rfl

theorem resolve_startDelay (keys : List Key) (table : List Entry) (id : Nat) (hk : Key.msg id ∈ keys)
    (i : Int) (hl : lookupEntry table msgStartDelayTimeAtt.name = some (entryOf msgStartDelayTimeAtt)) :
    resolve keys table (exportItem ⟨.message, .msg id, ⟨msgStartDelayTimeAtt, .int i⟩⟩) =
      .ok (some (.msg id, .startDelay i)) := by
  have hc : keys.contains (Key.msg id) = true := List.contains_iff_mem.2 hk
  have hs : special? msgStartDelayTimeAtt.name = some .msgStartDelayTime := by decide
  simp only [exportItem, resolve, hl, hc, if_true, hs]
  rfl

theorem resolve_msgSend (keys : List Key) (table : List Entry) (id : Nat) (hk : Key.msg id ∈ keys)
    (s : MsgSend) (hl : lookupEntry table msgSendTypeAtt.name = some (entryOf msgSendTypeAtt)) :
    resolve keys table (exportItem ⟨.message, .msg id, ⟨msgSendTypeAtt, .str (msgSendToDBC s)⟩⟩) =
      .ok (some (.msg id, .msgSend s)) := by
  have hc : keys.contains (Key.msg id) = true := List.contains_iff_mem.2 hk
  have hs : special? msgSendTypeAtt.name = some .msgSendType := by decide
  simp only [exportItem, resolve, hl, hc, if_true, hs]
  cases s <;> rfl

theorem resolve_sigStart (keys : List Key) (table : List Entry) (id : Nat) (n : String)
    (hk : Key.sig id n ∈ keys) (q : Rat)
    (hl : lookupEntry table sigStartValueAtt.name = some (entryOf sigStartValueAtt)) :
    resolve keys table (exportItem ⟨.signal, .sig id n, ⟨sigStartValueAtt, .float q⟩⟩) =
      .ok (some (.sig id n, .sigStart q)) := by
  have hc : keys.contains (Key.sig id n) = true := List.contains_iff_mem.2 hk
  have hs : special? sigStartValueAtt.name = some .sigStartValue := by decide
  simp only [exportItem, resolve, hl, hc, if_true, hs]
  rfl

theorem resolve_sigSend (keys : List Key) (table : List Entry) (id : Nat) (n : String)
    (hk : Key.sig id n ∈ keys) (s : SigSend)
    (hl : lookupEntry table sigSendTypeAtt.name = some (entryOf sigSendTypeAtt)) :
    resolve keys table (exportItem ⟨.signal, .sig id n, ⟨sigSendTypeAtt, .str (sigSendToDBC s)⟩⟩) =
      .ok (some (.sig id n, .sigSend s)) := by
  have hc : keys.contains (Key.sig id n) = true := List.contains_iff_mem.2 hk
  have hs : special? sigSendTypeAtt.name = some .sigSendType := by decide
  simp only [exportItem, resolve, hl, hc, if_true, hs]
  cases s <;> rfl

end Acme.Attr
