/-
Multiplexer world, part T: size changes of a leaf (`StandardSignal.SetType`) — one layout.
-/
import Acme.Proofs.MuxClear

namespace Acme.Mux
open Acme.Layout Acme.Arith

theorem followers_ids (w : MW) (s : Nat) : ∀ ids : List Nat, (∀ i ∈ ids, (w.sigs.get i).isSome) →
    (followers s (slotsOf w ids)).map (·.id) = followersOf ids s
  | [], _ => rfl
  | i :: rest, hst => by
    have hi := hst i List.mem_cons_self
    have ih := followers_ids w s rest (fun j hj => hst j (List.mem_cons_of_mem _ hj))
    cases he : w.sigs.get i with
    | none => rw [he] at hi; simp at hi
    | some e =>
      simp only [slotsOf, he, followers, followersOf]
      by_cases his : i = s
      · subst his
        simp only [↓reduceIte, ne_eq, not_true_eq_false, decide_false, List.dropWhile_cons_of_neg,
          Bool.false_eq_true, not_false_eq_true, List.drop_succ_cons, List.drop_zero]
        exact slotsOf_map_id w rest (fun j hj => hst j (List.mem_cons_of_mem _ hj))
      · rw [if_neg his]
        have : List.dropWhile (fun t => decide (t ≠ s)) (i :: rest) = List.dropWhile (fun t => decide (t ≠ s)) rest := by
          rw [List.dropWhile_cons_of_pos]
          simp [his]
        rw [this]
        exact ih

theorem shrinkLoop_true_eq (id : Nat) (a : Int) : ∀ l : List Slot,
    shrinkLoop id a true l = l.map (fun x => { x with start := x.start - a })
  | [] => rfl
  | s :: rest => by
    simp only [shrinkLoop, ↓reduceIte, List.map_cons, shrinkLoop_true_eq id a rest]

theorem shrinkLoop_false_eq (id : Nat) (a : Int) : ∀ l : List Slot,
    shrinkLoop id a false l = upto id l ++ (followers id l).map (fun x => { x with start := x.start - a })
  | [] => rfl
  | s :: rest => by
    simp only [shrinkLoop, Bool.false_eq_true, ↓reduceIte]
    by_cases hs : s.id = id
    · simp only [hs, decide_true, shrinkLoop_true_eq, upto, followers, ↓reduceIte, List.cons_append, List.nil_append]
    · simp only [hs, decide_false, upto, followers, ↓reduceIte, List.cons_append, shrinkLoop_false_eq id a rest]

theorem growPush_err : ∀ (l : List Slot) (sp : List Int) (acc : Int) (e : LErr),
    growPush l sp acc = .error e → e = .panic
  | [], _, _, e, h => by simp [growPush] at h
  | s :: rest, [], acc, e, h => by simp only [growPush] at h; cases h; rfl
  | s :: rest, sp :: sps, acc, e, h => by
    simp only [growPush] at h
    split at h
    · cases h
    · split at h
      · rename_i e' he'
        cases h
        exact growPush_err rest sps _ _ he'
      · cases h

theorem growStarts_err (cap : Int) (l : List Slot) (id : Nat) (amount : Int) (hne : amount ≠ 0)
    (hver : verifyGrow cap l id amount = .ok ()) (e : LErr) (he : growStarts cap l id amount = .error e) :
    e = .panic := by
  unfold growStarts at he
  rw [if_neg hne, hver] at he
  simp only at he
  split at he
  · cases he
  · split at he
    · rename_i e' he'
      cases he
      exact growPush_err _ _ _ _ he'
    · cases he

/-- the common shape of the results of `growStarts` and `shrinkStarts` on a well-formed
    slice: the slots up to the signal are untouched, the followers keep ids and sizes, and the
    slice is well-formed once the signal has its new size -/
theorem resize_slots (cap : Int) (l : List Slot) (h : WF cap l) (hn : IdsNodup l) (id : Nat) (s : Slot)
    (hs : find id l = some s) (amount : Int) (hne : amount ≠ 0)
    (hver : (if amount > 0 then verifyGrow cap l id amount else verifyShrink s.size (-amount)) = .ok ()) :
    ∃ l' tail, (if amount > 0 then growStarts cap l id amount else shrinkStarts l id s.size (-amount)) = .ok l' ∧
      l' = upto id l ++ tail ∧
      tail.map (fun x => (x.id, x.size)) = (followers id l).map (fun x => (x.id, x.size)) ∧
      WF cap (setSize l' id (s.size + amount)) := by
  by_cases hpos : amount > 0
  · rw [if_pos hpos] at hver ⊢
    rcases growStarts_cases cap l h id s hs amount with e | e | ⟨ha, tail, e, t1, t2, t3⟩
    · exact absurd (growStarts_err cap l id amount hne hver _ e) (by simp)
    · exact absurd (growStarts_err cap l id amount hne hver _ e) (by simp)
    · refine ⟨_, tail, e, rfl, t2, ?_⟩
      exact (grow_wf cap l h hn id s hs amount _ e).1
  · rw [if_neg hpos] at hver ⊢
    have hne' : -amount ≠ 0 := by omega
    obtain ⟨sp1, sp2⟩ := shrink_spec cap l h hn id s hs (-amount) hne'
    have hb := (verifyShrink_ok_iff s.size (-amount)).mp hver
    obtain ⟨l', hl'⟩ := sp1.mpr hb
    obtain ⟨q1, q2, q3⟩ := sp2 l' hl'
    have hl2 : l' = shrinkLoop id (-amount) false l := by
      unfold shrinkStarts at hl'
      rw [if_neg hne', hver] at hl'
      simp only [Except.ok.injEq] at hl'
      exact hl'.symm
    refine ⟨l', (followers id l).map (fun x => { x with start := x.start - -amount }), hl', ?_, ?_, ?_⟩
    · rw [hl2, shrinkLoop_false_eq]
    · rw [List.map_map]; rfl
    · have : s.size - -amount = s.size + amount := by omega
      rw [← this]; exact q1

theorem find_slotsOf (w : MW) (s : Nat) (e : SigE) (hs : w.sigs.get s = some e) :
    ∀ ids : List Nat, s ∈ ids → (∀ i ∈ ids, (w.sigs.get i).isSome) →
      find s (slotsOf w ids) = some ⟨s, e.rel, sigSize e⟩
  | [], h, _ => by cases h
  | i :: rest, h, hst => by
    have hi := hst i List.mem_cons_self
    cases he : w.sigs.get i with
    | none => rw [he] at hi; simp at hi
    | some ei =>
      simp only [slotsOf, he]
      by_cases his : i = s
      · subst his
        rw [hs] at he; cases he
        exact find_cons_eq _ rfl
      · rw [find_cons_ne _ his]
        simp only [List.mem_cons] at h
        rcases h with rfl | h
        · exact absurd rfl his
        · exact find_slotsOf w s e hs rest h (fun j hj => hst j (List.mem_cons_of_mem _ hj))

/-- no `generateFilters` panic on a slice with non-negative starts and positive sizes -/
theorem genPanics_false' (w : MW) (ids : List Nat)
    (h : ∀ sl ∈ slotsOf w ids, 0 ≤ sl.start ∧ 0 < sl.size) : genPanics w ids = false := by
  unfold genPanics
  rw [List.any_eq_false]
  intro sl hsl
  obtain ⟨a, b⟩ := h sl hsl
  simp [slotPanics_false sl a b]

theorem mem_setSize (l : List Slot) (id : Nat) (sz : Int) (x : Slot) (hx : x ∈ l) :
    ∃ y ∈ setSize l id sz, y.start = x.start ∧ y.id = x.id := by
  unfold setSize
  refine ⟨_, List.mem_map.mpr ⟨x, hx, rfl⟩, ?_⟩
  split <;> simp

/-- the slot view after the kind of `s` changed to a leaf of size `n` -/
theorem slotsOf_setKind (w w' : MW) (s : Nat) (n : Int) (ids : List Nat)
    (hs' : w'.sigs.get s = (w.sigs.get s).map (fun e => { e with kind := .leaf n }))
    (ho : ∀ i, i ≠ s → w'.sigs.get i = w.sigs.get i) :
    slotsOf w' ids = setSize (slotsOf w ids) s n := by
  induction ids with
  | nil => rfl
  | cons i rest ih =>
    by_cases his : i = s
    · subst his
      cases he : w.sigs.get i with
      | none =>
        rw [he] at hs'
        simp only [slotsOf, he, hs', Option.map_none, ih]
      | some e =>
        rw [he] at hs'
        simp only [slotsOf, he, hs', Option.map_some, ih]
        rw [setSize_cons_eq _ _ rfl]
        rfl
    · rw [slotsOf, slotsOf, ho i his]
      cases he : w.sigs.get i with
      | none => simp only [ih]
      | some e =>
        simp only
        rw [setSize_cons_ne _ _ his, ih]

/-- `modifyLayout` on a well-formed slice after a successful verification: no error, only
    the followers of `s` move, and the slice is well-formed once `s` has its new size -/
theorem modifyLayout_spec (w : MW) (cap : Int) (ids : List Nat) (s : Nat) (se : SigE) (z amount : Int)
    (hnd : ids.Nodup) (hst : ∀ i ∈ ids, (w.sigs.get i).isSome) (hwf : WF cap (slotsOf w ids))
    (hs : w.sigs.get s = some se) (hkz : se.kind = .leaf z) (hsin : s ∈ ids) (hne : amount ≠ 0)
    (hver : (if amount > 0 then verifyGrow cap (slotsOf w ids) s amount else verifyShrink z (-amount)) = .ok ()) :
    ∃ w1, modifyLayout w cap ids s z amount = (w1, none) ∧ w1.msgs = w.msgs ∧
      (∀ i, ∃ r, w1.sigs.get i = (w.sigs.get i).map (fun e => { e with rel := r })) ∧
      (∀ i e, w.sigs.get i = some e → i ∉ followersOf ids s → w1.sigs.get i = some e) ∧
      WF cap (setSize (slotsOf w1 ids) s (z + amount)) := by
  have hszs : sigSize se = z := by simp [sigSize, hkz]
  have hfind : find s (slotsOf w ids) = some ⟨s, se.rel, z⟩ := by
    rw [← hszs]; exact find_slotsOf w s se hs ids hsin hst
  have hidn : IdsNodup (slotsOf w ids) := by
    unfold IdsNodup; rw [slotsOf_map_id w ids hst]; exact hnd
  obtain ⟨l', tail, hres, hl', htail, hwf'⟩ := resize_slots cap (slotsOf w ids) hwf hidn s ⟨s, se.rel, z⟩ hfind amount hne hver
  simp only at hwf' hres
  -- ids and sizes are kept
  have hmapeq : l'.map (fun x => (x.id, x.size)) = (slotsOf w ids).map (fun x => (x.id, x.size)) := by
    rw [hl', List.map_append, htail, ← List.map_append, upto_append_followers]
  obtain ⟨b1, b2, b3, b4⟩ := applyDeltas_slots w ids l' hnd hst hmapeq
  -- the new world
  have hw1 : ∀ (r : Except LErr (List Slot)), r = .ok l' →
      ∃ w1 : MW, w1 = { w with sigs := applyDeltas w.sigs (slotsOf w ids) l' } := fun _ _ => ⟨_, rfl⟩
  generalize hW : ({ w with sigs := applyDeltas w.sigs (slotsOf w ids) l' } : MW) = w1 at b1 b2 b3 b4
  have hnp : genPanics w1 ids = false := by
    apply genPanics_false'
    rw [b1]
    intro sl hsl
    obtain ⟨y, hy, hy1, _⟩ := mem_setSize l' s (z + amount) sl hsl
    have h1 := (WFfrom_mem hwf' y hy).1
    have hp : (sl.id, sl.size) ∈ (slotsOf w ids).map (fun x => (x.id, x.size)) := by
      rw [← hmapeq]; exact List.mem_map.mpr ⟨sl, hsl, rfl⟩
    obtain ⟨o, ho, hoe⟩ := List.mem_map.mp hp
    simp only [Prod.mk.injEq] at hoe
    have h2 := (WFfrom_mem hwf o ho).2.1
    constructor
    · rw [← hy1]; exact h1
    · rw [← hoe.2]; exact h2
  have hunch : ∀ i e, w.sigs.get i = some e → i ∉ followersOf ids s → w1.sigs.get i = some e := by
    intro i e he hnf
    apply b4 i e he
    intro n hn hni
    rw [hl', List.mem_append] at hn
    rcases hn with hn | hn
    · have hnl : n ∈ slotsOf w ids := by
        rw [← upto_append_followers s (slotsOf w ids)]; exact List.mem_append_left _ hn
      obtain ⟨_, e0, he0, a1, _⟩ := mem_slotsOf w ids n hnl
      rw [hni, he] at he0; cases he0
      exact a1
    · exfalso
      apply hnf
      rw [← followers_ids w s ids hst]
      have : (n.id, n.size) ∈ (followers s (slotsOf w ids)).map (fun x => (x.id, x.size)) := by
        rw [← htail]; exact List.mem_map.mpr ⟨n, hn, rfl⟩
      obtain ⟨o, ho, hoe⟩ := List.mem_map.mp this
      simp only [Prod.mk.injEq] at hoe
      rw [← hni, ← hoe.1]
      exact List.mem_map.mpr ⟨o, ho, rfl⟩
  refine ⟨w1, ?_, by rw [← hW], b3, hunch, by rw [b1]; exact hwf'⟩
  unfold modifyLayout
  simp only
  by_cases hpos : amount > 0
  · rw [if_pos hpos] at hres ⊢
    rw [hres]
    simp only [hW]
    split
    · rfl
    · rw [hnp]; rfl
  · rw [if_neg hpos] at hres ⊢
    rw [hres]
    simp only [hW, hnp]
    rfl

end Acme.Mux
