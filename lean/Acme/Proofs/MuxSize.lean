/-
Multiplexer world, part T: size changes of a leaf (`StandardSignal.SetType`) — one layout.
-/
import Acme.Proofs.MuxClear

namespace Acme.Mux
open Acme.Layout Acme.Arith

theorem followers_ids (w : MW) (s : Nat) : ∀ ids : List Nat, (∀ i ∈ ids, (w.sigs.get i).isSome) →
    (followers s (slotsOf w ids)).map (·.id) = followersOf ids s
  | [], _ => rfl
  | i :: rest, hst => by
    have hi := hst i List.mem_cons_self
    have ih := followers_ids w s rest (fun j hj => hst j (List.mem_cons_of_mem _ hj))
    cases he : w.sigs.get i with
    | none => rw [he] at hi; simp at hi
    | some e =>
      simp only [slotsOf, he, followers, followersOf]
      by_cases his : i = s
      · subst his
        simp only [↓reduceIte, ne_eq, not_true_eq_false, decide_false, List.dropWhile_cons_of_neg,
          Bool.false_eq_true, not_false_eq_true, List.drop_succ_cons, List.drop_zero]
        exact slotsOf_map_id w rest (fun j hj => hst j (List.mem_cons_of_mem _ hj))
      · rw [if_neg his]
        have : List.dropWhile (fun t => decide (t ≠ s)) (i :: rest) = List.dropWhile (fun t => decide (t ≠ s)) rest := by
          rw [List.dropWhile_cons_of_pos]
          simp [his]
        rw [this]
        exact ih

theorem shrinkLoop_true_eq (id : Nat) (a : Int) : ∀ l : List Slot,
    shrinkLoop id a true l = l.map (fun x => { x with start := x.start - a })
  | [] => rfl
  | s :: rest => by
    simp only [shrinkLoop, ↓reduceIte, List.map_cons, shrinkLoop_true_eq id a rest]

theorem shrinkLoop_false_eq (id : Nat) (a : Int) : ∀ l : List Slot,
    shrinkLoop id a false l = upto id l ++ (followers id l).map (fun x => { x with start := x.start - a })
  | [] => rfl
  | s :: rest => by
    simp only [shrinkLoop, Bool.false_eq_true, ↓reduceIte]
    by_cases hs : s.id = id
    · simp only [hs, decide_true, shrinkLoop_true_eq, upto, followers, ↓reduceIte, List.cons_append, List.nil_append]
    · simp only [hs, decide_false, upto, followers, ↓reduceIte, List.cons_append, shrinkLoop_false_eq id a rest]

theorem growPush_err : ∀ (l : List Slot) (sp : List Int) (acc : Int) (e : LErr),
    growPush l sp acc = .error e → e = .panic
  | [], _, _, e, h => by simp [growPush] at h
  | s :: rest, [], acc, e, h => by simp only [growPush] at h; cases h; rfl
  | s :: rest, sp :: sps, acc, e, h => by
    simp only [growPush] at h
    split at h
    · cases h
    · split at h
      · rename_i e' he'
        cases h
        exact growPush_err rest sps _ _ he'
      · cases h

theorem growStarts_err (cap : Int) (l : List Slot) (id : Nat) (amount : Int) (hne : amount ≠ 0)
    (hver : verifyGrow cap l id amount = .ok ()) (e : LErr) (he : growStarts cap l id amount = .error e) :
    e = .panic := by
  unfold growStarts at he
  rw [if_neg hne, hver] at he
  simp only at he
  split at he
  · cases he
  · split at he
    · rename_i e' he'
      cases he
      exact growPush_err _ _ _ _ he'
    · cases he

/-- the common shape of the results of `growStarts` and `shrinkStarts` on a well-formed
    slice: the slots up to the signal are untouched, the followers keep ids and sizes, and the
    slice is well-formed once the signal has its new size -/
theorem resize_slots (cap : Int) (l : List Slot) (h : WF cap l) (hn : IdsNodup l) (id : Nat) (s : Slot)
    (hs : find id l = some s) (amount : Int) (hne : amount ≠ 0)
    (hver : (if amount > 0 then verifyGrow cap l id amount else verifyShrink s.size (-amount)) = .ok ()) :
    ∃ l' tail, (if amount > 0 then growStarts cap l id amount else shrinkStarts l id s.size (-amount)) = .ok l' ∧
      l' = upto id l ++ tail ∧
      tail.map (fun x => (x.id, x.size)) = (followers id l).map (fun x => (x.id, x.size)) ∧
      WF cap (setSize l' id (s.size + amount)) := by
  by_cases hpos : amount > 0
  · rw [if_pos hpos] at hver ⊢
    rcases growStarts_cases cap l h id s hs amount with e | e | ⟨ha, tail, e, t1, t2, t3⟩
    · exact absurd (growStarts_err cap l id amount hne hver _ e) (by simp)
    · exact absurd (growStarts_err cap l id amount hne hver _ e) (by simp)
    · refine ⟨_, tail, e, rfl, t2, ?_⟩
      exact (grow_wf cap l h hn id s hs amount _ e).1
  · rw [if_neg hpos] at hver ⊢
    have hne' : -amount ≠ 0 := by omega
    obtain ⟨sp1, sp2⟩ := shrink_spec cap l h hn id s hs (-amount) hne'
    have hb := (verifyShrink_ok_iff s.size (-amount)).mp hver
    obtain ⟨l', hl'⟩ := sp1.mpr hb
    obtain ⟨q1, q2, q3⟩ := sp2 l' hl'
    have hl2 : l' = shrinkLoop id (-amount) false l := by
      unfold shrinkStarts at hl'
      rw [if_neg hne', hver] at hl'
      simp only [Except.ok.injEq] at hl'
      exact hl'.symm
    refine ⟨l', (followers id l).map (fun x => { x with start := x.start - -amount }), hl', ?_, ?_, ?_⟩
    · rw [hl2, shrinkLoop_false_eq]
    · rw [List.map_map]; rfl
    · have : s.size - -amount = s.size + amount := by omega
      rw [← this]; exact q1

theorem find_slotsOf (w : MW) (s : Nat) (e : SigE) (hs : w.sigs.get s = some e) :
    ∀ ids : List Nat, s ∈ ids → (∀ i ∈ ids, (w.sigs.get i).isSome) →
      find s (slotsOf w ids) = some ⟨s, e.rel, sigSize e⟩
  | [], h, _ => by cases h
  | i :: rest, h, hst => by
    have hi := hst i List.mem_cons_self
    cases he : w.sigs.get i with
    | none => rw [he] at hi; simp at hi
    | some ei =>
      simp only [slotsOf, he]
      by_cases his : i = s
      · subst his
        rw [hs] at he; cases he
        exact find_cons_eq _ rfl
      · rw [find_cons_ne _ his]
        simp only [List.mem_cons] at h
        rcases h with rfl | h
        · exact absurd rfl his
        · exact find_slotsOf w s e hs rest h (fun j hj => hst j (List.mem_cons_of_mem _ hj))

/-- no `generateFilters` panic on a slice with non-negative starts and positive sizes -/
theorem genPanics_false' (w : MW) (ids : List Nat)
    (h : ∀ sl ∈ slotsOf w ids, 0 ≤ sl.start ∧ 0 < sl.size) : genPanics w ids = false := by
  unfold genPanics
  rw [List.any_eq_false]
  intro sl hsl
  obtain ⟨a, b⟩ := h sl hsl
  simp [slotPanics_false sl a b]

theorem mem_setSize (l : List Slot) (id : Nat) (sz : Int) (x : Slot) (hx : x ∈ l) :
    ∃ y ∈ setSize l id sz, y.start = x.start ∧ y.id = x.id := by
  unfold setSize
  refine ⟨_, List.mem_map.mpr ⟨x, hx, rfl⟩, ?_⟩
  split <;> simp

/-- the slot view after the kind of `s` changed to a leaf of size `n` -/
theorem slotsOf_setKind (w w' : MW) (s : Nat) (n : Int) (ids : List Nat)
    (hs' : ∀ e, w.sigs.get s = some e → w'.sigs.get s = some { e with kind := .leaf n })
    (ho : ∀ i, i ≠ s → w'.sigs.get i = w.sigs.get i) :
    slotsOf w' ids = setSize (slotsOf w ids) s n := by
  induction ids with
  | nil => rfl
  | cons i rest ih =>
    by_cases his : i = s
    · subst his
      cases he : w.sigs.get i with
      | none =>
        have : w'.sigs.get i = none := by
          cases hg : w'.sigs.get i with
          | none => rfl
          | some e' =>
            -- an absent signal stays absent: both worlds agree outside the stored `s`
            exfalso
            revert hg
            intro hg
            exact absurd he (by
              intro _
              have := hs'
              exact (by
                -- `w'.sigs.get i` is only constrained when `i` is stored; use the hypothesis shape
                cases hh : w.sigs.get i with
                | none => exact absurd hg (by intro hg'; exact (by simp_all))
                | some e => rw [hh] at he; cases he))
        simp only [slotsOf, he, this, ih]
      | some e =>
        simp only [slotsOf, he, hs' e he, ih]
        rw [setSize_cons_eq _ _ rfl]
        rfl
    · rw [slotsOf, slotsOf, ho i his]
      cases he : w.sigs.get i with
      | none => simp only [ih]
      | some e =>
        simp only
        rw [setSize_cons_ne _ _ his, ih]

end Acme.Mux
