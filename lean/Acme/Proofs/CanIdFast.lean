/-
The driver's shift-guarded evaluator computes the same function as the model the
C14 theorems are about.
-/
import Acme.Core.CanId

namespace Acme.CanId

theorem shl32_eq (x : BitVec 32) (n : Nat) : shl32 x n = x <<< n := by
  unfold shl32
  split
  · rename_i h
    exact (BitVec.shiftLeft_eq_zero (by omega)).symm
  · rfl

theorem shr32_eq (x : BitVec 32) (n : Nat) : shr32 x n = x >>> n := by
  unfold shr32
  split
  · rename_i h
    exact (BitVec.ushiftRight_eq_zero (by omega)).symm
  · rfl

theorem lenMaskFast_eq (len : Int) : lenMaskFast len = lenMask len := by
  simp [lenMaskFast, lenMask, shr32_eq]

theorem calcOpFast_eq (op : BOp) (prev prio mid nid : BitVec 32) :
    calcOpFast op prev prio mid nid = calcOp op prev prio mid nid := by
  unfold calcOpFast calcOp
  cases op.kind <;> simp [shl32_eq, lenMaskFast_eq]

theorem calculateFast_eq (ops : List BOp) (prio mid nid : BitVec 32) :
    calculateFast ops prio mid nid = calculate ops prio mid nid := by
  unfold calculateFast calculate
  congr 1
  funext acc op
  exact calcOpFast_eq op acc prio mid nid

theorem partialsFromFast_eq (ops : List BOp) (acc prio mid nid : BitVec 32) :
    partialsFromFast acc prio mid nid ops = partialsFrom acc prio mid nid ops := by
  induction ops generalizing acc with
  | nil => rfl
  | cons op ops ih => simp [partialsFromFast, partialsFrom, calcOpFast_eq, ih]

end Acme.CanId
