/-
Tie B: an inventory regenerated from /repo's source on every run (Acme.Gen, written by
/verif/tools/extract) is exactly the hand-classified expectation table (Acme.Expect).
This is a proof obligation: when the source changes the inventory, `decide` fails here and
every property theorem that imports this file stops building.
-/
import Acme.Gen.PanicSites
import Acme.Expect.Sites

namespace Acme.Sites

set_option maxRecDepth 100000 in
theorem panicSites_expected : Acme.Gen.panicSites = Acme.Expect.panicSites.map (·.1) := by decide

end Acme.Sites
