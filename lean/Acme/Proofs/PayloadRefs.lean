/-
Payload world, part G: size changes of an enum, i.e. of every signal that references it
(`verifyRefs`, `modifyRefs`, `enumVerifySize`, `enumModifySize`), and the frame lemma for
well-formedness / freshness of the enum operations.
-/
import Acme.Proofs.PayloadSig

namespace Acme.Layout

/-- shrinking one slot (to a positive size) keeps a layout well-formed -/
theorem WFfrom_setSize_le (id : Nat) (sz : Int) : ∀ (l : List Slot) (lo cap : Int), WFfrom lo cap l →
    (∀ x ∈ l, x.id = id → 0 < sz ∧ sz ≤ x.size) → WFfrom lo cap (setSize l id sz)
  | [], _, _, h, _ => h
  | s :: rest, lo, cap, h, hx => by
    rw [WFfrom_cons] at h
    have ih := WFfrom_setSize_le id sz rest _ cap h.2.2 (fun x hx' => hx x (List.mem_cons_of_mem _ hx'))
    by_cases hs : s.id = id
    · rw [setSize_cons_eq _ _ hs, WFfrom_cons]
      have := hx s (by simp) hs
      refine ⟨h.1, this.1, WFfrom_mono ih ?_⟩
      simp only
      omega
    · rw [setSize_cons_ne _ _ hs, WFfrom_cons]
      exact ⟨h.1, h.2.1, ih⟩

end Acme.Layout

namespace Acme.Payload
open Acme.Layout Acme.Bits Acme.Arith

/-- the message a signal is attached to -/
def parentOf (w : W) (i : Nat) : Option Nat :=
  match w.sigs.get i with
  | some sg => sg.parent
  | none => none

theorem parentOf_congr {w w' : W} {i : Nat}
    (h : (w'.sigs.get i).map SigE.core = (w.sigs.get i).map SigE.core) : parentOf w' i = parentOf w i := by
  unfold parentOf
  cases h1 : w'.sigs.get i with
  | none =>
    cases h2 : w.sigs.get i with
    | none => rfl
    | some x => rw [h1, h2] at h; simp at h
  | some x' =>
    obtain ⟨x, h2, _, _, hp, _⟩ := core_get_some' h h1
    rw [h2]; exact hp

theorem parentOf_some {w : W} {i m : Nat} (h : parentOf w i = some m) :
    ∃ sg, w.sigs.get i = some sg ∧ sg.parent = some m := by
  unfold parentOf at h
  cases hg : w.sigs.get i with
  | none => rw [hg] at h; cases h
  | some sg => rw [hg] at h; exact ⟨sg, rfl, h⟩

theorem parentOf_of_get {w : W} {i : Nat} {sg : SigE} (h : w.sigs.get i = some sg) :
    parentOf w i = sg.parent := by
  unfold parentOf; rw [h]

theorem enumOf_kind_some {w : W} {s e : Nat} (h : enumOf w s = some e) :
    ∃ sg, w.sigs.get s = some sg ∧ sg.kind = .enm e := by
  cases hg : w.sigs.get s with
  | none => simp [enumOf, hg] at h
  | some sg =>
    cases hk : sg.kind with
    | std t => simp [enumOf, hg, hk] at h
    | mux a b => simp [enumOf, hg, hk] at h
    | enm e' =>
      simp [enumOf, hg, hk] at h
      subst h
      exact ⟨sg, rfl, hk⟩

theorem sizeOf_enm {w : W} {sg : SigE} {e : Nat} {en : EnumE} (hk : sg.kind = .enm e)
    (he : w.enums.get e = some en) : sizeOf w sg = enumSizeOf en := by
  unfold sizeOf; rw [hk]; simp only; rw [he]

/-- the effect of an accepted size change of an enum on the world -/
structure RefsOK (w w1 : W) (rs : List Nat) (newSize : Int) : Prop where
  types : w1.types = w.types
  vals : w1.vals = w.vals
  enums : w1.enums = w.enums
  msgs : w1.msgs = w.msgs
  core : ∀ i, (w1.sigs.get i).map SigE.core = (w.sigs.get i).map SigE.core
  out : ∀ i, (∀ s ∈ rs, ∀ m, parentOf w s = some m → parentOf w i ≠ some m) →
      w1.sigs.get i = w.sigs.get i
  hit : ∀ s ∈ rs, ∀ m msg, parentOf w s = some m → w.msgs.get m = some msg →
      (slotsOf w1 msg.layout).map (fun x => (x.id, x.size)) =
        (slotsOf w msg.layout).map (fun x => (x.id, x.size)) ∧
      WF msg.cap (setSize (slotsOf w1 msg.layout) s newSize)

theorem verifySizeAmount_congr {w w' : W} (hm : w'.msgs = w.msgs) (sid : Nat)
    (hcore : (w'.sigs.get sid).map SigE.core = (w.sigs.get sid).map SigE.core)
    (hsz : ∀ sg' sg, w'.sigs.get sid = some sg' → w.sigs.get sid = some sg → sizeOf w' sg' = sizeOf w sg)
    (hsl : ∀ sg m msg, w.sigs.get sid = some sg → sg.parent = some m → w.msgs.get m = some msg →
      slotsOf w' msg.layout = slotsOf w msg.layout) (amount : Int) :
    verifySizeAmount w' sid amount = verifySizeAmount w sid amount := by
  unfold verifySizeAmount
  cases h1 : w.sigs.get sid with
  | none =>
    have : w'.sigs.get sid = none := by
      cases h2 : w'.sigs.get sid with
      | none => rfl
      | some x => rw [h1, h2] at hcore; simp at hcore
    rw [this]
  | some sg =>
    obtain ⟨sg', h2, _, _, hp, _⟩ := core_get_some hcore h1
    rw [h2]
    simp only [hp]
    cases hpar : sg.parent with
    | none => rfl
    | some m =>
      simp only [hm]
      cases hmsg : w.msgs.get m with
      | none => rfl
      | some msg =>
        simp only
        rw [hsl sg m msg h1 hpar hmsg, hsz sg' sg h2 h1]

theorem verifyRefs_congr {w w' : W} (amount : Int) : ∀ (rs : List Nat),
    (∀ s ∈ rs, verifySizeAmount w' s amount = verifySizeAmount w s amount) →
    verifyRefs w' amount rs = verifyRefs w amount rs
  | [], _ => rfl
  | s :: rest, h => by
    unfold verifyRefs
    rw [h s (by simp), verifyRefs_congr amount rest (fun x hx => h x (List.mem_cons_of_mem _ hx))]

/-- the slots of a layout that an accepted size change of another message does not touch -/
theorem ModOK.other {w w' : W} {msg : MsgE} {sid : Nat} {n : Int} (mod : ModOK w w' msg sid n)
    (hS : InvS w) {m m' : Nat} {msg' : MsgE} (hm : w.msgs.get m = some msg)
    (hm' : w.msgs.get m' = some msg') (hne : m' ≠ m) :
    (∀ i ∈ msg'.layout, w'.sigs.get i = w.sigs.get i) ∧
    slotsOf w' msg'.layout = slotsOf w msg'.layout := by
  have key : ∀ i ∈ msg'.layout, w'.sigs.get i = w.sigs.get i :=
    fun i hi => mod.out i (hS.layout_disjoint hm' hm hne hi)
  refine ⟨key, slotsOf_congr (fun i hi => ?_)⟩
  unfold slotAt
  rw [key i hi]
  cases w.sigs.get i with
  | none => rfl
  | some sg => simp [sizeOf_struct sg mod.types mod.enums]

theorem modifyRefs_spec (e : Nat) (en : EnumE) (amount : Int) (hpos : 0 < enumSizeOf en + amount) :
    ∀ (rs : List Nat) (w : W), InvS w → w.enums.get e = some en → (∀ s ∈ rs, enumOf w s = some e) →
      rs.Nodup →
      (∀ s ∈ rs, ∀ m msg, parentOf w s = some m → w.msgs.get m = some msg →
        WF msg.cap (slotsOf w msg.layout)) →
      (∀ w1, modifyRefs w amount rs = .ok w1 → RefsOK w w1 rs (enumSizeOf en + amount)) ∧
      (verifyRefs w amount rs = .ok () → ∃ w1, modifyRefs w amount rs = .ok w1) := by
  intro rs
  induction rs with
  | nil =>
    intro w _ _ _ _ _
    refine ⟨fun w1 h1 => ?_, fun _ => ⟨w, rfl⟩⟩
    simp only [modifyRefs] at h1
    injection h1 with h1; subst h1
    exact ⟨rfl, rfl, rfl, rfl, fun _ => rfl, fun _ _ => rfl, fun s hs => by cases hs⟩
  | cons s rest ih =>
    intro w hS he hen hnd hwf
    obtain ⟨sg, hs, hk⟩ := enumOf_kind_some (hen s (by simp))
    have hsize : sizeOf w sg = enumSizeOf en := sizeOf_enm hk he
    have hnd' := (List.nodup_cons.1 hnd)
    cases hp : sg.parent with
    | none =>
      have hpo : parentOf w s = none := by rw [parentOf_of_get hs, hp]
      obtain ⟨ih1, ih2⟩ := ih w hS he (fun x hx => hen x (List.mem_cons_of_mem _ hx)) hnd'.2
        (fun x hx => hwf x (List.mem_cons_of_mem _ hx))
      constructor
      · intro w1 h1
        simp only [modifyRefs, modifySize_unattached hs hp] at h1
        have r := ih1 w1 h1
        refine ⟨r.types, r.vals, r.enums, r.msgs, r.core, ?_, ?_⟩
        · intro i hi
          exact r.out i (fun x hx => hi x (List.mem_cons_of_mem _ hx))
        · intro x hx m msg hpx hm
          rcases List.mem_cons.1 hx with rfl | hx'
          · rw [hpo] at hpx; cases hpx
          · exact r.hit x hx' m msg hpx hm
      · intro hv
        simp only [verifyRefs, verifySizeAmount_unattached hs hp] at hv
        obtain ⟨w1, h1⟩ := ih2 hv
        refine ⟨w1, ?_⟩
        simp only [modifyRefs, modifySize_unattached hs hp]
        exact h1
    | some m =>
      have hpo : parentOf w s = some m := by rw [parentOf_of_get hs, hp]
      obtain ⟨msg, hm, hin⟩ := hS.parentLayout s sg m hs hp
      have hwfm := hwf s (by simp) m msg hpo hm
      -- facts transferred to the world after the first signal was processed
      have transfer : ∀ w', ModOK w w' msg s (enumSizeOf en + amount) →
          InvS w' ∧ w'.enums.get e = some en ∧ (∀ x ∈ rest, enumOf w' x = some e) ∧
          (∀ i, parentOf w' i = parentOf w i) ∧
          (∀ x ∈ rest, ∀ m', parentOf w x = some m' → m' ≠ m) ∧
          (∀ x ∈ rest, ∀ m' msg', parentOf w' x = some m' → w'.msgs.get m' = some msg' →
            WF msg'.cap (slotsOf w' msg'.layout)) := by
        intro w' mod
        have hS' : InvS w' := InvS.congr (fun _ => by rw [mod.types]) mod.core (fun _ => by rw [mod.msgs])
          (fun _ => by rw [mod.enums]) hS
        have hpar : ∀ i, parentOf w' i = parentOf w i := fun i => parentOf_congr (mod.core i)
        have hapart : ∀ x ∈ rest, ∀ m', parentOf w x = some m' → m' ≠ m := by
          intro x hx m' hpx hmm
          subst hmm
          obtain ⟨sgx, hsx, hppx⟩ := parentOf_some hpx
          obtain ⟨msgx, hmx, hinx⟩ := hS.parentLayout x sgx _ hsx hppx
          rw [hm] at hmx; injection hmx with hmx; subst hmx
          have := hS.apart hm hin hinx (hen s (by simp)) (hen x (List.mem_cons_of_mem _ hx))
          subst this
          exact hnd'.1 hx
        refine ⟨hS', by rw [mod.enums]; exact he, ?_, hpar, hapart, ?_⟩
        · intro x hx
          rw [enumOf_congr (w := w)]
          · exact hen x (List.mem_cons_of_mem _ hx)
          · have := congrArg (Option.map (·.kind)) (mod.core x)
            simpa [Option.map_map, Function.comp_def, SigE.core] using this
        · intro x hx m' msg' hpx hm'
          rw [hpar] at hpx
          rw [mod.msgs] at hm'
          rw [(mod.other hS hm hm' (hapart x hx m' hpx)).2]
          exact hwf x (List.mem_cons_of_mem _ hx) m' msg' hpx hm'
      constructor
      · intro w1 h1
        simp only [modifyRefs] at h1
        cases hmod : modifySize w s amount with
        | error er => rw [hmod] at h1; cases h1
        | ok w' =>
          rw [hmod] at h1
          simp only at h1
          have mod := modifySize_attached hS hs hp hm hwfm amount (by rw [hsize]; exact hpos) w' hmod
          rw [hsize] at mod
          obtain ⟨t1, t2, t3, t4, t5, t6⟩ := transfer w' mod
          have r := (ih w' t1 t2 t3 hnd'.2 t6).1 w1 h1
          refine ⟨r.types.trans mod.types, r.vals.trans mod.vals, r.enums.trans mod.enums,
            r.msgs.trans mod.msgs, fun i => (r.core i).trans (mod.core i), ?_, ?_⟩
          · intro i hi
            have h2 : w'.sigs.get i = w.sigs.get i := by
              apply mod.out
              intro hil
              obtain ⟨sgi, hsi, hpi, _⟩ := hS.layoutParent m msg i hm hil
              exact hi s (by simp) m hpo (by rw [parentOf_of_get hsi, hpi])
            rw [← h2]
            apply r.out
            intro x hx m' hpx
            rw [t4] at hpx ⊢
            exact hi x (List.mem_cons_of_mem _ hx) m' hpx
          · intro x hx m' msg' hpx hm'
            rcases List.mem_cons.1 hx with rfl | hx'
            · -- the message of the first signal: untouched by the later steps
              rw [hpo] at hpx; injection hpx with hpx; subst hpx
              rw [hm] at hm'; injection hm' with hm'; subst hm'
              have hsame : ∀ i ∈ msg.layout, w1.sigs.get i = w'.sigs.get i := by
                intro i hil
                apply r.out
                intro y hy m' hpy
                rw [t4] at hpy ⊢
                obtain ⟨sgi, hsi, hpi, _⟩ := hS.layoutParent m msg i hm hil
                rw [parentOf_of_get hsi, hpi]
                intro e'; injection e' with e'
                exact t5 y hy m' hpy e'.symm
              have hsl : slotsOf w1 msg.layout = slotsOf w' msg.layout := by
                apply slotsOf_congr
                intro i hil
                unfold slotAt
                rw [hsame i hil]
                cases w'.sigs.get i with
                | none => rfl
                | some sgi => simp [sizeOf_struct sgi r.types r.enums]
              rw [hsl]
              exact ⟨mod.idsize, mod.wf⟩
            · have hne := t5 x hx' m' hpx
              have hm'2 : w'.msgs.get m' = some msg' := by rw [mod.msgs]; exact hm'
              have := r.hit x hx' m' msg' (by rw [t4]; exact hpx) hm'2
              rw [(mod.other hS hm hm' hne).2] at this
              exact this
      · intro hv
        simp only [verifyRefs] at hv
        cases hv1 : verifySizeAmount w s amount with
        | error er => rw [hv1] at hv; cases hv
        | ok u =>
          rw [hv1] at hv
          simp only at hv
          obtain ⟨w', hmod⟩ := modifySize_ok_of_verify hS hs hp hm hwfm amount hv1
          have mod := modifySize_attached hS hs hp hm hwfm amount (by rw [hsize]; exact hpos) w' hmod
          rw [hsize] at mod
          obtain ⟨t1, t2, t3, t4, t5, t6⟩ := transfer w' mod
          have hv' : verifyRefs w' amount rest = .ok () := by
            rw [verifyRefs_congr amount rest, hv]
            intro x hx
            apply verifySizeAmount_congr mod.msgs x (mod.core x)
            · intro sg' sgx h1 h2
              obtain ⟨_, h3, _, hk3, _⟩ := core_get_some' (mod.core x) h1
              rw [h2] at h3; injection h3 with h3; subst h3
              rw [sizeOf_struct sg' mod.types mod.enums]
              exact sizeOf_kind w _ _ hk3
            · intro sgx m' msg' h1 h2 h3
              have hpx : parentOf w x = some m' := by rw [parentOf_of_get h1, h2]
              exact (mod.other hS hm h3 (t5 x hx m' hpx)).2
          obtain ⟨w1, h1⟩ := (ih w' t1 t2 t3 hnd'.2 t6).2 hv'
          refine ⟨w1, ?_⟩
          simp only [modifyRefs, hmod]
          exact h1

/-- the hypotheses of `modifyRefs_spec` for the whole reference list of an enum -/
theorem refs_hyps {w : W} (hS : InvS w) (hw : WFAll w) {e : Nat} {en : EnumE} (he : w.enums.get e = some en) :
    (∀ s ∈ en.refs, enumOf w s = some e) ∧ en.refs.Nodup ∧
    (∀ s ∈ en.refs, ∀ m msg, parentOf w s = some m → w.msgs.get m = some msg →
      WF msg.cap (slotsOf w msg.layout)) := by
  have := hS.enumRefs e en he
  exact ⟨fun s hs => (this.2 s).1 hs, this.1, fun _ _ m msg _ hm => hw m msg hm⟩

/-- no positions move and the size of the enum does not grow -/
theorem RefsOK.shrink {w : W} (_hS : InvS w) (hw : WFAll w) {e : Nat} {en : EnumE}
    (he : w.enums.get e = some en) {rs : List Nat} (hen : ∀ s ∈ rs, enumOf w s = some e)
    {newSize : Int} (h0 : 0 < newSize) (hle : newSize ≤ enumSizeOf en) : RefsOK w w rs newSize := by
  refine ⟨rfl, rfl, rfl, rfl, fun _ => rfl, fun _ _ => rfl, ?_⟩
  intro s hs m msg _ hm
  refine ⟨rfl, ?_⟩
  apply WFfrom_setSize_le s newSize _ 0 msg.cap (hw m msg hm)
  intro x hx hid
  obtain ⟨_, sg2, hs2, hx2⟩ := mem_slotsOf.1 hx
  obtain ⟨sg, hsg, hk⟩ := enumOf_kind_some (hen s hs)
  rw [hid, hsg] at hs2
  injection hs2 with hs2; subst hs2
  rw [hx2]
  simp only
  rw [sizeOf_enm hk he]
  exact ⟨h0, hle⟩

/-- `SignalEnum.modifySize(newSize)` -/
theorem enumModifySize_spec {w : W} (hS : InvS w) (hw : WFAll w) {e : Nat} {en : EnumE}
    (he : w.enums.get e = some en) (newSize : Int) (h0 : 0 < newSize) (w1 : W)
    (hok : enumModifySize w en newSize = some w1) : RefsOK w w1 en.refs newSize := by
  obtain ⟨r1, r2, r3⟩ := refs_hyps hS hw he
  unfold enumModifySize at hok
  simp only at hok
  split at hok
  · rename_i h0'
    injection hok with hok; subst hok
    exact RefsOK.shrink hS hw he r1 h0 (by omega)
  · split at hok
    · rename_i w' hmod
      injection hok with hok; subst hok
      have := (modifyRefs_spec e en (newSize - enumSizeOf en) (by omega) en.refs w hS he r1 r2 r3).1 w' hmod
      have e' : enumSizeOf en + (newSize - enumSizeOf en) = newSize := by omega
      rw [e'] at this
      exact this
    · cases hok

/-- an accepted enum size change never hits the `panic(err)` of `modifySize` -/
theorem enumModifySize_nopanic {w : W} (hS : InvS w) (hw : WFAll w) {e : Nat} {en : EnumE}
    (he : w.enums.get e = some en) (newSize : Int) (h0 : 0 < newSize)
    (hv : enumVerifySize w en newSize = .ok ()) : ∃ w1, enumModifySize w en newSize = some w1 := by
  obtain ⟨r1, r2, r3⟩ := refs_hyps hS hw he
  unfold enumVerifySize at hv
  unfold enumModifySize
  simp only at hv ⊢
  split
  · exact ⟨w, rfl⟩
  · rename_i hne
    rw [if_neg hne] at hv
    obtain ⟨w1, h1⟩ :=
      (modifyRefs_spec e en (newSize - enumSizeOf en) (by omega) en.refs w hS he r1 r2 r3).2 hv
    rw [h1]; exact ⟨w1, rfl⟩

set_option linter.unusedVariables false in
theorem enumVerifySize_nopanic (w : W) (en : EnumE) (newSize : Int) :
    enumVerifySize w en newSize ≠ .error .panic := by
  unfold enumVerifySize
  simp only
  split
  · intro h; cases h
  · generalize en.refs = rs
    induction rs with
    | nil => intro h; cases h
    | cons s rest ih =>
      unfold verifyRefs
      cases hv : verifySizeAmount w s (newSize - enumSizeOf en) with
      | error er =>
        simp only
        intro h; injection h with h; subst h
        exact verifySizeAmount_nopanic _ _ _ hv
      | ok u => exact ih

/-- well-formedness and freshness after an enum operation: the positions were adapted by
    `RefsOK`, then the enum entry takes its new size, then the referencing signals regenerate
    the filters of their messages -/
theorem wf_fresh_enum {w w1 w2 : W} (hS : InvS w) (hw : WFAll w) (hf : FreshAll w)
    {e : Nat} {en en' : EnumE} (he : w.enums.get e = some en) {newSize : Int}
    (hr : RefsOK w w1 en.refs newSize)
    (hsigs : w2.sigs = w1.sigs) (hmsgs : w2.msgs = w.msgs) (htypes : w2.types = w.types)
    (henums : ∀ x, x ≠ e → (w2.enums.get x).map enumSizeOf = (w.enums.get x).map enumSizeOf)
    (he2 : w2.enums.get e = some en') (hsz : enumSizeOf en' = newSize) :
    WFAll (regenSigs w2 en.refs) ∧ FreshAll (regenSigs w2 en.refs) := by
  have hrefs := hS.enumRefs e en he
  -- sizes of signals that do not reference `e` are unchanged
  have hsize : ∀ sg : SigE, sg.kind ≠ .enm e → sizeOf w2 sg = sizeOf w sg := by
    intro sg hk
    apply sizeOf_congr
    · intro t _; rw [htypes]
    · intro x hx
      apply henums
      intro e'; subst e'; exact hk hx
  -- layouts without a referencing signal: nothing changes
  have caseB : ∀ m msg, w.msgs.get m = some msg → (∀ s ∈ en.refs, s ∉ msg.layout) →
      ∀ i ∈ msg.layout, slotBeAt w2 i = slotBeAt w i := by
    intro m msg hm hno i hi
    obtain ⟨sgi, hsi, hpi, _⟩ := hS.layoutParent m msg i hm hi
    have hout : w1.sigs.get i = w.sigs.get i := by
      apply hr.out
      intro s hs m' hps
      rw [parentOf_of_get hsi, hpi]
      intro e'; injection e' with e'; subst e'
      obtain ⟨sgs, hss, hpps⟩ := parentOf_some hps
      obtain ⟨msg', hm', hin'⟩ := hS.parentLayout s sgs _ hss hpps
      rw [hm] at hm'; injection hm' with hm'; subst hm'
      exact hno s hs hin'
    apply slotBeAt_of_get
    · rw [hsigs, hout]
    · intro sg hg
      apply hsize
      intro hk
      have : enumOf w i = some e := enumOf_enm hg hk
      exact hno i ((hrefs.2 i).2 this) hi
  -- layouts with a referencing signal `s`
  have caseA : ∀ m msg s, w.msgs.get m = some msg → s ∈ en.refs → s ∈ msg.layout →
      slotsOf w2 msg.layout = setSize (slotsOf w1 msg.layout) s newSize ∧
      WF msg.cap (setSize (slotsOf w1 msg.layout) s newSize) ∧
      ∃ sg', w2.sigs.get s = some sg' ∧ sg'.parent = some m := by
    intro m msg s hm hs hin
    obtain ⟨sgs, hss, hps, _⟩ := hS.layoutParent m msg s hm hin
    have hes : enumOf w s = some e := (hrefs.2 s).1 hs
    obtain ⟨sgs1, hss1, _, hk1, hp1, _⟩ := core_get_some (hr.core s) hss
    have hks : sgs.kind = .enm e := by
      obtain ⟨sg0, h0, hk0⟩ := enumOf_kind_some hes
      rw [hss] at h0; injection h0 with h0; subst h0; exact hk0
    refine ⟨?_, (hr.hit s hs m msg (by rw [parentOf_of_get hss, hps]) hm).2,
      sgs1, by rw [hsigs]; exact hss1, by rw [hp1, hps]⟩
    apply slotsOf_resize
    · intro i hi his
      unfold slotAt
      rw [hsigs]
      cases hg : w1.sigs.get i with
      | none => rfl
      | some sgi1 =>
        obtain ⟨sgi, hgi, _, hki, _⟩ := core_get_some' (hr.core i) hg
        have hne : sgi1.kind ≠ .enm e := by
          rw [hki]
          intro hk
          exact his (hS.apart hm hi hin (enumOf_enm hgi hk) hes)
        have e1 : sizeOf w2 sgi1 = sizeOf w1 sgi1 := by
          rw [hsize sgi1 hne, sizeOf_struct sgi1 hr.types hr.enums]
        simp [e1]
    · unfold slotAt
      rw [hsigs, hss1]
      simp only [Option.map_some, Option.some.injEq, Slot.mk.injEq, true_and]
      unfold sizeOf
      rw [hk1, hks]
      simp only
      rw [he2]
      exact hsz
  constructor
  · intro m msg' h1
    obtain ⟨msg, h2, _, hc, hl, _⟩ := regenSigs_msgs_some h1
    rw [hmsgs] at h2
    rw [regenSigs_slotsOf, hc, hl]
    by_cases hex : ∃ s ∈ en.refs, s ∈ msg.layout
    · obtain ⟨s, hs, hin⟩ := hex
      obtain ⟨a1, a2, _⟩ := caseA m msg s h2 hs hin
      rw [a1]; exact a2
    · have hno : ∀ s ∈ en.refs, s ∉ msg.layout := fun s hs hin => hex ⟨s, hs, hin⟩
      rw [slotsOf_congr (fun i hi => slotAt_of_slotBeAt (caseB m msg h2 hno i hi))]
      exact hw m msg h2
  · intro m
    cases hm : w.msgs.get m with
    | none =>
      intro msg' h1
      obtain ⟨msg, h2, _⟩ := regenSigs_msgs_some h1
      rw [hmsgs, hm] at h2; cases h2
    | some msg =>
      by_cases hex : ∃ s ∈ en.refs, s ∈ msg.layout
      · obtain ⟨s, hs, hin⟩ := hex
        obtain ⟨_, _, sg', a3, a4⟩ := caseA m msg s hm hs hin
        exact regenSigs_fresh_parent hs a3 a4
      · have hno : ∀ s ∈ en.refs, s ∉ msg.layout := fun s hs hin => hex ⟨s, hs, hin⟩
        apply regenSigs_fresh_other
        intro msg2 h2
        rw [hmsgs, hm] at h2; injection h2 with h2; subst h2
        rw [slotsBe_congr (caseB m msg hm hno)]
        exact hf m msg hm

end Acme.Payload
