/-
The decode loop over the filter chain of each signal.
-/
import Acme.Proofs.BitsChain

namespace Acme.Bits
open Acme.Layout

/-- what the loop emits when it leaves the current signal -/
def emit (cur : Option Nat) (raw : Nat) : List (Nat × Nat) :=
  match cur with
  | none => []
  | some id => [(id, raw)]

theorem decodeLoop_nil (data : List Nat) (cur : Option Nat) (raw : Nat) (c : Int) :
    decodeLoop data [] cur raw c = some (emit cur raw) := by
  cases cur <;> rfl

/-- a filter of another signal closes the current one and restarts from zero -/
theorem decodeLoop_fresh (data : List Nat) (f : Filter) (rest : List Filter) (cur : Option Nat)
    (raw : Nat) (c : Int) (h : cur ≠ some f.id) :
    decodeLoop data (f :: rest) cur raw c =
      (decodeLoop data (f :: rest) (some f.id) 0 0).map (fun out => emit cur raw ++ out) := by
  simp only [decodeLoop, h, ne_eq, not_false_eq_true, not_true_eq_false, if_true, if_false]
  cases chunk data f with
  | none => rfl
  | some tmp =>
    simp only
    cases decodeLoop data rest (some f.id)
        (if (!f.be) = true then (0 ||| tmp <<< (0 : Int).toNat, 0 + f.length)
          else (0 <<< f.length.toNat ||| tmp, 0)).1
        (if (!f.be) = true then (0 ||| tmp <<< (0 : Int).toNat, 0 + f.length)
          else (0 <<< f.length.toNat ||| tmp, 0)).2 with
    | none => rfl
    | some out => cases cur <;> rfl

theorem decodeLoop_same (data : List Nat) (f : Filter) (rest : List Filter) (id raw : Nat)
    (c : Int) (tmp : Nat) (hid : f.id = id) (hch : chunk data f = some tmp) :
    decodeLoop data (f :: rest) (some id) raw c =
      if f.be then decodeLoop data rest (some id) ((raw <<< f.length.toNat) ||| tmp) c
      else decodeLoop data rest (some id) (raw ||| (tmp <<< c.toNat)) (c + f.length) := by
  subst hid
  cases hbe : f.be
  · simp only [decodeLoop, hch, hbe, ne_eq, not_true_eq_false, if_false, Bool.not_false, if_true]
    cases decodeLoop data rest (some f.id) (raw ||| tmp <<< c.toNat) (c + f.length) <;> rfl
  · simp only [decodeLoop, hch, hbe, ne_eq, not_true_eq_false, if_false, Bool.not_true,
      Bool.false_eq_true, if_true]
    cases decodeLoop data rest (some f.id) (raw <<< f.length.toNat ||| tmp) c <;> rfl

theorem chunk_good (data : List Nat) (be : Bool) (id pos len : Nat) (f : Filter)
    (hf : GoodF be id pos len f) (hlen : pos + len ≤ 8 * data.length) :
    chunk data f = some (if be then rawBE data pos len else rawLE data pos len) := by
  obtain ⟨k, lo, -, -, hk, -, hlo, h1, h8, hm, hpos⟩ := hf
  have hk' : k < data.length := by
    cases be <;> simp at hpos <;> omega
  have hget : data[k]? = some (data.getD k 0) := by
    rw [List.getD_eq_getElem?_getD, List.getElem?_eq_getElem hk']; rfl
  unfold chunk
  rw [hk, hlo, if_neg (by omega), Int.toNat_natCast, Int.toNat_natCast, hget]
  simp only
  rw [chunk_val _ _ _ _ hm]
  cases be
  · simp only [Bool.false_eq_true, if_false] at hpos ⊢
    rw [hpos, rawLE_local _ _ _ _ h8]
  · simp only [if_true] at hpos ⊢
    rw [hpos, rawBE_local _ _ _ _ (by omega)]
    have : 8 - (8 - lo - len) - len = lo := by omega
    rw [this]

theorem decode_chain_le (data : List Nat) (id : Nat) (more : List Filter) :
    ∀ (fs : List Filter) (pos tot : Nat), Chain false id pos fs tot →
      pos + tot ≤ 8 * data.length → ∀ (raw c : Nat), raw < 2 ^ c →
      decodeLoop data (fs ++ more) (some id) raw (c : Int) =
        decodeLoop data more (some id) (raw + 2 ^ c * rawLE data pos tot) ((c + tot : Nat) : Int) := by
  intro fs pos tot h
  induction h with
  | nil pos => intro _ raw c _; simp [rawLE]
  | @cons pos len f rest tot hf _ ih =>
    intro hlen raw c hraw
    have hch := chunk_good data false id pos len f hf (by omega)
    obtain ⟨k, lo, hid, hbe, -, hl, -⟩ := hf
    rw [List.cons_append, decodeLoop_same data f _ id raw c _ hid hch, hbe]
    simp only [Bool.false_eq_true, if_false]
    rw [hl, Int.toNat_natCast, or_shl_eq_add _ _ _ hraw,
      show (c : Int) + (len : Int) = ((c + len : Nat) : Int) by omega]
    have hlt : raw + 2 ^ c * rawLE data pos len < 2 ^ (c + len) := by
      have := rawLE_lt data pos len
      rw [Nat.pow_add]
      calc raw + 2 ^ c * rawLE data pos len < 2 ^ c + 2 ^ c * rawLE data pos len := by omega
        _ = 2 ^ c * (rawLE data pos len + 1) := by rw [Nat.mul_add, Nat.mul_one, Nat.add_comm]
        _ ≤ 2 ^ c * 2 ^ len := Nat.mul_le_mul_left _ this
    rw [ih (by omega) _ _ hlt, rawLE_add data pos len tot, Nat.pow_add, Nat.mul_add, Nat.mul_assoc,
      Nat.add_assoc, Nat.add_assoc]

theorem decode_chain_be (data : List Nat) (id : Nat) (more : List Filter) :
    ∀ (fs : List Filter) (pos tot : Nat), Chain true id pos fs tot →
      pos + tot ≤ 8 * data.length → ∀ (raw : Nat) (c : Int),
      decodeLoop data (fs ++ more) (some id) raw c =
        decodeLoop data more (some id) (raw * 2 ^ tot + rawBE data pos tot) c := by
  intro fs pos tot h
  induction h with
  | nil pos => intro _ raw c; simp [rawBE]
  | @cons pos len f rest tot hf _ ih =>
    intro hlen raw c
    have hch := chunk_good data true id pos len f hf (by omega)
    obtain ⟨k, lo, hid, hbe, -, hl, -⟩ := hf
    rw [List.cons_append, decodeLoop_same data f _ id raw c _ hid hch, hbe]
    simp only [if_true]
    rw [hl, Int.toNat_natCast, shl_or_eq_add _ _ _ (rawBE_lt data pos len), ih (by omega),
      rawBE_add data pos len tot, Nat.pow_add, Nat.add_mul, Nat.mul_assoc, Nat.add_assoc,
      Nat.mul_comm (rawBE data pos len)]

theorem Chain.ne_nil {be : Bool} {id pos tot : Nat} {fs : List Filter}
    (h : Chain be id pos fs tot) (ht : 1 ≤ tot) : ∃ f rest, fs = f :: rest ∧ f.id = id := by
  cases h with
  | nil => omega
  | cons hf _ =>
    obtain ⟨_, _, hid, _⟩ := hf
    exact ⟨_, _, rfl, hid⟩

theorem wfBits_le {lo cap : Int} {l : List Slot} (h : WFfrom lo cap l) : lo ≤ cap := by
  induction l generalizing lo with
  | nil => exact h
  | cons s rest ih =>
    obtain ⟨h1, h2, h3⟩ := h
    have := ih h3
    omega

/-- the raw value the specification prescribes -/
def rawOf (be : Bool) (data : List Nat) (s : Slot) : Nat :=
  if be then rawBE data s.start.toNat s.size.toNat else rawLE data s.start.toNat s.size.toNat

theorem decode_chain (data : List Nat) (be : Bool) (s : Slot) (more : List Filter)
    (hC : Chain be s.id s.start.toNat (sigFilters s be) s.size.toNat)
    (hlen : s.start.toNat + s.size.toNat ≤ 8 * data.length) :
    decodeLoop data (sigFilters s be ++ more) (some s.id) 0 0 =
      decodeLoop data more (some s.id) (rawOf be data s) (if be then 0 else (s.size.toNat : Int)) := by
  cases be
  · have := decode_chain_le data s.id more _ _ _ hC hlen 0 0 (by simp)
    simpa [rawOf] using this
  · have := decode_chain_be data s.id more _ _ _ hC hlen 0 0
    simpa [rawOf] using this

theorem decode_slots (n : Nat) (data : List Nat) (hd : DataOK n data) (be : Bool) :
    ∀ (l : List Slot) (lo : Int), 0 ≤ lo → WFfrom lo (8 * n) l → IdsNodup l →
      (be = true → ∀ s ∈ l, BeOK s) →
      ∀ (cur : Option Nat) (raw : Nat) (c : Int), (∀ s ∈ l, cur ≠ some s.id) →
      decodeLoop data (genFilters (l.map (fun s => (s, be)))) cur raw c =
        some (emit cur raw ++ l.map (fun s => (s.id, rawOf be data s))) := by
  intro l
  induction l with
  | nil =>
    intro lo _ _ _ _ cur raw c _
    simp [genFilters, decodeLoop_nil]
  | cons s rest ih =>
    intro lo hlo hwf hnd hok cur raw c hcur
    obtain ⟨h1, h2, h3⟩ := hwf
    have hcap := wfBits_le h3
    have hnd' : s.id ∉ rest.map (·.id) ∧ IdsNodup rest := by
      simpa [IdsNodup] using hnd
    have hC := chain_sigFilters s be (by omega) (by omega) (fun hb => hok hb s (by simp))
    have hlen : s.start.toNat + s.size.toNat ≤ 8 * data.length := by
      have := hd.1
      omega
    have hgen : genFilters ((s :: rest).map (fun s => (s, be))) =
        sigFilters s be ++ genFilters (rest.map (fun s => (s, be))) := by
      simp [genFilters]
    obtain ⟨f, fs, hfs, hfid⟩ := hC.ne_nil (by omega)
    rw [hgen]
    have hstep : decodeLoop data (sigFilters s be ++ genFilters (rest.map (fun s => (s, be)))) cur raw c =
        (decodeLoop data (sigFilters s be ++ genFilters (rest.map (fun s => (s, be)))) (some s.id) 0 0).map
          (fun out => emit cur raw ++ out) := by
      rw [hfs, List.cons_append, ← hfid]
      apply decodeLoop_fresh
      rw [hfid]
      exact hcur s (by simp)
    rw [hstep, decode_chain data be s _ hC hlen,
      ih (s.start + s.size) (by omega) h3 hnd'.2 (fun hb t ht => hok hb t (by simp [ht]))]
    · simp [emit]
    · intro t ht heq
      apply hnd'.1
      simp only [Option.some.injEq] at heq
      rw [heq]
      exact List.mem_map_of_mem ht

theorem decode_le (n : Nat) (l : List Slot) (hwf : WF (8 * n) l) (hn : IdsNodup l)
    (_h64 : ∀ s ∈ l, s.size ≤ 64) (data : List Nat) (hd : DataOK n data) :
    decodeRaw (genFilters (l.map (fun s => (s, false)))) data =
      some (l.map (fun s => (s.id, rawLE data s.start.toNat s.size.toNat))) := by
  have := decode_slots n data hd false l 0 (by omega) hwf hn (by simp) none 0 0 (by simp)
  simpa [decodeRaw, emit, rawOf] using this

theorem decode_be (n : Nat) (l : List Slot) (hwf : WF (8 * n) l) (hn : IdsNodup l)
    (_h64 : ∀ s ∈ l, s.size ≤ 64) (hok : ∀ s ∈ l, BeOK s) (data : List Nat) (hd : DataOK n data) :
    decodeRaw (genFilters (l.map (fun s => (s, true)))) data =
      some (l.map (fun s => (s.id, rawBE data s.start.toNat s.size.toNat))) := by
  have := decode_slots n data hd true l 0 (by omega) hwf hn (fun _ => hok) none 0 0 (by simp)
  simpa [decodeRaw, emit, rawOf] using this

end Acme.Bits
