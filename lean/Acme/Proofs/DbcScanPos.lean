/-
Positions of the scanner model: the position bookkeeping of `step` agrees with the independent
definitions `lineAt` / `colAt` of `Acme.Spec.DbcScan`; the tokens of a scan tile the input.
-/
import Acme.Proofs.DbcScanBasic

namespace Acme.Dbc.Scan


/-- the scanner's current position after `n` runes -/
def posAfter (rs : List Char) (n : Nat) : Pos := (rs.take n).foldl Pos.adv ⟨1, 0⟩

def colSum (l : List Char) : Nat := ((l.reverse.takeWhile (· != '\n')).map runeWidth).sum

theorem foldl_adv_reverse (r : List Char) :
    r.reverse.foldl Pos.adv ⟨1, 0⟩ = ⟨1 + r.count '\n', ((r.takeWhile (· != '\n')).map runeWidth).sum⟩ := by
  induction r with
  | nil => rfl
  | cons c r ih =>
    rw [List.reverse_cons, List.foldl_append, ih]
    simp only [List.foldl_cons, List.foldl_nil, Pos.adv]
    by_cases h : c = '\n'
    · subst h; simp [List.count_cons]; omega
    · by_cases ht : c = '\t'
      · subst ht
        simp [List.count_cons, runeWidth]; omega
      · simp [h, ht, List.count_cons, runeWidth, List.takeWhile_cons]
        omega

theorem foldl_adv (l : List Char) :
    l.foldl Pos.adv ⟨1, 0⟩ = ⟨1 + l.count '\n', colSum l⟩ := by
  have := foldl_adv_reverse l.reverse
  simpa [colSum] using this

theorem posAfter_succ (rs : List Char) (i : Nat) (h : i < rs.length) (hn : rs[i] ≠ '\n') :
    posAfter rs (i + 1) = ⟨lineAt rs i, colAt rs i⟩ := by
  unfold posAfter
  rw [foldl_adv]
  simp only [lineAt, colAt, colSum, Pos.mk.injEq, and_true]
  rw [List.take_succ_eq_append_getElem h, List.count_append]
  have : List.count '\n' [rs[i]] = 0 := by simp [List.count_cons, hn]
  omega

theorem posAfter_step (rs : List Char) (i : Nat) (h : i < rs.length) :
    posAfter rs (i + 1) = (posAfter rs i).adv rs[i] := by
  unfold posAfter
  rw [List.take_succ_eq_append_getElem h, List.foldl_append]
  rfl

theorem Pos.lt_adv (p : Pos) (c : Char) : Pos.lt p (p.adv c) := by
  unfold Pos.adv Pos.lt
  split
  · left; simp
  · split <;> (right; simp)

theorem Pos.lt_trans {p q r : Pos} (h1 : Pos.lt p q) (h2 : Pos.lt q r) : Pos.lt p r := by
  unfold Pos.lt at *
  omega

theorem posAfter_lt (rs : List Char) (i : Nat) : ∀ k, i + k + 1 ≤ rs.length →
    Pos.lt (posAfter rs i) (posAfter rs (i + k + 1)) := by
  intro k
  induction k with
  | zero =>
    intro h
    rw [posAfter_step rs i (by omega)]
    exact Pos.lt_adv _ _
  | succ k ih =>
    intro h
    have := ih (by omega)
    show Pos.lt (posAfter rs i) (posAfter rs ((i + k + 1) + 1))
    rw [posAfter_step rs (i + k + 1) (by omega)]
    exact Pos.lt_trans this (Pos.lt_adv _ _)

theorem posAfter_lt' (rs : List Char) (i j : Nat) (hij : i < j) (hj : j ≤ rs.length) :
    Pos.lt (posAfter rs i) (posAfter rs j) := by
  have := posAfter_lt rs i (j - i - 1) (by omega)
  have e : i + (j - i - 1) + 1 = j := by omega
  rwa [e] at this

/-! ## the invariant of the scan loop -/

structure Inv (items : List Item) (s : St) : Prop where
  off_le : s.off ≤ items.length
  inp_eq : s.inp = items.drop s.off
  cur_eq : s.cur = posAfter (rds items) s.off

/-- what `step` guarantees for the token it emits (`rs` = the runes of the whole input) -/
structure TokGood (rs : List Char) (t : PTok) : Prop where
  len_eq : t.len = t.raw.length
  in_range : t.off + t.len ≤ rs.length
  raw_eq : t.raw = (rs.drop t.off).take t.len
  pos_eq : t.raw ≠ [] → t.pos = posAfter rs (t.off + 1)
  space : ∀ c, t.raw.head? = some c → isSpace c = true → t.kind = .space
  eof_of_nil : t.raw = [] → t.kind = .eof
  nil_off : t.raw = [] → t.off = rs.length
  nil_pos : t.raw = [] → t.pos = endPos rs

/-- the tokens are contiguous from offset `n` on -/
def Chain : Nat → List PTok → Prop
  | _, [] => True
  | n, t :: ts => t.off = n ∧ Chain (n + t.len) ts

theorem inv_init (items : List Item) : Inv items { inp := items } :=
  ⟨Nat.zero_le _, by simp, by simp [posAfter]⟩

theorem step_spec (items : List Item) (s : St) (hI : Inv items s) :
    Inv items (step s).2 ∧ TokGood (rds items) (step s).1 ∧ (step s).1.off = s.off ∧
    (step s).2.off = s.off + (step s).1.len := by
  obtain ⟨used, h1, h2⟩ := scanTok_consumes s.inp
  simp only [List.nil_append] at h2
  have hdrop : items.drop s.off = used ++ (scanTok s.inp).rest := by rw [← hI.inp_eq]; exact h1
  have hlen : used.length + (scanTok s.inp).rest.length = items.length - s.off := by
    have := congrArg List.length hdrop
    simp at this; omega
  have hrs : (rds items).drop s.off = (scanTok s.inp).raw ++ rds (scanTok s.inp).rest := by
    rw [h2, ← rds_append, ← hdrop]; simp [rds, List.map_drop]
  have hrawlen : (scanTok s.inp).raw.length = used.length := by rw [h2, rds_length]
  have hoff := hI.off_le
  refine ⟨⟨?_, ?_, ?_⟩, ⟨rfl, ?_, ?_, ?_, ?_, ?_, ?_, ?_⟩, rfl, rfl⟩
  · show s.off + (scanTok s.inp).raw.length ≤ items.length
    omega
  · show (scanTok s.inp).rest = items.drop (s.off + (scanTok s.inp).raw.length)
    rw [← List.drop_drop, hdrop, hrawlen]; simp
  · show List.foldl Pos.adv s.cur (scanTok s.inp).raw =
      posAfter (rds items) (s.off + (scanTok s.inp).raw.length)
    rw [hI.cur_eq, posAfter, posAfter, ← List.foldl_append, List.take_add, hrs]
    simp
  · show s.off + (scanTok s.inp).raw.length ≤ (rds items).length
    rw [rds_length]; omega
  · show (scanTok s.inp).raw = ((rds items).drop s.off).take (scanTok s.inp).raw.length
    rw [hrs]; simp
  · intro hne
    show (match (scanTok s.inp).raw with
      | [] => (⟨s.cur.line, s.cur.col + 1⟩ : Pos)
      | c :: _ => s.cur.adv c) = posAfter (rds items) (s.off + 1)
    cases hr : (scanTok s.inp).raw with
    | nil => exact absurd hr hne
    | cons c cs =>
      simp only []
      rw [hI.cur_eq, posAfter, posAfter, List.take_add, hrs, hr, List.foldl_append]
      simp
  · intro c hc hsp
    show (scanTok s.inp).kind = .space
    replace hc : (scanTok s.inp).raw.head? = some c := hc
    cases hi : s.inp with
    | nil => rw [hi, scanTok_nil] at hc; simp at hc
    | cons it rest =>
      rw [hi, scanTok_raw_head] at hc
      simp only [Option.some.injEq] at hc
      exact scanTok_space it rest (hc ▸ hsp)
  · intro hnil
    show (scanTok s.inp).kind = .eof
    replace hnil : (scanTok s.inp).raw = [] := hnil
    cases hi : s.inp with
    | nil => rfl
    | cons it rest => rw [hi] at hnil; exact absurd hnil (scanTok_raw_ne_nil it rest)
  · intro hnil
    replace hnil : (scanTok s.inp).raw = [] := hnil
    show s.off = (rds items).length
    have hu : used = [] := by
      have := hrawlen; rw [hnil] at this; simpa using this.symm
    cases hi : s.inp with
    | nil =>
      have := congrArg List.length hI.inp_eq
      rw [hi] at this; simp at this
      rw [rds_length]; omega
    | cons it rest => rw [hi] at hnil; exact absurd hnil (scanTok_raw_ne_nil it rest)
  · intro hnil
    replace hnil : (scanTok s.inp).raw = [] := hnil
    show (match (scanTok s.inp).raw with
      | [] => (⟨s.cur.line, s.cur.col + 1⟩ : Pos)
      | c :: _ => s.cur.adv c) = endPos (rds items)
    rw [hnil]
    simp only []
    have hoffl : s.off = items.length := by
      cases hi : s.inp with
      | nil =>
        have := congrArg List.length hI.inp_eq
        rw [hi] at this; simp at this; omega
      | cons it rest => rw [hi] at hnil; exact absurd hnil (scanTok_raw_ne_nil it rest)
    rw [hI.cur_eq, posAfter, hoffl, ← rds_length items, List.take_length, foldl_adv]
    simp [endPos, colSum, Nat.add_comm]

theorem scanFuel_spec (items : List Item) (fuel : Nat) : ∀ (s : St) (ts : List PTok),
    Inv items s → scanFuel fuel s = some ts →
    (∀ t ∈ ts, TokGood (rds items) t) ∧ Chain s.off ts := by
  induction fuel with
  | zero => intro s ts _ h; simp [scanFuel] at h
  | succ fuel ih =>
    intro s ts hI h
    obtain ⟨hI', hg, ho, ho'⟩ := step_spec items s hI
    unfold scanFuel at h
    simp only [] at h
    split at h
    · simp only [Option.some.injEq] at h
      subst h
      exact ⟨by simpa using hg, ho, trivial⟩
    · rw [Option.map_eq_some_iff] at h
      obtain ⟨ts', h', rfl⟩ := h
      obtain ⟨hall, hch⟩ := ih _ ts' hI' h'
      refine ⟨?_, ho, ?_⟩
      · intro t ht
        rcases List.mem_cons.mp ht with rfl | ht
        · exact hg
        · exact hall t ht
      · rw [ho'] at hch
        exact hch

/-- the output of the scan loop: every token before the last is neither `eof` nor `error`, the
last one is -/
theorem scanFuel_shape (fuel : Nat) : ∀ (s : St) (ts : List PTok), scanFuel fuel s = some ts →
    ∃ pre t, ts = pre ++ [t] ∧ (t.kind = .eof ∨ t.kind = .error) ∧
      ∀ u ∈ pre, u.kind ≠ .eof ∧ u.kind ≠ .error := by
  induction fuel with
  | zero => intro s ts h; simp [scanFuel] at h
  | succ fuel ih =>
    intro s ts h
    unfold scanFuel at h
    simp only [] at h
    split at h
    · rename_i hk
      simp only [Option.some.injEq] at h
      subst h
      refine ⟨[], (step s).1, rfl, ?_, by simp⟩
      simpa using hk
    · rename_i hk
      rw [Option.map_eq_some_iff] at h
      obtain ⟨ts', h', rfl⟩ := h
      obtain ⟨pre, t, rfl, ht, hpre⟩ := ih _ ts' h'
      refine ⟨(step s).1 :: pre, t, rfl, ht, ?_⟩
      intro u hu
      rcases List.mem_cons.mp hu with rfl | hu
      · simpa using hk
      · exact hpre u hu

theorem chain_lower (ts : List PTok) : ∀ (n : Nat), Chain n ts → ∀ t ∈ ts, n ≤ t.off := by
  induction ts with
  | nil => intro n _ t ht; simp at ht
  | cons a ts ih =>
    intro n h t ht
    obtain ⟨h1, h3⟩ := h
    rcases List.mem_cons.mp ht with rfl | ht
    · omega
    · have := ih _ h3 t ht; omega

theorem chain_pairwise (ts : List PTok) : ∀ (n : Nat), Chain n ts →
    ts.Pairwise (fun a b => a.off + a.len ≤ b.off) := by
  induction ts with
  | nil => intro n _; exact List.Pairwise.nil
  | cons a ts ih =>
    intro n h
    obtain ⟨h1, h3⟩ := h
    refine List.Pairwise.cons ?_ (ih _ h3)
    intro b hb
    have := chain_lower ts _ h3 b hb
    omega

/-- the end of the text lies behind every rune: `endPos` is above the position of any token -/
theorem posAfter_lt_endPos (rs : List Char) (i : Nat) (h : i ≤ rs.length) :
    Pos.lt (posAfter rs i) (endPos rs) := by
  have hend : Pos.lt (posAfter rs rs.length) (endPos rs) := by
    rw [posAfter, List.take_length, foldl_adv]
    right
    exact ⟨rfl, by simp [endPos, colSum]⟩
  by_cases he : i = rs.length
  · rw [he]; exact hend
  · exact Pos.lt_trans (posAfter_lt' rs i rs.length (by omega) (Nat.le_refl _)) hend

end Acme.Dbc.Scan
