import Acme.Core.Det
namespace Acme.Det

/-! ### Generic lexicographic comparator facts -/

/-- the shape shared by `leInt` and `leStr` -/
private def leGen {κ : Type} [LT κ] [DecidableRel (α := κ) (· < ·)] (a b : Ent κ) : Bool :=
  if a.key < b.key then true else if b.key < a.key then false else decide (a.id ≤ b.id)

/-- strict-linear-order facts about the key type, as plain hypotheses -/
private structure KeyOrd (κ : Type) [LT κ] : Prop where
  irrefl : ∀ a : κ, ¬ a < a
  trans : ∀ a b c : κ, a < b → b < c → a < c
  tri : ∀ a b : κ, ¬ a < b → ¬ b < a → a = b

private theorem leGen_iff {κ : Type} [LT κ] [DecidableRel (α := κ) (· < ·)] (ho : KeyOrd κ)
    (a b : Ent κ) :
    leGen a b = true ↔ a.key < b.key ∨ (a.key = b.key ∧ a.id ≤ b.id) := by
  unfold leGen
  by_cases h1 : a.key < b.key
  · simp [h1]
  · by_cases h2 : b.key < a.key
    · have hne : a.key ≠ b.key := by
        intro he
        rw [he] at h2
        exact ho.irrefl _ h2
      simp [h1, h2, hne]
    · have he : a.key = b.key := ho.tri _ _ h1 h2
      have hirr := ho.irrefl b.key
      simp [he, hirr]

private theorem leGen_trans {κ : Type} [LT κ] [DecidableRel (α := κ) (· < ·)] (ho : KeyOrd κ)
    (a b c : Ent κ) (hab : leGen a b = true) (hbc : leGen b c = true) : leGen a c = true := by
  rw [leGen_iff ho] at *
  rcases hab with h | ⟨he, hi⟩
  · rcases hbc with h' | ⟨he', _⟩
    · exact Or.inl (ho.trans _ _ _ h h')
    · exact Or.inl (he' ▸ h)
  · rcases hbc with h' | ⟨he', hi'⟩
    · exact Or.inl (he ▸ h')
    · exact Or.inr ⟨he.trans he', String.le_trans hi hi'⟩

private theorem leGen_total {κ : Type} [LT κ] [DecidableRel (α := κ) (· < ·)] (ho : KeyOrd κ)
    (a b : Ent κ) : (leGen a b || leGen b a) = true := by
  rw [Bool.or_eq_true, leGen_iff ho, leGen_iff ho]
  by_cases h1 : a.key < b.key
  · exact Or.inl (Or.inl h1)
  · by_cases h2 : b.key < a.key
    · exact Or.inr (Or.inl h2)
    · have he : a.key = b.key := ho.tri _ _ h1 h2
      rcases String.le_total a.id b.id with h | h
      · exact Or.inl (Or.inr ⟨he, h⟩)
      · exact Or.inr (Or.inr ⟨he.symm, h⟩)

private theorem leGen_antisymm_id {κ : Type} [LT κ] [DecidableRel (α := κ) (· < ·)]
    (ho : KeyOrd κ) (a b : Ent κ) (hab : leGen a b = true) (hba : leGen b a = true) :
    a.id = b.id := by
  rw [leGen_iff ho] at *
  rcases hab with h | ⟨he, hi⟩
  · rcases hba with h' | ⟨he', _⟩
    · exact absurd (ho.trans _ _ _ h h') (ho.irrefl _)
    · rw [he'] at h
      exact absurd h (ho.irrefl _)
  · rcases hba with h' | ⟨_, hi'⟩
    · rw [he] at h'
      exact absurd h' (ho.irrefl _)
    · exact String.le_antisymm hi hi'

/-- elements of a list whose ids are pairwise different are determined by their id -/
private theorem eq_of_id_eq {κ : Type} :
    ∀ (l : List (Ent κ)), (l.map (·.id)).Nodup → ∀ a ∈ l, ∀ b ∈ l, a.id = b.id → a = b
  | [], _, a, ha, _, _, _ => by cases ha
  | x :: xs, hnd, a, ha, b, hb, hid => by
    rw [List.map_cons, List.nodup_cons] at hnd
    obtain ⟨hx, hxs⟩ := hnd
    rcases List.mem_cons.mp ha with rfl | ha'
    · rcases List.mem_cons.mp hb with rfl | hb'
      · rfl
      · exact absurd (hid ▸ List.mem_map_of_mem (f := (·.id)) hb') hx
    · rcases List.mem_cons.mp hb with rfl | hb'
      · exact absurd (hid ▸ List.mem_map_of_mem (f := (·.id)) ha') hx
      · exact eq_of_id_eq xs hxs a ha' b hb' hid

private theorem any_sort_gen {κ : Type} [LT κ] [DecidableRel (α := κ) (· < ·)] (ho : KeyOrd κ)
    (l s : List (Ent κ)) (hid : (l.map (·.id)).Nodup) (hp : s.Perm l)
    (hs : s.Pairwise (fun a b => leGen a b = true)) :
    s = l.mergeSort leGen := by
  have hm : (l.mergeSort leGen).Pairwise (fun a b => leGen a b = true) :=
    List.pairwise_mergeSort (leGen_trans ho) (leGen_total ho) l
  have hpm : s.Perm (l.mergeSort leGen) := hp.trans (List.mergeSort_perm l leGen).symm
  refine List.Perm.eq_of_pairwise ?_ hs hm hpm
  intro a b ha hb hab hba
  have ha' : a ∈ l := hp.mem_iff.mp ha
  have hb' : b ∈ l := (List.mergeSort_perm l leGen).mem_iff.mp hb
  exact eq_of_id_eq l hid a ha' b hb' (leGen_antisymm_id ho a b hab hba)

private theorem mergeSort_perm_gen {κ : Type} [LT κ] [DecidableRel (α := κ) (· < ·)]
    (ho : KeyOrd κ) (l₁ l₂ : List (Ent κ)) (hp : l₁.Perm l₂) (hid : (l₁.map (·.id)).Nodup) :
    l₁.mergeSort leGen = l₂.mergeSort leGen := by
  have hid₂ : (l₂.map (·.id)).Nodup := (hp.map (·.id)).nodup_iff.mp hid
  refine any_sort_gen ho l₂ _ hid₂ ((List.mergeSort_perm l₁ leGen).trans hp) ?_
  exact List.pairwise_mergeSort (leGen_trans ho) (leGen_total ho) l₁

/-! ### Instances of the key order -/

private theorem keyOrd_int : KeyOrd Int where
  irrefl := fun a => Int.lt_irrefl a
  trans := fun _ _ _ h h' => Int.lt_trans h h'
  tri := fun a b h1 h2 => by omega

private theorem keyOrd_str : KeyOrd String where
  irrefl := String.lt_irrefl
  trans := fun _ _ _ h h' => String.lt_trans h h'
  tri := fun _ _ h1 h2 => String.le_antisymm (String.not_lt.mp h2) (String.not_lt.mp h1)

private theorem leInt_eq : leInt = leGen := rfl
private theorem leStr_eq : leStr = leGen := rfl

/-! ### Exported lemmas (used by `Acme.Props.C15`) -/

theorem any_sort_int (l s : List (Ent Int)) (hid : (l.map (·.id)).Nodup) (hp : s.Perm l)
    (hs : s.Pairwise (fun a b => leInt a b = true)) :
    s = l.mergeSort leInt := by
  rw [leInt_eq] at *
  exact any_sort_gen keyOrd_int l s hid hp hs

theorem any_sort_str (l s : List (Ent String)) (hid : (l.map (·.id)).Nodup) (hp : s.Perm l)
    (hs : s.Pairwise (fun a b => leStr a b = true)) :
    s = l.mergeSort leStr := by
  rw [leStr_eq] at *
  exact any_sort_gen keyOrd_str l s hid hp hs

theorem exportInt_perm {α : Sort _} (render : List (Ent Int) → α) (l₁ l₂ : List (Ent Int))
    (hp : l₁.Perm l₂) (hid : (l₁.map (·.id)).Nodup) :
    exportInt render l₁ = exportInt render l₂ := by
  unfold exportInt
  rw [leInt_eq, mergeSort_perm_gen keyOrd_int l₁ l₂ hp hid]

theorem exportStr_perm {α : Sort _} (render : List (Ent String) → α) (l₁ l₂ : List (Ent String))
    (hp : l₁.Perm l₂) (hid : (l₁.map (·.id)).Nodup) :
    exportStr render l₁ = exportStr render l₂ := by
  unfold exportStr
  rw [leStr_eq, mergeSort_perm_gen keyOrd_str l₁ l₂ hp hid]

theorem tiebreak_needed :
    ∃ l₁ l₂ : List (Ent Int), l₁.Perm l₂ ∧
      l₁.mergeSort (fun a b => decide (a.key ≤ b.key)) ≠
        l₂.mergeSort (fun a b => decide (a.key ≤ b.key)) :=
  ⟨[⟨1, "a", 0⟩, ⟨1, "b", 1⟩], [⟨1, "b", 1⟩, ⟨1, "a", 0⟩], List.Perm.swap _ _ _, by
    rw [List.mergeSort_of_pairwise (by decide), List.mergeSort_of_pairwise (by decide)]
    decide⟩

end Acme.Det
