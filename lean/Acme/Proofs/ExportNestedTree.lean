/-
C11 at message level, nested multiplexers, part 2: what `exportMultiplexerSignal` writes for a
multiplexer that holds nested ones, as ONE list `Dn` of (owner, child as seen) pairs in the order
of the file (depth first).  The signals are described up to their switch values (`eraseSw`): the
statement `Signals[len-1].MuxSwitchValue = id` (`patchLast`) rewrites them, and the importer does
not read them in the case "several multiplexors".
-/
import Acme.Spec.ExportImportNested
import Acme.Proofs.ExportNestedBasic

namespace Acme.Import
open Acme.Layout Acme.Conv Acme.Arith

def eraseSw (s : DSig) : DSig := { s with muxSwitch := 0 }

/-- the multiplexor signal of `n` (`muxed`: `n` is nested) -/
def headSig (be : Bool) (muxed : Bool) (n : MuxNode) : DSig :=
  { name := n.name, start := fileStart be n.start, size := n.selW.toNat, bigEndian := be,
    isMultiplexor := true, isMultiplexed := muxed }

/-- a plain child of `n`, switch value erased -/
def kidSig0 (be : Bool) (n : MuxNode) (c : Child) : DSig :=
  { name := c.name, start := fileStart be (n.start + n.selW + c.rel), size := c.size.toNat,
    bigEndian := be, isMultiplexed := true }

abbrev DEntry := MuxNode × (Child × Int)

/-- every child at every depth below `n`, with its owner, in the order of the file -/
def Dn (N : List MuxNode) : Nat → MuxNode → List DEntry
  | 0, _ => []
  | f + 1, n => (seenChildren n).flatMap (fun p =>
      (n, p) :: match subOf N p.1 with
        | some sub => Dn N f sub
        | none => [])

def sigOfD (be : Bool) (N : List MuxNode) (d : DEntry) : DSig :=
  match subOf N d.2.1 with
  | some sub => headSig be true sub
  | none => kidSig0 be d.1 d.2.1

def extOfD (d : DEntry) : DExt := extN d.1 d.2.1

/-- the SG_MUL_VAL_ entries in the order of the file: nested multiplexers first -/
def XS (N : List MuxNode) : Nat → MuxNode → List DExt
  | 0, _ => []
  | f + 1, n =>
    (seenChildren n).flatMap (fun p =>
      match subOf N p.1 with
      | some sub => XS N f sub
      | none => []) ++ (seenChildren n).map (fun p => extN n p.1)

/-- the tree below `n` as the proofs use it -/
def Tree (be : Bool) (N : List MuxNode) : Nat → MuxNode → Prop
  | 0, _ => False
  | f + 1, n => MuxOKN n ∧ 0 ≤ n.start ∧ ∀ c ∈ n.children, c.isMux = true →
      ∃ sub, findNode N c.name = some sub ∧ c.size = sub.groupSize + sub.selW ∧
        sub.start = n.start + n.selW + c.rel ∧ fileStart be n.start < fileStart be sub.start ∧
        Tree be N f sub

theorem below_eq_Dn (N : List MuxNode) : ∀ (f : Nat) (n : MuxNode),
    below N f n = (Dn N f n).filterMap (fun d => subOf N d.2.1)
  | 0, _ => rfl
  | f + 1, n => by
    simp only [below, Dn, List.filterMap_flatMap]
    apply List.flatMap_congr
    intro p _
    cases hs : subOf N p.1 with
    | none => simp [hs]
    | some sub => simp [hs, below_eq_Dn N f sub]

theorem tree_of (be : Bool) (N : List MuxNode) : ∀ (f : Nat) (n : MuxNode), LinkedN be N f n → 0 ≤ n.start →
    (∀ m ∈ n :: below N f n, (m.children.map (·.name)).Nodup) → Tree be N f n
  | 0, _, h, _, _ => h
  | f + 1, n, h, h0, hn => by
    obtain ⟨hs, hl⟩ := h
    have hok := muxOKN_of n hs (hn n (List.mem_cons_self ..))
    refine ⟨hok, h0, ?_⟩
    intro c hc hm
    have := hl c hc hm
    cases hf : findNode N c.name with
    | none => rw [hf] at this; exact this.elim
    | some sub =>
      rw [hf] at this
      obtain ⟨a, b, d, e⟩ := this
      refine ⟨sub, rfl, a, b, d, ?_⟩
      apply tree_of be N f sub e
      · obtain ⟨r0, _⟩ := child_boundsN n hok c hc
        have := hok.w1
        omega
      · intro m hmm
        apply hn m
        apply List.mem_cons_of_mem
        obtain ⟨p, hp, hp1⟩ := List.mem_map.1 ((seen_memN n hok c).2 hc)
        simp only [below]
        refine List.mem_flatMap.2 ⟨p, hp, ?_⟩
        have hsub : subOf N p.1 = some sub := by rw [hp1]; simp [subOf, hm, hf]
        rw [hsub]
        exact hmm

/-! ### the loops of the exporter -/

theorem map_erase_patchLast (id : Nat) : ∀ l : List DSig, (patchLast id l).map eraseSw = l.map eraseSw
  | [] => rfl
  | [_] => rfl
  | s :: s' :: r => by
    simp only [patchLast, List.map_cons]
    have := map_erase_patchLast id (s' :: r)
    simp only [List.map_cons] at this
    rw [this]

theorem exportKidsN_eq (be : Bool) (N : List MuxNode) (rec : MuxNode → List DSig × List DExt) (n : MuxNode)
    (RS : MuxNode → List DSig) (RX : MuxNode → List DExt) :
    ∀ (ps : List (Child × Int)) (sigs : List DSig) (exts : List DExt),
    (∀ p ∈ ps, p.1.isMux = true → ∃ sub, findNode N p.1.name = some sub ∧
      (rec sub).1.map eraseSw = RS sub ∧ (rec sub).2 = RX sub) →
    (exportKidsN be N rec n ps sigs exts).1.map eraseSw = sigs.map eraseSw ++ ps.flatMap (fun p =>
        match subOf N p.1 with
        | some sub => RS sub
        | none => [kidSig0 be n p.1]) ∧
    (exportKidsN be N rec n ps sigs exts).2 = exts ++ ps.flatMap (fun p =>
        match subOf N p.1 with
        | some sub => RX sub
        | none => [])
  | [], sigs, exts, _ => by simp [exportKidsN]
  | (c, id) :: r, sigs, exts, h => by
    have hr := fun p hp => h p (List.mem_cons_of_mem _ hp)
    by_cases hm : c.isMux = true
    · obtain ⟨sub, hf, h1, h2⟩ := h (c, id) (List.mem_cons_self ..) hm
      have hsub : subOf N c = some sub := by simp [subOf, hm, hf]
      have ih := exportKidsN_eq be N rec n RS RX r (patchLast id.toNat (sigs ++ (rec sub).1)) (exts ++ (rec sub).2) hr
      simp only [exportKidsN, hm, if_true, hf, List.flatMap_cons, hsub]
      rw [ih.1, ih.2, map_erase_patchLast, List.map_append, h1, h2]
      simp [List.append_assoc]
    · have hm' : c.isMux = false := by simpa using hm
      have hsub : subOf N c = none := by simp [subOf, hm']
      have ih := fun s => exportKidsN_eq be N rec n RS RX r s exts hr
      simp only [exportKidsN, hm', Bool.false_eq_true, if_false, List.flatMap_cons, hsub]
      rw [(ih _).1, (ih _).2, List.map_append]
      simp only [List.map_cons, List.map_nil, List.append_assoc, List.cons_append, List.nil_append, List.append_nil]
      constructor
      · rfl
      · trivial

theorem Dn_map_sig (be : Bool) (N : List MuxNode) (f : Nat) (n : MuxNode) :
    (Dn N (f + 1) n).map (sigOfD be N) = (seenChildren n).flatMap (fun p =>
      match subOf N p.1 with
      | some sub => headSig be true sub :: (Dn N f sub).map (sigOfD be N)
      | none => [kidSig0 be n p.1]) := by
  simp only [Dn, List.map_flatMap]
  apply List.flatMap_congr
  intro p _
  cases hs : subOf N p.1 with
  | none => simp [sigOfD, hs]
  | some sub => simp [sigOfD, hs]

theorem exportMuxN_eq (be : Bool) (N : List MuxNode) : ∀ (f : Nat) (muxed : Bool) (n : MuxNode), Tree be N f n →
    (exportMuxN be N f muxed n).1.map eraseSw = headSig be muxed n :: (Dn N f n).map (sigOfD be N) ∧
    ((muxed || (seenChildren n).any (fun q => q.1.isMux)) = true → (exportMuxN be N f muxed n).2 = XS N f n)
  | 0, _, _, h => h.elim
  | f + 1, muxed, n, h => by
    obtain ⟨hok, _, hl⟩ := h
    have hkids := exportKidsN_eq be N (exportMuxN be N f true) n
      (fun sub => headSig be true sub :: (Dn N f sub).map (sigOfD be N)) (XS N f)
      (seenChildren n)
      [{ name := n.name, start := fileStart be n.start, size := n.selW.toNat, bigEndian := be,
         isMultiplexor := true, isMultiplexed := muxed }] []
      (by
        intro p hp hm
        obtain ⟨sub, hf, _, _, _, ht⟩ := hl p.1 ((seen_invN n hok).sub p hp) hm
        have := exportMuxN_eq be N f true sub ht
        exact ⟨sub, hf, this.1, this.2 (by simp)⟩)
    constructor
    · rw [Dn_map_sig]
      simp only [exportMuxN]
      have := hkids.1
      simp only [seenChildren] at this
      rw [this]
      rfl
    · intro hnm
      simp only [exportMuxN]
      have := hkids.2
      simp only [seenChildren] at this
      rw [this]
      simp only [XS, List.nil_append, seenChildren]
      congr 1
      have hnm' : (muxed || (walkGroups n.children (List.range n.groupCount.toNat) []).any (fun q => q.1.isMux)) = true := hnm
      simp only [hnm', Bool.not_true, Bool.and_false, Bool.false_eq_true, if_false, false_and]
      rw [← List.filterMap_eq_map]
      rfl

/-! ### general list facts -/

theorem flatMap_cons_perm {α β : Type} (a : α → β) (g : α → List β) : ∀ l : List α,
    (l.flatMap (fun p => a p :: g p)).Perm (l.flatMap g ++ l.map a)
  | [] => List.Perm.refl _
  | x :: r => by
    simp only [List.flatMap_cons, List.map_cons, List.cons_append]
    refine (List.Perm.cons _ (List.Perm.append_left (g x) (flatMap_cons_perm a g r))).trans ?_
    rw [← List.append_assoc]
    exact List.perm_middle.symm

theorem XS_perm (N : List MuxNode) : ∀ (f : Nat) (n : MuxNode), (XS N f n).Perm ((Dn N f n).map extOfD)
  | 0, _ => List.Perm.refl _
  | f + 1, n => by
    simp only [XS, Dn, List.map_flatMap, List.map_cons]
    have h1 := flatMap_cons_perm (fun p : Child × Int => extOfD (n, p))
      (fun p => List.map extOfD (match subOf N p.1 with
        | some sub => Dn N f sub
        | none => [])) (seenChildren n)
    refine List.Perm.trans ?_ h1.symm
    refine List.Perm.append ?_ (List.Perm.refl _)
    have : ∀ l : List (Child × Int),
        (l.flatMap (fun p => match subOf N p.1 with
          | some sub => XS N f sub
          | none => [])).Perm
        (l.flatMap (fun p => List.map extOfD (match subOf N p.1 with
          | some sub => Dn N f sub
          | none => []))) := by
      intro l
      induction l with
      | nil => exact List.Perm.refl _
      | cons x r ih =>
        simp only [List.flatMap_cons]
        refine List.Perm.append ?_ ih
        cases hs : subOf N x.1 with
        | none => exact List.Perm.refl _
        | some sub => exact XS_perm N f sub
    exact this _

end Acme.Import
