/-
Multiplexer world, part G: `sig.name` (`signal.UpdateName`).
-/
import Acme.Proofs.MuxShift

namespace Acme.Mux
open Acme.Layout Acme.Arith

/-- renaming one member of a registry -/
theorem names_rename (nm : Names) (S : List Nat) (nameOld nameNew : Nat → String) (s : Nat)
    (old new : String) (hnd : KeysNodup nm) (hex : ∀ n i, (n, i) ∈ nm ↔ i ∈ S ∧ nameOld i = n)
    (hs : s ∈ S) (hold : nameOld s = old)
    (hnn : ∀ i, nameNew i = if i = s then new else nameOld i)
    (hfree : ∀ i, (new, i) ∈ nm → i = s) :
    KeysNodup (nmSet (nmDel nm old) new s) ∧
    ∀ n i, (n, i) ∈ nmSet (nmDel nm old) new s ↔ i ∈ S ∧ nameNew i = n := by
  refine ⟨keysNodup_nmSet _ _ _ (keysNodup_nmDel _ _ hnd), ?_⟩
  intro n i
  rw [mem_nmSet, mem_nmDel]
  constructor
  · rintro (he | ⟨⟨hm, hno⟩, hnn'⟩)
    · cases he
      exact ⟨hs, by rw [hnn]; simp⟩
    · obtain ⟨hi, hn⟩ := (hex n i).mp hm
      have his : i ≠ s := by
        rintro rfl
        simp only at hno
        exact hno (by rw [← hn, hold])
      exact ⟨hi, by rw [hnn, if_neg his, hn]⟩
  · rintro ⟨hi, hn⟩
    by_cases his : i = s
    · subst his
      rw [hnn] at hn
      simp only [↓reduceIte] at hn
      left; rw [hn]
    · rw [hnn, if_neg his] at hn
      have hm : (n, i) ∈ nm := (hex n i).mpr ⟨hi, hn⟩
      right
      refine ⟨⟨hm, ?_⟩, ?_⟩
      · simp only
        intro hno
        apply his
        have h1 : (old, i) ∈ nm := by rw [← hno]; exact hm
        have h2 : (old, s) ∈ nm := (hex old s).mpr ⟨hs, hold⟩
        have e1 := (nmGet_eq_some_iff nm hnd _ _).mpr h1
        have e2 := (nmGet_eq_some_iff nm hnd _ _).mpr h2
        rw [e1] at e2
        exact Option.some.inj e2
      · simp only
        intro hnew
        apply his
        apply hfree
        rw [← hnew]; exact hm

theorem self_not_parent (w : MW) (h : InvCore w) (s : Nat) (e : SigE) (hs : w.sigs.get s = some e) :
    e.parentMux ≠ some s := by
  obtain ⟨depth, hd⟩ := h.acyclic
  intro hp
  have := hd s e s hs hp
  omega

theorem renamed_sigs (w : MW) (h : InvCore w) (s : Nat) (se : SigE) (name : String)
    (hs : w.sigs.get s = some se) (i : Nat) :
    (renamed w s se name).sigs.get i =
      if i = s then some { se with name := name }
      else if se.parentMux = some i then
        (w.sigs.get i).map (fun xe => { xe with mx := { xe.mx with
          signalNames := nmSet (nmDel xe.mx.signalNames se.name) name s } })
      else w.sigs.get i := by
  unfold renamed
  simp only
  cases hp : se.parentMux with
  | none =>
    simp only [hs, AMap.get_set]
    by_cases his : i = s
    · simp [his, hp]
    · simp [his]
  | some x =>
    have hxs : x ≠ s := by
      rintro rfl
      exact self_not_parent w h x se hs hp
    obtain ⟨xe, gc, gs, hx, _, _⟩ := h.parentIsMux s se x hs hp
    simp only [updMux, hx, AMap.get_set, if_neg (Ne.symm hxs), hs, Option.some.injEq]
    by_cases his : i = s
    · simp [his, hp]
    · simp only [if_neg his]
      by_cases hix : i = x
      · subst hix; simp [hx]
      · have : x ≠ i := fun e => hix e.symm
        simp [hix, this]

theorem renamed_msgs (w : MW) (s : Nat) (se : SigE) (name : String) (j : Nat) :
    (renamed w s se name).msgs.get j =
      if se.parentMsg = some j then
        (w.msgs.get j).map (fun msg => { msg with signalNames := nmSet (nmDel msg.signalNames se.name) name s })
      else w.msgs.get j := by
  have hm : (renamed w s se name).msgs = (match se.parentMsg with
    | some m => match w.msgs.get m with
      | some msg => w.msgs.set m { msg with signalNames := nmSet (nmDel msg.signalNames se.name) name s }
      | none => w.msgs
    | none => w.msgs) := by
    unfold renamed
    simp only
    cases hp : se.parentMux with
    | none => simp only; split <;> rfl
    | some x =>
      simp only
      split
      · simp only [updMux]; split <;> rfl
      · simp only [updMux]; split <;> rfl
  rw [hm]
  cases hp : se.parentMsg with
  | none => simp
  | some m =>
    simp only [Option.some.injEq]
    cases hmm : w.msgs.get m with
    | none =>
      simp only
      by_cases hj : m = j
      · subst hj; simp [hmm]
      · simp [hj]
    | some msg =>
      simp only [AMap.get_set]
      by_cases hj : m = j
      · subst hj; simp [hmm]
      · have : j ≠ m := fun e => hj e.symm
        simp [hj, this]

theorem inv_renamed (w : MW) (h : InvCore w) (s : Nat) (se : SigE) (name : String)
    (hs : w.sigs.get s = some se)
    (hmux : ∀ x xe, se.parentMux = some x → w.sigs.get x = some xe → ∀ i, (name, i) ∈ xe.mx.signalNames → i = s)
    (hmsg : ∀ m msg, se.parentMsg = some m → w.msgs.get m = some msg → ∀ i, (name, i) ∉ msg.signalNames) :
    InvCore (renamed w s se name) := by
  have hsg := renamed_sigs w h s se name hs
  have hmg := renamed_msgs w s se name
  -- forward / backward correspondence of the stores
  have hfw : ∀ t e, w.sigs.get t = some e → ∃ e', (renamed w s se name).sigs.get t = some e' ∧
      (t ≠ s → e'.name = e.name) ∧ (t = s → e'.name = name) ∧ e'.parentMux = e.parentMux ∧
      e'.parentMsg = e.parentMsg ∧ geo e' = geo e ∧ e'.kind = e.kind ∧
      e'.mx.groups = e.mx.groups ∧ e'.mx.fixed = e.mx.fixed ∧ e'.mx.groupIds = e.mx.groupIds ∧
      e'.mx.signals = e.mx.signals ∧ (se.parentMux ≠ some t → e'.mx = e.mx) := by
    intro t e ht
    rw [hsg]
    by_cases hts : t = s
    · subst hts
      rw [hs] at ht; cases ht
      refine ⟨{ se with name := name }, by simp, fun hh => absurd rfl hh, fun _ => rfl, rfl, rfl, rfl, rfl, rfl, rfl, rfl, rfl, fun _ => rfl⟩
    · rw [if_neg hts]
      by_cases hpt : se.parentMux = some t
      · rw [if_pos hpt, ht]
        exact ⟨_, rfl, fun _ => rfl, fun hh => absurd hh hts, rfl, rfl, rfl, rfl, rfl, rfl, rfl, rfl,
          fun hh => absurd hpt hh⟩
      · rw [if_neg hpt]
        exact ⟨e, ht, fun _ => rfl, fun hh => absurd hh hts, rfl, rfl, rfl, rfl, rfl, rfl, rfl, rfl, fun _ => rfl⟩
  have hbw : ∀ t e', (renamed w s se name).sigs.get t = some e' → ∃ e, w.sigs.get t = some e := by
    intro t e' ht
    rw [hsg] at ht
    by_cases hts : t = s
    · subst hts; exact ⟨se, hs⟩
    · rw [if_neg hts] at ht
      by_cases hpt : se.parentMux = some t
      · rw [if_pos hpt] at ht
        cases hg : w.sigs.get t with
        | none => rw [hg] at ht; cases ht
        | some e => exact ⟨e, rfl⟩
      · rw [if_neg hpt] at ht; exact ⟨e', ht⟩
  have hname : ∀ t, nameOf (renamed w s se name) t = if t = s then name else nameOf w t := by
    intro t
    cases ht : w.sigs.get t with
    | none =>
      have : (renamed w s se name).sigs.get t = none := by
        cases hg : (renamed w s se name).sigs.get t with
        | none => rfl
        | some e' => obtain ⟨e, he⟩ := hbw t e' hg; rw [ht] at he; cases he
      have hts : t ≠ s := by rintro rfl; rw [hs] at ht; cases ht
      simp [nameOf, this, ht, hts]
    | some e =>
      obtain ⟨e', he', n1, n2, _⟩ := hfw t e ht
      by_cases hts : t = s
      · rw [if_pos hts]; simp only [nameOf, he']; exact n2 hts
      · rw [if_neg hts]; simp only [nameOf, he', ht]; exact n1 hts
  have hseName : nameOf w s = se.name := by simp [nameOf, hs]
  apply InvCore.of_parts
  · intro y ye' gc gs hy hk
    obtain ⟨ye, hye⟩ := hbw y ye' hy
    obtain ⟨ye'', hy'', _, _, _, _, _, hkind, hgr, hfx, hgi, hsi, hmxeq⟩ := hfw y ye hye
    rw [hy] at hy''; cases hy''
    have hyo := h.muxOK hye (by rw [← hkind]; exact hk)
    have hch : ∀ t ∈ ye.mx.signals, ∃ e e', w.sigs.get t = some e ∧
        (renamed w s se name).sigs.get t = some e' ∧ e'.parentMux = e.parentMux := by
      intro t ht
      obtain ⟨e, he, _⟩ := (hyo.child t).mp ht
      obtain ⟨e', he', _, _, hp, _⟩ := hfw t e he
      exact ⟨e, e', he, he', hp⟩
    have hnew : ∀ t e', (renamed w s se name).sigs.get t = some e' → e'.parentMux = some y → t ∈ ye.mx.signals := by
      intro t e' he' hp
      obtain ⟨e, he⟩ := hbw t e' he'
      obtain ⟨e'', he'', _, _, hp', _⟩ := hfw t e he
      rw [he'] at he''; cases he''
      exact (hyo.child t).mpr ⟨e, he, by rw [← hp', hp]⟩
    have hwf : ∀ g ∈ ye.mx.groups, WF gs (slotsOf (renamed w s se name) g) := by
      intro g hg
      rw [slotsOf_congr w _ g]
      · exact hyo.wf g hg
      · intro i hi
        obtain ⟨e, he, _⟩ := hyo.mem_stored hg hi
        obtain ⟨e', he', _, _, _, _, hgeo, _⟩ := hfw i e he
        simp [he, he', hgeo]
    by_cases hpy : se.parentMux = some y
    · -- the parent of the renamed signal
      have hys : y ≠ s := by rintro rfl; exact self_not_parent w h y se hs hpy
      have hye' : ye' = { ye with mx := { ye.mx with signalNames := nmSet (nmDel ye.mx.signalNames se.name) name s } } := by
        have := hsg y
        rw [if_neg hys, if_pos hpy, hye, hy] at this
        simpa using this
      have hschild : s ∈ ye.mx.signals := (hyo.child s).mpr ⟨se, hs, hpy⟩
      obtain ⟨r1, r2⟩ := names_rename ye.mx.signalNames ye.mx.signals (nameOf w) (nameOf (renamed w s se name)) s
        se.name name hyo.namesNodup hyo.names hschild hseName hname (hmux y ye hpy hye)
      apply hyo.frame_gen hgr hfx hgi hsi hch hnew hwf
      · rw [hye']; exact r1
      · rw [hye']; exact r2
    · have hmx := hmxeq hpy
      apply hyo.frame_gen hgr hfx hgi hsi hch hnew hwf
      · rw [hmx]; exact hyo.namesNodup
      · intro n i
        rw [hmx, hyo.names]
        have hnc : ∀ i, i ∈ ye.mx.signals → i ≠ s := by
          rintro i hi rfl
          obtain ⟨e, he, hp⟩ := (hyo.child i).mp hi
          rw [hs] at he; cases he
          exact hpy hp
        constructor
        · rintro ⟨hi, hn⟩; exact ⟨hi, by rw [hname, if_neg (hnc i hi), hn]⟩
        · rintro ⟨hi, hn⟩; exact ⟨hi, by rw [hname, if_neg (hnc i hi)] at hn; exact hn⟩
  · intro m msg' hm
    rw [hmg] at hm
    have hchm : ∀ (msg : MsgE), MsgOK w m msg → ∀ t ∈ msg.signals, ∃ e e', w.sigs.get t = some e ∧
        (renamed w s se name).sigs.get t = some e' ∧ e'.parentMux = e.parentMux ∧ e'.parentMsg = e.parentMsg := by
      intro msg hmo t ht
      obtain ⟨e, he, _⟩ := (hmo.reg t).mp ht
      obtain ⟨e', he', _, _, hp, hpm, _⟩ := hfw t e he
      exact ⟨e, e', he, he', hp, hpm⟩
    have hnewm : ∀ (msg : MsgE), MsgOK w m msg → ∀ t e', (renamed w s se name).sigs.get t = some e' →
        e'.parentMsg = some m → t ∈ msg.signals := by
      intro msg hmo t e' he' hp
      obtain ⟨e, he⟩ := hbw t e' he'
      obtain ⟨e'', he'', _, _, _, hp', _⟩ := hfw t e he
      rw [he'] at he''; cases he''
      exact (hmo.reg t).mpr ⟨e, he, by rw [← hp', hp]⟩
    have hwfm : ∀ (msg : MsgE), MsgOK w m msg → WF msg.cap (slotsOf (renamed w s se name) msg.layout) := by
      intro msg hmo
      rw [slotsOf_congr w _ msg.layout]
      · exact hmo.wf
      · intro i hi
        obtain ⟨e, he, _⟩ := (hmo.top i).mp hi
        obtain ⟨e', he', _, _, _, _, hgeo, _⟩ := hfw i e he
        simp [he, he', hgeo]
    by_cases hpm : se.parentMsg = some m
    · rw [if_pos hpm] at hm
      cases hmm : w.msgs.get m with
      | none => rw [hmm] at hm; cases hm
      | some msg =>
        rw [hmm] at hm
        simp only [Option.map_some, Option.some.injEq] at hm
        subst hm
        have hmo := h.msgOK hmm
        have hsreg : s ∈ msg.signals := (hmo.reg s).mpr ⟨se, hs, hpm⟩
        obtain ⟨r1, r2⟩ := names_rename msg.signalNames msg.signals (nameOf w) (nameOf (renamed w s se name)) s
          se.name name hmo.namesNodup hmo.names hsreg hseName hname
          (fun i hi => absurd hi (hmsg m msg hpm hmm i))
        exact hmo.frame_gen rfl rfl rfl rfl (hchm msg hmo) (hnewm msg hmo) (hwfm msg hmo) r1 r2
    · rw [if_neg hpm] at hm
      have hmo := h.msgOK hm
      apply hmo.frame_gen rfl rfl rfl rfl (hchm msg' hmo) (hnewm msg' hmo) (hwfm msg' hmo) hmo.namesNodup
      intro n i
      rw [hmo.names]
      have hnc : ∀ i, i ∈ msg'.signals → i ≠ s := by
        rintro i hi rfl
        obtain ⟨e, he, hp⟩ := (hmo.reg i).mp hi
        rw [hs] at he; cases he
        exact hpm hp
      constructor
      · rintro ⟨hi, hn⟩; exact ⟨hi, by rw [hname, if_neg (hnc i hi), hn]⟩
      · rintro ⟨hi, hn⟩; exact ⟨hi, by rw [hname, if_neg (hnc i hi)] at hn; exact hn⟩
  · intro t e' ht
    obtain ⟨e, he⟩ := hbw t e' ht
    obtain ⟨e'', he'', _, _, hp, hpm, _, hkind, _⟩ := hfw t e he
    rw [ht] at he''; cases he''
    have hl := h.linkOK he
    refine ⟨fun z hz => hl.size z (by rw [← hkind]; exact hz), ?_, ?_⟩
    · intro x hx
      obtain ⟨xe, gc, gs, a1, a2, a3⟩ := hl.parent x (by rw [← hp]; exact hx)
      obtain ⟨xe', b1, _, _, _, b4, _, b6, _⟩ := hfw x xe a1
      exact ⟨xe', gc, gs, b1, by rw [b6]; exact a2, by rw [b4, a3, hpm]⟩
    · intro m hm
      have := hl.msg m (by rw [← hpm]; exact hm)
      rw [hmg]
      split
      · cases hg : w.msgs.get m with
        | none => rw [hg] at this; simp at this
        | some msg => simp
      · exact this
  · obtain ⟨depth, hd⟩ := h.acyclic
    refine ⟨depth, ?_⟩
    intro t e' x ht hp
    obtain ⟨e, he⟩ := hbw t e' ht
    obtain ⟨e'', he'', _, _, hp', _⟩ := hfw t e he
    rw [ht] at he''; cases he''
    exact hd t e x he (by rw [← hp']; exact hp)

theorem inv_sigName (w : MW) (h : InvCore w) (s : Nat) (name : String) :
    InvCore (doSigName w s name).1 ∧ (doSigName w s name).2 ≠ .panic := by
  unfold doSigName
  cases hs : w.sigs.get s with
  | none => exact ⟨h, by simp⟩
  | some se =>
    simp only
    by_cases h1 : se.name = name
    · rw [if_pos h1]; exact ⟨h, by simp⟩
    · rw [if_neg h1]
      cases h2 : nameMuxOk w se s name with
      | false => simp only [Bool.not_false, ↓reduceIte]; exact ⟨h, by simp⟩
      | true =>
        cases h3 : nameMsgOk w se name with
        | false => simp only [Bool.not_true, Bool.false_eq_true, Bool.not_false, ↓reduceIte]; exact ⟨h, by simp⟩
        | true =>
          simp only [Bool.not_true, Bool.false_eq_true, ↓reduceIte]
          refine ⟨?_, by simp⟩
          apply inv_renamed w h s se name hs
          · intro x xe hp hx i hi
            unfold nameMuxOk at h2
            rw [hp] at h2
            simp only [hx] at h2
            obtain ⟨_, gc, gs, hx', hk, _⟩ := h.parentIsMux s se x hs hp
            rw [hx] at hx'; cases hx'
            have hxo := h.muxOK hx hk
            have hg := (nmGet_eq_some_iff _ hxo.namesNodup _ _).mpr hi
            unfold verifyMuxName at h2
            rw [hg] at h2
            simpa using h2
          · intro m msg hpm hmm
            unfold nameMsgOk at h3
            rw [hpm] at h3
            simp only [hmm, Bool.not_eq_true'] at h3
            exact (nmHas_false_iff _ _).mp h3

end Acme.Mux
