/-
Lemmas for C19 (interval tree).  The theorems at the bottom are the ones
Acme.Props.C19 refers to: run_spec, run_sorted, intersects_exact, canUpdate_exact.

The supporting lemmas live in
  Acme.Proofs.AvlBasic   (le2, mk, rotations, rebalance)
  Acme.Proofs.AvlInsert  (insertNode)
  Acme.Proofs.AvlDelete  (findMin, deleteNode)
  Acme.Proofs.AvlQuery   (intersectsNode, checkOther)
-/
import Acme.Core.Avl
import Acme.Spec.Avl
import Acme.Proofs.AvlBasic
import Acme.Proofs.AvlInsert
import Acme.Proofs.AvlDelete
import Acme.Proofs.AvlQuery

namespace Acme.Avl
open Tree

theorem inv_nil : Inv nil := by
  simp [Inv, IsBst, HeightOK, Balanced, MaxOK, Proper, inorder]

/-- The state invariant carried along a history, relative to the abstract multiset `s`. -/
def Good (t : Bst) (s : List (Int × Int)) : Prop :=
  Inv t.root ∧ t.size = (inorder t.root).length ∧ (inorder t.root).Perm s

theorem step_spec (t : Bst) (s : List (Int × Int)) (op : Op) (hg : Good t s) :
    ∃ t', step t op = some t' ∧ Good t' (specStep s op) := by
  obtain ⟨⟨hb, hh, hbal, hm, hpr⟩, hsz, hperm⟩ := hg
  cases op with
  | insert lo hi =>
    by_cases hinv : lo > hi
    · exact ⟨t, by simp [step, hinv], by simpa [specStep, hinv] using
        ⟨⟨hb, hh, hbal, hm, hpr⟩, hsz, hperm⟩⟩
    · obtain ⟨r, e, hb', hh', hbal', hm', hp', _, _⟩ := insertNode_spec t.root lo hi hb hh hbal hm
      refine ⟨{ root := r, size := t.size + 1 }, by simp [step, hinv, e], ?_⟩
      refine ⟨⟨hb', hh', hbal', hm', ?_⟩, ?_, ?_⟩
      · intro x hx
        rcases List.mem_cons.1 (hp'.mem_iff.1 hx) with rfl | hx
        · simp only; omega
        · exact hpr x hx
      · have := hp'.length_eq
        simp only [List.length_cons] at this ⊢
        omega
      · simp only [specStep, hinv, if_false]
        exact hp'.trans (hperm.cons _)
  | delete lo hi =>
    obtain ⟨r, d, e, hb', hh', hbal', hm', hp', hd, _, _⟩ :=
      deleteNode_spec t.root lo hi hb hh hbal hm
    refine ⟨{ root := r, size := t.size + d }, by simp [step, e], ?_⟩
    refine ⟨⟨hb', hh', hbal', hm', ?_⟩, ?_, ?_⟩
    · intro x hx
      exact hpr x (List.mem_of_mem_erase (hp'.mem_iff.1 hx))
    · have hl := hp'.length_eq
      by_cases hmem : (lo, hi) ∈ inorder t.root
      · have hpos := List.length_pos_of_mem hmem
        rw [List.length_erase_of_mem hmem] at hl
        rw [if_pos hmem] at hd
        simp only at hl ⊢
        omega
      · rw [List.erase_of_not_mem hmem] at hl
        rw [if_neg hmem] at hd
        simp only at hl ⊢
        omega
    · simp only [specStep]
      exact hp'.trans (hperm.erase _)
  | clear =>
    exact ⟨{ root := nil, size := 0 }, rfl, inv_nil, by simp [inorder], by simp [inorder, specStep]⟩

theorem run_spec_gen (ops : List Op) (t : Bst) (s : List (Int × Int)) (hg : Good t s) :
    ∃ t', run t ops = some t' ∧ Good t' (specRun s ops) := by
  induction ops generalizing t s with
  | nil => exact ⟨t, rfl, hg⟩
  | cons op ops ih =>
    obtain ⟨t1, e1, hg1⟩ := step_spec t s op hg
    obtain ⟨t2, e2, hg2⟩ := ih t1 _ hg1
    exact ⟨t2, by simp [run, e1, e2], by simpa [specRun] using hg2⟩

theorem run_spec (ops : List Op) :
    ∃ t, run {} ops = some t ∧ Inv t.root ∧ t.size = (inorder t.root).length ∧
      (inorder t.root).Perm (specRun [] ops) := by
  have h0 : Good {} [] := ⟨inv_nil, by simp [inorder], by simp [inorder]⟩
  obtain ⟨t, e, hg⟩ := run_spec_gen ops {} [] h0
  exact ⟨t, e, hg⟩

theorem run_good (ops : List Op) (t : Bst) (h : run {} ops = some t) :
    Inv t.root ∧ t.size = (inorder t.root).length := by
  obtain ⟨t', e, hinv, hsz, _⟩ := run_spec ops
  rw [h] at e
  cases e
  exact ⟨hinv, hsz⟩

theorem run_sorted (ops : List Op) (t : Bst) (h : run {} ops = some t) :
    (inorder t.root).Pairwise (fun a b => le2 a b) :=
  (isBst_iff_sorted _).1 (run_good ops t h).1.1

theorem intersects_exact (ops : List Op) (t : Bst) (h : run {} ops = some t)
    (hd : (inorder t.root).Pairwise (fun a b => a.2 < b.1 ∨ b.2 < a.1))
    (lo hi : Int) :
    intersects t lo hi = anyOverlap (inorder t.root) lo hi := by
  obtain ⟨⟨hb, _, _, hm, hp⟩, hsz⟩ := run_good ops t h
  unfold intersects
  by_cases h0 : t.size = 0
  · have : inorder t.root = [] := by
      apply List.eq_nil_of_length_eq_zero; omega
    simp [h0, this, anyOverlap]
  · rw [if_neg h0]
    exact intersectsNode_exact t.root hb hm hp hd lo hi

theorem canUpdate_exact (ops : List Op) (t : Bst) (h : run {} ops = some t)
    (hd : (inorder t.root).Pairwise (fun a b => a.2 < b.1 ∨ b.2 < a.1))
    (slo shi : Int) (hs : (slo, shi) ∈ inorder t.root) (lo hi : Int) :
    canUpdate t slo shi lo hi = !(anyOtherOverlap (inorder t.root) slo shi lo hi) := by
  obtain ⟨⟨hb, _, _, hm, hp⟩, hsz⟩ := run_good ops t h
  unfold canUpdate
  by_cases h1 : t.size ≤ 1
  · rw [if_pos h1]
    have hlen : (inorder t.root).length ≤ 1 := by omega
    cases hl : inorder t.root with
    | nil => rw [hl] at hs; cases hs
    | cons a tl =>
      rw [hl] at hs hlen
      have htl : tl = [] := by
        apply List.eq_nil_of_length_eq_zero
        simp only [List.length_cons] at hlen; omega
      subst htl
      have ha : a = (slo, shi) := by simp at hs; exact hs.symm
      subst ha
      simp [anyOtherOverlap]
  · rw [if_neg h1, checkOther_exact t.root hb hm hp hd lo hi slo shi]

end Acme.Avl
