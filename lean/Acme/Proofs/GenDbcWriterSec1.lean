/-
Translator stage 11, sections 1-5 of dbc/writer.go (version, new symbols, bit timing, nodes, value
tables) and the shared pieces (words, doubles, value descriptions, `writeSlice`).

Per section `X`: the fragment list `frX` (tokens of the hand model with the writer's blanks),
`toks_frX` (its tokens ARE `Acme.Dbc.writeX`), `text_X` (the generated `Acme.Gen.W.writeX`
appends exactly its text) and `ok_X` (it is an admissible, complete section).
-/
import Acme.Proofs.GenDbcWriterBase
import Acme.Proofs.DbcNum
import Acme.Gen.DbcWriter

namespace Acme.GenW
open Acme.Dbc Acme.Dbc.Scan Acme.Gen

/-- unfold the print helpers and compare texts as character lists -/
macro "wtext" "[" ds:Lean.Parser.Tactic.simpLemma,* "]" : tactic =>
  `(tactic| simp [W.newLine, W.formatString, W.formatUint, W.formatInt, W.formatDouble, Acme.Dbc.formatDouble,
      tt_ident, tt_number, tt_range, tt_mux, tt_string, tt_keyword, tt_punct, Token.kw, Token.p, punctText, getKeyword,
      uintTok, intTok, String.ext_iff, String.toList_append, tokText_classifyWord, $ds,*])

theorem sp_blank1 : isBlankStr " " = true := by decide
theorem sp_blank2 : isBlankStr "\n" = true := by decide
theorem sp_blank3 : isBlankStr "\t" = true := by decide
theorem sp_ne1 : " ".isEmpty = false := by decide
theorem sp_ne2 : "\n".isEmpty = false := by decide
theorem sp_ne3 : "\t".isEmpty = false := by decide

/-- evaluate `okFrom` / `endSt` on a concrete fragment list -/
macro "wok" "[" ds:Lean.Parser.Tactic.simpLemma,* "]" : tactic =>
  `(tactic| simp [SecOK, okFrom, endSt, okFrom_append, endSt_append, sp_blank1, sp_blank2, sp_blank3, sp_ne1, sp_ne2,
      sp_ne3, nm_str, nm_right_str, nm_p_left, nm_p_right, nm_num_minus, uintTok, intTok, $ds,*])

/-! ## shared pieces -/

/-- ` w₁ w₂ …` (a blank in front of every word) -/
def frWords : List String → List Frag
  | [] => []
  | w :: ws => .sp " " :: .tok (classifyWord w) :: frWords ws

theorem toks_frWords (ws : List String) : toks (frWords ws) = ws.map classifyWord := by
  induction ws with
  | nil => rfl
  | cons w ws ih => simp [frWords, ih]

theorem ok_frWords (ws : List String) (p : Option Token) : okFrom p (frWords ws) = true := by
  induction ws generalizing p with
  | nil => rfl
  | cons w ws ih => simp [frWords, okFrom, sp_blank1, sp_ne1, ih]

/-- the state behind a word list followed by a self-ending punctuation: always admissible -/
theorem ok_frWords_then (ws : List String) (p : Option Token) (k : PunctKind) (hk : k ≠ .minus) (l : List Frag)
    (hp : ∀ q, p = some q → noMerge q (Token.p k) = true) :
    okFrom p (frWords ws ++ .tok (Token.p k) :: l) = okFrom (some (Token.p k)) l := by
  induction ws generalizing p with
  | nil =>
    cases p with
    | none => simp [frWords, okFrom]
    | some q => simp [frWords, okFrom, hp q rfl]
  | cons w ws ih =>
    simp only [frWords, List.cons_append, okFrom, sp_blank1, sp_ne1, Bool.true_and, Bool.false_eq_true, if_false]
    rw [ih]
    intro q hq; cases hq; exact nm_p_right _ k hk

/-- a `formatDouble` text as tokens -/
def frDouble (x : String) : List Frag := (doubleToks x).map .tok

theorem toks_frDouble (x : String) : toks (frDouble x) = doubleToks x := by
  unfold frDouble
  induction doubleToks x with
  | nil => rfl
  | cons t l ih => simp [ih]

theorem text_frDouble (x : String) : fragText (frDouble x) = x := by
  unfold frDouble doubleToks
  split
  · next h => subst h; simp [tokText_classifyWord]
  · split
    · next h => subst h; simp [tokText_classifyWord, Token.p, punctText, tt_punct]
    · split
      · next h => subst h; simp [tokText_classifyWord, Token.p, punctText, tt_punct]
      · simp [tt_number, Acme.Dbc.formatDouble]

theorem frDouble_finite {x : String} (h : finiteFloatText x = true) : frDouble x = [.tok (.number x)] := by
  unfold frDouble; rw [doubleToks_of_accepted (accepted_of_finite h)]; rfl

/-- ` id "name"` -/
def frValueDescription (vd : ValueDescription) : List Frag :=
  [.sp " ", .tok (uintTok vd.id), .sp " ", .tok (.string vd.name)]

def frValueDescriptions : List ValueDescription → List Frag
  | [] => []
  | vd :: vds => frValueDescription vd ++ frValueDescriptions vds

theorem toks_frValueDescriptions (vds : List ValueDescription) :
    toks (frValueDescriptions vds) = writeValueDescriptions vds := by
  induction vds with
  | nil => rfl
  | cons vd vds ih => simp [frValueDescriptions, frValueDescription, writeValueDescriptions, writeValueDescription, ih]

theorem text_valueDescription (h : Bool) (vd : ValueDescription) (out : String) :
    W.writeValueDescription h vd out = out ++ fragText (frValueDescription vd) := by
  wtext [W.writeValueDescription, frValueDescription]

/-- value descriptions followed by `;`: admissible behind anything -/
theorem ok_frValueDescriptions_then (vds : List ValueDescription) (p : Option Token) (l : List Frag)
    (hp : ∀ q, p = some q → noMerge q (Token.p .semicolon) = true) :
    okFrom p (frValueDescriptions vds ++ .tok (Token.p .semicolon) :: l) = okFrom (some (Token.p .semicolon)) l := by
  induction vds generalizing p with
  | nil =>
    cases p with
    | none => simp [frValueDescriptions, okFrom]
    | some q => simp [frValueDescriptions, okFrom, hp q rfl]
  | cons vd vds ih =>
    simp only [frValueDescriptions, frValueDescription, List.cons_append, List.nil_append, okFrom,
      sp_blank1, sp_ne1, Bool.true_and, Bool.false_eq_true, if_false]
    rw [ih]
    intro q hq; cases hq; exact nm_str _ _

/-! ## `writeSlice` -/

def frSlice {α : Type} (fr : α → List Frag) : List α → List Frag
  | [] => []
  | x :: xs => fr x ++ (match xs with | [] => [.sp "\n"] | _ :: _ => frSlice fr xs)

theorem toks_frSlice {α : Type} (fr : α → List Frag) (f : α → List Token) (hf : ∀ x, toks (fr x) = f x)
    (xs : List α) : toks (frSlice fr xs) = Acme.Dbc.writeSlice f xs := by
  induction xs with
  | nil => rfl
  | cons x xs ih =>
    cases xs with
    | nil => simp [frSlice, Acme.Dbc.writeSlice, hf]
    | cons y ys => simp only [frSlice, Acme.Dbc.writeSlice, toks_append, hf] at ih ⊢; rw [ih]

theorem text_slice_loop {α : Type} (fr : α → List Frag) (wf : α → String → String) (nl : String → String)
    (hwf : ∀ x out, wf x out = out ++ fragText (fr x)) (hnl : ∀ out, nl out = out ++ "\n")
    (slice : List α) : ∀ (rest : List α) (idx : Int) (out : String), idx + rest.length = slice.length →
    W.writeSlice_loop1 slice wf nl idx rest out = out ++ fragText (frSlice fr rest) := by
  intro rest
  induction rest with
  | nil => intro idx out _; simp [W.writeSlice_loop1, frSlice]
  | cons x xs ih =>
    intro idx out hlen
    cases xs with
    | nil =>
      have : idx = (slice.length : Int) - 1 := by simp at hlen; omega
      simp [W.writeSlice_loop1, frSlice, hwf, hnl, this, String.append_assoc]
    | cons y ys =>
      have hne : ¬ idx = (slice.length : Int) - 1 := by simp at hlen; omega
      have := ih (idx + 1) (out ++ fragText (fr x)) (by simp at hlen ⊢; omega)
      simp only [W.writeSlice_loop1, hwf, if_neg hne, frSlice, fragText_append] at this ⊢
      rw [this, String.append_assoc]

theorem text_slice {α : Type} (fr : α → List Frag) (wf : α → String → String) (nl : String → String)
    (hwf : ∀ x out, wf x out = out ++ fragText (fr x)) (hnl : ∀ out, nl out = out ++ "\n")
    (xs : List α) (out : String) : W.writeSlice xs wf nl out = out ++ fragText (frSlice fr xs) := by
  unfold W.writeSlice
  exact text_slice_loop fr wf nl hwf hnl xs xs 0 out (by simp)

theorem ok_frSlice {α : Type} (fr : α → List Frag) (xs : List α) (h : ∀ x ∈ xs, SecOK (fr x)) :
    SecOK (frSlice fr xs) := by
  induction xs with
  | nil => exact secOK_nil
  | cons x xs ih =>
    cases xs with
    | nil =>
      simp only [frSlice]
      exact secOK_append (h x (by simp)) (by wok [])
    | cons y ys =>
      simp only [frSlice] at ih ⊢
      exact secOK_append (h x (by simp)) (ih (fun z hz => h z (by simp [hz])))

theorem text_newLine (h : Bool) (out : String) : W.newLine h out = out ++ "\n" := rfl

/-! ## 1. version -/

def frVersion (ver : String) : List Frag :=
  [.tok (Token.kw .version), .sp " ", .tok (.string ver), .sp "\n", .sp "\n"]

theorem toks_frVersion (ver : String) : toks (frVersion ver) = Acme.Dbc.writeVersion ver := rfl

theorem text_version (h : Bool) (ver out : String) : W.writeVersion h ver out = out ++ fragText (frVersion ver) := by
  wtext [W.writeVersion, frVersion]

theorem ok_version (ver : String) : SecOK (frVersion ver) := by wok [frVersion]

/-! ## 2. new symbols -/

def frSymbols : List String → List Frag
  | [] => []
  | s :: ss => .sp "\t" :: .tok (classifyWord s) :: .sp "\n" :: frSymbols ss

def frNewSymbols (syms : List String) : List Frag :=
  [.tok (Token.kw .newSymbols), .tok (Token.p .colon), .sp "\n"] ++ frSymbols syms ++ [.sp "\n"]

theorem toks_frNewSymbols (syms : List String) : toks (frNewSymbols syms) = Acme.Dbc.writeNewSymbols syms := by
  have : ∀ l : List String, toks (frSymbols l) = l.map classifyWord := by
    intro l; induction l with
    | nil => rfl
    | cons s ss ih => simp [frSymbols, ih]
  simp [frNewSymbols, Acme.Dbc.writeNewSymbols, this]

theorem text_newSymbols_loop (h : Bool) (ns l : List String) (out : String) :
    W.writeNewSymbols_loop1 h ns l out = out ++ fragText (frSymbols l) := by
  induction l generalizing out with
  | nil => simp [W.writeNewSymbols_loop1, frSymbols]
  | cons s ss ih => rw [W.writeNewSymbols_loop1]; simp only [ih]; wtext [frSymbols]

theorem text_newSymbols (h : Bool) (syms : List String) (out : String) :
    W.writeNewSymbols h syms out = out ++ fragText (frNewSymbols syms) := by
  unfold W.writeNewSymbols
  simp only [text_newSymbols_loop]
  wtext [frNewSymbols]

theorem ok_newSymbols (syms : List String) : SecOK (frNewSymbols syms) := by
  have : ∀ l : List String, okFrom none (frSymbols l) = true ∧ endSt none (frSymbols l) = none := by
    intro l; induction l with
    | nil => exact ⟨rfl, rfl⟩
    | cons s ss ih => simp [frSymbols, okFrom, endSt, sp_blank2, sp_blank3, sp_ne2, sp_ne3, ih]
  wok [frNewSymbols, this, Token.kw]

/-! ## 3. bit timing -/

def frBitTiming (bt : BitTiming) : List Frag :=
  [.tok (Token.kw .bitTiming), .tok (Token.p .colon)] ++
  (if bt.baudrate = 0 ∧ bt.bitTimingReg1 = 0 ∧ bt.bitTimingReg2 = 0 then [.sp "\n", .sp "\n"]
   else [.tok (uintTok bt.baudrate), .sp " ", .tok (Token.p .colon), .sp " ", .tok (uintTok bt.bitTimingReg1),
         .tok (Token.p .comma), .sp " ", .tok (uintTok bt.bitTimingReg2), .sp "\n", .sp "\n"])

theorem toks_frBitTiming (bt : BitTiming) : toks (frBitTiming bt) = Acme.Dbc.writeBitTiming bt := by
  unfold frBitTiming Acme.Dbc.writeBitTiming
  split <;> simp

theorem text_bitTiming (h : Bool) (bt : BitTiming) (out : String) :
    W.writeBitTiming h bt out = out ++ fragText (frBitTiming bt) := by
  unfold W.writeBitTiming frBitTiming
  by_cases c : bt.baudrate = 0 ∧ bt.bitTimingReg1 = 0 ∧ bt.bitTimingReg2 = 0
  · have c' : (bt.baudrate = 0 ∧ bt.bitTimingReg1 = 0) ∧ bt.bitTimingReg2 = 0 := ⟨⟨c.1, c.2.1⟩, c.2.2⟩
    simp only [if_pos c, if_pos c']
    wtext []
  · have c' : ¬ ((bt.baudrate = 0 ∧ bt.bitTimingReg1 = 0) ∧ bt.bitTimingReg2 = 0) := fun x => c ⟨x.1.1, x.1.2, x.2⟩
    simp only [if_neg c, if_neg c']
    wtext []

/-- NOT admissible in general: `BS_:` glued to the baud rate is fine (`:` ends by itself), every other
pair is separated or ends in punctuation -/
theorem ok_bitTiming (bt : BitTiming) : SecOK (frBitTiming bt) := by
  unfold frBitTiming
  split <;> wok [Token.kw]

/-! ## 4. nodes -/

def frNodes (names : List String) : List Frag :=
  [.tok (Token.kw .node), .tok (Token.p .colon)] ++ frWords names ++ [.sp "\n", .sp "\n"]

theorem toks_frNodes (names : List String) : toks (frNodes names) = Acme.Dbc.writeNodes names := by
  simp [frNodes, Acme.Dbc.writeNodes, toks_frWords]

theorem text_words_loop (loop : List String → String → String)
    (hnil : ∀ out, loop [] out = out) (hcons : ∀ w ws out, loop (w :: ws) out = loop ws (out ++ " " ++ w))
    (l : List String) (out : String) : loop l out = out ++ fragText (frWords l) := by
  induction l generalizing out with
  | nil => simp [hnil, frWords]
  | cons w ws ih => rw [hcons, ih]; wtext [frWords]

theorem text_nodes (h : Bool) (names : List String) (out : String) :
    W.writeNodes h names out = out ++ fragText (frNodes names) := by
  unfold W.writeNodes
  have := text_words_loop (W.writeNodes_loop1 h names) (fun _ => rfl) (fun _ _ _ => rfl)
  simp only [this]
  wtext [frNodes]

theorem ok_nodes (names : List String) : SecOK (frNodes names) := by
  refine ⟨?_, ?_⟩
  · simp only [frNodes, List.cons_append, List.nil_append, okFrom, Bool.true_and]
    rw [nm_p_right _ _ (by decide), Bool.true_and, okFrom_append, ok_frWords]
    wok []
  · simp [frNodes, endSt_append, endSt, sp_ne2]

/-! ## 5. value tables -/

def frValueTable (vt : ValueTable) : List Frag :=
  [.tok (Token.kw .valueTable), .sp " ", .tok (classifyWord vt.name)] ++ frValueDescriptions vt.values ++
    [.tok (Token.p .semicolon), .sp "\n"]

theorem toks_frValueTable (vt : ValueTable) : toks (frValueTable vt) = Acme.Dbc.writeValueTable vt := by
  simp [frValueTable, Acme.Dbc.writeValueTable, toks_frValueDescriptions]

theorem text_valueDescriptions_loop (loop : List ValueDescription → String → String) (h : Bool)
    (hnil : ∀ out, loop [] out = out)
    (hcons : ∀ v vs out, loop (v :: vs) out = loop vs (W.writeValueDescription h v out))
    (l : List ValueDescription) (out : String) : loop l out = out ++ fragText (frValueDescriptions l) := by
  induction l generalizing out with
  | nil => simp [hnil, frValueDescriptions]
  | cons v vs ih =>
    rw [hcons, ih, text_valueDescription]
    simp [frValueDescriptions, String.append_assoc]

theorem text_valueTable (h : Bool) (vt : ValueTable) (out : String) :
    W.writeValueTable h vt out = out ++ fragText (frValueTable vt) := by
  unfold W.writeValueTable
  have := text_valueDescriptions_loop (W.writeValueTable_loop1 h vt) h (fun _ => rfl) (fun _ _ _ => rfl)
  simp only [this]
  wtext [frValueTable]

theorem ok_valueTable (vt : ValueTable) : SecOK (frValueTable vt) := by
  refine ⟨?_, ?_⟩
  · simp only [frValueTable, List.cons_append, List.nil_append, okFrom, sp_blank1, sp_ne1,
      Bool.true_and]
    simp only [Bool.false_eq_true, if_false]
    rw [ok_frValueDescriptions_then]
    · wok []
    · intro q hq; cases hq; exact nm_p_right _ _ (by decide)
  · simp [frValueTable, endSt_append, endSt, sp_ne2]

end Acme.GenW
