/-
Tie B: the regenerated inventory of registry operations equals the expected table.
-/
import Acme.Gen.RegistryOps
import Acme.Expect.RegistryOps

namespace Acme.Sites

set_option maxRecDepth 100000 in
theorem registryOps_expected : Acme.Gen.registryOps = Acme.Expect.registryOps := by decide

end Acme.Sites
