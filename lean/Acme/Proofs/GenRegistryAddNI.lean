/-
Translator stage 13, bus.go: `AddNodeInterface` of the GENERATED `Acme.Gen.R` against
`Acme.Graph.stepBusAddIface`, for EVERY order `ord` in which the loop visits the sent messages.
-/
import Acme.Proofs.GenRegistryBus

namespace Acme.GenR
open Acme Acme.Graph Acme.RegSem Acme.Gen

def tooBigB (g : G) (m : Nat) : Bool :=
  match g.msgs.get m with | some e => !busSizeOK e.sizeByte | none => false

def clashB (g : G) (bus : BusE) (m : Nat) : Bool :=
  match g.msgs.get m with
  | some e => (match e.static with | some c => bus.staticIDs.has c | none => false)
  | none => false

def okB (g : G) (bus : BusE) (m : Nat) : Bool := !tooBigB g m && !clashB g bus m

theorem addNI_loop1 (g : G) (b ni : Nat) (nd : Option Nat) (msgs ord : List Nat) (bus : BusE)
    (hb : g.buses.get b = some bus) (l : List Nat) (hex : ∀ m ∈ l, g.msgs.get m ≠ none) :
    ∀ acc : GoMap Nat Nat,
    (l.all (okB g bus) = true →
      R.Bus_AddNodeInterface_loop1 (view g) b ni nd msgs acc ord l =
        R.Bus_AddNodeInterface_after1 (view g) b ni nd msgs (addAll acc (staticOf g l)) ord) ∧
    (l.all (okB g bus) = false →
      ∃ e, R.Bus_AddNodeInterface_loop1 (view g) b ni nd msgs acc ord l = .val (view g, some e) ∧
        ((e.cause = .ErrTooBig ∧ l.any (tooBigB g) = true) ∨
         (e.cause = .ErrIsDuplicated ∧ l.any (clashB g bus) = true))) := by
  induction l with
  | nil => intro acc; simp [R.Bus_AddNodeInterface_loop1, staticOf, addAll]
  | cons m l ih =>
    intro acc
    have ih := ih (fun m' hm' => hex m' (List.mem_cons_of_mem _ hm'))
    obtain ⟨msg, hmsg⟩ := Option.ne_none_iff_exists'.1 (hex m List.mem_cons_self)
    simp only [R.Bus_AddNodeInterface_loop1, view_msgs, hmsg, Option.map_some, Bus_verifyMessageSize_eq,
      Bus_verifyStaticCANID_eq, hb, staticOf_cons, List.all_cons, List.any_cons, okB, tooBigB, clashB]
    by_cases hs : busSizeOK msg.sizeByte = true
    · cases hst : msg.static with
      | none =>
        simp only [hs, vMsg, hst, ↓reduceIte, Option.isSome_none, Bool.false_eq_true, List.nil_append,
          Bool.not_true, Bool.not_false, Bool.and_self, Bool.true_and, Bool.false_or]
        exact ih acc
      | some c =>
        by_cases hcl : Reg.has bus.staticIDs c = true
        · simp [hs, vMsg, hst, hcl, dupErr]
        · simp only [Bool.not_eq_true] at hcl
          simp only [hs, vMsg, hst, hcl, ↓reduceIte, Option.isSome_some, Option.getD_some, Bool.false_eq_true,
            Bool.not_true, Bool.not_false, Bool.and_self, Bool.true_and, Bool.false_or, List.cons_append,
            List.nil_append, addAll]
          exact ih (GoMap.insert acc c m)
    · simp only [Bool.not_eq_true] at hs
      simp [hs, vMsg, bigErr]

def busSt (bus : BusR) (r : GoMap Nat Nat) : BusR := { bus with messageStaticCANIDs := r }

theorem addNI_loop2 (b ni : Nat) (nd : Option Nat) (msgs : List Nat) (acc : GoMap Nat Nat) (ord : List Nat)
    (l : List (Nat × Nat)) :
    ∀ (h : H) (bus0 : BusR), h.buses.get b = some bus0 →
    ∃ h2, R.Bus_AddNodeInterface_loop2 h b ni nd msgs acc ord l =
        R.Bus_AddNodeInterface_after2 h2 b ni nd msgs acc ord ∧
      h2.nets = h.nets ∧ h2.nodes = h.nodes ∧ h2.ifaces = h.ifaces ∧ h2.msgs = h.msgs ∧
      ∀ k, h2.buses.get k = if k = b then some (busSt bus0 (addAll bus0.messageStaticCANIDs l)) else h.buses.get k := by
  induction l with
  | nil =>
    intro h bus0 hb
    refine ⟨h, rfl, rfl, rfl, rfl, rfl, ?_⟩
    intro k; by_cases hk : k = b
    · subst hk; simp [addAll, busSt, hb]
    · simp [hk]
  | cons p l ih =>
    intro h bus0 hb
    obtain ⟨c, m⟩ := p
    simp only [R.Bus_AddNodeInterface_loop2, hb, set_add_eq]
    obtain ⟨h2, e1, e2, e3, e4, e5, e6⟩ := ih { h with buses := h.buses.set b (busSt bus0 (Reg.add bus0.messageStaticCANIDs c m)) }
      (busSt bus0 (Reg.add bus0.messageStaticCANIDs c m)) (by simp)
    refine ⟨h2, e1, e2, e3, e4, e5, ?_⟩
    intro k; rw [e6]
    by_cases hk : k = b
    · subst hk; simp [addAll, busSt]
    · simp [hk]

/-- the model world with the static CAN-ID index of bus `b` replaced -/
def withStatics (g : G) (b : Nat) (r : Reg Nat) : G :=
  match g.buses.get b with
  | some e => { g with buses := g.buses.set b { e with staticIDs := r } }
  | none => g

theorem any_clash (g : G) (bus : BusE) (l : List Nat) :
    (staticOf g l).any (fun p => bus.staticIDs.has p.1) = l.any (clashB g bus) := by
  induction l with
  | nil => rfl
  | cons m l ih =>
    rw [staticOf_cons, List.any_append, ih, List.any_cons]
    congr 1
    unfold clashB
    cases g.msgs.get m with
    | none => rfl
    | some e => cases hst : e.static <;> simp [hst]

theorem all_ok_iff (g : G) (bus : BusE) (l : List Nat) :
    l.all (okB g bus) = (!l.any (tooBigB g) && !l.any (clashB g bus)) := by
  induction l with
  | nil => rfl
  | cons m l ih =>
    simp only [List.all_cons, List.any_cons, ih, okB]
    cases tooBigB g m <;> cases clashB g bus m <;> cases l.any (tooBigB g) <;> cases l.any (clashB g bus) <;> rfl

/-- `stepBusAddIface` restated with the named predicates (definitionally the same function) -/
def addIfaceM (g : G) (b i : Nat) : G × Out :=
  match g.buses.get b with
  | none => (g, .unsupported)
  | some bus =>
    match g.ifaces.get i with
    | none => (g, .err .nil)
    | some ifc =>
      if ifc.parentBus.isSome then (g, .unsupported)
      else
        let n := ifc.node
        if bus.nodeNames.has (nodeName g n) then (g, .err .duplicated)
        else if bus.nodeIDs.has (nodeNid g n) then (g, .err .duplicated)
        else
          let msgs := ifc.sent.vals
          let tooBig : Bool := msgs.any (tooBigB g)
          let statics := staticOf g msgs
          let clash : Bool := statics.any (fun p => bus.staticIDs.has p.1)
          if tooBig ∧ clash then (g, .err .tooBig)
          else if tooBig then (g, .err .tooBig)
          else if clash then (g, .err .duplicated)
          else
            let bus' := { bus with staticIDs := addAll bus.staticIDs statics,
                                   nodeInts := bus.nodeInts.add n i,
                                   nodeNames := bus.nodeNames.add (nodeName g n) n,
                                   nodeIDs := bus.nodeIDs.add (nodeNid g n) n }
            ({ g with buses := g.buses.set b bus',
                      ifaces := g.ifaces.set i { ifc with parentBus := some b } }, .ok)

theorem stepBusAddIface_eq (g : G) (b i : Nat) : stepBusAddIface g b i = addIfaceM g b i := rfl

theorem addNI_main (g : G) (b i : Nat) (ord : List Nat) (bus : BusE) (ifc : IfaceE) (hc : Closed g)
    (hb : g.buses.get b = some bus) (hi : g.ifaces.get i = some ifc) (hperm : ord.Perm ifc.sent.vals)
    (hpb : ifc.parentBus = none) :
    match (stepBusAddIface g b i).2 with
    | .ok => ∃ h', R.Bus_AddNodeInterface (view g) b (some i) ord = .val (h', none) ∧
        Heq h' (view (withStatics (stepBusAddIface g b i).1 b (addAll bus.staticIDs (addAll [] (staticOf g ord)))))
    | .err c => ∃ e, R.Bus_AddNodeInterface (view g) b (some i) ord = .val (view g, some e) ∧
        (ofCause e.cause = c ∨ (c = .tooBig ∧ e.cause = .ErrIsDuplicated ∧
          ifc.sent.vals.any (tooBigB g) = true ∧ ifc.sent.vals.any (clashB g bus) = true))
    | _ => False := by
  obtain ⟨nd, hnd⟩ := Option.ne_none_iff_exists'.1 (hc.node i ifc hi)
  have hn1 : nodeName g ifc.node = nd.name := by simp [nodeName, hnd]
  have hn2 : nodeNid g ifc.node = nd.nid := by simp [nodeNid, hnd]
  have hex : ∀ m ∈ ord, g.msgs.get m ≠ none := fun m hm => hc.sent i ifc hi m (hperm.mem_iff.1 hm)
  have hany1 : ord.any (tooBigB g) = ifc.sent.vals.any (tooBigB g) := hperm.any_eq
  have hany2 : ord.any (clashB g bus) = ifc.sent.vals.any (clashB g bus) := hperm.any_eq
  rw [stepBusAddIface_eq]
  unfold R.Bus_AddNodeInterface addIfaceM
  simp only [hb, hi, hpb, view_ifaces, Option.map_some, vIface, view_nodes, hnd, vNode, Bus_verifyNodeName_eq,
    Bus_verifyNodeID_eq, Option.isSome_none, Bool.false_eq_true, ↓reduceIte, hn1, hn2]
  by_cases h1 : Reg.has bus.nodeNames nd.name = true
  · simp [h1, dupErr, ofCause]
  · simp only [Bool.not_eq_true] at h1
    by_cases h2 : Reg.has bus.nodeIDs nd.nid = true
    · simp [h1, h2, dupErr, ofCause]
    · simp only [Bool.not_eq_true] at h2
      simp only [h1, h2, Bool.false_eq_true, ↓reduceIte]
      obtain ⟨l1ok, l1err⟩ := addNI_loop1 g b i (some ifc.node) (GoMap.values ifc.sent) ord bus hb ord hex []
      rw [all_ok_iff, hany1, hany2] at l1ok l1err
      rw [any_clash]
      cases hA : ifc.sent.vals.any (tooBigB g) <;> cases hB : ifc.sent.vals.any (clashB g bus)
      · -- accepted
        simp only [hA, hB, Bool.not_false, Bool.and_self, forall_const, Bool.true_eq_false, false_implies] at l1ok
        simp only [Bool.false_eq_true, false_and, ↓reduceIte]
        rw [l1ok]
        simp only [R.Bus_AddNodeInterface_after1]
        obtain ⟨h2', e1, e2, e3, e4, e5, e6⟩ := addNI_loop2 b i (some ifc.node) (GoMap.values ifc.sent)
          (addAll [] (staticOf g ord)) ord (addAll [] (staticOf g ord)) (view g) (vBus bus) (by simp [hb])
        rw [e1]
        simp only [R.Bus_AddNodeInterface_after2, e4, e3, e6, view_ifaces, hi, Option.map_some, ↓reduceIte,
          get_set_self, view_nodes, hnd, vNode, set_add_eq]
        refine ⟨_, rfl, ?_⟩
        simp only [withStatics, get_set_self]
        refine ⟨?_, ?_, ?_, ?_, ?_⟩ <;> intro k
        · simp [e2]
        · by_cases hk : k = b <;> simp [hk, e6, busSt, vBus, set_set]
        · simp [e3]
        · by_cases hk : k = i <;> simp [hk, e4, vIface, hpb]
        · simp [e5]
      · simp only [hA, hB, Bool.not_false, Bool.not_true, Bool.and_false, Bool.false_eq_true, false_implies,
          forall_const] at l1err
        obtain ⟨e, he, hcase⟩ := l1err
        simp only [Bool.false_eq_true, false_and, ↓reduceIte, hany1, hany2, hA, hB] at hcase ⊢
        refine ⟨e, he, ?_⟩
        first | (left; simp_all [ofCause]; done) | (rcases hcase with ⟨hd, _⟩ | ⟨hd, _⟩ <;> simp_all [ofCause])
      · simp only [hA, hB, Bool.not_false, Bool.not_true, Bool.false_and, Bool.false_eq_true, false_implies,
          forall_const] at l1err
        obtain ⟨e, he, hcase⟩ := l1err
        simp only [Bool.false_eq_true, and_false, ↓reduceIte, hany1, hany2, hA, hB] at hcase ⊢
        refine ⟨e, he, ?_⟩
        first | (left; simp_all [ofCause]; done) | (rcases hcase with ⟨hd, _⟩ | ⟨hd, _⟩ <;> simp_all [ofCause])
      · simp only [hA, hB, Bool.not_true, Bool.and_self, Bool.false_eq_true, false_implies, forall_const] at l1err
        obtain ⟨e, he, hcase⟩ := l1err
        simp only [and_self, ↓reduceIte, hany1, hany2, hA, hB] at hcase ⊢
        refine ⟨e, he, ?_⟩
        rcases hcase with ⟨hd, _⟩ | ⟨hd, _⟩
        · left; simp [hd, ofCause]
        · right; simp [hd]

/-- the static index the generated loops build (in ANY visiting order) and the model's agree on
every look-up, provided no two sent messages of the interface share a static CAN-ID (which is
what `Inv`'s `SentI.static_get` says) -/
theorem statics_order (g : G) (r : Reg Nat) (ord vals : List Nat) (hperm : ord.Perm vals)
    (hf : ∀ k v v', (k, v) ∈ staticOf g vals → (k, v') ∈ staticOf g vals → v = v') (c : Nat) :
    Reg.get (addAll r (addAll [] (staticOf g ord))) c = Reg.get (addAll r (staticOf g vals)) c := by
  have hp : (staticOf g ord).Perm (staticOf g vals) := by unfold staticOf; exact hperm.filterMap _
  have hmem : ∀ p, p ∈ staticOf g ord ↔ p ∈ staticOf g vals := fun p => hp.mem_iff
  have hf' : ∀ k v v', (k, v) ∈ staticOf g ord → (k, v') ∈ staticOf g ord → v = v' :=
    fun k v v' h1 h2 => hf k v v' ((hmem _).1 h1) ((hmem _).1 h2)
  have hnd : (addAll ([] : Reg Nat) (staticOf g ord)).keys.Nodup := addAll_nodup Reg.nodup_nil _
  have hloc : ∀ k v, (k, v) ∈ addAll ([] : Reg Nat) (staticOf g ord) ↔ (k, v) ∈ staticOf g vals := by
    intro k v
    rw [Reg.mem_iff_get hnd, addAll_get hf', hmem]
    simp
  have hfl : ∀ k v v', (k, v) ∈ addAll ([] : Reg Nat) (staticOf g ord) → (k, v') ∈ addAll ([] : Reg Nat) (staticOf g ord) → v = v' :=
    fun k v v' h1 h2 => hf k v v' ((hloc k v).1 h1) ((hloc k v').1 h2)
  apply Option.ext
  intro v
  rw [addAll_get hfl, addAll_get hf]
  simp only [hloc]

end Acme.GenR
