/-
Link between the generated comparators and the ordering logic of C15 (Acme.Core.Det,
Acme.Proofs.Det, Acme.Props.C15):

  * `any_sort` / `sort_perm`: the statements of `C15_any_sort` / `C15_perm_*` for ANY entity type
    `α`, ANY key view `view : α → Keys` and ANY comparator `c` on the keys that is total and
    tie-free up to an id key — i.e. for every generated comparator that ends in the entity id
    (`any_sort_generated`, `sort_perm_generated`, through `all_good`);
  * `leInt_eq_generated`, `leStr_eq_generated`: the two comparators of the hand-written model
    (`Acme.Det.leInt`, `Acme.Det.leStr`, about which C15 is stated) ARE generated comparators of
    the source (messages by (id, entity id); buses by (name, entity id)), seen through the
    obvious key view of `Acme.Det.Ent`.
-/
import Acme.Proofs.GenComparators
import Acme.Core.Det

namespace Acme.GenCmp

open Acme.CmpLib Acme.Gen

/-- the `≤` that `slices.SortFunc(xs, cmp)` sorts by: `cmp(a, b) ≤ 0` on the keys of the entities -/
def leOf {α K : Type} (view : α → K) (c : K → K → Int) (a b : α) : Bool :=
  decide (c (view a) (view b) ≤ 0)

/-- elements of a list whose keys `k` are pairwise different are determined by `k` -/
theorem eq_of_key_eq {α ι : Type} (k : α → ι) :
    ∀ (l : List α), (l.map k).Nodup → ∀ a ∈ l, ∀ b ∈ l, k a = k b → a = b
  | [], _, a, ha, _, _, _ => by cases ha
  | x :: xs, hnd, a, ha, b, hb, hid => by
    rw [List.map_cons, List.nodup_cons] at hnd
    obtain ⟨hx, hxs⟩ := hnd
    rcases List.mem_cons.mp ha with rfl | ha'
    · rcases List.mem_cons.mp hb with rfl | hb'
      · rfl
      · exact absurd (hid ▸ List.mem_map_of_mem (f := k) hb') hx
    · rcases List.mem_cons.mp hb with rfl | hb'
      · exact absurd (hid ▸ List.mem_map_of_mem (f := k) ha') hx
      · exact eq_of_key_eq k xs hxs a ha' b hb' hid

theorem leOf_trans {α K : Type} (view : α → K) {c : K → K → Int} (ht : TotalCmp c) (a b d : α)
    (h1 : leOf view c a b = true) (h2 : leOf view c b d = true) : leOf view c a d = true := by
  simp only [leOf, decide_eq_true_eq] at *
  exact ht.trans _ _ _ h1 h2

theorem leOf_total {α K : Type} (view : α → K) {c : K → K → Int} (ht : TotalCmp c) (a b : α) :
    (leOf view c a b || leOf view c b a) = true := by
  simp only [leOf, Bool.or_eq_true, decide_eq_true_eq]
  exact ht.total _ _

/-- Generalisation of `C15_any_sort`: every sorted permutation of the collected entities is THE
    merge-sorted list, for any total comparator whose ties imply equal ids, provided the ids of
    the collected entities are pairwise different. -/
theorem any_sort {α K ι : Type} (view : α → K) (c : K → K → Int) (idk : K → ι)
    (ht : TotalCmp c) (hi : TiesId idk c) (l s : List α)
    (hid : (l.map (fun x => idk (view x))).Nodup) (hp : s.Perm l)
    (hs : s.Pairwise (fun a b => leOf view c a b = true)) :
    s = l.mergeSort (leOf view c) := by
  have hm : (l.mergeSort (leOf view c)).Pairwise (fun a b => leOf view c a b = true) :=
    List.pairwise_mergeSort (leOf_trans view ht) (leOf_total view ht) l
  have hpm : s.Perm (l.mergeSort (leOf view c)) := hp.trans (List.mergeSort_perm l _).symm
  refine List.Perm.eq_of_pairwise ?_ hs hm hpm
  intro a b ha hb hab hba
  have ha' : a ∈ l := hp.mem_iff.mp ha
  have hb' : b ∈ l := (List.mergeSort_perm l _).mem_iff.mp hb
  simp only [leOf, decide_eq_true_eq] at hab hba
  have hz : c (view a) (view b) = 0 := by
    have := ht.antisymm (view a) (view b)
    omega
  exact eq_of_key_eq (fun x => idk (view x)) l hid a ha' b hb' (hi _ _ hz)

/-- Generalisation of `C15_perm_*`: the sorted list does not depend on the order in which the
    map yielded the entities. -/
theorem sort_perm {α K ι : Type} (view : α → K) (c : K → K → Int) (idk : K → ι)
    (ht : TotalCmp c) (hi : TiesId idk c) (l₁ l₂ : List α) (hp : l₁.Perm l₂)
    (hid : (l₁.map (fun x => idk (view x))).Nodup) :
    l₁.mergeSort (leOf view c) = l₂.mergeSort (leOf view c) := by
  have hid₂ : (l₂.map (fun x => idk (view x))).Nodup := (hp.map _).nodup_iff.mp hid
  refine any_sort view c idk ht hi l₂ _ hid₂ ((List.mergeSort_perm l₁ _).trans hp) ?_
  exact List.pairwise_mergeSort (leOf_trans view ht) (leOf_total view ht) l₁

/-- … for every generated comparator that ends in the entity id -/
theorem any_sort_generated (g : AnyCmp) (hg : g ∈ Cmp.all) (idk : g.Keys → String)
    (hk : g.idKey = some idk) {α : Type} (view : α → g.Keys) (l s : List α)
    (hid : (l.map (fun x => idk (view x))).Nodup) (hp : s.Perm l)
    (hs : s.Pairwise (fun a b => leOf view g.cmp a b = true)) :
    s = l.mergeSort (leOf view g.cmp) := by
  have h := all_good g hg
  unfold AnyCmp.Good at h
  rw [hk] at h
  exact any_sort view g.cmp idk h.1 h.2 l s hid hp hs

theorem sort_perm_generated (g : AnyCmp) (hg : g ∈ Cmp.all) (idk : g.Keys → String)
    (hk : g.idKey = some idk) {α : Type} (view : α → g.Keys) (l₁ l₂ : List α) (hp : l₁.Perm l₂)
    (hid : (l₁.map (fun x => idk (view x))).Nodup) :
    l₁.mergeSort (leOf view g.cmp) = l₂.mergeSort (leOf view g.cmp) := by
  have h := all_good g hg
  unfold AnyCmp.Good at h
  rw [hk] at h
  exact sort_perm view g.cmp idk h.1 h.2 l₁ l₂ hp hid

/-! ### the comparators of the hand-written model are generated comparators -/

theorem stringsCompare_le (a b : String) : stringsCompare a b ≤ 0 ↔ a ≤ b := by
  unfold stringsCompare
  by_cases he : a = b
  · simp [he]
  · by_cases hl : a < b
    · have : a ≤ b := String.not_lt.mp (fun h' => String.lt_irrefl _ (String.lt_trans hl h'))
      simp [he, hl, this]
    · have : ¬ a ≤ b := fun h => hl (Std.lt_of_le_of_ne h he)
      simp [he, hl, this]

/-- `Acme.Det.Ent Int` seen as the keys of `NodeInterface.SentMessages`' comparator -/
def viewInt (e : Acme.Det.Ent Int) : Cmp.node_iterface_NodeInterface_SentMessages_1_Keys := ⟨e.key, e.id⟩

/-- `Acme.Det.Ent String` seen as the keys of `Network.Buses`' comparator -/
def viewStr (e : Acme.Det.Ent String) : Cmp.network_Network_Buses_1_Keys := ⟨e.key, e.id⟩

/-- `leInt` (the comparator `C15_any_sort` / `C15_perm_int` are stated about) is the generated
    comparator of node_iterface.go `SentMessages`: message id, then entity id. -/
theorem leInt_eq_generated (a b : Acme.Det.Ent Int) :
    Acme.Det.leInt a b = leOf viewInt Cmp.node_iterface_NodeInterface_SentMessages_1 a b := by
  unfold Acme.Det.leInt leOf viewInt Cmp.node_iterface_NodeInterface_SentMessages_1
  simp only [Cmp.orCompare, Cmp.compareEntityIDs]
  by_cases h1 : a.key < b.key
  · have : a.key - b.key ≠ 0 := by omega
    have h' : a.key - b.key ≤ 0 := by omega
    simp [h1, this, h']
  · by_cases h2 : b.key < a.key
    · have : a.key - b.key ≠ 0 := by omega
      have h' : ¬ a.key - b.key ≤ 0 := by omega
      simp [h1, h2, this, h']
    · have : a.key - b.key = 0 := by omega
      simp [h1, h2, this, stringsCompare_le]

/-- `leStr` is the generated comparator of network.go `Buses`: name, then entity id. -/
theorem leStr_eq_generated (a b : Acme.Det.Ent String) :
    Acme.Det.leStr a b = leOf viewStr Cmp.network_Network_Buses_1 a b := by
  unfold Acme.Det.leStr leOf viewStr Cmp.network_Network_Buses_1
  simp only [Cmp.orCompare, Cmp.compareEntityIDs]
  by_cases h1 : a.key < b.key
  · have hne : ¬ a.key = b.key := fun h => by rw [h] at h1; exact String.lt_irrefl _ h1
    have hs : stringsCompare a.key b.key = -1 := by simp [stringsCompare, hne, h1]
    simp [h1, hs]
  · by_cases h2 : b.key < a.key
    · have hne : ¬ a.key = b.key := fun h => by rw [h] at h2; exact String.lt_irrefl _ h2
      have hs : stringsCompare a.key b.key = 1 := by simp [stringsCompare, hne, h1]
      simp [h1, h2, hs]
    · have he : a.key = b.key := String.le_antisymm (String.not_lt.mp h2) (String.not_lt.mp h1)
      have hs : stringsCompare a.key b.key = 0 := by simp [stringsCompare, he]
      simp [h1, h2, hs, stringsCompare_le]

/-- `C15_any_sort`, now as a statement about the comparator of the SOURCE: any correct sort of
    the collected messages under the generated comparator of `SentMessages` is the merge-sorted
    list of the model. -/
theorem any_sort_int_generated (l s : List (Acme.Det.Ent Int)) (hid : (l.map (·.id)).Nodup)
    (hp : s.Perm l)
    (hs : s.Pairwise (fun a b => leOf viewInt Cmp.node_iterface_NodeInterface_SentMessages_1 a b = true)) :
    s = l.mergeSort Acme.Det.leInt := by
  have hfun : Acme.Det.leInt = leOf viewInt Cmp.node_iterface_NodeInterface_SentMessages_1 := by
    funext a b; exact leInt_eq_generated a b
  rw [hfun]
  exact any_sort viewInt _ (fun k => k.entityID) total_node_iterface_NodeInterface_SentMessages_1
    ties_node_iterface_NodeInterface_SentMessages_1 l s hid hp hs

theorem any_sort_str_generated (l s : List (Acme.Det.Ent String)) (hid : (l.map (·.id)).Nodup)
    (hp : s.Perm l)
    (hs : s.Pairwise (fun a b => leOf viewStr Cmp.network_Network_Buses_1 a b = true)) :
    s = l.mergeSort Acme.Det.leStr := by
  have hfun : Acme.Det.leStr = leOf viewStr Cmp.network_Network_Buses_1 := by
    funext a b; exact leStr_eq_generated a b
  rw [hfun]
  exact any_sort viewStr _ (fun k => k.entityID) total_network_Network_Buses_1
    ties_network_Network_Buses_1 l s hid hp hs

end Acme.GenCmp
