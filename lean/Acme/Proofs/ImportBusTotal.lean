/-
Bus-level importer model, part 4: the cause `internal` (a dangling object index) is never the
answer of `importBus`: every entry of `signalEnums` points to an enum object of the store.
Core Lean only.
-/
import Acme.Proofs.ImportBusMsg

namespace Acme.ImportBus
open Acme.Arith
open Acme.Import (sortBy insBy)

/-- every entry of `signalEnums` points into the enum store -/
def SEOK (st : St) : Prop :=
  ∀ (key : Nat × String) (eid : Nat), st.sigEnums.lookup key = some eid → ∃ e, st.enums[eid]? = some e

theorem SEOK.mono {st st' : St} (hle : StLe st st') (h : SEOK st) : SEOK st' := by
  intro key eid hl
  rw [hle.2.2.1] at hl
  obtain ⟨e, he⟩ := h key eid hl
  obtain ⟨e', he', _⟩ := hle.2.2.2 eid e he
  exact ⟨e', he'⟩

theorem checkValues_ne : ∀ (l : List DVal) (is : List Nat) (ns : List String),
    checkValues is ns l ≠ .error .internal
  | [], _, _ => by simp [checkValues]
  | v :: r, is, ns => by
    unfold checkValues
    split
    · simp
    · split
      · simp
      · exact checkValues_ne r _ _

theorem importTables_ne : ∀ (l : List DTable), importTables l ≠ .error .internal
  | [] => by simp [importTables]
  | t :: r => by
    unfold importTables
    split
    · rename_i e h
      intro heq
      cases heq
      unfold importTable at h
      split at h
      · rename_i e' h'
        cases h
        exact checkValues_ne _ _ _ h'
      · cases h
    · split
      · rename_i e' h'
        intro heq
        cases heq
        exact importTables_ne r h'
      · simp

theorem importEncs_ne {reg : List IEnum} : ∀ (l : List DEnc) (enums : List IEnum) (se : SigEnums),
    importEncs reg enums se l ≠ .error .internal
  | [], _, _ => by simp [importEncs]
  | c :: r, enums, se => by
    unfold importEncs
    split
    · rename_i e h
      intro heq
      cases heq
      unfold importEnc at h
      simp only at h
      split at h
      · cases h
      · split at h
        · rename_i e' h'
          cases h
          exact checkValues_ne _ _ _ h'
        · cases h
    · exact importEncs_ne r _ _

theorem importNodes_ne (cs : List DComment) (names : List String) :
    importNodes cs names ≠ .error .internal := by
  have hadd : ∀ (ns : List INode) (n : INode), addNode ns n ≠ .error .internal := by
    intro ns n
    unfold addNode
    split
    · simp
    · split <;> simp
  have hadds : ∀ (l : List (String × Nat)) (ns : List INode), addNodes cs ns l ≠ .error .internal := by
    intro l
    induction l with
    | nil => intro ns; simp [addNodes]
    | cons p r ih =>
      intro ns
      obtain ⟨name, idx⟩ := p
      unfold addNodes
      split
      · exact ih ns
      · split
        · rename_i e h
          intro heq
          cases heq
          exact hadd _ _ h
        · exact ih _
  unfold importNodes
  split
  · rename_i e h
    intro heq
    cases heq
    exact hadds _ _ h
  · split
    · rename_i e h
      intro heq
      cases heq
      exact hadd _ _ h
    · simp

theorem firstLoop_ne {cap : Nat} : ∀ (l : List DSignal) (seen : List String),
    firstLoop cap seen l ≠ .error .internal
  | [], _ => by simp [firstLoop]
  | s :: r, seen => by
    unfold firstLoop
    split
    · simp
    · split
      · simp
      · exact firstLoop_ne r _

theorem importEnumRef_ne {st : St} {eid size : Nat} {e : IEnum} (he : st.enums[eid]? = some e) :
    importEnumRef st eid size ≠ .error .internal := by
  intro h
  unfold importEnumRef at h
  rw [he] at h
  simp only at h
  split at h
  · cases h
  · split at h
    · cases h
    · split at h
      · cases h
      · split at h
        · split at h <;> cases h
        · split at h <;> cases h

theorem importSignal_ne {cs : List DComment} {id : Nat} {st : St} {d : DSignal} (hse : SEOK st) :
    importSignal cs id st d ≠ .error .internal := by
  intro h
  unfold importSignal at h
  split at h
  · cases h
  · simp only at h
    split at h
    · rename_i eid hl
      obtain ⟨e, he⟩ := hse _ _ hl
      split at h
      · rename_i e' h'
        cases h
        exact importEnumRef_ne he h'
      · cases h
    · split at h
      · rename_i e' h'
        cases h
        unfold importType at h'
        split at h'
        · cases h'
        · split at h'
          · cases h'
          · split at h' <;> cases h'
      · cases h

theorem importSignals_ne {cs : List DComment} {id : Nat} : ∀ (l : List DSignal) {st : St} {lastEnd : Nat},
    WF st → SEOK st → importSignals cs id st lastEnd l ≠ .error .internal
  | [], _, _, _, _ => by simp [importSignals]
  | d :: r, st, lastEnd, hw, hse => by
    intro h
    unfold importSignals at h
    split at h
    · rename_i e h'
      cases h
      exact importSignal_ne hse h'
    · rename_i st1 s h1
      obtain ⟨hw1, hle1, _⟩ := importSignal_spec hw h1
      split at h
      · cases h
      · split at h
        · rename_i e h'
          cases h
          exact importSignals_ne r hw1 (hse.mono hle1) h'
        · cases h

theorem importMessage_ne {nn : List String} {cs : List DComment} {st : St} {done : List IMessage} {m : DMessage}
    (hw : WF st) (hse : SEOK st) : importMessage nn cs st done m ≠ .error .internal := by
  intro h
  unfold importMessage at h
  simp only at h
  split at h
  · rename_i e h'
    cases h
    exact firstLoop_ne _ _ h'
  · split at h
    · cases h
    · split at h
      · cases h
      · split at h
        · cases h
        · split at h
          · cases h
          · split at h
            · cases h
            · split at h
              · cases h
              · split at h
                · rename_i e h'
                  cases h
                  exact importSignals_ne _ hw hse h'
                · cases h

theorem importMessages_ne {nn : List String} {cs : List DComment} : ∀ (l : List DMessage) {st : St}
    {done : List IMessage}, WF st → SEOK st → importMessages nn cs st done l ≠ .error .internal
  | [], _, _, _, _ => by simp [importMessages]
  | m :: r, st, done, hw, hse => by
    intro h
    unfold importMessages at h
    split at h
    · rename_i e h'
      cases h
      exact importMessage_ne hw hse h'
    · rename_i st1 im h1
      obtain ⟨hw1, hle1, _, _⟩ := importMessage_spec hw h1
      exact importMessages_ne r hw1 (hse.mono hle1) h

/-- the cause `internal` is never the answer of the model -/
theorem importBus_ne_internal (f : DFile) : importBus f ≠ .error .internal := by
  intro h
  unfold importBus at h
  split at h
  · rename_i e h'
    cases h
    exact importTables_ne _ h'
  · rename_i reg _
    split at h
    · rename_i e h'
      cases h
      exact importEncs_ne _ _ _ h'
    · rename_i enums se h2
      split at h
      · rename_i e h'
        cases h
        exact importNodes_ne _ _ h'
      · split at h
        · rename_i e h'
          cases h
          refine importMessages_ne _ (wf_init enums se) ?_ h'
          intro key eid hl
          obtain ⟨kid, kname⟩ := key
          obtain ⟨_, hkeys⟩ := importEncs_spec f.encs (Ext.refl reg) h2
          have hk := hkeys kid kname
          cases hv : encOf f.encs kid kname with
          | some vals =>
            rw [hv] at hk
            obtain ⟨eid', e, hl', hg, _⟩ := hk
            have : (initSt enums se).sigEnums.lookup (kid, kname) = some eid' := by simpa [initSt] using hl'
            rw [this] at hl
            cases hl
            exact ⟨e, by simpa [initSt] using hg⟩
          | none =>
            rw [hv] at hk
            simp only [List.lookup_nil] at hk
            have : (initSt enums se).sigEnums.lookup (kid, kname) = none := by simpa [initSt] using hk
            rw [this] at hl
            cases hl
        · cases h

end Acme.ImportBus
