/-
The generated exporter against the hand model, part 5: `exportMessage` against `exportMsgN` / `exportAny`.
-/
import Acme.Proofs.GenExporter4

namespace Acme.GenX
open Acme.Import Acme.XSem Acme.Conv Acme.Gen Acme.GoSem

theorem X_exportItem (P : Pay) (pm : ParentMsg) (be : Bool) (hpm : pm.byteOrder = bo be) (N : List MuxNode) (mid : Nat)
    (x : Item) (h : ItemOK be N x) :
    Exports pm mid (viewItem P N x) (exportItemsN be N [x]).1 (exportItemsN be N [x]).2 := by
  cases x with
  | sig l =>
    have := X_exportSignal_leaf P pm be hpm l.name l.start l.size false h.1 h.2 mid
    exact this
  | mux n =>
    have := X_exportSignal_mux P pm be hpm N mid (N.length + 1) false n h
    simpa [exportItemsN, viewItem] using this

theorem exportItemsN_cons (be : Bool) (N : List MuxNode) (x : Item) (r : List Item) :
    exportItemsN be N (x :: r) =
      ((exportItemsN be N [x]).1 ++ (exportItemsN be N r).1, (exportItemsN be N [x]).2 ++ (exportItemsN be N r).2) := by
  cases x <;> simp [exportItemsN]

theorem X_exportMessage_loop1 (P : Pay) (pm : ParentMsg) (be : Bool) (hpm : pm.byteOrder = bo be) (N : List MuxNode)
    (mid : Nat) : ∀ (items : List Item) (st : St), (∀ x ∈ items, ItemOK be N x) →
      ∃ (new : List DbcSignal) (xs : List Acme.Dbc.ExtendedMux) (st' : St),
        X.exportMessage_loop1 id pm mid (items.map (viewItem P N)) st = .val st' ∧
        st'.curSignals = st.curSignals ++ new ∧ new.map sigView = (exportItemsN be N items).1 ∧
        st'.extendedMuxes = st.extendedMuxes ++ xs ∧ xs.map extView = (exportItemsN be N items).2 ∧
        (∀ e ∈ xs, e.messageID = mid) ∧ st'.messages = st.messages
  | [], st, _ => by
    rw [List.map_nil, X.exportMessage_loop1]
    exact ⟨[], [], st, rfl, by simp, rfl, by simp, rfl, by simp, rfl⟩
  | x :: r, st, h => by
    rw [List.map_cons, X.exportMessage_loop1]
    obtain ⟨new, xs, st1, e1, e2, e3, e4, e5, e6, e7⟩ :=
      X_exportItem P pm be hpm N mid x (h x (List.mem_cons_self ..)) st
    rw [e1]
    simp only [bind_val]
    obtain ⟨new2, xs2, st2, f1, f2, f3, f4, f5, f6, f7⟩ :=
      X_exportMessage_loop1 P pm be hpm N mid r st1 (fun y hy => h y (List.mem_cons_of_mem _ hy))
    refine ⟨new ++ new2, xs ++ xs2, st2, f1, ?_, ?_, ?_, ?_, ?_, ?_⟩
    · rw [f2, e2, List.append_assoc]
    · rw [exportItemsN_cons, List.map_append, e3, f3]
    · rw [f4, e4, List.append_assoc]
    · rw [exportItemsN_cons, List.map_append, e5, f5]
    · intro e he
      rcases List.mem_append.1 he with h' | h'
      · exact e6 e h'
      · exact f6 e h'
    · rw [f7, e7]

theorem X_exportMessage_signals (P : Pay) (t : ITree) (h : TreeOK t) (st0 : St) :
    ∃ sigs exts st, X.exportMessage id (viewMsg P t) st0 = .val st ∧
      st.messages = st0.messages ++ [{ id := t.id, name := P.msgName, size := t.sizeByte.toNat,
                                        transmitter := P.sender, signals := sigs }] ∧
      st.extendedMuxes = st0.extendedMuxes ++ exts ∧
      (∀ e ∈ exts, e.messageID = t.id) ∧
      dmsgOf { id := t.id, size := t.sizeByte.toNat, signals := sigs } exts = exportAny t := by
  obtain ⟨hsz, hitems⟩ := h
  unfold X.exportMessage viewMsg
  simp only []
  have core : ∀ stc : St, stc.messages = st0.messages → stc.extendedMuxes = st0.extendedMuxes →
      ∃ sigs exts st,
        XSem.bind (X.exportMessage_loop1 id { byteOrder := bo t.bigEndian, receivers := P.receivers } t.id
            (t.top.map (viewItem P t.nested)) ({ stc with curSignals := [] } : St))
          (fun (st : St) => Res.val { st with messages := st.messages ++
            [({ id := t.id, name := P.msgName, size := t.sizeByte.toNat, transmitter := P.sender,
                signals := st.curSignals } : DbcMessage)] })
          = .val st ∧
        st.messages = st0.messages ++ [{ id := t.id, name := P.msgName, size := t.sizeByte.toNat,
                                          transmitter := P.sender, signals := sigs }] ∧
        st.extendedMuxes = st0.extendedMuxes ++ exts ∧
        (∀ e ∈ exts, e.messageID = t.id) ∧
        dmsgOf { id := t.id, size := t.sizeByte.toNat, signals := sigs } exts = exportAny t := by
    intro stc hm hx
    obtain ⟨new, xs, st1, e1, e2, e3, e4, e5, e6, e7⟩ :=
      X_exportMessage_loop1 P { byteOrder := bo t.bigEndian, receivers := P.receivers } t.bigEndian rfl t.nested t.id t.top
        { stc with curSignals := [] } hitems
    rw [e1]
    simp only [bind_val]
    refine ⟨new, xs, _, rfl, ?_, ?_, e6, ?_⟩
    · show st1.messages ++ _ = _
      rw [e7, e2]
      show stc.messages ++ _ = _
      rw [hm]
      rfl
    · show st1.extendedMuxes = _
      rw [e4]
      show stc.extendedMuxes ++ _ = _
      rw [hx]
    · rw [exportAny_eq_N]
      unfold dmsgOf exportMsgN
      simp only [e3, e5]
  by_cases hd : P.msgDesc = ""
  · simp only [hd, ne_eq, not_true_eq_false, if_false, id, u32_eq hsz]
    exact core st0 rfl rfl
  · simp only [hd, ne_eq, not_false_eq_true, if_true, id, u32_eq hsz]
    exact core _ rfl rfl
