/-
The group lists of a saved multiplexer, read back by the loader: facts about the headers
(`KH`: id, position, groups) of the children only.
-/
import Acme.Proofs.SaveBasic

namespace Acme.Save
open List

/-! ## parametricity: the payload carried next to a header does not influence the layout -/

section Param
variable {α β : Type} (f : α → β)

theorem groupOf_map (ps : List (KH × α)) (k : Nat) :
    groupOf (ps.map fun p => (p.1, f p.2)) k = (groupOf ps k).map fun p => (p.1, f p.2) := by
  simp only [groupOf, List.filter_map, Function.comp_def]
  exact sortBy_map (fun a b : KH × α => khLe a.1 b.1) (fun a b : KH × β => khLe a.1 b.1)
    (fun p => (p.1, f p.2)) (fun _ _ => rfl) _

theorem muxSignals_map (gc : Nat) (ps : List (KH × α)) :
    muxSignals gc (ps.map fun p => (p.1, f p.2)) = (muxSignals gc ps).map f := by
  simp only [muxSignals, groupOf_map, List.map_flatMap, List.filter_map, List.map_map, Function.comp_def]

theorem muxFixed_map (ps : List (KH × α)) :
    muxFixed (ps.map fun p => (p.1, f p.2)) = muxFixed ps := by
  simp only [muxFixed, groupOf_map, List.filter_map, List.map_map, Function.comp_def]

theorem muxGroups_map (gc : Nat) (ps : List (KH × α)) :
    muxGroups gc (ps.map fun p => (p.1, f p.2)) = muxGroups gc ps := by
  simp only [muxGroups, groupOf_map, List.map_map, Function.comp_def]

end Param

/-! ## membership in a group -/

section Groups
variable {α : Type}

theorem mem_groupOf {ps : List (KH × α)} {k : Nat} {p : KH × α} :
    p ∈ groupOf ps k ↔ p ∈ ps ∧ p.1.inGrp k = true := by
  simp [groupOf, mem_sortBy, List.mem_filter]

theorem groupOf_perm (ps : List (KH × α)) (k : Nat) :
    groupOf ps k ~ ps.filter (fun p => p.1.inGrp k) := sortBy_perm _ _

theorem nodup_ids_groupOf {ps : List (KH × α)} (hn : (ps.map (·.1.id)).Nodup) (k : Nat) :
    ((groupOf ps k).map (·.1.id)).Nodup :=
  (((groupOf_perm ps k).map _).nodup_iff).mpr ((hn.sublist ((List.filter_sublist).map _)))

/-- two entries of a list with distinct ids that have the same id are the same entry -/
theorem eq_of_id_eq {ps : List (KH × α)} (hn : (ps.map (·.1.id)).Nodup) {p q : KH × α}
    (hp : p ∈ ps) (hq : q ∈ ps) (h : p.1.id = q.1.id) : p = q := by
  induction ps with
  | nil => simp at hp
  | cons x xs ih =>
    simp only [List.map_cons, List.nodup_cons] at hn
    rcases List.mem_cons.mp hp with rfl | hp' <;> rcases List.mem_cons.mp hq with rfl | hq'
    · rfl
    · exact absurd (List.mem_map.mpr ⟨q, hq', h.symm⟩) hn.1
    · exact absurd (List.mem_map.mpr ⟨p, hp', h⟩) hn.1
    · exact ih hn.2 hp' hq'

theorem filter_id_of_mem {l : List (KH × α)} (hn : (l.map (·.1.id)).Nodup) {p : KH × α} (hp : p ∈ l) :
    l.filter (fun q => q.1.id == p.1.id) = [p] := by
  induction l with
  | nil => simp at hp
  | cons x xs ih =>
    simp only [List.map_cons, List.nodup_cons] at hn
    rcases List.mem_cons.mp hp with rfl | hp'
    · rw [List.filter_cons_of_pos (by simp)]
      congr 1
      rw [List.filter_eq_nil_iff]
      intro q hq hc
      exact hn.1 (List.mem_map.mpr ⟨q, hq, by simpa using hc⟩)
    · have : x.1.id ≠ p.1.id := fun he => hn.1 (List.mem_map.mpr ⟨p, hp', he.symm⟩)
      rw [List.filter_cons_of_neg (by simpa using this)]
      exact ih hn.2 hp'

theorem filter_id_of_not_mem {l : List (KH × α)} {id : Id} (h : ∀ q ∈ l, q.1.id ≠ id) :
    l.filter (fun q => q.1.id == id) = [] := by
  rw [List.filter_eq_nil_iff]
  intro q hq hc
  exact h q hq (by simpa using hc)

end Groups

/-! ## the triples the loader walks -/

section Triples
variable {α : Type}

/-- the refs of a group, as saved -/
def refsOf (ps : List (KH × α)) (k : Nat) : List (Id × Nat) :=
  (groupOf ps k).map (fun p => (p.1.id, u32 p.1.pos))

theorem muxGroups_eq (gc : Nat) (ps : List (KH × α)) :
    muxGroups gc ps = (List.range gc).map (refsOf ps) := rfl

theorem dedupLast_refsOf {ps : List (KH × α)} (hn : (ps.map (·.1.id)).Nodup) (k : Nat) :
    dedupLast (·.1) (refsOf ps k) = refsOf ps k := by
  apply dedupLast_of_nodup
  simp only [refsOf, List.map_map, Function.comp_def]
  exact nodup_ids_groupOf hn k

theorem triplesFrom_range' {ps : List (KH × α)} (hn : (ps.map (·.1.id)).Nodup) (a n : Nat) :
    triplesFrom a ((List.range' a n).map (refsOf ps)) =
      (List.range' a n).flatMap fun k => (refsOf ps k).map fun r => (k, r.1, r.2) := by
  induction n generalizing a with
  | zero => rfl
  | succ n ih =>
    simp only [List.range'_succ, List.map_cons, triplesFrom, List.flatMap_cons, dedupLast_refsOf hn, ih]

/-- the triples of a saved multiplexer -/
def triplesOf (gc : Nat) (ps : List (KH × α)) : List (Nat × Id × Nat) :=
  (List.range gc).flatMap fun k => (groupOf ps k).map fun p => (k, p.1.id, u32 p.1.pos)

theorem triplesFrom_muxGroups {ps : List (KH × α)} (hn : (ps.map (·.1.id)).Nodup) (gc : Nat) :
    triplesFrom 0 (muxGroups gc ps) = triplesOf gc ps := by
  rw [muxGroups_eq, List.range_eq_range', triplesFrom_range' hn]
  simp only [triplesOf, List.range_eq_range', refsOf, List.map_map, Function.comp_def]

theorem mem_triplesOf {gc : Nat} {ps : List (KH × α)} {t : Nat × Id × Nat} :
    t ∈ triplesOf gc ps ↔
      t.1 < gc ∧ ∃ p ∈ ps, p.1.inGrp t.1 = true ∧ t.2.1 = p.1.id ∧ t.2.2 = u32 p.1.pos := by
  obtain ⟨k, id, pos⟩ := t
  simp only [triplesOf, List.mem_flatMap, List.mem_range, List.mem_map, mem_groupOf, Prod.mk.injEq]
  constructor
  · rintro ⟨k', hk, p, ⟨hp, hg⟩, rfl, rfl, rfl⟩
    exact ⟨hk, p, hp, hg, rfl, rfl⟩
  · rintro ⟨hk, p, hp, hg, rfl, rfl⟩
    exact ⟨k, hk, p, ⟨hp, hg⟩, rfl, rfl, rfl⟩

/-- a header is in some group below the group count -/
def KH.placed (gc : Nat) (h : KH) : Prop := ∃ k, k < gc ∧ h.inGrp k = true

theorem firstPos_triplesOf {gc : Nat} {ps : List (KH × α)} (hn : (ps.map (·.1.id)).Nodup)
    {p : KH × α} (hp : p ∈ ps) (hpl : p.1.placed gc) :
    firstPos (triplesOf gc ps) p.1.id = some (u32 p.1.pos) := by
  unfold firstPos
  cases hf : (triplesOf gc ps).find? (fun t => t.2.1 == p.1.id) with
  | none =>
    exfalso
    rw [List.find?_eq_none] at hf
    obtain ⟨k, hk, hg⟩ := hpl
    exact hf (k, p.1.id, u32 p.1.pos) (mem_triplesOf.mpr ⟨hk, p, hp, hg, rfl, rfl⟩) (by simp)
  | some t =>
    have hm := List.mem_of_find?_eq_some hf
    have hid : t.2.1 = p.1.id := by simpa using List.find?_some hf
    obtain ⟨_, q, hq, _, hqid, hqpos⟩ := mem_triplesOf.mp hm
    have : q = p := eq_of_id_eq hn hq hp (by rw [← hqid, hid])
    subst this
    simp [hqpos]

theorem flatMap_ite_singleton (c : Nat → Bool) (l : List Nat) :
    (l.flatMap fun k => if c k then [k] else []) = l.filter c := by
  induction l with
  | nil => rfl
  | cons x xs ih =>
    simp only [List.flatMap_cons, ih, List.filter_cons]
    cases c x <;> simp

theorem groupsOf_triplesOf {gc : Nat} {ps : List (KH × α)} (hn : (ps.map (·.1.id)).Nodup)
    {p : KH × α} (hp : p ∈ ps) :
    groupsOf (triplesOf gc ps) p.1.id = (List.range gc).filter (fun k => p.1.inGrp k) := by
  simp only [groupsOf, triplesOf, List.filter_flatMap, List.map_flatMap, List.filter_map, List.map_map,
    Function.comp_def]
  rw [← flatMap_ite_singleton]
  congr 1
  funext k
  by_cases hg : p.1.inGrp k = true
  · have hm : p ∈ groupOf ps k := mem_groupOf.mpr ⟨hp, hg⟩
    rw [filter_id_of_mem (nodup_ids_groupOf hn k) hm]
    simp [hg]
  · rw [filter_id_of_not_mem]
    · simp [hg]
    · intro q hq hid
      obtain ⟨hq1, hq2⟩ := mem_groupOf.mp hq
      have : q = p := eq_of_id_eq hn hq1 hp hid
      subst this
      exact hg hq2

/-! ### the listed groups of a child are read back -/

theorem ascB_iff (l : List Nat) : ascB l = true ↔ l.Pairwise (· < ·) := by
  induction l with
  | nil => simp [ascB]
  | cons a r ih =>
    cases r with
    | nil => simp [ascB]
    | cons b r' =>
      simp only [ascB, Bool.and_eq_true, decide_eq_true_eq, ih, List.pairwise_cons]
      constructor
      · rintro ⟨hab, hb, hr⟩
        refine ⟨?_, hb, hr⟩
        intro c hc
        rcases List.mem_cons.mp hc with rfl | hc
        · exact hab
        · exact Nat.lt_trans hab (hb c hc)
      · rintro ⟨ha, hb, hr⟩
        exact ⟨ha b (by simp), hb, hr⟩

theorem filter_range_contains (gc : Nat) (gs : List Nat) (hasc : gs.Pairwise (· < ·))
    (hlt : ∀ k ∈ gs, k < gc) : (List.range gc).filter (fun k => gs.contains k) = gs := by
  apply List.Perm.eq_of_pairwise (le := (· < ·))
  · intro a b _ _ hab hba
    exact absurd hab (Nat.lt_asymm hba)
  · exact (List.pairwise_lt_range).filter _
  · exact hasc
  · rw [List.perm_ext_iff_of_nodup]
    · intro k
      simp only [List.mem_filter, List.mem_range, List.contains_eq_mem, decide_eq_true_eq]
      exact ⟨fun h => h.2, fun h => ⟨hlt k h, h⟩⟩
    · exact (List.nodup_range).filter _
    · exact hasc.imp (fun h => Nat.ne_of_lt h)

end Triples

end Acme.Save
