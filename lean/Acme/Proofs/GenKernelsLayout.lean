/-
The generated acceptance checks of the payload layout (signal_layout.go: verifyBeforeInsert,
verifyBeforeAppend, verifyBeforeShrink, verifyBeforeGrow, verifyBeforeResize; translated into
Acme/Gen/Kernels.lean on every run) are equal to the hand-written checks of Acme.Core.Layout,
for ALL signal lists and ALL arguments (no well-formedness assumption).

Representation.  A Go `error` result is `Option K.Cause` (`K.Cause` = the generated inductive
of the sentinels that occur); `ofCause` maps it to the model's `Except LErr Unit`.  A kernel
that indexes the signal slice returns `GoSem.Res (Option K.Cause)`; `ofRes` maps the index
panic to `LErr.panic`.  Both maps are injective, so the equalities lose nothing; as the model
checks never yield `LErr.panic`, the two `Res` equalities also say that the index
`sl.signals[len-1]` is always in range (`verifyBeforeAppend_no_panic`, `verifyBeforeResize_no_panic`).
-/
import Acme.Gen.Kernels
import Acme.Core.Layout

namespace Acme.GenK

open Acme.Gen Acme.Layout

/-- sentinel ↦ cause of the model.  A new sentinel in one of the translated functions adds a
    constructor to the generated `K.Cause` and makes this match incomplete. -/
def ofCause : Option K.Cause → Except LErr Unit
  | none => .ok ()
  | some .ErrIsNegative => .error .negative
  | some .ErrIsZero => .error .zero
  | some .ErrOutOfBounds => .error .outOfBounds
  | some .ErrNoSpaceLeft => .error .noSpaceLeft
  | some .ErrIntersect => .error .intersect
  | some .ErrTooSmall => .error .tooSmall

def ofRes : Acme.GoSem.Res (Option K.Cause) → Except LErr Unit
  | .panic => .error .panic
  | .val c => ofCause c

theorem ofCause_injective (a b : Option K.Cause) (h : ofCause a = ofCause b) : a = b := by
  cases a with
  | none => cases b with
    | none => rfl
    | some y => cases y <;> simp [ofCause] at h
  | some x => cases b with
    | none => cases x <;> simp [ofCause] at h
    | some y => cases x <;> cases y <;> first | rfl | simp [ofCause] at h

theorem ofCause_ne_panic (a : Option K.Cause) : ofCause a ≠ .error .panic := by
  cases a with
  | none => simp [ofCause]
  | some x => cases x <;> simp [ofCause]

theorem ofRes_injective (a b : Acme.GoSem.Res (Option K.Cause)) (h : ofRes a = ofRes b) : a = b := by
  cases a with
  | panic => cases b with
    | panic => rfl
    | val y => exact absurd h.symm (ofCause_ne_panic y)
  | val x => cases b with
    | panic => exact absurd h (ofCause_ne_panic x)
    | val y => rw [ofCause_injective x y h]

/-- `s[len(s)-1]` of a non-empty slice is its last element. -/
theorem index?_last {α : Type} (l : List α) (h : l ≠ []) :
    Acme.GoSem.index? l (Int.ofNat l.length - 1) = l.getLast? := by
  unfold Acme.GoSem.index?
  have hl : 0 < l.length := List.length_pos_iff.mpr h
  have h1 : ¬ (Int.ofNat l.length - 1 < 0) := by
    have : (Int.ofNat l.length) = (l.length : Int) := rfl
    omega
  have h2 : (Int.ofNat l.length - 1).toNat = l.length - 1 := by
    have : (Int.ofNat l.length) = (l.length : Int) := rfl
    omega
  rw [if_neg h1, h2, List.getLast?_eq_getElem?]

theorem length_eq_zero_int {α : Type} (l : List α) : (Int.ofNat l.length = 0) ↔ l = [] := by
  have : (Int.ofNat l.length) = (l.length : Int) := rfl
  constructor
  · intro h; exact List.length_eq_zero_iff.mp (by omega)
  · intro h; subst h; rfl

theorem length_pos_int {α : Type} (l : List α) (h : l ≠ []) : 0 < Int.ofNat l.length := by
  have : (Int.ofNat l.length) = (l.length : Int) := rfl
  have := List.length_pos_iff.mpr h
  omega

/-! ### verifyBeforeInsert -/

theorem verifyBeforeInsert_loop_eq (cap : Int) (sigs : List Slot) (sz st sigSize en : Int)
    (l : List Slot) :
    ofCause (K.verifyBeforeInsert_loop1 cap sigs sz st sigSize en l) = scanInsert st en l := by
  induction l with
  | nil => rfl
  | cons s rest ih =>
    unfold K.verifyBeforeInsert_loop1 scanInsert
    dsimp only
    repeat' split
    all_goals first
      | rfl
      | exact ih
      | omega
      | (exfalso; omega)
      | (simp_all; done)

theorem verifyBeforeInsert_eq (cap : Int) (l : List Slot) (sz st : Int) :
    ofCause (K.verifyBeforeInsert cap l sz st) = verifyInsert cap l sz st := by
  unfold K.verifyBeforeInsert verifyInsert
  dsimp only
  repeat' split
  all_goals first
    | rfl
    | exact verifyBeforeInsert_loop_eq ..
    | omega
    | (exfalso; omega)

example : K.verifyBeforeInsert 64 [⟨1, 0, 8⟩, ⟨2, 16, 8⟩] 8 8 = none := by decide
example : K.verifyBeforeInsert 64 [⟨1, 0, 8⟩, ⟨2, 16, 8⟩] 8 12 = some .ErrIntersect := by decide
example : K.verifyBeforeInsert 64 [⟨1, 0, 8⟩, ⟨2, 16, 8⟩] 8 60 = some .ErrNoSpaceLeft := by decide

/-! ### verifyBeforeAppend -/

theorem verifyBeforeAppend_eq (cap : Int) (l : List Slot) (sz : Int) :
    ofRes (K.verifyBeforeAppend cap l sz) = verifyAppend cap l sz := by
  unfold K.verifyBeforeAppend verifyAppend
  dsimp only
  by_cases hl : l = []
  · subst hl
    simp only [List.length_nil, List.getLast?_nil]
    repeat' split
    all_goals first
      | rfl
      | (exfalso; omega)
      | (simp_all; done)
  · have hpos : 0 < Int.ofNat l.length := length_pos_int l hl
    rw [index?_last l hl]
    cases hg : l.getLast? with
    | none => exact absurd (List.getLast?_eq_none_iff.mp hg) hl
    | some s =>
      dsimp only
      repeat' split
      all_goals first
        | rfl
        | (exfalso; omega)

theorem verifyBeforeAppend_no_panic (cap : Int) (l : List Slot) (sz : Int) :
    K.verifyBeforeAppend cap l sz ≠ .panic := by
  intro h
  have := verifyBeforeAppend_eq cap l sz
  rw [h] at this
  unfold verifyAppend at this
  simp only [ofRes] at this
  repeat' split at this
  all_goals simp at this

example : K.verifyBeforeAppend 64 [⟨1, 0, 8⟩, ⟨2, 16, 8⟩] 40 = .val none := by decide
example : K.verifyBeforeAppend 64 [⟨1, 0, 8⟩, ⟨2, 16, 8⟩] 41 = .val (some .ErrNoSpaceLeft) := by decide
example : K.verifyBeforeAppend 64 [] 65 = .val (some .ErrOutOfBounds) := by decide

/-! ### verifyBeforeShrink -/

theorem verifyBeforeShrink_eq (sz amount : Int) :
    ofCause (K.verifyBeforeShrink sz amount) = verifyShrink sz amount := by
  unfold K.verifyBeforeShrink verifyShrink
  dsimp only
  repeat' split
  all_goals first
    | rfl
    | omega
    | (exfalso; omega)

example : K.verifyBeforeShrink 8 8 = some .ErrIsZero := by decide
example : K.verifyBeforeShrink 8 3 = none := by decide

/-! ### verifyBeforeGrow -/

theorem verifyBeforeGrow_loop_eq (cap : Int) (sigs : List Slot) (id : Nat) (amount : Int)
    (l : List Slot) (avail prevEnd : Int) (found : Bool) :
    ofCause (K.verifyBeforeGrow_loop1 cap sigs id amount avail prevEnd found l) =
      (if amount > (growScan id l avail prevEnd found).1 + (cap - (growScan id l avail prevEnd found).2)
        then .error .noSpaceLeft else .ok ()) := by
  induction l generalizing avail prevEnd found with
  | nil =>
    unfold K.verifyBeforeGrow_loop1 K.verifyBeforeGrow_after1 growScan
    dsimp only
    split <;> rfl
  | cons s rest ih =>
    unfold K.verifyBeforeGrow_loop1 growScan
    cases found with
    | true => simp only [if_true]; exact ih ..
    | false =>
      by_cases hid : s.id = id
      · simp [hid, ih]
      · simp [hid, ih]

theorem verifyBeforeGrow_eq (cap : Int) (l : List Slot) (id : Nat) (amount : Int) :
    ofCause (K.verifyBeforeGrow cap l id amount) = verifyGrow cap l id amount := by
  unfold K.verifyBeforeGrow verifyGrow
  dsimp only
  split
  · rfl
  · rw [verifyBeforeGrow_loop_eq]
    try rfl

example : K.verifyBeforeGrow 64 [⟨1, 0, 8⟩, ⟨2, 16, 8⟩] 1 48 = none := by decide
example : K.verifyBeforeGrow 64 [⟨1, 0, 8⟩, ⟨2, 16, 8⟩] 1 49 = some .ErrNoSpaceLeft := by decide
example : K.verifyBeforeGrow 64 [⟨1, 0, 8⟩, ⟨2, 16, 8⟩] 2 40 = none := by decide

/-! ### verifyBeforeResize -/

theorem verifyBeforeResize_eq (cap : Int) (l : List Slot) (newCap : Int) :
    ofRes (K.verifyBeforeResize cap l newCap) = verifyResize cap l newCap := by
  unfold K.verifyBeforeResize verifyResize
  by_cases hc : newCap > cap
  · simp only [hc, if_true]; rfl
  · simp only [hc, if_false]
    by_cases hl : l = []
    · subst hl
      first
        | rfl
        | (simp; done)
    · have hpos : 0 < Int.ofNat l.length := length_pos_int l hl
      rw [index?_last l hl]
      cases hg : l.getLast? with
      | none => exact absurd (List.getLast?_eq_none_iff.mp hg) hl
      | some s =>
        dsimp only
        repeat' split
        all_goals first
          | rfl
          | (exfalso; omega)

theorem verifyBeforeResize_no_panic (cap : Int) (l : List Slot) (newCap : Int) :
    K.verifyBeforeResize cap l newCap ≠ .panic := by
  intro h
  have := verifyBeforeResize_eq cap l newCap
  rw [h] at this
  unfold verifyResize at this
  simp only [ofRes] at this
  repeat' split at this
  all_goals simp at this

example : K.verifyBeforeResize 64 [⟨1, 0, 8⟩, ⟨2, 16, 8⟩] 24 = .val none := by decide
example : K.verifyBeforeResize 64 [⟨1, 0, 8⟩, ⟨2, 16, 8⟩] 23 = .val (some .ErrTooSmall) := by decide

end Acme.GenK
