/-
The generated post-processing half of `Decode` (signal_layout.go; `K.signExtend`,
`K.decodeStandard`, `K.decodeEnum` in Acme/Gen/Kernels.lean) equals the hand-written model of
Acme.Core.Arith (`signExtend`, `decodeStd`, `decodeEnum`) that property C03 is proved about.
-/
import Acme.Gen.Kernels
import Acme.Core.Arith

namespace Acme.GenK

open Acme.Gen Acme.GoSem Acme.Arith

/-! ### `signExtend` -/

theorem allOnes_lit : (18446744073709551615#64) = BitVec.allOnes 64 := by decide

/-- signal_layout.go `signExtend` = `Acme.Arith.signExtend`, for every raw value and every size -/
theorem signExtend_eq (raw : BitVec 64) (size : Int) :
    K.signExtend raw size = Acme.Arith.signExtend raw size := by
  unfold K.signExtend Acme.Arith.signExtend
  simp only [allOnes_lit]

/-! ### `decodeStandardSignal` -/

/-- the Go constant values of `SignalTypeKind*` -/
def stdKindCode : Kind → Int
  | .custom => 0
  | .flag => 1
  | .integer => 2
  | .decimal => 3

/-- the model's value of a translated decoding: the `ValueType` tag must agree with the dynamic
    type stored in `Value`; `none` for the float marker and for everything else -/
def valueOf (d : Decoded) : Option Value :=
  match d.valueType, d.value with
  | "flag", .bool b => some (.flag b)
  | "int", .int64 v => some (.int v.toInt)
  | "uint", .uint64 v => some (.uint v.toNat)
  | _, _ => none

/-- the translated decoding the model's value stands for (`float`: the marker, without value) -/
def decodedOf (raw : BitVec 64) : Value → Decoded
  | .flag b => ⟨raw, "flag", .bool b⟩
  | .int v => ⟨raw, "int", .int64 (BitVec.ofInt 64 v)⟩
  | .uint v => ⟨raw, "uint", .uint64 (BitVec.ofNat 64 v)⟩
  | .float _ => ⟨raw, "float", .float64⟩

/-- signal_layout.go `decodeStandardSignal` = `Acme.Arith.decodeStd`, all kinds -/
theorem decodeStandard_eq (k : Kind) (size : Int) (signed : Bool) (scale offset : Int) (sq oq : Rat)
    (raw : BitVec 64) :
    K.decodeStandard (stdKindCode k) size signed scale offset raw =
      decodedOf raw (decodeStd k size signed scale offset sq oq raw) := by
  unfold K.decodeStandard decodeStd
  rw [signExtend_eq]
  generalize Acme.Arith.signExtend raw size * BitVec.ofInt 64 scale + BitVec.ofInt 64 offset = x
  generalize raw * BitVec.ofInt 64 scale + BitVec.ofInt 64 offset = y
  cases k <;> cases signed <;> simp [stdKindCode, decodedOf, BitVec.ofInt_toInt, BitVec.ofNat_toNat]

/-- flag and integer kinds: the model's value is read back from the translated decoding -/
theorem decodeStandard_int (k : Kind) (hk : k = .flag ∨ k = .integer) (size : Int) (signed : Bool)
    (scale offset : Int) (sq oq : Rat) (raw : BitVec 64) :
    valueOf (K.decodeStandard (stdKindCode k) size signed scale offset raw) =
      some (decodeStd k size signed scale offset sq oq raw) ∧
    (K.decodeStandard (stdKindCode k) size signed scale offset raw).rawValue = raw := by
  rw [decodeStandard_eq k size signed scale offset sq oq raw]
  unfold decodeStd
  generalize Acme.Arith.signExtend raw size * BitVec.ofInt 64 scale + BitVec.ofInt 64 offset = x
  generalize raw * BitVec.ofInt 64 scale + BitVec.ofInt 64 offset = y
  rcases hk with rfl | rfl <;> cases signed <;>
    simp [decodedOf, valueOf, BitVec.ofInt_toInt, BitVec.ofNat_toNat]

/-- `valueOf` loses nothing: two translated decodings of the same raw value that stand for the
    same model value are equal -/
theorem valueOf_injective (a b : Decoded) (v : Value) (hr : a.rawValue = b.rawValue)
    (ha : valueOf a = some v) (hb : valueOf b = some v) : a = b := by
  obtain ⟨ra, ta, va⟩ := a
  obtain ⟨rb, tb, vb⟩ := b
  simp only at hr
  subst hr
  unfold valueOf at ha hb
  simp only at ha hb
  split at ha <;> split at hb <;> simp_all
  all_goals (subst ha; simp_all [BitVec.toInt_inj, BitVec.toNat_inj, eq_comm])

/-! ### `decodeEnumSignal` -/

theorem decodeEnum_loop (vals0 : List (String × Int)) (raw : BitVec 64) :
    ∀ (vals : List (String × Int)) (res : Decoded),
      K.decodeEnum_loop1 vals0 raw res vals =
        match vals.find? (fun v => v.2 = raw.toInt) with
        | some v => { res with value := .str v.1 }
        | none => res := by
  intro vals
  induction vals with
  | nil => intro res; rfl
  | cons v rest ih =>
    intro res
    unfold K.decodeEnum_loop1
    rw [List.find?_cons]
    by_cases h : v.2 = raw.toInt
    · simp only [h, if_true, decide_true]
      rfl
    · simp only [h, if_false, decide_false]
      exact ih res

/-- signal_layout.go `decodeEnumSignal` = `Acme.Arith.decodeEnum`, for every list of values, i.e.
    for every iteration order of the map -/
theorem decodeEnum_eq (vals : List (String × Int)) (raw : BitVec 64) :
    K.decodeEnum vals raw = ⟨raw, "enum", .str (Acme.Arith.decodeEnum vals raw)⟩ := by
  unfold K.decodeEnum Acme.Arith.decodeEnum
  simp only [decodeEnum_loop]
  cases vals.find? (fun v => v.2 = raw.toInt) <;> rfl

end Acme.GenK
