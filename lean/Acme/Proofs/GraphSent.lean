/-
`Inv` is preserved by the sent-message operations of an interface: ifaceAddSent,
ifaceRemoveSent, ifaceRemoveAllSent.
-/
import Acme.Proofs.GraphTac

namespace Acme.Graph

set_option maxHeartbeats 1000000 in
theorem addSent_static_inv {g : G} (h : Inv g) {i m c : Nat} {ifc : IfaceE} {msg : MsgE}
    (hi : g.ifaces.get i = some ifc) (hm : g.msgs.get m = some msg)
    (hns : msg.sender = none) (hnn : ifc.sentNames.get msg.name = none)
    (hc : msg.static = some c) (hfree : ifc.sentStatic.get c = none)
    (hclash : busStaticClash g.buses ifc.parentBus c = false) :
    Inv { g with buses := updStatic g.buses ifc.parentBus (fun r => r.add c m),
                 ifaces := g.ifaces.set i { ifc with sentStatic := ifc.sentStatic.add c m, sent := ifc.sent.add m m,
                                                      sentNames := ifc.sentNames.add msg.name m },
                 msgs := g.msgs.set m { msg with sender := some i } } := by
  have s1 : msgSender g.msgs m = none := by rw [msgSender_of_get hm]; exact hns
  have s3 : msgStatic g.msgs m = some c := by rw [msgStatic_of_get hm]; exact hc
  have s4 : msgName g.msgs m = some msg.name := msgName_of_get hm
  have s5 : ifaceBus g.ifaces i = ifc.parentBus := ifaceBus_of_get hi
  have s7 : ∀ b, ifc.parentBus = some b → g.buses.get b ≠ none := fun b hb =>
    h.bus.bus_exists (ifaceNode_of_get hi) (by rw [s5]; exact hb)
  have e0 := ifaceSent_of_get hi
  have e1 := ifaceSentNames_of_get hi
  have e2 := ifaceSentStatic_of_get hi
  inv_split
  case static =>
    o_static h
    refine ⟨?_, ?_⟩
    · inv_field [hm, hi]
    · intro b
      views_simp
      split
      · rename_i hb
        refine idx_add (st_g b) ?_ ?_ ?_
        · rw [hb.1] at hclash; simpa using hclash
        · intro k hk; obtain ⟨_, j, hj, _⟩ := hk; rw [s1] at hj; cases hj
        · intro k x; unfold MsgOnBus; grind
      · refine idx_congr (st_g b) ?_
        intro k x; unfold MsgOnBus; grind
  case sent =>
    o_sent h
    refine ⟨?_, ?_, ?_, ?_, ?_, ?_, ?_, ?_⟩
    all_goals inv_field [hm, hi]
  inv_rest h [hm, hi]

set_option maxHeartbeats 1000000 in
theorem addSent_plain_inv {g : G} (h : Inv g) {i m : Nat} {ifc : IfaceE} {msg : MsgE}
    (hi : g.ifaces.get i = some ifc) (hm : g.msgs.get m = some msg)
    (hns : msg.sender = none) (hnn : ifc.sentNames.get msg.name = none)
    (hc : msg.static = none) (hfree : ifc.sentIDs.get msg.mid = none) :
    Inv { g with ifaces := g.ifaces.set i { ifc with sentIDs := ifc.sentIDs.add msg.mid m, sent := ifc.sent.add m m,
                                                      sentNames := ifc.sentNames.add msg.name m },
                 msgs := g.msgs.set m { msg with sender := some i } } := by
  have s1 : msgSender g.msgs m = none := by rw [msgSender_of_get hm]; exact hns
  have s3 : msgStatic g.msgs m = none := by rw [msgStatic_of_get hm]; exact hc
  have s4 : msgName g.msgs m = some msg.name := msgName_of_get hm
  have s6 : msgMid g.msgs m = some msg.mid := msgMid_of_get hm
  have s5 : ifaceBus g.ifaces i = ifc.parentBus := ifaceBus_of_get hi
  have e0 := ifaceSent_of_get hi
  have e1 := ifaceSentNames_of_get hi
  have e2 := ifaceSentIDs_of_get hi
  inv_groups h [hm, hi]

theorem stepIfaceAddSent_inv {g : G} (h : Inv g) (i m : Nat) : Inv (stepIfaceAddSent g i m).1 := by
  unfold stepIfaceAddSent
  try dsimp only
  repeat' split
  all_goals first | exact h | skip
  all_goals inv_norm
  all_goals first
    | exact addSent_static_inv h (by assumption) (by assumption) (by assumption) (by assumption) (by assumption)
        (by grind) (by grind)
    | exact addSent_plain_inv h (by assumption) (by assumption) (by assumption) (by assumption) (by assumption)
        (by assumption)
set_option maxHeartbeats 1000000 in
theorem rmSent_static_inv {g : G} (h : Inv g) {i m c : Nat} {ifc : IfaceE} {msg : MsgE}
    (hi : g.ifaces.get i = some ifc) (hm : g.msgs.get m = some msg)
    (hs : ifc.sent.get m ≠ none) (hc : msg.static = some c) :
    Inv { g with buses := updStatic g.buses ifc.parentBus (fun r => r.remove c),
                 ifaces := g.ifaces.set i { ifc with sent := ifc.sent.remove m, sentNames := ifc.sentNames.remove msg.name,
                                                      sentStatic := ifc.sentStatic.remove c },
                 msgs := g.msgs.set m { msg with sender := none } } := by
  have e0 := ifaceSent_of_get hi
  obtain ⟨v, hv⟩ : ∃ v, (ifaceSent g.ifaces i).get m = some v := by
    rw [e0]; cases hh : ifc.sent.get m with
    | none => exact absurd hh hs
    | some v => exact ⟨v, rfl⟩
  have s1 : msgSender g.msgs m = some i := (h.sent.s1 hv).2
  have s2 := h.sent.s2 s1
  have s3 : msgStatic g.msgs m = some c := by rw [msgStatic_of_get hm]; exact hc
  have s4 := h.sent.n2 s1 (msgName_of_get hm)
  have s6 := h.sent.t2 s1 s3
  have s5 : ifaceBus g.ifaces i = ifc.parentBus := ifaceBus_of_get hi
  have s7 : ∀ b, ifc.parentBus = some b → g.buses.get b ≠ none := fun b hb =>
    h.bus.bus_exists (ifaceNode_of_get hi) (by rw [s5]; exact hb)
  have s8 : ∀ b, ifc.parentBus = some b → (busStaticIDs g.buses b).get c = some m :=
    fun b hb => h.static.s2 s3 s1 (by rw [s5]; exact hb)
  have e1 := ifaceSentNames_of_get hi
  have e2 := ifaceSentStatic_of_get hi
  clear hv hs
  inv_split
  case static =>
    o_static h
    refine ⟨?_, ?_⟩
    · inv_field [hm, hi]
    · intro b
      views_simp
      split
      · rename_i hb
        have hb' : ifaceBus g.ifaces i = some b := by rw [s5]; exact hb.1
        refine idx_remove (st_g b) ⟨s3, i, s1, hb'⟩ ?_ ?_
        · intro k hk; have := hk.1; rw [s3] at this; exact (Option.some.inj this).symm
        · intro k x; unfold MsgOnBus; grind
      · refine idx_congr (st_g b) ?_
        intro k x; unfold MsgOnBus; grind
  case sent =>
    o_sent h
    refine ⟨?_, ?_, ?_, ?_, ?_, ?_, ?_, ?_⟩
    all_goals inv_field [hm, hi]
  inv_rest h [hm, hi]

set_option maxHeartbeats 1000000 in
theorem rmSent_plain_inv {g : G} (h : Inv g) {i m : Nat} {ifc : IfaceE} {msg : MsgE}
    (hi : g.ifaces.get i = some ifc) (hm : g.msgs.get m = some msg)
    (hs : ifc.sent.get m ≠ none) (hc : msg.static = none) :
    Inv { g with ifaces := g.ifaces.set i { ifc with sent := ifc.sent.remove m, sentNames := ifc.sentNames.remove msg.name,
                                                      sentIDs := ifc.sentIDs.remove msg.mid },
                 msgs := g.msgs.set m { msg with sender := none } } := by
  have e0 := ifaceSent_of_get hi
  obtain ⟨v, hv⟩ : ∃ v, (ifaceSent g.ifaces i).get m = some v := by
    rw [e0]; cases hh : ifc.sent.get m with
    | none => exact absurd hh hs
    | some v => exact ⟨v, rfl⟩
  have s1 : msgSender g.msgs m = some i := (h.sent.s1 hv).2
  have s2 := h.sent.s2 s1
  have s3 : msgStatic g.msgs m = none := by rw [msgStatic_of_get hm]; exact hc
  have s4 := h.sent.n2 s1 (msgName_of_get hm)
  have s6 := h.sent.i2 s1 (msgMid_of_get hm) s3
  have e1 := ifaceSentNames_of_get hi
  have e2 := ifaceSentIDs_of_get hi
  clear hv hs
  inv_groups h [hm, hi]

theorem stepIfaceRemoveSent_inv {g : G} (h : Inv g) (i m : Nat) : Inv (stepIfaceRemoveSent g i m).1 := by
  unfold stepIfaceRemoveSent
  try dsimp only
  repeat' split
  all_goals first | exact h | skip
  all_goals inv_norm
  all_goals first
    | exact rmSent_static_inv h (by assumption) (by assumption) (by assumption) (by assumption)
    | exact rmSent_plain_inv h (by assumption) (by assumption) (by assumption) (by assumption)

/-- the values of an interface's `sent` registry are exactly the messages it sends -/
theorem SentI.mem_vals {I : AMap IfaceE} {M : AMap MsgE} (h : SentI I M) {i : Nat} {ifc : IfaceE}
    (hi : I.get i = some ifc) (m : Nat) : m ∈ ifc.sent.vals ↔ msgSender M m = some i := by
  have s0 : ifaceSent I i = ifc.sent := ifaceSent_of_get hi
  rw [← s0, Reg.mem_vals (h.sent_nodup i)]
  constructor
  · rintro ⟨k, hk⟩
    have := h.s1 hk
    have h2 := this.1; subst h2
    exact (h.s1 hk).2
  · intro hp; exact ⟨m, h.s2 hp⟩

set_option maxHeartbeats 1000000 in
theorem stepIfaceRemoveAllSent_inv {g : G} (h : Inv g) (i : Nat) : Inv (stepIfaceRemoveAllSent g i).1 := by
  unfold stepIfaceRemoveAllSent
  try dsimp only
  repeat' split
  all_goals first | exact h | skip
  rename_i _ ifc hi
  have hv := h.sent.mem_vals hi
  have hk := mem_staticOf_keys g ifc.sent.vals
  have s5 : ifaceBus g.ifaces i = ifc.parentBus := ifaceBus_of_get hi
  have s7 : ∀ b, ifc.parentBus = some b → g.buses.get b ≠ none := fun b hb =>
    h.bus.bus_exists (ifaceNode_of_get hi) (by rw [s5]; exact hb)
  generalize ifc.sent.vals = ms at hv hk
  generalize (staticOf g ms).map (·.1) = ks at hk
  inv_norm
  inv_split
  case static =>
    o_static h
    refine ⟨?_, ?_⟩
    · have := @removeKeys_nodup
      intro b; views_simp; split
      · exact removeKeys_nodup (st_n b) ks
      · exact st_n b
    · intro b
      frame [hi]
      views_simp
      have hst : ∀ k x, (busStaticIDs g.buses b).get k = some x ↔
          (msgStatic g.msgs x = some k ∧ ∃ j, msgSender g.msgs x = some j ∧ ifaceBus g.ifaces j = some b) := st_g b
      split
      · rename_i hb
        have hb' : ifaceBus g.ifaces i = some b := by rw [s5]; exact hb.1
        refine idx_removeKeys hst ?_
        intro k x
        by_cases hx : x ∈ ms
        · have hxs := (hv x).1 hx
          simp only [hx, ↓reduceIte, reduceCtorEq, false_and, exists_const, and_false, false_iff, not_and]
          intro hkn hP _
          exact hkn ((hk k).2 ⟨x, hx, hP⟩)
        · simp only [hx, ↓reduceIte]
          constructor
          · intro hP
            refine ⟨?_, hP⟩
            intro hkk
            obtain ⟨m', hm', hs'⟩ := (hk k).1 hkk
            have h1 := (hst k x).2 hP
            have h2 := (hst k m').2 ⟨hs', i, (hv m').1 hm', hb'⟩
            rw [h1] at h2; exact hx (by rw [Option.some.inj h2]; exact hm')
          · intro hP; exact hP.2
      · rename_i hnb
        refine idx_congr hst ?_
        intro k x
        by_cases hx : x ∈ ms
        · have hxs := (hv x).1 hx
          simp only [hx, ↓reduceIte, reduceCtorEq, false_and, exists_const, and_false, false_iff]
          rintro ⟨_, j, hj, hjb⟩
          rw [hxs] at hj; cases hj
          rw [s5] at hjb
          exact hnb ⟨hjb, s7 b hjb⟩
        · simp only [hx, ↓reduceIte]
  case sent =>
    o_sent h
    refine ⟨?_, ?_, ?_, ?_, ?_, ?_, ?_, ?_⟩
    all_goals inv_field [hi]
  inv_rest h [hi]

end Acme.Graph
