/-
Bus-level importer model, part 2: the object stores threaded through the messages.
`StLe` = how the state can grow (stores are extended; an enum object that is referred to keeps
its values and its size), `WF` = what the importer maintains, `SigOK` = what `importSignal`
establishes for one signal, stable under `StLe`.
Core Lean only.
-/
import Acme.Proofs.ImportBusBasic

namespace Acme.ImportBus
open Acme.Arith
open Acme.Import (sortBy insBy)

/-! ### growth of the stores -/

/-- an enum object later on: same values and name; once referred to, same minimum size -/
def EnumLe (e e' : IEnum) : Prop :=
  e'.values = e.values ∧ e'.name = e.name ∧ e.refs ≤ e'.refs ∧ (e.refs ≠ 0 → e'.minSize = e.minSize)

theorem EnumLe.refl (e : IEnum) : EnumLe e e := ⟨rfl, rfl, Nat.le_refl _, fun _ => rfl⟩

theorem EnumLe.trans {a b c : IEnum} (h₁ : EnumLe a b) (h₂ : EnumLe b c) : EnumLe a c := by
  obtain ⟨v1, n1, r1, m1⟩ := h₁
  obtain ⟨v2, n2, r2, m2⟩ := h₂
  refine ⟨v2.trans v1, n2.trans n1, Nat.le_trans r1 r2, fun h => ?_⟩
  have hb : b.refs ≠ 0 := by omega
  exact (m2 hb).trans (m1 h)

theorem EnumLe.size_eq {e e' : IEnum} (h : EnumLe e e') (hr : e.refs ≠ 0) : e'.size = e.size := by
  obtain ⟨v, _, _, m⟩ := h
  unfold IEnum.size
  rw [v, m hr]

theorem EnumLe.refs_ne {e e' : IEnum} (h : EnumLe e e') (hr : e.refs ≠ 0) : e'.refs ≠ 0 := by
  have := h.2.2.1
  omega

def EnumsLe (l l' : List IEnum) : Prop :=
  ∀ (i : Nat) (e : IEnum), l[i]? = some e → ∃ e', l'[i]? = some e' ∧ EnumLe e e'

theorem EnumsLe.refl (l : List IEnum) : EnumsLe l l := fun _ e h => ⟨e, h, EnumLe.refl e⟩

theorem EnumsLe.trans {a b c : List IEnum} (h₁ : EnumsLe a b) (h₂ : EnumsLe b c) : EnumsLe a c := by
  intro i e h
  obtain ⟨e1, g1, l1⟩ := h₁ i e h
  obtain ⟨e2, g2, l2⟩ := h₂ i e1 g1
  exact ⟨e2, g2, l1.trans l2⟩

theorem getElem?_append_of_some {α : Type} {l : List α} {i : Nat} {x : α} (r : List α)
    (h : l[i]? = some x) : (l ++ r)[i]? = some x := by
  have hi : i < l.length := by
    rcases Nat.lt_or_ge i l.length with hlt | hge
    · exact hlt
    · rw [List.getElem?_eq_none hge] at h; cases h
  rw [List.getElem?_append_left hi]; exact h

theorem EnumsLe.append (l x : List IEnum) : EnumsLe l (l ++ x) :=
  fun _ e h => ⟨e, getElem?_append_of_some x h, EnumLe.refl e⟩

def StLe (st st' : St) : Prop :=
  (∀ (i : Nat) (x : Option TypeKey × SigType), st.types[i]? = some x → st'.types[i]? = some x) ∧
  (∀ (i : Nat) (x : String), st.units[i]? = some x → st'.units[i]? = some x) ∧
  st'.sigEnums = st.sigEnums ∧ EnumsLe st.enums st'.enums

theorem StLe.refl (st : St) : StLe st st := ⟨fun _ _ h => h, fun _ _ h => h, rfl, EnumsLe.refl _⟩

theorem StLe.trans {a b c : St} (h₁ : StLe a b) (h₂ : StLe b c) : StLe a c :=
  ⟨fun i x h => h₂.1 i x (h₁.1 i x h), fun i x h => h₂.2.1 i x (h₁.2.1 i x h),
   h₂.2.2.1.trans h₁.2.2.1, h₁.2.2.2.trans h₂.2.2.2⟩

/-! ### what the importer maintains -/

/-- an entry of `sizedSignalEnums`: the object is referred to, has the size of the key and the
    values of the enum of the key -/
def EntryOK (enums : List IEnum) (k : Nat × Nat) (sid : Nat) : Prop :=
  ∃ en e0, enums[sid]? = some en ∧ enums[k.1]? = some e0 ∧ en.values = e0.values ∧ en.refs ≠ 0 ∧
    en.size = (k.2 : Int)

theorem EntryOK.mono {l l' : List IEnum} {k : Nat × Nat} {sid : Nat} (hle : EnumsLe l l')
    (h : EntryOK l k sid) : EntryOK l' k sid := by
  obtain ⟨en, e0, h1, h2, hv, hr, hs⟩ := h
  obtain ⟨en', g1, l1⟩ := hle _ _ h1
  obtain ⟨e0', g2, l2⟩ := hle _ _ h2
  exact ⟨en', e0', g1, g2, by rw [l1.1, l2.1, hv], l1.refs_ne hr, by rw [l1.size_eq hr, hs]⟩

structure WF (st : St) : Prop where
  flag : st.types[0]? = some (none, flagType)
  keyed : ∀ (i : Nat) (k : TypeKey) (ty : SigType), st.types[i]? = some (some k, ty) → ty = typeOfKey k
  sized : ∀ (k : Nat × Nat) (sid : Nat), st.sized.lookup k = some sid → EntryOK st.enums k sid

theorem wf_init (enums : List IEnum) (se : SigEnums) : WF (initSt enums se) := by
  refine ⟨by simp [initSt], ?_, ?_⟩
  · intro i k ty h
    simp only [initSt] at h
    cases i with
    | zero => simp at h
    | succ i => simp at h
  · intro k sid h
    simp [initSt] at h

/-! ### what `importSignal` establishes -/

def UnitOK (st : St) (sym : String) (u : Option Nat) : Prop :=
  (sym = "" ∧ u = none) ∨ (sym ≠ "" ∧ ∃ i, u = some i ∧ st.units[i]? = some sym)

/-- the fields of the type object of a signal without value encoding -/
def expType (d : DSignal) : SigType := if isFlag d then flagType else typeOf d

def SigOK (cs : List DComment) (id : Nat) (st : St) (d : DSignal) (s : ISignal) : Prop :=
  s.name = d.name ∧ s.start = d.start ∧ s.desc = descOf (selSig id d.name) cs ∧
  match st.sigEnums.lookup (id, d.name) with
  | some eid =>
    ∃ rid en e0, s.kind = .enum rid ∧ st.enums[rid]? = some en ∧ st.enums[eid]? = some e0 ∧
      en.values = e0.values ∧ en.refs ≠ 0 ∧ en.size = (d.size : Int)
  | none =>
    ∃ t u k, s.kind = .standard t u ∧ st.types[t]? = some (k, expType d) ∧ UnitOK st d.unit u

theorem SigOK.mono {cs : List DComment} {id : Nat} {st st' : St} {d : DSignal} {s : ISignal}
    (hle : StLe st st') (h : SigOK cs id st d s) : SigOK cs id st' d s := by
  obtain ⟨hn, hs, hd, hk⟩ := h
  refine ⟨hn, hs, hd, ?_⟩
  rw [hle.2.2.1]
  cases hl : st.sigEnums.lookup (id, d.name) with
  | some eid =>
    rw [hl] at hk
    obtain ⟨rid, en, e0, hkind, h1, h2, hv, hr, hsz⟩ := hk
    obtain ⟨en', g1, l1⟩ := hle.2.2.2 _ _ h1
    obtain ⟨e0', g2, l2⟩ := hle.2.2.2 _ _ h2
    exact ⟨rid, en', e0', hkind, g1, g2, by rw [l1.1, l2.1, hv], l1.refs_ne hr, by rw [l1.size_eq hr, hsz]⟩
  | none =>
    rw [hl] at hk
    obtain ⟨t, u, k, hkind, ht, hu⟩ := hk
    refine ⟨t, u, k, hkind, hle.1 _ _ ht, ?_⟩
    rcases hu with hu | ⟨hne, i, hi, hg⟩
    · exact Or.inl hu
    · exact Or.inr ⟨hne, i, hi, hle.2.1 _ _ hg⟩

/-! ### types and units -/

theorem importType_spec {st st' : St} {d : DSignal} {t : Nat} (hw : WF st)
    (h : importType st d = .ok (st', t)) :
    WF st' ∧ StLe st st' ∧ ∃ k, st'.types[t]? = some (k, expType d) := by
  unfold importType at h
  split at h
  · rename_i hf
    cases h
    exact ⟨hw, StLe.refl _, none, by simp [expType, hf, hw.flag]⟩
  · rename_i hf
    split at h
    · rename_i i hfind
      cases h
      obtain ⟨hi, hp, _⟩ := List.findIdx?_eq_some_iff_getElem.mp hfind
      refine ⟨hw, StLe.refl _, some (keyOf d), ?_⟩
      have hp' : (st.types[t]).1 = some (keyOf d) := by simpa using hp
      have hget : st.types[t]? = some (some (keyOf d), (st.types[t]).2) := by
        rw [List.getElem?_eq_getElem hi, ← hp']
      rw [hget, hw.keyed t _ _ hget]
      simp [expType, hf, typeOf]
    · split at h
      · cases h
      · cases h
        refine ⟨⟨?_, ?_, hw.sized⟩, ⟨fun i x hx => getElem?_append_of_some _ hx, fun _ _ hx => hx, rfl,
          EnumsLe.refl _⟩, some (keyOf d), ?_⟩
        · exact getElem?_append_of_some _ hw.flag
        · intro i k ty hx
          simp only at hx
          rcases Nat.lt_or_ge i st.types.length with hlt | hge
          · rw [List.getElem?_append_left hlt] at hx
            exact hw.keyed i k ty hx
          · rw [List.getElem?_append_right hge] at hx
            cases hi : i - st.types.length with
            | zero =>
              rw [hi] at hx
              simp only [List.getElem?_cons_zero, Option.some.injEq, Prod.mk.injEq] at hx
              obtain ⟨hk, hty⟩ := hx
              cases hk
              exact hty.symm
            | succ j => rw [hi] at hx; simp at hx
        · simp [expType, hf, typeOf]

theorem importUnit_spec {st : St} {sym : String} :
    (importUnit st sym).1.types = st.types ∧ (importUnit st sym).1.enums = st.enums ∧
    (importUnit st sym).1.sigEnums = st.sigEnums ∧ (importUnit st sym).1.sized = st.sized ∧
    (∀ (i : Nat) (x : String), st.units[i]? = some x → (importUnit st sym).1.units[i]? = some x) ∧
    UnitOK (importUnit st sym).1 sym (importUnit st sym).2 := by
  unfold importUnit
  split
  · rename_i he
    exact ⟨rfl, rfl, rfl, rfl, fun _ _ h => h, Or.inl ⟨he, rfl⟩⟩
  · rename_i he
    split
    · rename_i i hfind
      obtain ⟨hi, hp, _⟩ := List.findIdx?_eq_some_iff_getElem.mp hfind
      refine ⟨rfl, rfl, rfl, rfl, fun _ _ h => h, Or.inr ⟨he, i, rfl, ?_⟩⟩
      have : st.units[i] = sym := by simpa using hp
      simp [List.getElem?_eq_getElem hi, this]
    · refine ⟨rfl, rfl, rfl, rfl, fun i x h => getElem?_append_of_some _ h, Or.inr ⟨he, st.units.length, rfl, ?_⟩⟩
      simp

/-! ### enums -/

theorem addRef_enums_le (st : St) (i : Nat) : EnumsLe st.enums (addRef st i).enums := by
  intro j e h
  simp only [addRef, List.getElem?_modify, h, Option.map_eq_map, Option.map_some]
  by_cases hij : i = j
  · simp only [hij, if_true]
    exact ⟨_, rfl, rfl, rfl, Nat.le_succ _, fun _ => rfl⟩
  · simp only [hij, if_false]
    exact ⟨e, rfl, EnumLe.refl e⟩

theorem addRef_get {st : St} {i : Nat} {e : IEnum} (h : st.enums[i]? = some e) :
    (addRef st i).enums[i]? = some { e with refs := e.refs + 1 } := by
  simp [addRef, h]

theorem addRef_wf {st : St} (hw : WF st) (i : Nat) : WF (addRef st i) :=
  ⟨hw.flag, hw.keyed, fun k sid h => (hw.sized k sid h).mono (addRef_enums_le st i)⟩

theorem addRef_le (st : St) (i : Nat) : StLe st (addRef st i) :=
  ⟨fun _ _ h => h, fun _ _ h => h, rfl, addRef_enums_le st i⟩

theorem lookup_cons_pair {k k' : Nat × Nat} {v : Nat} {l : List ((Nat × Nat) × Nat)} :
    List.lookup k ((k', v) :: l) = if k = k' then some v else List.lookup k l := by
  rw [List.lookup_cons]
  by_cases h : k = k'
  · simp [h]
  · have : (k == k') = false := beq_false_of_ne h
    simp [this, h]

theorem importEnumRef_spec {st st' : St} {eid size rid : Nat} (hw : WF st)
    (h : importEnumRef st eid size = .ok (st', rid)) :
    WF st' ∧ StLe st st' ∧ ∃ en e0, st'.enums[rid]? = some en ∧ st'.enums[eid]? = some e0 ∧
      en.values = e0.values ∧ en.refs ≠ 0 ∧ en.size = (size : Int) := by
  unfold importEnumRef at h
  split at h
  · cases h
  · rename_i e he
    split at h
    · -- the enum has the size of the signal: shared
      rename_i hsz
      cases h
      refine ⟨addRef_wf hw eid, addRef_le st eid, _, _, addRef_get he, addRef_get he, rfl, ?_, ?_⟩
      · simp
      · simpa [IEnum.size] using hsz
    · split at h
      · cases h
      · split at h
        · -- a sized object exists already
          rename_i sid hl
          cases h
          obtain ⟨en, e0, h1, h2, hv, hr, hs⟩ := hw.sized _ _ hl
          obtain ⟨e0', g2, l2⟩ := addRef_enums_le st rid _ _ h2
          refine ⟨addRef_wf hw rid, addRef_le st rid, _, e0', addRef_get h1, g2, ?_, ?_, ?_⟩
          · simp only; rw [l2.1, hv]
          · simp
          · simpa [IEnum.size] using hs
        · rename_i hl
          split at h
          · -- the enum is not referred to yet: resized in place
            rename_i hrefs
            simp only at h
            split at h
            · cases h
            · rename_i hsz
              cases h
              have hsz' : ({ e with minSize := size, refs := 1 } : IEnum).size = (size : Int) := by
                simpa using hsz
              have hlt : eid < st.enums.length := by
                rcases Nat.lt_or_ge eid st.enums.length with hlt | hge
                · exact hlt
                · rw [List.getElem?_eq_none hge] at he; cases he
              have hget : (st.enums.set eid { e with minSize := size, refs := 1 })[eid]? =
                  some { e with minSize := size, refs := 1 } := by
                simp [hlt]
              have hle : EnumsLe st.enums (st.enums.set eid { e with minSize := size, refs := 1 }) := by
                intro j x hx
                rw [List.getElem?_set]
                by_cases hj : eid = j
                · subst hj
                  rw [he] at hx
                  cases hx
                  simp only [hlt, if_true]
                  refine ⟨_, rfl, rfl, rfl, by simp [hrefs], fun hne => absurd hrefs hne⟩
                · simp only [hj, if_false]
                  exact ⟨x, hx, EnumLe.refl x⟩
              refine ⟨⟨hw.flag, hw.keyed, ?_⟩, ⟨fun _ _ hx => hx, fun _ _ hx => hx, rfl, hle⟩,
                _, _, hget, hget, rfl, by simp, hsz'⟩
              intro k sid hk
              simp only at hk
              rw [lookup_cons_pair] at hk
              split at hk
              · rename_i hkk
                cases hk
                subst hkk
                exact ⟨_, _, hget, hget, rfl, by simp, hsz'⟩
              · exact (hw.sized k sid hk).mono hle
          · -- a copy with its own minimum size
            rename_i hrefs
            simp only at h
            split at h
            · cases h
            · rename_i hsz
              cases h
              have hsz' : ({ name := e.name, values := e.values, minSize := size, refs := 1 } : IEnum).size
                  = (size : Int) := by
                simpa using hsz
              have hget : (st.enums ++ [({ name := e.name, values := e.values, minSize := size, refs := 1 } : IEnum)])[st.enums.length]?
                  = some { name := e.name, values := e.values, minSize := size, refs := 1 } := by
                simp
              have hge : (st.enums ++ [({ name := e.name, values := e.values, minSize := size, refs := 1 } : IEnum)])[eid]?
                  = some e := getElem?_append_of_some _ he
              refine ⟨⟨hw.flag, hw.keyed, ?_⟩, ⟨fun _ _ hx => hx, fun _ _ hx => hx, rfl, EnumsLe.append _ _⟩,
                _, _, hget, hge, rfl, by simp, hsz'⟩
              intro k sid hk
              simp only at hk
              rw [lookup_cons_pair] at hk
              split at hk
              · rename_i hkk
                cases hk
                subst hkk
                exact ⟨_, _, hget, hge, rfl, by simp, hsz'⟩
              · exact (hw.sized k sid hk).mono (EnumsLe.append _ _)

/-! ### one signal, the signals of a message -/

theorem importSignal_spec {cs : List DComment} {id : Nat} {st st' : St} {d : DSignal} {s : ISignal}
    (hw : WF st) (h : importSignal cs id st d = .ok (st', s)) :
    WF st' ∧ StLe st st' ∧ SigOK cs id st' d s := by
  unfold importSignal at h
  split at h
  · cases h
  · simp only at h
    split at h
    · rename_i eid hl
      split at h
      · cases h
      · rename_i st1 rid hr
        cases h
        obtain ⟨hw1, hle1, en, e0, h1, h2, hv, hrefs, hsz⟩ := importEnumRef_spec hw hr
        refine ⟨hw1, hle1, rfl, rfl, rfl, ?_⟩
        rw [hle1.2.2.1, hl]
        exact ⟨rid, en, e0, rfl, h1, h2, hv, hrefs, hsz⟩
    · rename_i hl
      split at h
      · cases h
      · rename_i st1 tid ht
        cases h
        obtain ⟨hw1, hle1, k, hk⟩ := importType_spec hw ht
        obtain ⟨u1, u2, u3, u4, u5, u6⟩ := @importUnit_spec st1 d.unit
        refine ⟨⟨by rw [u1]; exact hw1.flag, by rw [u1]; exact hw1.keyed, by rw [u4, u2]; exact hw1.sized⟩,
          hle1.trans ⟨by rw [u1]; exact fun _ _ hx => hx, u5, u3, by rw [u2]; exact EnumsLe.refl _⟩,
          rfl, rfl, rfl, ?_⟩
        rw [u3, hle1.2.2.1, hl]
        exact ⟨tid, _, k, rfl, by rw [u1]; exact hk, u6⟩

theorem importSignals_spec {cs : List DComment} {id : Nat} : ∀ (l : List DSignal) {st st' : St} {lastEnd : Nat}
    {ss : List ISignal}, WF st → importSignals cs id st lastEnd l = .ok (st', ss) →
    WF st' ∧ StLe st st' ∧ All2 (SigOK cs id st') l ss
  | [], st, st', lastEnd, ss, hw, h => by
    unfold importSignals at h
    cases h
    exact ⟨hw, StLe.refl _, .nil⟩
  | d :: r, st, st', lastEnd, ss, hw, h => by
    unfold importSignals at h
    split at h
    · cases h
    · rename_i st1 s h1
      split at h
      · cases h
      · split at h
        · cases h
        · rename_i st2 ss2 h2
          cases h
          obtain ⟨hw1, hle1, hs⟩ := importSignal_spec hw h1
          obtain ⟨hw2, hle2, hall⟩ := importSignals_spec r hw1 h2
          exact ⟨hw2, hle1.trans hle2, .cons (hs.mono hle2) hall⟩

end Acme.ImportBus
