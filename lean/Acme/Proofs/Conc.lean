import Acme.Core.Conc
namespace Acme.Conc

theorem no_writes_no_race (σ : Trace) (h : ∀ a ∈ σ, a.kind = .read) : ¬ Race σ := by
  rintro ⟨a, ha, b, hb, _, _, hw | hw⟩
  · rw [h a ha] at hw
    cases hw
  · rw [h b hb] at hw
    cases hw

theorem private_writes_no_race (σ : Trace)
    (hex : ∀ a ∈ σ, ∀ b ∈ σ, a.kind = .write → b.thread ≠ a.thread → b.loc ≠ a.loc) :
    ¬ Race σ := by
  rintro ⟨a, ha, b, hb, hth, hloc, hw | hw⟩
  · exact hex a ha b hb hw (fun e => hth e.symm) hloc.symm
  · exact hex b hb a ha hw hth hloc

private theorem apply_read (m : Nat → Nat) (a : Access) (h : a.kind = .read) : apply m a = m := by
  unfold apply
  rw [h]

theorem reads_sequential (m : Nat → Nat) (σ : Trace) (h : ∀ a ∈ σ, a.kind = .read) :
    runTrace m σ = m ∧ reads m σ = σ.map (fun a => (a.thread, a.loc, m a.loc)) := by
  induction σ with
  | nil => exact ⟨rfl, rfl⟩
  | cons a rest ih =>
    have ha : a.kind = .read := h a (List.mem_cons_self ..)
    have hr : ∀ b ∈ rest, b.kind = .read := fun b hb => h b (List.mem_cons_of_mem _ hb)
    obtain ⟨ih1, ih2⟩ := ih hr
    constructor
    · show runTrace (apply m a) rest = m
      rw [apply_read m a ha]
      exact ih1
    · rw [reads, ha]
      show (a.thread, a.loc, m a.loc) :: reads (apply m a) rest = _
      rw [apply_read m a ha, ih2, List.map_cons]

theorem reads_perm (m : Nat → Nat) (σ₁ σ₂ : Trace) (hp : σ₁.Perm σ₂)
    (h : ∀ a ∈ σ₁, a.kind = .read) :
    (reads m σ₁).Perm (reads m σ₂) := by
  have h₂ : ∀ a ∈ σ₂, a.kind = .read := fun a ha => h a (hp.mem_iff.mpr ha)
  rw [(reads_sequential m σ₁ h).2, (reads_sequential m σ₂ h₂).2]
  exact hp.map _

end Acme.Conc
