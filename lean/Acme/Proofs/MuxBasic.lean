/-
Multiplexer world, part A: toolbox.  Lookup laws of the stores and of the small containers
(`Names`, id sets), the pointwise view of `slotsOf`, the characterisation of `applyDeltas`,
and the absence of `generateFilters` panics on well-formed slices.
-/
import Acme.Core.Mux
import Acme.Spec.Mux
import Acme.Proofs.Layout
import Mathlib.Data.List.Nodup

namespace Acme.Mux
open Acme.Layout Acme.Arith

/-! ### stores -/

theorem AMap_get_mem_keys {α : Type} (m : AMap α) (k : Nat) (v : α) (h : m.get k = some v) :
    k ∈ m.keys := by
  unfold AMap.get at h
  split at h
  · rename_i p hp
    have hm := List.mem_of_find?_eq_some hp
    have hk := List.find?_some hp
    simp at hk
    unfold AMap.keys
    exact List.mem_map.mpr ⟨p, hm, hk⟩
  · cases h

theorem AMap_get_erase {α : Type} (m : AMap α) (k i : Nat) :
    (m.erase k).get i = if i = k then none else m.get i := by
  unfold AMap.get AMap.erase
  by_cases h : i = k
  · subst h
    simp only [↓reduceIte]
    have : (m.l.filter (fun p => p.1 ≠ i)).find? (fun p => p.1 = i) = none := by
      rw [List.find?_eq_none]
      intro p hp
      simp at hp
      simp [hp.2]
    simp only [this]
  · simp only [h, ↓reduceIte]
    rw [AMap.find_filter_ne m.l k i h]

theorem AMap_get_empty {α : Type} (i : Nat) : (({} : AMap α)).get i = none := rfl

/-! ### id sets -/

@[simp] theorem mem_sAdd (l : List Nat) (x y : Nat) : y ∈ sAdd l x ↔ y = x ∨ y ∈ l := by
  unfold sAdd
  split
  · rename_i h
    have hx : x ∈ l := by simpa using h
    constructor
    · intro hy; exact Or.inr hy
    · rintro (rfl | hy)
      · exact hx
      · exact hy
  · simp

@[simp] theorem mem_sDel (l : List Nat) (x y : Nat) : y ∈ sDel l x ↔ y ∈ l ∧ y ≠ x := by
  unfold sDel; simp

theorem nodup_sDel (l : List Nat) (x : Nat) (h : l.Nodup) : (sDel l x).Nodup := by
  unfold sDel; exact h.filter _

@[simp] theorem mem_sAddAll (l xs : List Nat) (y : Nat) : y ∈ sAddAll l xs ↔ y ∈ xs ∨ y ∈ l := by
  induction xs generalizing l with
  | nil => simp [sAddAll]
  | cons x rest ih =>
    simp only [sAddAll, ih, mem_sAdd, List.mem_cons]
    tauto

@[simp] theorem mem_sDelAll (l xs : List Nat) (y : Nat) : y ∈ sDelAll l xs ↔ y ∈ l ∧ y ∉ xs := by
  induction xs generalizing l with
  | nil => simp [sDelAll]
  | cons x rest ih =>
    simp only [sDelAll, ih, mem_sDel, List.mem_cons, not_or]
    tauto

/-! ### name registries -/

def KeysNodup (nm : Names) : Prop := (nm.map (·.1)).Nodup

theorem mem_nmDel (nm : Names) (k : String) (p : String × Nat) :
    p ∈ nmDel nm k ↔ p ∈ nm ∧ p.1 ≠ k := by
  unfold nmDel; simp

theorem keysNodup_nmDel (nm : Names) (k : String) (h : KeysNodup nm) : KeysNodup (nmDel nm k) := by
  unfold KeysNodup nmDel
  exact (List.Nodup.sublist ((List.filter_sublist).map _) h)

theorem mem_nmSet (nm : Names) (k : String) (v : Nat) (p : String × Nat) :
    p ∈ nmSet nm k v ↔ p = (k, v) ∨ (p ∈ nm ∧ p.1 ≠ k) := by
  unfold nmSet; simp [mem_nmDel]

theorem keysNodup_nmSet (nm : Names) (k : String) (v : Nat) (h : KeysNodup nm) : KeysNodup (nmSet nm k v) := by
  have hd := keysNodup_nmDel nm k h
  unfold KeysNodup nmSet at *
  simp only [List.map_cons, List.nodup_cons]
  refine ⟨?_, hd⟩
  intro hk
  obtain ⟨p, hp, hpk⟩ := List.mem_map.mp hk
  exact ((mem_nmDel nm k p).mp hp).2 hpk

theorem nmGet_eq_some_iff (nm : Names) (h : KeysNodup nm) (k : String) (v : Nat) :
    nmGet nm k = some v ↔ (k, v) ∈ nm := by
  induction nm with
  | nil => simp [nmGet]
  | cons p rest ih =>
    unfold KeysNodup at h
    simp only [List.map_cons, List.nodup_cons] at h
    have ih := ih h.2
    unfold nmGet at *
    by_cases hp : p.1 = k
    · simp only [List.find?_cons, hp, decide_true, List.mem_cons]
      constructor
      · intro hv
        left
        cases hv
        rw [← hp]
      · rintro (he | hm)
        · rw [← he]
        · exfalso
          apply h.1
          rw [hp]
          exact List.mem_map.mpr ⟨(k, v), hm, rfl⟩
    · simp only [List.find?_cons, hp, decide_false, List.mem_cons]
      rw [ih]
      constructor
      · intro hm; exact Or.inr hm
      · rintro (he | hm)
        · exfalso; apply hp; rw [← he]
        · exact hm

theorem nmHas_iff (nm : Names) (k : String) : nmHas nm k = true ↔ ∃ v, (k, v) ∈ nm := by
  unfold nmHas
  simp only [List.any_eq_true, decide_eq_true_eq]
  constructor
  · rintro ⟨p, hp, hk⟩
    exact ⟨p.2, by rw [← hk]; exact hp⟩
  · rintro ⟨v, hv⟩
    exact ⟨(k, v), hv, rfl⟩

theorem nmHas_false_iff (nm : Names) (k : String) : nmHas nm k = false ↔ ∀ v, (k, v) ∉ nm := by
  rw [← Bool.not_eq_true, nmHas_iff]
  simp

/-! ### the slot view -/

/-- what `slotsOf` reads of a signal -/
def geo (e : SigE) : Int × Int := (e.rel, sigSize e)

theorem slotsOf_congr (w w' : MW) (ids : List Nat)
    (h : ∀ i ∈ ids, (w'.sigs.get i).map geo = (w.sigs.get i).map geo) :
    slotsOf w' ids = slotsOf w ids := by
  induction ids with
  | nil => rfl
  | cons i rest ih =>
    have hi := h i (List.mem_cons_self)
    have ih := ih (fun j hj => h j (List.mem_cons_of_mem _ hj))
    simp only [slotsOf]
    cases h1 : w.sigs.get i with
    | none =>
      rw [h1] at hi
      cases h2 : w'.sigs.get i with
      | none => simp only [ih]
      | some e' => rw [h2] at hi; simp at hi
    | some e =>
      rw [h1] at hi
      cases h2 : w'.sigs.get i with
      | none => rw [h2] at hi; simp at hi
      | some e' =>
        rw [h2] at hi
        simp only [Option.map_some, Option.some.injEq, geo, Prod.mk.injEq] at hi
        simp only [ih, hi.1, hi.2]

theorem slotsOf_map_id (w : MW) (ids : List Nat) (h : ∀ i ∈ ids, (w.sigs.get i).isSome) :
    (slotsOf w ids).map (·.id) = ids := by
  induction ids with
  | nil => rfl
  | cons i rest ih =>
    have hi := h i (List.mem_cons_self)
    have ih := ih (fun j hj => h j (List.mem_cons_of_mem _ hj))
    simp only [slotsOf]
    cases h1 : w.sigs.get i with
    | none => rw [h1] at hi; simp at hi
    | some e => simp [ih]

theorem mem_slotsOf (w : MW) (ids : List Nat) (sl : Slot) (h : sl ∈ slotsOf w ids) :
    sl.id ∈ ids ∧ ∃ e, w.sigs.get sl.id = some e ∧ sl.start = e.rel ∧ sl.size = sigSize e := by
  induction ids with
  | nil => simp [slotsOf] at h
  | cons i rest ih =>
    simp only [slotsOf] at h
    cases h1 : w.sigs.get i with
    | none =>
      rw [h1] at h
      obtain ⟨hm, he⟩ := ih h
      exact ⟨List.mem_cons_of_mem _ hm, he⟩
    | some e =>
      rw [h1] at h
      simp only [List.mem_cons] at h
      rcases h with rfl | h
      · exact ⟨List.mem_cons_self, e, h1, rfl, rfl⟩
      · obtain ⟨hm, he⟩ := ih h
        exact ⟨List.mem_cons_of_mem _ hm, he⟩

/-- a slot list is the view of its own ids in any world that stores its positions and sizes -/
theorem slotsOf_of_pointwise (w : MW) (L : List Slot)
    (h : ∀ sl ∈ L, ∃ e, w.sigs.get sl.id = some e ∧ e.rel = sl.start ∧ sigSize e = sl.size) :
    slotsOf w (L.map (·.id)) = L := by
  induction L with
  | nil => rfl
  | cons sl rest ih =>
    obtain ⟨e, he, h1, h2⟩ := h sl (List.mem_cons_self)
    have ih := ih (fun t ht => h t (List.mem_cons_of_mem _ ht))
    simp only [List.map_cons, slotsOf, he, ih, h1, h2]

/-! ### no `generateFilters` panic on a well-formed slice -/

theorem slotPanics_false (s : Slot) (h0 : 0 ≤ s.start) (h1 : 0 < s.size) : slotPanics s = false := by
  unfold slotPanics
  have e1 : s.start.tmod 8 = s.start % 8 := Int.tmod_eq_emod_of_nonneg h0
  have e2 : s.start.tdiv 8 = s.start / 8 := Int.tdiv_eq_ediv_of_nonneg h0
  have e3 : (s.start + s.size - 1).tdiv 8 = (s.start + s.size - 1) / 8 :=
    Int.tdiv_eq_ediv_of_nonneg (by omega)
  simp only [e1, e2, e3]
  have : ¬ (s.start % 8 < 0) := by omega
  simp only [this, ↓reduceIte]
  split
  · rfl
  · simp only [decide_eq_false_iff_not, Int.not_lt]
    omega

theorem WFfrom_no_panic (lo cap : Int) (l : List Slot) (hlo : 0 ≤ lo) (h : WFfrom lo cap l) :
    l.any slotPanics = false := by
  induction l generalizing lo with
  | nil => rfl
  | cons s rest ih =>
    obtain ⟨h1, h2, h3⟩ := h
    simp only [List.any_cons, Bool.or_eq_false_iff]
    exact ⟨slotPanics_false s (by omega) h2, ih (s.start + s.size) (by omega) h3⟩

theorem genPanics_false (w : MW) (cap : Int) (ids : List Nat) (h : WF cap (slotsOf w ids)) :
    genPanics w ids = false := by
  unfold genPanics
  exact WFfrom_no_panic 0 cap _ (Int.le_refl _) h

/-! ### writing positions back -/

theorem setRel_get (sigs : AMap SigE) (i : Nat) (v : Int) (j : Nat) :
    (setRel sigs i v).get j = if j = i then (sigs.get i).map (fun e => { e with rel := v }) else sigs.get j := by
  unfold setRel
  cases h : sigs.get i with
  | none =>
    by_cases hj : j = i
    · subst hj; simp [h]
    · simp [hj]
  | some e =>
    simp only [AMap.get_set]
    by_cases hj : j = i
    · simp [hj]
    · simp [hj]

/-- `applyDeltas` on the slot view `old` of a slice without repeated ids: every member gets
    the start of its new slot, nothing else changes. -/
theorem applyDeltas_spec (sigs : AMap SigE) (old new : List Slot)
    (hn : (old.map (·.id)).Nodup) (hid : new.map (·.id) = old.map (·.id))
    (hold : ∀ o ∈ old, ∃ e, sigs.get o.id = some e ∧ e.rel = o.start) :
    (∀ n ∈ new, (applyDeltas sigs old new).get n.id = (sigs.get n.id).map (fun e => { e with rel := n.start })) ∧
    (∀ i, i ∉ old.map (·.id) → (applyDeltas sigs old new).get i = sigs.get i) := by
  induction old generalizing new sigs with
  | nil =>
    cases new with
    | nil => simp [applyDeltas]
    | cons n ns => simp at hid
  | cons o os ih =>
    cases new with
    | nil => simp at hid
    | cons n ns =>
      simp only [List.map_cons, List.cons.injEq] at hid
      simp only [List.map_cons, List.nodup_cons] at hn
      obtain ⟨e, he, hrel⟩ := hold o (List.mem_cons_self)
      have hstep : applyDeltas sigs (o :: os) (n :: ns) =
          applyDeltas (sigs.set o.id { e with rel := n.start }) os ns := by
        simp only [applyDeltas, he]
        have : e.rel + (n.start - o.start) = n.start := by rw [hrel]; omega
        rw [this]
      rw [hstep]
      have hold' : ∀ o' ∈ os, ∃ e', (sigs.set o.id { e with rel := n.start }).get o'.id = some e' ∧ e'.rel = o'.start := by
        intro o' ho'
        have hne : o'.id ≠ o.id := by
          intro heq
          apply hn.1
          rw [← heq]
          exact List.mem_map.mpr ⟨o', ho', rfl⟩
        obtain ⟨e', he', hr'⟩ := hold o' (List.mem_cons_of_mem _ ho')
        exact ⟨e', by simp [hne, he'], hr'⟩
      obtain ⟨ih1, ih2⟩ := ih (sigs.set o.id { e with rel := n.start }) ns hn.2 hid.2 hold'
      constructor
      · intro n' hn'
        simp only [List.mem_cons] at hn'
        rcases hn' with rfl | hn'
        · have hnotin : n'.id ∉ os.map (·.id) := by rw [hid.1]; exact hn.1
          rw [ih2 _ hnotin, hid.1]
          simp [he]
        · rw [ih1 n' hn']
          have hne : n'.id ≠ o.id := by
            intro heq
            apply hn.1
            rw [← heq, ← hid.2]
            exact List.mem_map.mpr ⟨n', hn', rfl⟩
          simp [hne]
      · intro i hi
        simp only [List.map_cons, List.mem_cons, not_or] at hi
        rw [ih2 i hi.2]
        simp [hi.1]

/-! ### bulk updates of a name registry -/

theorem keysNodup_nmSetAll (nm P : Names) (h : KeysNodup nm) : KeysNodup (nmSetAll nm P) := by
  induction P generalizing nm with
  | nil => exact h
  | cons p rest ih => exact ih _ (keysNodup_nmSet nm p.1 p.2 h)

/-- `P` binds every name at most once -/
def Functional (P : Names) : Prop := ∀ n i j, (n, i) ∈ P → (n, j) ∈ P → i = j

theorem mem_nmSetAll (nm P : Names) (hf : Functional P) (n : String) (i : Nat) :
    (n, i) ∈ nmSetAll nm P ↔ (n, i) ∈ P ∨ ((n, i) ∈ nm ∧ ∀ j, (n, j) ∉ P) := by
  induction P generalizing nm with
  | nil => simp [nmSetAll]
  | cons p rest ih =>
    have hf' : Functional rest := fun n i j h1 h2 => hf n i j (List.mem_cons_of_mem _ h1) (List.mem_cons_of_mem _ h2)
    simp only [nmSetAll]
    rw [ih _ hf', mem_nmSet]
    constructor
    · rintro (hr | ⟨hh, hno⟩)
      · exact Or.inl (List.mem_cons_of_mem _ hr)
      · rcases hh with he | ⟨hm, hne⟩
        · left; rw [he]; exact List.mem_cons_self
        · right
          refine ⟨hm, ?_⟩
          intro j hj
          simp only [List.mem_cons] at hj
          rcases hj with hj | hj
          · apply hne
            rw [← hj]
          · exact hno j hj
    · rintro (hp | ⟨hm, hno⟩)
      · simp only [List.mem_cons] at hp
        rcases hp with hp | hp
        · by_cases hex : ∃ j, (n, j) ∈ rest
          · obtain ⟨j, hj⟩ := hex
            have : i = j := hf n i j (by rw [hp]; exact List.mem_cons_self) (List.mem_cons_of_mem _ hj)
            left; rw [this]; exact hj
          · right
            exact ⟨Or.inl hp, fun j hj => hex ⟨j, hj⟩⟩
        · exact Or.inl hp
      · right
        refine ⟨Or.inr ⟨hm, ?_⟩, fun j hj => hno j (List.mem_cons_of_mem _ hj)⟩
        intro hne
        apply hno p.2
        have : p = (n, p.2) := by
          simp only at hne
          rw [hne]
        rw [← this]
        exact List.mem_cons_self

theorem keysNodup_nmDelAll (nm : Names) (ks : List String) (h : KeysNodup nm) : KeysNodup (nmDelAll nm ks) := by
  induction ks generalizing nm with
  | nil => exact h
  | cons k rest ih => exact ih _ (keysNodup_nmDel nm k h)

theorem mem_nmDelAll (nm : Names) (ks : List String) (p : String × Nat) :
    p ∈ nmDelAll nm ks ↔ p ∈ nm ∧ p.1 ∉ ks := by
  induction ks generalizing nm with
  | nil => simp [nmDelAll]
  | cons k rest ih =>
    simp only [nmDelAll, ih, mem_nmDel, List.mem_cons, not_or]
    tauto

end Acme.Mux
