/-
C11 at message level, part 6: export → import with exactly one multiplexer.
-/
import Acme.Spec.ExportImport
import Acme.Proofs.ExportRound

namespace Acme.Import
open Acme.Layout Acme.Conv Acme.Arith
open Acme.Mux (sortInts compactAdj)

theorem normMux_children_perm (be : Bool) (n : MuxNode) (h : MuxOK n) :
    (normMux be n).children.Perm n.children := by
  simp only [normMux]
  exact ((sortBy_perm _ _).map _).trans (seen_perm n h)

theorem muxesOf_one_map (be : Bool) (n : MuxNode) : ∀ top : List Item, muxesOf top = [n] →
    (top.map (normItem be)).Perm ((leavesOf top).map Item.sig ++ [Item.mux (normMux be n)])
  | [], h => by simp [muxesOf] at h
  | .sig l :: r, h => by
    simp only [muxesOf] at h
    simp only [List.map_cons, normItem, leavesOf, List.cons_append]
    exact List.Perm.cons _ (muxesOf_one_map be n r h)
  | .mux m :: r, h => by
    simp only [muxesOf, List.cons.injEq] at h
    obtain ⟨rfl, hr⟩ := h
    simp only [List.map_cons, normItem, leavesOf]
    rw [muxesOf_nil_map be r hr]
    have := muxesOf_nil_top r hr
    rw [← this]
    exact (List.perm_append_comm (l₁ := [Item.mux (normMux be m)]) (l₂ := r))

theorem round_one (t : ITree) (c : Ctx t) (n : MuxNode) (hm : muxesOf t.top = [n]) :
    importMsg (exportMsg t) = .ok (norm t) := by
  have hsigs : (exportMsg t).sigs = t.top.flatMap (itemSigs t.bigEndian) := by
    simp only [exportMsg, exportItems_eq]
  have hexts : (exportMsg t).exts = extsOf n := by
    simp only [exportMsg, exportItems_eq]
    rw [flatMap_itemExts, hm]
    simp
  have hsize : (exportMsg t).size = t.sizeByte.toNat := rfl
  have hszI : (((exportMsg t).size : Nat) : Int) = t.sizeByte := by
    rw [hsize, Int.toNat_of_nonneg c.size0]
  have hcap : (8 * (((exportMsg t).size : Nat) : Int)) = 8 * t.sizeByte := by rw [hszI]
  have hntop : Item.mux n ∈ t.top := (mem_muxesOf _ _).1 (by rw [hm]; exact List.mem_singleton.2 rfl)
  have hok := c.muxOK n hntop
  have hsok := sigs_ok t c
  have hsort := sortSigs_perm (exportMsg t).sigs
  have hmemS : ∀ s, s ∈ sortSigs (exportMsg t).sigs ↔ s ∈ t.top.flatMap (itemSigs t.bigEndian) := by
    intro s; rw [← hsigs]; exact hsort.mem_iff
  have hokS : ∀ s ∈ sortSigs (exportMsg t).sigs, SigOK t.bigEndian (8 * t.sizeByte) s :=
    fun s hs => hsok s ((hmemS s).1 hs)
  -- the three classes of signals
  have hfilter : (sortSigs (exportMsg t).sigs).filter (·.isMultiplexor) = [muxSigOf t.bigEndian n] := by
    unfold sortSigs
    rw [filter_sortBy, hsigs, sigs_filter_mux, hm]
    rfl
  have hkids : (sortSigs (exportMsg t).sigs).filter (fun s => !s.isMultiplexor && s.isMultiplexed) =
      (sortBy (kidKey t.bigEndian n) (seenChildren n)).map (kidSig t.bigEndian n) := by
    unfold sortSigs
    rw [filter_sortBy, hsigs, sigs_filter_kids, hm]
    simp only [List.flatMap_cons, List.flatMap_nil, List.append_nil]
    rw [sortBy_map]
    rfl
  have hleaves : (sortSigs (exportMsg t).sigs).filter (fun s => !s.isMultiplexor && !s.isMultiplexed) =
      sortBy (·.start) ((leavesOf t.top).map (leafSig t.bigEndian)) := by
    unfold sortSigs
    rw [filter_sortBy, hsigs, sigs_filter_leaves]
  have hbe : headBE (sortSigs (exportMsg t).sigs) = t.bigEndian := by
    apply headBE_eq
    · intro s hs; exact (hokS s hs).be
    · intro he
      exfalso
      have : muxSigOf t.bigEndian n ∈ (sortSigs (exportMsg t).sigs).filter (·.isMultiplexor) := by
        rw [hfilter]; exact List.mem_singleton.2 rfl
      rw [he] at this
      cases this
  -- names
  have hnames : ((sortSigs (exportMsg t).sigs).map (·.name)).Nodup := by
    have h0 : ((exportMsg t).sigs.map (·.name)).Perm (regNames t.top) := by
      rw [hsigs]; exact sigs_names t.bigEndian t.top c.muxOK
    exact (((hsort.map (·.name)).trans h0).nodup_iff).2 c.comp.names
  have hmxmem : muxSigOf t.bigEndian n ∈ sortSigs (exportMsg t).sigs := by
    have : muxSigOf t.bigEndian n ∈ (sortSigs (exportMsg t).sigs).filter (·.isMultiplexor) := by
      rw [hfilter]; exact List.mem_singleton.2 rfl
    exact (List.mem_filter.1 this).1
  have hname_mux : ∀ s ∈ sortSigs (exportMsg t).sigs,
      (s.name == (muxSigOf t.bigEndian n).name) = s.isMultiplexor := by
    intro s hs
    cases hb : s.isMultiplexor
    · cases hn : (s.name == (muxSigOf t.bigEndian n).name)
      · rfl
      · have : s = muxSigOf t.bigEndian n :=
          List.inj_on_of_nodup_map hnames hs hmxmem (by simpa using hn)
        rw [this] at hb
        cases hb
    · have : s ∈ (sortSigs (exportMsg t).sigs).filter (·.isMultiplexor) := List.mem_filter.2 ⟨hs, hb⟩
      rw [hfilter, List.mem_singleton] at this
      rw [this]; simp
  -- first loop of importOne
  obtain ⟨last, hsplit, hlast⟩ := splitOne_eval (muxSigOf t.bigEndian n).name (sortSigs (exportMsg t).sigs) [] [] (-1)
    (fun s hs _ => (hokS s hs).check)
  have hf1 : (sortSigs (exportMsg t).sigs).filter
      (fun s => !(s.name == (muxSigOf t.bigEndian n).name) && s.isMultiplexed) =
      (sortBy (kidKey t.bigEndian n) (seenChildren n)).map (kidSig t.bigEndian n) := by
    rw [← hkids]
    apply List.filter_congr
    intro s hs
    rw [hname_mux s hs]
  have hf2 : (sortSigs (exportMsg t).sigs).filter
      (fun s => !(s.name == (muxSigOf t.bigEndian n).name) && !s.isMultiplexed) =
      sortBy (·.start) ((leavesOf t.top).map (leafSig t.bigEndian)) := by
    rw [← hleaves]
    apply List.filter_congr
    intro s hs
    rw [hname_mux s hs]
  rw [hf1, hf2, List.nil_append, List.nil_append] at hsplit
  -- geometry of the multiplexer
  obtain ⟨nb0, nb1, nb2⟩ := c.comp.bounds (.mux n) hntop
  have en1 : (Item.mux n).start = n.start := rfl
  have en2 : (Item.mux n).size = n.groupSize + n.selW := rfl
  have hmxpos : sigPos (muxSigOf t.bigEndian n) = n.start := muxSig_pos t.bigEndian n (by omega)
  have hlast' : last < n.start + n.selW + n.groupSize := by
    rcases hlast with h | ⟨s, hs, _, hsm, h⟩
    · rw [h]; have := hok.w1; have := hok.gsPos; omega
    · have hsk : s ∈ (sortSigs (exportMsg t).sigs).filter (fun s => !s.isMultiplexor && s.isMultiplexed) := by
        refine List.mem_filter.2 ⟨hs, ?_⟩
        have hmx : s.isMultiplexor = false := by
          cases hb : s.isMultiplexor
          · rfl
          · have : s ∈ (sortSigs (exportMsg t).sigs).filter (·.isMultiplexor) := List.mem_filter.2 ⟨hs, hb⟩
            rw [hfilter, List.mem_singleton] at this
            rw [this] at hsm
            cases hsm
        simp [hmx, hsm]
      rw [hkids] at hsk
      obtain ⟨p, hp, rfl⟩ := List.mem_map.1 hsk
      have hp' : p ∈ seenChildren n := (sortBy_perm _ _).mem_iff.1 hp
      have hc : p.1 ∈ n.children := (seen_inv n hok).sub p hp'
      obtain ⟨r0, r1⟩ := child_bounds n hok p.1 hc
      have hsz := (hok.ids p.1 hc).2.2.2
      rw [h, kidSig_pos t.bigEndian n p (by have := hok.w1; omega)]
      omega
  -- the leaves stay at the top
  have hleafmem : ∀ s ∈ sortBy (·.start) ((leavesOf t.top).map (leafSig t.bigEndian)),
      ∃ l, Item.sig l ∈ t.top ∧ s = leafSig t.bigEndian l := by
    intro s hs
    have := (sortBy_perm _ _).mem_iff.1 hs
    obtain ⟨l, hl, rfl⟩ := List.mem_map.1 this
    exact ⟨l, (mem_leavesOf _ _).1 hl, rfl⟩
  have hdisjLM : ∀ l, Item.sig l ∈ t.top → SlotDisj (Item.sig l).slot (Item.mux n).slot := by
    intro l hl
    exact pairwise_mem_ne (fun a b hab => SlotDisj.symm hab) t.top c.comp.disj _ hl _ hntop (by simp)
  have hnotbetween : ∀ s ∈ sortBy (·.start) ((leavesOf t.top).map (leafSig t.bigEndian)),
      ¬ (sigPos s > sigPos (muxSigOf t.bigEndian n) ∧ sigPos s < last) := by
    intro s hs
    obtain ⟨l, hl, rfl⟩ := hleafmem s hs
    obtain ⟨l0, l1, l2⟩ := c.comp.bounds (.sig l) hl
    have e1 : (Item.sig l).start = l.start := rfl
    have e2 : (Item.sig l).size = l.size := rfl
    rw [leafSig_pos t.bigEndian l (by omega), hmxpos]
    have hd := hdisjLM l hl
    simp only [SlotDisj, Item.slot, e1, e2, en1, en2] at hd
    omega
  have hleafperm : ((sortBy (·.start) ((leavesOf t.top).map (leafSig t.bigEndian))).map leafOf).Perm
      ((leavesOf t.top).map Item.sig) := by
    refine ((sortBy_perm _ _).map leafOf).trans ?_
    rw [List.map_map]
    have : (leavesOf t.top).map (leafOf ∘ leafSig t.bigEndian) = (leavesOf t.top).map Item.sig := by
      apply List.map_congr_left
      intro l hl
      have hl' := (mem_leavesOf _ _).1 hl
      obtain ⟨l0, _, l2⟩ := c.comp.bounds (.sig l) hl'
      exact leafOf_leafSig t.bigEndian l l0 l2
    rw [this]
  have hsplitTop := top_perm_split t.top
  rw [hm] at hsplitTop
  simp only [List.map_cons, List.map_nil] at hsplitTop
  have hcompL : Compatible (8 * t.sizeByte) ((leavesOf t.top).map Item.sig) :=
    (c.comp.perm hsplitTop).left
  obtain ⟨top1, hins1, hperm1, hwf1⟩ := insertAll_ok (8 * t.sizeByte)
    ((sortBy (·.start) ((leavesOf t.top).map (leafSig t.bigEndian))).map leafOf) []
    (by rw [List.append_nil]; exact hcompL.perm hleafperm.symm) (topWF_nil _ (by have := c.size0; omega))
  rw [List.append_nil] at hperm1
  have hplace : placeStd (8 * t.sizeByte) (sigPos (muxSigOf t.bigEndian n)) last []
      ((sortBy (kidKey t.bigEndian n) (seenChildren n)).map (kidSig t.bigEndian n))
      (sortBy (·.start) ((leavesOf t.top).map (leafSig t.bigEndian))) =
      .ok (top1, (sortBy (kidKey t.bigEndian n) (seenChildren n)).map (kidSig t.bigEndian n)) := by
    rw [placeStd_eq _ _ _ _ _ _ hnotbetween, hins1]
  -- the multiplexer
  have hmux := importMux_exported t.bigEndian n hok (by omega) (sortBy (kidKey t.bigEndian n) (seenChildren n))
    (sortBy_perm _ _)
  have hnorm : ({ n with children := (sortBy (kidKey t.bigEndian n) (seenChildren n)).map (·.1) } : MuxNode) =
      normMux t.bigEndian n := rfl
  rw [hnorm] at hmux
  -- its insertion
  have htop1mem : ∀ y ∈ top1, ∃ l, Item.sig l ∈ t.top ∧ y = Item.sig l := by
    intro y hy
    have := (hperm1.trans hleafperm).mem_iff.1 hy
    obtain ⟨l, hl, rfl⟩ := List.mem_map.1 this
    exact ⟨l, (mem_leavesOf _ _).1 hl, rfl⟩
  have hregperm : (regNames (Item.mux (normMux t.bigEndian n) :: top1)).Perm (regNames t.top) := by
    have h1 : (regNames (Item.mux (normMux t.bigEndian n) :: top1)).Perm
        (itemNames (Item.mux n) ++ regNames ((leavesOf t.top).map Item.sig)) := by
      rw [regNames_cons]
      refine List.Perm.append ?_ (regNames_perm (hperm1.trans hleafperm))
      simp only [itemNames]
      exact List.Perm.cons _ ((normMux_children_perm t.bigEndian n hok).map _)
    refine h1.trans ?_
    rw [← regNames_cons]
    exact regNames_perm ((List.perm_append_comm (l₁ := [Item.mux n])).trans hsplitTop.symm)
  have hinsM := insertTop_ok (8 * t.sizeByte) top1 (.mux (normMux t.bigEndian n)) hwf1
    nb2
    ((hregperm.nodup_iff).2 c.comp.names) nb0 nb1
    (by
      intro y hy
      obtain ⟨l, hl, rfl⟩ := htop1mem y hy
      exact (hdisjLM l hl).symm)
  have hone : importOne (8 * t.sizeByte) (extsOf n) (muxSigOf t.bigEndian n) (sortSigs (exportMsg t).sigs) =
      .ok (insertItem (.mux (normMux t.bigEndian n)) top1) := by
    unfold importOne
    rw [hsplit]
    simp only [hplace, hmux, hinsM]
  -- the result is the normalised top level
  have hfinal : insertItem (.mux (normMux t.bigEndian n)) top1 = t.top.map (normItem t.bigEndian) := by
    obtain ⟨_, hwfF, _⟩ := insertTop_spec _ _ _ _ hinsM nb2 hwf1
    apply perm_sorted_eq Item.start _ _ ?_ (wf_sorted_top _ _ hwfF)
    · have := wf_sorted_top _ _ c.wf
      rw [List.pairwise_map]
      exact this.imp (fun hab => by rw [normItem_start, normItem_start]; exact hab)
    · refine (insertItem_perm _ _).trans ?_
      refine ((List.Perm.cons _ (hperm1.trans hleafperm)).trans ?_).trans (muxesOf_one_map t.bigEndian n t.top hm).symm
      exact (List.perm_append_comm (l₁ := [Item.mux (normMux t.bigEndian n)]))
  have := importMsg_eval_one (exportMsg t) _ (muxSigOf t.bigEndian n)
    (by
      rw [hcap, hbe]
      exact firstLoop_ok _ _ _ [] (fun s hs => ⟨(hokS s hs).bound, (hokS s hs).be⟩) hnames (fun s _ hm => by cases hm))
    (by rw [hsize]; have := c.size8; omega) hfilter (by rw [hcap, hexts]; exact hone)
  rw [this, hfinal, hbe, hszI]
  congr 1
  show (⟨t.id, t.sizeByte, t.bigEndian, t.top.map (normItem t.bigEndian), []⟩ : ITree) =
    ⟨t.id, t.sizeByte, t.bigEndian, t.top.map (normItem t.bigEndian), t.nested⟩
  rw [c.flat]

end Acme.Import
