/-
Every network the model loader answers with satisfies `loadedWf` (Spec/LoadWF): one lemma per loop
of `load`, then the threading of the loader state (attached interfaces, sent / received message
ids of the interfaces) through messages, interfaces and buses.
-/
import Acme.Spec.LoadWF
import Acme.Proofs.SaveMsg
import Acme.Proofs.SaveRefuse

namespace Acme.Save
open List

/-! ## attributes -/

theorem dedupFirst_nodup : ∀ l : List String, (dedupFirst l).Nodup
  | [] => by simp [dedupFirst]
  | x :: xs => by
    simp only [dedupFirst, List.nodup_cons]
    refine ⟨?_, (dedupFirst_nodup xs).filter _⟩
    simp

theorem loadAttr_wf (p : PAttr) (a : Attr) (h : loadAttr p = .ok a) : attrLWf a = true := by
  obtain ⟨e, tag, body⟩ := p
  cases body with
  | none => simp [loadAttr] at h
  | str => simp only [loadAttr] at h; (repeat' split at h) <;> first | (cases h; rfl) | cases h
  | int => simp only [loadAttr] at h; (repeat' split at h) <;> first | (cases h; rfl) | cases h
  | flt => simp only [loadAttr] at h; (repeat' split at h) <;> first | (cases h; rfl) | cases h
  | enm vs d =>
    have key : ∀ v r, dedupFirst (enumOrder vs d) = v :: r → attrLWf ⟨e, .enm (v :: r) v⟩ = true := by
      intro v r hv
      have hn := dedupFirst_nodup (enumOrder vs d)
      rw [hv] at hn
      simp [attrLWf, nodupB, hn]
    simp only [loadAttr] at h
    (repeat' split at h) <;> first | (cases h; exact key _ _ (by assumption)) | cases h

theorem loadAttrs_wf : ∀ (l : List PAttr) (as : List Attr), loadAttrs l = .ok as →
    ∀ a ∈ as, attrLWf a = true
  | [], as, h => by simp only [loadAttrs] at h; cases h; simp
  | p :: rest, as, h => by
    simp only [loadAttrs] at h
    split at h
    · cases h
    · rename_i a ha
      split at h
      · cases h
      · rename_i as' has
        cases h
        intro x hx
        rcases List.mem_cons.mp hx with rfl | hx
        · exact loadAttr_wf p _ ha
        · exact loadAttrs_wf rest as' has x hx

/-! ## attribute assignments -/

/-- `asgsWf` looks at the attribute table only -/
theorem asgsWf_congr {T T' : Tbl} (h : T.attrs = T'.attrs) (asg : List Asg) :
    asgsWf T asg = asgsWf T' asg := by
  simp only [asgsWf, Tbl.attr, h]

theorem loadAsgs_wf (T : Tbl) : ∀ (l : List PAsg) (as : List Asg), loadAsgs T l = .ok as →
    asgsWf T as = true
  | [], as, h => by simp only [loadAsgs] at h; cases h; simp [asgsWf, nodupB]
  | p :: rest, as, h => by
    simp only [loadAsgs] at h
    split at h
    · cases h
    · rename_i a ha
      split at h
      · exact loadAsgs_wf T rest as h
      · split at h
        · rename_i hfit
          split at h
          · cases h
          · rename_i as' has
            have ih := loadAsgs_wf T rest as' has
            cases h
            split
            · exact ih
            · rename_i hany
              simp only [asgsWf, Bool.and_eq_true, nodupB, decide_eq_true_eq, List.all_eq_true] at ih ⊢
              refine ⟨?_, ?_⟩
              · simp only [List.map_cons, List.nodup_cons]
                refine ⟨?_, ih.1⟩
                intro hm
                apply hany
                obtain ⟨x, hx, he⟩ := List.mem_map.mp hm
                rw [List.any_eq_true]
                exact ⟨x, hx, by simpa using he⟩
              · intro x hx
                rcases List.mem_cons.mp hx with rfl | hx
                · simp only [ha]
                  cases hk : a.kind with
                  | enm vs dd =>
                    simp only [hk, asgFits, Bool.and_eq_true] at hfit
                    exact hfit.2
                  | str => rfl
                  | int => rfl
                  | flt => rfl
                · exact ih.2 x hx
        · cases h

/-! ## multiplexer -/

theorem groupsOf_append (a b : List (Nat × Id × Nat)) (id : Id) :
    groupsOf (a ++ b) id = groupsOf a id ++ groupsOf b id := by
  simp [groupsOf]

/-- in a list with distinct keys at most one element has a given key -/
theorem filter_key_le_one {α : Type} (key : α → Id) (id : Id) : ∀ (l : List α), (l.map key).Nodup →
    l.filter (fun x => key x == id) = [] ∨ ∃ a, l.filter (fun x => key x == id) = [a]
  | [], _ => Or.inl rfl
  | x :: xs, hn => by
    simp only [List.map_cons, List.nodup_cons] at hn
    by_cases hx : key x = id
    · right
      refine ⟨x, ?_⟩
      have : xs.filter (fun y => key y == id) = [] := by
        rw [List.filter_eq_nil_iff]
        intro y hy hk
        exact hn.1 (List.mem_map.mpr ⟨y, hy, by rw [hx]; simpa using hk⟩)
      simp [hx, this]
    · have : (key x == id) = false := by simpa using hx
      simp only [List.filter_cons, this, Bool.false_eq_true, if_false]
      exact filter_key_le_one key id xs hn.2

/-- the entries of ONE group list name a child at most once -/
theorem groupsOf_group (k : Nat) (g : List (Id × Nat)) (id : Id) :
    groupsOf ((dedupLast (·.1) g).map (fun p => (k, p.1, p.2))) id = [] ∨
    groupsOf ((dedupLast (·.1) g).map (fun p => (k, p.1, p.2))) id = [k] := by
  have h : groupsOf ((dedupLast (·.1) g).map (fun p => (k, p.1, p.2))) id =
      ((dedupLast (·.1) g).filter (fun p => p.1 == id)).map (fun _ => k) := by
    simp [groupsOf, List.filter_map, Function.comp_def]
  rw [h]
  rcases filter_key_le_one (fun p : Id × Nat => p.1) id _ (nodup_keys_dedupLast (·.1) g) with h0 | ⟨a, h1⟩
  · left; rw [h0]; rfl
  · right; rw [h1]; rfl

/-- the groups of a child, read off the group lists, are strictly ascending -/
theorem groupsOf_triplesFrom (id : Id) : ∀ (groups : List (List (Id × Nat))) (k : Nat),
    (groupsOf (triplesFrom k groups) id).Pairwise (· < ·) ∧
    ∀ x ∈ groupsOf (triplesFrom k groups) id, k ≤ x
  | [], k => by simp [triplesFrom, groupsOf]
  | g :: gs, k => by
    obtain ⟨ih1, ih2⟩ := groupsOf_triplesFrom id gs (k + 1)
    simp only [triplesFrom, groupsOf_append]
    rcases groupsOf_group k g id with h | h
    · rw [h, List.nil_append]
      exact ⟨ih1, fun x hx => Nat.le_of_succ_le (ih2 x hx)⟩
    · rw [h]
      refine ⟨?_, ?_⟩
      · simp only [List.singleton_append, List.pairwise_cons]
        exact ⟨fun x hx => ih2 x hx, ih1⟩
      · intro x hx
        simp only [List.singleton_append, List.mem_cons] at hx
        rcases hx with rfl | hx
        · exact Nat.le_refl _
        · exact Nat.le_of_succ_le (ih2 x hx)

theorem mem_groupsOf {ts : List (Nat × Id × Nat)} {id : Id} {x : Nat} :
    x ∈ groupsOf ts id ↔ ∃ t ∈ ts, t.2.1 = id ∧ t.1 = x := by
  simp only [groupsOf, List.mem_map, List.mem_filter, beq_iff_eq]
  constructor
  · rintro ⟨t, ⟨ht, hid⟩, rfl⟩; exact ⟨t, ht, hid, rfl⟩
  · rintro ⟨t, ht, hid, rfl⟩; exact ⟨t, ⟨ht, hid⟩, rfl⟩

/-- `assembleMux`: the children are the given signals, each with a well-formed group list -/
theorem assembleMux_wf (T : Tbl) (gc : Nat) (kids : List Sig) (fixed : List Id)
    (groups : List (List (Id × Nat))) (ks : List Kid)
    (h : assembleMux gc kids fixed groups = .ok ks) (hs : ∀ s ∈ kids, sigWf T s = true) :
    (∀ k ∈ ks, sigWf T k.sig = true ∧ grpWf gc k.grp = true) ∧
    ks.map (fun k => k.sig.id) = kids.map Sig.id ∧ ks.map Kid.sig = kids := by
  obtain ⟨h1, h2⟩ := assembleMux_inv gc kids fixed groups ks h
  unfold assembleMux at h
  dsimp only at h
  split at h
  · cases h
  · split at h
    · cases h
    · injection h with h
      subst h
      refine ⟨?_, ?_, ?_⟩
      · intro k hk
        obtain ⟨s, hs', rfl⟩ := List.mem_map.mp hk
        refine ⟨hs s hs', ?_⟩
        simp only [Kid.grp]
        split
        · rfl
        · rename_i hfix
          simp only [grpWf, Bool.and_eq_true, Bool.not_eq_true', List.all_eq_true, decide_eq_true_eq]
          refine ⟨⟨?_, ?_⟩, ?_⟩
          · -- placed: the list is not empty
            obtain ⟨t, ht, hid⟩ := firstPos_some_mem (h2 s hs')
            have : t.1 ∈ groupsOf (triplesFrom 0 groups) s.id := mem_groupsOf.mpr ⟨t, ht, hid, rfl⟩
            cases hg : groupsOf (triplesFrom 0 groups) s.id with
            | nil => rw [hg] at this; simp at this
            | cons _ _ => rfl
          · exact (ascB_iff _).mpr (groupsOf_triplesFrom s.id groups 0).1
          · intro x hx
            obtain ⟨t, ht, hid, rfl⟩ := mem_groupsOf.mp hx
            rcases (h1 t ht).2.2 with hc | hc
            · rw [hid] at hc; exact absurd hc hfix
            · exact hc
      · simp [Kid.sig, Function.comp_def]
      · simp [Kid.sig, Function.comp_def]

/-! ## the signal ids seen -/

/-- what was seen stays seen, with the same owner -/
def SeenLe (sn sn' : Seen) : Prop := ∀ id o, sn.owner id = some o → sn'.owner id = some o

theorem SeenLe.refl (sn : Seen) : SeenLe sn sn := fun _ _ h => h

theorem SeenLe.trans {a b c : Seen} (h1 : SeenLe a b) (h2 : SeenLe b c) : SeenLe a c :=
  fun id o h => h2 id o (h1 id o h)

theorem seeSig_le {sn sn' : Seen} {id : Id} {o : Owner} (h : seeSig sn id o = .ok sn') :
    SeenLe sn sn' ∧ sn'.owner id = some o := by
  obtain ⟨h1, rfl⟩ := (seeSig_ok_iff sn sn' id o).mp h
  refine ⟨?_, by simp [Seen.owner_cons]⟩
  intro id' o' h'
  rw [Seen.owner_cons]
  split
  · rename_i he
    subst he
    rcases h1 with h1 | h1
    · rw [h1] at h'; cases h'
    · rw [h1] at h'; exact h'
  · exact h'

mutual
  theorem loadSig_wf (T : Tbl) (o : Owner) : (p : PSig) → (sn sn' : Seen) → (s : Sig) →
      loadSig T o sn p = .ok (s, sn') →
      sigWf T s = true ∧ SeenLe sn sn' ∧ ∀ q ∈ sigOwners o s, sn'.owner q.1 = some q.2
    | .mk e asg kind body, sn, sn', s, h => by
      simp only [loadSig] at h
      split at h
      · cases h
      · rename_i sn1 hsee
        split at h
        · cases h
        · rename_i b sn2 hb
          split at h
          · cases h
          · rename_i a ha
            injection h with h
            injection h with h1 h2
            subst h1 h2
            obtain ⟨l1, o1⟩ := seeSig_le hsee
            obtain ⟨w, l2, o2⟩ := loadBody_wf T (sigKindOf kind) e.id body sn1 sn2 b hb
            refine ⟨?_, l1.trans l2, ?_⟩
            · simp only [sigWf, Bool.and_eq_true]
              exact ⟨loadAsgs_wf T asg a ha, w⟩
            · intro q hq
              simp only [sigOwners, List.mem_cons] at hq
              rcases hq with rfl | hq
              · exact l2 _ _ o1
              · exact o2 q hq
  theorem loadBody_wf (T : Tbl) (kind : Nat) (self : Id) : (p : PBody) → (sn sn' : Seen) → (b : Body) →
      loadBody T kind self sn p = .ok (b, sn') →
      bodyWf T b = true ∧ SeenLe sn sn' ∧ ∀ q ∈ bodyOwners self b, sn'.owner q.1 = some q.2
    | .none, sn, sn', b, h => by simp [loadBody] at h
    | .std ty un, sn, sn', b, h => by
      simp only [loadBody] at h
      split at h
      · cases h
      · split at h
        · cases h
        · rename_i ht
          split at h
          · cases h
          · rename_i hu
            injection h with h
            injection h with h1 h2
            subst h1 h2
            refine ⟨?_, SeenLe.refl _, by simp [bodyOwners]⟩
            simp only [bodyWf, Bool.and_eq_true]
            refine ⟨by cases hx : findEnt T.types ty <;> simp_all, ?_⟩
            by_cases hun : un = ""
            · simp [hun]
            · simp only [Bool.and_eq_true, bne_iff_ne, ne_eq, not_and, Bool.not_eq_true,
                Option.isNone_eq_false_iff] at hu
              simp [hun, hu hun]
    | .enm en, sn, sn', b, h => by
      simp only [loadBody] at h
      split at h
      · cases h
      · split at h
        · cases h
        · rename_i ht
          injection h with h
          injection h with h1 h2
          subst h1 h2
          refine ⟨?_, SeenLe.refl _, by simp [bodyOwners]⟩
          simp only [bodyWf]
          cases hx : findEnt T.enums en <;> simp_all
    | .mux gc sigs fixed groups, sn, sn', b, h => by
      simp only [loadBody] at h
      split at h
      · cases h
      · split at h
        · cases h
        · rename_i hgc
          split at h
          · cases h
          · rename_i ks sn1 hks
            split at h
            · cases h
            · rename_i kids hk
              injection h with h
              injection h with h1 h2
              subst h1 h2
              obtain ⟨l1, hall⟩ := loadSigs_wf T (.sig self) sigs sn sn1 ks hks
              obtain ⟨w1, w2, w3⟩ := assembleMux_wf T gc (dedupLast Sig.id ks) fixed groups kids hk
                (fun s hs => (hall s (mem_of_mem_dedupLast hs)).1)
              refine ⟨?_, l1, ?_⟩
              · simp only [bodyWf, Bool.and_eq_true, decide_eq_true_eq, kidsWf_iff, kidIds_eq, nodupB]
                refine ⟨⟨?_, w1⟩, ?_⟩
                · have : gc ≠ 0 := by simpa using hgc
                  omega
                · rw [w2]
                  exact nodup_keys_dedupLast Sig.id ks
              · intro q hq
                simp only [bodyOwners] at hq
                obtain ⟨k, hk', hq'⟩ := mem_kidsOwners.mp hq
                have : k.sig ∈ dedupLast Sig.id ks := by
                  rw [← w3]
                  exact List.mem_map.mpr ⟨k, hk', rfl⟩
                exact (hall k.sig (mem_of_mem_dedupLast this)).2 q hq'
  theorem loadSigs_wf (T : Tbl) (o : Owner) : (l : List PSig) → (sn sn' : Seen) → (ks : List Sig) →
      loadSigs T o sn l = .ok (ks, sn') →
      SeenLe sn sn' ∧ ∀ s ∈ ks, sigWf T s = true ∧ ∀ q ∈ sigOwners o s, sn'.owner q.1 = some q.2
    | [], sn, sn', ks, h => by
      simp only [loadSigs] at h
      injection h with h
      injection h with h1 h2
      subst h1 h2
      exact ⟨SeenLe.refl _, by simp⟩
    | p :: rest, sn, sn', ks, h => by
      simp only [loadSigs] at h
      split at h
      · cases h
      · rename_i s sn1 hs
        split at h
        · cases h
        · rename_i ss sn2 hss
          injection h with h
          injection h with h1 h2
          subst h1 h2
          obtain ⟨w, l1, o1⟩ := loadSig_wf T o p sn sn1 s hs
          obtain ⟨l2, r2⟩ := loadSigs_wf T o rest sn1 sn2 ss hss
          refine ⟨l1.trans l2, ?_⟩
          intro x hx
          rcases List.mem_cons.mp hx with rfl | hx
          · exact ⟨w, fun q hq => l2 _ _ (o1 q hq)⟩
          · exact r2 x hx
end

theorem loadTop_wf (T : Tbl) (refs : List (Id × Nat)) (o : Owner) : ∀ (l : List PSig) (sn sn' : Seen)
    (ss : List (Sig × Nat)), loadTop T refs o sn l = .ok (ss, sn') →
    SeenLe sn sn' ∧ ∀ p ∈ ss, sigWf T p.1 = true ∧ ∀ q ∈ sigOwners o p.1, sn'.owner q.1 = some q.2
  | [], sn, sn', ss, h => by
    simp only [loadTop] at h
    injection h with h
    injection h with h1 h2
    subst h1 h2
    exact ⟨SeenLe.refl _, by simp⟩
  | p :: rest, sn, sn', ss, h => by
    simp only [loadTop] at h
    split at h
    · cases h
    · rename_i s sn1 hs
      split at h
      · cases h
      · split at h
        · cases h
        · rename_i ss' sn2 hss
          injection h with h
          injection h with h1 h2
          subst h1 h2
          obtain ⟨w, l1, o1⟩ := loadSig_wf T o p sn sn1 s hs
          obtain ⟨l2, r2⟩ := loadTop_wf T refs o rest sn1 sn2 ss' hss
          refine ⟨l1.trans l2, ?_⟩
          intro x hx
          rcases List.mem_cons.mp hx with rfl | hx
          · exact ⟨w, fun q hq => l2 _ _ (o1 q hq)⟩
          · exact r2 x hx

/-! ## receivers -/

theorem mem_upsert {α : Type} (key : α → Id) (x : α) : ∀ (l : List α), ∀ y ∈ upsert key x l, y = x ∨ y ∈ l
  | [], y, hy => by simp only [upsert, List.mem_singleton] at hy; exact Or.inl hy
  | z :: zs, y, hy => by
    simp only [upsert] at hy
    split at hy
    · rcases List.mem_cons.mp hy with rfl | hy
      · exact Or.inl rfl
      · exact Or.inr (List.mem_cons_of_mem _ hy)
    · rcases List.mem_cons.mp hy with rfl | hy
      · exact Or.inr (by simp)
      · rcases mem_upsert key x zs y hy with h | h
        · exact Or.inl h
        · exact Or.inr (List.mem_cons_of_mem _ h)

theorem upsert_keys_nodup {α : Type} (key : α → Id) (x : α) : ∀ (l : List α), (l.map key).Nodup →
    ((upsert key x l).map key).Nodup
  | [], _ => by simp [upsert]
  | z :: zs, hn => by
    simp only [List.map_cons, List.nodup_cons] at hn
    simp only [upsert]
    split
    · rename_i hk
      have hk' : key z = key x := by simpa using hk
      simp only [List.map_cons, List.nodup_cons]
      exact ⟨hk' ▸ hn.1, hn.2⟩
    · rename_i hk
      have hk' : key z ≠ key x := by simpa using hk
      simp only [List.map_cons, List.nodup_cons]
      refine ⟨?_, upsert_keys_nodup key x zs hn.2⟩
      intro hm
      obtain ⟨y, hy, he⟩ := List.mem_map.mp hm
      rcases mem_upsert key x zs y hy with rfl | hy
      · exact hk' he.symm
      · exact hn.1 (List.mem_map.mpr ⟨y, hy, he⟩)

/-- the loop over the receivers of a message: the receivers resolve, one per node; every receiver
    that is kept is registered as received and was not a sender of the id -/
theorem loadRecvs_post (T : Tbl) (mid : Id) : ∀ (l : List (Id × Nat)) (st : St) (acc rs : List Recv) (st' : St),
    loadRecvs T mid st acc l = .ok (rs, st') →
    (∀ r ∈ acc, recvWf T r = true) → (acc.map (·.node)).Nodup →
    (∀ r ∈ acc, ((r.node, r.num), mid) ∈ st.received ∧ ((r.node, r.num), mid) ∉ st.sent) →
    (∀ r ∈ rs, recvWf T r = true) ∧ (rs.map (·.node)).Nodup ∧
    (∀ r ∈ rs, ((r.node, r.num), mid) ∈ st'.received ∧ ((r.node, r.num), mid) ∉ st.sent) ∧
    st'.sent = st.sent ∧ st'.attached = st.attached ∧ (∀ x ∈ st.received, x ∈ st'.received) ∧
    st'.msgs = st.msgs ∧ st'.sigs = st.sigs
  | [], st, acc, rs, st', h, h1, h2, h3 => by
    simp only [loadRecvs] at h
    injection h with h
    injection h with ha hb
    subst ha hb
    exact ⟨h1, h2, h3, rfl, rfl, fun _ hx => hx, rfl, rfl⟩
  | (node, num) :: rest, st, acc, rs, st', h, h1, h2, h3 => by
    simp only [loadRecvs] at h
    split at h
    · cases h
    · rename_i nd hnd
      split at h
      · cases h
      · rename_i hnum
        split at h
        · exact loadRecvs_post T mid rest st acc rs st' h h1 h2 h3
        · rename_i hsent
          have hsent' : ((node, num), mid) ∉ st.sent := by simpa using hsent
          obtain ⟨a, b, c, d, e, f, g, g'⟩ := loadRecvs_post T mid rest _ _ rs st' h
            (by
              intro r hr
              rcases mem_upsert Recv.node ⟨node, num⟩ acc r hr with rfl | hr
              · simp only [recvWf, hnd, decide_eq_true_eq]; omega
              · exact h1 r hr)
            (upsert_keys_nodup Recv.node ⟨node, num⟩ acc h2)
            (by
              intro r hr
              rcases mem_upsert Recv.node ⟨node, num⟩ acc r hr with rfl | hr
              · exact ⟨by simp, hsent'⟩
              · exact ⟨List.mem_cons_of_mem _ (h3 r hr).1, (h3 r hr).2⟩)
          exact ⟨a, b, c, d, e, fun x hx => f x (List.mem_cons_of_mem _ hx), g, g'⟩

/-! ## messages -/

theorem loadMsg_post (T : Tbl) (st : St) (p : PMsg) (m : Msg) (st' : St)
    (h : loadMsg T st p = .ok (m, st')) :
    msgLWf T m = true ∧
    (∀ r ∈ m.recvs, ((r.node, r.num), m.e.id) ∈ st'.received ∧ ((r.node, r.num), m.e.id) ∉ st.sent) ∧
    st'.sent = st.sent ∧ st'.attached = st.attached ∧ (∀ x ∈ st.received, x ∈ st'.received) ∧
    m.e.id ∉ st.msgs ∧ st'.msgs = m.e.id :: st.msgs ∧ SeenLe st.sigs st'.sigs ∧
    ∀ q ∈ msgOwners m, st'.sigs.owner q.1 = some q.2 := by
  simp only [loadMsg] at h
  split at h
  · cases h
  · rename_i hnew
    split at h
    · cases h
    · rename_i sigs sn hs
      split at h
      · cases h
      · rename_i recvs st1 hr
        split at h
        · cases h
        · rename_i asg ha
          injection h with h
          injection h with hm hst
          subst hm hst
          obtain ⟨a, b, c, d, e, f, g, g'⟩ := loadRecvs_post T p.e.id p.recvs _ [] recvs st1 hr
            (by simp) (by simp) (by simp)
          obtain ⟨l1, t1⟩ := loadTop_wf T p.refs (.msg p.e.id) p.sigs st.sigs sn sigs hs
          refine ⟨?_, c, d, e, f, by simpa using hnew, g, g' ▸ l1, ?_⟩
          · simp only [msgLWf, Bool.and_eq_true, List.all_eq_true, nodupB, decide_eq_true_eq]
            refine ⟨⟨⟨⟨loadAsgs_wf T p.asg asg ha, ?_⟩, fun x hx => (t1 x hx).1⟩, a⟩, b⟩
            cases p.hasStatic <;> simp
          · intro q hq
            obtain ⟨x, hx, hq'⟩ := List.mem_flatMap.mp hq
            rw [g']
            exact (t1 x hx).2 q hq'

/-! ## the loader state -/

def Msg.rp (m : Msg) : List ((Id × Nat) × Id) := m.recvs.map fun r => ((r.node, r.num), m.e.id)
def Iface.sp (i : Iface) : List ((Id × Nat) × Id) := i.msgs.map fun m => ((i.node, i.num), m.e.id)
def Iface.rp (i : Iface) : List ((Id × Nat) × Id) := i.msgs.flatMap Msg.rp
def Bus.sp (b : Bus) : List ((Id × Nat) × Id) := b.ifaces.flatMap Iface.sp
def Bus.rp (b : Bus) : List ((Id × Nat) × Id) := b.ifaces.flatMap Iface.rp

/-- what a stretch of the loader that turns state `st` into `st'` has established: it attached the
    interfaces `K`, registered the (interface, message id) pairs `S` as sent and `R` as received,
    loaded the messages with the entity ids `M` and the signals `O` (each with its owner) -/
structure Post (st st' : St) (K : List (Id × Nat)) (S R : List ((Id × Nat) × Id)) (M : List Id)
    (O : List (Id × Owner)) : Prop where
  att_mono : ∀ k ∈ st.attached, k ∈ st'.attached
  sent_mono : ∀ x ∈ st.sent, x ∈ st'.sent
  recv_mono : ∀ x ∈ st.received, x ∈ st'.received
  msgs_mono : ∀ x ∈ st.msgs, x ∈ st'.msgs
  sigs_mono : SeenLe st.sigs st'.sigs
  att : ∀ k ∈ K, k ∈ st'.attached
  sent : ∀ x ∈ S, x ∈ st'.sent
  recv : ∀ x ∈ R, x ∈ st'.received
  msgs : ∀ x ∈ M, x ∈ st'.msgs
  sigs : ∀ q ∈ O, st'.sigs.owner q.1 = some q.2
  att_fresh : ∀ k ∈ K, k ∉ st.attached
  sent_fresh : ∀ x ∈ S, x ∉ st.received
  sent_new : ∀ x ∈ S, x ∉ st.sent
  recv_fresh : ∀ x ∈ R, x ∉ st.sent
  msgs_fresh : ∀ x ∈ M, x ∉ st.msgs
  disj : ∀ x ∈ S, x ∉ R
  keys_nodup : K.Nodup
  sent_nodup : S.Nodup
  msgs_nodup : M.Nodup

theorem Post.refl (st : St) : Post st st [] [] [] [] [] := by
  constructor <;> first | exact SeenLe.refl _ | simp

theorem Post.append {st st1 st2 : St} {K1 K2 : List (Id × Nat)} {S1 S2 R1 R2 : List ((Id × Nat) × Id)}
    {M1 M2 : List Id} {O1 O2 : List (Id × Owner)}
    (a : Post st st1 K1 S1 R1 M1 O1) (b : Post st1 st2 K2 S2 R2 M2 O2) :
    Post st st2 (K1 ++ K2) (S1 ++ S2) (R1 ++ R2) (M1 ++ M2) (O1 ++ O2) where
  att_mono k hk := b.att_mono k (a.att_mono k hk)
  sent_mono x hx := b.sent_mono x (a.sent_mono x hx)
  recv_mono x hx := b.recv_mono x (a.recv_mono x hx)
  msgs_mono x hx := b.msgs_mono x (a.msgs_mono x hx)
  sigs_mono := a.sigs_mono.trans b.sigs_mono
  att k hk := by
    rcases List.mem_append.mp hk with hk | hk
    · exact b.att_mono k (a.att k hk)
    · exact b.att k hk
  sent x hx := by
    rcases List.mem_append.mp hx with hx | hx
    · exact b.sent_mono x (a.sent x hx)
    · exact b.sent x hx
  recv x hx := by
    rcases List.mem_append.mp hx with hx | hx
    · exact b.recv_mono x (a.recv x hx)
    · exact b.recv x hx
  msgs x hx := by
    rcases List.mem_append.mp hx with hx | hx
    · exact b.msgs_mono x (a.msgs x hx)
    · exact b.msgs x hx
  sigs q hq := by
    rcases List.mem_append.mp hq with hq | hq
    · exact b.sigs_mono _ _ (a.sigs q hq)
    · exact b.sigs q hq
  att_fresh k hk := by
    rcases List.mem_append.mp hk with hk | hk
    · exact a.att_fresh k hk
    · exact fun hc => b.att_fresh k hk (a.att_mono k hc)
  sent_fresh x hx := by
    rcases List.mem_append.mp hx with hx | hx
    · exact a.sent_fresh x hx
    · exact fun hc => b.sent_fresh x hx (a.recv_mono x hc)
  sent_new x hx := by
    rcases List.mem_append.mp hx with hx | hx
    · exact a.sent_new x hx
    · exact fun hc => b.sent_new x hx (a.sent_mono x hc)
  recv_fresh x hx := by
    rcases List.mem_append.mp hx with hx | hx
    · exact a.recv_fresh x hx
    · exact fun hc => b.recv_fresh x hx (a.sent_mono x hc)
  msgs_fresh x hx := by
    rcases List.mem_append.mp hx with hx | hx
    · exact a.msgs_fresh x hx
    · exact fun hc => b.msgs_fresh x hx (a.msgs_mono x hc)
  disj x hx hr := by
    rcases List.mem_append.mp hx with hx | hx <;> rcases List.mem_append.mp hr with hr | hr
    · exact a.disj x hx hr
    · exact b.recv_fresh x hr (a.sent x hx)
    · exact b.sent_fresh x hx (a.recv x hr)
    · exact b.disj x hx hr
  keys_nodup := by
    rw [List.nodup_append]
    exact ⟨a.keys_nodup, b.keys_nodup, fun k hk k' hk' he => b.att_fresh k' hk' (he ▸ a.att k hk)⟩
  sent_nodup := by
    rw [List.nodup_append]
    exact ⟨a.sent_nodup, b.sent_nodup, fun x hx x' hx' he => b.sent_new x' hx' (he ▸ a.sent x hx)⟩
  msgs_nodup := by
    rw [List.nodup_append]
    exact ⟨a.msgs_nodup, b.msgs_nodup, fun x hx x' hx' he => b.msgs_fresh x' hx' (he ▸ a.msgs x hx)⟩

theorem Post.attach {st st1 : St} {S R : List ((Id × Nat) × Id)} {M : List Id} {O : List (Id × Owner)}
    {k : Id × Nat}
    (a : Post st st1 [] S R M O) (hk : k ∉ st.attached) :
    Post st { st1 with attached := k :: st1.attached } [k] S R M O where
  att_mono k' hk' := List.mem_cons_of_mem _ (a.att_mono k' hk')
  sent_mono := a.sent_mono
  recv_mono := a.recv_mono
  msgs_mono := a.msgs_mono
  sigs_mono := a.sigs_mono
  att k' hk' := by
    simp only [List.mem_singleton] at hk'
    subst hk'
    simp
  sent := a.sent
  recv := a.recv
  msgs := a.msgs
  sigs := a.sigs
  att_fresh k' hk' := by
    simp only [List.mem_singleton] at hk'
    subst hk'
    exact hk
  sent_fresh := a.sent_fresh
  sent_new := a.sent_new
  recv_fresh := a.recv_fresh
  msgs_fresh := a.msgs_fresh
  disj := a.disj
  keys_nodup := by simp
  sent_nodup := a.sent_nodup
  msgs_nodup := a.msgs_nodup

/-- the loop over the messages of the interface `key` -/
theorem loadMsgs_post (T : Tbl) (key : Id × Nat) : ∀ (l : List PMsg) (st : St) (ms : List Msg) (st' : St),
    loadMsgs T key st l = .ok (ms, st') →
    Post st st' [] (ms.map fun m => (key, m.e.id)) (ms.flatMap Msg.rp) (ms.map (·.e.id))
      (ms.flatMap msgOwners) ∧
    ∀ m ∈ ms, msgLWf T m = true
  | [], st, ms, st', h => by
    simp only [loadMsgs] at h
    injection h with h
    injection h with ha hb
    subst ha hb
    exact ⟨Post.refl st, by simp⟩
  | p :: rest, st, ms, st', h => by
    simp only [loadMsgs] at h
    split at h
    · cases h
    · rename_i m st1 hm
      split at h
      · cases h
      · rename_i hsent
        split at h
        · cases h
        · rename_i hrecv
          split at h
          · cases h
          · rename_i ms' st2 hms
            injection h with h
            injection h with ha hb
            subst ha hb
            obtain ⟨w, c, d, e, f, g1, g2, g3, g4⟩ := loadMsg_post T st p m st1 hm
            have hsent' : (key, m.e.id) ∉ st1.sent := by simpa using hsent
            have hrecv' : (key, m.e.id) ∉ st1.received := by simpa using hrecv
            have step : Post st { st1 with sent := (key, m.e.id) :: st1.sent } [] [(key, m.e.id)] m.rp
                [m.e.id] (msgOwners m) := by
              constructor
              · intro k hk; simpa [e] using hk
              · intro x hx; exact List.mem_cons_of_mem _ (d ▸ hx)
              · exact f
              · intro x hx; simp only [g2]; exact List.mem_cons_of_mem _ hx
              · exact g3
              · simp
              · simp
              · intro x hx
                obtain ⟨r, hr, rfl⟩ := List.mem_map.mp hx
                exact (c r hr).1
              · intro x hx
                simp only [List.mem_singleton] at hx
                subst hx
                simp [g2]
              · exact g4
              · simp
              · intro x hx
                simp only [List.mem_singleton] at hx
                subst hx
                exact fun hc => hrecv' (f _ hc)
              · intro x hx
                simp only [List.mem_singleton] at hx
                subst hx
                exact d ▸ hsent'
              · intro x hx
                obtain ⟨r, hr, rfl⟩ := List.mem_map.mp hx
                exact (c r hr).2
              · intro x hx
                simp only [List.mem_singleton] at hx
                subst hx
                exact g1
              · intro x hx hr
                simp only [List.mem_singleton] at hx
                subst hx
                obtain ⟨r, hr', he⟩ := List.mem_map.mp hr
                exact hrecv' (he ▸ (c r hr').1)
              · simp
              · simp
              · simp
            obtain ⟨ih1, ih2⟩ := loadMsgs_post T key rest _ ms' _ hms
            refine ⟨by simpa using step.append ih1, ?_⟩
            intro x hx
            rcases List.mem_cons.mp hx with rfl | hx
            · exact w
            · exact ih2 x hx

theorem loadIface_post (T : Tbl) (st : St) (p : PIface) (i : Iface) (st' : St)
    (h : loadIface T st p = .ok (i, st')) :
    Post st st' [i.key] i.sp i.rp i.mids i.owners ∧ ifaceLWf T i = true := by
  simp only [loadIface] at h
  split at h
  · cases h
  · rename_i nd hnd
    split at h
    · cases h
    · rename_i hneg
      split at h
      · cases h
      · rename_i hbig
        split at h
        · cases h
        · rename_i hatt
          split at h
          · cases h
          · rename_i ms st1 hms
            injection h with h
            injection h with ha hb
            subst ha hb
            obtain ⟨pm, wm⟩ := loadMsgs_post T _ p.msgs st ms st1 hms
            have hatt' : (p.node, p.num.toNat) ∉ st.attached := by simpa using hatt
            refine ⟨pm.attach hatt', ?_⟩
            simp only [ifaceLWf, Bool.and_eq_true, List.all_eq_true, Bool.not_eq_true']
            refine ⟨?_, ?_⟩
            · simp only [recvWf, hnd, decide_eq_true_eq]; omega
            · intro m hm
              refine ⟨wm m hm, ?_⟩
              rw [Bool.eq_false_iff]
              intro hc
              have hc' : (⟨p.node, p.num.toNat⟩ : Recv) ∈ m.recvs := by simpa using hc
              refine pm.disj ((p.node, p.num.toNat), m.e.id) (List.mem_map.mpr ⟨m, hm, rfl⟩) ?_
              exact List.mem_flatMap.mpr ⟨m, hm, List.mem_map.mpr ⟨_, hc', rfl⟩⟩

theorem loadIfaces_post (T : Tbl) : ∀ (l : List PIface) (st : St) (is : List Iface) (st' : St),
    loadIfaces T st l = .ok (is, st') →
    Post st st' (is.map Iface.key) (is.flatMap Iface.sp) (is.flatMap Iface.rp) (is.flatMap Iface.mids)
      (is.flatMap Iface.owners) ∧
    ∀ i ∈ is, ifaceLWf T i = true
  | [], st, is, st', h => by
    simp only [loadIfaces] at h
    injection h with h
    injection h with ha hb
    subst ha hb
    exact ⟨Post.refl st, by simp⟩
  | p :: rest, st, is, st', h => by
    simp only [loadIfaces] at h
    split at h
    · cases h
    · rename_i i st1 hi
      split at h
      · cases h
      · rename_i is' st2 his
        injection h with h
        injection h with ha hb
        subst ha hb
        obtain ⟨p1, w1⟩ := loadIface_post T st p i st1 hi
        obtain ⟨p2, w2⟩ := loadIfaces_post T rest st1 is' _ his
        refine ⟨by simpa using p1.append p2, ?_⟩
        intro x hx
        rcases List.mem_cons.mp hx with rfl | hx
        · exact w1
        · exact w2 x hx

theorem loadBus_post (T : Tbl) (st : St) (p : PBus) (b : Bus) (st' : St)
    (h : loadBus T st p = .ok (b, st')) :
    Post st st' b.keys b.sp b.rp b.mids b.owners ∧ busLWf T b = true ∧ b.e = p.e := by
  simp only [loadBus] at h
  split at h
  · cases h
  · rename_i hb
    split at h
    · cases h
    · rename_i is st1 his
      split at h
      · cases h
      · rename_i asg ha
        injection h with h
        injection h with h1 h2
        subst h1 h2
        obtain ⟨p1, w1⟩ := loadIfaces_post T p.ifaces st is _ his
        refine ⟨p1, ?_, rfl⟩
        simp only [busLWf, Bool.and_eq_true, List.all_eq_true]
        refine ⟨⟨loadAsgs_wf T p.asg asg ha, ?_⟩, w1⟩
        by_cases hbe : p.builder = ""
        · simp [hbe]
        · simp only [Bool.and_eq_true, bne_iff_ne, ne_eq, not_and, Bool.not_eq_true,
            Option.isNone_eq_false_iff] at hb
          simp [hbe, hb hbe]

/-- the loop over the buses -/
theorem loadBuses_post (T : Tbl) : ∀ (l : List PBus) (st : St) (seen : List Id) (bs : List Bus),
    loadBuses T st seen l = .ok bs →
    ∃ st', Post st st' (bs.flatMap Bus.keys) (bs.flatMap Bus.sp) (bs.flatMap Bus.rp) (bs.flatMap Bus.mids)
        (bs.flatMap Bus.owners) ∧
      (∀ b ∈ bs, busLWf T b = true) ∧ (bs.map (·.e.id)).Nodup ∧ ∀ b ∈ bs, b.e.id ∉ seen
  | [], st, seen, bs, h => by
    simp only [loadBuses] at h
    injection h with h
    subst h
    exact ⟨st, Post.refl st, by simp, by simp, by simp⟩
  | p :: rest, st, seen, bs, h => by
    simp only [loadBuses] at h
    split at h
    · cases h
    · rename_i b st1 hb
      split at h
      · cases h
      · rename_i hseen
        split at h
        · cases h
        · rename_i bs' hbs
          injection h with h
          subst h
          obtain ⟨p1, w1, _⟩ := loadBus_post T st p b st1 hb
          obtain ⟨st2, p2, w2, n2, s2⟩ := loadBuses_post T rest st1 (b.e.id :: seen) bs' hbs
          refine ⟨st2, by simpa using p1.append p2, ?_, ?_, ?_⟩
          · intro x hx
            rcases List.mem_cons.mp hx with rfl | hx
            · exact w1
            · exact w2 x hx
          · simp only [List.map_cons, List.nodup_cons]
            refine ⟨?_, n2⟩
            intro hm
            obtain ⟨x, hx, he⟩ := List.mem_map.mp hm
            exact s2 x hx (by simp [he])
          · intro x hx
            rcases List.mem_cons.mp hx with rfl | hx
            · simpa using hseen
            · exact fun hc => s2 x hx (List.mem_cons_of_mem _ hc)

/-! ## the tables -/

theorem loadNodes_wf (T : Tbl) : ∀ (l : List PNode) (ns : List Node), loadNodes T l = .ok ns →
    ∀ x ∈ ns, asgsWf T x.asg = true
  | [], ns, h => by simp only [loadNodes] at h; cases h; simp
  | p :: rest, ns, h => by
    simp only [loadNodes] at h
    split at h
    · cases h
    · rename_i asg ha
      split at h
      · cases h
      · rename_i ns' hns
        cases h
        intro x hx
        rcases List.mem_cons.mp hx with rfl | hx
        · exact loadAsgs_wf T p.asg asg ha
        · exact loadNodes_wf T rest ns' hns x hx

theorem loadBuilder_ops (b : PBuilder) : ∀ o ∈ (loadBuilder b).ops, o.kind ≤ 3 := by
  intro o ho
  simp only [loadBuilder, List.mem_map] at ho
  obtain ⟨q, _, rfl⟩ := ho
  simp only [loadOp]
  split <;> omega

/-- every network the loader answers with satisfies the invariant -/
theorem load_ok_loadedWf (p : PNet) (n : Net) (h : load p = .ok n) : loadedWf n = true := by
  simp only [load] at h
  split at h
  · cases h
  · rename_i attrs hattrs
    split at h
    · cases h
    · rename_i nodes hnodes
      split at h
      · cases h
      · rename_i buses hb
        injection h with h
        subst h
        obtain ⟨st', post, wb, nb, _⟩ := loadBuses_post _ p.buses {} [] buses hb
        simp only [loadedWf, Bool.and_eq_true, List.all_eq_true, nodupB, decide_eq_true_eq,
          Bool.not_eq_true']
        refine ⟨⟨⟨⟨⟨⟨?_, wb⟩, nb⟩, ?_⟩, ?_⟩, ?_⟩, ?_⟩
        · -- the tables
          simp only [tblLWf, Bool.and_eq_true, List.all_eq_true, nodupB, decide_eq_true_eq]
          refine ⟨⟨⟨⟨⟨⟨⟨⟨?_, ?_⟩, ?_⟩, ?_⟩, ?_⟩, ?_⟩, ?_⟩, ?_⟩, ?_⟩
          · exact nodup_keys_dedupLast (fun b : Builder => b.e.id) _
          · exact nodup_keys_dedupLast (fun b : Node => b.e.id) _
          · exact nodup_keys_dedupLast (fun b : Ent => b.id) _
          · exact nodup_keys_dedupLast (fun b : Ent => b.id) _
          · exact nodup_keys_dedupLast (fun b : Ent => b.id) _
          · exact nodup_keys_dedupLast (fun b : Attr => b.e.id) _
          · intro x hx o ho
            obtain ⟨q, _, rfl⟩ := List.mem_map.mp (mem_of_mem_dedupLast hx)
            exact loadBuilder_ops q o ho
          · intro x hx
            have := loadNodes_wf _ p.nodes nodes hnodes x (mem_of_mem_dedupLast hx)
            exact Eq.trans (asgsWf_congr (by rfl) _) this
          · intro x hx
            exact loadAttrs_wf p.attrs attrs hattrs x (mem_of_mem_dedupLast hx)
        · exact post.keys_nodup
        · exact post.msgs_nodup
        · intro x hx
          rw [Bool.eq_false_iff]
          intro hc
          exact post.disj x hx (List.contains_iff_mem.mp hc)
        · simp only [ownersFunctional, List.all_eq_true, Bool.or_eq_true, bne_iff_ne, ne_eq, beq_iff_eq]
          intro a ha b hb'
          by_cases he : a.1 = b.1
          · right
            have h1 := post.sigs a ha
            have h2 := post.sigs b hb'
            rw [he, h2] at h1
            exact (Option.some.inj h1).symm
          · exact Or.inl he

/-! ## `loadedWf` and the three missing clauses give `wf` back -/

theorem attrWf_of_attrLWf (a : Attr) (h : attrLWf a = true) : attrWf a = true := by
  unfold attrLWf at h
  unfold attrWf
  split
  · rename_i vs d hk
    simp only [hk, Bool.and_eq_true, beq_iff_eq] at h
    simp only [Bool.and_eq_true, h.1, true_and]
    cases vs with
    | nil => simp at h
    | cons v r =>
      have : v = d := by simpa using h.2
      simp [this]
  · rfl

theorem msgWf_of_msgLWf (t : Tbl) (m : Msg) (h : msgLWf t m = true)
    (hs : nodupB (m.sigs.map (·.1.id)) = true) : msgWf t m = true := by
  simp only [msgLWf, Bool.and_eq_true] at h
  simp only [msgWf, Bool.and_eq_true]
  obtain ⟨⟨⟨⟨a, b⟩, c⟩, d⟩, e⟩ := h
  exact ⟨⟨⟨⟨⟨a, b⟩, c⟩, hs⟩, d⟩, e⟩

theorem ifaceWf_of_ifaceLWf (t : Tbl) (i : Iface) (h : ifaceLWf t i = true)
    (hs : ∀ m ∈ i.msgs, nodupB (m.sigs.map (·.1.id)) = true) : ifaceWf t i = true := by
  simp only [ifaceLWf, Bool.and_eq_true, List.all_eq_true] at h
  simp only [ifaceWf, Bool.and_eq_true, List.all_eq_true]
  exact ⟨h.1, fun m hm => ⟨msgWf_of_msgLWf t m (h.2 m hm).1 (hs m hm), (h.2 m hm).2⟩⟩

theorem busWf_of_busLWf (t : Tbl) (b : Bus) (h : busLWf t b = true)
    (hs : ∀ i ∈ b.ifaces, ∀ m ∈ i.msgs, nodupB (m.sigs.map (·.1.id)) = true) : busWf t b = true := by
  simp only [busLWf, Bool.and_eq_true, List.all_eq_true] at h
  simp only [busWf, Bool.and_eq_true, List.all_eq_true]
  exact ⟨h.1, fun i hi => ifaceWf_of_ifaceLWf t i (h.2 i hi) (hs i hi)⟩

/-- the clauses of `wf` that `loadedWf` leaves out are exactly: every table entry is used, the
    top-level signals of a message have distinct ids, the signals of the network have distinct ids -/
theorem wf_of_loadedWf_aux (n : Net) (h : loadedWf n = true) (hu : allUsed n = true)
    (hs : topSigIdsDistinct n = true) (hm : sigIdsDistinct n = true) : wf n = true := by
  simp only [loadedWf, Bool.and_eq_true, List.all_eq_true] at h
  obtain ⟨⟨⟨⟨⟨⟨ht, hb⟩, hbn⟩, hk⟩, hmi⟩, _⟩, _⟩ := h
  simp only [topSigIdsDistinct, List.all_eq_true] at hs
  simp only [wf, Bool.and_eq_true, List.all_eq_true]
  refine ⟨⟨⟨⟨⟨?_, fun b hb' => busWf_of_busLWf n.t b (hb b hb') (hs b hb')⟩, hbn⟩, hk⟩, hmi⟩, hm⟩
  simp only [tblLWf, Bool.and_eq_true, List.all_eq_true] at ht
  simp only [allUsed, Bool.and_eq_true, List.all_eq_true] at hu
  obtain ⟨⟨⟨⟨⟨⟨⟨⟨t1, t2⟩, t3⟩, t4⟩, t5⟩, t6⟩, t7⟩, t8⟩, t9⟩ := ht
  obtain ⟨⟨⟨⟨⟨u1, u2⟩, u3⟩, u4⟩, u5⟩, u6⟩ := hu
  simp only [tblWf, Bool.and_eq_true, List.all_eq_true]
  exact ⟨⟨⟨⟨⟨⟨⟨⟨⟨⟨⟨t1, t2⟩, t3⟩, t4⟩, t5⟩, t6⟩, fun x hx => ⟨u1 x hx, t7 x hx⟩⟩,
    fun x hx => ⟨u2 x hx, t8 x hx⟩⟩, u3⟩, u4⟩, u5⟩, fun x hx => ⟨u6 x hx, attrWf_of_attrLWf x (t9 x hx)⟩⟩

end Acme.Save
