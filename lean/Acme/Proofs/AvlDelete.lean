/-
`findMin` / `deleteNode` preserve the invariant and remove exactly one equal element (C19).
-/
import Acme.Proofs.AvlBasic

namespace Acme.Avl
open Tree

/-! ### list helpers -/

theorem erase_append_of_not_mem_right {a : Int × Int} {L X : List (Int × Int)} (h : a ∉ X) :
    (L ++ X).erase a = L.erase a ++ X := by
  by_cases hL : a ∈ L
  · exact List.erase_append_left _ hL
  · rw [List.erase_append_right _ hL, List.erase_of_not_mem h, List.erase_of_not_mem hL]

theorem erase_append_cons_of_not_mem_left {a n : Int × Int} {L R : List (Int × Int)}
    (h : a ∉ L) (hn : a ≠ n) : (L ++ n :: R).erase a = L ++ n :: R.erase a := by
  rw [List.erase_append_right _ h, List.erase_cons_tail]
  simpa using fun e => hn e.symm

theorem erase_middle_perm (a : Int × Int) (L R : List (Int × Int)) :
    ((L ++ a :: R).erase a).Perm (L ++ R) := by
  have := (List.perm_middle (a := a) (l₁ := L) (l₂ := R)).erase a
  simpa using this

@[simp] theorem lessThan_self (lo hi : Int) : lessThan lo hi lo hi = false := by
  simp [lessThan]

/-! ### `findMin` -/

theorem findMin_spec (t : Tree) (hne : t ≠ nil) (hb : IsBst t) :
    ∃ m, findMin t = some m ∧ m ∈ inorder t ∧ ∀ x ∈ inorder t, le2 m x := by
  induction t with
  | nil => exact absurd rfl hne
  | node l lo hi mx h r ihl _ =>
    obtain ⟨hbl, hbr, hbL, hbR⟩ := hb
    cases l with
    | nil =>
      refine ⟨(lo, hi), rfl, by simp [inorder], ?_⟩
      intro x hx
      simp only [inorder, List.nil_append, List.mem_cons] at hx
      rcases hx with rfl | hx
      · exact le2_refl _
      · exact hbR x hx
    | node ll llo lhi lm lh lr =>
      obtain ⟨m, e, hmem, hmin⟩ := ihl (by simp) hbl
      refine ⟨m, by simpa [findMin] using e, ?_, ?_⟩
      · simp only [inorder] at hmem ⊢
        exact List.mem_append_left _ hmem
      · intro x hx
        have hmn : le2 m (lo, hi) := hbL m hmem
        rw [inorder, List.mem_append, List.mem_cons] at hx
        rcases hx with hx | rfl | hx
        · exact hmin x hx
        · exact hmn
        · exact le2_trans hmn (hbR x hx)

/-! ### `deleteNode` -/

theorem deleteNode_spec (t : Tree) (lo hi : Int)
    (hb : IsBst t) (hh : HeightOK t) (hbal : Balanced t) (hm : MaxOK t) :
    ∃ t' d, deleteNode t lo hi = some (t', d) ∧ IsBst t' ∧ HeightOK t' ∧ Balanced t' ∧
      MaxOK t' ∧ (inorder t').Perm ((inorder t).erase (lo, hi)) ∧
      d = (if (lo, hi) ∈ inorder t then -1 else 0) ∧
      realHeight t' ≤ realHeight t ∧ realHeight t - 1 ≤ realHeight t' := by
  induction t generalizing lo hi with
  | nil =>
    exact ⟨nil, 0, rfl, hb, hh, hbal, hm, by simp [inorder], by simp [inorder], Int.le_refl _, by omega⟩
  | node l nlo nhi mx h r ihl ihr =>
    obtain ⟨hbl, hbr, hbL, hbR⟩ := hb
    obtain ⟨hhl, hhr, _⟩ := hh
    obtain ⟨hball, hbalr, hd1, hd2⟩ := hbal
    obtain ⟨hml, hmr, _⟩ := hm
    by_cases hlt : lessThan lo hi nlo nhi = true
    · -- go left
      have hnot : (lo, hi) ∉ (nlo, nhi) :: inorder r := by
        intro hmem
        apply not_le2_of_lessThan hlt
        rcases List.mem_cons.1 hmem with e | hmem
        · rw [← e]; exact le2_refl _
        · exact hbR _ hmem
      obtain ⟨l', d, e1, hbl', hhl', hball', hml', hp, hd, hup, hlow⟩ :=
        ihl lo hi hbl hhl hball hml
      obtain ⟨t', e2, hin, hht', hbalt', hmt', b1, b2, b3⟩ :=
        rebalance_mk_spec nlo nhi hhl' hhr hball' hbalr hml' hmr (by omega) (by omega)
      refine ⟨t', d, ?_, ?_, hht', hbalt', hmt', ?_, ?_, ?_, ?_⟩
      · simp [deleteNode, hlt, e1, e2]
      · refine isBst_of_inorder_eq (t := mk l' nlo nhi r) (by simpa using hin)
          ⟨hbl', hbr, ?_, hbR⟩
        intro x hx
        exact hbL x (List.mem_of_mem_erase (hp.mem_iff.1 hx))
      · rw [hin, inorder, erase_append_of_not_mem_right hnot]
        exact hp.append_right _
      · rw [hd]
        have : (lo, hi) ∈ inorder (node l nlo nhi mx h r) ↔ (lo, hi) ∈ inorder l := by
          rw [inorder, List.mem_append]
          exact ⟨fun h => h.resolve_right hnot, Or.inl⟩
        simp only [this]
      · simp only [realHeight]; omega
      · simp only [realHeight]; omega
    · by_cases hne : lo ≠ nlo ∨ hi ≠ nhi
      · -- go right
        have hnl : (lo, hi) ∉ inorder l := fun hmem =>
          not_le2_of_not_lessThan_ne hlt hne (hbL _ hmem)
        have hnn : (lo, hi) ≠ (nlo, nhi) := by
          intro e; injection e with e1 e2; omega
        obtain ⟨r', d, e1, hbr', hhr', hbalr', hmr', hp, hd, hup, hlow⟩ :=
          ihr lo hi hbr hhr hbalr hmr
        obtain ⟨t', e2, hin, hht', hbalt', hmt', b1, b2, b3⟩ :=
          rebalance_mk_spec nlo nhi hhl hhr' hball hbalr' hml hmr' (by omega) (by omega)
        refine ⟨t', d, ?_, ?_, hht', hbalt', hmt', ?_, ?_, ?_, ?_⟩
        · simp [deleteNode, hlt, hne, e1, e2]
        · refine isBst_of_inorder_eq (t := mk l nlo nhi r') (by simpa using hin)
            ⟨hbl, hbr', hbL, ?_⟩
          intro x hx
          exact hbR x (List.mem_of_mem_erase (hp.mem_iff.1 hx))
        · rw [hin, inorder, erase_append_cons_of_not_mem_left hnl hnn]
          exact (hp.cons _).append_left _
        · rw [hd]
          have : (lo, hi) ∈ inorder (node l nlo nhi mx h r) ↔ (lo, hi) ∈ inorder r := by
            rw [inorder, List.mem_append, List.mem_cons]
            exact ⟨fun h => h.elim (fun h => absurd h hnl)
              (fun h => h.elim (fun h => absurd h hnn) id), fun h => Or.inr (Or.inr h)⟩
          simp only [this]
        · simp only [realHeight]; omega
        · simp only [realHeight]; omega
      · -- delete this node
        have hlo : lo = nlo := by omega
        have hhi : hi = nhi := by omega
        subst hlo hhi
        cases l with
        | nil =>
          refine ⟨r, -1, ?_, hbr, hhr, hbalr, hmr, ?_, ?_, ?_, ?_⟩
          · simp [deleteNode]
          · simp [inorder]
          · simp [inorder]
          · have := realHeight_nonneg r
            simp only [realHeight] at hd1 hd2 ⊢; omega
          · have := realHeight_nonneg r
            simp only [realHeight] at hd1 hd2 ⊢; omega
        | node ll llo lhi lm lh lr =>
          cases r with
          | nil =>
            refine ⟨_, -1, ?_, hbl, hhl, hball, hml, ?_, ?_, ?_, ?_⟩
            · simp [deleteNode]
            · have := erase_middle_perm (lo, hi) (inorder (node ll llo lhi lm lh lr)) []
              rw [List.append_nil] at this
              exact this.symm
            · simp [inorder]
            · have := realHeight_nonneg ll
              have := realHeight_nonneg lr
              simp only [realHeight] at hd1 hd2 ⊢; omega
            · have := realHeight_nonneg ll
              have := realHeight_nonneg lr
              simp only [realHeight] at hd1 hd2 ⊢; omega
          | node rl rlo rhi rm rh rr =>
            obtain ⟨⟨slo, shi⟩, efm, hmem, hmin⟩ :=
              findMin_spec (node rl rlo rhi rm rh rr) (by simp) hbr
            obtain ⟨r', d, e1, hbr', hhr', hbalr', hmr', hp, hd, hup, hlow⟩ :=
              ihr slo shi hbr hhr hbalr hmr
            rw [if_pos hmem] at hd
            obtain ⟨t', e2, hin, hht', hbalt', hmt', b1, b2, b3⟩ :=
              rebalance_mk_spec slo shi hhl hhr' hball hbalr' hml hmr' (by omega) (by omega)
            refine ⟨t', -1, ?_, ?_, hht', hbalt', hmt', ?_, ?_, ?_, ?_⟩
            · rw [deleteNode]; simp [efm, e1, e2, hd]
              all_goals simp
            · refine isBst_of_inorder_eq (t := mk _ slo shi r') (by simpa using hin)
                ⟨hbl, hbr', ?_, ?_⟩
              · intro x hx
                exact le2_trans (hbL x hx) (hbR _ hmem)
              · intro x hx
                exact hmin x (List.mem_of_mem_erase (hp.mem_iff.1 hx))
            · rw [hin]
              refine List.Perm.trans ?_ (erase_middle_perm _ _ _).symm
              refine List.Perm.append_left _ ?_
              exact ((hp.cons _)).trans (List.perm_cons_erase hmem).symm
            · simp [inorder]
            · simp only [realHeight] at *; omega
            · simp only [realHeight] at *; omega

end Acme.Avl
