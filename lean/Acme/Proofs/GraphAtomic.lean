/-
Graph part of C06, syntactic facts about `step`, for EVERY world and operation: a result
`err c` or `unsupported` comes with the unchanged world; no operation answers `panic`.
-/
import Acme.Spec.Graph

namespace Acme.Graph

/-- close one leaf of a fully split operation: either the branch returns the old world, or
its outcome is not the one assumed -/
macro "out_leaf" : tactic =>
  `(tactic| first
    | (intro _; rfl)
    | (intro h; cases h)
    | (intro h; exact absurd h (by simp)))

theorem busRemoveIfaceCore_err {g : G} {b nd : Nat} {cz : Cause} :
    (busRemoveIfaceCore g b nd).2 = .err cz → (busRemoveIfaceCore g b nd).1 = g := by
  unfold busRemoveIfaceCore; repeat' split
  all_goals out_leaf
theorem busRemoveIfaceCore_uns {g : G} {b nd : Nat} :
    (busRemoveIfaceCore g b nd).2 = .unsupported → (busRemoveIfaceCore g b nd).1 = g := by
  unfold busRemoveIfaceCore; repeat' split
  all_goals out_leaf
theorem busRemoveIfaceCore_np {g : G} {b nd : Nat} : (busRemoveIfaceCore g b nd).2 ≠ .panic := by
  unfold busRemoveIfaceCore; repeat' split
  all_goals (intro h; cases h)
theorem addRecvCore_err {g : G} {i m : Nat} {ifc : IfaceE} {msg : MsgE} {cz : Cause} :
    (addRecvCore g i ifc m msg).2 = .err cz → (addRecvCore g i ifc m msg).1 = g := by
  unfold addRecvCore; repeat' split
  all_goals out_leaf
theorem addRecvCore_uns {g : G} {i m : Nat} {ifc : IfaceE} {msg : MsgE} :
    (addRecvCore g i ifc m msg).2 = .unsupported → (addRecvCore g i ifc m msg).1 = g := by
  unfold addRecvCore; repeat' split
  all_goals out_leaf
theorem addRecvCore_np {g : G} {i m : Nat} {ifc : IfaceE} {msg : MsgE} : (addRecvCore g i ifc m msg).2 ≠ .panic := by
  unfold addRecvCore; repeat' split
  all_goals (intro h; cases h)

theorem stepNetNew_err {g : G} (n : Nat) (name : String) {cz : Cause} : (stepNetNew g n name).2 = .err cz → (stepNetNew g n name).1 = g := by
  unfold stepNetNew; (try dsimp only)
  repeat' split
  all_goals out_leaf
theorem stepNetNew_uns {g : G} (n : Nat) (name : String) : (stepNetNew g n name).2 = .unsupported → (stepNetNew g n name).1 = g := by
  unfold stepNetNew; (try dsimp only)
  repeat' split
  all_goals out_leaf
theorem stepNetNew_np {g : G} (n : Nat) (name : String) : (stepNetNew g n name).2 ≠ .panic := by
  unfold stepNetNew; (try dsimp only)
  repeat' split
  all_goals (intro h; cases h)
theorem stepNetAddBus_err {g : G} (n : Nat) (b : Nat) {cz : Cause} : (stepNetAddBus g n b).2 = .err cz → (stepNetAddBus g n b).1 = g := by
  unfold stepNetAddBus; (try dsimp only)
  repeat' split
  all_goals out_leaf
theorem stepNetAddBus_uns {g : G} (n : Nat) (b : Nat) : (stepNetAddBus g n b).2 = .unsupported → (stepNetAddBus g n b).1 = g := by
  unfold stepNetAddBus; (try dsimp only)
  repeat' split
  all_goals out_leaf
theorem stepNetAddBus_np {g : G} (n : Nat) (b : Nat) : (stepNetAddBus g n b).2 ≠ .panic := by
  unfold stepNetAddBus; (try dsimp only)
  repeat' split
  all_goals (intro h; cases h)
theorem stepNetRemoveBus_err {g : G} (n : Nat) (b : Nat) {cz : Cause} : (stepNetRemoveBus g n b).2 = .err cz → (stepNetRemoveBus g n b).1 = g := by
  unfold stepNetRemoveBus; (try dsimp only)
  repeat' split
  all_goals out_leaf
theorem stepNetRemoveBus_uns {g : G} (n : Nat) (b : Nat) : (stepNetRemoveBus g n b).2 = .unsupported → (stepNetRemoveBus g n b).1 = g := by
  unfold stepNetRemoveBus; (try dsimp only)
  repeat' split
  all_goals out_leaf
theorem stepNetRemoveBus_np {g : G} (n : Nat) (b : Nat) : (stepNetRemoveBus g n b).2 ≠ .panic := by
  unfold stepNetRemoveBus; (try dsimp only)
  repeat' split
  all_goals (intro h; cases h)
theorem stepNetRemoveAllBuses_err {g : G} (n : Nat) {cz : Cause} : (stepNetRemoveAllBuses g n).2 = .err cz → (stepNetRemoveAllBuses g n).1 = g := by
  unfold stepNetRemoveAllBuses; (try dsimp only)
  repeat' split
  all_goals out_leaf
theorem stepNetRemoveAllBuses_uns {g : G} (n : Nat) : (stepNetRemoveAllBuses g n).2 = .unsupported → (stepNetRemoveAllBuses g n).1 = g := by
  unfold stepNetRemoveAllBuses; (try dsimp only)
  repeat' split
  all_goals out_leaf
theorem stepNetRemoveAllBuses_np {g : G} (n : Nat) : (stepNetRemoveAllBuses g n).2 ≠ .panic := by
  unfold stepNetRemoveAllBuses; (try dsimp only)
  repeat' split
  all_goals (intro h; cases h)
theorem stepBusNew_err {g : G} (b : Nat) (name : String) {cz : Cause} : (stepBusNew g b name).2 = .err cz → (stepBusNew g b name).1 = g := by
  unfold stepBusNew; (try dsimp only)
  repeat' split
  all_goals out_leaf
theorem stepBusNew_uns {g : G} (b : Nat) (name : String) : (stepBusNew g b name).2 = .unsupported → (stepBusNew g b name).1 = g := by
  unfold stepBusNew; (try dsimp only)
  repeat' split
  all_goals out_leaf
theorem stepBusNew_np {g : G} (b : Nat) (name : String) : (stepBusNew g b name).2 ≠ .panic := by
  unfold stepBusNew; (try dsimp only)
  repeat' split
  all_goals (intro h; cases h)
theorem stepBusRename_err {g : G} (b : Nat) (name : String) {cz : Cause} : (stepBusRename g b name).2 = .err cz → (stepBusRename g b name).1 = g := by
  unfold stepBusRename; (try dsimp only)
  repeat' split
  all_goals out_leaf
theorem stepBusRename_uns {g : G} (b : Nat) (name : String) : (stepBusRename g b name).2 = .unsupported → (stepBusRename g b name).1 = g := by
  unfold stepBusRename; (try dsimp only)
  repeat' split
  all_goals out_leaf
theorem stepBusRename_np {g : G} (b : Nat) (name : String) : (stepBusRename g b name).2 ≠ .panic := by
  unfold stepBusRename; (try dsimp only)
  repeat' split
  all_goals (intro h; cases h)
theorem stepBusAddIface_err {g : G} (b : Nat) (i : Nat) {cz : Cause} : (stepBusAddIface g b i).2 = .err cz → (stepBusAddIface g b i).1 = g := by
  unfold stepBusAddIface; (try dsimp only)
  repeat' split
  all_goals out_leaf
theorem stepBusAddIface_uns {g : G} (b : Nat) (i : Nat) : (stepBusAddIface g b i).2 = .unsupported → (stepBusAddIface g b i).1 = g := by
  unfold stepBusAddIface; (try dsimp only)
  repeat' split
  all_goals out_leaf
theorem stepBusAddIface_np {g : G} (b : Nat) (i : Nat) : (stepBusAddIface g b i).2 ≠ .panic := by
  unfold stepBusAddIface; (try dsimp only)
  repeat' split
  all_goals (intro h; cases h)
theorem stepBusRemoveIface_err {g : G} (b : Nat) (nodeId : Nat) {cz : Cause} : (stepBusRemoveIface g b nodeId).2 = .err cz → (stepBusRemoveIface g b nodeId).1 = g := busRemoveIfaceCore_err
theorem stepBusRemoveIface_uns {g : G} (b : Nat) (nodeId : Nat) : (stepBusRemoveIface g b nodeId).2 = .unsupported → (stepBusRemoveIface g b nodeId).1 = g := busRemoveIfaceCore_uns
theorem stepBusRemoveIface_np {g : G} (b : Nat) (nodeId : Nat) : (stepBusRemoveIface g b nodeId).2 ≠ .panic := busRemoveIfaceCore_np
theorem stepBusRemoveAllIfaces_err {g : G} (b : Nat) {cz : Cause} : (stepBusRemoveAllIfaces g b).2 = .err cz → (stepBusRemoveAllIfaces g b).1 = g := by
  unfold stepBusRemoveAllIfaces; (try dsimp only)
  repeat' split
  all_goals out_leaf
theorem stepBusRemoveAllIfaces_uns {g : G} (b : Nat) : (stepBusRemoveAllIfaces g b).2 = .unsupported → (stepBusRemoveAllIfaces g b).1 = g := by
  unfold stepBusRemoveAllIfaces; (try dsimp only)
  repeat' split
  all_goals out_leaf
theorem stepBusRemoveAllIfaces_np {g : G} (b : Nat) : (stepBusRemoveAllIfaces g b).2 ≠ .panic := by
  unfold stepBusRemoveAllIfaces; (try dsimp only)
  repeat' split
  all_goals (intro h; cases h)
theorem stepBusSetBuilder_err {g : G} (b : Nat) (c : Option Nat) {cz : Cause} : (stepBusSetBuilder g b c).2 = .err cz → (stepBusSetBuilder g b c).1 = g := by
  unfold stepBusSetBuilder; (try dsimp only)
  repeat' split
  all_goals out_leaf
theorem stepBusSetBuilder_uns {g : G} (b : Nat) (c : Option Nat) : (stepBusSetBuilder g b c).2 = .unsupported → (stepBusSetBuilder g b c).1 = g := by
  unfold stepBusSetBuilder; (try dsimp only)
  repeat' split
  all_goals out_leaf
theorem stepBusSetBuilder_np {g : G} (b : Nat) (c : Option Nat) : (stepBusSetBuilder g b c).2 ≠ .panic := by
  unfold stepBusSetBuilder; (try dsimp only)
  repeat' split
  all_goals (intro h; cases h)
theorem stepBuilderNew_err {g : G} (c : Nat) {cz : Cause} : (stepBuilderNew g c).2 = .err cz → (stepBuilderNew g c).1 = g := by
  unfold stepBuilderNew; (try dsimp only)
  repeat' split
  all_goals out_leaf
theorem stepBuilderNew_uns {g : G} (c : Nat) : (stepBuilderNew g c).2 = .unsupported → (stepBuilderNew g c).1 = g := by
  unfold stepBuilderNew; (try dsimp only)
  repeat' split
  all_goals out_leaf
theorem stepBuilderNew_np {g : G} (c : Nat) : (stepBuilderNew g c).2 ≠ .panic := by
  unfold stepBuilderNew; (try dsimp only)
  repeat' split
  all_goals (intro h; cases h)
theorem stepNodeNew_err {g : G} (n : Nat) (name : String) (nid : Nat) (count : Int) (ifs : List Nat) {cz : Cause} : (stepNodeNew g n name nid count ifs).2 = .err cz → (stepNodeNew g n name nid count ifs).1 = g := by
  unfold stepNodeNew; (try dsimp only)
  repeat' split
  all_goals out_leaf
theorem stepNodeNew_uns {g : G} (n : Nat) (name : String) (nid : Nat) (count : Int) (ifs : List Nat) : (stepNodeNew g n name nid count ifs).2 = .unsupported → (stepNodeNew g n name nid count ifs).1 = g := by
  unfold stepNodeNew; (try dsimp only)
  repeat' split
  all_goals out_leaf
theorem stepNodeNew_np {g : G} (n : Nat) (name : String) (nid : Nat) (count : Int) (ifs : List Nat) : (stepNodeNew g n name nid count ifs).2 ≠ .panic := by
  unfold stepNodeNew; (try dsimp only)
  repeat' split
  all_goals (intro h; cases h)
theorem stepNodeRename_err {g : G} (n : Nat) (name : String) {cz : Cause} : (stepNodeRename g n name).2 = .err cz → (stepNodeRename g n name).1 = g := by
  unfold stepNodeRename; (try dsimp only)
  repeat' split
  all_goals out_leaf
theorem stepNodeRename_uns {g : G} (n : Nat) (name : String) : (stepNodeRename g n name).2 = .unsupported → (stepNodeRename g n name).1 = g := by
  unfold stepNodeRename; (try dsimp only)
  repeat' split
  all_goals out_leaf
theorem stepNodeRename_np {g : G} (n : Nat) (name : String) : (stepNodeRename g n name).2 ≠ .panic := by
  unfold stepNodeRename; (try dsimp only)
  repeat' split
  all_goals (intro h; cases h)
theorem stepNodeSetId_err {g : G} (n : Nat) (nid : Nat) {cz : Cause} : (stepNodeSetId g n nid).2 = .err cz → (stepNodeSetId g n nid).1 = g := by
  unfold stepNodeSetId; (try dsimp only)
  repeat' split
  all_goals out_leaf
theorem stepNodeSetId_uns {g : G} (n : Nat) (nid : Nat) : (stepNodeSetId g n nid).2 = .unsupported → (stepNodeSetId g n nid).1 = g := by
  unfold stepNodeSetId; (try dsimp only)
  repeat' split
  all_goals out_leaf
theorem stepNodeSetId_np {g : G} (n : Nat) (nid : Nat) : (stepNodeSetId g n nid).2 ≠ .panic := by
  unfold stepNodeSetId; (try dsimp only)
  repeat' split
  all_goals (intro h; cases h)
theorem stepNodeAddIface_err {g : G} (n : Nat) (i : Nat) {cz : Cause} : (stepNodeAddIface g n i).2 = .err cz → (stepNodeAddIface g n i).1 = g := by
  unfold stepNodeAddIface; (try dsimp only)
  repeat' split
  all_goals out_leaf
theorem stepNodeAddIface_uns {g : G} (n : Nat) (i : Nat) : (stepNodeAddIface g n i).2 = .unsupported → (stepNodeAddIface g n i).1 = g := by
  unfold stepNodeAddIface; (try dsimp only)
  repeat' split
  all_goals out_leaf
theorem stepNodeAddIface_np {g : G} (n : Nat) (i : Nat) : (stepNodeAddIface g n i).2 ≠ .panic := by
  unfold stepNodeAddIface; (try dsimp only)
  repeat' split
  all_goals (intro h; cases h)
theorem stepNodeRemoveIface_err {g : G} (n : Nat) (k : Int) {cz : Cause} : (stepNodeRemoveIface g n k).2 = .err cz → (stepNodeRemoveIface g n k).1 = g := by
  unfold stepNodeRemoveIface; (try dsimp only)
  repeat' split
  all_goals out_leaf
theorem stepNodeRemoveIface_uns {g : G} (n : Nat) (k : Int) : (stepNodeRemoveIface g n k).2 = .unsupported → (stepNodeRemoveIface g n k).1 = g := by
  unfold stepNodeRemoveIface; (try dsimp only)
  repeat' split
  all_goals out_leaf
theorem stepNodeRemoveIface_np {g : G} (n : Nat) (k : Int) : (stepNodeRemoveIface g n k).2 ≠ .panic := by
  unfold stepNodeRemoveIface; (try dsimp only)
  repeat' split
  all_goals (intro h; cases h)
theorem stepMsgNew_err {g : G} (m : Nat) (name : String) (mid : Nat) (size : Int) {cz : Cause} : (stepMsgNew g m name mid size).2 = .err cz → (stepMsgNew g m name mid size).1 = g := by
  unfold stepMsgNew; (try dsimp only)
  repeat' split
  all_goals out_leaf
theorem stepMsgNew_uns {g : G} (m : Nat) (name : String) (mid : Nat) (size : Int) : (stepMsgNew g m name mid size).2 = .unsupported → (stepMsgNew g m name mid size).1 = g := by
  unfold stepMsgNew; (try dsimp only)
  repeat' split
  all_goals out_leaf
theorem stepMsgNew_np {g : G} (m : Nat) (name : String) (mid : Nat) (size : Int) : (stepMsgNew g m name mid size).2 ≠ .panic := by
  unfold stepMsgNew; (try dsimp only)
  repeat' split
  all_goals (intro h; cases h)
theorem stepMsgRename_err {g : G} (m : Nat) (name : String) {cz : Cause} : (stepMsgRename g m name).2 = .err cz → (stepMsgRename g m name).1 = g := by
  unfold stepMsgRename; (try dsimp only)
  repeat' split
  all_goals out_leaf
theorem stepMsgRename_uns {g : G} (m : Nat) (name : String) : (stepMsgRename g m name).2 = .unsupported → (stepMsgRename g m name).1 = g := by
  unfold stepMsgRename; (try dsimp only)
  repeat' split
  all_goals out_leaf
theorem stepMsgRename_np {g : G} (m : Nat) (name : String) : (stepMsgRename g m name).2 ≠ .panic := by
  unfold stepMsgRename; (try dsimp only)
  repeat' split
  all_goals (intro h; cases h)
theorem stepMsgSetId_err {g : G} (m : Nat) (mid : Nat) {cz : Cause} : (stepMsgSetId g m mid).2 = .err cz → (stepMsgSetId g m mid).1 = g := by
  unfold stepMsgSetId; (try dsimp only)
  repeat' split
  all_goals out_leaf
theorem stepMsgSetId_uns {g : G} (m : Nat) (mid : Nat) : (stepMsgSetId g m mid).2 = .unsupported → (stepMsgSetId g m mid).1 = g := by
  unfold stepMsgSetId; (try dsimp only)
  repeat' split
  all_goals out_leaf
theorem stepMsgSetId_np {g : G} (m : Nat) (mid : Nat) : (stepMsgSetId g m mid).2 ≠ .panic := by
  unfold stepMsgSetId; (try dsimp only)
  repeat' split
  all_goals (intro h; cases h)
theorem stepMsgSetStatic_err {g : G} (m : Nat) (c : Nat) {cz : Cause} : (stepMsgSetStatic g m c).2 = .err cz → (stepMsgSetStatic g m c).1 = g := by
  unfold stepMsgSetStatic; (try dsimp only)
  repeat' split
  all_goals out_leaf
theorem stepMsgSetStatic_uns {g : G} (m : Nat) (c : Nat) : (stepMsgSetStatic g m c).2 = .unsupported → (stepMsgSetStatic g m c).1 = g := by
  unfold stepMsgSetStatic; (try dsimp only)
  repeat' split
  all_goals out_leaf
theorem stepMsgSetStatic_np {g : G} (m : Nat) (c : Nat) : (stepMsgSetStatic g m c).2 ≠ .panic := by
  unfold stepMsgSetStatic; (try dsimp only)
  repeat' split
  all_goals (intro h; cases h)
theorem stepMsgResize_err {g : G} (m : Nat) (k : Int) {cz : Cause} : (stepMsgResize g m k).2 = .err cz → (stepMsgResize g m k).1 = g := by
  unfold stepMsgResize; (try dsimp only)
  repeat' split
  all_goals out_leaf
theorem stepMsgResize_uns {g : G} (m : Nat) (k : Int) : (stepMsgResize g m k).2 = .unsupported → (stepMsgResize g m k).1 = g := by
  unfold stepMsgResize; (try dsimp only)
  repeat' split
  all_goals out_leaf
theorem stepMsgResize_np {g : G} (m : Nat) (k : Int) : (stepMsgResize g m k).2 ≠ .panic := by
  unfold stepMsgResize; (try dsimp only)
  repeat' split
  all_goals (intro h; cases h)
theorem stepIfaceAddSent_err {g : G} (i : Nat) (m : Nat) {cz : Cause} : (stepIfaceAddSent g i m).2 = .err cz → (stepIfaceAddSent g i m).1 = g := by
  unfold stepIfaceAddSent; (try dsimp only)
  repeat' split
  all_goals out_leaf
theorem stepIfaceAddSent_uns {g : G} (i : Nat) (m : Nat) : (stepIfaceAddSent g i m).2 = .unsupported → (stepIfaceAddSent g i m).1 = g := by
  unfold stepIfaceAddSent; (try dsimp only)
  repeat' split
  all_goals out_leaf
theorem stepIfaceAddSent_np {g : G} (i : Nat) (m : Nat) : (stepIfaceAddSent g i m).2 ≠ .panic := by
  unfold stepIfaceAddSent; (try dsimp only)
  repeat' split
  all_goals (intro h; cases h)
theorem stepIfaceRemoveSent_err {g : G} (i : Nat) (m : Nat) {cz : Cause} : (stepIfaceRemoveSent g i m).2 = .err cz → (stepIfaceRemoveSent g i m).1 = g := by
  unfold stepIfaceRemoveSent; (try dsimp only)
  repeat' split
  all_goals out_leaf
theorem stepIfaceRemoveSent_uns {g : G} (i : Nat) (m : Nat) : (stepIfaceRemoveSent g i m).2 = .unsupported → (stepIfaceRemoveSent g i m).1 = g := by
  unfold stepIfaceRemoveSent; (try dsimp only)
  repeat' split
  all_goals out_leaf
theorem stepIfaceRemoveSent_np {g : G} (i : Nat) (m : Nat) : (stepIfaceRemoveSent g i m).2 ≠ .panic := by
  unfold stepIfaceRemoveSent; (try dsimp only)
  repeat' split
  all_goals (intro h; cases h)
theorem stepIfaceRemoveAllSent_err {g : G} (i : Nat) {cz : Cause} : (stepIfaceRemoveAllSent g i).2 = .err cz → (stepIfaceRemoveAllSent g i).1 = g := by
  unfold stepIfaceRemoveAllSent; (try dsimp only)
  repeat' split
  all_goals out_leaf
theorem stepIfaceRemoveAllSent_uns {g : G} (i : Nat) : (stepIfaceRemoveAllSent g i).2 = .unsupported → (stepIfaceRemoveAllSent g i).1 = g := by
  unfold stepIfaceRemoveAllSent; (try dsimp only)
  repeat' split
  all_goals out_leaf
theorem stepIfaceRemoveAllSent_np {g : G} (i : Nat) : (stepIfaceRemoveAllSent g i).2 ≠ .panic := by
  unfold stepIfaceRemoveAllSent; (try dsimp only)
  repeat' split
  all_goals (intro h; cases h)
theorem stepIfaceAddRecv_err {g : G} (i : Nat) (m : Nat) {cz : Cause} : (stepIfaceAddRecv g i m).2 = .err cz → (stepIfaceAddRecv g i m).1 = g := by
  unfold stepIfaceAddRecv; repeat' split
  all_goals first | out_leaf | exact addRecvCore_err
theorem stepIfaceAddRecv_uns {g : G} (i : Nat) (m : Nat) : (stepIfaceAddRecv g i m).2 = .unsupported → (stepIfaceAddRecv g i m).1 = g := by
  unfold stepIfaceAddRecv; repeat' split
  all_goals first | out_leaf | exact addRecvCore_uns
theorem stepIfaceAddRecv_np {g : G} (i : Nat) (m : Nat) : (stepIfaceAddRecv g i m).2 ≠ .panic := by
  unfold stepIfaceAddRecv; repeat' split
  all_goals first | (intro h; cases h) | exact addRecvCore_np
theorem stepMsgAddReceiver_err {g : G} (m : Nat) (i : Nat) {cz : Cause} : (stepMsgAddReceiver g m i).2 = .err cz → (stepMsgAddReceiver g m i).1 = g := by
  unfold stepMsgAddReceiver; repeat' split
  all_goals first | out_leaf | exact addRecvCore_err
theorem stepMsgAddReceiver_uns {g : G} (m : Nat) (i : Nat) : (stepMsgAddReceiver g m i).2 = .unsupported → (stepMsgAddReceiver g m i).1 = g := by
  unfold stepMsgAddReceiver; repeat' split
  all_goals first | out_leaf | exact addRecvCore_uns
theorem stepMsgAddReceiver_np {g : G} (m : Nat) (i : Nat) : (stepMsgAddReceiver g m i).2 ≠ .panic := by
  unfold stepMsgAddReceiver; repeat' split
  all_goals first | (intro h; cases h) | exact addRecvCore_np
theorem stepIfaceRemoveRecv_err {g : G} (i : Nat) (m : Nat) {cz : Cause} : (stepIfaceRemoveRecv g i m).2 = .err cz → (stepIfaceRemoveRecv g i m).1 = g := by
  unfold stepIfaceRemoveRecv; (try dsimp only)
  repeat' split
  all_goals out_leaf
theorem stepIfaceRemoveRecv_uns {g : G} (i : Nat) (m : Nat) : (stepIfaceRemoveRecv g i m).2 = .unsupported → (stepIfaceRemoveRecv g i m).1 = g := by
  unfold stepIfaceRemoveRecv; (try dsimp only)
  repeat' split
  all_goals out_leaf
theorem stepIfaceRemoveRecv_np {g : G} (i : Nat) (m : Nat) : (stepIfaceRemoveRecv g i m).2 ≠ .panic := by
  unfold stepIfaceRemoveRecv; (try dsimp only)
  repeat' split
  all_goals (intro h; cases h)
theorem stepIfaceRemoveAllRecv_err {g : G} (i : Nat) {cz : Cause} : (stepIfaceRemoveAllRecv g i).2 = .err cz → (stepIfaceRemoveAllRecv g i).1 = g := by
  unfold stepIfaceRemoveAllRecv; (try dsimp only)
  repeat' split
  all_goals out_leaf
theorem stepIfaceRemoveAllRecv_uns {g : G} (i : Nat) : (stepIfaceRemoveAllRecv g i).2 = .unsupported → (stepIfaceRemoveAllRecv g i).1 = g := by
  unfold stepIfaceRemoveAllRecv; (try dsimp only)
  repeat' split
  all_goals out_leaf
theorem stepIfaceRemoveAllRecv_np {g : G} (i : Nat) : (stepIfaceRemoveAllRecv g i).2 ≠ .panic := by
  unfold stepIfaceRemoveAllRecv; (try dsimp only)
  repeat' split
  all_goals (intro h; cases h)
theorem stepMsgRemoveReceiver_err {g : G} (m : Nat) (nodeId : Nat) {cz : Cause} : (stepMsgRemoveReceiver g m nodeId).2 = .err cz → (stepMsgRemoveReceiver g m nodeId).1 = g := by
  unfold stepMsgRemoveReceiver; (try dsimp only)
  repeat' split
  all_goals out_leaf
theorem stepMsgRemoveReceiver_uns {g : G} (m : Nat) (nodeId : Nat) : (stepMsgRemoveReceiver g m nodeId).2 = .unsupported → (stepMsgRemoveReceiver g m nodeId).1 = g := by
  unfold stepMsgRemoveReceiver; (try dsimp only)
  repeat' split
  all_goals out_leaf
theorem stepMsgRemoveReceiver_np {g : G} (m : Nat) (nodeId : Nat) : (stepMsgRemoveReceiver g m nodeId).2 ≠ .panic := by
  unfold stepMsgRemoveReceiver; (try dsimp only)
  repeat' split
  all_goals (intro h; cases h)
theorem stepAttrNewStr_err {g : G} (a : Nat) {cz : Cause} : (stepAttrNewStr g a).2 = .err cz → (stepAttrNewStr g a).1 = g := by
  unfold stepAttrNewStr; (try dsimp only)
  repeat' split
  all_goals out_leaf
theorem stepAttrNewStr_uns {g : G} (a : Nat) : (stepAttrNewStr g a).2 = .unsupported → (stepAttrNewStr g a).1 = g := by
  unfold stepAttrNewStr; (try dsimp only)
  repeat' split
  all_goals out_leaf
theorem stepAttrNewStr_np {g : G} (a : Nat) : (stepAttrNewStr g a).2 ≠ .panic := by
  unfold stepAttrNewStr; (try dsimp only)
  repeat' split
  all_goals (intro h; cases h)
theorem stepAttrNewInt_err {g : G} (a : Nat) (dflt : Int) (mn : Int) (mx : Int) {cz : Cause} : (stepAttrNewInt g a dflt mn mx).2 = .err cz → (stepAttrNewInt g a dflt mn mx).1 = g := by
  unfold stepAttrNewInt; (try dsimp only)
  repeat' split
  all_goals out_leaf
theorem stepAttrNewInt_uns {g : G} (a : Nat) (dflt : Int) (mn : Int) (mx : Int) : (stepAttrNewInt g a dflt mn mx).2 = .unsupported → (stepAttrNewInt g a dflt mn mx).1 = g := by
  unfold stepAttrNewInt; (try dsimp only)
  repeat' split
  all_goals out_leaf
theorem stepAttrNewInt_np {g : G} (a : Nat) (dflt : Int) (mn : Int) (mx : Int) : (stepAttrNewInt g a dflt mn mx).2 ≠ .panic := by
  unfold stepAttrNewInt; (try dsimp only)
  repeat' split
  all_goals (intro h; cases h)
theorem stepAttrNewEnum_err {g : G} (a : Nat) (values : List String) {cz : Cause} : (stepAttrNewEnum g a values).2 = .err cz → (stepAttrNewEnum g a values).1 = g := by
  unfold stepAttrNewEnum; (try dsimp only)
  repeat' split
  all_goals out_leaf
theorem stepAttrNewEnum_uns {g : G} (a : Nat) (values : List String) : (stepAttrNewEnum g a values).2 = .unsupported → (stepAttrNewEnum g a values).1 = g := by
  unfold stepAttrNewEnum; (try dsimp only)
  repeat' split
  all_goals out_leaf
theorem stepAttrNewEnum_np {g : G} (a : Nat) (values : List String) : (stepAttrNewEnum g a values).2 ≠ .panic := by
  unfold stepAttrNewEnum; (try dsimp only)
  repeat' split
  all_goals (intro h; cases h)
theorem stepAssign_err {g : G} (k : EKind) (x : Nat) (a : Nat) (v : AVal) {cz : Cause} : (stepAssign g k x a v).2 = .err cz → (stepAssign g k x a v).1 = g := by
  unfold stepAssign; (try dsimp only); cases k <;> simp only [getAttrs, setAttrs]
  all_goals (repeat' split)
  all_goals out_leaf
theorem stepAssign_uns {g : G} (k : EKind) (x : Nat) (a : Nat) (v : AVal) : (stepAssign g k x a v).2 = .unsupported → (stepAssign g k x a v).1 = g := by
  unfold stepAssign; (try dsimp only); cases k <;> simp only [getAttrs, setAttrs]
  all_goals (repeat' split)
  all_goals out_leaf
theorem stepAssign_np {g : G} (k : EKind) (x : Nat) (a : Nat) (v : AVal) : (stepAssign g k x a v).2 ≠ .panic := by
  unfold stepAssign; (try dsimp only); cases k <;> simp only [getAttrs, setAttrs]
  all_goals (repeat' split)
  all_goals (intro h; cases h)
theorem stepUnassign_err {g : G} (k : EKind) (x : Nat) (a : Nat) {cz : Cause} : (stepUnassign g k x a).2 = .err cz → (stepUnassign g k x a).1 = g := by
  unfold stepUnassign; (try dsimp only); cases k <;> simp only [getAttrs, setAttrs]
  all_goals (repeat' split)
  all_goals out_leaf
theorem stepUnassign_uns {g : G} (k : EKind) (x : Nat) (a : Nat) : (stepUnassign g k x a).2 = .unsupported → (stepUnassign g k x a).1 = g := by
  unfold stepUnassign; (try dsimp only); cases k <;> simp only [getAttrs, setAttrs]
  all_goals (repeat' split)
  all_goals out_leaf
theorem stepUnassign_np {g : G} (k : EKind) (x : Nat) (a : Nat) : (stepUnassign g k x a).2 ≠ .panic := by
  unfold stepUnassign; (try dsimp only); cases k <;> simp only [getAttrs, setAttrs]
  all_goals (repeat' split)
  all_goals (intro h; cases h)
theorem stepUnassignAll_err {g : G} (k : EKind) (x : Nat) {cz : Cause} : (stepUnassignAll g k x).2 = .err cz → (stepUnassignAll g k x).1 = g := by
  unfold stepUnassignAll; (try dsimp only); cases k <;> simp only [getAttrs, setAttrs]
  all_goals (repeat' split)
  all_goals out_leaf
theorem stepUnassignAll_uns {g : G} (k : EKind) (x : Nat) : (stepUnassignAll g k x).2 = .unsupported → (stepUnassignAll g k x).1 = g := by
  unfold stepUnassignAll; (try dsimp only); cases k <;> simp only [getAttrs, setAttrs]
  all_goals (repeat' split)
  all_goals out_leaf
theorem stepUnassignAll_np {g : G} (k : EKind) (x : Nat) : (stepUnassignAll g k x).2 ≠ .panic := by
  unfold stepUnassignAll; (try dsimp only); cases k <;> simp only [getAttrs, setAttrs]
  all_goals (repeat' split)
  all_goals (intro h; cases h)
theorem stepTypeNew_err {g : G} (t : Nat) {cz : Cause} : (stepTypeNew g t).2 = .err cz → (stepTypeNew g t).1 = g := by
  unfold stepTypeNew; (try dsimp only)
  repeat' split
  all_goals out_leaf
theorem stepTypeNew_uns {g : G} (t : Nat) : (stepTypeNew g t).2 = .unsupported → (stepTypeNew g t).1 = g := by
  unfold stepTypeNew; (try dsimp only)
  repeat' split
  all_goals out_leaf
theorem stepTypeNew_np {g : G} (t : Nat) : (stepTypeNew g t).2 ≠ .panic := by
  unfold stepTypeNew; (try dsimp only)
  repeat' split
  all_goals (intro h; cases h)
theorem stepUnitNew_err {g : G} (u : Nat) {cz : Cause} : (stepUnitNew g u).2 = .err cz → (stepUnitNew g u).1 = g := by
  unfold stepUnitNew; (try dsimp only)
  repeat' split
  all_goals out_leaf
theorem stepUnitNew_uns {g : G} (u : Nat) : (stepUnitNew g u).2 = .unsupported → (stepUnitNew g u).1 = g := by
  unfold stepUnitNew; (try dsimp only)
  repeat' split
  all_goals out_leaf
theorem stepUnitNew_np {g : G} (u : Nat) : (stepUnitNew g u).2 ≠ .panic := by
  unfold stepUnitNew; (try dsimp only)
  repeat' split
  all_goals (intro h; cases h)
theorem stepSigNew_err {g : G} (s : Nat) (t : Nat) {cz : Cause} : (stepSigNew g s t).2 = .err cz → (stepSigNew g s t).1 = g := by
  unfold stepSigNew; (try dsimp only)
  repeat' split
  all_goals out_leaf
theorem stepSigNew_uns {g : G} (s : Nat) (t : Nat) : (stepSigNew g s t).2 = .unsupported → (stepSigNew g s t).1 = g := by
  unfold stepSigNew; (try dsimp only)
  repeat' split
  all_goals out_leaf
theorem stepSigNew_np {g : G} (s : Nat) (t : Nat) : (stepSigNew g s t).2 ≠ .panic := by
  unfold stepSigNew; (try dsimp only)
  repeat' split
  all_goals (intro h; cases h)
theorem stepSigSetType_err {g : G} (s : Nat) (t : Nat) {cz : Cause} : (stepSigSetType g s t).2 = .err cz → (stepSigSetType g s t).1 = g := by
  unfold stepSigSetType; (try dsimp only)
  repeat' split
  all_goals out_leaf
theorem stepSigSetType_uns {g : G} (s : Nat) (t : Nat) : (stepSigSetType g s t).2 = .unsupported → (stepSigSetType g s t).1 = g := by
  unfold stepSigSetType; (try dsimp only)
  repeat' split
  all_goals out_leaf
theorem stepSigSetType_np {g : G} (s : Nat) (t : Nat) : (stepSigSetType g s t).2 ≠ .panic := by
  unfold stepSigSetType; (try dsimp only)
  repeat' split
  all_goals (intro h; cases h)
theorem stepSigSetUnit_err {g : G} (s : Nat) (u : Option Nat) {cz : Cause} : (stepSigSetUnit g s u).2 = .err cz → (stepSigSetUnit g s u).1 = g := by
  unfold stepSigSetUnit; (try dsimp only)
  repeat' split
  all_goals out_leaf
theorem stepSigSetUnit_uns {g : G} (s : Nat) (u : Option Nat) : (stepSigSetUnit g s u).2 = .unsupported → (stepSigSetUnit g s u).1 = g := by
  unfold stepSigSetUnit; (try dsimp only)
  repeat' split
  all_goals out_leaf
theorem stepSigSetUnit_np {g : G} (s : Nat) (u : Option Nat) : (stepSigSetUnit g s u).2 ≠ .panic := by
  unfold stepSigSetUnit; (try dsimp only)
  repeat' split
  all_goals (intro h; cases h)

theorem step_err (g : G) (op : Op) (c : Cause) (h : (step g op).2 = .err c) : (step g op).1 = g := by
  cases op <;> simp only [step] at h ⊢
  case netNew => exact stepNetNew_err _ _ h
  case netAddBus => exact stepNetAddBus_err _ _ h
  case netRemoveBus => exact stepNetRemoveBus_err _ _ h
  case netRemoveAllBuses => exact stepNetRemoveAllBuses_err _ h
  case busNew => exact stepBusNew_err _ _ h
  case busRename => exact stepBusRename_err _ _ h
  case busAddIface => exact stepBusAddIface_err _ _ h
  case busRemoveIface => exact stepBusRemoveIface_err _ _ h
  case busRemoveAllIfaces => exact stepBusRemoveAllIfaces_err _ h
  case busSetBuilder => exact stepBusSetBuilder_err _ _ h
  case builderNew => exact stepBuilderNew_err _ h
  case nodeNew => exact stepNodeNew_err _ _ _ _ _ h
  case nodeRename => exact stepNodeRename_err _ _ h
  case nodeSetId => exact stepNodeSetId_err _ _ h
  case nodeAddIface => exact stepNodeAddIface_err _ _ h
  case nodeRemoveIface => exact stepNodeRemoveIface_err _ _ h
  case msgNew => exact stepMsgNew_err _ _ _ _ h
  case msgRename => exact stepMsgRename_err _ _ h
  case msgSetId => exact stepMsgSetId_err _ _ h
  case msgSetStatic => exact stepMsgSetStatic_err _ _ h
  case msgResize => exact stepMsgResize_err _ _ h
  case ifaceAddSent => exact stepIfaceAddSent_err _ _ h
  case ifaceRemoveSent => exact stepIfaceRemoveSent_err _ _ h
  case ifaceRemoveAllSent => exact stepIfaceRemoveAllSent_err _ h
  case ifaceAddRecv => exact stepIfaceAddRecv_err _ _ h
  case ifaceRemoveRecv => exact stepIfaceRemoveRecv_err _ _ h
  case ifaceRemoveAllRecv => exact stepIfaceRemoveAllRecv_err _ h
  case msgAddReceiver => exact stepMsgAddReceiver_err _ _ h
  case msgRemoveReceiver => exact stepMsgRemoveReceiver_err _ _ h
  case attrNewStr => exact stepAttrNewStr_err _ h
  case attrNewInt => exact stepAttrNewInt_err _ _ _ _ h
  case attrNewEnum => exact stepAttrNewEnum_err _ _ h
  case assign => exact stepAssign_err _ _ _ _ h
  case unassign => exact stepUnassign_err _ _ _ h
  case unassignAll => exact stepUnassignAll_err _ _ h
  case typeNew => exact stepTypeNew_err _ h
  case unitNew => exact stepUnitNew_err _ h
  case sigNew => exact stepSigNew_err _ _ h
  case sigSetType => exact stepSigSetType_err _ _ h
  case sigSetUnit => exact stepSigSetUnit_err _ _ h

theorem step_uns (g : G) (op : Op) (h : (step g op).2 = .unsupported) : (step g op).1 = g := by
  cases op <;> simp only [step] at h ⊢
  case netNew => exact stepNetNew_uns _ _ h
  case netAddBus => exact stepNetAddBus_uns _ _ h
  case netRemoveBus => exact stepNetRemoveBus_uns _ _ h
  case netRemoveAllBuses => exact stepNetRemoveAllBuses_uns _ h
  case busNew => exact stepBusNew_uns _ _ h
  case busRename => exact stepBusRename_uns _ _ h
  case busAddIface => exact stepBusAddIface_uns _ _ h
  case busRemoveIface => exact stepBusRemoveIface_uns _ _ h
  case busRemoveAllIfaces => exact stepBusRemoveAllIfaces_uns _ h
  case busSetBuilder => exact stepBusSetBuilder_uns _ _ h
  case builderNew => exact stepBuilderNew_uns _ h
  case nodeNew => exact stepNodeNew_uns _ _ _ _ _ h
  case nodeRename => exact stepNodeRename_uns _ _ h
  case nodeSetId => exact stepNodeSetId_uns _ _ h
  case nodeAddIface => exact stepNodeAddIface_uns _ _ h
  case nodeRemoveIface => exact stepNodeRemoveIface_uns _ _ h
  case msgNew => exact stepMsgNew_uns _ _ _ _ h
  case msgRename => exact stepMsgRename_uns _ _ h
  case msgSetId => exact stepMsgSetId_uns _ _ h
  case msgSetStatic => exact stepMsgSetStatic_uns _ _ h
  case msgResize => exact stepMsgResize_uns _ _ h
  case ifaceAddSent => exact stepIfaceAddSent_uns _ _ h
  case ifaceRemoveSent => exact stepIfaceRemoveSent_uns _ _ h
  case ifaceRemoveAllSent => exact stepIfaceRemoveAllSent_uns _ h
  case ifaceAddRecv => exact stepIfaceAddRecv_uns _ _ h
  case ifaceRemoveRecv => exact stepIfaceRemoveRecv_uns _ _ h
  case ifaceRemoveAllRecv => exact stepIfaceRemoveAllRecv_uns _ h
  case msgAddReceiver => exact stepMsgAddReceiver_uns _ _ h
  case msgRemoveReceiver => exact stepMsgRemoveReceiver_uns _ _ h
  case attrNewStr => exact stepAttrNewStr_uns _ h
  case attrNewInt => exact stepAttrNewInt_uns _ _ _ _ h
  case attrNewEnum => exact stepAttrNewEnum_uns _ _ h
  case assign => exact stepAssign_uns _ _ _ _ h
  case unassign => exact stepUnassign_uns _ _ _ h
  case unassignAll => exact stepUnassignAll_uns _ _ h
  case typeNew => exact stepTypeNew_uns _ h
  case unitNew => exact stepUnitNew_uns _ h
  case sigNew => exact stepSigNew_uns _ _ h
  case sigSetType => exact stepSigSetType_uns _ _ h
  case sigSetUnit => exact stepSigSetUnit_uns _ _ h

theorem step_np (g : G) (op : Op) : (step g op).2 ≠ .panic := by
  cases op <;> simp only [step]
  case netNew => exact stepNetNew_np _ _
  case netAddBus => exact stepNetAddBus_np _ _
  case netRemoveBus => exact stepNetRemoveBus_np _ _
  case netRemoveAllBuses => exact stepNetRemoveAllBuses_np _
  case busNew => exact stepBusNew_np _ _
  case busRename => exact stepBusRename_np _ _
  case busAddIface => exact stepBusAddIface_np _ _
  case busRemoveIface => exact stepBusRemoveIface_np _ _
  case busRemoveAllIfaces => exact stepBusRemoveAllIfaces_np _
  case busSetBuilder => exact stepBusSetBuilder_np _ _
  case builderNew => exact stepBuilderNew_np _
  case nodeNew => exact stepNodeNew_np _ _ _ _ _
  case nodeRename => exact stepNodeRename_np _ _
  case nodeSetId => exact stepNodeSetId_np _ _
  case nodeAddIface => exact stepNodeAddIface_np _ _
  case nodeRemoveIface => exact stepNodeRemoveIface_np _ _
  case msgNew => exact stepMsgNew_np _ _ _ _
  case msgRename => exact stepMsgRename_np _ _
  case msgSetId => exact stepMsgSetId_np _ _
  case msgSetStatic => exact stepMsgSetStatic_np _ _
  case msgResize => exact stepMsgResize_np _ _
  case ifaceAddSent => exact stepIfaceAddSent_np _ _
  case ifaceRemoveSent => exact stepIfaceRemoveSent_np _ _
  case ifaceRemoveAllSent => exact stepIfaceRemoveAllSent_np _
  case ifaceAddRecv => exact stepIfaceAddRecv_np _ _
  case ifaceRemoveRecv => exact stepIfaceRemoveRecv_np _ _
  case ifaceRemoveAllRecv => exact stepIfaceRemoveAllRecv_np _
  case msgAddReceiver => exact stepMsgAddReceiver_np _ _
  case msgRemoveReceiver => exact stepMsgRemoveReceiver_np _ _
  case attrNewStr => exact stepAttrNewStr_np _
  case attrNewInt => exact stepAttrNewInt_np _ _ _ _
  case attrNewEnum => exact stepAttrNewEnum_np _ _
  case assign => exact stepAssign_np _ _ _ _
  case unassign => exact stepUnassign_np _ _ _
  case unassignAll => exact stepUnassignAll_np _ _
  case typeNew => exact stepTypeNew_np _
  case unitNew => exact stepUnitNew_np _
  case sigNew => exact stepSigNew_np _ _
  case sigSetType => exact stepSigSetType_np _ _
  case sigSetUnit => exact stepSigSetUnit_np _ _

end Acme.Graph
