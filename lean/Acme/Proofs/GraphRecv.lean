/-
`Inv` is preserved by the received-message operations: ifaceAddRecv, msgAddReceiver,
ifaceRemoveRecv, ifaceRemoveAllRecv, msgRemoveReceiver.
-/
import Acme.Proofs.GraphTac

namespace Acme.Graph

set_option maxHeartbeats 1000000 in
/-- `NodeInterface.addReceivedMessage`; `hd26`: no OTHER interface of the node of `i`
receives `m` already (D26) -/
theorem addRecvCore_inv {g : G} (h : Inv g) {i m : Nat} {ifc : IfaceE} {msg : MsgE}
    (hi : g.ifaces.get i = some ifc) (hm : g.msgs.get m = some msg)
    (hd26 : ∀ nd j, ifaceNode g.ifaces i = some nd → (msgReceivers g.msgs m).get nd = some j → j = i) :
    Inv (addRecvCore g i ifc m msg).1 := by
  unfold addRecvCore
  split
  · exact h
  have s1 : ifaceNode g.ifaces i = some ifc.node := ifaceNode_of_get hi
  have e1 := ifaceRecv_of_get hi
  have e2 := msgReceivers_of_get hm
  have hd := hd26 ifc.node
  clear hd26
  inv_groups h [hm, hi]

theorem stepIfaceAddRecv_inv {g : G} (h : Inv g) (i m : Nat)
    (hd26 : ∀ nd j, ifaceNode g.ifaces i = some nd → (msgReceivers g.msgs m).get nd = some j → j = i) :
    Inv (stepIfaceAddRecv g i m).1 := by
  unfold stepIfaceAddRecv
  repeat' split
  all_goals first | exact h | skip
  exact addRecvCore_inv h (by assumption) (by assumption) hd26

theorem stepMsgAddReceiver_inv {g : G} (h : Inv g) (m i : Nat)
    (hd26 : ∀ nd j, ifaceNode g.ifaces i = some nd → (msgReceivers g.msgs m).get nd = some j → j = i) :
    Inv (stepMsgAddReceiver g m i).1 := by
  unfold stepMsgAddReceiver
  repeat' split
  all_goals first | exact h | skip
  exact addRecvCore_inv h (by assumption) (by assumption) hd26

set_option maxHeartbeats 1000000 in
theorem stepIfaceRemoveRecv_inv {g : G} (h : Inv g) (i m : Nat) : Inv (stepIfaceRemoveRecv g i m).1 := by
  unfold stepIfaceRemoveRecv
  try dsimp only
  repeat' split
  all_goals first | exact h | skip
  rename_i _ ifc hi hhas _ msg hm
  inv_norm
  have s1 : ifaceNode g.ifaces i = some ifc.node := ifaceNode_of_get hi
  have e1 := ifaceRecv_of_get hi
  have e2 := msgReceivers_of_get hm
  obtain ⟨v, hv⟩ : ∃ v, (ifaceRecv g.ifaces i).get m = some v := by
    rw [e1]; cases hh : ifc.received.get m with
    | none => exact absurd hh hhas
    | some v => exact ⟨v, rfl⟩
  have s2 := h.recv.r1 s1 hv
  have s3 := (h.recv.r2 s2).2
  clear hv hhas
  inv_groups h [hm, hi]

set_option maxHeartbeats 1000000 in
theorem stepMsgRemoveReceiver_inv {g : G} (h : Inv g) (m nd : Nat) : Inv (stepMsgRemoveReceiver g m nd).1 := by
  unfold stepMsgRemoveReceiver
  try dsimp only
  repeat' split
  all_goals first | exact h | skip
  rename_i _ msg hm _ i hr _ ifc hi
  have e2 := msgReceivers_of_get hm
  have s2 : (msgReceivers g.msgs m).get nd = some i := by rw [e2]; exact hr
  have s3 := h.recv.r2 s2
  have s1 : ifaceNode g.ifaces i = some ifc.node := ifaceNode_of_get hi
  have s4 : ifc.node = nd := by have := s3.1; rw [s1] at this; exact Option.some.inj this
  have e1 := ifaceRecv_of_get hi
  inv_groups h [hm, hi]

/-- the values of an interface's `received` registry are its keys -/
theorem RecvI.mem_vals {I : AMap IfaceE} {M : AMap MsgE} (h : RecvI I M) {i : Nat} {ifc : IfaceE}
    (hi : I.get i = some ifc) (m : Nat) : m ∈ ifc.received.vals ↔ (ifaceRecv I i).get m = some m := by
  have s0 : ifaceRecv I i = ifc.received := ifaceRecv_of_get hi
  rw [← s0, Reg.mem_vals (h.recv_nodup i)]
  constructor
  · rintro ⟨k, hk⟩
    have := h.recv_val i k m hk
    subst this; exact hk
  · intro hp; exact ⟨m, hp⟩

set_option maxHeartbeats 1000000 in
theorem stepIfaceRemoveAllRecv_inv {g : G} (h : Inv g) (i : Nat) : Inv (stepIfaceRemoveAllRecv g i).1 := by
  unfold stepIfaceRemoveAllRecv
  try dsimp only
  repeat' split
  all_goals first | exact h | skip
  rename_i _ ifc hi
  have hv := h.recv.mem_vals hi
  have s1 : ifaceNode g.ifaces i = some ifc.node := ifaceNode_of_get hi
  generalize ifc.received.vals = ms at hv
  inv_groups h [hi]

end Acme.Graph
