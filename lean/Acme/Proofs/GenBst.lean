/-
GenBst — the interval tree TRANSLATED from /repo/internal/interval_bst.go (Acme/Gen/Bst.lean,
rewritten by tools/extract/kernels_bst*.go on every run) is the hand model Acme.Avl.

The generated tree type has the fields of `struct node` in declaration order
(item.low, item.high, max, left, right, height); the hand model orders them
(left, low, high, max, height, right).  `abs` is the (bijective) re-ordering; every theorem below
says that the generated function, seen through `abs`, is the model function — for ALL trees,
no invariant assumed.  A nil dereference is `Res.panic` in the generated code and `none` in the
model: the equalities therefore also say that the two panic on exactly the same inputs.

This file: node helpers, rotations, lessThan, findMin, the queries.  insertNode / deleteNode are in
GenBstInsert / GenBstDelete.
-/
import Acme.Gen.Bst
import Acme.Core.Avl
import Acme.Proofs.AvlBasic

namespace Acme.GenBst
open Acme.GoSem (Res)
open Acme.Gen.Bst

/-- the abstraction: generated tree ↦ model tree (same nodes, constructor arguments re-ordered) -/
def abs : Tree → Acme.Avl.Tree
  | .leaf => .nil
  | .node lo hi mx l r h => .node (abs l) lo hi mx h (abs r)

/-- its inverse -/
def conc : Acme.Avl.Tree → Tree
  | .nil => .leaf
  | .node l lo hi mx h r => .node lo hi mx (conc l) (conc r) h

@[simp] theorem conc_abs (t : Tree) : conc (abs t) = t := by
  induction t with
  | leaf => rfl
  | node lo hi mx l r h ihl ihr => simp [abs, conc, ihl, ihr]

@[simp] theorem abs_conc (t : Acme.Avl.Tree) : abs (conc t) = t := by
  induction t with
  | nil => rfl
  | node l lo hi mx h r ihl ihr => simp [abs, conc, ihl, ihr]

theorem abs_injective {a b : Tree} (h : abs a = abs b) : a = b := by
  have := congrArg conc h; simpa using this

@[simp] theorem abs_leaf : abs .leaf = .nil := rfl
@[simp] theorem abs_node (lo hi mx : Int) (l r : Tree) (h : Int) :
    abs (.node lo hi mx l r h) = .node (abs l) lo hi mx h (abs r) := rfl

/-- a panicking result seen through the abstraction -/
def absR : Res Tree → Option Acme.Avl.Tree
  | .panic => none
  | .val t => some (abs t)

/-- the same for (subtree, size counter) -/
def absP : Res (Tree × Int) → Option (Acme.Avl.Tree × Int)
  | .panic => none
  | .val (t, s) => some (abs t, s)

def toOpt {α : Type} : Res α → Option α
  | .panic => none
  | .val a => some a

@[simp] theorem absR_panic : absR .panic = none := rfl
@[simp] theorem absR_val (t : Tree) : absR (.val t) = some (abs t) := rfl
@[simp] theorem absP_panic : absP .panic = none := rfl
@[simp] theorem absP_val (t : Tree) (s : Int) : absP (.val (t, s)) = some (abs t, s) := rfl
@[simp] theorem toOpt_panic {α : Type} : toOpt (.panic : Res α) = none := rfl
@[simp] theorem toOpt_val {α : Type} (a : α) : toOpt (.val a) = some a := rfl

/-- height field, 0 for nil (what `updateHeight` / `balanceFactor` read) -/
def gh : Tree → Int
  | .leaf => 0
  | .node _ _ _ _ _ h => h

@[simp] theorem height_abs (t : Tree) : Acme.Avl.height (abs t) = gh t := by
  cases t <;> rfl

/-- the max computed by `updateMax` -/
def gmax (hi : Int) (l r : Tree) : Int :=
  let m1 := match l with
    | .leaf => hi
    | .node _ _ lm _ _ _ => if lm > hi then lm else hi
  match r with
    | .leaf => m1
    | .node _ _ rm _ _ _ => if rm > m1 then rm else m1

/-- `updateHeight` then `updateMax` on a node with these children and item -/
def gmk (l : Tree) (lo hi : Int) (r : Tree) : Tree :=
  .node lo hi (gmax hi l r) l r (1 + max (gh l) (gh r))

@[simp] theorem abs_gmk (l : Tree) (lo hi : Int) (r : Tree) :
    abs (gmk l lo hi r) = Acme.Avl.mk (abs l) lo hi (abs r) := by
  cases l <;> cases r <;> simp [gmk, gmax, Acme.Avl.mk, gh, Acme.Avl.height]

/-! ### updateHeight, updateMax, balanceFactor -/

@[simp] theorem updateHeight_leaf : updateHeight .leaf = .panic := rfl
@[simp] theorem updateHeight_node (lo hi mx : Int) (l r : Tree) (h : Int) :
    updateHeight (.node lo hi mx l r h) = .val (.node lo hi mx l r (1 + max (gh l) (gh r))) := by
  cases l <;> cases r <;> rfl

@[simp] theorem updateMax_leaf : updateMax .leaf = .panic := rfl
@[simp] theorem updateMax_node (lo hi mx : Int) (l r : Tree) (h : Int) :
    updateMax (.node lo hi mx l r h) = .val (.node lo hi (gmax hi l r) l r h) := by
  cases l <;> cases r <;> simp only [updateMax, gmax] <;> (repeat' split) <;> simp_all

@[simp] theorem balanceFactor_leaf : balanceFactor .leaf = .panic := rfl
@[simp] theorem balanceFactor_node (lo hi mx : Int) (l r : Tree) (h : Int) :
    balanceFactor (.node lo hi mx l r h) = .val (gh l - gh r) := by
  cases l <;> cases r <;> rfl

theorem balanceFactor_eq (t : Tree) :
    toOpt (balanceFactor t) = (match t with | .leaf => none | _ => some (Acme.Avl.bf (abs t))) := by
  cases t <;> simp [Acme.Avl.bf]

/-- `updateHeight` and `updateMax` together are the model's `mk` -/
theorem update_eq (lo hi mx : Int) (l r : Tree) (h : Int) :
    (match updateHeight (.node lo hi mx l r h) with
      | .panic => Res.panic
      | .val n => updateMax n) = Res.val (gmk l lo hi r) := by
  simp [gmk]

/-! ### rotations -/

theorem rotateRight_eq (t : Tree) : absR (rotateRight t) = Acme.Avl.rotateRight (abs t) := by
  cases t with
  | leaf => rfl
  | node lo hi mx l r h =>
    cases l with
    | leaf => rfl
    | node llo lhi lmx ll lr lh =>
      simp only [rotateRight, updateHeight_node, updateMax_node, Acme.Avl.rotateRight, abs_node, absR_val]
      rw [← abs_gmk, ← abs_gmk]; rfl

theorem rotateLeft_eq (t : Tree) : absR (rotateLeft t) = Acme.Avl.rotateLeft (abs t) := by
  cases t with
  | leaf => rfl
  | node lo hi mx l r h =>
    cases r with
    | leaf => rfl
    | node rlo rhi rmx rl rr rh =>
      simp only [rotateLeft, updateHeight_node, updateMax_node, Acme.Avl.rotateLeft, abs_node, absR_val]
      rw [← abs_gmk, ← abs_gmk]; rfl

/-- the exact panic condition of `rotateRight`: the node or its left child is nil -/
theorem rotateRight_panic_iff (t : Tree) :
    rotateRight t = .panic ↔ (t = .leaf ∨ ∃ lo hi mx r h, t = .node lo hi mx .leaf r h) := by
  cases t with
  | leaf => simp [rotateRight]
  | node lo hi mx l r h =>
    cases l with
    | leaf => simp [rotateRight]
    | node llo lhi lmx ll lr lh => simp [rotateRight]

theorem rotateLeft_panic_iff (t : Tree) :
    rotateLeft t = .panic ↔ (t = .leaf ∨ ∃ lo hi mx l h, t = .node lo hi mx l .leaf h) := by
  cases t with
  | leaf => simp [rotateLeft]
  | node lo hi mx l r h =>
    cases r with
    | leaf => simp [rotateLeft]
    | node rlo rhi rmx rl rr rh => simp [rotateLeft]

/-! ### lessThan, findMin -/

@[simp] theorem lessThan_leaf (lo hi : Int) : lessThan .leaf lo hi = .panic := rfl
@[simp] theorem lessThan_node (nlo nhi mx : Int) (l r : Tree) (h lo hi : Int) :
    lessThan (.node nlo nhi mx l r h) lo hi = .val (Acme.Avl.lessThan lo hi nlo nhi) := by
  simp only [lessThan, Acme.Avl.lessThan]
  split <;> simp_all

/-- the item of a node -/
def rootItem : Tree → Option (Int × Int)
  | .leaf => none
  | .node lo hi _ _ _ _ => some (lo, hi)

theorem findMin_loop1_eq (t : Tree) :
    (toOpt (findMin_loop1 t)).bind rootItem = Acme.Avl.findMin (abs t) := by
  induction t with
  | leaf => rfl
  | node lo hi mx l r h ihl _ =>
    cases l with
    | leaf => simp [findMin_loop1, Acme.Avl.findMin, rootItem]
    | node llo lhi lmx ll lr lh =>
      rw [findMin_loop1]
      simp only [abs_node, Acme.Avl.findMin]
      exact ihl

theorem findMin_eq (t : Tree) : (toOpt (findMin t)).bind rootItem = Acme.Avl.findMin (abs t) :=
  findMin_loop1_eq t

/-- `findMin` panics on nil only, and returns a node -/
theorem findMin_loop1_node (lo hi mx : Int) (l r : Tree) (h : Int) :
    ∃ lo' hi' mx' l' r' h', findMin_loop1 (.node lo hi mx l r h) = .val (.node lo' hi' mx' l' r' h') := by
  induction l generalizing lo hi mx r h with
  | leaf => exact ⟨lo, hi, mx, .leaf, r, h, rfl⟩
  | node llo lhi lmx ll lr lh ihl _ =>
    rw [findMin_loop1]
    exact ihl llo lhi lmx lr lh

/-! ### queries -/

theorem intersectsNode_eq (t : Tree) (lo hi : Int) :
    intersectsNode t lo hi = Acme.Avl.intersectsNode (abs t) lo hi := by
  induction t with
  | leaf => rfl
  | node nlo nhi mx l r h ihl ihr =>
    simp only [intersectsNode, Acme.Avl.intersectsNode, abs_node, ← ihl, ← ihr]
    repeat' split
    all_goals simp_all

theorem checkOtherIntervals_eq (t : Tree) (lo hi slo shi : Int) :
    checkOtherIntervals t lo hi slo shi = Acme.Avl.checkOther (abs t) lo hi slo shi := by
  induction t with
  | leaf => rfl
  | node nlo nhi mx l r h ihl ihr =>
    simp only [checkOtherIntervals, Acme.Avl.checkOther, abs_node, ← ihl, ← ihr]
    repeat' split
    all_goals simp_all

theorem inOrderTraversal_eq (t : Tree) (acc : List (Int × Int)) :
    inOrderTraversal t acc = acc ++ Acme.Avl.inorder (abs t) := by
  induction t generalizing acc with
  | leaf => simp [inOrderTraversal, Acme.Avl.inorder]
  | node nlo nhi mx l r h ihl ihr =>
    simp only [inOrderTraversal, Acme.Avl.inorder, abs_node, ihl, ihr]
    simp

/-! ### rewriting forms (used by GenBstInsert / GenBstDelete) -/

def liftR : Option Acme.Avl.Tree → Res Tree
  | none => .panic
  | some u => .val (conc u)

theorem res_eq_of_absR {x : Res Tree} {o : Option Acme.Avl.Tree} (h : absR x = o) : x = liftR o := by
  cases x <;> subst h <;> simp [liftR]

theorem rotateRight_lift (t : Tree) : rotateRight t = liftR (Acme.Avl.rotateRight (abs t)) :=
  res_eq_of_absR (rotateRight_eq t)
theorem rotateLeft_lift (t : Tree) : rotateLeft t = liftR (Acme.Avl.rotateLeft (abs t)) :=
  res_eq_of_absR (rotateLeft_eq t)

def liftP : Option (Acme.Avl.Tree × Int) → Res (Tree × Int)
  | none => .panic
  | some (u, s) => .val (conc u, s)

theorem res_eq_of_absP {x : Res (Tree × Int)} {o : Option (Acme.Avl.Tree × Int)} (h : absP x = o) : x = liftP o := by
  cases x with
  | panic => subst h; rfl
  | val p => obtain ⟨t, s⟩ := p; subst h; simp [liftP]


@[simp] theorem liftR_none : liftR none = .panic := rfl
@[simp] theorem liftR_some (u : Acme.Avl.Tree) : liftR (some u) = .val (conc u) := rfl

@[simp] theorem liftR_eq_panic (o : Option Acme.Avl.Tree) : liftR o = .panic ↔ o = none := by
  cases o <;> simp
@[simp] theorem liftR_eq_val (o : Option Acme.Avl.Tree) (n : Tree) : liftR o = .val n ↔ o = some (abs n) := by
  cases o with
  | none => simp
  | some u =>
    simp only [liftR_some, Res.val.injEq, Option.some.injEq]
    constructor
    · intro h; subst h; simp
    · intro h; subst h; simp

theorem gh_gmk (l : Tree) (a b : Int) (r : Tree) : gh (gmk l a b r) = 1 + max (gh l) (gh r) := rfl

/-- the root's max / height fields are irrelevant to a rotation -/
theorem avl_rotateRight_irrel (l : Acme.Avl.Tree) (a b m h : Int) (r : Acme.Avl.Tree) (m' h' : Int) :
    Acme.Avl.rotateRight (.node l a b m h r) = Acme.Avl.rotateRight (.node l a b m' h' r) := by
  cases l <;> rfl
theorem avl_rotateLeft_irrel (l : Acme.Avl.Tree) (a b m h : Int) (r : Acme.Avl.Tree) (m' h' : Int) :
    Acme.Avl.rotateLeft (.node l a b m h r) = Acme.Avl.rotateLeft (.node l a b m' h' r) := by
  cases r <;> rfl


/-- closes `absP (match liftR o with ..) = match o with ..` goals -/
macro "rot_fin" : tactic => `(tactic| first
  | (simp; done)
  | ((repeat' split) <;> simp_all <;> (try (subst_vars; simp)) <;> done))

/-- the re-balancing tail: generated code (after the node lemmas) against `Avl.rebalance (Avl.mk ..)` -/
macro "tail_tac" l:ident r:ident : tactic => `(tactic| (
  rw [← abs_gmk]
  simp only [gmk, abs_node, Acme.Avl.rebalance, Acme.Avl.bf, height_abs, bind, Option.bind]
  by_cases h1 : gh $l - gh $r > 1
  · simp only [h1, if_true]
    cases $l:ident with
    | leaf => simp [Acme.Avl.rotateRight]
    | node llo lhi lmx ll lr lh =>
      simp only [balanceFactor_node, abs_node, height_abs]
      by_cases h2 : gh ll - gh lr < 0
      · simp only [h2, if_true]
        cases hx : Acme.Avl.rotateLeft (Acme.Avl.Tree.node (abs ll) llo lhi lmx lh (abs lr)) with
        | none => simp
        | some x => simp only [liftR_some, abs_conc]; rot_fin
      · simp only [h2, if_false]; rot_fin
  · simp only [h1, if_false]
    by_cases h3 : gh $l - gh $r < -1
    · simp only [h3, if_true]
      cases $r:ident with
      | leaf => simp [Acme.Avl.rotateLeft]
      | node rlo rhi rmx rl rr rh =>
        simp only [balanceFactor_node, abs_node, height_abs]
        by_cases h4 : gh rl - gh rr > 0
        · simp only [h4, if_true]
          cases hx : Acme.Avl.rotateRight (Acme.Avl.Tree.node (abs rl) rlo rhi rmx rh (abs rr)) with
          | none => simp
          | some x => simp only [liftR_some, abs_conc]; rot_fin
        · simp only [h4, if_false]; rot_fin
    · simp [h3]))

end Acme.GenBst
