/-
Multiplexer world, part B: the tree.  Ancestor chains are shorter than the number of stored
signals (so `fuelOf w` suffices for `descendants` and `absStart`), `descendants` is exactly the
set of signals below a node, and the global reading of the message view follows from the
local invariant.
-/
import Acme.Proofs.MuxBasic

namespace Acme.Mux
open Acme.Layout Acme.Arith

/-! ### ancestor chains -/

theorem Anc_snoc (w : MW) (k : Nat) (c y t : Nat) (ey : SigE) (h : Anc w k c y)
    (hy : w.sigs.get y = some ey) (hp : ey.parentMux = some t) : Anc w (k + 1) c t := by
  induction k generalizing c with
  | zero =>
    simp only [Anc] at h
    subst h
    exact ⟨ey, t, hy, hp, rfl⟩
  | succ k ih =>
    obtain ⟨e, p, he, hpp, hrest⟩ := h
    exact ⟨e, p, he, hpp, ih p hrest⟩

theorem Anc_unsnoc (w : MW) (k : Nat) (c t : Nat) (h : Anc w (k + 1) c t) :
    ∃ y ey, Anc w k c y ∧ w.sigs.get y = some ey ∧ ey.parentMux = some t := by
  induction k generalizing c with
  | zero =>
    obtain ⟨e, p, he, hp, hrest⟩ := h
    simp only [Anc] at hrest
    subst hrest
    exact ⟨c, e, rfl, he, hp⟩
  | succ k ih =>
    obtain ⟨e, p, he, hp, hrest⟩ := h
    obtain ⟨y, ey, h1, h2, h3⟩ := ih p hrest
    exact ⟨y, ey, ⟨e, p, he, hp, h1⟩, h2, h3⟩

theorem Anc_trans (w : MW) (j k : Nat) (a b c : Nat) (h1 : Anc w j a b) (h2 : Anc w k b c) :
    Anc w (j + k) a c := by
  induction j generalizing a with
  | zero => simp only [Anc] at h1; subst h1; simpa using h2
  | succ j ih =>
    obtain ⟨e, p, he, hp, hrest⟩ := h1
    have : j + 1 + k = (j + k) + 1 := by omega
    rw [this]
    exact ⟨e, p, he, hp, ih p hrest⟩

/-- what the tree recursions need of a world -/
structure TreeOK (w : MW) : Prop where
  parentStored : ∀ s e x, w.sigs.get s = some e → e.parentMux = some x → ∃ xe, w.sigs.get x = some xe
  children : ∀ y c, c ∈ childrenOf w y ↔ ∃ e, w.sigs.get c = some e ∧ e.parentMux = some y
  acyclic : ∃ depth : Nat → Nat, ∀ s e x, w.sigs.get s = some e → e.parentMux = some x → depth x < depth s

/-- the end of a chain that starts at a stored signal is stored, in the same message -/
theorem Anc_stored (w : MW) (h : InvCore w) (k : Nat) (s t : Nat) (e : SigE)
    (hs : w.sigs.get s = some e) (ha : Anc w k s t) :
    ∃ et, w.sigs.get t = some et ∧ et.parentMsg = e.parentMsg := by
  induction k generalizing s e with
  | zero => simp only [Anc] at ha; subst ha; exact ⟨e, hs, rfl⟩
  | succ k ih =>
    obtain ⟨e', p, he', hp, hrest⟩ := ha
    rw [hs] at he'; cases he'
    obtain ⟨xe, gc, gs, hx, _, hpm⟩ := h.parentIsMux s e p hs hp
    obtain ⟨et, het, hm⟩ := ih p xe hx hrest
    exact ⟨et, het, by rw [hm, hpm]⟩

/-- the chain as a list: `k + 1` different stored signals -/
theorem Anc_chain (w : MW) (h : TreeOK w) (depth : Nat → Nat)
    (hd : ∀ s e x, w.sigs.get s = some e → e.parentMux = some x → depth x < depth s)
    (k : Nat) (s t : Nat) (e : SigE) (hs : w.sigs.get s = some e) (ha : Anc w k s t) :
    ∃ L : List Nat, L.length = k + 1 ∧ L.Nodup ∧ (∀ y ∈ L, y ∈ w.sigs.keys) ∧ ∀ y ∈ L, depth y ≤ depth s := by
  induction k generalizing s e with
  | zero =>
    refine ⟨[s], rfl, by simp, ?_, by simp⟩
    intro y hy
    simp only [List.mem_singleton] at hy
    subst hy
    exact AMap_get_mem_keys _ _ _ hs
  | succ k ih =>
    obtain ⟨e', p, he', hp, hrest⟩ := ha
    rw [hs] at he'; cases he'
    obtain ⟨xe, hx⟩ := h.parentStored s e p hs hp
    obtain ⟨L, hl, hn, hk, hdp⟩ := ih p xe hx hrest
    have hlt := hd s e p hs hp
    refine ⟨s :: L, by simp [hl], ?_, ?_, ?_⟩
    · simp only [List.nodup_cons]
      refine ⟨?_, hn⟩
      intro hmem
      have := hdp s hmem
      omega
    · intro y hy
      simp only [List.mem_cons] at hy
      rcases hy with rfl | hy
      · exact AMap_get_mem_keys _ _ _ hs
      · exact hk y hy
    · intro y hy
      simp only [List.mem_cons] at hy
      rcases hy with rfl | hy
      · exact Nat.le_refl _
      · have := hdp y hy
        omega

/-- `fuelOK`: every ancestor chain is shorter than the fuel -/
theorem anc_lt_fuel (w : MW) (h : TreeOK w) (k : Nat) (s t : Nat) (e : SigE)
    (hs : w.sigs.get s = some e) (ha : Anc w k s t) : k < fuelOf w := by
  obtain ⟨depth, hd⟩ := h.acyclic
  obtain ⟨L, hl, hn, hk, _⟩ := Anc_chain w h depth hd k s t e hs ha
  have := List.Nodup.length_le_of_subset hn (fun y hy => hk y hy)
  have hkeys : w.sigs.keys.length = fuelOf w := by simp [AMap.keys, fuelOf]
  omega

/-- every stored signal has a top-most ancestor -/
theorem top_exists (w : MW) (h : TreeOK w) (s : Nat) (e : SigE) (hs : w.sigs.get s = some e) :
    ∃ k t et, Anc w k s t ∧ w.sigs.get t = some et ∧ et.parentMux = none := by
  obtain ⟨depth, hd⟩ := h.acyclic
  generalize hn : depth s = n
  induction n using Nat.strongRecOn generalizing s e with
  | _ n ih =>
    cases hp : e.parentMux with
    | none => exact ⟨0, s, e, rfl, hs, hp⟩
    | some p =>
      obtain ⟨xe, hx⟩ := h.parentStored s e p hs hp
      have hlt := hd s e p hs hp
      obtain ⟨k, t, et, ha, ht, htop⟩ := ih (depth p) (by omega) p xe hx rfl
      exact ⟨k + 1, t, et, ⟨e, p, hs, hp, ha⟩, ht, htop⟩

/-! ### children and descendants -/

theorem mem_childrenOf_iff (w : MW) (h : InvCore w) (y c : Nat) :
    c ∈ childrenOf w y ↔ ∃ e, w.sigs.get c = some e ∧ e.parentMux = some y := by
  unfold childrenOf
  cases hy : w.sigs.get y with
  | none =>
    simp only [List.not_mem_nil, false_iff]
    rintro ⟨e, he, hp⟩
    obtain ⟨xe, _, _, hx, _, _⟩ := h.parentIsMux c e y he hp
    rw [hy] at hx; cases hx
  | some ye =>
    cases hk : ye.kind with
    | leaf z =>
      simp only [hk, List.not_mem_nil, false_iff]
      rintro ⟨e, he, hp⟩
      obtain ⟨xe, gc, gs, hx, hkx, _⟩ := h.parentIsMux c e y he hp
      rw [hy] at hx; cases hx
      rw [hk] at hkx; cases hkx
    | mux gc gs =>
      simp only [hk]
      exact (h.childrenExact y ye gc gs hy hk).2.2.1 c

theorem InvCore.treeOK {w : MW} (h : InvCore w) : TreeOK w where
  parentStored := fun s e x hs hp => by
    obtain ⟨xe, _, _, hx, _, _⟩ := h.parentIsMux s e x hs hp
    exact ⟨xe, hx⟩
  children := mem_childrenOf_iff w h
  acyclic := h.acyclic

theorem mem_descendants_fuel (w : MW) (h : TreeOK w) (f : Nat) (t c : Nat) :
    c ∈ descendants w f t ↔ ∃ k, k < f ∧ Anc w (k + 1) c t := by
  induction f generalizing t with
  | zero => simp [descendants]
  | succ f ih =>
    simp only [descendants, List.mem_flatMap, List.mem_cons]
    constructor
    · rintro ⟨ch, hch, hc⟩
      obtain ⟨ech, hech, hpar⟩ := (h.children t ch).mp hch
      rcases hc with rfl | hc
      · exact ⟨0, by omega, ech, t, hech, hpar, rfl⟩
      · obtain ⟨k, hk, ha⟩ := (ih ch).mp hc
        exact ⟨k + 1, by omega, Anc_snoc w (k + 1) c ch t ech ha hech hpar⟩
    · rintro ⟨k, hk, ha⟩
      obtain ⟨y, ey, h1, h2, h3⟩ := Anc_unsnoc w k c t ha
      refine ⟨y, (h.children t y).mpr ⟨ey, h2, h3⟩, ?_⟩
      cases k with
      | zero => simp only [Anc] at h1; exact Or.inl h1
      | succ k => exact Or.inr ((ih y).mpr ⟨k, by omega, h1⟩)

/-- with the fuel of the world, `descendants` is everything below the node -/
theorem mem_descendants_iff (w : MW) (h : TreeOK w) (t c : Nat) :
    c ∈ descendants w (fuelOf w) t ↔ ∃ k, Anc w (k + 1) c t := by
  rw [mem_descendants_fuel w h]
  constructor
  · rintro ⟨k, _, ha⟩; exact ⟨k, ha⟩
  · rintro ⟨k, ha⟩
    obtain ⟨e, p, he, _, _⟩ := ha
    have := anc_lt_fuel w h (k + 1) c t e he ⟨e, p, he, ‹_›, ‹_›⟩
    exact ⟨k, by omega, ⟨e, p, he, ‹_›, ‹_›⟩⟩

/-! ### from the local invariant to the invariant -/

theorem inv_of_core (w : MW) (h : InvCore w) : Inv w where
  toInvCore := h
  fuelOK := fun k s t e hs ha => anc_lt_fuel w h.treeOK k s t e hs ha
  msgView := by
    intro m msg hm
    obtain ⟨hcap, hsz, hwf, hnd, htop⟩ := h.msgLayoutWF m msg hm
    obtain ⟨hreg, hkn, hnames⟩ := h.msgRegistry m msg hm
    refine ⟨?_, ?_, ?_, ?_⟩
    · intro s
      constructor
      · intro hs
        obtain ⟨e, he, hpm⟩ := (hreg s).mp hs
        obtain ⟨k, t, et, ha, ht, htp⟩ := top_exists w h.treeOK s e he
        obtain ⟨et', het', hmm⟩ := Anc_stored w h k s t e he ha
        rw [ht] at het'; cases het'
        have htl : t ∈ msg.layout := (htop t).mpr ⟨et, ht, htp, by rw [hmm, hpm]⟩
        cases k with
        | zero => simp only [Anc] at ha; subst ha; exact Or.inl htl
        | succ k => exact Or.inr ⟨t, htl, (mem_descendants_iff w h.treeOK t s).mpr ⟨k, ha⟩⟩
      · rintro (hs | ⟨t, htl, hd⟩)
        · obtain ⟨e, he, _, hpm⟩ := (htop s).mp hs
          exact (hreg s).mpr ⟨e, he, hpm⟩
        · obtain ⟨k, ha⟩ := (mem_descendants_iff w h.treeOK t s).mp hd
          obtain ⟨et, het, _, hpm⟩ := (htop t).mp htl
          obtain ⟨e, p, he, hp, hrest⟩ := ha
          obtain ⟨et', het', hmm⟩ := Anc_stored w h (k + 1) s t e he ⟨e, p, he, hp, hrest⟩
          rw [het] at het'; cases het'
          exact (hreg s).mpr ⟨e, he, by rw [← hmm, hpm]⟩
    · intro s e he
      rw [hreg s]
      constructor
      · intro hp; exact ⟨e, he, hp⟩
      · rintro ⟨e', he', hp⟩; rw [he] at he'; cases he'; exact hp
    · intro n i
      rw [nmGet_eq_some_iff _ hkn, hnames]
    · intro i j hi hj hij
      have h1 : (nameOf w i, i) ∈ msg.signalNames := (hnames _ _).mpr ⟨hi, rfl⟩
      have h2 : (nameOf w i, j) ∈ msg.signalNames := (hnames _ _).mpr ⟨hj, hij.symm⟩
      have e1 := (nmGet_eq_some_iff _ hkn _ _).mpr h1
      have e2 := (nmGet_eq_some_iff _ hkn _ _).mpr h2
      rw [e1] at e2
      exact Option.some.inj e2

/-! ### absolute start bits -/

theorem absStart_stable (w : MW) (f : Nat) (x : Nat) (hb : ∀ k t, Anc w k x t → k < f) :
    absStart w f x = absStart w (f + 1) x := by
  induction f generalizing x with
  | zero => exact absurd (hb 0 x rfl) (by omega)
  | succ f ih =>
    rw [absStart, absStart]
    cases hx : w.sigs.get x with
    | none => rfl
    | some e =>
      cases hp : e.parentMux with
      | none => simp only [hp]
      | some p =>
        cases hpe : w.sigs.get p with
        | none => simp only [hp, hpe]
        | some pe =>
          simp only [hp, hpe]
          rw [ih p]
          intro k t ha
          have := hb (k + 1) t ⟨e, p, hx, hp, ha⟩
          omega

theorem absStart_eq (w : MW) (h : InvCore w) (s x : Nat) (e : SigE) (hs : w.sigs.get s = some e)
    (hp : e.parentMux = some x) :
    ∃ xe, w.sigs.get x = some xe ∧
      absStart w (fuelOf w) s = absStart w (fuelOf w) x + selWidthOf xe + e.rel := by
  obtain ⟨xe, gc, gs, hx, _, _⟩ := h.parentIsMux s e x hs hp
  refine ⟨xe, hx, ?_⟩
  have h0 := anc_lt_fuel w h.treeOK 0 s s e hs rfl
  obtain ⟨f, hf⟩ : ∃ f, fuelOf w = f + 1 := ⟨fuelOf w - 1, by omega⟩
  rw [hf]
  have hst : absStart w f x = absStart w (f + 1) x := by
    apply absStart_stable
    intro k t ha
    have := anc_lt_fuel w h.treeOK (k + 1) s t e hs ⟨e, x, hs, hp, ha⟩
    omega
  rw [← hst]
  conv => lhs; rw [absStart]
  simp only [hs, hp, hx]

/-! ### worlds with the same tree -/

theorem Anc_congr (w w' : MW)
    (h : ∀ i, (w'.sigs.get i).map (·.parentMux) = (w.sigs.get i).map (·.parentMux))
    (k : Nat) (s t : Nat) : Anc w' k s t ↔ Anc w k s t := by
  induction k generalizing s with
  | zero => simp [Anc]
  | succ k ih =>
    simp only [Anc]
    constructor
    · rintro ⟨e', p, he', hp, hr⟩
      have := h s
      rw [he'] at this
      cases hg : w.sigs.get s with
      | none => rw [hg] at this; simp at this
      | some e =>
        rw [hg] at this
        simp only [Option.map_some, Option.some.injEq] at this
        exact ⟨e, p, rfl, by rw [← this, hp], (ih p).mp hr⟩
    · rintro ⟨e, p, he, hp, hr⟩
      have := h s
      rw [he] at this
      cases hg : w'.sigs.get s with
      | none => rw [hg] at this; simp at this
      | some e' =>
        rw [hg] at this
        simp only [Option.map_some, Option.some.injEq] at this
        exact ⟨e', p, rfl, by rw [this, hp], (ih p).mpr hr⟩

end Acme.Mux
