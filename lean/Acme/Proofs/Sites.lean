/-
Tie B: the inventories regenerated from /repo's source on every run (Acme.Gen, written by
/verif/tools/extract) are exactly the hand-classified expectation tables (Acme.Expect).
These are proof obligations: when the source gains a new potential panic site, a new map
iteration, a different comparator or a new store in read-only code, `decide` fails here and
every property theorem that imports this file stops building.
-/
import Acme.Gen.PanicSites
import Acme.Gen.IterSites
import Acme.Gen.StoreSites
import Acme.Gen.Consts
import Acme.Expect.Sites
import Acme.Core.BusLoad
import Acme.Core.Arith

namespace Acme.Sites

set_option maxRecDepth 100000 in
theorem panicSites_expected : Acme.Gen.panicSites = Acme.Expect.panicSites.map (·.1) := by decide

set_option maxRecDepth 100000 in
theorem iterSites_expected : Acme.Gen.iterSites = Acme.Expect.iterSites.map (·.1) := by decide

set_option maxRecDepth 100000 in
theorem storeSites_expected : Acme.Gen.storeSites = Acme.Expect.storeSites.map (·.1) := by decide

/-- the numeric constants of the source are the ones the kernel models use -/
theorem consts_expected :
    Acme.Gen.maxSize = Acme.Arith.maxSize ∧ Acme.Gen.headerBits = Acme.BusLoad.headerBits ∧
    Acme.Gen.trailerBits = Acme.BusLoad.trailerBits ∧
    Acme.Gen.headerStuffingBits = Acme.BusLoad.headerStuffingBits := by decide

end Acme.Sites
