/-
Basic lemmas for C19 (interval tree): `le2`, `mk`, rotations, `rebalance`.
-/
import Acme.Core.Avl
import Acme.Spec.Avl

namespace Acme.Avl
open Tree

/-! ### `le2` -/

theorem le2_refl (a : Int × Int) : le2 a a := by
  unfold le2; omega

theorem le2_trans {a b c : Int × Int} (h1 : le2 a b) (h2 : le2 b c) : le2 a c := by
  unfold le2 at *; omega

theorem le2_of_lessThan {lo hi nlo nhi : Int} (h : lessThan lo hi nlo nhi = true) :
    le2 (lo, hi) (nlo, nhi) := by
  unfold lessThan at h; unfold le2
  by_cases h1 : lo = nlo <;> simp [h1] at h ⊢ <;> omega

theorem le2_of_not_lessThan {lo hi nlo nhi : Int} (h : ¬ lessThan lo hi nlo nhi = true) :
    le2 (nlo, nhi) (lo, hi) := by
  unfold lessThan at h; unfold le2
  by_cases h1 : lo = nlo <;> simp [h1] at h ⊢ <;> omega

/-- strictly smaller: cannot be `≥` in the `le2` sense -/
theorem not_le2_of_lessThan {lo hi nlo nhi : Int} (h : lessThan lo hi nlo nhi = true) :
    ¬ le2 (nlo, nhi) (lo, hi) := by
  unfold lessThan at h; unfold le2
  by_cases h1 : lo = nlo <;> simp [h1] at h ⊢ <;> omega

/-- strictly greater -/
theorem not_le2_of_not_lessThan_ne {lo hi nlo nhi : Int} (h : ¬ lessThan lo hi nlo nhi = true)
    (hne : lo ≠ nlo ∨ hi ≠ nhi) : ¬ le2 (lo, hi) (nlo, nhi) := by
  unfold lessThan at h; unfold le2
  by_cases h1 : lo = nlo <;> simp [h1] at h hne ⊢ <;> omega

/-! ### IsBst ↔ sorted inorder -/

theorem isBst_iff_sorted (t : Tree) : IsBst t ↔ (inorder t).Pairwise le2 := by
  induction t with
  | nil => simp [IsBst, inorder]
  | node l lo hi mx h r ihl ihr =>
    simp only [IsBst, inorder, List.pairwise_append, List.pairwise_cons, ihl, ihr]
    constructor
    · rintro ⟨h1, h2, h3, h4⟩
      refine ⟨h1, ⟨h4, h2⟩, ?_⟩
      intro a ha b hb
      rcases List.mem_cons.1 hb with rfl | hb
      · exact h3 a ha
      · exact le2_trans (h3 a ha) (h4 b hb)
    · rintro ⟨h1, ⟨h4, h2⟩, h3⟩
      exact ⟨h1, h2, fun x hx => h3 x hx _ (List.mem_cons_self), h4⟩

theorem isBst_of_inorder_eq {t t' : Tree} (h : inorder t' = inorder t) (hb : IsBst t) :
    IsBst t' := by
  rw [isBst_iff_sorted] at *; rw [h]; exact hb

/-! ### heights -/

theorem realHeight_nonneg (t : Tree) : 0 ≤ realHeight t := by
  induction t with
  | nil => simp [realHeight]
  | node l lo hi mx h r ihl ihr => simp only [realHeight]; omega

theorem realHeight_node_pos (l : Tree) (lo hi mx h : Int) (r : Tree) :
    1 ≤ realHeight (node l lo hi mx h r) := by
  have := realHeight_nonneg l
  simp only [realHeight]; omega

theorem height_eq {t : Tree} (h : HeightOK t) : height t = realHeight t := by
  cases t with
  | nil => rfl
  | node l lo hi mx h r => exact h.2.2

theorem exists_node_of_pos {t : Tree} (h : 1 ≤ realHeight t) :
    ∃ l lo hi mx hh r, t = node l lo hi mx hh r := by
  cases t with
  | nil => simp [realHeight] at h
  | node l lo hi mx hh r => exact ⟨l, lo, hi, mx, hh, r, rfl⟩

/-! ### `mk` -/

@[simp] theorem inorder_mk (l : Tree) (lo hi : Int) (r : Tree) :
    inorder (mk l lo hi r) = inorder l ++ (lo, hi) :: inorder r := rfl

@[simp] theorem realHeight_mk (l : Tree) (lo hi : Int) (r : Tree) :
    realHeight (mk l lo hi r) = 1 + max (realHeight l) (realHeight r) := rfl

theorem heightOK_mk {l r : Tree} (lo hi : Int) (hl : HeightOK l) (hr : HeightOK r) :
    HeightOK (mk l lo hi r) := by
  refine ⟨hl, hr, ?_⟩
  simp only [realHeight, height_eq hl, height_eq hr]

theorem balanced_mk {l r : Tree} (lo hi : Int) (hl : Balanced l) (hr : Balanced r)
    (h1 : realHeight l - realHeight r ≤ 1) (h2 : realHeight r - realHeight l ≤ 1) :
    Balanced (mk l lo hi r) := ⟨hl, hr, h1, h2⟩

theorem mx_eq {t : Tree} (h : MaxOK t) : ∀ l lo hi mx hh r, t = node l lo hi mx hh r →
    mx = realMax t := by
  intro l lo hi mx hh r e; subst e; exact h.2.2

theorem maxOK_mk {l r : Tree} (lo hi : Int) (hl : MaxOK l) (hr : MaxOK r) :
    MaxOK (mk l lo hi r) := by
  refine ⟨hl, hr, ?_⟩
  cases l with
  | nil =>
    cases r with
    | nil => simp [realMax]
    | node rl rlo rhi rm rh rr =>
      have := hr.2.2
      simp only [realMax] at this ⊢
      omega
  | node ll llo lhi lm lh lr =>
    cases r with
    | nil =>
      have := hl.2.2
      simp only [realMax] at this ⊢
      omega
    | node rl rlo rhi rm rh rr =>
      have h1 := hl.2.2
      have h2 := hr.2.2
      simp only [realMax] at h1 h2 ⊢
      omega

@[simp] theorem height_node (l : Tree) (lo hi mx h : Int) (r : Tree) : height (node l lo hi mx h r) = h := rfl
@[simp] theorem bf_node (l : Tree) (lo hi mx h : Int) (r : Tree) : bf (node l lo hi mx h r) = height l - height r := rfl

theorem rebalance_LR {ll lrl lrr r : Tree} {a1 a2 lm lh c1 c2 cm ch lo hi mx h : Int}
    (h1 : lh - height r > 1) (h2 : height ll - ch < 0) :
    rebalance (node (node ll a1 a2 lm lh (node lrl c1 c2 cm ch lrr)) lo hi mx h r) =
      some (mk (mk ll a1 a2 lrl) c1 c2 (mk lrr lo hi r)) := by
  simp only [rebalance, bf_node, height_node, h1, h2, ↓reduceIte]; rfl

theorem rebalance_LL {ll lr r : Tree} {a1 a2 lm lh lo hi mx h : Int}
    (h1 : lh - height r > 1) (h2 : ¬ height ll - height lr < 0) :
    rebalance (node (node ll a1 a2 lm lh lr) lo hi mx h r) =
      some (mk ll a1 a2 (mk lr lo hi r)) := by
  simp only [rebalance, bf_node, height_node, h1, h2, ↓reduceIte]; rfl

theorem rebalance_RL {l rr rll rlr: Tree} {a1 a2 rm rh c1 c2 cm ch lo hi mx h : Int}
    (h0 : ¬ height l - rh > 1)
    (h1 : height l - rh < -1) (h2 : ch - height rr > 0) :
    rebalance (node l lo hi mx h (node (node rll c1 c2 cm ch rlr) a1 a2 rm rh rr)) =
      some (mk (mk l lo hi rll) c1 c2 (mk rlr a1 a2 rr)) := by
  simp only [rebalance, bf_node, height_node, h0, h1, h2, ↓reduceIte]; rfl

theorem rebalance_RR {l rl rr : Tree} {a1 a2 rm rh lo hi mx h : Int}
    (h0 : ¬ height l - rh > 1)
    (h1 : height l - rh < -1) (h2 : ¬ height rl - height rr > 0) :
    rebalance (node l lo hi mx h (node rl a1 a2 rm rh rr)) =
      some (mk (mk l lo hi rl) a1 a2 rr) := by
  simp only [rebalance, bf_node, height_node, h0, h1, h2, ↓reduceIte]; rfl

theorem rebalance_none {l r : Tree} {lo hi mx h : Int}
    (h0 : ¬ height l - height r > 1)
    (h1 : ¬ height l - height r < -1) :
    rebalance (node l lo hi mx h r) = some (node l lo hi mx h r) := by
  simp only [rebalance, bf_node, h0, h1, ↓reduceIte]

/-! ### `rebalance` -/

theorem rebalance_spec {l r : Tree} (lo hi mx h : Int)
    (hhl : HeightOK l) (hhr : HeightOK r) (hbl : Balanced l) (hbr : Balanced r)
    (hd1 : realHeight l - realHeight r ≤ 2) (hd2 : realHeight r - realHeight l ≤ 2)
    (hh : h = 1 + max (realHeight l) (realHeight r)) :
    ∃ t', rebalance (node l lo hi mx h r) = some t' ∧
      inorder t' = inorder l ++ (lo, hi) :: inorder r ∧
      HeightOK t' ∧ Balanced t' ∧ (MaxOK (node l lo hi mx h r) → MaxOK t') ∧
      realHeight t' ≤ h ∧ h - 1 ≤ realHeight t' ∧
      (realHeight l - realHeight r ≤ 1 → realHeight r - realHeight l ≤ 1 →
        realHeight t' = h) := by
  have el := height_eq hhl
  have er := height_eq hhr
  by_cases hb1 : realHeight l - realHeight r > 1
  · -- left heavy
    obtain ⟨ll, a1, a2, lm, lh, lr, rfl⟩ :=
      exists_node_of_pos (t := l) (by have := realHeight_nonneg r; omega)
    obtain ⟨hhll, hhlr, elh⟩ := hhl
    obtain ⟨hbll, hblr, hb3, hb4⟩ := hbl
    have ell := height_eq hhll
    have elr := height_eq hhlr
    simp only [realHeight] at *
    by_cases hb2 : realHeight ll < realHeight lr
    · obtain ⟨lrl, c1, c2, cm, ch, lrr, rfl⟩ :=
        exists_node_of_pos (t := lr) (by have := realHeight_nonneg ll; omega)
      obtain ⟨hhlrl, hhlrr, ech⟩ := hhlr
      obtain ⟨hblrl, hblrr, hb5, hb6⟩ := hblr
      simp only [realHeight, height_node] at *
      refine ⟨_, rebalance_LR (by omega) (by omega), by simp [inorder], ?_, ?_, ?_, ?_⟩
      · exact heightOK_mk _ _ (heightOK_mk _ _ hhll hhlrl) (heightOK_mk _ _ hhlrr hhr)
      · refine balanced_mk _ _ (balanced_mk _ _ hbll hblrl ?_ ?_) (balanced_mk _ _ hblrr hbr ?_ ?_)
          ?_ ?_ <;> (try simp only [realHeight_mk]) <;> omega
      · intro hm
        obtain ⟨⟨hmll, ⟨hmlrl, hmlrr, _⟩, _⟩, hmr, _⟩ := hm
        exact maxOK_mk _ _ (maxOK_mk _ _ hmll hmlrl) (maxOK_mk _ _ hmlrr hmr)
      · simp only [realHeight_mk]; omega
    · simp only [height_node] at *
      refine ⟨_, rebalance_LL (by omega) (by omega), by simp [inorder], ?_, ?_, ?_, ?_⟩
      · exact heightOK_mk _ _ hhll (heightOK_mk _ _ hhlr hhr)
      · refine balanced_mk _ _ hbll (balanced_mk _ _ hblr hbr ?_ ?_) ?_ ?_ <;>
          (try simp only [realHeight_mk]) <;> omega
      · intro hm
        obtain ⟨⟨hmll, hmlr, _⟩, hmr, _⟩ := hm
        exact maxOK_mk _ _ hmll (maxOK_mk _ _ hmlr hmr)
      · simp only [realHeight_mk]; omega
  · by_cases hb1' : realHeight l - realHeight r < -1
    · -- right heavy
      obtain ⟨rl, a1, a2, rm, rh, rr, rfl⟩ :=
        exists_node_of_pos (t := r) (by have := realHeight_nonneg l; omega)
      obtain ⟨hhrl, hhrr, erh⟩ := hhr
      obtain ⟨hbrl, hbrr, hb3, hb4⟩ := hbr
      have erl := height_eq hhrl
      have err := height_eq hhrr
      simp only [realHeight] at *
      by_cases hb2 : realHeight rl > realHeight rr
      · obtain ⟨rll, c1, c2, cm, ch, rlr, rfl⟩ :=
          exists_node_of_pos (t := rl) (by have := realHeight_nonneg rr; omega)
        obtain ⟨hhrll, hhrlr, ech⟩ := hhrl
        obtain ⟨hbrll, hbrlr, hb5, hb6⟩ := hbrl
        simp only [realHeight, height_node] at *
        refine ⟨_, rebalance_RL (by omega) (by omega) (by omega), by simp [inorder], ?_, ?_, ?_, ?_⟩
        · exact heightOK_mk _ _ (heightOK_mk _ _ hhl hhrll) (heightOK_mk _ _ hhrlr hhrr)
        · refine balanced_mk _ _ (balanced_mk _ _ hbl hbrll ?_ ?_) (balanced_mk _ _ hbrlr hbrr ?_ ?_)
            ?_ ?_ <;> (try simp only [realHeight_mk]) <;> omega
        · intro hm
          obtain ⟨hml, ⟨⟨hmrll, hmrlr, _⟩, hmrr, _⟩, _⟩ := hm
          exact maxOK_mk _ _ (maxOK_mk _ _ hml hmrll) (maxOK_mk _ _ hmrlr hmrr)
        · simp only [realHeight_mk]; omega
      · simp only [height_node] at *
        refine ⟨_, rebalance_RR (by omega) (by omega) (by omega), by simp [inorder], ?_, ?_, ?_, ?_⟩
        · exact heightOK_mk _ _ (heightOK_mk _ _ hhl hhrl) hhrr
        · refine balanced_mk _ _ (balanced_mk _ _ hbl hbrl ?_ ?_) hbrr ?_ ?_ <;>
            (try simp only [realHeight_mk]) <;> omega
        · intro hm
          obtain ⟨hml, ⟨hmrl, hmrr, _⟩, _⟩ := hm
          exact maxOK_mk _ _ (maxOK_mk _ _ hml hmrl) hmrr
        · simp only [realHeight_mk]; omega
    · refine ⟨_, rebalance_none (by omega) (by omega), rfl, ⟨hhl, hhr, ?_⟩,
        ⟨hbl, hbr, by omega, by omega⟩, id, ?_⟩
      · simp only [realHeight]; exact hh
      · simp only [realHeight]; omega

/-- `rebalance` applied to a freshly `mk`-ed node. -/
theorem rebalance_mk_spec {l r : Tree} (lo hi : Int)
    (hhl : HeightOK l) (hhr : HeightOK r) (hbl : Balanced l) (hbr : Balanced r)
    (hml : MaxOK l) (hmr : MaxOK r)
    (hd1 : realHeight l - realHeight r ≤ 2) (hd2 : realHeight r - realHeight l ≤ 2) :
    ∃ t', rebalance (mk l lo hi r) = some t' ∧
      inorder t' = inorder l ++ (lo, hi) :: inorder r ∧
      HeightOK t' ∧ Balanced t' ∧ MaxOK t' ∧
      realHeight t' ≤ 1 + max (realHeight l) (realHeight r) ∧
      max (realHeight l) (realHeight r) ≤ realHeight t' ∧
      (realHeight l - realHeight r ≤ 1 → realHeight r - realHeight l ≤ 1 →
        realHeight t' = 1 + max (realHeight l) (realHeight r)) := by
  have hm := maxOK_mk lo hi hml hmr
  have hh : 1 + max (height l) (height r) = 1 + max (realHeight l) (realHeight r) := by
    rw [height_eq hhl, height_eq hhr]
  obtain ⟨t', h1, h2, h3, h4, h5, h6, h7, h8⟩ :=
    rebalance_spec lo hi _ _ hhl hhr hbl hbr hd1 hd2 hh
  exact ⟨t', h1, h2, h3, h4, h5 hm, by omega, by omega, by
    intro a b; have := h8 a b; omega⟩

end Acme.Avl
