/-
Multiplexer world, part M: the invariant after a child was removed from a multiplexer.
-/
import Acme.Proofs.MuxRm

namespace Acme.Mux
open Acme.Layout Acme.Arith

open Classical in
theorem inv_rm (w : MW) (h : InvCore w) (x s : Nat) (xe se : SigE) (gc gs : Int)
    (hx : w.sigs.get x = some xe) (hk : xe.kind = .mux gc gs)
    (hs : w.sigs.get s = some se) (hsx : se.parentMux = some x)
    (W' : MW) (mx' : MuxD)
    (hG : mx'.groups.length = xe.mx.groups.length ∧ ∀ j, mx'.groups.getD j [] = sDel (xe.mx.groups.getD j []) s)
    (hF : ∀ t, t ∈ mx'.fixed ↔ t ∈ xe.mx.fixed ∧ t ≠ s)
    (hI : ∀ t, mx'.groupIds.get t = if t = s then none else xe.mx.groupIds.get t)
    (hS : mx'.signals = sDel xe.mx.signals s) (hN : mx'.signalNames = nmDel xe.mx.signalNames se.name)
    (c1 : W'.sigs.get x = some { xe with mx := mx' })
    (c2 : W'.sigs.get s = some { se with parentMux := none, parentMsg := none })
    (c3 : ∀ t, Below w t s → W'.sigs.get t = (w.sigs.get t).map (fun e => { e with parentMsg := none }))
    (c4 : ∀ t, t ≠ x → t ≠ s → ¬ Below w t s → W'.sigs.get t = w.sigs.get t)
    (c5 : xe.parentMsg = none → W'.msgs = w.msgs)
    (c6 : ∀ m, xe.parentMsg = some m → ∃ msg ks D, w.msgs.get m = some msg ∧ (∀ t, t ∈ D ↔ Below w t s) ∧
         (∀ n, n ∈ ks ↔ ∃ i, i ∈ s :: D ∧ nameOf w i = n) ∧
         ∀ j, W'.msgs.get j = if j = m then some { msg with signals := sDelAll msg.signals (s :: D), signalNames := nmDelAll msg.signalNames ks } else w.msgs.get j) :
    InvCore W' := by
  have hxo := h.muxOK hx hk
  have hxs : x ≠ s := by rintro rfl; exact self_not_parent w h x se hs hsx
  have hpmeq : xe.parentMsg = se.parentMsg := by
    obtain ⟨xe', _, _, hx', _, hp⟩ := h.parentIsMux s se x hs hsx
    rw [hx] at hx'; cases hx'; exact hp
  have hnbx : ¬ Below w x s := parent_not_below w h.treeOK s x se hs hsx
  have hbf : ∀ t, Below w t s → ∃ e, w.sigs.get t = some e ∧ e.parentMsg = xe.parentMsg ∧ e.parentMux ≠ none ∧ t ≠ s ∧ t ≠ x := by
    intro t hb
    obtain ⟨e, he, a1, a2, a3⟩ := below_registered w h s t se hs hb
    exact ⟨e, he, by rw [a1, hpmeq], a2, a3, by rintro rfl; exact hnbx hb⟩
  -- forward / backward
  have hfw : ∀ t e, w.sigs.get t = some e → ∃ e', W'.sigs.get t = some e' ∧ e'.name = e.name ∧
      geo e' = geo e ∧ e'.kind = e.kind ∧ (t ≠ x → e'.mx = e.mx) ∧
      e'.parentMux = (if t = s then none else e.parentMux) ∧
      e'.parentMsg = (if t = s ∨ Below w t s then none else e.parentMsg) := by
    intro t e he
    by_cases hts : t = s
    · subst hts
      rw [hs] at he; cases he
      exact ⟨_, c2, rfl, rfl, rfl, fun _ => rfl, by simp, by simp⟩
    · by_cases htx : t = x
      · subst htx
        rw [hx] at he; cases he
        exact ⟨_, c1, rfl, rfl, rfl, fun hh => absurd rfl hh, by simp [hts], by simp [hts, hnbx]⟩
      · by_cases hb : Below w t s
        · refine ⟨{ e with parentMsg := none }, by rw [c3 t hb, he]; rfl, rfl, rfl, rfl, fun _ => rfl, by simp [hts], by simp [hb]⟩
        · exact ⟨e, by rw [c4 t htx hts hb]; exact he, rfl, rfl, rfl, fun _ => rfl, by simp [hts], by simp [hts, hb]⟩
  have hbw : ∀ t e', W'.sigs.get t = some e' → ∃ e, w.sigs.get t = some e := by
    intro t e' ht
    by_cases hts : t = s
    · exact ⟨se, by rw [hts]; exact hs⟩
    · by_cases htx : t = x
      · exact ⟨xe, by rw [htx]; exact hx⟩
      · by_cases hb : Below w t s
        · obtain ⟨e, he, _⟩ := hbf t hb; exact ⟨e, he⟩
        · rw [c4 t htx hts hb] at ht; exact ⟨e', ht⟩
  have hnameW : ∀ t, nameOf W' t = nameOf w t := by
    intro t
    cases hg : w.sigs.get t with
    | none =>
      have : W'.sigs.get t = none := by
        cases hg' : W'.sigs.get t with
        | none => rfl
        | some e' => obtain ⟨e, he⟩ := hbw t e' hg'; rw [hg] at he; cases he
      simp [nameOf, hg, this]
    | some e =>
      obtain ⟨e', he', hn, _⟩ := hfw t e hg
      simp [nameOf, hg, he', hn]
  have hgeoW : ∀ g : List Nat, (∀ i ∈ g, (w.sigs.get i).isSome) → slotsOf W' g = slotsOf w g := by
    intro g hg
    apply slotsOf_congr
    intro i hi
    have := hg i hi
    cases he : w.sigs.get i with
    | none => rw [he] at this; simp at this
    | some e =>
      obtain ⟨e', he', _, hgeo, _⟩ := hfw i e he
      simp [he', hgeo]
  have hmsgdom : ∀ m, (w.msgs.get m).isSome → (W'.msgs.get m).isSome := by
    intro m hm
    cases hp : xe.parentMsg with
    | none => rw [c5 hp]; exact hm
    | some m0 =>
      obtain ⟨msg, ks, D, _, _, _, hj⟩ := c6 m0 hp
      rw [hj]
      by_cases hmm : m = m0 <;> simp [hmm, hm]
  apply InvCore.of_parts
  · -- multiplexers
    intro y ye' gc' gs' hy hky
    by_cases hyx : y = x
    · subst hyx
      rw [c1] at hy
      simp only [Option.some.injEq] at hy
      subst hy
      have hk' : xe.kind = .mux gc' gs' := hky
      rw [hk] at hk'
      simp only [SKind.mux.injEq] at hk'
      obtain ⟨rfl, rfl⟩ := hk'
      have hgrp : ∀ g', g' ∈ mx'.groups → ∃ g, g ∈ xe.mx.groups ∧ g' = sDel g s := by
        intro g' hg'
        obtain ⟨j, hj, hjg⟩ := mem_getD mx'.groups [] g' hg'
        rw [hG.2] at hjg
        exact ⟨_, getD_mem xe.mx.groups j [] (by rw [← hG.1]; exact hj), hjg.symm⟩
      refine ⟨⟨by show mx'.groups.length = _; rw [hG.1]; exact hxo.shape.1, hxo.shape.2.1, hxo.shape.2.2⟩,
        ?_, ?_, ?_, ?_, ?_, ?_, ?_, ?_, ?_, ?_, by show mx'.signals.Nodup; rw [hS]; exact nodup_sDel _ _ hxo.sigsNodup⟩
      · intro g' hg'
        obtain ⟨g, hg, rfl⟩ := hgrp g' hg'
        have hst : ∀ i ∈ g, (w.sigs.get i).isSome := by
          intro i hi; obtain ⟨e, he, _⟩ := hxo.mem_stored hg hi; simp [he]
        rw [hgeoW _ (fun i hi => hst i ((mem_sDel _ _ _).mp hi).1), slotsOf_sDel w g s hst]
        exact (remove_wf _ _ (hxo.wf g hg) s).1
      · intro g' hg'
        obtain ⟨g, hg, rfl⟩ := hgrp g' hg'
        exact nodup_sDel _ _ (hxo.nodup g hg)
      · intro t ht g' hg'
        obtain ⟨g, hg, rfl⟩ := hgrp g' hg'
        obtain ⟨h1, h2⟩ := (hF t).mp ht
        exact (mem_sDel _ _ _).mpr ⟨hxo.fixedEv t h1 g hg, h2⟩
      · intro t gids ht
        have ht' : mx'.groupIds.get t = some gids := ht
        rw [hI] at ht'
        by_cases hts : t = s
        · rw [if_pos hts] at ht'; cases ht'
        · rw [if_neg hts] at ht'
          obtain ⟨a1, a2, a3, a4⟩ := hxo.listed t gids ht'
          refine ⟨a1, a2, a3, ?_⟩
          intro k hk'
          show t ∈ mx'.groups.getD k [] ↔ _
          rw [hG.2, mem_sDel, ← a4 k hk']
          simp [hts]
      · intro t hnf hnl g' hg'
        obtain ⟨g, hg, rfl⟩ := hgrp g' hg'
        rw [mem_sDel]
        rintro ⟨htg, hts⟩
        have hnf' : t ∉ xe.mx.fixed := fun hh => hnf ((hF t).mpr ⟨hh, hts⟩)
        have hnl' : xe.mx.groupIds.get t = none := by
          have : mx'.groupIds.get t = none := hnl
          rw [hI, if_neg hts] at this; exact this
        exact hxo.neither t hnf' hnl' g hg htg
      · intro t
        show t ∈ mx'.signals ↔ (t ∈ mx'.fixed ∨ (mx'.groupIds.get t).isSome)
        rw [hS, mem_sDel, hF, hI, hxo.split]
        by_cases hts : t = s
        · simp [hts]
        · simp [hts]
      · intro t ht
        show mx'.groupIds.get t = none
        obtain ⟨h1, h2⟩ := (hF t).mp ht
        rw [hI, if_neg h2]
        exact hxo.disj t h1
      · intro t
        show t ∈ mx'.signals ↔ _
        rw [hS, mem_sDel, hxo.child]
        constructor
        · rintro ⟨⟨e, he, hp⟩, hts⟩
          obtain ⟨e', he', _, _, _, _, hp', _⟩ := hfw t e he
          exact ⟨e', he', by rw [hp', if_neg hts, hp]⟩
        · rintro ⟨e', he', hp⟩
          have hts : t ≠ s := by
            rintro rfl
            rw [c2] at he'; cases he'; cases hp
          obtain ⟨e, he⟩ := hbw t e' he'
          obtain ⟨e'', he'', _, _, _, _, hp', _⟩ := hfw t e he
          rw [he'] at he''; cases he''
          rw [if_neg hts] at hp'
          exact ⟨⟨e, he, by rw [← hp', hp]⟩, hts⟩
      · show KeysNodup mx'.signalNames
        rw [hN]; exact keysNodup_nmDel _ _ hxo.namesNodup
      · intro n i
        show (n, i) ∈ mx'.signalNames ↔ i ∈ mx'.signals ∧ _
        rw [hN, hS, mem_nmDel, mem_sDel, hxo.names, hnameW]
        have hsn : nameOf w s = se.name := by simp [nameOf, hs]
        have hsch : s ∈ xe.mx.signals := (hxo.child s).mpr ⟨se, hs, hsx⟩
        constructor
        · rintro ⟨⟨hi, hn⟩, hne⟩
          refine ⟨⟨hi, ?_⟩, hn⟩
          rintro rfl
          simp only at hne
          exact hne (by rw [← hn, hsn])
        · rintro ⟨⟨hi, his⟩, hn⟩
          refine ⟨⟨hi, hn⟩, ?_⟩
          simp only
          intro hne
          apply his
          have h1 : (se.name, i) ∈ xe.mx.signalNames := (hxo.names _ _).mpr ⟨hi, by rw [hn, hne]⟩
          have h2 : (se.name, s) ∈ xe.mx.signalNames := (hxo.names _ _).mpr ⟨hsch, hsn⟩
          have e1 := (nmGet_eq_some_iff _ hxo.namesNodup _ _).mpr h1
          have e2 := (nmGet_eq_some_iff _ hxo.namesNodup _ _).mpr h2
          rw [e1] at e2
          exact Option.some.inj e2
    · obtain ⟨ye, hye⟩ := hbw y ye' hy
      obtain ⟨ye'', hy'', _, _, hkind, hmx, _⟩ := hfw y ye hye
      rw [hy] at hy''; cases hy''
      have hyo := h.muxOK hye (by rw [← hkind]; exact hky)
      apply hyo.frame (hmx hyx)
      · intro t ht
        obtain ⟨e, he, hp⟩ := (hyo.child t).mp ht
        have hts : t ≠ s := by
          rintro rfl
          rw [hs] at he; cases he; rw [hsx] at hp; cases hp; exact hyx rfl
        obtain ⟨e', he', a1, a2, _, _, a5, _⟩ := hfw t e he
        exact ⟨e, e', he, he', a1, by rw [a5, if_neg hts], a2⟩
      · intro t e' he' hp
        have hts : t ≠ s := by
          rintro rfl
          rw [c2] at he'; cases he'; cases hp
        obtain ⟨e, he⟩ := hbw t e' he'
        obtain ⟨e'', he'', _, _, _, _, a5, _⟩ := hfw t e he
        rw [he'] at he''; cases he''
        rw [if_neg hts] at a5
        exact (hyo.child t).mpr ⟨e, he, by rw [← a5, hp]⟩
  · -- messages
    intro j msg' hj
    have hframe : ∀ (msg : MsgE), w.msgs.get j = some msg → xe.parentMsg ≠ some j → MsgOK W' j msg := by
      intro msg hjm hne
      have hmo := h.msgOK hjm
      have hnot : ∀ t e, w.sigs.get t = some e → e.parentMsg = some j → ¬ (t = s ∨ Below w t s) := by
        intro t e he hp hor
        rcases hor with rfl | hb
        · rw [hs] at he; cases he; rw [← hpmeq] at hp; exact hne hp
        · obtain ⟨e0, he0, a1, _⟩ := hbf t hb
          rw [he] at he0; cases he0; rw [a1] at hp; exact hne hp
      apply hmo.frame
      · intro t ht
        obtain ⟨e, he, hp⟩ := (hmo.reg t).mp ht
        have hn := hnot t e he hp
        have hts : t ≠ s := fun hh => hn (Or.inl hh)
        obtain ⟨e', he', a1, a2, _, _, a5, a6⟩ := hfw t e he
        exact ⟨e, e', he, he', ⟨a1, by rw [a5, if_neg hts], by rw [a6, if_neg hn]⟩, a2⟩
      · intro t e' he' hp
        obtain ⟨e, he⟩ := hbw t e' he'
        obtain ⟨e'', he'', _, _, _, _, _, a6⟩ := hfw t e he
        rw [he'] at he''; cases he''
        by_cases hor : t = s ∨ Below w t s
        · rw [if_pos hor] at a6; rw [a6] at hp; cases hp
        · rw [if_neg hor] at a6
          exact (hmo.reg t).mpr ⟨e, he, by rw [← a6, hp]⟩
    by_cases hpj : xe.parentMsg = some j
    · obtain ⟨msg, ks, D, hmsg, hD, hks, hget⟩ := c6 j hpj
      rw [hget, if_pos rfl] at hj
      simp only [Option.some.injEq] at hj
      subst hj
      have hmo := h.msgOK hmsg
      have hsej : se.parentMsg = some j := by rw [← hpmeq, hpj]
      have hstl : ∀ i ∈ msg.layout, (w.sigs.get i).isSome := by
        intro i hi; obtain ⟨e, he, _⟩ := (hmo.top i).mp hi; simp [he]
      obtain ⟨r1, r2, r3⟩ := registry_del w W' j msg hmo (s :: D) ks
        (by
          intro t ht
          simp only [List.mem_cons] at ht
          rcases ht with rfl | ht
          · exact (hmo.reg t).mpr ⟨se, hs, hsej⟩
          · obtain ⟨e, he, a1, _⟩ := hbf t ((hD t).mp ht)
            exact (hmo.reg t).mpr ⟨e, he, by rw [a1, hpj]⟩)
        (by
          intro t ht e' he' hp
          have hor : t = s ∨ Below w t s := by
            simp only [List.mem_cons] at ht
            rcases ht with rfl | ht
            · exact Or.inl rfl
            · exact Or.inr ((hD t).mp ht)
          obtain ⟨e, he⟩ := hbw t e' he'
          obtain ⟨e'', he'', _, _, _, _, _, a6⟩ := hfw t e he
          rw [he'] at he''; cases he''
          rw [if_pos hor] at a6; rw [a6] at hp; cases hp)
        (by
          intro t ht
          have hor : ¬ (t = s ∨ Below w t s) := by
            simp only [List.mem_cons, not_or] at ht
            rintro (rfl | hb)
            · exact ht.1 rfl
            · exact ht.2 ((hD t).mpr hb)
          constructor
          · rintro ⟨e', he', hp⟩
            obtain ⟨e, he⟩ := hbw t e' he'
            obtain ⟨e'', he'', _, _, _, _, _, a6⟩ := hfw t e he
            rw [he'] at he''; cases he''
            rw [if_neg hor] at a6
            exact ⟨e, he, by rw [← a6, hp]⟩
          · rintro ⟨e, he, hp⟩
            obtain ⟨e', he', _, _, _, _, _, a6⟩ := hfw t e he
            exact ⟨e', he', by rw [a6, if_neg hor, hp]⟩)
        (fun t _ => hnameW t) hks
      refine ⟨hmo.cap, ?_, hmo.nodup, ?_, r1, r2, r3⟩
      · show WF msg.cap (slotsOf W' msg.layout)
        rw [hgeoW _ hstl]; exact hmo.wf
      · intro t
        show t ∈ msg.layout ↔ _
        rw [hmo.top]
        constructor
        · rintro ⟨e, he, hp1, hp2⟩
          have hts : t ≠ s := by rintro rfl; rw [hs] at he; cases he; rw [hsx] at hp1; cases hp1
          have hnb : ¬ Below w t s := by
            intro hb
            obtain ⟨e0, he0, _, a2, _⟩ := hbf t hb
            rw [he] at he0; cases he0; exact a2 hp1
          obtain ⟨e', he', _, _, _, _, a5, a6⟩ := hfw t e he
          exact ⟨e', he', by rw [a5, if_neg hts, hp1], by rw [a6, if_neg (by simp [hts, hnb]), hp2]⟩
        · rintro ⟨e', he', hp1, hp2⟩
          obtain ⟨e, he⟩ := hbw t e' he'
          obtain ⟨e'', he'', _, _, _, _, a5, a6⟩ := hfw t e he
          rw [he'] at he''; cases he''
          by_cases hor : t = s ∨ Below w t s
          · rw [if_pos hor] at a6; rw [a6] at hp2; cases hp2
          · rw [if_neg hor] at a6
            have hts : t ≠ s := fun hh => hor (Or.inl hh)
            rw [if_neg hts] at a5
            exact ⟨e, he, by rw [← a5, hp1], by rw [← a6, hp2]⟩
    · have hjw : w.msgs.get j = some msg' := by
        cases hp : xe.parentMsg with
        | none => rw [c5 hp] at hj; exact hj
        | some m0 =>
          obtain ⟨msg, ks, D, _, _, _, hget⟩ := c6 m0 hp
          rw [hget] at hj
          have : j ≠ m0 := by rintro rfl; exact hpj hp
          rw [if_neg this] at hj; exact hj
      exact hframe msg' hjw hpj
  · -- links
    intro t e' ht
    obtain ⟨e, he⟩ := hbw t e' ht
    obtain ⟨e'', he'', _, _, a4, _, a5, a6⟩ := hfw t e he
    rw [ht] at he''; cases he''
    have hl := h.linkOK he
    refine ⟨fun z hz => hl.size z (by rw [← a4]; exact hz), ?_, ?_⟩
    · intro p hp
      have hts : t ≠ s := by rintro rfl; rw [if_pos rfl] at a5; rw [a5] at hp; cases hp
      rw [if_neg hts] at a5
      have hp0 : e.parentMux = some p := by rw [← a5, hp]
      obtain ⟨pe, gc', gs', b1, b2, b3⟩ := hl.parent p hp0
      obtain ⟨pe', c1', _, _, c4', _, _, c7⟩ := hfw p pe b1
      refine ⟨pe', gc', gs', c1', by rw [c4']; exact b2, ?_⟩
      rw [c7, a6]
      have hiff := below_parent w t s e p he hp0
      by_cases hb : Below w t s
      · have := hiff.mp hb
        simp [hb, this]
      · have hnp : ¬ (p = s ∨ Below w p s) := fun hh => hb (hiff.mpr hh)
        simp [hts, hb, hnp, b3]
    · intro m hm
      rw [a6] at hm
      by_cases hor : t = s ∨ Below w t s
      · rw [if_pos hor] at hm; cases hm
      · rw [if_neg hor] at hm
        exact hmsgdom m (hl.msg m hm)
  · obtain ⟨depth, hd⟩ := h.acyclic
    refine ⟨depth, ?_⟩
    intro t e' p ht hp
    obtain ⟨e, he⟩ := hbw t e' ht
    obtain ⟨e'', he'', _, _, _, _, a5, _⟩ := hfw t e he
    rw [ht] at he''; cases he''
    have hts : t ≠ s := by rintro rfl; rw [if_pos rfl] at a5; rw [a5] at hp; cases hp
    rw [if_neg hts] at a5
    exact hd t e p he (by rw [← a5, hp])

theorem getD_ge {α : Type} (l : List α) (j : Nat) (d : α) (h : l.length ≤ j) : l.getD j d = d := by
  simp [List.getD_eq_getElem?_getD, List.getElem?_eq_none h]

theorem inv_muxRm (w : MW) (h : InvCore w) (x s : Nat) :
    InvCore (doMuxRm w x s).1 ∧ (doMuxRm w x s).2 ≠ .panic := by
  cases hx : w.sigs.get x with
  | none => simp only [doMuxRm, muxRemove, hx]; exact ⟨h, by simp⟩
  | some xe =>
    cases hk : xe.kind with
    | leaf z => simp only [doMuxRm, muxRemove, hx, hk]; exact ⟨h, by simp⟩
    | mux gc gs =>
      have hxo := h.muxOK hx hk
      by_cases hc : xe.mx.signals.contains s = true
      · have hsch : s ∈ xe.mx.signals := by simpa using hc
        obtain ⟨se, hs, hsx⟩ := (hxo.child s).mp hsch
        have hgeo : GroupsGeo w gs xe.mx.groups := by
          intro g hg
          refine ⟨hxo.wf g hg, ?_⟩
          intro i hi
          obtain ⟨e, he, _⟩ := hxo.mem_stored hg hi
          simp [he]
        have hgs0 : 0 ≤ gs := by have := hxo.shape.2.2; omega
        by_cases hfx : xe.mx.fixed.contains s = true
        · have hsf : s ∈ xe.mx.fixed := by simpa using hfx
          obtain ⟨r1, r2, r3⟩ := removeMany_spec w x xe gs hgs0 hx hgeo s (allGroups gc)
          generalize hrm : removeMany w x s (allGroups gc) = rm at r1 r2 r3
          obtain ⟨w1, b⟩ := rm
          simp only at r1 r2 r3
          subst r1
          simp only [doMuxRm, muxRemove, hx, hk, hc, hfx, hrm, Bool.not_true, Bool.false_eq_true, ↓reduceIte]
          obtain ⟨c1, c2, c3, c4, c5, c6⟩ := rmTail_spec w h x s xe se gc gs hx hk hs hsx w1 _ r2 r3
            (fun d => { d with fixed := sDel d.fixed s })
          refine ⟨?_, by simp⟩
          refine inv_rm w h x s xe se gc gs hx hk hs hsx (rmTail w1 x s (fun d => { d with fixed := sDel d.fixed s }))
            { xe.mx with groups := delMany xe.mx.groups s (allGroups gc), fixed := sDel xe.mx.fixed s, signals := sDel xe.mx.signals s, signalNames := nmDel xe.mx.signalNames se.name }
            ?_ ?_ ?_ rfl rfl c1 c2 c3 c4 c5 c6
          · refine ⟨delMany_length _ _ _, ?_⟩
            intro j
            show (delMany xe.mx.groups s (allGroups gc)).getD j [] = _
            rw [delMany_getD]
            by_cases hj : j ∈ allGroups gc
            · rw [if_pos hj]
            · rw [if_neg hj]
              have : xe.mx.groups.length ≤ j := by
                rw [hxo.shape.1]
                simp only [allGroups, List.mem_range, Nat.not_lt] at hj
                exact hj
              rw [getD_ge _ _ _ this]
              rfl
          · intro t
            show t ∈ sDel xe.mx.fixed s ↔ _
            rw [mem_sDel]
          · intro t
            show xe.mx.groupIds.get t = _
            by_cases hts : t = s
            · rw [if_pos hts, hts]; exact hxo.disj s hsf
            · rw [if_neg hts]
        · have hsnf : s ∉ xe.mx.fixed := by
            intro hh; apply hfx; simpa using hh
          cases hl : xe.mx.groupIds.get s with
          | none =>
            exfalso
            rcases (hxo.split s).mp hsch with hh | hh
            · exact hsnf hh
            · rw [hl] at hh; simp at hh
          | some ids =>
            obtain ⟨l1, l2, l3, l4⟩ := hxo.listed s ids hl
            obtain ⟨r1, r2, r3⟩ := removeMany_spec w x xe gs hgs0 hx hgeo s (ids.map Int.toNat)
            generalize hrm : removeMany w x s (ids.map Int.toNat) = rm at r1 r2 r3
            obtain ⟨w1, b⟩ := rm
            simp only at r1 r2 r3
            subst r1
            simp only [doMuxRm, muxRemove, hx, hk, hc, hfx, hl, hrm, Bool.not_true, Bool.false_eq_true, ↓reduceIte]
            obtain ⟨c1, c2, c3, c4, c5, c6⟩ := rmTail_spec w h x s xe se gc gs hx hk hs hsx w1 _ r2 r3
              (fun d => { d with groupIds := d.groupIds.erase s })
            refine ⟨?_, by simp⟩
            refine inv_rm w h x s xe se gc gs hx hk hs hsx (rmTail w1 x s (fun d => { d with groupIds := d.groupIds.erase s }))
              { xe.mx with groups := delMany xe.mx.groups s (ids.map Int.toNat), groupIds := xe.mx.groupIds.erase s, signals := sDel xe.mx.signals s, signalNames := nmDel xe.mx.signalNames se.name }
              ?_ ?_ ?_ rfl rfl c1 c2 c3 c4 c5 c6
            · refine ⟨delMany_length _ _ _, ?_⟩
              intro j
              show (delMany xe.mx.groups s (ids.map Int.toNat)).getD j [] = _
              rw [delMany_getD]
              by_cases hj : j ∈ ids.map Int.toNat
              · rw [if_pos hj]
              · rw [if_neg hj]
                by_cases hlt : j < xe.mx.groups.length
                · have hns : s ∉ xe.mx.groups.getD j [] := by
                    intro hmem
                    have := (l4 j (by rw [← hxo.shape.1]; exact hlt)).mp hmem
                    apply hj
                    exact List.mem_map.mpr ⟨(j : Int), this, by simp⟩
                  rw [sDel_of_not_mem _ _ hns]
                · rw [getD_ge _ _ _ (Nat.le_of_not_lt hlt)]
                  rfl
            · intro t
              show t ∈ xe.mx.fixed ↔ _
              constructor
              · intro ht; exact ⟨ht, by rintro rfl; exact hsnf ht⟩
              · exact fun hh => hh.1
            · intro t
              show (xe.mx.groupIds.erase s).get t = _
              exact AMap_get_erase _ _ _
      · simp only [doMuxRm, muxRemove, hx, hk, hc, Bool.not_false, ↓reduceIte]
        exact ⟨h, by simp⟩

theorem inv_msgRm (w : MW) (h : InvCore w) (m s : Nat) :
    InvCore (doMsgRm w m s).1 ∧ (doMsgRm w m s).2 ≠ .panic := by
  cases hm : w.msgs.get m with
  | none => simp only [doMsgRm, hm]; exact ⟨h, by simp⟩
  | some msg =>
    by_cases hc : msg.signals.contains s = true
    · cases hs : w.sigs.get s with
      | none => simp only [doMsgRm, hm, hc, hs, Bool.not_true, Bool.false_eq_true, ↓reduceIte]; exact ⟨h, by simp⟩
      | some se =>
        cases hp : se.parentMux with
        | some x =>
          simp only [doMsgRm, hm, hc, hs, hp, Bool.not_true, Bool.false_eq_true, ↓reduceIte]
          exact inv_muxRm w h x s
        | none =>
          obtain ⟨i1, i2⟩ := inv_msgDetachTop w h m s msg se hm hs (by simpa using hc) hp
          simp only [doMsgRm, hm, hc, hs, hp, i2, Bool.not_true, Bool.false_eq_true, ↓reduceIte]
          exact ⟨i1, by simp⟩
    · simp only [doMsgRm, hm, hc, Bool.not_false, ↓reduceIte]
      exact ⟨h, by simp⟩

end Acme.Mux
