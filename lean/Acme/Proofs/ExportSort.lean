/-
C11 at message level, part 3: the stable sort of the importer commutes with filters and maps;
what `exportMessage` writes for a list of top-level items.
-/
import Acme.Spec.ExportImport
import Acme.Proofs.ExportMux

namespace Acme.Import
open Acme.Layout Acme.Conv Acme.Arith

/-! ### `sortBy` -/

theorem insBy_perm {α : Type} (key : α → Nat) (x : α) : ∀ l : List α, (insBy key x l).Perm (x :: l)
  | [] => List.Perm.refl _
  | y :: r => by
    simp only [insBy]
    split
    · exact List.Perm.refl _
    · exact (List.Perm.cons y (insBy_perm key x r)).trans (List.Perm.swap x y r)

theorem insBy_sorted {α : Type} (key : α → Nat) (x : α) : ∀ l : List α,
    l.Pairwise (fun a b => key a ≤ key b) → (insBy key x l).Pairwise (fun a b => key a ≤ key b)
  | [], _ => by simp [insBy]
  | y :: r, h => by
    simp only [insBy]
    split
    · rename_i hxy
      refine List.Pairwise.cons ?_ h
      intro b hb
      rcases List.mem_cons.1 hb with rfl | hb
      · exact hxy
      · exact Nat.le_trans hxy ((List.pairwise_cons.1 h).1 b hb)
    · rename_i hxy
      refine List.Pairwise.cons ?_ (insBy_sorted key x r (List.pairwise_cons.1 h).2)
      intro b hb
      rcases List.mem_cons.1 ((insBy_perm key x r).mem_iff.1 hb) with rfl | hb
      · omega
      · exact (List.pairwise_cons.1 h).1 b hb

theorem sortBy_sorted {α : Type} (key : α → Nat) : ∀ l : List α,
    (sortBy key l).Pairwise (fun a b => key a ≤ key b)
  | [] => List.Pairwise.nil
  | x :: r => insBy_sorted key x _ (sortBy_sorted key r)

theorem insBy_map {α β : Type} (f : β → α) (key : α → Nat) (x : β) : ∀ l : List β,
    insBy key (f x) (l.map f) = (insBy (key ∘ f) x l).map f
  | [] => rfl
  | y :: r => by
    simp only [insBy, List.map_cons, Function.comp]
    split
    · rfl
    · rw [List.map_cons, insBy_map f key x r]

theorem sortBy_map {α β : Type} (f : β → α) (key : α → Nat) : ∀ l : List β,
    sortBy key (l.map f) = (sortBy (key ∘ f) l).map f
  | [] => rfl
  | x :: r => by
    simp only [sortBy, List.map_cons]
    rw [sortBy_map f key r, insBy_map]

theorem insBy_head {α : Type} (key : α → Nat) (x : α) : ∀ l : List α, (∀ b ∈ l, key x ≤ key b) →
    insBy key x l = x :: l
  | [], _ => rfl
  | y :: r, h => by
    simp only [insBy]
    rw [if_pos (h y (List.mem_cons_self ..))]

theorem filter_insBy {α : Type} (key : α → Nat) (p : α → Bool) (x : α) : ∀ L : List α,
    L.Pairwise (fun a b => key a ≤ key b) →
    (insBy key x L).filter p = if p x then insBy key x (L.filter p) else L.filter p
  | [], _ => by
    simp only [insBy, List.filter_cons, List.filter_nil]
  | y :: r, h => by
    have hr := (List.pairwise_cons.1 h).2
    have hy := (List.pairwise_cons.1 h).1
    simp only [insBy]
    by_cases hxy : key x ≤ key y
    · rw [if_pos hxy, List.filter_cons]
      by_cases hpx : p x = true
      · rw [if_pos hpx, if_pos hpx]
        rw [insBy_head key x]
        intro b hb
        have hb' := (List.mem_filter.1 hb).1
        rcases List.mem_cons.1 hb' with rfl | hb'
        · exact hxy
        · exact Nat.le_trans hxy (hy b hb')
      · rw [if_neg hpx, if_neg hpx]
    · rw [if_neg hxy, List.filter_cons, filter_insBy key p x r hr]
      by_cases hpy : p y = true
      · rw [if_pos hpy]
        by_cases hpx : p x = true
        · rw [if_pos hpx, if_pos hpx, List.filter_cons, if_pos hpy]
          simp only [insBy, if_neg hxy]
        · rw [if_neg hpx, if_neg hpx, List.filter_cons, if_pos hpy]
      · rw [if_neg hpy, List.filter_cons, if_neg hpy]

theorem filter_sortBy {α : Type} (key : α → Nat) (p : α → Bool) : ∀ l : List α,
    (sortBy key l).filter p = sortBy key (l.filter p)
  | [] => rfl
  | x :: r => by
    simp only [sortBy]
    rw [filter_insBy key p x _ (sortBy_sorted key r), filter_sortBy key p r, List.filter_cons]
    split
    · rfl
    · rfl

/-! ### what `exportMessage` writes -/

def leafSig (be : Bool) (l : Leaf) : DSig :=
  { name := l.name, start := fileStart be l.start, size := l.size.toNat, bigEndian := be }

def itemSigs (be : Bool) : Item → List DSig
  | .sig l => [leafSig be l]
  | .mux n => muxSigOf be n :: (seenChildren n).map (kidSig be n)

def itemExts : Item → List DExt
  | .sig _ => []
  | .mux n => extsOf n

theorem exportItems_eq (be : Bool) : ∀ top : List Item,
    exportItems be top = (top.flatMap (itemSigs be), top.flatMap itemExts)
  | [] => rfl
  | .sig l :: r => by
    simp only [exportItems, exportItems_eq be r, exportItem, List.flatMap_cons, itemSigs, itemExts, leafSig]
  | .mux n :: r => by
    simp only [exportItems, exportItems_eq be r, exportItem, exportMux_eq, List.flatMap_cons, itemSigs, itemExts]

theorem sigs_filter_mux (be : Bool) : ∀ top : List Item,
    (top.flatMap (itemSigs be)).filter (·.isMultiplexor) = (muxesOf top).map (muxSigOf be)
  | [] => rfl
  | .sig l :: r => by
    simp only [List.flatMap_cons, itemSigs, List.filter_append, muxesOf, sigs_filter_mux be r]
    rfl
  | .mux n :: r => by
    simp only [List.flatMap_cons, itemSigs, List.filter_append, muxesOf, sigs_filter_mux be r, List.map_cons]
    have : ((seenChildren n).map (kidSig be n)).filter (·.isMultiplexor) = [] := by
      apply List.filter_eq_nil_iff.2
      intro s hs
      obtain ⟨p, _, rfl⟩ := List.mem_map.1 hs
      simp [kidSig]
    simp only [List.filter_cons, this]
    rfl

theorem sigs_filter_kids (be : Bool) : ∀ top : List Item,
    (top.flatMap (itemSigs be)).filter (fun s => !s.isMultiplexor && s.isMultiplexed) =
      (muxesOf top).flatMap (fun n => (seenChildren n).map (kidSig be n))
  | [] => rfl
  | .sig l :: r => by
    simp only [List.flatMap_cons, itemSigs, List.filter_append, muxesOf, sigs_filter_kids be r]
    rfl
  | .mux n :: r => by
    simp only [List.flatMap_cons, itemSigs, List.filter_append, muxesOf, sigs_filter_kids be r]
    have : ((seenChildren n).map (kidSig be n)).filter (fun s => !s.isMultiplexor && s.isMultiplexed) =
        (seenChildren n).map (kidSig be n) := by
      apply List.filter_eq_self.2
      intro s hs
      obtain ⟨p, _, rfl⟩ := List.mem_map.1 hs
      simp [kidSig]
    simp only [List.filter_cons, this]
    rfl

theorem sigs_filter_leaves (be : Bool) : ∀ top : List Item,
    (top.flatMap (itemSigs be)).filter (fun s => !s.isMultiplexor && !s.isMultiplexed) =
      (leavesOf top).map (leafSig be)
  | [] => rfl
  | .sig l :: r => by
    simp only [List.flatMap_cons, itemSigs, List.filter_append, leavesOf, sigs_filter_leaves be r, List.map_cons]
    rfl
  | .mux n :: r => by
    simp only [List.flatMap_cons, itemSigs, List.filter_append, leavesOf, sigs_filter_leaves be r]
    have : ((seenChildren n).map (kidSig be n)).filter (fun s => !s.isMultiplexor && !s.isMultiplexed) = [] := by
      apply List.filter_eq_nil_iff.2
      intro s hs
      obtain ⟨p, _, rfl⟩ := List.mem_map.1 hs
      simp [kidSig]
    simp only [List.filter_cons, this]
    rfl

theorem top_perm_split : ∀ top : List Item,
    top.Perm ((leavesOf top).map Item.sig ++ (muxesOf top).map Item.mux)
  | [] => List.Perm.refl _
  | .sig l :: r => by
    simp only [leavesOf, muxesOf, List.map_cons, List.cons_append]
    exact List.Perm.cons _ (top_perm_split r)
  | .mux n :: r => by
    simp only [leavesOf, muxesOf, List.map_cons]
    exact (List.Perm.cons _ (top_perm_split r)).trans List.perm_middle.symm

theorem mem_muxesOf (top : List Item) (n : MuxNode) : n ∈ muxesOf top ↔ Item.mux n ∈ top := by
  induction top with
  | nil => simp [muxesOf]
  | cons x r ih =>
    cases x with
    | sig l => simp [muxesOf, ih]
    | mux m => simp [muxesOf, ih]

theorem mem_leavesOf (top : List Item) (l : Leaf) : l ∈ leavesOf top ↔ Item.sig l ∈ top := by
  induction top with
  | nil => simp [leavesOf]
  | cons x r ih =>
    cases x with
    | sig l' => simp [leavesOf, ih]
    | mux m => simp [leavesOf, ih]

end Acme.Import
