/-
C08, parse-then-write-then-parse, part 3: the document the parser returns on a scanner-image
token list is well formed (`DbcWFParsed`) and its attribute values are in parser-normal form; with
`parse_write` this gives the idempotence theorem.
-/
import Acme.Proofs.DbcSat2
import Acme.Proofs.DbcMain

set_option linter.unusedSimpArgs false
set_option linter.unusedVariables false

namespace Acme.Dbc

/-- `retag` is the identity on the attribute defaults / values -/
def RetagFixed (hex : Bool) (f : File) : Prop :=
  (∀ d ∈ f.attributeDefaults, retag hex d.val = d.val) ∧
  (∀ v ∈ f.attributeValues, retag hex v.val = v.val)

/-- the invariant of the top-level loop on scanner-image token lists -/
def Inv (hex : Bool) (ast : File) : Prop := fileOK acc ast = true ∧ RetagFixed hex ast

theorem Inv.empty (hex : Bool) : Inv hex {} := by
  refine ⟨by decide, ?_, ?_⟩ <;> intro _ h <;> cases h

theorem Inv.valueTables {hex : Bool} {ast : File} {x : ValueTable} (h : Inv hex ast) (hx : valueTableOK x = true) :
    Inv hex { ast with valueTables := ast.valueTables ++ [x] } := by
  obtain ⟨hf, hn⟩ := h
  refine ⟨?_, hn⟩
  simp only [fileOK, Bool.and_eq_true, List.all_append, List.all_cons, List.all_nil,
    Bool.and_true] at hf ⊢
  simp only [hf, hx, and_self]

theorem Inv.messages {hex : Bool} {ast : File} {x : Message} (h : Inv hex ast) (hx : messageOK acc x = true) :
    Inv hex { ast with messages := ast.messages ++ [x] } := by
  obtain ⟨hf, hn⟩ := h
  refine ⟨?_, hn⟩
  simp only [fileOK, Bool.and_eq_true, List.all_append, List.all_cons, List.all_nil,
    Bool.and_true] at hf ⊢
  simp only [hf, hx, and_self]

theorem Inv.messageTransmitters {hex : Bool} {ast : File} {x : MessageTransmitter} (h : Inv hex ast) (hx : messageTransmitterOK x = true) :
    Inv hex { ast with messageTransmitters := ast.messageTransmitters ++ [x] } := by
  obtain ⟨hf, hn⟩ := h
  refine ⟨?_, hn⟩
  simp only [fileOK, Bool.and_eq_true, List.all_append, List.all_cons, List.all_nil,
    Bool.and_true] at hf ⊢
  simp only [hf, hx, and_self]

theorem Inv.envVars {hex : Bool} {ast : File} {x : EnvVar} (h : Inv hex ast) (hx : envVarOK acc x = true) :
    Inv hex { ast with envVars := ast.envVars ++ [x] } := by
  obtain ⟨hf, hn⟩ := h
  refine ⟨?_, hn⟩
  simp only [fileOK, Bool.and_eq_true, List.all_append, List.all_cons, List.all_nil,
    Bool.and_true] at hf ⊢
  simp only [hf, hx, and_self]

theorem Inv.envVarDatas {hex : Bool} {ast : File} {x : EnvVarData} (h : Inv hex ast) (hx : envVarDataOK x = true) :
    Inv hex { ast with envVarDatas := ast.envVarDatas ++ [x] } := by
  obtain ⟨hf, hn⟩ := h
  refine ⟨?_, hn⟩
  simp only [fileOK, Bool.and_eq_true, List.all_append, List.all_cons, List.all_nil,
    Bool.and_true] at hf ⊢
  simp only [hf, hx, and_self]

theorem Inv.signalTypes {hex : Bool} {ast : File} {x : SignalType} (h : Inv hex ast) (hx : signalTypeOK acc x = true) :
    Inv hex { ast with signalTypes := ast.signalTypes ++ [x] } := by
  obtain ⟨hf, hn⟩ := h
  refine ⟨?_, hn⟩
  simp only [fileOK, Bool.and_eq_true, List.all_append, List.all_cons, List.all_nil,
    Bool.and_true] at hf ⊢
  simp only [hf, hx, and_self]

theorem Inv.comments {hex : Bool} {ast : File} {x : Comment} (h : Inv hex ast) (hx : commentOK x = true) :
    Inv hex { ast with comments := ast.comments ++ [x] } := by
  obtain ⟨hf, hn⟩ := h
  refine ⟨?_, hn⟩
  simp only [fileOK, Bool.and_eq_true, List.all_append, List.all_cons, List.all_nil,
    Bool.and_true] at hf ⊢
  simp only [hf, hx, and_self]

theorem Inv.attributes {hex : Bool} {ast : File} {x : Attribute} (h : Inv hex ast) (hx : attributeOK acc x = true) :
    Inv hex { ast with attributes := ast.attributes ++ [x] } := by
  obtain ⟨hf, hn⟩ := h
  refine ⟨?_, hn⟩
  simp only [fileOK, Bool.and_eq_true, List.all_append, List.all_cons, List.all_nil,
    Bool.and_true] at hf ⊢
  simp only [hf, hx, and_self]

theorem Inv.valueEncodings {hex : Bool} {ast : File} {x : ValueEncoding} (h : Inv hex ast) (hx : valueEncodingOK x = true) :
    Inv hex { ast with valueEncodings := ast.valueEncodings ++ [x] } := by
  obtain ⟨hf, hn⟩ := h
  refine ⟨?_, hn⟩
  simp only [fileOK, Bool.and_eq_true, List.all_append, List.all_cons, List.all_nil,
    Bool.and_true] at hf ⊢
  simp only [hf, hx, and_self]

theorem Inv.signalTypeRefs {hex : Bool} {ast : File} {x : SignalTypeRef} (h : Inv hex ast) (hx : signalTypeRefOK x = true) :
    Inv hex { ast with signalTypeRefs := ast.signalTypeRefs ++ [x] } := by
  obtain ⟨hf, hn⟩ := h
  refine ⟨?_, hn⟩
  simp only [fileOK, Bool.and_eq_true, List.all_append, List.all_cons, List.all_nil,
    Bool.and_true] at hf ⊢
  simp only [hf, hx, and_self]

theorem Inv.signalGroups {hex : Bool} {ast : File} {x : SignalGroup} (h : Inv hex ast) (hx : signalGroupOK x = true) :
    Inv hex { ast with signalGroups := ast.signalGroups ++ [x] } := by
  obtain ⟨hf, hn⟩ := h
  refine ⟨?_, hn⟩
  simp only [fileOK, Bool.and_eq_true, List.all_append, List.all_cons, List.all_nil,
    Bool.and_true] at hf ⊢
  simp only [hf, hx, and_self]

theorem Inv.signalExtValueTypes {hex : Bool} {ast : File} {x : SignalExtValueType} (h : Inv hex ast) (hx : signalExtValueTypeOK x = true) :
    Inv hex { ast with signalExtValueTypes := ast.signalExtValueTypes ++ [x] } := by
  obtain ⟨hf, hn⟩ := h
  refine ⟨?_, hn⟩
  simp only [fileOK, Bool.and_eq_true, List.all_append, List.all_cons, List.all_nil,
    Bool.and_true] at hf ⊢
  simp only [hf, hx, and_self]

theorem Inv.extendedMuxes {hex : Bool} {ast : File} {x : ExtendedMux} (h : Inv hex ast) (hx : extendedMuxOK x = true) :
    Inv hex { ast with extendedMuxes := ast.extendedMuxes ++ [x] } := by
  obtain ⟨hf, hn⟩ := h
  refine ⟨?_, hn⟩
  simp only [fileOK, Bool.and_eq_true, List.all_append, List.all_cons, List.all_nil,
    Bool.and_true] at hf ⊢
  simp only [hf, hx, and_self]

theorem Inv.attributeDefaults {hex : Bool} {ast : File} {x : AttributeDefault} (h : Inv hex ast)
    (hx : attributeDefaultOK acc x = true ∧ retag hex x.val = x.val) :
    Inv hex { ast with attributeDefaults := ast.attributeDefaults ++ [x] } := by
  obtain ⟨hf, hd, hv⟩ := h
  refine ⟨?_, ?_, hv⟩
  · simp only [fileOK, Bool.and_eq_true, List.all_append, List.all_cons, List.all_nil,
      Bool.and_true] at hf ⊢
    simp only [hf, hx.1, and_self]
  · intro d hmem
    simp only [List.mem_append, List.mem_singleton] at hmem
    cases hmem with
    | inl h => exact hd d h
    | inr h => rw [h]; exact hx.2

theorem Inv.attributeValues {hex : Bool} {ast : File} {x : AttributeValue} (h : Inv hex ast)
    (hx : attributeValueOK acc x = true ∧ retag hex x.val = x.val) :
    Inv hex { ast with attributeValues := ast.attributeValues ++ [x] } := by
  obtain ⟨hf, hd, hv⟩ := h
  refine ⟨?_, hd, ?_⟩
  · simp only [fileOK, Bool.and_eq_true, List.all_append, List.all_cons, List.all_nil,
      Bool.and_true] at hf ⊢
    simp only [hf, hx.1, and_self]
  · intro d hmem
    simp only [List.mem_append, List.mem_singleton] at hmem
    cases hmem with
    | inl h => exact hv d h
    | inr h => rw [h]; exact hx.2

theorem Inv.version {hex : Bool} {ast : File} {v : String} (h : Inv hex ast)
    (hx : strOK v = true) : Inv hex { ast with version := v } := by
  obtain ⟨hf, hn⟩ := h
  refine ⟨?_, hn⟩
  simp only [fileOK, Bool.and_eq_true] at hf ⊢
  simp only [hf, hx, and_self]

theorem Inv.newSymbols {hex : Bool} {ast : File} {v : List String} (h : Inv hex ast)
    (hx : v.all (fun s => newSymbolsValues.contains s) = true) :
    Inv hex { ast with newSymbols := some v } := by
  obtain ⟨hf, hn⟩ := h
  refine ⟨?_, hn⟩
  simp only [fileOK, Bool.and_eq_true] at hf ⊢
  simp only [hf, hx, and_self]

theorem Inv.bitTiming {hex : Bool} {ast : File} {v : BitTiming} (h : Inv hex ast)
    (hx : bitTimingOK v = true) : Inv hex { ast with bitTiming := some v } := by
  obtain ⟨hf, hn⟩ := h
  refine ⟨?_, hn⟩
  simp only [fileOK, Bool.and_eq_true] at hf ⊢
  simp only [hf, hx, and_self]

theorem Inv.nodes {hex : Bool} {ast : File} {v : List String} (h : Inv hex ast)
    (hx : v.all identOK = true) : Inv hex { ast with nodes := some v } := by
  obtain ⟨hf, hn⟩ := h
  refine ⟨?_, hn⟩
  simp only [fileOK, Bool.and_eq_true] at hf ⊢
  simp only [hf, hx, and_self]

/-- one section keeps the invariant -/
theorem parseSection_inv (hex : Bool) (k : KeywordKind) (fl : PFlags) (ast : File)
    (ts : List Token) (hts : TokensWF ts) (hi : Inv hex ast) :
    Sat (fun p => Inv hex p.1) (parseSection hex k fl ast ts) := by
  cases k <;> simp only [parseSection]
  · exact Sat.bind (parseVersion_good _ _) hts (parseVersion_sat _ _ hts)
      (fun a ts1 _ ha => Sat.pure (hi.version ha))
  · exact Sat.bind (parseNewSymbols_good _ _) hts (parseNewSymbols_sat _ _ hts)
      (fun a ts1 _ ha => Sat.pure (hi.newSymbols ha))
  · exact Sat.bind (parseBitTiming_good _ _) hts (parseBitTiming_sat _ _ hts)
      (fun a ts1 _ ha => Sat.pure (hi.bitTiming ha))
  · exact Sat.bind (parseNodes_good _ _) hts (parseNodes_sat _ _ hts)
      (fun a ts1 _ ha => Sat.pure (hi.nodes ha))
  · exact Sat.bind (parseMessage_good _) hts (parseMessage_sat _ hts)
      (fun a ts1 _ ha => Sat.pure (hi.messages ha))
  · exact Sat.bind (parseMessageTransmitter_good _) hts (parseMessageTransmitter_sat _ hts)
      (fun a ts1 _ ha => Sat.pure (hi.messageTransmitters ha))
  · exact Sat.pure hi
  · exact Sat.bind (parseSignalExtValueType_good _) hts (parseSignalExtValueType_sat _ hts)
      (fun a ts1 _ ha => Sat.pure (hi.signalExtValueTypes ha))
  · exact Sat.bind (parseValueTable_good _) hts (parseValueTable_sat _ hts)
      (fun a ts1 _ ha => Sat.pure (hi.valueTables ha))
  · exact Sat.bind (parseValueEncoding_good _) hts (parseValueEncoding_sat _ hts)
      (fun a ts1 _ ha => Sat.pure (hi.valueEncodings ha))
  · exact Sat.bind (parseEnvVar_good _) hts (parseEnvVar_sat _ hts)
      (fun a ts1 _ ha => Sat.pure (hi.envVars ha))
  · exact Sat.bind (parseEnvVarData_good _) hts (parseEnvVarData_sat _ hts)
      (fun a ts1 _ ha => Sat.pure (hi.envVarDatas ha))
  · refine Sat.bind (parseSignalType_good _) hts (parseSignalType_sat _ hts) ?_
    intro a ts1 _ ha
    cases a with
    | inl st => exact Sat.pure (hi.signalTypes ha)
    | inr sr => exact Sat.pure (hi.signalTypeRefs ha)
  · exact Sat.bind (parseSignalGroup_good _) hts (parseSignalGroup_sat _ hts)
      (fun a ts1 _ ha => Sat.pure (hi.signalGroups ha))
  · exact Sat.bind (parseComment_good _) hts (parseComment_sat _ hts)
      (fun a ts1 _ ha => Sat.pure (hi.comments ha))
  · exact Sat.bind (parseAttribute_good _ _) hts (parseAttribute_sat _ _ hts)
      (fun a ts1 _ ha => Sat.pure (hi.attributes ha))
  · exact Sat.bind (parseAttributeDefault_good _ _) hts (parseAttributeDefault_sat _ _ hts)
      (fun a ts1 _ ha => Sat.pure (hi.attributeDefaults ha))
  · exact Sat.bind (parseAttributeValue_good _ _) hts (parseAttributeValue_sat _ _ hts)
      (fun a ts1 _ ha => Sat.pure (hi.attributeValues ha))
  · exact Sat.pure hi
  · exact Sat.pure hi
  · exact Sat.pure hi
  · exact Sat.pure hi
  · exact Sat.pure hi
  · exact Sat.bind (parseExtendedMux_good _) hts (parseExtendedMux_sat _ hts)
      (fun a ts1 _ ha => Sat.pure (hi.extendedMuxes ha))

theorem parseLoop_succ_nil (hex : Bool) (n : Nat) (fl : PFlags) (ast : File) :
    parseLoop hex (n + 1) fl ast [] = .ok ast := rfl

theorem parseLoop_succ_eof (hex : Bool) (n : Nat) (fl : PFlags) (ast : File) (ts : List Token) :
    parseLoop hex (n + 1) fl ast (.eof :: ts) = .ok ast := rfl

theorem parseLoop_succ_bad (hex : Bool) (n : Nat) (fl : PFlags) (ast : File) (t : Token)
    (ts : List Token) (h1 : t ≠ .eof) (h2 : ∀ v, t ≠ .keyword v) :
    parseLoop hex (n + 1) fl ast (t :: ts) = perr "unexpected token" := by
  cases t <;> first | rfl | exact absurd rfl h1 | exact absurd rfl (h2 _)

theorem parseLoop_inv (hex : Bool) (n : Nat) : ∀ (fl : PFlags) (ast : File) (ts : List Token)
    (f : File), TokensWF ts → Inv hex ast → parseLoop hex n fl ast ts = .ok f → Inv hex f := by
  induction n with
  | zero => intro fl ast ts f _ _ h; cases h
  | succ n ih =>
    intro fl ast ts f hts hi h
    cases ts with
    | nil =>
      rw [parseLoop_succ_nil] at h
      cases h
      exact hi
    | cons t ts' =>
      by_cases hk : ∃ v, t = .keyword v
      · obtain ⟨v, rfl⟩ := hk
        rw [parseLoop_succ_kw] at h
        have hsec := parseSection_inv hex (getKeywordKind v) fl ast ts' hts.tail hi
        have hg := parseSection_good hex (getKeywordKind v) fl ast ts'
        cases he : parseSection hex (getKeywordKind v) fl ast ts' with
        | error e => rw [he] at h; cases h
        | ok p =>
          obtain ⟨⟨ast', fl'⟩, ts''⟩ := p
          rw [he] at h hg
          have hsuf : ts'' <:+ ts' := hg
          have hi' : Inv hex ast' := by
            have := hsec (ast', fl') ts'' he
            exact this
          have h' : parseLoop hex n fl' ast' ts'' = .ok f := h
          exact ih fl' ast' ts'' f (hts.tail.suffix hsuf) hi' h'
      · by_cases he : t = .eof
        · subst he
          rw [parseLoop_succ_eof] at h
          cases h
          exact hi
        · rw [parseLoop_succ_bad hex n fl ast t ts' he (fun v e => hk ⟨v, e⟩)] at h
          cases h

/-- the document parsed from a scanner-image token list is well formed, with attribute values in
parser-normal form -/
theorem parseToks_inv (hex : Bool) (ts : List Token) (f : File) (hts : TokensWF ts)
    (h : parseToks hex ts = .ok f) : Inv hex f :=
  parseLoop_inv hex _ _ _ ts f hts (Inv.empty hex) h

/-! ## `norm` is the identity on parser-normal documents -/

theorem map_eq_self {α : Type} (g : α → α) (l : List α) (h : ∀ x ∈ l, g x = x) : l.map g = l := by
  induction l with
  | nil => rfl
  | cons x xs ih =>
    simp only [List.map_cons]
    rw [h x (List.mem_cons_self ..), ih (fun y hy => h y (List.mem_cons_of_mem _ hy))]

theorem AttributeDefault.withVal_val (d : AttributeDefault) : d.withVal d.val = d := by
  cases d; rfl

theorem norm_eq_self (hex : Bool) (f : File) (hv : f.version ≠ "") (hns : f.newSymbols ≠ none)
    (hbt : f.bitTiming ≠ none) (hn : AttrNormal hex f) : norm hex f = f := by
  obtain ⟨hd, hval⟩ := hn
  have h1 : f.attributeDefaults.map (normAttributeDefault hex) = f.attributeDefaults := by
    apply map_eq_self
    intro d hmem
    unfold normAttributeDefault
    rw [hd d hmem, AttributeDefault.withVal_val]
  have h2 : f.attributeValues.map (normAttributeValue hex) = f.attributeValues := by
    apply map_eq_self
    intro v hmem
    unfold normAttributeValue
    rw [(hval v hmem).1, (hval v hmem).2]
  unfold norm
  rw [h1, h2, if_neg hv]
  obtain ⟨v, ns, bt, nd, _, _, _, _, _, _, _, _, _, _, _, _, _, _, _⟩ := f
  cases ns with
  | none => exact absurd rfl hns
  | some ns =>
    cases bt with
    | none => exact absurd rfl hbt
    | some bt => rfl

theorem attrNormal_of_inv {hex : Bool} {f : File} (h : Inv hex f) : AttrNormal hex f := by
  obtain ⟨hf, hd, hv⟩ := h
  refine ⟨hd, ?_⟩
  intro v hmem
  refine ⟨hv v hmem, ?_⟩
  simp only [fileOK, Bool.and_eq_true, List.all_eq_true] at hf
  have := hf.1.1.1.1.1.2 v hmem
  simp only [attributeValueOK, Bool.and_eq_true, decide_eq_true_eq] at this
  exact this.1.2

/-- parse, write, parse: the same document, provided the version is not empty and the `NS_` and
`BS_` sections are present -/
theorem parse_write_parse (hex : Bool) (ts : List Token) (f : File) (hts : TokensWF ts)
    (hp : parseToks hex ts = .ok f) (hv : f.version ≠ "") (hns : f.newSymbols ≠ none)
    (hbt : f.bitTiming ≠ none) : parseToks hex (writeToks hex f) = .ok f := by
  have hi := parseToks_inv hex ts f hts hp
  have := parse_write acc (fun _ h => h) hex f hi.1
  rw [norm_eq_self hex f hv hns hbt (attrNormal_of_inv hi)] at this
  exact this

end Acme.Dbc
