/-
Payload world, part E: the constructors (`typeNew`, `enumNew`, `sigNewStd`, `sigNewEnum`,
`sigNewMux`) and `sigRename` preserve the invariant; no-panic facts for the constructors
and the renamers.
-/
import Acme.Proofs.PayloadInv

namespace Acme.Payload
open Acme.Layout Acme.Bits Acme.Arith

/-! ### no panic -/

theorem nopanic_typeNew (w : W) (t : Nat) (size : Int) : (step w (.typeNew t size)).2 ≠ .panic := by
  simp only [step]
  repeat' split
  all_goals simp

theorem nopanic_enumNew (w : W) (e : Nat) : (step w (.enumNew e)).2 ≠ .panic := by
  simp only [step]
  repeat' split
  all_goals simp

theorem nopanic_valNew (w : W) (v : Nat) (name : String) (index : Int) :
    (step w (.valNew v name index)).2 ≠ .panic := by
  simp only [step]
  repeat' split
  all_goals simp

theorem nopanic_valRename (w : W) (v : Nat) (name : String) : (step w (.valRename v name)).2 ≠ .panic := by
  simp only [step]
  repeat' split
  all_goals simp

theorem nopanic_sigNewStd (w : W) (s : Nat) (name : String) (t : Nat) :
    (step w (.sigNewStd s name t)).2 ≠ .panic := by
  simp only [step]
  repeat' split
  all_goals simp

theorem nopanic_sigNewEnum (w : W) (s : Nat) (name : String) (e : Nat) :
    (step w (.sigNewEnum s name e)).2 ≠ .panic := by
  simp only [step]
  repeat' split
  all_goals simp

theorem nopanic_sigNewMux (w : W) (s : Nat) (name : String) (gc gs : Int) :
    (step w (.sigNewMux s name gc gs)).2 ≠ .panic := by
  simp only [step]
  repeat' split
  all_goals simp

theorem nopanic_sigRename (w : W) (s : Nat) (name : String) : (step w (.sigRename s name)).2 ≠ .panic := by
  simp only [step]
  repeat' split
  all_goals simp

/-! ### helpers -/

theorem enumOf_some {w : W} {s e : Nat} (h : enumOf w s = some e) :
    ∃ sg, w.sigs.get s = some sg ∧ sg.kind = .enm e := by
  unfold enumOf at h
  cases hs : w.sigs.get s with
  | none => rw [hs] at h; cases h
  | some sg =>
    rw [hs] at h
    simp only at h
    cases hk : sg.kind with
    | enm e' => rw [hk] at h; simp only [Option.some.injEq] at h; subst h; exact ⟨sg, rfl, hk⟩
    | std t => rw [hk] at h; cases h
    | mux gc gs => rw [hk] at h; cases h

theorem enumOf_none_of_get {w : W} {s : Nat} (h : w.sigs.get s = none) : enumOf w s = none := by
  unfold enumOf; rw [h]

theorem enumOf_upd {w w1 : W} {s : Nat} {sg0 : SigE} (hs : w1.sigs = upd w.sigs s sg0) (s' : Nat) :
    enumOf w1 s' =
      if s' = s then (match sg0.kind with | .enm e => some e | _ => none) else enumOf w s' := by
  unfold enumOf
  rw [hs, upd_get]
  by_cases h : s' = s
  · simp only [h, if_true]
    cases sg0.kind <;> rfl
  · simp [h]

/-- a referenced enum exists -/
theorem InvS.enumOf_isSome {w : W} (h : InvS w) {s e : Nat} (he : enumOf w s = some e) :
    (w.enums.get e).isSome := by
  obtain ⟨sg, h1, h2⟩ := enumOf_some he
  have := h.sigKind s sg h1
  rw [h2] at this
  exact this

/-- Structure group under an operation that keeps the messages, keeps the signals of all
    layouts, and creates no attached signal. -/
theorem InvS.frame {w w1 : W} (h : InvS w)
    (hmsgs : w1.msgs = w.msgs)
    (htp : ∀ t ty, w1.types.get t = some ty → 0 < ty.size)
    (hkind : ∀ s sg, w1.sigs.get s = some sg → KindOK w1 sg.kind)
    (hsig : ∀ m msg i, w.msgs.get m = some msg → i ∈ msg.layout → w1.sigs.get i = w.sigs.get i)
    (hpar : ∀ s sg m, w1.sigs.get s = some sg → sg.parent = some m → w.sigs.get s = some sg)
    (hrefs : ∀ e en, w1.enums.get e = some en →
      en.refs.Nodup ∧ ∀ s, s ∈ en.refs ↔ enumOf w1 s = some e) : InvS w1 := by
  refine ⟨htp, hkind, ?_, ?_, ?_, ?_, ?_, hrefs, ?_⟩
  · intro m msg h1; rw [hmsgs] at h1; exact h.msgCap m msg h1
  · intro m msg s h1 hin
    rw [hmsgs] at h1
    obtain ⟨sg, h2, h3, h4⟩ := h.layoutParent m msg s h1 hin
    exact ⟨sg, by rw [hsig m msg s h1 hin]; exact h2, h3, h4⟩
  · intro s sg m h1 hp
    obtain ⟨msg, h2, h3⟩ := h.parentLayout s sg m (hpar s sg m h1 hp) hp
    exact ⟨msg, by rw [hmsgs]; exact h2, h3⟩
  · intro m msg h1; rw [hmsgs] at h1; exact h.layoutNodup m msg h1
  · exact h.names_congr (fun m msg h1 => by
      rw [hmsgs] at h1
      exact ⟨msg, h1, rfl, fun s hs => sigName_congr (by rw [hsig m msg s h1 hs])⟩)
  · exact h.apart_congr (fun m msg h1 => by
      rw [hmsgs] at h1
      exact ⟨msg, h1, rfl, fun s hs => enumOf_congr (by rw [hsig m msg s h1 hs])⟩)

/-- `wf` / `fresh` under an operation that keeps the messages, the signals of all layouts
    and the sizes of the old signals -/
theorem wf_fresh_same {w w1 : W} (hw : WFAll w) (hf : FreshAll w)
    (hmsgs : w1.msgs = w.msgs)
    (hsig : ∀ m msg i, w.msgs.get m = some msg → i ∈ msg.layout → w1.sigs.get i = w.sigs.get i)
    (hsz : ∀ i sg, w.sigs.get i = some sg → sizeOf w1 sg = sizeOf w sg) :
    WFAll w1 ∧ FreshAll w1 := by
  apply wf_fresh_frame hw hf
  intro m msg h1
  rw [hmsgs] at h1
  exact Or.inl ⟨h1, fun i hi => slotBeAt_of_get (hsig m msg i h1 hi) (fun sg hg => hsz i sg hg)⟩

/-! ### `typeNew` -/

theorem inv_typeNew (w : W) (t : Nat) (size : Int) (h : Inv w) : Inv (step w (.typeNew t size)).1 := by
  simp only [step]
  split
  · exact h
  · split
    · exact h
    · split
      · exact h
      · rename_i hnone hneg hzero
        have hnone' : w.types.get t = none := by
          cases hg : w.types.get t with
          | none => rfl
          | some x => rw [hg] at hnone; simp at hnone
        generalize hw1 : ({ w with types := upd w.types t ⟨size⟩ } : W) = w1
        have ht : w1.types = upd w.types t ⟨size⟩ := by rw [← hw1]
        have hv : w1.vals = w.vals := by rw [← hw1]
        have he : w1.enums = w.enums := by rw [← hw1]
        have hs : w1.sigs = w.sigs := by rw [← hw1]
        have hm : w1.msgs = w.msgs := by rw [← hw1]
        have hS := h.toS
        have htmono : ∀ t', (w.types.get t').isSome → (w1.types.get t').isSome := by
          intro t' h1
          rw [ht, upd_get]
          split
          · rfl
          · exact h1
        have hS1 : InvS w1 := by
          apply hS.frame hm
          · intro t' ty h1
            rw [ht, upd_get] at h1
            split at h1
            · injection h1 with h1; subst h1; simp only; omega
            · exact hS.typesPos t' ty h1
          · exact hS.kind_mono htmono (fun e => by rw [he]; exact id)
              (fun s sg' h1 => Or.inl ⟨sg', by rw [← hs]; exact h1, rfl⟩)
          · intro m msg i _ _; rw [hs]
          · intro s sg m h1 _; rw [← hs]; exact h1
          · exact hS.refs_congr (fun e en' h1 => ⟨en', by rw [← he]; exact h1, rfl⟩)
              (fun s => enumOf_congr (by rw [hs]))
        obtain ⟨hw, hf⟩ := wf_fresh_same (w1 := w1) h.toWF h.toFresh hm
          (fun m msg i _ _ => by rw [hs])
          (by
            intro i sg hi
            apply sizeOf_congr
            · intro t' hk
              have := hS.sigKind i sg hi
              rw [hk] at this
              have hne : t' ≠ t := by
                intro e; subst e
                simp only [KindOK] at this
                rw [hnone'] at this; cases this
              rw [ht, upd_get, if_neg hne]
            · intro e _; rw [he])
        exact Inv.ofParts (InvV.congr (w' := w1) (fun _ => by rw [hv]) (fun _ => by rw [he]) h.toV)
          hS1 hw hf

/-! ### `enumNew` -/

theorem isSome_false_none {α : Type} {o : Option α} (h : ¬ o.isSome = true) : o = none := by
  cases o with
  | none => rfl
  | some x => simp at h

theorem inv_enumNew (w : W) (e : Nat) (h : Inv w) : Inv (step w (.enumNew e)).1 := by
  simp only [step]
  split
  · exact h
  · rename_i hnone
    have hnone' : w.enums.get e = none := isSome_false_none hnone
    generalize hw1 : ({ w with enums := upd w.enums e {} } : W) = w1
    have ht : w1.types = w.types := by rw [← hw1]
    have hv : w1.vals = w.vals := by rw [← hw1]
    have he : w1.enums = upd w.enums e {} := by rw [← hw1]
    have hs : w1.sigs = w.sigs := by rw [← hw1]
    have hm : w1.msgs = w.msgs := by rw [← hw1]
    have hS := h.toS
    have hV := h.toV
    have henum : ∀ s, enumOf w1 s = enumOf w s := fun s => enumOf_congr (by rw [hs])
    have hS1 : InvS w1 := by
      apply hS.frame hm
      · intro t' ty h1; rw [ht] at h1; exact hS.typesPos t' ty h1
      · exact hS.kind_mono (fun t => by rw [ht]; exact id)
          (fun e' h1 => by
            rw [he, upd_get]
            split
            · rfl
            · exact h1)
          (fun s sg' h1 => Or.inl ⟨sg', by rw [← hs]; exact h1, rfl⟩)
      · intro m msg i _ _; rw [hs]
      · intro s sg m h1 _; rw [← hs]; exact h1
      · intro e' en' h1
        rw [he, upd_get] at h1
        split at h1
        · rename_i hee
          subst hee
          injection h1 with h1
          subst h1
          refine ⟨List.nodup_nil, fun s => ?_⟩
          constructor
          · intro hin; cases hin
          · intro h2
            rw [henum] at h2
            have := hS.enumOf_isSome h2
            rw [hnone'] at this; cases this
        · have := hS.enumRefs e' en' h1
          exact ⟨this.1, fun s => by rw [henum]; exact this.2 s⟩
    obtain ⟨hw, hf⟩ := wf_fresh_same (w1 := w1) h.toWF h.toFresh hm
      (fun m msg i _ _ => by rw [hs])
      (by
        intro i sg hi
        apply sizeOf_congr
        · intro t' _; rw [ht]
        · intro e' hk
          have := hS.sigKind i sg hi
          rw [hk] at this
          have hne : e' ≠ e := by
            intro e; subst e
            simp only [KindOK] at this
            rw [hnone'] at this; cases this
          rw [he, upd_get, if_neg hne])
    have hidx : valIndex w1 = valIndex w := funext fun v => valIndex_congr (by rw [hv])
    have hnm : valName w1 = valName w := funext fun v => valName_congr (by rw [hv])
    have hV1 : InvV w1 := by
      constructor
      · intro e' en' h1
        rw [he, upd_get] at h1
        split at h1
        · injection h1 with h1
          subst h1
          exact ⟨List.nodup_nil, fun v hv' => by cases hv'⟩
        · rw [hv]; exact hV.enumVals e' en' h1
      · intro v val e' h1 h2
        rw [hv] at h1
        obtain ⟨en, h3, h4⟩ := hV.valParent v val e' h1 h2
        have hne : e' ≠ e := by
          intro e; subst e
          rw [hnone'] at h3; cases h3
        exact ⟨en, by rw [he, upd_get, if_neg hne]; exact h3, h4⟩
      · intro e' en' h1
        rw [he, upd_get] at h1
        split at h1
        · injection h1 with h1
          subst h1
          exact List.nodup_nil
        · rw [hidx]; exact hV.valIdx e' en' h1
      · intro e' en' h1
        rw [he, upd_get] at h1
        split at h1
        · injection h1 with h1
          subst h1
          exact List.nodup_nil
        · rw [hnm]; exact hV.valNames e' en' h1
      · intro e' en' h1
        rw [he, upd_get] at h1
        split at h1
        · injection h1 with h1
          subst h1
          rfl
        · rw [trueMaxIndex_congr (fun v _ => congrFun hidx v)]; exact hV.enumMax e' en' h1
    exact Inv.ofParts hV1 hS1 hw hf

/-! ### new signals -/

/-- the parts of the invariant that do not depend on the kind of the new signal -/
theorem inv_newSig {w w1 : W} (h : Inv w) {s : Nat} (sg0 : SigE) (hnone : w.sigs.get s = none)
    (hp0 : sg0.parent = none)
    (ht : w1.types = w.types) (hv : w1.vals = w.vals) (hm : w1.msgs = w.msgs)
    (hs : w1.sigs = upd w.sigs s sg0)
    (he : ∀ e, (w1.enums.get e).map (fun en => (en.minSize, en.maxIndex, en.values)) =
               (w.enums.get e).map (fun en => (en.minSize, en.maxIndex, en.values)))
    (hk0 : KindOK w1 sg0.kind)
    (hrefs : ∀ e en, w1.enums.get e = some en →
      en.refs.Nodup ∧ ∀ s, s ∈ en.refs ↔ enumOf w1 s = some e) : Inv w1 := by
  have hS := h.toS
  have hne : ∀ m msg i, w.msgs.get m = some msg → i ∈ msg.layout → i ≠ s := by
    intro m msg i h1 hi e
    subst e
    have := hS.layout_present h1 i hi
    rw [hnone] at this; cases this
  have hsig : ∀ m msg i, w.msgs.get m = some msg → i ∈ msg.layout → w1.sigs.get i = w.sigs.get i := by
    intro m msg i h1 hi
    rw [hs, upd_get, if_neg (hne m msg i h1 hi)]
  have hesome : ∀ e, (w.enums.get e).isSome → (w1.enums.get e).isSome := by
    intro e h1
    rw [map_eq_isSome (he e)]; exact h1
  have hS1 : InvS w1 := by
    apply hS.frame hm
    · intro t' ty h1; rw [ht] at h1; exact hS.typesPos t' ty h1
    · apply hS.kind_mono (fun t => by rw [ht]; exact id) hesome
      intro s' sg' h1
      rw [hs, upd_get] at h1
      split at h1
      · injection h1 with h1; subst h1; exact Or.inr hk0
      · exact Or.inl ⟨sg', h1, rfl⟩
    · exact hsig
    · intro s' sg m h1 hp
      rw [hs, upd_get] at h1
      split at h1
      · injection h1 with h1; subst h1; rw [hp0] at hp; cases hp
      · exact h1
    · exact hrefs
  obtain ⟨hw, hf⟩ := wf_fresh_same (w1 := w1) h.toWF h.toFresh hm hsig
    (by
      intro i sg _
      apply sizeOf_congr
      · intro t' _; rw [ht]
      · intro e' _
        have := congrArg (Option.map (fun p : Int × Int × List Nat => enumSize p.1 p.2.1)) (he e')
        have hfe : enumSizeOf = fun x => enumSize x.minSize x.maxIndex := rfl
        rw [hfe]
        simpa [Option.map_map, Function.comp_def] using this)
  refine Inv.ofParts (InvV.congr (w' := w1) (fun _ => by rw [hv]) (fun e => ?_) h.toV) hS1 hw hf
  have := congrArg (Option.map (fun p : Int × Int × List Nat => (p.2.2, p.2.1))) (he e)
  simpa [Option.map_map, Function.comp_def] using this

theorem inv_sigNewStd (w : W) (s : Nat) (name : String) (t : Nat) (h : Inv w) :
    Inv (step w (.sigNewStd s name t)).1 := by
  simp only [step]
  split
  · exact h
  · rename_i hnone
    have hnone' : w.sigs.get s = none := isSome_false_none hnone
    cases hty : w.types.get t with
    | none => exact h
    | some ty =>
      simp only
      generalize hw1 : ({ w with sigs := upd w.sigs s { name := name, kind := .std t } } : W) = w1
      have ht : w1.types = w.types := by rw [← hw1]
      have hv : w1.vals = w.vals := by rw [← hw1]
      have he : w1.enums = w.enums := by rw [← hw1]
      have hs : w1.sigs = upd w.sigs s { name := name, kind := .std t } := by rw [← hw1]
      have hm : w1.msgs = w.msgs := by rw [← hw1]
      apply inv_newSig h _ hnone' rfl ht hv hm hs (fun _ => by rw [he])
      · simp only [KindOK]; rw [ht, hty]; rfl
      · apply h.toS.refs_congr (fun e en' h1 => ⟨en', by rw [← he]; exact h1, rfl⟩)
        intro s'
        rw [enumOf_upd hs]
        split
        · subst_vars; rw [enumOf_none_of_get hnone']
        · rfl

theorem inv_sigNewMux (w : W) (s : Nat) (name : String) (gc gs : Int) (h : Inv w) :
    Inv (step w (.sigNewMux s name gc gs)).1 := by
  simp only [step]
  split
  · exact h
  · rename_i hnone
    have hnone' : w.sigs.get s = none := isSome_false_none hnone
    split
    · exact h
    · split
      · exact h
      · split
        · exact h
        · split
          · exact h
          · rename_i g1 g2 g3 g4
            generalize hw1 : ({ w with sigs := upd w.sigs s { name := name, kind := .mux gc gs } } : W) = w1
            have ht : w1.types = w.types := by rw [← hw1]
            have hv : w1.vals = w.vals := by rw [← hw1]
            have he : w1.enums = w.enums := by rw [← hw1]
            have hs : w1.sigs = upd w.sigs s { name := name, kind := .mux gc gs } := by rw [← hw1]
            have hm : w1.msgs = w.msgs := by rw [← hw1]
            apply inv_newSig h _ hnone' rfl ht hv hm hs (fun _ => by rw [he])
            · simp only [KindOK]; omega
            · apply h.toS.refs_congr (fun e en' h1 => ⟨en', by rw [← he]; exact h1, rfl⟩)
              intro s'
              rw [enumOf_upd hs]
              split
              · subst_vars; rw [enumOf_none_of_get hnone']
              · rfl

theorem inv_sigNewEnum (w : W) (s : Nat) (name : String) (e : Nat) (h : Inv w) :
    Inv (step w (.sigNewEnum s name e)).1 := by
  simp only [step]
  split
  · exact h
  · rename_i hnone
    have hnone' : w.sigs.get s = none := isSome_false_none hnone
    cases hen : w.enums.get e with
    | none => exact h
    | some en =>
      simp only
      generalize hw1 : ({ w with sigs := upd w.sigs s { name := name, kind := .enm e },
                                 enums := upd w.enums e { en with refs := en.refs ++ [s] } } : W) = w1
      have ht : w1.types = w.types := by rw [← hw1]
      have hv : w1.vals = w.vals := by rw [← hw1]
      have he : w1.enums = upd w.enums e { en with refs := en.refs ++ [s] } := by rw [← hw1]
      have hs : w1.sigs = upd w.sigs s { name := name, kind := .enm e } := by rw [← hw1]
      have hm : w1.msgs = w.msgs := by rw [← hw1]
      have hS := h.toS
      have hnotin : ∀ e' en', w.enums.get e' = some en' → s ∉ en'.refs := by
        intro e' en' h1 hin
        have := ((hS.enumRefs e' en' h1).2 s).1 hin
        rw [enumOf_none_of_get hnone'] at this; cases this
      apply inv_newSig h _ hnone' rfl ht hv hm hs
      · intro e'
        rw [he, upd_get]
        split
        · subst_vars; rw [hen]; rfl
        · rfl
      · simp only [KindOK]; rw [he, upd_get, if_pos rfl]; rfl
      · intro e' en' h1
        rw [he, upd_get] at h1
        split at h1
        · rename_i hee
          subst hee
          injection h1 with h1
          subst h1
          have old := hS.enumRefs e' en hen
          constructor
          · simp only
            rw [List.nodup_append]
            refine ⟨old.1, List.nodup_singleton s, ?_⟩
            intro a ha b hb
            rw [List.mem_singleton] at hb
            subst hb
            intro hab; subst hab
            exact hnotin e' en hen ha
          · intro s'
            simp only
            rw [enumOf_upd hs s', List.mem_append, List.mem_singleton]
            by_cases hss : s' = s
            · simp [hss]
            · simp only [hss, or_false, if_false]
              exact old.2 s'
        · rename_i hee
          have old := hS.enumRefs e' en' h1
          refine ⟨old.1, fun s' => ?_⟩
          rw [enumOf_upd hs s']
          by_cases hss : s' = s
          · subst hss
            simp only [if_true, Option.some.injEq]
            constructor
            · intro hin; exact absurd hin (hnotin e' en' h1)
            · intro hc; exact absurd hc.symm hee
          · simp only [hss, if_false]
            exact old.2 s'

/-! ### `sigRename` -/

theorem nodup_map_replace {α β : Type} [DecidableEq α] {l : List α} {f : α → β} {s : α} {n : β}
    (h : (l.map f).Nodup) (hn : ∀ x ∈ l, f x ≠ n) :
    (l.map (fun x => if x = s then n else f x)).Nodup := by
  induction l with
  | nil => exact List.nodup_nil
  | cons a l ih =>
    rw [List.map_cons, List.nodup_cons] at h ⊢
    refine ⟨?_, ih h.2 (fun x hx => hn x (List.mem_cons_of_mem _ hx))⟩
    intro hin
    obtain ⟨x, hx, hxe⟩ := List.mem_map.1 hin
    have hfx : f x ∈ l.map f := List.mem_map_of_mem hx
    have hna := hn a (List.mem_cons_self ..)
    have hnx := hn x (List.mem_cons_of_mem _ hx)
    by_cases hxs : x = s
    · by_cases has : a = s
      · rw [has, ← hxs] at h; exact h.1 hfx
      · simp only [if_pos hxs, if_neg has] at hxe
        exact hna hxe.symm
    · by_cases has : a = s
      · simp only [if_neg hxs, if_pos has] at hxe
        exact hnx hxe
      · simp only [if_neg hxs, if_neg has] at hxe
        rw [← hxe] at h; exact h.1 hfx

/-- the name-clash test of `UpdateName` -/
def renameClash (w : W) (sg : SigE) (name : String) : Bool :=
  match sg.parent with
  | none => false
  | some m => match w.msgs.get m with
    | none => false
    | some msg => hasSigName w msg.layout name

theorem step_sigRename (w : W) (s : Nat) (name : String) :
    step w (.sigRename s name) =
      match w.sigs.get s with
      | none => (w, .unsupported)
      | some sg =>
        if sg.name = name then (w, .ok [])
        else if renameClash w sg name then (w, .err .duplicated)
        else ({ w with sigs := upd w.sigs s { sg with name := name } }, .ok []) := rfl

theorem inv_sigRename (w : W) (s : Nat) (name : String) (h : Inv w) : Inv (step w (.sigRename s name)).1 := by
  rw [step_sigRename]
  cases hsg : w.sigs.get s with
  | none => exact h
  | some sg =>
    simp only
    split
    · exact h
    · split
      · exact h
      · rename_i hname hclash
        generalize hw1 : ({ w with sigs := upd w.sigs s { sg with name := name } } : W) = w1
        have ht : w1.types = w.types := by rw [← hw1]
        have hv : w1.vals = w.vals := by rw [← hw1]
        have he : w1.enums = w.enums := by rw [← hw1]
        have hs : w1.sigs = upd w.sigs s { sg with name := name } := by rw [← hw1]
        have hm : w1.msgs = w.msgs := by rw [← hw1]
        have hS := h.toS
        have henum : ∀ s', enumOf w1 s' = enumOf w s' := by
          intro s'
          apply enumOf_congr
          rw [hs, upd_get]
          split
          · subst_vars; rw [hsg]; rfl
          · rfl
        have hsn : sigName w1 = fun x => if x = s then name else sigName w x := by
          funext x
          unfold sigName
          rw [hs, upd_get]
          by_cases hx : x = s <;> simp [hx]
        obtain ⟨l1, l2, l3⟩ := hS.links_congr (w' := w1) (by
          intro s'
          rw [hs, upd_get]
          split
          · subst_vars; rw [hsg]; rfl
          · rfl) (fun m => by rw [hm])
        have hS1 : InvS w1 := by
          refine ⟨?_, ?_, ?_, l1, l2, l3, ?_, ?_, ?_⟩
          · intro t ty h1; rw [ht] at h1; exact hS.typesPos t ty h1
          · apply hS.kind_mono (fun t => by rw [ht]; exact id) (fun e => by rw [he]; exact id)
            intro s' sg' h1
            rw [hs, upd_get] at h1
            split at h1
            · subst_vars; injection h1 with h1; subst h1; exact Or.inl ⟨sg, hsg, rfl⟩
            · exact Or.inl ⟨sg', h1, rfl⟩
          · intro m msg h1; rw [hm] at h1; exact hS.msgCap m msg h1
          · intro m msg h1
            rw [hm] at h1
            rw [hsn]
            by_cases hin : s ∈ msg.layout
            · obtain ⟨sg', h2, h3, _⟩ := hS.layoutParent m msg s h1 hin
              rw [hsg] at h2
              injection h2 with h2
              subst h2
              have hno : hasSigName w msg.layout name = false := by
                unfold renameClash at hclash
                rw [h3] at hclash
                simp only [h1] at hclash
                simpa using hclash
              exact nodup_map_replace (hS.names m msg h1) (hasSigName_false hno)
            · rw [List.map_congr_left (g := sigName w)]
              · exact hS.names m msg h1
              · intro x hx
                have : x ≠ s := fun e => hin (e ▸ hx)
                simp [this]
          · exact hS.refs_congr (fun e en' h1 => ⟨en', by rw [← he]; exact h1, rfl⟩) henum
          · exact hS.apart_congr (fun m msg h1 => by
              rw [hm] at h1
              exact ⟨msg, h1, rfl, fun x _ => henum x⟩)
        have hsz : ∀ x, sizeOf w1 x = sizeOf w x := fun x => sizeOf_struct x ht he
        obtain ⟨hw, hf⟩ := wf_fresh_frame (w' := w1) h.toWF h.toFresh (by
          intro m msg h1
          rw [hm] at h1
          refine Or.inl ⟨h1, fun i _ => ?_⟩
          unfold slotBeAt
          rw [hs, upd_get]
          by_cases hi : i = s
          · subst hi
            rw [if_pos rfl, hsg]
            have : sizeOf w { sg with name := name } = sizeOf w sg := sizeOf_kind w _ sg rfl
            simp [hsz, this]
          · rw [if_neg hi]
            cases w.sigs.get i with
            | none => rfl
            | some x => simp [hsz])
        exact Inv.ofParts (InvV.congr (w' := w1) (fun _ => by rw [hv]) (fun _ => by rw [he]) h.toV)
          hS1 hw hf

end Acme.Payload
