/-
The generated kernels (Acme/Gen/Kernels.lean, regenerated from /repo's source by
/verif/tools/extract/kernels.go on every run) are equal to the hand-written model functions.

A semantic change of one of the translated Go functions changes the generated text, and the
corresponding theorem below stops to type-check.
-/
import Acme.Gen.Kernels
import Acme.Core.Arith
import Acme.Core.Conv
import Acme.Core.CanId

namespace Acme.GenK

open Acme.Gen

/-! ### helpers of the proofs -/

theorem len64_eq (x : BitVec 64) : Acme.GoSem.len64 x = (Acme.Arith.len64 x.toNat : Int) := by
  unfold Acme.GoSem.len64 Acme.Arith.len64
  rfl

/-- `uint64(v)` of a non-negative Go int keeps the value. -/
theorem toNat_ofInt64 (v : Int) (h0 : 0 ≤ v) (h : v < 2 ^ 64) :
    (BitVec.ofInt 64 v).toNat = v.toNat := by
  rw [BitVec.toNat_ofInt]
  have : v % ((2 ^ 64 : Nat) : Int) = v := Int.emod_eq_of_lt h0 (by simpa using h)
  rw [this]

/-- `uint32(i)` of a Go int, as a shift count: the hand model's `u32`. -/
theorem toNat_ofInt32 (i : Int) : (BitVec.ofInt 32 i).toNat = Acme.CanId.u32 i := by
  rw [BitVec.toNat_ofInt]
  rfl

/-- the numbering of `CANIDBuilderOpKind` (the generated definition carries the constant values
    of the source; a renumbering there breaks `calculateOp_eq`) -/
def kindCode : Acme.CanId.Kind → Int
  | .prio => 0
  | .msgId => 1
  | .nodeId => 2
  | .mask => 3

/-! ### a. calcSizeFromValue -/

/-- `val` is a Go `int` (any value below 2^64 will do; the model is over unbounded `Int`). -/
theorem calcSizeFromValue_eq (v : Int) (h : v < 2 ^ 64) :
    K.calcSizeFromValue v = Acme.Arith.calcSize v := by
  unfold K.calcSizeFromValue Acme.Arith.calcSize Acme.Arith.maxSize
  -- case analysis on both sides: robust against a reordering / rephrasing of the guards
  repeat' split
  all_goals first
    | omega
    | rw [len64_eq, toNat_ofInt64 v (by omega) h]

example : K.calcSizeFromValue 255 = 8 := by decide
example : K.calcSizeFromValue (-3) = 64 := by decide

/-! ### b. calcValueFromSize -/

theorem calcValueFromSize_eq (size : Int) :
    K.calcValueFromSize size = Acme.Arith.calcValue size := by
  unfold K.calcValueFromSize Acme.Arith.calcValue Acme.GoSem.intShl
  repeat' split
  all_goals first
    | rfl
    | omega
    | (have h0 : size = 0 := by omega
       subst h0; decide)

example : K.calcValueFromSize 10 = 1024 := by decide
example : K.calcValueFromSize 64 = 0 := by decide

/-! ### c. start-bit conversion of the importer and of the exporter -/

theorem getSignalStartBit_eq (sb : BitVec 32) (littleEndian : Bool) :
    K.getSignalStartBit sb littleEndian =
      if littleEndian then (sb.toNat : Int) else Acme.Conv.convStart (sb.toNat : Int) := by
  unfold K.getSignalStartBit Acme.Conv.convStart
  cases littleEndian <;> rfl

/-- the same over the `Int` start bit of the hand model -/
theorem getSignalStartBit_int (s : Int) (h0 : 0 ≤ s) (h : s < 2 ^ 32) (littleEndian : Bool) :
    K.getSignalStartBit (BitVec.ofInt 32 s) littleEndian =
      if littleEndian then s else Acme.Conv.convStart s := by
  have hs : ((BitVec.ofInt 32 s).toNat : Int) = s := by
    rw [BitVec.toNat_ofInt]
    have : s % ((2 ^ 32 : Nat) : Int) = s := Int.emod_eq_of_lt h0 (by simpa using h)
    rw [this]; omega
  rw [getSignalStartBit_eq, hs]

example : K.getSignalStartBit 8#32 false = 15 := by decide
example : K.getSignalStartBit 8#32 true = 8 := by decide

/-- `byteOrder`: `MessageByteOrderLittleEndian` = 0; results: the DBC start bit (`uint32`) and the
    DBC byte order (`dbc.SignalLittleEndian` = 0, `dbc.SignalBigEndian` = 1). -/
theorem exporterStartBit_eq (s byteOrder : Int) :
    K.exporterStartBit s byteOrder =
      if byteOrder = 0 then (BitVec.ofInt 32 s, 0#64)
      else (BitVec.ofInt 32 (Acme.Conv.convStart s), 1#64) := by
  unfold K.exporterStartBit Acme.Conv.convStart
  rfl

example : K.exporterStartBit 8 1 = (15#32, 1#64) := by decide
example : K.exporterStartBit 8 0 = (8#32, 0#64) := by decide

/-! ### d. calcEnumSize -/

theorem calcEnumSize_eq (minSize maxIndex : Int) (h : maxIndex < 2 ^ 64) :
    K.calcEnumSize minSize maxIndex = Acme.Arith.enumSize minSize maxIndex := by
  unfold K.calcEnumSize Acme.Arith.enumSize
  rw [calcSizeFromValue_eq maxIndex h]
  -- `rw` closes the goal when the two sides coincide; otherwise compare the guards
  try (dsimp only
       repeat' split
       all_goals omega)

example : K.calcEnumSize 2 255 = 8 := by decide
example : K.calcEnumSize 12 255 = 12 := by decide

/-! ### e. CANIDBuilder.calculateOp -/

theorem calculateOp_eq (op : Acme.CanId.BOp) (prev prio mid nid : BitVec 32) :
    K.calculateOp (kindCode op.kind) op.from_ op.len prev prio mid nid =
      Acme.CanId.calcOp op prev prio mid nid := by
  unfold K.calculateOp Acme.CanId.calcOp Acme.CanId.lenMask
  simp only [toNat_ofInt32]
  cases op.kind <;> simp [kindCode]

example : K.calculateOp 1 4 7 0#32 0#32 0x7F#32 0#32 = 0x7F0#32 := by decide
example : K.calculateOp 3 0 11 0xFFFF#32 0#32 0#32 0#32 = 0x7FF#32 := by decide

/-! ### f. calcTypeRange (the integers that are converted to float64) -/

theorem calcTypeRange_eq (size : Int) (signed : Bool) :
    K.calcTypeRange size signed = Acme.Arith.typeRange size signed := by
  unfold K.calcTypeRange Acme.Arith.typeRange Acme.Arith.maxSize
  have h1 : (18446744073709551615#64) = BitVec.allOnes 64 := by decide
  rw [h1]  -- closes the goal: the two definitions are now syntactically the same up to unfolding

example : K.calcTypeRange 8 true = (-128, 127) := by decide
example : K.calcTypeRange 8 false = (0, 255) := by decide

end Acme.GenK
