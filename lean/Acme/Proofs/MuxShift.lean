/-
Multiplexer world, part F: `msg.shl/shr`, `mux.shl/shr`.
-/
import Acme.Proofs.MuxGeo

namespace Acme.Mux
open Acme.Layout Acme.Arith

theorem getD_eq_get {α : Type} (l : List α) (k : Nat) (d : α) (h : k < l.length) : l.getD k d = l[k] := by
  simp [List.getD_eq_getElem?_getD, List.getElem?_eq_getElem h]

theorem getD_mem {α : Type} (l : List α) (k : Nat) (d : α) (h : k < l.length) : l.getD k d ∈ l := by
  rw [getD_eq_get _ _ _ h]
  exact List.getElem_mem h

theorem mem_getD {α : Type} (l : List α) (d a : α) (h : a ∈ l) : ∃ k, k < l.length ∧ l.getD k d = a := by
  obtain ⟨k, hk, rfl⟩ := List.mem_iff_getElem.mp h
  exact ⟨k, hk, getD_eq_get _ _ _ hk⟩

/-- a slice none of whose members changed has the same slot view -/
theorem slotsOf_unchanged (w w' : MW) (g : List Nat)
    (h : ∀ t ∈ g, ∀ e, w.sigs.get t = some e → w'.sigs.get t = some e)
    (hst : ∀ t ∈ g, (w.sigs.get t).isSome) : slotsOf w' g = slotsOf w g := by
  apply slotsOf_congr
  intro i hi
  have := hst i hi
  cases he : w.sigs.get i with
  | none => rw [he] at this; simp at this
  | some e => rw [h i hi e he]

theorem inv_msgShift (w : MW) (h : InvCore w) (left : Bool) (m s : Nat) (a : Int)
    (hns : (doMsgShift w left m s a).2 ≠ .unsupported) :
    InvCore (doMsgShift w left m s a).1 ∧ (doMsgShift w left m s a).2 ≠ .panic := by
  unfold doMsgShift at hns ⊢
  cases hm : w.msgs.get m with
  | none => simp [hm] at hns
  | some msg =>
    simp only
    split
    · exact ⟨h, by simp⟩
    · have hmo := h.msgOK hm
      have hst : ∀ i ∈ msg.layout, (w.sigs.get i).isSome := by
        intro i hi
        obtain ⟨e, he, _⟩ := (hmo.top i).mp hi
        simp [he]
      obtain ⟨c1, c2, c3, c4, c5⟩ := shiftLayout_spec w left msg.cap msg.layout s a hmo.nodup hst hmo.wf
      refine ⟨?_, c1⟩
      apply inv_geo w _ h c2 (hsig_of_relOnly w _ c4 (fun i e z hi hz => h.sizesPos i e z hi hz))
      · intro x xe gc gs hx hk g hg
        have hxo := h.muxOK hx hk
        rw [slotsOf_unchanged w _ g]
        · exact hxo.wf g hg
        · intro t ht e he
          apply c5 t e _ he
          by_cases hts : t = s
          · right
            subst hts
            intro hl
            obtain ⟨e0, he0, hp0, _⟩ := (hmo.top t).mp hl
            obtain ⟨e1, he1, hp1⟩ := hxo.mem_stored hg ht
            rw [he0] at he1; cases he1
            rw [hp0] at hp1; cases hp1
          · exact Or.inl hts
        · intro t ht
          obtain ⟨e1, he1, _⟩ := hxo.mem_stored hg ht
          simp [he1]
      · intro m' msg' hm'
        by_cases hmm : m' = m
        · subst hmm
          rw [hm] at hm'; cases hm'
          exact c3
        · have hmo' := h.msgOK hm'
          rw [slotsOf_unchanged w _ msg'.layout]
          · exact hmo'.wf
          · intro t ht e he
            apply c5 t e _ he
            by_cases hts : t = s
            · right
              subst hts
              intro hl
              obtain ⟨e0, he0, _, hp0⟩ := (hmo.top t).mp hl
              obtain ⟨e1, he1, _, hp1⟩ := (hmo'.top t).mp ht
              rw [he0] at he1; cases he1
              rw [hp0] at hp1; cases hp1
              exact hmm rfl
            · exact Or.inl hts
          · intro t ht
            obtain ⟨e1, he1, _⟩ := (hmo'.top t).mp ht
            simp [he1]

theorem inv_muxShift (w : MW) (h : InvCore w) (left : Bool) (x s : Nat) (a : Int)
    (hns : (doMuxShift w left x s a).2 ≠ .unsupported) :
    InvCore (doMuxShift w left x s a).1 ∧ (doMuxShift w left x s a).2 ≠ .panic := by
  cases hx : w.sigs.get x with
  | none => simp [doMuxShift, hx] at hns
  | some xe =>
    cases hk : xe.kind with
    | leaf z => simp [doMuxShift, hx, hk] at hns
    | mux gc gs =>
      have hxo := h.muxOK hx hk
      cases hl : xe.mx.groupIds.get s with
      | none => simp only [doMuxShift, hx, hk, hl]; exact ⟨h, by simp⟩
      | some ids =>
        by_cases hlen : ids.length > 1
        · simp only [doMuxShift, hx, hk, hl, hlen, ↓reduceIte]; exact ⟨h, by simp⟩
        · obtain ⟨l1, l2, l3, l4⟩ := hxo.listed s ids hl
          cases ids with
          | nil => exact absurd rfl l1
          | cons g rest =>
            have hrest : rest = [] := by
              cases rest with
              | nil => rfl
              | cons _ _ => simp at hlen
            subst hrest
            simp only [doMuxShift, hx, hk, hl, hlen, ↓reduceIte]
            obtain ⟨hg0, hg1⟩ := l3 g (by simp)
            have hkl : g.toNat < xe.mx.groups.length := by rw [hxo.shape.1]; omega
            have hgm := getD_mem xe.mx.groups g.toNat [] hkl
            have hst : ∀ i ∈ xe.mx.groups.getD g.toNat [], (w.sigs.get i).isSome := by
              intro i hi
              obtain ⟨e, he, _⟩ := hxo.mem_stored hgm hi
              simp [he]
            obtain ⟨c1, c2, c3, c4, c5⟩ := shiftLayout_spec w left gs (xe.mx.groups.getD g.toNat []) s a
              (hxo.nodup _ hgm) hst (hxo.wf _ hgm)
            refine ⟨?_, c1⟩
            obtain ⟨se, hse, hsp⟩ : ∃ e, w.sigs.get s = some e ∧ e.parentMux = some x :=
              (hxo.child s).mp ((hxo.split s).mpr (Or.inr (by simp [hl])))
            apply inv_geo w _ h c2 (hsig_of_relOnly w _ c4 (fun i e z hi hz => h.sizesPos i e z hi hz))
            · intro y ye gc' gs' hy hky g' hg'
              have hyo := h.muxOK hy hky
              by_cases hsg : s ∈ g'
              · -- then y = x and g' is the shifted group
                obtain ⟨e1, he1, hp1⟩ := hyo.mem_stored hg' hsg
                rw [hse] at he1; cases he1
                rw [hsp] at hp1; cases hp1
                rw [hx] at hy; cases hy
                rw [hk] at hky; cases hky
                obtain ⟨j, hj, hjg⟩ := mem_getD xe.mx.groups [] g' hg'
                have hjj : (j : Int) ∈ [g] := (l4 j (by rw [← hxo.shape.1]; exact hj)).mp (by rw [hjg]; exact hsg)
                simp only [List.mem_singleton] at hjj
                have : j = g.toNat := by omega
                subst this
                rw [← hjg]
                exact c3
              · rw [slotsOf_unchanged w _ g']
                · exact hyo.wf g' hg'
                · intro t ht e he
                  apply c5 t e _ he
                  left
                  rintro rfl
                  exact hsg ht
                · intro t ht
                  obtain ⟨e1, he1, _⟩ := hyo.mem_stored hg' ht
                  simp [he1]
            · intro m' msg' hm'
              have hmo' := h.msgOK hm'
              rw [slotsOf_unchanged w _ msg'.layout]
              · exact hmo'.wf
              · intro t ht e he
                apply c5 t e _ he
                left
                rintro rfl
                obtain ⟨e1, he1, hp1, _⟩ := (hmo'.top t).mp ht
                rw [hse] at he1; cases he1
                rw [hsp] at hp1; cases hp1
              · intro t ht
                obtain ⟨e1, he1, _⟩ := (hmo'.top t).mp ht
                simp [he1]

end Acme.Mux
