/-
C11 at message level, part 4: export → import on the expressible fragment.
-/
import Acme.Spec.ExportImport
import Acme.Proofs.ExportSort

namespace Acme.Import
open Acme.Layout Acme.Conv Acme.Arith
open Acme.Mux (sortInts compactAdj)

/-! ### positions read back -/

theorem sigPos_of (be : Bool) (pos : Int) (h : 0 ≤ pos) (s : DSig) (hs : s.start = fileStart be pos)
    (hb : s.bigEndian = be) : sigPos s = pos := by
  unfold sigPos
  rw [hb, hs]
  unfold fileStart
  cases be
  · simp only [Bool.false_eq_true, if_false]
    exact Int.toNat_of_nonneg h
  · simp only [if_true]
    have := Acme.Conv.convStart_invol pos h
    rw [Int.toNat_of_nonneg this.2]
    exact this.1

theorem kidSig_pos (be : Bool) (n : MuxNode) (p : Child × Int) (h0 : 0 ≤ n.start + n.selW + p.1.rel) :
    sigPos (kidSig be n p) = n.start + n.selW + p.1.rel := sigPos_of be _ h0 _ rfl rfl

theorem muxSig_pos (be : Bool) (n : MuxNode) (h0 : 0 ≤ n.start) : sigPos (muxSigOf be n) = n.start :=
  sigPos_of be _ h0 _ rfl rfl

theorem leafSig_pos (be : Bool) (l : Leaf) (h0 : 0 ≤ l.start) : sigPos (leafSig be l) = l.start :=
  sigPos_of be _ h0 _ rfl rfl

/-! ### the multiplexer read back -/

theorem addKids_exported (be : Bool) (n : MuxNode) (h : MuxOK n) (h0 : 0 ≤ n.start) :
    ∀ (ps : List (Child × Int)) (acc : List Child),
    (∀ p ∈ ps, p ∈ seenChildren n) → KidsInv n.groupCount n.groupSize acc →
    (acc ++ ps.map (·.1)).Pairwise (GroupDisj n.groupCount) →
    ((acc ++ ps.map (·.1)).map (·.name)).Nodup →
    addKids (extsOf n) n.groupCount n.groupSize (n.start + n.selW) acc (ps.map (kidSig be n)) =
      .ok (acc ++ ps.map (·.1))
  | [], acc, _, _, _, _ => by simp [addKids]
  | p :: r, acc, hmem, hinv, hpw, hnd => by
    have hp := hmem p (List.mem_cons_self ..)
    have hc : p.1 ∈ n.children := (seen_inv n h).sub p hp
    obtain ⟨hid1, hid2, _, hsz⟩ := h.ids p.1 hc
    obtain ⟨hb0, hb1⟩ := child_bounds n h p.1 hc
    have hpos := kidSig_pos be n p (by have := h.w1; omega)
    have hchild : (⟨(kidSig be n p).name, sigPos (kidSig be n p) - (n.start + n.selW),
        ((kidSig be n p).size : Int), p.1.gids, (kidSig be n p).isMultiplexor⟩ : Child) = p.1 := by
      rw [hpos]
      have e3 : (kidSig be n p).isMultiplexor = p.1.isMux := by
        rw [h.noMux p.1 hc]; rfl
      have e1 : (kidSig be n p).name = p.1.name := rfl
      have e2 : (((kidSig be n p).size : Nat) : Int) = p.1.size := by
        show ((p.1.size.toNat : Nat) : Int) = p.1.size
        exact Int.toNat_of_nonneg (by omega)
      rw [e1, e2]
      have : n.start + n.selW + p.1.rel - (n.start + n.selW) = p.1.rel := by omega
      rw [this, e3]
    have hfresh : ∀ d ∈ acc, d.name ≠ p.1.name := by
      intro d hd hn
      rw [List.map_append, List.nodup_append] at hnd
      exact hnd.2.2 d.name (List.mem_map.2 ⟨d, hd, rfl⟩) p.1.name
        (by simp) hn
    have hdisj : ∀ d ∈ acc, GroupDisj n.groupCount d p.1 := by
      intro d hd
      exact (List.pairwise_append.1 hpw).2.2 d hd p.1 (by simp)
    have hins := muxInsert_ok n.groupCount n.groupSize acc p.1 hinv hsz hfresh ⟨hid1, hid2⟩ hb0 hb1 hdisj
    obtain ⟨c', hc', _, _, _, _, _, hw', hi', hn'⟩ :=
      muxInsert_spec n.groupCount n.groupSize acc _ p.1 hins hsz hinv.wf hinv.ids hinv.names
    have hinv' : KidsInv n.groupCount n.groupSize (acc ++ [p.1]) := by
      refine ⟨hw', hi', hn', ?_⟩
      intro c hcm
      rcases List.mem_append.1 hcm with h1 | h1
      · exact hinv.sizes c h1
      · rw [List.mem_singleton] at h1; subst h1; exact hsz
    have ih := addKids_exported be n h h0 r (acc ++ [p.1])
      (fun q hq => hmem q (List.mem_cons_of_mem _ hq)) hinv'
      (by simpa [List.append_assoc] using hpw) (by simpa [List.append_assoc] using hnd)
    simp only [List.map_cons, addKids, kidIds_exported be n h p hp, hchild, hins]
    rw [ih]
    simp [List.append_assoc]

theorem maxEnd_eq (M : Int) : ∀ (kids : List DSig) (acc : Int), acc ≤ M →
    (∀ k ∈ kids, (k.size : Int) + sigPos k ≤ M) →
    (acc = M ∨ ∃ k ∈ kids, (k.size : Int) + sigPos k = M) → maxEnd kids acc = M
  | [], acc, _, _, h => by
    rcases h with h | ⟨k, hk, _⟩
    · exact h
    · cases hk
  | a :: r, acc, hacc, hall, h => by
    simp only [maxEnd]
    have ha := hall a (List.mem_cons_self ..)
    apply maxEnd_eq M r _ (by split <;> omega) (fun k hk => hall k (List.mem_cons_of_mem _ hk))
    rcases h with h | ⟨k, hk, hk'⟩
    · left; split <;> omega
    · rcases List.mem_cons.1 hk with rfl | hk
      · left; split <;> omega
      · exact Or.inr ⟨k, hk, hk'⟩

theorem importMux_exported (be : Bool) (n : MuxNode) (h : MuxOK n) (h0 : 0 ≤ n.start)
    (ps : List (Child × Int)) (hperm : ps.Perm (seenChildren n)) :
    importMux (extsOf n) (muxSigOf be n) (ps.map (kidSig be n)) =
      .ok { n with children := ps.map (·.1) } := by
  have hstart := muxSig_pos be n h0
  have hw : (((muxSigOf be n).size : Nat) : Int) = n.selW := by
    show ((n.selW.toNat : Nat) : Int) = n.selW
    exact Int.toNat_of_nonneg (by have := h.w1; omega)
  have hchildren : (ps.map (·.1)).Perm n.children := (hperm.map _).trans (seen_perm n h)
  have hmemps : ∀ p ∈ ps, p ∈ seenChildren n := fun p hp => hperm.mem_iff.1 hp
  -- the highest end bit
  have hmax : maxEnd (ps.map (kidSig be n)) 0 = n.start + n.selW + n.groupSize := by
    apply maxEnd_eq
    · have := h.w1; have := h.gsPos; omega
    · intro k hk
      obtain ⟨p, hp, rfl⟩ := List.mem_map.1 hk
      have hc : p.1 ∈ n.children := (seen_inv n h).sub p (hmemps p hp)
      obtain ⟨hb0, hb1⟩ := child_bounds n h p.1 hc
      rw [kidSig_pos be n p (by have := h.w1; omega)]
      have : (((kidSig be n p).size : Nat) : Int) = p.1.size := by
        show ((p.1.size.toNat : Nat) : Int) = p.1.size
        exact Int.toNat_of_nonneg (by have := (h.ids p.1 hc).2.2.2; omega)
      rw [this]; omega
    · right
      obtain ⟨c, hc, htight⟩ := h.tight
      have hcm : c ∈ ps.map (·.1) := hchildren.mem_iff.2 hc
      obtain ⟨p, hp, rfl⟩ := List.mem_map.1 hcm
      refine ⟨kidSig be n p, List.mem_map.2 ⟨p, hp, rfl⟩, ?_⟩
      obtain ⟨hb0, hb1⟩ := child_bounds n h p.1 hc
      rw [kidSig_pos be n p (by have := h.w1; omega)]
      have : (((kidSig be n p).size : Nat) : Int) = p.1.size := by
        show ((p.1.size.toNat : Nat) : Int) = p.1.size
        exact Int.toNat_of_nonneg (by have := (h.ids p.1 hc).2.2.2; omega)
      rw [this]; omega
  have hgc : calcValue n.selW = n.groupCount := h.gc.symm
  have hnew : newMux n.groupCount n.groupSize = .ok () := by
    unfold newMux
    have := h.gc2; have := h.gsPos
    rw [if_neg (by omega), if_neg (by omega), if_neg (by omega), if_neg (by omega)]
  have hsel : calcSize (n.groupCount - 1) = n.selW := by
    rw [h.gc]
    exact Acme.Conv.selector_roundtrip n.selW h.w1 h.w62
  have hkids := addKids_exported be n h h0 ps [] hmemps (kidsInv_nil _ _ (by have := h.gsPos; omega))
    (by
      rw [List.nil_append]
      exact (hchildren.pairwise_iff (fun hab => GroupDisj.symm hab)).2 (groupsWF_pairwise _ _ _ h.wf))
    (by
      rw [List.nil_append]
      exact ((hchildren.map _).nodup_iff).2 h.names)
  unfold importMux
  simp only [hstart, hw, hmax, hgc]
  have hpos : n.start + n.selW + n.groupSize > 0 := by have := h.w1; have := h.gsPos; omega
  rw [if_pos hpos]
  have e : n.start + n.selW + n.groupSize - n.start - n.selW = n.groupSize := by omega
  have hsz0 : ¬ (muxSigOf be n).size = 0 := by
    have := h.w1
    omega
  rw [e, if_neg hsz0, hnew]
  simp only [hkids, List.nil_append, hsel]
  rfl

/-! ### the whole message -/

theorem firstLoop_ok (cap : Int) (be0 : Bool) : ∀ (l : List DSig) (seen : List String),
    (∀ s ∈ l, sigPos s + (s.size : Int) ≤ cap ∧ s.bigEndian = be0) →
    (l.map (·.name)).Nodup → (∀ s ∈ l, s.name ∉ seen) → firstLoop cap be0 seen l = .ok ()
  | [], _, _, _, _ => rfl
  | s :: r, seen, h, hnd, hseen => by
    obtain ⟨h1, h2⟩ := h s (List.mem_cons_self ..)
    rw [List.map_cons, List.nodup_cons] at hnd
    have hc : seen.contains s.name = false := by
      cases hcc : seen.contains s.name
      · rfl
      · exact absurd (by simpa using hcc) (hseen s (List.mem_cons_self ..))
    simp only [firstLoop, hc, Bool.false_eq_true, if_false, if_neg (by omega : ¬ sigPos s + (s.size : Int) > cap)]
    rw [if_neg (by simp [h2])]
    apply firstLoop_ok cap be0 r (s.name :: seen) (fun x hx => h x (List.mem_cons_of_mem _ hx)) hnd.2
    intro x hx hm
    rcases List.mem_cons.1 hm with hm | hm
    · exact hnd.1 (hm ▸ List.mem_map.2 ⟨x, hx, rfl⟩)
    · exact hseen x (List.mem_cons_of_mem _ hx) hm

theorem importMsg_eval_plain (m : DMsg) (top : List Item)
    (hf : firstLoop (8 * (m.size : Int)) (headBE (sortSigs m.sigs)) [] (sortSigs m.sigs) = .ok ())
    (hs : m.size ≤ 8) (hm : (sortSigs m.sigs).filter (·.isMultiplexor) = [])
    (hr : importPlain (8 * (m.size : Int)) [] (sortSigs m.sigs) = .ok top) :
    importMsg m = .ok ⟨m.id, m.size, headBE (sortSigs m.sigs), top, []⟩ := by
  unfold importMsg
  dsimp only
  rw [hf]
  simp only [if_neg (by omega : ¬ m.size > 8), hm, hr, Except.map]

theorem importMsg_eval_one (m : DMsg) (top : List Item) (mx : DSig)
    (hf : firstLoop (8 * (m.size : Int)) (headBE (sortSigs m.sigs)) [] (sortSigs m.sigs) = .ok ())
    (hs : m.size ≤ 8) (hm : (sortSigs m.sigs).filter (·.isMultiplexor) = [mx])
    (hr : importOne (8 * (m.size : Int)) m.exts mx (sortSigs m.sigs) = .ok top) :
    importMsg m = .ok ⟨m.id, m.size, headBE (sortSigs m.sigs), top, []⟩ := by
  unfold importMsg
  dsimp only
  rw [hf]
  simp only [if_neg (by omega : ¬ m.size > 8), hm, hr, Except.map]

theorem splitOne_eval (muxName : String) : ∀ (l muxed std : List DSig) (last : Int),
    (∀ s ∈ l, (s.name == muxName) = false → checkSig s = .ok ()) →
    ∃ last', splitOne muxName l muxed std last =
        .ok (muxed ++ l.filter (fun s => !(s.name == muxName) && s.isMultiplexed),
             std ++ l.filter (fun s => !(s.name == muxName) && !s.isMultiplexed), last') ∧
      (last' = last ∨ ∃ s ∈ l, (s.name == muxName) = false ∧ s.isMultiplexed = true ∧ last' = sigPos s)
  | [], muxed, std, last, _ => ⟨last, by simp [splitOne], Or.inl rfl⟩
  | s :: r, muxed, std, last, h => by
    have hr : ∀ x ∈ r, (x.name == muxName) = false → checkSig x = .ok () :=
      fun x hx => h x (List.mem_cons_of_mem _ hx)
    unfold splitOne
    by_cases hname : (s.name == muxName) = true
    · obtain ⟨last', h1, h2⟩ := splitOne_eval muxName r muxed std last hr
      refine ⟨last', ?_, ?_⟩
      · rw [if_pos hname, h1]
        simp [List.filter_cons, hname]
      · rcases h2 with h2 | ⟨x, hx, h2⟩
        · exact Or.inl h2
        · exact Or.inr ⟨x, List.mem_cons_of_mem _ hx, h2⟩
    · have hname' : (s.name == muxName) = false := by simpa using hname
      rw [if_neg hname, h s (List.mem_cons_self ..) hname']
      by_cases hm : s.isMultiplexed = true
      · obtain ⟨last', h1, h2⟩ := splitOne_eval muxName r (muxed ++ [s]) std
          (if sigPos s > last then sigPos s else last) hr
        refine ⟨last', ?_, ?_⟩
        · simp only [hm, if_true, h1]
          simp [List.filter_cons, hname', hm]
        · rcases h2 with h2 | ⟨x, hx, h2⟩
          · by_cases hgt : sigPos s > last
            · rw [if_pos hgt] at h2
              exact Or.inr ⟨s, List.mem_cons_self .., hname', hm, h2⟩
            · rw [if_neg hgt] at h2
              exact Or.inl h2
          · exact Or.inr ⟨x, List.mem_cons_of_mem _ hx, h2⟩
      · have hm' : s.isMultiplexed = false := by simpa using hm
        obtain ⟨last', h1, h2⟩ := splitOne_eval muxName r muxed (std ++ [s]) last hr
        refine ⟨last', ?_, ?_⟩
        · simp only [hm', Bool.false_eq_true, if_false, h1]
          simp [List.filter_cons, hname', hm']
        · rcases h2 with h2 | ⟨x, hx, h2⟩
          · exact Or.inl h2
          · exact Or.inr ⟨x, List.mem_cons_of_mem _ hx, h2⟩

end Acme.Import
