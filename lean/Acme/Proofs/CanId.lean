/-
Lemmas for C14.  Names used by Acme.Props.C14: calcOp_id_bit, calcOp_mask_bit,
partials_last, default_lt_2048, can2a_lt_2048, insertOp_spec, removeOp_spec, insertOp_valid.
-/
import Acme.Core.CanId
import Acme.Spec.CanId

namespace Acme.CanId

/-- `ValidOp` is a conjunction of integer comparisons (used by `decide` in the Props file). -/
instance (op : BOp) : Decidable (ValidOp op) := by
  unfold ValidOp; infer_instance

/-! ### `u32` and `lenMask` on in-range arguments -/

theorem u32_natCast (n : Nat) (h : n < 4294967296) : u32 (n : Int) = n := by
  unfold u32
  omega

theorem allOnes32 : (0xFFFFFFFF#32) = BitVec.allOnes 32 := by decide

/-- bit `j` of `lenMask l` (for `l ≤ 32`) is set iff `j < l`. -/
theorem lenMask_getLsbD (l : Nat) (hl : l ≤ 32) (j : Nat) :
    (lenMask (l : Int)).getLsbD j = decide (j < l) := by
  unfold lenMask
  have h : (32 : Int) - (l : Int) = ((32 - l : Nat) : Int) := by omega
  rw [h, u32_natCast _ (by omega), allOnes32, BitVec.getLsbD_ushiftRight,
    BitVec.getLsbD_allOnes]
  by_cases hj : j < l
  · simp [hj]; omega
  · simp [hj]; omega

/-- a valid operation has natural `from` / `len` -/
theorem ValidOp.exists_nat {op : BOp} (hv : ValidOp op) :
    ∃ f l : Nat, op.from_ = (f : Int) ∧ op.len = (l : Int) ∧ f ≤ 31 ∧ f + l ≤ 32 := by
  obtain ⟨h1, h2, h3, h4⟩ := hv
  refine ⟨op.from_.toNat, op.len.toNat, ?_, ?_, ?_, ?_⟩ <;> omega

/-- the shifted window mask, bit by bit -/
theorem window_getLsbD (x : BitVec 32) (f l : Nat) (hf : f ≤ 31) (hl : f + l ≤ 32)
    (i : Nat) (hi : i < 32) :
    ((x &&& lenMask (l : Int)) <<< u32 (f : Int)).getLsbD i =
      (decide (f ≤ i ∧ i < f + l) && x.getLsbD (i - f)) := by
  rw [u32_natCast _ (by omega), BitVec.getLsbD_shiftLeft, BitVec.getLsbD_and,
    lenMask_getLsbD _ (by omega)]
  by_cases h1 : i < f
  · have : ¬ (f ≤ i ∧ i < f + l) := by omega
    simp [h1, this]
  · by_cases h2 : i < f + l
    · have h3 : i - f < l := by omega
      have h4 : f ≤ i ∧ i < f + l := by omega
      simp [hi, h1, h3, h4]
    · have h3 : ¬ (i - f < l) := by omega
      have h4 : ¬ (f ≤ i ∧ i < f + l) := by omega
      simp [hi, h1, h3, h4]

theorem calcOp_not_mask (op : BOp) (hk : op.kind ≠ .mask) (prev prio mid nid : BitVec 32) :
    calcOp op prev prio mid nid =
      prev ||| ((src op.kind prio mid nid &&& lenMask op.len) <<< u32 op.from_) := by
  unfold calcOp src
  cases hkind : op.kind <;> simp_all

theorem calcOp_mask (op : BOp) (hk : op.kind = .mask) (prev prio mid nid : BitVec 32) :
    calcOp op prev prio mid nid = prev &&& (lenMask op.len <<< u32 op.from_) := by
  unfold calcOp
  simp [hk]

theorem calcOp_id_bit (op : BOp) (hv : ValidOp op) (hk : op.kind ≠ .mask)
    (prev prio mid nid : BitVec 32) (i : Nat) (hi : i < 32) :
    (calcOp op prev prio mid nid).getLsbD i =
      (prev.getLsbD i ||
        (decide (op.from_ ≤ i ∧ (i : Int) < op.from_ + op.len) &&
          (src op.kind prio mid nid).getLsbD (i - op.from_.toNat))) := by
  obtain ⟨f, l, hf, hl, hf31, hfl⟩ := hv.exists_nat
  rw [calcOp_not_mask op hk, BitVec.getLsbD_or, hf, hl, window_getLsbD _ f l hf31 hfl i hi]
  have hd : decide ((f : Int) ≤ (i : Int) ∧ (i : Int) < (f : Int) + (l : Int)) =
      decide (f ≤ i ∧ i < f + l) := by
    apply decide_eq_decide.mpr
    omega
  rw [hd, Int.toNat_natCast]

theorem calcOp_mask_bit (op : BOp) (hv : ValidOp op) (hk : op.kind = .mask)
    (prev prio mid nid : BitVec 32) (i : Nat) (hi : i < 32) :
    (calcOp op prev prio mid nid).getLsbD i =
      (prev.getLsbD i && decide (op.from_ ≤ i ∧ (i : Int) < op.from_ + op.len)) := by
  obtain ⟨f, l, hf, hl, hf31, hfl⟩ := hv.exists_nat
  have hw := window_getLsbD (BitVec.allOnes 32) f l hf31 hfl i hi
  have hall : BitVec.allOnes 32 &&& lenMask (l : Int) = lenMask (l : Int) :=
    BitVec.allOnes_and
  rw [hall] at hw
  rw [calcOp_mask op hk, BitVec.getLsbD_and, hf, hl, hw]
  have hd : decide ((f : Int) ≤ (i : Int) ∧ (i : Int) < (f : Int) + (l : Int)) =
      decide (f ≤ i ∧ i < f + l) := by
    apply decide_eq_decide.mpr
    omega
  rw [hd, BitVec.getLsbD_allOnes]
  have : i - f < 32 := by omega
  simp [this]

/-! ### partial results -/

theorem partialsFrom_length (acc prio mid nid : BitVec 32) (ops : List BOp) :
    (partialsFrom acc prio mid nid ops).length = ops.length := by
  induction ops generalizing acc with
  | nil => rfl
  | cons op ops ih => simp [partialsFrom, ih]

theorem partialsFrom_getLast (acc prio mid nid : BitVec 32) (op : BOp) (ops : List BOp) :
    (partialsFrom acc prio mid nid (op :: ops)).getLast? =
      some ((op :: ops).foldl (fun a o => calcOp o a prio mid nid) acc) := by
  induction ops generalizing acc op with
  | nil => simp [partialsFrom]
  | cons op' ops ih =>
    have := ih (calcOp op acc prio mid nid) op'
    rw [partialsFrom, List.getLast?_cons, this]
    simp

theorem partials_last (ops : List BOp) (h : ops ≠ []) (prio mid nid : BitVec 32) :
    (partials ops prio mid nid).getLast? = some (calculate ops prio mid nid) ∧
    (partials ops prio mid nid).length = ops.length := by
  refine ⟨?_, partialsFrom_length _ _ _ _ _⟩
  cases ops with
  | nil => exact absurd rfl h
  | cons op ops => exact partialsFrom_getLast _ _ _ _ _ _

/-! ### 11-bit results -/

theorem can2a_mask (x prio mid nid : BitVec 32) :
    calcOp ⟨.mask, 0, 11⟩ x prio mid nid = x &&& 0x7FF#32 := by
  have : (lenMask 11 <<< u32 0) = 0x7FF#32 := by decide
  simp [calcOp, this]

theorem and_7FF_lt (x : BitVec 32) : (x &&& 0x7FF#32).toNat < 2048 := by
  rw [BitVec.toNat_and]
  have : x.toNat &&& (0x7FF#32).toNat ≤ (0x7FF#32).toNat := Nat.and_le_right
  have h2 : (0x7FF#32).toNat = 2047 := by decide
  omega

theorem can2a_lt_2048 (ops : List BOp) (prio mid nid : BitVec 32) :
    (calculate (ops ++ [⟨.mask, 0, 11⟩]) prio mid nid).toNat < 2048 := by
  unfold calculate
  rw [List.foldl_append]
  simp only [List.foldl_cons, List.foldl_nil]
  rw [can2a_mask]
  exact and_7FF_lt _

theorem default_lt_2048 (prio mid nid : BitVec 32) :
    (calculate defaultOps prio mid nid).toNat < 2048 :=
  can2a_lt_2048 [⟨.nodeId, 0, 4⟩, ⟨.msgId, 4, 7⟩] prio mid nid

/-! ### insert / remove -/

theorem insertOp_spec (ops : List BOp) (k : Kind) (f l idx : Int) :
    (0 ≤ f ∧ f ≤ 31 ∧ 0 ≤ l ∧ l ≤ 32 - f ∧ 0 ≤ idx ∧ idx ≤ ops.length →
        insertOp ops k f l idx = .ok (ops.insertIdx idx.toNat ⟨k, f, l⟩)) ∧
    (¬ (0 ≤ f ∧ f ≤ 31 ∧ 0 ≤ l ∧ l ≤ 32 - f ∧ 0 ≤ idx ∧ idx ≤ ops.length) →
        ∃ a, insertOp ops k f l idx = .error (.outOfBounds a)) := by
  constructor
  · intro ⟨h1, h2, h3, h4, h5, h6⟩
    unfold insertOp
    rw [if_neg (by omega), if_neg (by omega), if_neg (by omega)]
  · intro hn
    unfold insertOp
    split
    · exact ⟨_, rfl⟩
    · split
      · exact ⟨_, rfl⟩
      · split
        · exact ⟨_, rfl⟩
        · exfalso; apply hn; omega

theorem removeOp_spec (ops : List BOp) (idx : Int) :
    (0 ≤ idx ∧ idx < ops.length → removeOp ops idx = .ok (ops.eraseIdx idx.toNat)) ∧
    (¬ (0 ≤ idx ∧ idx < ops.length) → ∃ a, removeOp ops idx = .error (.outOfBounds a)) := by
  constructor
  · intro ⟨h1, h2⟩
    unfold removeOp
    rw [if_neg (by omega)]
  · intro hn
    unfold removeOp
    split
    · exact ⟨_, rfl⟩
    · exfalso; apply hn; omega

theorem insertOp_valid (ops : List BOp) (k : Kind) (f l idx : Int) (ops' : List BOp)
    (hall : ∀ o ∈ ops, ValidOp o) (h : insertOp ops k f l idx = .ok ops') :
    ∀ o ∈ ops', ValidOp o := by
  unfold insertOp at h
  split at h
  · cases h
  · split at h
    · cases h
    · split at h
      · cases h
      · rename_i h1 h2 h3
        injection h with h
        subst h
        intro o ho
        rw [List.mem_insertIdx (by omega)] at ho
        rcases ho with rfl | ho
        · refine ⟨?_, ?_, ?_, ?_⟩ <;> simp only <;> omega
        · exact hall o ho

end Acme.CanId
