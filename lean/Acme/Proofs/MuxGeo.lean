/-
Multiplexer world, part E: operations that only move signals (`applyDeltas` on one slice) —
the general preservation lemma `inv_geo` and the shifts.
-/
import Acme.Proofs.MuxNew

namespace Acme.Mux
open Acme.Layout Acme.Arith

/-- `{e with rel := e.rel}` -/
theorem SigE.rel_eta (e : SigE) (r : Int) (h : r = e.rel) : { e with rel := r } = e := by
  subst h; rfl

/-- The effect of `applyDeltas` on the slot view of a slice `ids` (no repeated ids, all stored)
    when the new slots keep ids and sizes. -/
theorem applyDeltas_slots (w : MW) (ids : List Nat) (new : List Slot)
    (hnd : ids.Nodup) (hst : ∀ i ∈ ids, (w.sigs.get i).isSome)
    (hnew : new.map (fun x => (x.id, x.size)) = (slotsOf w ids).map (fun x => (x.id, x.size))) :
    let w1 : MW := { w with sigs := applyDeltas w.sigs (slotsOf w ids) new }
    slotsOf w1 ids = new ∧
    (∀ i, i ∉ ids → w1.sigs.get i = w.sigs.get i) ∧
    (∀ i, ∃ r, w1.sigs.get i = (w.sigs.get i).map (fun e => { e with rel := r })) ∧
    (∀ i e, w.sigs.get i = some e → (∀ n ∈ new, n.id = i → n.start = e.rel) → w1.sigs.get i = some e) := by
  intro w1
  have hids : (slotsOf w ids).map (·.id) = ids := slotsOf_map_id w ids hst
  have hnid : new.map (·.id) = (slotsOf w ids).map (·.id) := by
    have := congrArg (List.map Prod.fst) hnew
    simpa [List.map_map, Function.comp_def] using this
  have hnsz : new.map (·.size) = (slotsOf w ids).map (·.size) := by
    have := congrArg (List.map Prod.snd) hnew
    simpa [List.map_map, Function.comp_def] using this
  have hold : ∀ o ∈ slotsOf w ids, ∃ e, w.sigs.get o.id = some e ∧ e.rel = o.start := by
    intro o ho
    obtain ⟨_, e, he, h1, _⟩ := mem_slotsOf w ids o ho
    exact ⟨e, he, h1.symm⟩
  obtain ⟨s1, s2⟩ := applyDeltas_spec w.sigs (slotsOf w ids) new (by rw [hids]; exact hnd) hnid hold
  -- every new slot has the size of the stored signal
  have hsize : ∀ n ∈ new, ∃ e, w.sigs.get n.id = some e ∧ sigSize e = n.size := by
    intro n hn
    have hp : (n.id, n.size) ∈ (slotsOf w ids).map (fun x => (x.id, x.size)) := by
      rw [← hnew]; exact List.mem_map.mpr ⟨n, hn, rfl⟩
    obtain ⟨o, ho, hoe⟩ := List.mem_map.mp hp
    simp only [Prod.mk.injEq] at hoe
    obtain ⟨_, e, he, _, h2⟩ := mem_slotsOf w ids o ho
    exact ⟨e, by rw [← hoe.1]; exact he, by rw [← hoe.2, h2]⟩
  refine ⟨?_, ?_, ?_, ?_⟩
  · have : ids = new.map (·.id) := by rw [hnid, hids]
    rw [this]
    apply slotsOf_of_pointwise
    intro n hn
    obtain ⟨e, he, hsz⟩ := hsize n hn
    refine ⟨{ e with rel := n.start }, ?_, rfl, ?_⟩
    · show (applyDeltas w.sigs (slotsOf w ids) new).get n.id = _
      rw [s1 n hn, he]; rfl
    · simpa [sigSize] using hsz
  · intro i hi
    exact s2 i (by rw [hids]; exact hi)
  · intro i
    by_cases hi : i ∈ ids
    · have : i ∈ new.map (·.id) := by rw [hnid, hids]; exact hi
      obtain ⟨n, hn, rfl⟩ := List.mem_map.mp this
      exact ⟨n.start, s1 n hn⟩
    · cases he : w.sigs.get i with
      | none => exact ⟨0, by show (applyDeltas w.sigs (slotsOf w ids) new).get i = _; rw [s2 i (by rw [hids]; exact hi), he]; rfl⟩
      | some e =>
        refine ⟨e.rel, ?_⟩
        show (applyDeltas w.sigs (slotsOf w ids) new).get i = _
        rw [s2 i (by rw [hids]; exact hi), he]
        rfl
  · intro i e he hsame
    by_cases hi : i ∈ ids
    · have : i ∈ new.map (·.id) := by rw [hnid, hids]; exact hi
      obtain ⟨n, hn, rfl⟩ := List.mem_map.mp this
      show (applyDeltas w.sigs (slotsOf w ids) new).get n.id = _
      rw [s1 n hn, he]
      simp only [Option.map_some, Option.some.injEq]
      exact SigE.rel_eta e _ (hsame n hn rfl)
    · show (applyDeltas w.sigs (slotsOf w ids) new).get i = _
      rw [s2 i (by rw [hids]; exact hi), he]

/-- Operations that change only positions and leaf sizes preserve the invariant, provided
    every group and every layout is well-formed in the new world. -/
theorem inv_geo (w w' : MW) (h : InvCore w) (hmsgs : w'.msgs = w.msgs)
    (hsig : ∀ i, match w.sigs.get i with
      | none => w'.sigs.get i = none
      | some e => ∃ e', w'.sigs.get i = some e' ∧ e'.name = e.name ∧ e'.parentMux = e.parentMux ∧
          e'.parentMsg = e.parentMsg ∧ e'.mx = e.mx ∧
          (∀ gc gs, e'.kind = .mux gc gs ↔ e.kind = .mux gc gs) ∧ (∀ z, e'.kind = .leaf z → 0 < z))
    (hgeoMux : ∀ x xe gc gs, w.sigs.get x = some xe → xe.kind = .mux gc gs →
        ∀ g ∈ xe.mx.groups, WF gs (slotsOf w' g))
    (hgeoMsg : ∀ m msg, w.msgs.get m = some msg → WF msg.cap (slotsOf w' msg.layout)) :
    InvCore w' := by
  -- backwards: every signal of w' comes from one of w
  have hback : ∀ i e', w'.sigs.get i = some e' → ∃ e, w.sigs.get i = some e ∧ e'.name = e.name ∧
      e'.parentMux = e.parentMux ∧ e'.parentMsg = e.parentMsg ∧ e'.mx = e.mx ∧
      (∀ gc gs, e'.kind = .mux gc gs ↔ e.kind = .mux gc gs) ∧ (∀ z, e'.kind = .leaf z → 0 < z) := by
    intro i e' he'
    have := hsig i
    cases hi : w.sigs.get i with
    | none => rw [hi] at this; simp only at this; rw [this] at he'; cases he'
    | some e =>
      rw [hi] at this
      obtain ⟨e'', h1, rest⟩ := this
      rw [he'] at h1; cases h1
      exact ⟨e, rfl, rest⟩
  have hfwd : ∀ i e, w.sigs.get i = some e → ∃ e', w'.sigs.get i = some e' ∧ e'.name = e.name ∧
      e'.parentMux = e.parentMux ∧ e'.parentMsg = e.parentMsg ∧ e'.mx = e.mx ∧
      (∀ gc gs, e'.kind = .mux gc gs ↔ e.kind = .mux gc gs) ∧ (∀ z, e'.kind = .leaf z → 0 < z) := by
    intro i e hi
    have := hsig i
    rw [hi] at this
    exact this
  apply InvCore.of_parts
  · intro x xe' gc gs hx hk
    obtain ⟨xe, hxe, _, _, _, hmx, hkind, _⟩ := hback x xe' hx
    have hk0 := (hkind gc gs).mp hk
    have hm := h.muxOK hxe hk0
    apply hm.frame_geo hmx
    · intro s hs
      obtain ⟨e, he, _⟩ := (hm.child s).mp hs
      obtain ⟨e', he', h1, h2, _⟩ := hfwd s e he
      exact ⟨e, e', he, he', h1, h2⟩
    · intro s e' he' hp
      obtain ⟨e, he, _, h2, _⟩ := hback s e' he'
      exact (hm.child s).mpr ⟨e, he, by rw [← h2, hp]⟩
    · exact hgeoMux x xe gc gs hxe hk0
  · intro m msg hm
    rw [hmsgs] at hm
    have hmo := h.msgOK hm
    apply hmo.frame_geo
    · intro s hs
      obtain ⟨e, he, _⟩ := (hmo.reg s).mp hs
      obtain ⟨e', he', h1, h2, h3, _⟩ := hfwd s e he
      exact ⟨e, e', he, he', ⟨h1, h2, h3⟩⟩
    · intro s e' he' hp
      obtain ⟨e, he, _, _, h3, _⟩ := hback s e' he'
      exact (hmo.reg s).mpr ⟨e, he, by rw [← h3, hp]⟩
    · exact hgeoMsg m msg hm
  · intro s e' hs
    obtain ⟨e, he, _, h2, h3, _, hkind, hsz⟩ := hback s e' hs
    have hl := h.linkOK he
    refine ⟨hsz, ?_, ?_⟩
    · intro x hx
      obtain ⟨xe, gc, gs, a1, a2, a3⟩ := hl.parent x (by rw [← h2, hx])
      obtain ⟨xe', b1, _, _, b4, _, b6, _⟩ := hfwd x xe a1
      exact ⟨xe', gc, gs, b1, (b6 gc gs).mpr a2, by rw [b4, a3, h3]⟩
    · intro m hm
      rw [hmsgs]
      exact hl.msg m (by rw [← h3, hm])
  · obtain ⟨depth, hd⟩ := h.acyclic
    refine ⟨depth, ?_⟩
    intro s e' x hs hp
    obtain ⟨e, he, _, h2, _⟩ := hback s e' hs
    exact hd s e x he (by rw [← h2, hp])

/-- the shape `inv_geo` asks for, from "only `rel` changed" -/
theorem hsig_of_relOnly (w w' : MW)
    (h : ∀ i, ∃ r, w'.sigs.get i = (w.sigs.get i).map (fun e => { e with rel := r }))
    (hsz : ∀ i e z, w.sigs.get i = some e → e.kind = .leaf z → 0 < z) :
    ∀ i, match w.sigs.get i with
      | none => w'.sigs.get i = none
      | some e => ∃ e', w'.sigs.get i = some e' ∧ e'.name = e.name ∧ e'.parentMux = e.parentMux ∧
          e'.parentMsg = e.parentMsg ∧ e'.mx = e.mx ∧
          (∀ gc gs, e'.kind = .mux gc gs ↔ e.kind = .mux gc gs) ∧ (∀ z, e'.kind = .leaf z → 0 < z) := by
  intro i
  obtain ⟨r, hr⟩ := h i
  cases hi : w.sigs.get i with
  | none => rw [hi] at hr; simpa using hr
  | some e =>
    rw [hi] at hr
    exact ⟨{ e with rel := r }, hr, rfl, rfl, rfl, rfl, fun _ _ => Iff.rfl, fun z hz => hsz i e z hi hz⟩

/-! ### shifts -/

theorem find_none_ids (s : Nat) (l : List Slot) (h : find s l = none) : ∀ x ∈ l, x.id ≠ s := by
  intro x hx
  unfold find at h
  rw [List.find?_eq_none] at h
  simpa using h x hx

theorem shift_slots (cap : Int) (l : List Slot) (h : WF cap l) (hn : IdsNodup l) (left : Bool)
    (s : Nat) (a : Int) :
    WF cap (if left then shiftLeft l s a else shiftRight cap l s a).1 ∧
    ∃ d : Int, (if left then shiftLeft l s a else shiftRight cap l s a).1 =
      l.map (fun x => if x.id = s then { x with start := x.start + d } else x) := by
  have hid : ∀ (l : List Slot), (∀ x ∈ l, x.id ≠ s) →
      l = l.map (fun x => if x.id = s then { x with start := x.start + 0 } else x) := by
    intro l hl
    conv => lhs; rw [← List.map_id l]
    apply List.map_congr_left
    intro x hx
    simp [hl x hx]
  cases left with
  | true =>
    simp only [↓reduceIte]
    obtain ⟨h1, h2⟩ := shiftLeft_spec cap l h hn s a
    refine ⟨h1, ?_⟩
    cases hf : find s l with
    | none =>
      rw [hf] at h2
      simp only at h2
      rw [h2]
      exact ⟨0, hid l (find_none_ids s l hf)⟩
    | some sl =>
      rw [hf] at h2
      simp only at h2
      refine ⟨-(if a ≤ 0 then 0 else min a (sl.start - prevEndOf s 0 l)), ?_⟩
      rw [h2.2]
      apply List.map_congr_left
      intro x _
      split
      · congr 1
      · rfl
  | false =>
    simp only [Bool.false_eq_true, ↓reduceIte]
    obtain ⟨h1, h2⟩ := shiftRight_spec cap l h hn s a
    refine ⟨h1, ?_⟩
    cases hf : find s l with
    | none =>
      rw [hf] at h2
      simp only at h2
      rw [h2]
      exact ⟨0, hid l (find_none_ids s l hf)⟩
    | some sl =>
      rw [hf] at h2
      simp only at h2
      exact ⟨_, h2.2⟩

/-- `shiftLayout` on a well-formed slice: no panic, only `s` moves, the slice stays well-formed -/
theorem shiftLayout_spec (w : MW) (left : Bool) (cap : Int) (ids : List Nat) (s : Nat) (a : Int)
    (hnd : ids.Nodup) (hst : ∀ i ∈ ids, (w.sigs.get i).isSome) (hwf : WF cap (slotsOf w ids)) :
    (shiftLayout w left cap ids s a).2 ≠ .panic ∧
    (shiftLayout w left cap ids s a).1.msgs = w.msgs ∧
    WF cap (slotsOf (shiftLayout w left cap ids s a).1 ids) ∧
    (∀ i, ∃ r, (shiftLayout w left cap ids s a).1.sigs.get i = (w.sigs.get i).map (fun e => { e with rel := r })) ∧
    (∀ i e, (i ≠ s ∨ s ∉ ids) → w.sigs.get i = some e → (shiftLayout w left cap ids s a).1.sigs.get i = some e) := by
  unfold shiftLayout
  split
  · refine ⟨by simp, rfl, hwf, ?_, fun i e _ he => he⟩
    intro i
    cases hi : w.sigs.get i with
    | none => exact ⟨0, rfl⟩
    | some e => exact ⟨e.rel, rfl⟩
  · have hidn : IdsNodup (slotsOf w ids) := by
      unfold IdsNodup
      rw [slotsOf_map_id w ids hst]; exact hnd
    obtain ⟨hw1, d, hd⟩ := shift_slots cap (slotsOf w ids) hwf hidn left s a
    have hnew : (if left then shiftLeft (slotsOf w ids) s a else shiftRight cap (slotsOf w ids) s a).1.map (fun x => (x.id, x.size)) =
        (slotsOf w ids).map (fun x => (x.id, x.size)) := by
      rw [hd, List.map_map]
      apply List.map_congr_left
      intro x _
      simp only [Function.comp]
      split <;> rfl
    obtain ⟨b1, b2, b3, b4⟩ := applyDeltas_slots w ids _ hnd hst hnew
    simp only
    have hw := hw1
    rw [← b1] at hw
    have hnp := genPanics_false _ cap ids hw
    simp only [hnp, Bool.false_eq_true, ↓reduceIte]
    refine ⟨by simp, trivial, hw, b3, ?_⟩
    intro i e his he
    apply b4 i e he
    intro n hn hni
    rw [hd] at hn
    obtain ⟨o, ho, hon⟩ := List.mem_map.mp hn
    have hoid : o.id ≠ s := by
      intro hos
      rw [if_pos hos] at hon
      rcases his with his | his
      · apply his
        rw [← hni, ← hon]
        exact hos
      · apply his
        rw [← hos]
        exact (mem_slotsOf w ids o ho).1
    rw [if_neg hoid] at hon
    subst hon
    obtain ⟨_, e0, he0, h1, _⟩ := mem_slotsOf w ids o ho
    rw [hni, he] at he0
    cases he0
    exact h1

end Acme.Mux
