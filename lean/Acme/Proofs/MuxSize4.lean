/-
Multiplexer world, part W: `leaf.size` assembled.
-/
import Acme.Proofs.MuxSize3

namespace Acme.Mux
open Acme.Layout Acme.Arith

theorem verifyGrow_ne_panic (cap : Int) (l : List Slot) (id : Nat) (amount : Int) :
    verifyGrow cap l id amount ≠ .error .panic := by
  unfold verifyGrow
  split
  · simp
  · simp only
    split <;> simp

theorem verifyShrink_ne_panic (sz amount : Int) : verifyShrink sz amount ≠ .error .panic := by
  unfold verifyShrink
  split
  · simp
  · split
    · simp
    · split <;> simp

theorem verifySizeLoop_ok (w : MW) (gs : Int) (groups : List (List Nat)) (s : Nat) (sz amount : Int) :
    ∀ gl : List Nat, verifySizeLoop w gs groups s sz amount gl = .ok () →
      ∀ k ∈ gl, (if amount > 0 then verifyGrow gs (slotsOf w (groups.getD k [])) s amount else verifyShrink sz (-amount)) = .ok ()
  | [], _ => by simp
  | k :: rest, h => by
    simp only [verifySizeLoop] at h
    split at h
    · cases h
    · rename_i hv
      intro k' hk'
      simp only [List.mem_cons] at hk'
      rcases hk' with rfl | hk'
      · exact hv
      · exact verifySizeLoop_ok w gs groups s sz amount rest h k' hk'

theorem verifySizeLoop_ne_panic (w : MW) (gs : Int) (groups : List (List Nat)) (s : Nat) (sz amount : Int) :
    ∀ gl : List Nat, verifySizeLoop w gs groups s sz amount gl ≠ .error .panic
  | [] => by simp [verifySizeLoop]
  | k :: rest => by
    simp only [verifySizeLoop]
    split
    · rename_i e he
      intro hh
      cases hh
      split at he
      · exact verifyGrow_ne_panic _ _ _ _ he
      · exact verifyShrink_ne_panic _ _ he
    · exact verifySizeLoop_ne_panic w gs groups s sz amount rest

theorem outOfLErr_ne_panic (e : LErr) (h : e ≠ .panic) : outOfLErr e ≠ .panic := by
  cases e <;> simp [outOfLErr] at h ⊢

/-- what `inv_leafSize_final` needs of the world after `sizeModify` -/
def SizeReady (w w1 : MW) (s : Nat) (n : Int) : Prop :=
  w1.msgs = w.msgs ∧
  (∀ i, ∃ r, w1.sigs.get i = (w.sigs.get i).map (fun e => { e with rel := r })) ∧
  (∀ y ye gc gs, w.sigs.get y = some ye → ye.kind = .mux gc gs → ∀ g ∈ ye.mx.groups,
      WF gs (setSize (slotsOf w1 g) s n)) ∧
  (∀ m msg, w.msgs.get m = some msg → WF msg.cap (setSize (slotsOf w1 msg.layout) s n))

theorem relOnly_refl (w : MW) : ∀ i, ∃ r, w.sigs.get i = (w.sigs.get i).map (fun e => { e with rel := r }) := by
  intro i
  cases hi : w.sigs.get i with
  | none => exact ⟨0, rfl⟩
  | some e => exact ⟨e.rel, rfl⟩

theorem leafSize_mux (w : MW) (h : InvCore w) (s : Nat) (se : SigE) (z n : Int) (x : Nat)
    (hs : w.sigs.get s = some se) (hkz : se.kind = .leaf z) (hne : n - z ≠ 0)
    (hsx : se.parentMux = some x) (hadm : admissible w (.leafSize s n) = true) :
    (∃ o, sizeVerify w se s z (n - z) = .error o ∧ o ≠ .panic) ∨
    (sizeVerify w se s z (n - z) = .ok () ∧ ∃ w1, sizeModify w se s z (n - z) = (w1, none) ∧ SizeReady w w1 s n) := by
  obtain ⟨xe, gc, gs, hx, hk, _⟩ := h.parentIsMux s se x hs hsx
  have hxo := h.muxOK hx hk
  have hsch : s ∈ xe.mx.signals := (hxo.child s).mpr ⟨se, hs, hsx⟩
  have hc : xe.mx.signals.contains s = true := by simpa using hsch
  have hlen := hxo.shape.1
  -- the target groups
  obtain ⟨gl, htg, hglnd, hgl1, hgl2⟩ : ∃ gl, targetGroups xe gc s = some gl ∧ gl.Nodup ∧
      (∀ k ∈ gl, k < xe.mx.groups.length ∧ s ∈ xe.mx.groups.getD k []) ∧
      (∀ j, j < xe.mx.groups.length → s ∈ xe.mx.groups.getD j [] → j ∈ gl) := by
    unfold targetGroups
    by_cases hf : xe.mx.fixed.contains s = true
    · rw [if_pos hf]
      have hsf : s ∈ xe.mx.fixed := by simpa using hf
      refine ⟨_, rfl, List.nodup_range, ?_, ?_⟩
      · intro k hk'
        have hklt : k < xe.mx.groups.length := by rw [hlen]; simpa [allGroups] using hk'
        exact ⟨hklt, hxo.fixedEv s hsf _ (getD_mem _ _ _ hklt)⟩
      · intro j hj _
        simp only [allGroups, List.mem_range]; rw [← hlen]; exact hj
    · rw [if_neg hf]
      have hsnf : s ∉ xe.mx.fixed := by intro hh; apply hf; simpa using hh
      cases hl : xe.mx.groupIds.get s with
      | none =>
        exfalso
        rcases (hxo.split s).mp hsch with hh | hh
        · exact hsnf hh
        · rw [hl] at hh; simp at hh
      | some ids =>
        obtain ⟨l1, l2, l3, l4⟩ := hxo.listed s ids hl
        have hpos : ∀ g ∈ ids, 0 ≤ g := fun g hg => (l3 g hg).1
        refine ⟨_, rfl, toNat_map_nodup _ (nodup_of_strict _ l2) hpos, ?_, ?_⟩
        · intro k hk'
          have hkI := (mem_toNat_map _ hpos k).mp hk'
          have hklt : k < gc.toNat := by have := (l3 _ hkI).2; omega
          exact ⟨by rw [hlen]; exact hklt, (l4 k hklt).mpr hkI⟩
        · intro j hj hsj
          exact (mem_toNat_map _ hpos j).mpr ((l4 j (by rw [← hlen]; exact hj)).mp hsj)
  cases hvl : verifySizeLoop w gs xe.mx.groups s z (n - z) gl with
  | error e =>
    left
    refine ⟨outOfLErr e, ?_, outOfLErr_ne_panic e (fun hh => verifySizeLoop_ne_panic w gs _ s z (n - z) gl (hh ▸ hvl))⟩
    unfold sizeVerify muxVerifySize
    simp only [hsx, if_neg hne, hx, hk, hc, htg, hvl, Bool.not_true, Bool.false_eq_true, ↓reduceIte]
  | ok u =>
    right
    have hsv : sizeVerify w se s z (n - z) = .ok () := by
      unfold sizeVerify muxVerifySize
      simp only [hsx, if_neg hne, hx, hk, hc, htg, hvl, Bool.not_true, Bool.false_eq_true, ↓reduceIte]
    refine ⟨hsv, ?_⟩
    have hver := verifySizeLoop_ok w gs xe.mx.groups s z (n - z) gl hvl
    -- the admissible region: the followers of s are exclusive
    have hexcl : ∀ g ∈ xe.mx.groups, s ∈ g → ∀ t ∈ followersOf g s, exclusive xe t = true := by
      simp only [admissible, hs, hsx, hx, Bool.or_eq_true, decide_eq_true_eq, List.all_eq_true,
        Bool.not_eq_true'] at hadm
      rcases hadm with hh | hh
      · rw [hkz] at hh
        simp only [SKind.leaf.injEq] at hh
        exact absurd (by omega) hne
      · intro g hg hsg t ht
        rcases hh g hg with h1 | h1
        · have : g.contains s = true := by simpa using hsg
          rw [this] at h1; cases h1
        · exact h1 t ht
    obtain ⟨vf, f1, f2, f3, f4, f5⟩ := modifySizeLoop_spec w h x s xe se gc gs z (n - z) hx hk hs hkz hne hexcl gl w hglnd
      (fun k hk' => ⟨(hgl1 k hk').1, (hgl1 k hk').2, hver k hk'⟩) rfl (relOnly_refl w) hs (fun _ _ _ _ => rfl)
    have hsm : sizeModify w se s z (n - z) = (vf, none) := by
      unfold sizeModify muxModifySize
      simp only [hsx, if_neg hne, hx, hk, hc, htg, f1, Bool.not_true, Bool.false_eq_true, ↓reduceIte]
    refine ⟨vf, hsm, f2, f3, ?_, ?_⟩
    · intro y ye gc' gs' hy hky g' hg'
      have hyo := h.muxOK hy hky
      by_cases hyx : y = x
      · subst hyx
        rw [hx] at hy; cases hy
        rw [hk] at hky
        simp only [SKind.mux.injEq] at hky
        obtain ⟨rfl, rfl⟩ := hky
        obtain ⟨j, hj, rfl⟩ := mem_getD xe.mx.groups [] g' hg'
        by_cases hsj : s ∈ xe.mx.groups.getD j []
        · have := f5 j (hgl2 j hj hsj)
          have e : z + (n - z) = n := by omega
          rw [e] at this; exact this
        · rw [setSize_unmoved w vf s n _ hsj]
          · exact hxo.wf _ hg'
          · intro t ht
            obtain ⟨e, he, _⟩ := hxo.mem_stored hg' ht
            simp [he]
          · intro t ht e he
            apply f4 t e he
            intro k hk' hf
            have hklt := (hgl1 k hk').1
            have hgm := getD_mem xe.mx.groups k [] hklt
            have := excl_unique w y xe gc gs hxo t (hexcl _ hgm (hgl1 k hk').2 t hf) j k hj hklt ht (followersOf_sub _ _ _ hf)
            subst this
            exact hsj (hgl1 j hk').2
      · have hnotin : ∀ t, t ∈ g' → ∀ e, w.sigs.get t = some e → e.parentMux ≠ some x := by
          intro t ht e he hp
          obtain ⟨e0, he0, hp0⟩ := hyo.mem_stored hg' ht
          rw [he] at he0; cases he0
          rw [hp] at hp0; cases hp0; exact hyx rfl
        rw [setSize_unmoved w vf s n g']
        · exact hyo.wf g' hg'
        · intro hsg; exact hnotin s hsg se hs hsx
        · intro t ht
          obtain ⟨e, he, _⟩ := hyo.mem_stored hg' ht
          simp [he]
        · intro t ht e he
          apply f4 t e he
          intro k hk' hf
          have hklt := (hgl1 k hk').1
          obtain ⟨e0, he0, hp0⟩ := hxo.mem_stored (getD_mem _ _ _ hklt) (followersOf_sub _ _ _ hf)
          exact hnotin t ht e0 he0 hp0
    · intro m msg hm
      have hmo := h.msgOK hm
      rw [setSize_unmoved w vf s n msg.layout]
      · exact hmo.wf
      · intro hsl
        obtain ⟨e, he, hp, _⟩ := (hmo.top s).mp hsl
        rw [hs] at he; cases he; rw [hsx] at hp; cases hp
      · intro t ht
        obtain ⟨e, he, _⟩ := (hmo.top t).mp ht
        simp [he]
      · intro t ht e he
        apply f4 t e he
        intro k hk' hf
        have hklt := (hgl1 k hk').1
        obtain ⟨e0, he0, hp0⟩ := hxo.mem_stored (getD_mem _ _ _ hklt) (followersOf_sub _ _ _ hf)
        obtain ⟨e1, he1, hp1, _⟩ := (hmo.top t).mp ht
        rw [he0] at he1; cases he1
        rw [hp0] at hp1; cases hp1

theorem leafSize_msg (w : MW) (h : InvCore w) (s : Nat) (se : SigE) (z n : Int) (m : Nat)
    (hs : w.sigs.get s = some se) (hkz : se.kind = .leaf z) (hne : n - z ≠ 0)
    (hsx : se.parentMux = none) (hsm : se.parentMsg = some m) :
    (∃ o, sizeVerify w se s z (n - z) = .error o ∧ o ≠ .panic) ∨
    (sizeVerify w se s z (n - z) = .ok () ∧ ∃ w1, sizeModify w se s z (n - z) = (w1, none) ∧ SizeReady w w1 s n) := by
  obtain ⟨msg, hm⟩ : ∃ msg, w.msgs.get m = some msg := by
    have := h.parentMsgExists s se m hs hsm
    cases hg : w.msgs.get m with
    | none => rw [hg] at this; simp at this
    | some msg => exact ⟨msg, rfl⟩
  have hmo := h.msgOK hm
  have hreg : s ∈ msg.signals := (hmo.reg s).mpr ⟨se, hs, hsm⟩
  have hc : msg.signals.contains s = true := by simpa using hreg
  have hsl : s ∈ msg.layout := (hmo.top s).mpr ⟨se, hs, hsx, hsm⟩
  have hstl : ∀ i ∈ msg.layout, (w.sigs.get i).isSome := by
    intro i hi; obtain ⟨e, he, _⟩ := (hmo.top i).mp hi; simp [he]
  cases hv : (if n - z > 0 then verifyGrow msg.cap (slotsOf w msg.layout) s (n - z) else verifyShrink z (-(n - z))) with
  | error e =>
    left
    refine ⟨outOfLErr e, ?_, outOfLErr_ne_panic e ?_⟩
    · unfold sizeVerify msgVerifySize
      simp only [hsx, hsm, if_neg hne, hm, hc, hv, Bool.not_true, Bool.false_eq_true, ↓reduceIte]
    · rintro rfl
      split at hv
      · exact verifyGrow_ne_panic _ _ _ _ hv
      · exact verifyShrink_ne_panic _ _ hv
  | ok u =>
    right
    have hsv : sizeVerify w se s z (n - z) = .ok () := by
      unfold sizeVerify msgVerifySize
      simp only [hsx, hsm, if_neg hne, hm, hc, hv, Bool.not_true, Bool.false_eq_true, ↓reduceIte]
    refine ⟨hsv, ?_⟩
    obtain ⟨w1, m1, m2, m3, m4, m5⟩ := modifyLayout_spec w msg.cap msg.layout s se z (n - z) hmo.nodup hstl hmo.wf
      hs hkz hsl hne hv
    have hsmod : sizeModify w se s z (n - z) = (w1, none) := by
      unfold sizeModify msgModifySize
      simp only [hsx, hsm, if_neg hne, hm, hc, m1, Bool.not_true, Bool.false_eq_true, ↓reduceIte]
    refine ⟨w1, hsmod, m2, m3, ?_, ?_⟩
    · intro y ye gc gs hy hky g' hg'
      have hyo := h.muxOK hy hky
      have hnotin : ∀ t, t ∈ g' → t ∉ msg.layout := by
        intro t ht hl
        obtain ⟨e0, he0, hp0⟩ := hyo.mem_stored hg' ht
        obtain ⟨e1, he1, hp1, _⟩ := (hmo.top t).mp hl
        rw [he0] at he1; cases he1
        rw [hp0] at hp1; cases hp1
      rw [setSize_unmoved w w1 s n g']
      · exact hyo.wf g' hg'
      · intro hsg; exact hnotin s hsg hsl
      · intro t ht
        obtain ⟨e, he, _⟩ := hyo.mem_stored hg' ht
        simp [he]
      · intro t ht e he
        apply m4 t e he
        intro hf
        exact hnotin t ht (followersOf_sub _ _ _ hf)
    · intro m' msg' hm'
      by_cases hmm : m' = m
      · subst hmm
        rw [hm] at hm'; cases hm'
        have e : z + (n - z) = n := by omega
        rw [e] at m5; exact m5
      · have hmo' := h.msgOK hm'
        have hnotin : ∀ t, t ∈ msg'.layout → t ∉ msg.layout := by
          intro t ht hl
          obtain ⟨e0, he0, _, hp0⟩ := (hmo'.top t).mp ht
          obtain ⟨e1, he1, _, hp1⟩ := (hmo.top t).mp hl
          rw [he0] at he1; cases he1
          rw [hp0] at hp1; cases hp1
          exact hmm rfl
        rw [setSize_unmoved w w1 s n msg'.layout]
        · exact hmo'.wf
        · intro hsg; exact hnotin s hsg hsl
        · intro t ht
          obtain ⟨e, he, _⟩ := (hmo'.top t).mp ht
          simp [he]
        · intro t ht e he
          apply m4 t e he
          intro hf
          exact hnotin t ht (followersOf_sub _ _ _ hf)

/-- a signal that is in no container: nothing moves -/
theorem sizeReady_free (w : MW) (h : InvCore w) (s : Nat) (se : SigE) (n : Int)
    (hs : w.sigs.get s = some se) (hsx : se.parentMux = none) (hsm : se.parentMsg = none) :
    SizeReady w w s n := by
  refine ⟨rfl, relOnly_refl w, ?_, ?_⟩
  · intro y ye gc gs hy hky g' hg'
    have hyo := h.muxOK hy hky
    rw [setSize_unmoved w w s n g']
    · exact hyo.wf g' hg'
    · intro hsg
      obtain ⟨e0, he0, hp0⟩ := hyo.mem_stored hg' hsg
      rw [hs] at he0; cases he0; rw [hsx] at hp0; cases hp0
    · intro t ht
      obtain ⟨e, he, _⟩ := hyo.mem_stored hg' ht
      simp [he]
    · intro t _ e he; exact he
  · intro m msg hm
    have hmo := h.msgOK hm
    rw [setSize_unmoved w w s n msg.layout]
    · exact hmo.wf
    · intro hsl
      obtain ⟨e0, he0, _, hp0⟩ := (hmo.top s).mp hsl
      rw [hs] at he0; cases he0; rw [hsm] at hp0; cases hp0
    · intro t ht
      obtain ⟨e, he, _⟩ := (hmo.top t).mp ht
      simp [he]
    · intro t _ e he; exact he

/-- the size does not change: nothing moves -/
theorem sizeReady_same (w : MW) (h : InvCore w) (s : Nat) (se : SigE) (z : Int)
    (hs : w.sigs.get s = some se) (hkz : se.kind = .leaf z) : SizeReady w w s z := by
  have hsame : ∀ ids : List Nat, setSize (slotsOf w ids) s z = slotsOf w ids := by
    intro ids
    apply setSize_same
    intro sl hsl hid
    obtain ⟨_, e, he, _, hsz⟩ := mem_slotsOf w ids sl hsl
    rw [hid, hs] at he; cases he
    rw [hsz]; simp [sigSize, hkz]
  refine ⟨rfl, relOnly_refl w, ?_, ?_⟩
  · intro y ye gc gs hy hky g' hg'
    rw [hsame]; exact (h.muxOK hy hky).wf g' hg'
  · intro m msg hm
    rw [hsame]; exact (h.msgOK hm).wf

theorem inv_leafSize (w : MW) (h : InvCore w) (s : Nat) (n : Int)
    (hadm : admissible w (.leafSize s n) = true) :
    InvCore (doLeafSize w s n).1 ∧ (doLeafSize w s n).2 ≠ .panic := by
  cases hs : w.sigs.get s with
  | none => simp only [doLeafSize, hs]; exact ⟨h, by simp⟩
  | some se =>
    cases hkz : se.kind with
    | mux gc gs => simp only [doLeafSize, hs, hkz]; exact ⟨h, by simp⟩
    | leaf z =>
      by_cases h1 : n < 0
      · simp only [doLeafSize, hs, hkz, h1, ↓reduceIte]; exact ⟨h, by simp⟩
      · by_cases h2 : n = 0
        · simp only [doLeafSize, hs, hkz, h1, h2, ↓reduceIte]; exact ⟨h, by simp⟩
        · have hn : 0 < n := by omega
          -- the three situations of the signal
          have hcases : (∃ o, sizeVerify w se s z (n - z) = .error o ∧ o ≠ .panic) ∨
              (sizeVerify w se s z (n - z) = .ok () ∧ ∃ w1, sizeModify w se s z (n - z) = (w1, none) ∧ SizeReady w w1 s n) := by
            by_cases hne : n - z = 0
            · right
              have hnz : n = z := by omega
              subst hnz
              refine ⟨?_, w, ?_, sizeReady_same w h s se n hs hkz⟩
              · unfold sizeVerify muxVerifySize msgVerifySize
                simp only [hne, ↓reduceIte]
                split <;> (try split) <;> rfl
              · unfold sizeModify muxModifySize msgModifySize
                simp only [hne, ↓reduceIte]
                split <;> (try split) <;> rfl
            · cases hsx : se.parentMux with
              | some x => exact leafSize_mux w h s se z n x hs hkz hne hsx hadm
              | none =>
                cases hsm : se.parentMsg with
                | some m => exact leafSize_msg w h s se z n m hs hkz hne hsx hsm
                | none =>
                  right
                  refine ⟨?_, w, ?_, sizeReady_free w h s se n hs hsx hsm⟩
                  · unfold sizeVerify; simp only [hsx, hsm]
                  · unfold sizeModify; simp only [hsx, hsm]
          rcases hcases with ⟨o, ho, hop⟩ | ⟨hv, w1, hmod, hr1, hr2, hr3, hr4⟩
          · simp only [doLeafSize, hs, hkz, h1, h2, ho, ↓reduceIte]
            exact ⟨h, hop⟩
          · obtain ⟨i1, i2⟩ := inv_leafSize_final w w1 h s se z n hs hkz hn hr1 hr2 hr3 hr4
            simp only [doLeafSize, hs, hkz, h1, h2, hv, hmod, i2, Bool.false_eq_true, ↓reduceIte]
            exact ⟨i1, by simp⟩

end Acme.Mux
