/-
Layout algebra, part A: decidability instances, general facts about `WFfrom`,
insert / append / remove / compact / resize.
-/
import Batteries.Data.List.Basic
import Acme.Core.Layout
import Acme.Spec.Layout

namespace Acme.Layout

/-! ### decidability (used by the concrete examples in Props) -/

instance decWFfrom : (lo cap : Int) → (l : List Slot) → Decidable (WFfrom lo cap l)
  | lo, cap, [] => inferInstanceAs (Decidable (lo ≤ cap))
  | lo, cap, s :: rest =>
    have := decWFfrom (s.start + s.size) cap rest
    inferInstanceAs (Decidable (lo ≤ s.start ∧ 0 < s.size ∧ WFfrom (s.start + s.size) cap rest))

instance (cap : Int) (l : List Slot) : Decidable (WF cap l) := decWFfrom 0 cap l

instance (l : List Slot) : Decidable (IdsNodup l) := inferInstanceAs (Decidable (List.Nodup _))

instance {α : Type} [DecidableEq α] : DecidableEq (Except LErr α)
  | .ok a, .ok b =>
    if h : a = b then isTrue (by rw [h]) else isFalse (by intro h'; cases h'; exact h rfl)
  | .error a, .error b =>
    if h : a = b then isTrue (by rw [h]) else isFalse (by intro h'; cases h'; exact h rfl)
  | .ok _, .error _ => isFalse (by intro h; cases h)
  | .error _, .ok _ => isFalse (by intro h; cases h)

/-! ### general facts -/

theorem WFfrom_nil {lo cap : Int} : WFfrom lo cap [] ↔ lo ≤ cap := Iff.rfl

theorem WFfrom_cons {lo cap : Int} {s : Slot} {rest : List Slot} :
    WFfrom lo cap (s :: rest) ↔ lo ≤ s.start ∧ 0 < s.size ∧ WFfrom (s.start + s.size) cap rest :=
  Iff.rfl

theorem WFfrom_le_cap : ∀ {l : List Slot} {lo cap : Int}, WFfrom lo cap l → lo ≤ cap
  | [], _, _, h => h
  | s :: rest, lo, cap, h => by
    rw [WFfrom_cons] at h
    have := WFfrom_le_cap h.2.2
    omega

theorem WFfrom_mono {l : List Slot} {lo lo' cap : Int} (h : WFfrom lo cap l) (hle : lo' ≤ lo) :
    WFfrom lo' cap l := by
  cases l with
  | nil => rw [WFfrom_nil] at *; omega
  | cons s rest => rw [WFfrom_cons] at *; exact ⟨by omega, h.2.1, h.2.2⟩

theorem WFfrom_mem : ∀ {l : List Slot} {lo cap : Int}, WFfrom lo cap l → ∀ x ∈ l,
    lo ≤ x.start ∧ 0 < x.size ∧ x.start + x.size ≤ cap
  | [], _, _, _, x, hx => by cases hx
  | s :: rest, lo, cap, h, x, hx => by
    rw [WFfrom_cons] at h
    rcases List.mem_cons.1 hx with rfl | hx
    · have := WFfrom_le_cap h.2.2
      omega
    · have := WFfrom_mem h.2.2 x hx
      omega

theorem lastEnd_nil : lastEnd [] = 0 := rfl

theorem lastEnd_singleton (s : Slot) : lastEnd [s] = s.start + s.size := rfl

theorem lastEnd_cons_cons (s t : Slot) (rest : List Slot) :
    lastEnd (s :: t :: rest) = lastEnd (t :: rest) := by
  simp [lastEnd, List.getLast?_cons_cons]

/-- the end of the last slot is inside `cap` and not before `lo` -/
theorem WFfrom_lastEnd : ∀ {l : List Slot} {lo cap : Int}, WFfrom lo cap l → l ≠ [] →
    lo ≤ lastEnd l ∧ lastEnd l ≤ cap
  | [], _, _, _, hne => absurd rfl hne
  | [s], lo, cap, h, _ => by
    rw [WFfrom_cons, WFfrom_nil] at h
    rw [lastEnd_singleton]; omega
  | s :: t :: rest, lo, cap, h, _ => by
    rw [WFfrom_cons] at h
    have := WFfrom_lastEnd h.2.2 (by simp)
    rw [lastEnd_cons_cons]; omega

theorem RangeFree_nil (st sz : Int) : RangeFree [] st sz := by
  intro s hs; cases hs

theorem RangeFree_cons {s : Slot} {rest : List Slot} {st sz : Int} :
    RangeFree (s :: rest) st sz ↔
      (st + sz ≤ s.start ∨ s.start + s.size ≤ st) ∧ RangeFree rest st sz := by
  simp [RangeFree]

/-! ### insert -/

theorem scanInsert_spec (st sz : Int) (hsz : 0 < sz) : ∀ (l : List Slot) (lo cap : Int),
    WFfrom lo cap l →
    (RangeFree l st sz → scanInsert st (st + sz) l = .ok ()) ∧
    (¬ RangeFree l st sz → scanInsert st (st + sz) l = .error .intersect)
  | [], _, _, _ => by
    refine ⟨fun _ => rfl, fun h => absurd (RangeFree_nil st sz) h⟩
  | s :: rest, lo, cap, h => by
    rw [WFfrom_cons] at h
    have ih := scanInsert_spec st sz hsz rest _ _ h.2.2
    rw [RangeFree_cons]
    unfold scanInsert
    by_cases h1 : st + sz ≤ s.start
    · rw [if_pos h1]
      refine ⟨fun _ => rfl, fun hn => ?_⟩
      exfalso; apply hn
      refine ⟨Or.inl h1, ?_⟩
      intro x hx
      have := WFfrom_mem h.2.2 x hx
      left; omega
    · rw [if_neg h1]
      by_cases h2 : st ≥ s.start + s.size
      · rw [if_pos h2]
        refine ⟨fun hf => ih.1 hf.2, fun hn => ih.2 (fun hf => hn ⟨Or.inr h2, hf⟩)⟩
      · rw [if_neg h2]
        have h3 : st ≥ s.start ∨ st + sz > s.start := Or.inr (by omega)
        rw [if_pos h3]
        refine ⟨fun hf => ?_, fun _ => rfl⟩
        rcases hf.1 with h | h <;> omega

theorem verifyInsert_spec (cap : Int) (l : List Slot) (h : WF cap l) (sz st : Int) (hsz : 0 < sz) :
    (verifyInsert cap l sz st = .ok () ↔ 0 ≤ st ∧ st + sz ≤ cap ∧ RangeFree l st sz) ∧
    (st < 0 → verifyInsert cap l sz st = .error .negative) ∧
    (0 ≤ st → cap < sz → verifyInsert cap l sz st = .error .outOfBounds) ∧
    (0 ≤ st → sz ≤ cap → cap < st + sz → verifyInsert cap l sz st = .error .noSpaceLeft) ∧
    (0 ≤ st → st + sz ≤ cap → ¬ RangeFree l st sz → verifyInsert cap l sz st = .error .intersect) := by
  have hscan := scanInsert_spec st sz hsz l 0 cap h
  unfold verifyInsert
  by_cases h1 : st < 0
  · simp only [if_pos h1]
    refine ⟨⟨fun hh => (by cases hh), fun hh => (by omega)⟩, fun _ => trivial, ?_, ?_, ?_⟩ <;>
      intros <;> omega
  · simp only [if_neg h1]
    by_cases h2 : sz > cap
    · simp only [if_pos h2]
      refine ⟨⟨fun hh => (by cases hh), fun hh => (by omega)⟩, fun _ => by omega, fun _ _ => trivial, ?_, ?_⟩ <;>
        intros <;> omega
    · simp only [if_neg h2]
      by_cases h3 : st > cap - sz
      · simp only [if_pos h3]
        refine ⟨⟨fun hh => (by cases hh), fun hh => (by omega)⟩, fun _ => by omega, fun _ _ => by omega,
          fun _ _ _ => trivial, ?_⟩
        intros; omega
      · simp only [if_neg h3]
        refine ⟨⟨fun hh => ⟨by omega, by omega, ?_⟩, fun hh => hscan.1 hh.2.2⟩, fun _ => by omega,
          fun _ _ => by omega, fun _ _ _ => by omega, fun _ _ hn => hscan.2 hn⟩
        apply Classical.byContradiction
        intro hn
        rw [hscan.2 hn] at hh
        cases hh

theorem insertAt_wf (x : Slot) (hx : 0 < x.size) : ∀ (l : List Slot) (lo cap : Int),
    WFfrom lo cap l → lo ≤ x.start → x.start + x.size ≤ cap → RangeFree l x.start x.size →
    WFfrom lo cap (insertAt x l)
  | [], lo, cap, _, h1, h2, _ => by
    unfold insertAt
    rw [WFfrom_cons, WFfrom_nil]; exact ⟨h1, hx, h2⟩
  | s :: rest, lo, cap, h, h1, h2, hf => by
    rw [WFfrom_cons] at h
    rw [RangeFree_cons] at hf
    unfold insertAt
    by_cases hc : s.start > x.start
    · rw [if_pos hc, WFfrom_cons, WFfrom_cons]
      refine ⟨h1, hx, ?_, h.2.1, h.2.2⟩
      rcases hf.1 with hh | hh <;> omega
    · rw [if_neg hc, WFfrom_cons]
      refine ⟨h.1, h.2.1, insertAt_wf x hx rest _ _ h.2.2 ?_ h2 hf.2⟩
      rcases hf.1 with hh | hh <;> omega

theorem mem_insertAt (x : Slot) : ∀ l : List Slot, x ∈ insertAt x l
  | [] => by simp [insertAt]
  | s :: rest => by
    unfold insertAt
    split
    · simp
    · exact List.mem_cons_of_mem _ (mem_insertAt x rest)

theorem length_insertAt (x : Slot) : ∀ l : List Slot, (insertAt x l).length = l.length + 1
  | [] => by simp [insertAt]
  | s :: rest => by
    unfold insertAt
    split
    · simp
    · simp [length_insertAt x rest]

theorem filter_insertAt (x : Slot) : ∀ l : List Slot,
    (insertAt x l).filter (fun s => s ≠ x) = l.filter (fun s => s ≠ x)
  | [] => by simp [insertAt]
  | s :: rest => by
    unfold insertAt
    split
    · simp
    · simp only [List.filter_cons, filter_insertAt x rest]

theorem insert_wf (cap : Int) (l : List Slot) (h : WF cap l) (id : Nat) (sz st : Int)
    (hsz : 0 < sz) (l' : List Slot) (hok : verifyAndInsert cap l id sz st = .ok l') :
    WF cap l' ∧ (⟨id, st, sz⟩ : Slot) ∈ l' ∧ l'.length = l.length + 1 ∧
    l'.filter (fun s => s ≠ (⟨id, st, sz⟩ : Slot)) = l.filter (fun s => s ≠ (⟨id, st, sz⟩ : Slot)) := by
  unfold verifyAndInsert at hok
  split at hok
  · cases hok
  · rename_i hv
    have hacc := ((verifyInsert_spec cap l h sz st hsz).1).1 hv
    injection hok with hok
    subst hok
    unfold insert
    refine ⟨?_, mem_insertAt _ _, length_insertAt _ _, filter_insertAt _ _⟩
    exact insertAt_wf ⟨id, st, sz⟩ hsz l 0 cap h hacc.1 hacc.2.1 hacc.2.2

/-! ### append -/

theorem verifyAppend_spec (cap : Int) (l : List Slot) (_h : WF cap l) (sz : Int) :
    (verifyAppend cap l sz = .ok () ↔ sz ≤ cap - lastEnd l) := by
  unfold verifyAppend lastEnd
  cases l.getLast? with
  | none =>
    simp only
    by_cases hc : sz > cap
    · rw [if_pos hc]; constructor
      · intro hh; cases hh
      · intro; omega
    · rw [if_neg hc]; constructor
      · intro; omega
      · intro; rfl
  | some s =>
    simp only
    by_cases hc : sz > cap - (s.start + s.size)
    · rw [if_pos hc]; constructor
      · intro hh; cases hh
      · intro; omega
    · rw [if_neg hc]; constructor
      · intro; omega
      · intro; rfl

theorem append_wfFrom (id : Nat) (sz : Int) (hsz : 0 < sz) : ∀ (l : List Slot) (lo cap : Int),
    WFfrom lo cap l → l ≠ [] → sz ≤ cap - lastEnd l →
    WFfrom lo cap (l ++ [⟨id, lastEnd l, sz⟩])
  | [], _, _, _, hne, _ => absurd rfl hne
  | [s], lo, cap, h, _, hfit => by
    rw [lastEnd_singleton] at *
    rw [WFfrom_cons, WFfrom_nil] at h
    simp only [List.cons_append, List.nil_append]
    rw [WFfrom_cons, WFfrom_cons, WFfrom_nil]
    simp only
    omega
  | s :: t :: rest, lo, cap, h, _, hfit => by
    rw [lastEnd_cons_cons] at *
    rw [WFfrom_cons] at h
    rw [List.cons_append, WFfrom_cons]
    exact ⟨h.1, h.2.1, append_wfFrom id sz hsz (t :: rest) _ _ h.2.2 (by simp) hfit⟩

theorem append_wf (cap : Int) (l : List Slot) (h : WF cap l) (id : Nat) (sz : Int)
    (hsz : 0 < sz) (l' : List Slot) (hok : append cap l id sz = .ok l') :
    WF cap l' ∧ l' = l ++ [⟨id, lastEnd l, sz⟩] := by
  unfold append at hok
  split at hok
  · cases hok
  · rename_i hv
    have hfit := (verifyAppend_spec cap l h sz).1 hv
    injection hok with hok
    subst hok
    refine ⟨?_, rfl⟩
    by_cases hne : l = []
    · subst hne
      rw [lastEnd_nil] at *
      show WFfrom 0 cap [_]
      rw [WFfrom_cons, WFfrom_nil]
      simp only
      omega
    · exact append_wfFrom id sz hsz l 0 cap h hne hfit

/-! ### remove -/

theorem filter_wfFrom (p : Slot → Bool) : ∀ (l : List Slot) (lo cap : Int),
    WFfrom lo cap l → WFfrom lo cap (l.filter p)
  | [], _, _, h => h
  | s :: rest, lo, cap, h => by
    rw [WFfrom_cons] at h
    have ih := filter_wfFrom p rest _ _ h.2.2
    rw [List.filter_cons]
    split
    · rw [WFfrom_cons]; exact ⟨h.1, h.2.1, ih⟩
    · exact WFfrom_mono ih (by omega)

theorem remove_wf (cap : Int) (l : List Slot) (h : WF cap l) (id : Nat) :
    WF cap (remove l id) ∧ remove l id = l.filter (fun s => s.id ≠ id) :=
  ⟨filter_wfFrom _ l 0 cap h, rfl⟩

/-! ### compact -/

theorem compactFrom_spec : ∀ (l : List Slot) (last lo cap : Int), WFfrom lo cap l → last ≤ lo →
    WFfrom last cap (compactFrom last l) ∧ PackedFrom last (compactFrom last l) ∧
    (compactFrom last l).map (fun s => (s.id, s.size)) = l.map (fun s => (s.id, s.size)) ∧
    List.Forall₂ (fun a b => a.start ≤ b.start) (compactFrom last l) l
  | [], last, lo, cap, h, hle => by
    rw [WFfrom_nil] at h
    unfold compactFrom
    refine ⟨?_, trivial, rfl, List.Forall₂.nil⟩
    rw [WFfrom_nil]; omega
  | s :: rest, last, lo, cap, h, hle => by
    rw [WFfrom_cons] at h
    unfold compactFrom
    by_cases h1 : s.start = last
    · rw [if_pos h1]
      have ih := compactFrom_spec rest (last + s.size) _ cap h.2.2 (by omega)
      refine ⟨?_, ?_, ?_, ?_⟩
      · rw [WFfrom_cons]; refine ⟨by omega, h.2.1, ?_⟩
        rw [h1]; exact ih.1
      · refine ⟨h1, ?_⟩
        rw [h1]; exact ih.2.1
      · simp only [List.map_cons, ih.2.2.1]
      · exact List.Forall₂.cons (Int.le_refl _) ih.2.2.2
    · rw [if_neg h1]
      have h2 : last < s.start := by omega
      rw [if_pos h2]
      have ih := compactFrom_spec rest (last + s.size) _ cap h.2.2 (by omega)
      refine ⟨?_, ?_, ?_, ?_⟩
      · rw [WFfrom_cons]; exact ⟨Int.le_refl _, h.2.1, ih.1⟩
      · exact ⟨rfl, ih.2.1⟩
      · simp only [List.map_cons, ih.2.2.1]
      · exact List.Forall₂.cons (by simp only; omega) ih.2.2.2

theorem compactFrom_packed : ∀ (l : List Slot) (last : Int), PackedFrom last l →
    compactFrom last l = l
  | [], _, _ => rfl
  | s :: rest, last, h => by
    unfold compactFrom
    rw [if_pos h.1, ← h.1, compactFrom_packed rest _ h.2]

theorem compact_spec (cap : Int) (l : List Slot) (h : WF cap l) :
    WF cap (compact l) ∧ PackedFrom 0 (compact l) ∧
    (compact l).map (fun s => (s.id, s.size)) = l.map (fun s => (s.id, s.size)) ∧
    List.Forall₂ (fun a b => a.start ≤ b.start) (compact l) l ∧
    compact (compact l) = compact l := by
  have hs := compactFrom_spec l 0 0 cap h (Int.le_refl _)
  exact ⟨hs.1, hs.2.1, hs.2.2.1, hs.2.2.2, compactFrom_packed _ _ hs.2.1⟩

/-! ### resize -/

theorem WFfrom_recap : ∀ (l : List Slot) (lo cap newCap : Int), WFfrom lo cap l → l ≠ [] →
    lastEnd l ≤ newCap → WFfrom lo newCap l
  | [], _, _, _, _, hne, _ => absurd rfl hne
  | [s], lo, cap, newCap, h, _, hle => by
    rw [lastEnd_singleton] at hle
    rw [WFfrom_cons, WFfrom_nil] at *
    omega
  | s :: t :: rest, lo, cap, newCap, h, _, hle => by
    rw [lastEnd_cons_cons] at hle
    rw [WFfrom_cons] at *
    exact ⟨h.1, h.2.1, WFfrom_recap (t :: rest) _ cap newCap h.2.2 (by simp) hle⟩

theorem resize_spec (cap : Int) (l : List Slot) (h : WF cap l) (newCap : Int) (hnc : 0 ≤ newCap) :
    (verifyResize cap l newCap = .ok () ↔ lastEnd l ≤ newCap) ∧
    (lastEnd l ≤ newCap → WF newCap l) ∧
    (newCap < lastEnd l → verifyResize cap l newCap = .error .tooSmall) := by
  have hwf : lastEnd l ≤ newCap → WF newCap l := by
    intro hle
    by_cases hne : l = []
    · subst hne; exact hnc
    · exact WFfrom_recap l 0 cap newCap h hne hle
  have hcap : lastEnd l ≤ cap := by
    by_cases hne : l = []
    · subst hne; exact h
    · exact (WFfrom_lastEnd h hne).2
  refine ⟨?_, hwf, ?_⟩
  · unfold verifyResize
    by_cases h1 : newCap > cap
    · rw [if_pos h1]; constructor
      · intro; omega
      · intro; rfl
    · rw [if_neg h1]
      unfold lastEnd
      cases l.getLast? with
      | none =>
        simp only; constructor
        · intro; omega
        · intro; trivial
      | some s =>
        simp only
        by_cases h2 : s.start + s.size > newCap
        · rw [if_pos h2]; constructor
          · intro hh; cases hh
          · intro; omega
        · rw [if_neg h2]; constructor
          · intro; omega
          · intro; rfl
  · intro hlt
    unfold verifyResize
    rw [if_neg (by omega)]
    unfold lastEnd at hlt
    cases hl : l.getLast? with
    | none => rw [hl] at hlt; simp only at hlt; omega
    | some s =>
      rw [hl] at hlt; simp only at hlt
      simp only
      rw [if_pos (by omega)]

end Acme.Layout
