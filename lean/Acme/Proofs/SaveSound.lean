/-
Soundness of the loader model: a tree that is loaded has only resolving references and only
consistent multiplexers (inversion of every loop of `load`).
-/
import Acme.Proofs.SaveRefuse

namespace Acme.Save
open List

/-! ## a property of every multiplexer of a tree -/

mutual
  def psigMuxAll (Q : List PSig → List (List (Id × Nat)) → Prop) : PSig → Prop
    | .mk _ _ _ body => pbodyMuxAll Q body
  def pbodyMuxAll (Q : List PSig → List (List (Id × Nat)) → Prop) : PBody → Prop
    | .mux _ sigs _ groups => Q sigs groups ∧ psigsMuxAll Q sigs
    | .none => True
    | .std _ _ => True
    | .enm _ => True
  def psigsMuxAll (Q : List PSig → List (List (Id × Nat)) → Prop) : List PSig → Prop
    | [] => True
    | s :: r => psigMuxAll Q s ∧ psigsMuxAll Q r
end

def PNet.muxAll (Q : List PSig → List (List (Id × Nat)) → Prop) (p : PNet) : Prop :=
  ∀ b ∈ p.buses, ∀ i ∈ b.ifaces, ∀ m ∈ i.msgs, psigsMuxAll Q m.sigs

mutual
  theorem psigMuxAll_mono {Q Q' : List PSig → List (List (Id × Nat)) → Prop}
      (hq : ∀ s g, Q s g → Q' s g) : (p : PSig) → psigMuxAll Q p → psigMuxAll Q' p
    | .mk _ _ _ body, h => by
      simp only [psigMuxAll] at h ⊢
      exact pbodyMuxAll_mono hq body h
  theorem pbodyMuxAll_mono {Q Q' : List PSig → List (List (Id × Nat)) → Prop}
      (hq : ∀ s g, Q s g → Q' s g) : (p : PBody) → pbodyMuxAll Q p → pbodyMuxAll Q' p
    | .none, _ => by simp [pbodyMuxAll]
    | .std _ _, _ => by simp [pbodyMuxAll]
    | .enm _, _ => by simp [pbodyMuxAll]
    | .mux _ sigs _ groups, h => by
      simp only [pbodyMuxAll] at h ⊢
      exact ⟨hq _ _ h.1, psigsMuxAll_mono hq sigs h.2⟩
  theorem psigsMuxAll_mono {Q Q' : List PSig → List (List (Id × Nat)) → Prop}
      (hq : ∀ s g, Q s g → Q' s g) : (l : List PSig) → psigsMuxAll Q l → psigsMuxAll Q' l
    | [], _ => by simp [psigsMuxAll]
    | p :: r, h => by
      simp only [psigsMuxAll] at h ⊢
      exact ⟨psigMuxAll_mono hq p h.1, psigsMuxAll_mono hq r h.2⟩
end

theorem PNet.muxAll_mono {Q Q' : List PSig → List (List (Id × Nat)) → Prop}
    (hq : ∀ s g, Q s g → Q' s g) (p : PNet) (h : p.muxAll Q) : p.muxAll Q' :=
  fun b hb i hi m hm => psigsMuxAll_mono hq _ (h b hb i hi m hm)

/-! ## inversion -/

theorem loadAsgs_inv (T : Tbl) : ∀ (asg : List PAsg) (l : List Asg), loadAsgs T asg = .ok l →
    ∀ r ∈ pasgRefs asg, T.has r
  | [], _, _ => by simp [pasgRefs]
  | p :: rest, l, h => by
    simp only [loadAsgs] at h
    split at h
    · cases h
    · rename_i a ha
      have hp : T.has (RefK.attr, p.attr) := by simp [Tbl.has, ha]
      intro r hr
      simp only [pasgRefs, List.map_cons, List.mem_cons] at hr
      rcases hr with rfl | hr
      · exact hp
      · split at h
        · exact loadAsgs_inv T rest l h r hr
        · split at h
          · split at h
            · cases h
            · rename_i as has
              exact loadAsgs_inv T rest as has r hr
          · cases h

mutual
  theorem loadSig_inv (T : Tbl) (o : Owner) : (p : PSig) → (sn sn' : Seen) → (s : Sig) →
      loadSig T o sn p = .ok (s, sn') →
      (∀ r ∈ psigRefs p, T.has r) ∧ psigMuxAll MuxOK p
    | .mk e asg kind body, sn, sn', s, h => by
      simp only [loadSig] at h
      split at h
      · cases h
      · rename_i sn1 _
        split at h
        · cases h
        · rename_i b sn2 hb
          split at h
          · cases h
          · rename_i a ha
            obtain ⟨h1, h2⟩ := loadBody_inv T (sigKindOf kind) e.id body sn1 sn2 b hb
            refine ⟨?_, by simpa [psigMuxAll] using h2⟩
            intro r hr
            simp only [psigRefs, List.mem_append] at hr
            rcases hr with hr | hr
            · exact loadAsgs_inv T asg a ha r hr
            · exact h1 r hr
  theorem loadBody_inv (T : Tbl) (kind : Nat) (self : Id) : (p : PBody) → (sn sn' : Seen) → (b : Body) →
      loadBody T kind self sn p = .ok (b, sn') →
      (∀ r ∈ pbodyRefs p, T.has r) ∧ pbodyMuxAll MuxOK p
    | .none, sn, sn', b, h => by simp [loadBody] at h
    | .std ty un, sn, sn', b, h => by
      simp only [loadBody] at h
      split at h
      · cases h
      · split at h
        · cases h
        · rename_i ht
          split at h
          · cases h
          · rename_i hu
            refine ⟨?_, by simp [pbodyMuxAll]⟩
            intro r hr
            simp only [pbodyRefs, List.mem_cons] at hr
            rcases hr with rfl | hr
            · show (findEnt T.types ty).isSome = true
              cases hx : findEnt T.types ty <;> simp_all
            · by_cases hun : un = ""
              · simp [hun] at hr
              · simp only [hun, if_false, List.mem_cons, List.not_mem_nil, or_false] at hr
                subst hr
                simp only [Bool.and_eq_true, bne_iff_ne, ne_eq, not_and, Bool.not_eq_true,
                  Option.isNone_eq_false_iff] at hu
                simpa [Tbl.has] using hu hun
    | .enm en, sn, sn', b, h => by
      simp only [loadBody] at h
      split at h
      · cases h
      · split at h
        · cases h
        · rename_i ht
          refine ⟨?_, by simp [pbodyMuxAll]⟩
          intro r hr
          simp only [pbodyRefs, List.mem_cons, List.not_mem_nil, or_false] at hr
          subst hr
          show (findEnt T.enums en).isSome = true
          cases hx : findEnt T.enums en <;> simp_all
    | .mux gc sigs fixed groups, sn, sn', b, h => by
      obtain ⟨_, hok, ks, hks⟩ := loadBody_mux_inv T kind gc self sn sn' sigs fixed groups b h
      obtain ⟨h1, h2⟩ := loadSigs_inv T (.sig self) sigs sn sn' ks hks
      exact ⟨by simpa [pbodyRefs] using h1, by simpa [pbodyMuxAll] using ⟨hok, h2⟩⟩
  theorem loadSigs_inv (T : Tbl) (o : Owner) : (l : List PSig) → (sn sn' : Seen) → (ks : List Sig) →
      loadSigs T o sn l = .ok (ks, sn') →
      (∀ r ∈ psigsRefs l, T.has r) ∧ psigsMuxAll MuxOK l
    | [], _, _, _, _ => by simp [psigsRefs, psigsMuxAll]
    | p :: rest, sn, sn', ks, h => by
      simp only [loadSigs] at h
      split at h
      · cases h
      · rename_i s sn1 hs
        split at h
        · cases h
        · rename_i ss sn2 hss
          obtain ⟨a1, a2⟩ := loadSig_inv T o p sn sn1 s hs
          obtain ⟨b1, b2⟩ := loadSigs_inv T o rest sn1 sn2 ss hss
          refine ⟨?_, by simpa [psigsMuxAll] using ⟨a2, b2⟩⟩
          intro r hr
          simp only [psigsRefs, List.mem_append] at hr
          rcases hr with hr | hr
          · exact a1 r hr
          · exact b1 r hr
end

theorem loadTop_inv (T : Tbl) (refs : List (Id × Nat)) (o : Owner) : ∀ (l : List PSig) (sn sn' : Seen)
    (ss : List (Sig × Nat)),
    loadTop T refs o sn l = .ok (ss, sn') → (∀ r ∈ psigsRefs l, T.has r) ∧ psigsMuxAll MuxOK l
  | [], _, _, _, _ => by simp [psigsRefs, psigsMuxAll]
  | p :: rest, sn, sn', ss, h => by
    simp only [loadTop] at h
    split at h
    · cases h
    · rename_i s sn1 hs
      split at h
      · cases h
      · split at h
        · cases h
        · rename_i ss' sn2 hss
          obtain ⟨a1, a2⟩ := loadSig_inv T o p sn sn1 s hs
          obtain ⟨b1, b2⟩ := loadTop_inv T refs o rest sn1 sn2 ss' hss
          refine ⟨?_, by simpa [psigsMuxAll] using ⟨a2, b2⟩⟩
          intro r hr
          simp only [psigsRefs, List.mem_append] at hr
          rcases hr with hr | hr
          · exact a1 r hr
          · exact b1 r hr

theorem loadRecvs_inv (T : Tbl) (mid : Id) : ∀ (l : List (Id × Nat)) (st : St) (acc : List Recv)
    (res : List Recv × St), loadRecvs T mid st acc l = .ok res → ∀ r ∈ l, T.has (RefK.node, r.1)
  | [], _, _, _, _ => by simp
  | (node, num) :: rest, st, acc, res, h => by
    simp only [loadRecvs] at h
    split at h
    · cases h
    · rename_i nd hnd
      have hp : T.has (RefK.node, node) := by simp [Tbl.has, hnd]
      intro r hr
      rcases List.mem_cons.mp hr with rfl | hr
      · exact hp
      · split at h
        · cases h
        · split at h
          · exact loadRecvs_inv T mid rest _ _ res h r hr
          · exact loadRecvs_inv T mid rest _ _ res h r hr

theorem loadMsg_inv (T : Tbl) (st : St) (p : PMsg) (res : Msg × St) (h : loadMsg T st p = .ok res) :
    (∀ r ∈ pmsgRefs p, T.has r) ∧ psigsMuxAll MuxOK p.sigs := by
  simp only [loadMsg] at h
  split at h
  · cases h
  · split at h
    · cases h
    · rename_i sigs sn hs
      split at h
      · cases h
      · rename_i recvs st' hr
        split at h
        · cases h
        · rename_i asg ha
          obtain ⟨a1, a2⟩ := loadTop_inv T p.refs _ p.sigs _ _ sigs hs
          refine ⟨?_, a2⟩
          intro r hr'
          simp only [pmsgRefs, List.mem_append, List.mem_map] at hr'
          rcases hr' with (hr' | hr') | ⟨x, hx, rfl⟩
          · exact loadAsgs_inv T p.asg asg ha r hr'
          · exact a1 r hr'
          · exact loadRecvs_inv T p.e.id p.recvs _ [] _ hr x hx

theorem loadMsgs_inv (T : Tbl) (key : Id × Nat) : ∀ (l : List PMsg) (st : St) (res : List Msg × St),
    loadMsgs T key st l = .ok res →
    ∀ m ∈ l, (∀ r ∈ pmsgRefs m, T.has r) ∧ psigsMuxAll MuxOK m.sigs
  | [], _, _, _ => by simp
  | p :: rest, st, res, h => by
    simp only [loadMsgs] at h
    split at h
    · cases h
    · rename_i m st1 hm
      split at h
      · cases h
      · split at h
        · cases h
        · split at h
          · cases h
          · rename_i ms st2 hms
            intro x hx
            rcases List.mem_cons.mp hx with rfl | hx
            · exact loadMsg_inv T st _ _ hm
            · exact loadMsgs_inv T key rest _ _ hms x hx

theorem loadIface_inv (T : Tbl) (st : St) (p : PIface) (res : Iface × St) (h : loadIface T st p = .ok res) :
    T.has (RefK.node, p.node) ∧ ∀ m ∈ p.msgs, (∀ r ∈ pmsgRefs m, T.has r) ∧ psigsMuxAll MuxOK m.sigs := by
  simp only [loadIface] at h
  split at h
  · cases h
  · rename_i nd hnd
    split at h
    · cases h
    · split at h
      · cases h
      · split at h
        · cases h
        · split at h
          · cases h
          · rename_i ms st1 hms
            exact ⟨by simp [Tbl.has, hnd], loadMsgs_inv T _ p.msgs st _ hms⟩

theorem loadIfaces_inv (T : Tbl) : ∀ (l : List PIface) (st : St) (res : List Iface × St),
    loadIfaces T st l = .ok res →
    ∀ i ∈ l, T.has (RefK.node, i.node) ∧
      ∀ m ∈ i.msgs, (∀ r ∈ pmsgRefs m, T.has r) ∧ psigsMuxAll MuxOK m.sigs
  | [], _, _, _ => by simp
  | p :: rest, st, res, h => by
    simp only [loadIfaces] at h
    split at h
    · cases h
    · rename_i i st1 hi
      split at h
      · cases h
      · rename_i is st2 his
        intro x hx
        rcases List.mem_cons.mp hx with rfl | hx
        · exact loadIface_inv T st _ _ hi
        · exact loadIfaces_inv T rest _ _ his x hx

theorem loadBus_inv (T : Tbl) (st : St) (p : PBus) (res : Bus × St) (h : loadBus T st p = .ok res) :
    (∀ r ∈ pbusRefs p, T.has r) ∧ ∀ i ∈ p.ifaces, ∀ m ∈ i.msgs, psigsMuxAll MuxOK m.sigs := by
  simp only [loadBus] at h
  split at h
  · cases h
  · rename_i hb
    split at h
    · cases h
    · rename_i is st1 his
      split at h
      · cases h
      · rename_i asg ha
        have hi := loadIfaces_inv T p.ifaces st _ his
        refine ⟨?_, fun i hi' m hm => ((hi i hi').2 m hm).2⟩
        intro r hr
        simp only [pbusRefs, List.mem_append, List.mem_flatMap] at hr
        rcases hr with (hr | hr) | ⟨i, hi', hr⟩
        · by_cases hbe : p.builder = ""
          · simp [hbe] at hr
          · simp only [hbe, if_false, List.mem_cons, List.not_mem_nil, or_false] at hr
            subst hr
            simp only [Bool.and_eq_true, bne_iff_ne, ne_eq, not_and, Bool.not_eq_true,
              Option.isNone_eq_false_iff] at hb
            simpa [Tbl.has] using hb hbe
        · exact loadAsgs_inv T p.asg asg ha r hr
        · simp only [pifaceRefs, List.mem_cons, List.mem_flatMap] at hr
          rcases hr with rfl | ⟨m, hm, hr⟩
          · exact (hi i hi').1
          · exact ((hi i hi').2 m hm).1 r hr

theorem loadBuses_inv (T : Tbl) : ∀ (l : List PBus) (st : St) (seen : List Id) (bs : List Bus),
    loadBuses T st seen l = .ok bs →
    ∀ b ∈ l, (∀ r ∈ pbusRefs b, T.has r) ∧ ∀ i ∈ b.ifaces, ∀ m ∈ i.msgs, psigsMuxAll MuxOK m.sigs
  | [], _, _, _, _ => by simp
  | p :: rest, st, seen, bs, h => by
    simp only [loadBuses] at h
    split at h
    · cases h
    · rename_i b st1 hb
      split at h
      · cases h
      · split at h
        · cases h
        · rename_i bs' hbs
          intro x hx
          rcases List.mem_cons.mp hx with rfl | hx
          · exact loadBus_inv T st _ _ hb
          · exact loadBuses_inv T rest _ _ _ hbs x hx

theorem loadNodes_inv (T : Tbl) : ∀ (l : List PNode) (ns : List Node), loadNodes T l = .ok ns →
    (∀ x ∈ l, ∀ r ∈ pasgRefs x.asg, T.has r) ∧ ns.map (·.e.id) = l.map (·.e.id)
  | [], ns, h => by simp only [loadNodes] at h; cases h; simp
  | p :: rest, ns, h => by
    simp only [loadNodes] at h
    split at h
    · cases h
    · rename_i asg ha
      split at h
      · cases h
      · rename_i ns' hns
        cases h
        obtain ⟨h1, h2⟩ := loadNodes_inv T rest ns' hns
        refine ⟨?_, by simp [h2]⟩
        intro x hx
        rcases List.mem_cons.mp hx with rfl | hx
        · exact loadAsgs_inv T _ asg ha
        · exact h1 x hx

theorem loadAttr_e (p : PAttr) (a : Attr) (h : loadAttr p = .ok a) : a.e = p.e := by
  obtain ⟨e, tag, body⟩ := p
  cases body <;> simp only [loadAttr] at h <;> (repeat' split at h) <;>
    first
    | (cases h; rfl)
    | cases h

theorem loadAttrs_ids : ∀ (l : List PAttr) (as : List Attr), loadAttrs l = .ok as →
    as.map (·.e.id) = l.map (·.e.id)
  | [], as, h => by simp only [loadAttrs] at h; cases h; rfl
  | p :: rest, as, h => by
    simp only [loadAttrs] at h
    split at h
    · cases h
    · rename_i a ha
      split at h
      · cases h
      · rename_i as' has
        cases h
        have : a.e = p.e := loadAttr_e p a ha
        simp [this, loadAttrs_ids rest as' has]

/-! ## from the loader's tables back to the tables of the file -/

theorem find?_dedupLast_mem {α : Type} (key : α → Id) (l : List α) (id : Id)
    (h : ((dedupLast key l).find? (fun x => key x == id)).isSome = true) : id ∈ l.map key := by
  cases hf : (dedupLast key l).find? (fun x => key x == id) with
  | none => simp [hf] at h
  | some a =>
    have hm := mem_of_mem_dedupLast (List.mem_of_find?_eq_some hf)
    have hk : key a = id := by simpa using List.find?_some hf
    exact List.mem_map.mpr ⟨a, hm, hk⟩

theorem load_tables (p : PNet) (n : Net) (h : load p = .ok n) : ∀ r, n.t.has r → p.has r := by
  simp only [load] at h
  split at h
  · cases h
  · rename_i attrs hattrs
    split at h
    · cases h
    · rename_i nodes hnodes
      split at h
      · cases h
      · rename_i buses hb
        cases h
        have hai := loadAttrs_ids p.attrs attrs hattrs
        have hni := (loadNodes_inv _ p.nodes nodes hnodes).2
        intro r hr
        obtain ⟨k, id⟩ := r
        cases k
        · -- builder
          have := find?_dedupLast_mem (fun b : Builder => b.e.id) _ id hr
          simp only [List.map_map, List.mem_map, Function.comp] at this
          obtain ⟨b, hb', he⟩ := this
          exact ⟨b, hb', he⟩
        · have := find?_dedupLast_mem (fun b : Node => b.e.id) _ id hr
          rw [hni] at this
          obtain ⟨x, hx, he⟩ := List.mem_map.mp this
          exact ⟨x, hx, he⟩
        · have := find?_dedupLast_mem (fun e : Ent => e.id) _ id hr
          obtain ⟨x, hx, he⟩ := List.mem_map.mp this
          exact ⟨x, hx, he⟩
        · have := find?_dedupLast_mem (fun e : Ent => e.id) _ id hr
          obtain ⟨x, hx, he⟩ := List.mem_map.mp this
          exact ⟨x, hx, he⟩
        · have := find?_dedupLast_mem (fun e : Ent => e.id) _ id hr
          obtain ⟨x, hx, he⟩ := List.mem_map.mp this
          exact ⟨x, hx, he⟩
        · have := find?_dedupLast_mem (fun b : Attr => b.e.id) _ id hr
          rw [hai] at this
          obtain ⟨x, hx, he⟩ := List.mem_map.mp this
          exact ⟨x, hx, he⟩

/-- a tree that is loaded: every reference names an entry of its table, every multiplexer has all
    children placed with one position each -/
theorem load_sound (p : PNet) (n : Net) (h : load p = .ok n) :
    (∀ r ∈ prefs p, p.has r) ∧ p.muxAll MuxOK := by
  have htab := load_tables p n h
  simp only [load] at h
  split at h
  · cases h
  · rename_i attrs hattrs
    split at h
    · cases h
    · rename_i nodes hnodes
      split at h
      · cases h
      · rename_i buses hb
        cases h
        have hbus := loadBuses_inv _ p.buses _ _ _ hb
        have hnod := (loadNodes_inv _ p.nodes nodes hnodes).1
        refine ⟨?_, fun b hb' => (hbus b hb').2⟩
        intro r hr
        simp only [prefs, List.mem_append, List.mem_flatMap] at hr
        rcases hr with ⟨b, hb', hr⟩ | ⟨x, hx, hr⟩
        · exact htab r ((hbus b hb').1 r hr)
        · apply htab r
          have := hnod x hx r hr
          -- node assignments were resolved against the attribute table, which is final
          obtain ⟨k, id⟩ := r
          simp only [pasgRefs, List.mem_map, Prod.mk.injEq] at hr
          obtain ⟨a, _, rfl, rfl⟩ := hr
          exact this

end Acme.Save
