/-
Lemmas for Props/C13Geom: the placement folds of `Acme.LoadGeom` keep every layout well-formed
(by the kernel theorem `Acme.Layout.insert_wf`), contain every signal they were given, and the
sizes they place are positive.
-/
import Acme.Core.LoadGeom
import Acme.Proofs.LayoutBasic

namespace Acme.LoadGeom
open Acme.Save Acme.Layout

/-! ### sizes -/

theorem calcSize_pos (v : Int) : 0 < Acme.Arith.calcSize v := by
  unfold Acme.Arith.calcSize Acme.Arith.len64 Acme.Arith.maxSize
  split
  · omega
  · split
    · omega
    · split <;> omega

theorem enumSize_pos (a b : Int) : 0 < Acme.Arith.enumSize a b := by
  unfold Acme.Arith.enumSize
  have := calcSize_pos b
  simp only
  split <;> omega

theorem enumSizeOf_pos (z : Sizes) (t : Tbl) (id : Id) : 0 < z.enumSizeOf t id := by
  unfold Sizes.enumSizeOf
  split
  · exact enumSize_pos _ _
  · omega

theorem muxSelWidth_pos (gc : Int) : 0 < Acme.Arith.muxSelWidth gc := calcSize_pos _

/-! ### layouts -/

theorem WFfrom_disjoint : ∀ {l : List Slot} {lo cap : Int}, WFfrom lo cap l → ∀ a ∈ l, ∀ b ∈ l, a ≠ b →
    a.start + a.size ≤ b.start ∨ b.start + b.size ≤ a.start
  | [], _, _, _, a, ha, _, _, _ => by cases ha
  | s :: rest, lo, cap, h, a, ha, b, hb, hab => by
    rw [WFfrom_cons] at h
    rcases List.mem_cons.1 ha with ha' | ha'
    · rcases List.mem_cons.1 hb with hb' | hb'
      · exact absurd (ha'.trans hb'.symm) hab
      · left; rw [ha']; exact (WFfrom_mem h.2.2 b hb').1
    · rcases List.mem_cons.1 hb with hb' | hb'
      · right; rw [hb']; exact (WFfrom_mem h.2.2 a ha').1
      · exact WFfrom_disjoint h.2.2 a ha' b hb' hab

/-- the kernel step: an accepted checked insertion keeps the layout well-formed, contains the new
    slot and every old one -/
theorem place_wf (cap : Int) (l : List Slot) (h : WF cap l) (id : Nat) (sz st : Int) (hsz : 0 < sz)
    (l' : List Slot) (hok : verifyAndInsert cap l id sz st = .ok l') :
    WF cap l' ∧ (⟨id, st, sz⟩ : Slot) ∈ l' ∧ ∀ s ∈ l, s ∈ l' := by
  obtain ⟨w, m, _, f⟩ := insert_wf cap l h id sz st hsz l' hok
  refine ⟨w, m, ?_⟩
  intro s hs
  by_cases he : s = (⟨id, st, sz⟩ : Slot)
  · rw [he]; exact m
  · have : s ∈ l.filter (fun s => s ≠ (⟨id, st, sz⟩ : Slot)) := by
      simp only [List.mem_filter, decide_eq_true_eq]; exact ⟨hs, he⟩
    rw [← f] at this
    exact (List.mem_filter.1 this).1

theorem verifyAndInsert_of_verify {cap : Int} {l : List Slot} {id : Nat} {sz st : Int}
    (h : verifyInsert cap l sz st = .ok ()) : verifyAndInsert cap l id sz st = .ok (insert l id sz st) := by
  unfold verifyAndInsert; rw [h]

/-! ### the groups of a multiplexer -/

def GroupsWF (cap : Int) (gs : List (List Slot)) : Prop := ∀ l ∈ gs, WF cap l

theorem verifyGroups_ok {cap sz st : Int} : ∀ {gs : List (List Slot)}, verifyGroups cap sz st gs = .ok () →
    ∀ l ∈ gs, verifyInsert cap l sz st = .ok ()
  | [], _, l, hl => by cases hl
  | g :: r, h, l, hl => by
    simp only [verifyGroups] at h
    split at h
    · cases h
    · rename_i hv
      rcases List.mem_cons.1 hl with rfl | hl
      · exact hv
      · exact verifyGroups_ok h l hl

theorem placeIn_wf (cap : Int) (idx : Nat) (sz st : Int) (hsz : 0 < sz) : ∀ (g : Nat) (gs gs' : List (List Slot)),
    GroupsWF cap gs → placeIn cap idx sz st g gs = .ok gs' → GroupsWF cap gs' ∧ gs'.length = gs.length
  | _, [], gs', _, h => by
    simp only [placeIn] at h
    injection h with h; subst h
    exact ⟨fun l hl => (by cases hl), rfl⟩
  | 0, l :: r, gs', hw, h => by
    simp only [placeIn] at h
    split at h
    · cases h
    · rename_i l' hl'
      injection h with h; subst h
      have := (place_wf cap l (hw l (List.mem_cons_self ..)) idx sz st hsz l' hl').1
      refine ⟨?_, by simp⟩
      intro x hx
      rcases List.mem_cons.1 hx with rfl | hx
      · exact this
      · exact hw x (List.mem_cons_of_mem _ hx)
  | g + 1, l :: r, gs', hw, h => by
    simp only [placeIn] at h
    split at h
    · cases h
    · rename_i r' hr'
      injection h with h; subst h
      obtain ⟨a, b⟩ := placeIn_wf cap idx sz st hsz g r r' (fun x hx => hw x (List.mem_cons_of_mem _ hx)) hr'
      refine ⟨?_, by simp [b]⟩
      intro x hx
      rcases List.mem_cons.1 hx with rfl | hx
      · exact hw x (List.mem_cons_self ..)
      · exact a x hx

theorem step_wf (cap : Int) (s : Step) (hsz : 0 < s.size) (gs gs' : List (List Slot))
    (hw : GroupsWF cap gs) (h : step cap s gs = .ok gs') : GroupsWF cap gs' ∧ gs'.length = gs.length := by
  unfold step at h
  split at h
  · split at h
    · cases h
    · rename_i hv
      injection h with h; subst h
      refine ⟨?_, by simp⟩
      intro l hl
      obtain ⟨l0, hl0, rfl⟩ := List.mem_map.1 hl
      have hv0 := verifyGroups_ok hv l0 hl0
      exact (place_wf cap l0 (hw l0 hl0) s.idx s.size s.pos hsz _ (verifyAndInsert_of_verify hv0)).1
  · exact placeIn_wf cap s.idx s.size s.pos hsz _ gs gs' hw h

theorem runSteps_wf (mux : Id) (cap : Int) : ∀ (ss : List Step) (gs gs' : List (List Slot)),
    (∀ s ∈ ss, 0 < s.size) → GroupsWF cap gs → runSteps mux cap ss gs = .ok gs' →
    GroupsWF cap gs' ∧ gs'.length = gs.length
  | [], gs, gs', _, hw, h => by
    simp only [runSteps] at h
    injection h with h; subst h
    exact ⟨hw, rfl⟩
  | s :: r, gs, gs', hp, hw, h => by
    simp only [runSteps] at h
    split at h
    · cases h
    · rename_i g1 h1
      obtain ⟨a, b⟩ := step_wf cap s (hp s (List.mem_cons_self ..)) gs g1 hw h1
      obtain ⟨c, d⟩ := runSteps_wf mux cap r g1 gs' (fun x hx => hp x (List.mem_cons_of_mem _ hx)) a h
      exact ⟨c, by omega⟩

theorem mem_number {α : Type} : ∀ (l : List α) (i : Nat) (p : Nat × α), p ∈ number i l → p.2 ∈ l
  | [], _, _, h => by cases h
  | x :: r, i, p, h => by
    simp only [number, List.mem_cons] at h
    rcases h with rfl | h
    · exact List.mem_cons_self ..
    · exact List.mem_cons_of_mem _ (mem_number r (i + 1) p h)

theorem stepsOf_pos (gc : Nat) (ks : List KG) (hp : ∀ k ∈ ks, 0 < k.size) : ∀ s ∈ stepsOf gc ks, 0 < s.size := by
  intro s hs
  simp only [stepsOf, List.mem_append, List.mem_map, List.mem_filter, List.mem_flatMap] at hs
  rcases hs with ⟨p, ⟨hp1, _⟩, rfl⟩ | ⟨g, _, p, ⟨hp1, _⟩, rfl⟩
  · exact hp _ (mem_number ks 0 p hp1)
  · exact hp _ (mem_number ks 0 p hp1)

/-- the invariant of a loaded multiplexer: positive group size, one layout per group, every layout
    well-formed for the group size -/
def GMuxWF (x : GMux) : Prop := 0 < x.gs ∧ x.groups.length = x.gc ∧ ∀ l ∈ x.groups, WF x.gs l

theorem placeKids_wf (mux : Id) (gc : Nat) (gs : Int) (hgs : 0 < gs) (ks : List KG) (hp : ∀ k ∈ ks, 0 < k.size)
    (x : GMux) (h : placeKids mux gc gs ks = .ok x) : GMuxWF x ∧ x.gs = gs ∧ x.gc = gc ∧ x.id = mux := by
  unfold placeKids at h
  split at h
  · cases h
  · rename_i groups hr
    injection h with h; subst h
    have h0 : GroupsWF gs (List.replicate gc ([] : List Slot)) := by
      intro l hl
      rw [List.eq_of_mem_replicate hl]
      show (0 : Int) ≤ gs
      omega
    obtain ⟨a, b⟩ := runSteps_wf mux gs _ _ groups (stepsOf_pos gc ks hp) h0 hr
    exact ⟨⟨hgs, by simpa using b, a⟩, rfl, rfl, rfl⟩

/-! ### signal trees -/

mutual
  theorem sigGeom_wf (z : Sizes) (t : Tbl) : (s : Sig) → (sz : Int) → (mx : List GMux) →
      sigGeom z t s = .ok (sz, mx) → sz = sigSize z t s ∧ 0 < sz ∧ ∀ x ∈ mx, GMuxWF x
    | .mk e asg body, sz, mx, h => by
      simp only [sigGeom] at h
      have := bodyGeom_wf z t e body sz mx h
      refine ⟨?_, this.2⟩
      rw [this.1]; cases body <;> rfl
  theorem bodyGeom_wf (z : Sizes) (t : Tbl) (self : Ent) : (b : Body) → (sz : Int) → (mx : List GMux) →
      bodyGeom z t self b = .ok (sz, mx) →
      sz = (match b with
            | .std ty _ => z.typeSizeOf t ty
            | .enm en => z.enumSizeOf t en
            | .mux gc _ => z.gsOf self + Acme.Arith.muxSelWidth gc) ∧ 0 < sz ∧ ∀ x ∈ mx, GMuxWF x
    | .std ty un, sz, mx, h => by
      simp only [bodyGeom] at h
      split at h
      · cases h
      · injection h with h; injection h with h1 h2; subst h1 h2
        exact ⟨rfl, (by omega), fun x hx => (by cases hx)⟩
    | .enm en, sz, mx, h => by
      simp only [bodyGeom] at h
      injection h with h; injection h with h1 h2; subst h1 h2
      exact ⟨rfl, enumSizeOf_pos z t en, fun x hx => (by cases hx)⟩
    | .mux gc kids, sz, mx, h => by
      simp only [bodyGeom] at h
      split at h
      · cases h
      · rename_i hgs
        split at h
        · cases h
        · rename_i ks inner hk
          split at h
          · cases h
          · rename_i x hx
            injection h with h; injection h with h1 h2; subst h1 h2
            obtain ⟨kp, ki⟩ := kidsGeom_wf z t kids ks inner hk
            obtain ⟨xw, _⟩ := placeKids_wf self.id gc (z.gsOf self) (by omega) ks kp x hx
            have := muxSelWidth_pos (gc : Int)
            refine ⟨rfl, (by omega), ?_⟩
            intro y hy
            rcases List.mem_cons.1 hy with rfl | hy
            · exact xw
            · exact ki y hy
  theorem kidsGeom_wf (z : Sizes) (t : Tbl) : (kids : List Kid) → (ks : List KG) → (mx : List GMux) →
      kidsGeom z t kids = .ok (ks, mx) → (∀ k ∈ ks, 0 < k.size) ∧ ∀ x ∈ mx, GMuxWF x
    | [], ks, mx, h => by
      simp only [kidsGeom] at h
      injection h with h; injection h with h1 h2; subst h1 h2
      exact ⟨fun k hk => (by cases hk), fun x hx => (by cases hx)⟩
    | .mk s pos grp :: r, ks, mx, h => by
      simp only [kidsGeom] at h
      split at h
      · cases h
      · rename_i sz m1 hs
        split at h
        · cases h
        · rename_i ks' mxs hr
          injection h with h; injection h with h1 h2; subst h1 h2
          obtain ⟨_, sp, sm⟩ := sigGeom_wf z t s sz m1 hs
          obtain ⟨kp, km⟩ := kidsGeom_wf z t r ks' mxs hr
          refine ⟨?_, ?_⟩
          · intro k hk
            rcases List.mem_cons.1 hk with rfl | hk
            · exact sp
            · exact kp k hk
          · intro x hx
            rcases List.mem_append.1 hx with hx | hx
            · exact sm x hx
            · exact km x hx
end

/-! ### messages -/

/-- what an accepted placement loop of a message guarantees -/
theorem msgSteps_wf (z : Sizes) (t : Tbl) (mid : Id) (cap : Int) : ∀ (sigs : List (Sig × Nat)) (i : Nat)
    (l lf : List Slot) (mx : List GMux), WF cap l → msgSteps z t mid cap sigs i l = .ok (lf, mx) →
    WF cap lf ∧ (∀ s ∈ l, s ∈ lf) ∧ (∀ x ∈ mx, GMuxWF x) ∧
    ∀ j (hj : j < sigs.length), (⟨i + j, (sigs[j].2 : Nat), sigSize z t sigs[j].1⟩ : Slot) ∈ lf
  | [], i, l, lf, mx, hw, h => by
    simp only [msgSteps] at h
    injection h with h; injection h with h1 h2; subst h1 h2
    exact ⟨hw, fun s hs => hs, fun x hx => (by cases hx), fun j hj => (by simp at hj)⟩
  | (s, pos) :: r, i, l, lf, mx, hw, h => by
    simp only [msgSteps] at h
    split at h
    · cases h
    · rename_i sz m1 hs
      split at h
      · cases h
      · rename_i l' hl'
        split at h
        · cases h
        · rename_i lf' mxs hr
          injection h with h; injection h with h1 h2; subst h1 h2
          obtain ⟨hsz, sp, sm⟩ := sigGeom_wf z t s sz m1 hs
          obtain ⟨w1, m1', k1⟩ := place_wf cap l hw i sz pos sp l' hl'
          obtain ⟨w2, k2, x2, j2⟩ := msgSteps_wf z t mid cap r (i + 1) l' lf' mxs w1 hr
          refine ⟨w2, fun s hs => k2 s (k1 s hs), ?_, ?_⟩
          · intro x hx
            rcases List.mem_append.1 hx with hx | hx
            · exact sm x hx
            · exact x2 x hx
          · intro j hj
            cases j with
            | zero =>
              simp only [List.getElem_cons_zero, Nat.add_zero]
              rw [← hsz]; exact k2 _ m1'
            | succ j =>
              simp only [List.getElem_cons_succ]
              have := j2 j (by simpa using hj)
              rw [show i + (j + 1) = i + 1 + j by omega]
              exact this

/-- the invariant of a loaded message -/
def GMsgWF (g : GMsg) : Prop := WF g.cap g.slots ∧ ∀ x ∈ g.muxes, GMuxWF x

theorem msgGeom_wf (z : Sizes) (t : Tbl) (m : Msg) (g : GMsg) (h : msgGeom z t m = .ok g) :
    GMsgWF g ∧ g.cap = z.msgCap m.e ∧ g.id = m.e.id ∧
    ∀ j (hj : j < m.sigs.length), (⟨j, (m.sigs[j].2 : Nat), sigSize z t m.sigs[j].1⟩ : Slot) ∈ g.slots := by
  unfold msgGeom at h
  split at h
  · cases h
  · rename_i l mx hr
    injection h with h; subst h
    have h0 : WF (z.msgCap m.e) [] := by
      show (0 : Int) ≤ z.msgCap m.e
      unfold Sizes.msgCap; omega
    obtain ⟨a, _, c, d⟩ := msgSteps_wf z t m.e.id _ m.sigs 0 [] l mx h0 hr
    refine ⟨⟨a, c⟩, rfl, rfl, ?_⟩
    intro j hj
    simpa using d j hj

theorem msgsGeom_ok (z : Sizes) (t : Tbl) : ∀ (ms : List Msg) (gs : List GMsg), msgsGeom z t ms = .ok gs →
    List.Forall₂ (fun m g => msgGeom z t m = .ok g) ms gs
  | [], gs, h => by
    simp only [msgsGeom] at h
    injection h with h; subst h
    exact .nil
  | m :: r, gs, h => by
    simp only [msgsGeom] at h
    split at h
    · cases h
    · rename_i g hg
      split at h
      · cases h
      · rename_i gs' hr
        injection h with h; subst h
        exact .cons hg (msgsGeom_ok z t r gs' hr)


/-! ### the multiplexers listed -/

mutual
  theorem sigGeom_muxIds (z : Sizes) (t : Tbl) : (s : Sig) → (sz : Int) → (mx : List GMux) →
      sigGeom z t s = .ok (sz, mx) → mx.map (·.id) = sigMuxIds s
    | .mk e asg body, sz, mx, h => by
      simp only [sigGeom] at h
      simp only [sigMuxIds]
      exact bodyGeom_muxIds z t e body sz mx h
  theorem bodyGeom_muxIds (z : Sizes) (t : Tbl) (self : Ent) : (b : Body) → (sz : Int) → (mx : List GMux) →
      bodyGeom z t self b = .ok (sz, mx) → mx.map (·.id) = bodyMuxIds self.id b
    | .std ty un, sz, mx, h => by
      simp only [bodyGeom] at h
      split at h
      · cases h
      · injection h with h; injection h with h1 h2; subst h1 h2; rfl
    | .enm en, sz, mx, h => by
      simp only [bodyGeom] at h
      injection h with h; injection h with h1 h2; subst h1 h2; rfl
    | .mux gc kids, sz, mx, h => by
      simp only [bodyGeom] at h
      split at h
      · cases h
      · split at h
        · cases h
        · rename_i ks inner hk
          split at h
          · cases h
          · rename_i x hx
            injection h with h; injection h with h1 h2; subst h1 h2
            have hid : x.id = self.id := by
              unfold placeKids at hx
              split at hx
              · cases hx
              · injection hx with hx; subst hx; rfl
            simp only [List.map_cons, bodyMuxIds, hid, kidsGeom_muxIds z t kids ks inner hk]
  theorem kidsGeom_muxIds (z : Sizes) (t : Tbl) : (kids : List Kid) → (ks : List KG) → (mx : List GMux) →
      kidsGeom z t kids = .ok (ks, mx) → mx.map (·.id) = kidsMuxIds kids
    | [], ks, mx, h => by
      simp only [kidsGeom] at h
      injection h with h; injection h with h1 h2; subst h1 h2; rfl
    | .mk s pos grp :: r, ks, mx, h => by
      simp only [kidsGeom] at h
      split at h
      · cases h
      · rename_i sz m1 hs
        split at h
        · cases h
        · rename_i ks' mxs hr
          injection h with h; injection h with h1 h2; subst h1 h2
          simp only [List.map_append, kidsMuxIds, sigGeom_muxIds z t s sz m1 hs, kidsGeom_muxIds z t r ks' mxs hr]
end

theorem msgSteps_muxIds (z : Sizes) (t : Tbl) (mid : Id) (cap : Int) : ∀ (sigs : List (Sig × Nat)) (i : Nat)
    (l lf : List Slot) (mx : List GMux), msgSteps z t mid cap sigs i l = .ok (lf, mx) →
    mx.map (·.id) = sigs.flatMap (fun p => sigMuxIds p.1)
  | [], i, l, lf, mx, h => by
    simp only [msgSteps] at h
    injection h with h; injection h with h1 h2; subst h1 h2; rfl
  | (s, pos) :: r, i, l, lf, mx, h => by
    simp only [msgSteps] at h
    split at h
    · cases h
    · rename_i sz m1 hs
      split at h
      · cases h
      · rename_i l' hl'
        split at h
        · cases h
        · rename_i lf' mxs hr
          injection h with h; injection h with h1 h2; subst h1 h2
          simp only [List.map_append, List.flatMap_cons, sigGeom_muxIds z t s sz m1 hs,
            msgSteps_muxIds z t mid cap r (i + 1) l' lf' mxs hr]

theorem msgGeom_muxIds (z : Sizes) (t : Tbl) (m : Msg) (g : GMsg) (h : msgGeom z t m = .ok g) :
    g.muxes.map (·.id) = m.sigs.flatMap (fun p => sigMuxIds p.1) := by
  unfold msgGeom at h
  split at h
  · cases h
  · rename_i l mx hr
    injection h with h; subst h
    exact msgSteps_muxIds z t _ _ m.sigs 0 [] l mx hr

/-! ### the composition -/

theorem forall₂_imp {α β : Type} {R S : α → β → Prop} (h : ∀ a b, R a b → S a b) :
    ∀ {l1 : List α} {l2 : List β}, List.Forall₂ R l1 l2 → List.Forall₂ S l1 l2
  | _, _, .nil => .nil
  | _, _, .cons hab r => .cons (h _ _ hab) (forall₂_imp h r)

theorem forall₂_mem {α β : Type} {R : α → β → Prop} :
    ∀ {l1 : List α} {l2 : List β}, List.Forall₂ R l1 l2 → ∀ a ∈ l1, ∃ b, b ∈ l2 ∧ R a b
  | _, _, .nil, a, ha => by cases ha
  | _, _, .cons (a := a0) (b := b0) hab r, a, ha => by
    rcases List.mem_cons.1 ha with rfl | ha
    · exact ⟨b0, List.mem_cons_self .., hab⟩
    · obtain ⟨b, hb, hr⟩ := forall₂_mem r a ha
      exact ⟨b, List.mem_cons_of_mem _ hb, hr⟩

theorem loadGeom_ok {z : Sizes} {n : Net} {g : GNet} (h : loadGeom z n = .ok g) :
    g.net = n ∧ List.Forall₂ (fun m gm => msgGeom z n.t m = .ok gm) (allMsgs n) g.msgs := by
  unfold loadGeom at h
  split at h
  · cases h
  · split at h
    · cases h
    · rename_i ms hms
      injection h with h; subst h
      exact ⟨rfl, msgsGeom_ok z n.t _ ms hms⟩

theorem loadFull_ok {z : Sizes} {p : PNet} {g : GNet} (h : loadFull z p = .ok g) :
    load p = .ok g.net ∧ loadGeom z g.net = .ok g := by
  unfold loadFull at h
  split at h
  · cases h
  · rename_i n hn
    split at h
    · cases h
    · rename_i g' hg
      injection h with h; subst h
      have := (loadGeom_ok hg).1
      rw [this]; exact ⟨hn, hg⟩

theorem loadFull_cases (z : Sizes) (p : PNet) (n : Net) (hl : load p = .ok n) :
    (∃ e, loadFull z p = .error (.geom e)) ∨ ∃ g, loadFull z p = .ok g ∧ loadGeom z n = .ok g := by
  unfold loadFull
  rw [hl]
  cases hg : loadGeom z n with
  | error e => exact .inl ⟨e, by simp only [hg]⟩
  | ok g => exact .inr ⟨g, by simp only [hg], rfl⟩

end Acme.LoadGeom
