/-
C11 at message level, part 2: what `exportMultiplexerSignal` writes — the order in which the
children are seen, the group ids collected per name, the SG_MUL_VAL_ entries — and what the
importer reads back from it (`kidIds`).
-/
import Acme.Spec.ExportImport
import Acme.Proofs.ExportBasic

namespace Acme.Import
open Acme.Layout Acme.Conv Acme.Arith
open Acme.Mux (sortInts compactAdj)

/-! ### names decide identity inside one multiplexer -/

theorem name_inj {cs : List Child} (h : (cs.map (·.name)).Nodup) {a b : Child} (ha : a ∈ cs) (hb : b ∈ cs)
    (hn : a.name = b.name) : a = b :=
  List.inj_on_of_nodup_map h ha hb hn

/-! ### the walk over the groups -/

structure SeenInv (cs : List Child) (seen : List (Child × Int)) : Prop where
  sub : ∀ p ∈ seen, p.1 ∈ cs
  nodup : (seen.map (fun p => p.1.name)).Nodup

theorem any_seen_iff {cs : List Child} (hinj : (cs.map (·.name)).Nodup) {seen : List (Child × Int)}
    (hs : SeenInv cs seen) {c : Child} (hc : c ∈ cs) :
    (seen.any (fun p => p.1.name == c.name)) = true ↔ c ∈ seen.map (·.1) := by
  rw [List.any_eq_true]
  constructor
  · rintro ⟨p, hp, hn⟩
    have : p.1 = c := name_inj hinj (hs.sub p hp) hc (by simpa using hn)
    exact List.mem_map.2 ⟨p, hp, this⟩
  · intro hm
    obtain ⟨p, hp, rfl⟩ := List.mem_map.1 hm
    exact ⟨p, hp, by simp⟩

theorem walkGroup_spec {cs : List Child} (hinj : (cs.map (·.name)).Nodup) (id : Int) :
    ∀ (g : List Child) (seen : List (Child × Int)), (∀ x ∈ g, x ∈ cs) → SeenInv cs seen →
    SeenInv cs (walkGroup id g seen) ∧
    (∀ x, x ∈ (walkGroup id g seen).map (·.1) ↔ x ∈ seen.map (·.1) ∨ x ∈ g) ∧
    (∀ p ∈ walkGroup id g seen, p ∈ seen ∨ (p.2 = id ∧ p.1 ∈ g))
  | [], seen, _, hs => ⟨hs, fun x => by simp [walkGroup], fun p hp => Or.inl hp⟩
  | c :: r, seen, hg, hs => by
    have hc : c ∈ cs := hg c (List.mem_cons_self ..)
    have hr : ∀ x ∈ r, x ∈ cs := fun x hx => hg x (List.mem_cons_of_mem _ hx)
    unfold walkGroup
    split
    · rename_i hany
      have hcm := (any_seen_iff hinj hs hc).1 hany
      obtain ⟨h1, h2, h3⟩ := walkGroup_spec hinj id r seen hr hs
      refine ⟨h1, ?_, ?_⟩
      · intro x
        rw [h2 x, List.mem_cons]
        constructor
        · rintro (h | h)
          · exact Or.inl h
          · exact Or.inr (Or.inr h)
        · rintro (h | rfl | h)
          · exact Or.inl h
          · exact Or.inl hcm
          · exact Or.inr h
      · intro p hp
        rcases h3 p hp with h | ⟨h, h'⟩
        · exact Or.inl h
        · exact Or.inr ⟨h, List.mem_cons_of_mem _ h'⟩
    · rename_i hany
      have hnot : c ∉ seen.map (·.1) := fun hm => hany ((any_seen_iff hinj hs hc).2 hm)
      have hs' : SeenInv cs (seen ++ [(c, id)]) := by
        refine ⟨?_, ?_⟩
        · intro p hp
          rcases List.mem_append.1 hp with h | h
          · exact hs.sub p h
          · rw [List.mem_singleton] at h; subst h; exact hc
        · rw [List.map_append, List.nodup_append]
          refine ⟨hs.nodup, by simp, ?_⟩
          intro a ha b hb hab
          simp only [List.map_cons, List.map_nil, List.mem_singleton] at hb
          obtain ⟨p, hp, rfl⟩ := List.mem_map.1 ha
          apply hany
          exact List.any_eq_true.2 ⟨p, hp, by simp [hab, hb]⟩
      obtain ⟨h1, h2, h3⟩ := walkGroup_spec hinj id r (seen ++ [(c, id)]) hr hs'
      refine ⟨h1, ?_, ?_⟩
      · intro x
        rw [h2 x, List.map_append, List.mem_append, List.mem_cons]
        simp only [List.map_cons, List.map_nil, List.mem_singleton]
        constructor
        · rintro ((h | h) | h)
          · exact Or.inl h
          · exact Or.inr (Or.inl h)
          · exact Or.inr (Or.inr h)
        · rintro (h | h | h)
          · exact Or.inl (Or.inl h)
          · exact Or.inl (Or.inr h)
          · exact Or.inr h
      · intro p hp
        rcases h3 p hp with h | ⟨h, h'⟩
        · rcases List.mem_append.1 h with h | h
          · exact Or.inl h
          · rw [List.mem_singleton] at h
            subst h
            exact Or.inr ⟨rfl, List.mem_cons_self ..⟩
        · exact Or.inr ⟨h, List.mem_cons_of_mem _ h'⟩

theorem walkGroups_spec {cs : List Child} (hinj : (cs.map (·.name)).Nodup) :
    ∀ (ks : List Nat) (seen : List (Child × Int)), SeenInv cs seen →
    SeenInv cs (walkGroups cs ks seen) ∧
    (∀ x, x ∈ (walkGroups cs ks seen).map (·.1) ↔
        x ∈ seen.map (·.1) ∨ ∃ k ∈ ks, x ∈ groupOf cs ((k : Nat) : Int)) ∧
    (∀ p ∈ walkGroups cs ks seen, p ∈ seen ∨ ∃ k ∈ ks, p.2 = ((k : Nat) : Int) ∧ p.1 ∈ groupOf cs ((k : Nat) : Int))
  | [], seen, hs => ⟨hs, fun x => by simp [walkGroups], fun p hp => Or.inl hp⟩
  | k :: r, seen, hs => by
    have hsub : ∀ x ∈ groupOf cs (k : Int), x ∈ cs := fun x hx => ((mem_groupOf cs k x).1 hx).1
    obtain ⟨a1, a2, a3⟩ := walkGroup_spec hinj (k : Int) (groupOf cs (k : Int)) seen hsub hs
    obtain ⟨b1, b2, b3⟩ := walkGroups_spec hinj r (walkGroup (k : Int) (groupOf cs (k : Int)) seen) a1
    simp only [walkGroups]
    refine ⟨b1, ?_, ?_⟩
    · intro x
      rw [b2 x, a2 x]
      constructor
      · rintro ((h | h) | ⟨k', hk', h⟩)
        · exact Or.inl h
        · exact Or.inr ⟨k, List.mem_cons_self .., h⟩
        · exact Or.inr ⟨k', List.mem_cons_of_mem _ hk', h⟩
      · rintro (h | ⟨k', hk', h⟩)
        · exact Or.inl (Or.inl h)
        · rcases List.mem_cons.1 hk' with rfl | hk'
          · exact Or.inl (Or.inr h)
          · exact Or.inr ⟨k', hk', h⟩
    · intro p hp
      rcases b3 p hp with h | ⟨k', hk', h⟩
      · rcases a3 p h with h | ⟨h1, h2⟩
        · exact Or.inl h
        · exact Or.inr ⟨k, List.mem_cons_self .., h1, h2⟩
      · exact Or.inr ⟨k', List.mem_cons_of_mem _ hk', h⟩

/-! ### facts about an expressible multiplexer -/

/-- what the proofs use of `MuxExpressible`, in convenient form -/
structure MuxOK (n : MuxNode) : Prop where
  w1 : 1 ≤ n.selW
  w62 : n.selW ≤ 62
  gc : n.groupCount = calcValue n.selW
  gc2 : 2 ≤ n.groupCount
  gsPos : 0 < n.groupSize
  wf : GroupsWF n.groupCount n.groupSize n.children
  ids : ∀ c ∈ n.children, (∀ g ∈ c.gids, 0 ≤ g ∧ g < n.groupCount) ∧ c.gids.Pairwise (· < ·) ∧
      (c.gids.length : Int) < n.groupCount ∧ 0 < c.size
  noMux : ∀ c ∈ n.children, c.isMux = false
  tight : ∃ c ∈ n.children, c.rel + c.size = n.groupSize
  names : (n.children.map (·.name)).Nodup

theorem calcValue_ge_two (w : Int) (h1 : 1 ≤ w) (h2 : w ≤ 62) : 2 ≤ calcValue w := by
  obtain ⟨k, rfl⟩ := Int.eq_ofNat_of_zero_le (by omega : (0 : Int) ≤ w)
  rw [Acme.Conv.calcValue_pow k (by omega) (by omega)]
  have : 2 ^ 1 ≤ 2 ^ k := Nat.pow_le_pow_right (by decide) (by omega)
  have h2 : (2 : Nat) ≤ 2 ^ k := by simpa using this
  exact_mod_cast h2

theorem muxOK_of (n : MuxNode) (h : MuxExpressible n) (hn : (n.children.map (·.name)).Nodup) : MuxOK n := by
  obtain ⟨h1, h2, h3, h4, h5, h6, h7⟩ := h
  refine ⟨h1, h2, h3, ?_, h4, ?_, fun c hc => ⟨(h6 c hc).1, (h6 c hc).2.1, (h6 c hc).2.2.1, (h6 c hc).2.2.2.1⟩,
    fun c hc => (h6 c hc).2.2.2.2, h7, hn⟩
  · rw [h3]; exact calcValue_ge_two _ h1 h2
  · intro k hk
    apply h5 k
    rw [List.mem_range]
    omega

/-- every child is a member of some group -/
theorem child_in_some_group (n : MuxNode) (h : MuxOK n) (c : Child) (hc : c ∈ n.children) :
    ∃ k : Nat, (k : Int) < n.groupCount ∧ c.inGroup (k : Int) = true := by
  cases hg : c.gids with
  | nil => exact ⟨0, by have := h.gc2; omega, by simp [Child.inGroup, hg]⟩
  | cons g r =>
    have hgm : g ∈ c.gids := by rw [hg]; exact List.mem_cons_self ..
    obtain ⟨a, b⟩ := (h.ids c hc).1 g hgm
    refine ⟨g.toNat, by omega, ?_⟩
    have : ((g.toNat : Nat) : Int) = g := Int.toNat_of_nonneg a
    rw [this]
    simp only [Child.inGroup, Bool.or_eq_true]
    right
    simpa using hgm

theorem child_bounds (n : MuxNode) (h : MuxOK n) (c : Child) (hc : c ∈ n.children) :
    0 ≤ c.rel ∧ c.rel + c.size ≤ n.groupSize := by
  obtain ⟨k, hk, hin⟩ := child_in_some_group n h c hc
  have hm : c ∈ groupOf n.children (k : Int) := (mem_groupOf _ _ _).2 ⟨hc, hin⟩
  have hs : c.slot ∈ childSlots (groupOf n.children (k : Int)) := List.mem_map.2 ⟨c, hm, rfl⟩
  have := WFfrom_mem (h.wf k hk) c.slot hs
  exact ⟨this.1, this.2.2⟩

/-- children that share a group do not overlap -/
theorem foldl_insertChild_perm : ∀ (xs acc : List Child),
    (xs.foldl (fun l c => insertChild c l) acc).Perm (xs ++ acc)
  | [], acc => List.Perm.refl _
  | x :: xs, acc => by
    rw [List.foldl_cons]
    refine (foldl_insertChild_perm xs (insertChild x acc)).trans ?_
    exact (List.Perm.append_left xs (insertChild_perm x acc)).trans List.perm_middle

theorem groupOf_perm (cs : List Child) (k : Int) : (groupOf cs k).Perm (cs.filter (fun c => c.inGroup k)) := by
  unfold groupOf
  have := foldl_insertChild_perm (cs.filter (fun c => c.inGroup k)) []
  rwa [List.append_nil] at this

theorem pairwise_forall {α : Type} {ι : Type} (R : ι → α → α → Prop) : ∀ (l : List α),
    (∀ i, l.Pairwise (R i)) → l.Pairwise (fun a b => ∀ i, R i a b)
  | [], _ => List.Pairwise.nil
  | a :: r, h => by
    refine List.Pairwise.cons ?_ (pairwise_forall R r (fun i => (List.pairwise_cons.1 (h i)).2))
    intro b hb i
    exact (List.pairwise_cons.1 (h i)).1 b hb

theorem pairwise_of_forall {α : Type} (R : α → α → Prop) (h : ∀ a b, R a b) : ∀ l : List α, l.Pairwise R
  | [] => List.Pairwise.nil
  | a :: r => List.Pairwise.cons (fun b _ => h a b) (pairwise_of_forall R h r)

theorem groupsWF_pairwise (gc gs : Int) (cs : List Child) (h : GroupsWF gc gs cs) :
    cs.Pairwise (GroupDisj gc) := by
  unfold GroupDisj
  apply pairwise_forall (fun (k : Nat) (c d : Child) =>
    (k : Int) < gc → c.inGroup (k : Int) = true → d.inGroup (k : Int) = true → SlotDisj c.slot d.slot)
  intro k
  by_cases hk : (k : Int) < gc
  · have h1 := wfFrom_pairwise _ _ _ (h k hk)
    simp only [childSlots] at h1
    have h2 := List.pairwise_map.1 h1
    have h3 := ((groupOf_perm cs k).pairwise_iff (fun hab => SlotDisj.symm hab)).1 h2
    have h4 := List.pairwise_filter.1 h3
    exact h4.imp (fun hab _ h1 h2 => hab h1 h2)
  · exact pairwise_of_forall _ (fun _ _ hk' => absurd hk' hk) cs

/-! ### the children the exporter sees -/

theorem seen_inv (n : MuxNode) (h : MuxOK n) : SeenInv n.children (seenChildren n) :=
  (walkGroups_spec h.names _ [] ⟨fun p hp => (by cases hp), (by simp)⟩).1

theorem seen_mem (n : MuxNode) (h : MuxOK n) (x : Child) :
    x ∈ (seenChildren n).map (·.1) ↔ x ∈ n.children := by
  have := (walkGroups_spec h.names (List.range n.groupCount.toNat) [] ⟨fun p hp => (by cases hp), (by simp)⟩).2.1 x
  unfold seenChildren
  rw [this]
  constructor
  · rintro (h0 | ⟨k, _, hk⟩)
    · simp at h0
    · exact ((mem_groupOf _ _ _).1 hk).1
  · intro hx
    obtain ⟨k, hk, hin⟩ := child_in_some_group n h x hx
    exact Or.inr ⟨k, List.mem_range.2 (by omega), (mem_groupOf _ _ _).2 ⟨hx, hin⟩⟩

theorem seen_group (n : MuxNode) (h : MuxOK n) (p : Child × Int) (hp : p ∈ seenChildren n) :
    0 ≤ p.2 ∧ p.2 < n.groupCount ∧ p.1.inGroup p.2 = true := by
  have := (walkGroups_spec h.names (List.range n.groupCount.toNat) [] ⟨fun p hp => (by cases hp), (by simp)⟩).2.2 p hp
  rcases this with h0 | ⟨k, hk, h1, h2⟩
  · cases h0
  · have hk' := List.mem_range.1 hk
    rw [h1]
    exact ⟨by omega, by omega, ((mem_groupOf _ _ _).1 h2).2⟩

theorem seen_perm (n : MuxNode) (h : MuxOK n) : ((seenChildren n).map (·.1)).Perm n.children := by
  apply (List.perm_ext_iff_of_nodup ?_ ?_).2 (seen_mem n h)
  · have := (seen_inv n h).nodup
    have e : (seenChildren n).map (fun p => p.1.name) = ((seenChildren n).map (·.1)).map (·.name) := by
      rw [List.map_map]; rfl
    rw [e] at this
    exact List.Nodup.of_map _ this
  · exact List.Nodup.of_map _ h.names

/-! ### the group ids collected per name -/

def memberIds (gc : Int) (c : Child) : List Int :=
  ((List.range gc.toNat).filter (fun (k : Nat) => c.inGroup (k : Int))).map (fun (k : Nat) => (k : Int))

theorem idsOfName_eq (n : MuxNode) (h : MuxOK n) (c : Child) (hc : c ∈ n.children) :
    idsOfName n.children n.groupCount c.name = memberIds n.groupCount c := by
  unfold idsOfName memberIds
  congr 1
  apply List.filter_congr
  intro k _
  cases hin : c.inGroup (k : Int)
  · apply List.any_eq_false.2
    intro d hd
    obtain ⟨hd1, hd2⟩ := (mem_groupOf _ _ _).1 hd
    simp only [beq_iff_eq]
    intro hn
    have := name_inj h.names hd1 hc hn
    subst this
    rw [hin] at hd2; cases hd2
  · apply List.any_eq_true.2
    exact ⟨c, (mem_groupOf _ _ _).2 ⟨hc, hin⟩, by simp⟩

theorem memberIds_sorted (gc : Int) (c : Child) : (memberIds gc c).Pairwise (· < ·) := by
  unfold memberIds
  apply List.Pairwise.map (R := fun (a b : Nat) => a < b)
  · intro a b hab; exact_mod_cast hab
  · exact List.Pairwise.filter _ List.pairwise_lt_range

theorem mem_memberIds (gc : Int) (c : Child) (x : Int) :
    x ∈ memberIds gc c ↔ 0 ≤ x ∧ x < gc ∧ c.inGroup x = true := by
  unfold memberIds
  rw [List.mem_map]
  constructor
  · rintro ⟨k, hk, rfl⟩
    obtain ⟨h1, h2⟩ := List.mem_filter.1 hk
    have := List.mem_range.1 h1
    exact ⟨by omega, by omega, h2⟩
  · rintro ⟨h0, h1, h2⟩
    refine ⟨x.toNat, List.mem_filter.2 ⟨List.mem_range.2 (by omega), ?_⟩, Int.toNat_of_nonneg h0⟩
    rw [Int.toNat_of_nonneg h0]; exact h2

theorem strict_nodup {l : List Int} (h : l.Pairwise (· < ·)) : l.Nodup :=
  h.imp (fun hab => Int.ne_of_lt hab)

theorem memberIds_listed (n : MuxNode) (h : MuxOK n) (c : Child) (hc : c ∈ n.children) (hg : c.gids ≠ []) :
    memberIds n.groupCount c = c.gids := by
  obtain ⟨h1, h2, _, _⟩ := h.ids c hc
  apply perm_sorted_eq (fun x => x) _ _ ?_ (memberIds_sorted _ _) h2
  apply (List.perm_ext_iff_of_nodup (strict_nodup (memberIds_sorted _ _)) (strict_nodup h2)).2
  intro x
  rw [mem_memberIds]
  constructor
  · rintro ⟨_, _, hin⟩
    simp only [Child.inGroup, Bool.or_eq_true, List.isEmpty_iff] at hin
    rcases hin with h0 | h0
    · exact absurd h0 hg
    · simpa using h0
  · intro hx
    obtain ⟨a, b⟩ := h1 x hx
    refine ⟨a, b, ?_⟩
    simp only [Child.inGroup, Bool.or_eq_true]
    right; simpa using hx

theorem memberIds_fixed_length (gc : Int) (c : Child) (hg : c.gids = []) (h0 : 0 ≤ gc) :
    ((memberIds gc c).length : Int) = gc := by
  unfold memberIds
  have : (List.range gc.toNat).filter (fun (k : Nat) => c.inGroup (k : Int)) = List.range gc.toNat := by
    apply List.filter_eq_self.2
    intro k _
    simp [Child.inGroup, hg]
  rw [this, List.length_map, List.length_range]
  omega

theorem memberIds_ne_nil (n : MuxNode) (h : MuxOK n) (c : Child) (hc : c ∈ n.children) :
    memberIds n.groupCount c ≠ [] := by
  obtain ⟨k, hk, hin⟩ := child_in_some_group n h c hc
  intro he
  have : (k : Int) ∈ memberIds n.groupCount c := (mem_memberIds _ _ _).2 ⟨by omega, hk, hin⟩
  rw [he] at this; cases this

/-- the ids the importer computes from what is written for `c` give `c.gids` back -/
theorem memberIds_back (n : MuxNode) (h : MuxOK n) (c : Child) (hc : c ∈ n.children) :
    (if ((memberIds n.groupCount c).length : Int) = n.groupCount then [] else memberIds n.groupCount c) = c.gids := by
  by_cases hg : c.gids = []
  · rw [if_pos (memberIds_fixed_length _ c hg (by have := h.gc2; omega)), hg]
  · rw [memberIds_listed n h c hc hg]
    have := (h.ids c hc).2.2.1
    rw [if_neg (by omega)]

/-! ### what is written, and what is read back -/

def muxSigOf (be : Bool) (n : MuxNode) : DSig :=
  { name := n.name, start := fileStart be n.start, size := n.selW.toNat, bigEndian := be, isMultiplexor := true }

def kidSig (be : Bool) (n : MuxNode) (p : Child × Int) : DSig :=
  { name := p.1.name, start := fileStart be (n.start + n.selW + p.1.rel), size := p.1.size.toNat,
    bigEndian := be, isMultiplexed := true, muxSwitch := p.2.toNat }

def extOf (n : MuxNode) (p : Child × Int) : Option DExt :=
  if (idsOfName n.children n.groupCount p.1.name).length = 1 then none
  else some ⟨n.name, p.1.name, toNatRanges ((compress (idsOfName n.children n.groupCount p.1.name)).getD [])⟩

def isExtended (n : MuxNode) : Bool :=
  (seenChildren n).any (fun p => decide ((idsOfName n.children n.groupCount p.1.name).length ≥ 2))

def extsOf (n : MuxNode) : List DExt :=
  if !isExtended n then [] else (seenChildren n).filterMap (extOf n)

theorem exportMux_eq (be : Bool) (n : MuxNode) :
    exportMux be n = (muxSigOf be n :: (seenChildren n).map (kidSig be n), extsOf n) := rfl

theorem filter_unique {α : Type} (key : α → String) : ∀ (l : List α), (l.map key).Nodup → ∀ p ∈ l,
    l.filter (fun q => key q == key p) = [p]
  | [], _, p, hp => by cases hp
  | a :: r, hnd, p, hp => by
    rw [List.map_cons, List.nodup_cons] at hnd
    rw [List.filter_cons]
    rcases List.mem_cons.1 hp with rfl | hp
    · simp only [beq_self_eq_true, if_true]
      congr 1
      apply List.filter_eq_nil_iff.2
      intro q hq
      simp only [beq_iff_eq]
      intro hk
      exact hnd.1 (hk ▸ List.mem_map.2 ⟨q, hq, rfl⟩)
    · have hne : (key a == key p) = false := by
        simp only [beq_eq_false_iff_ne]
        intro hk
        exact hnd.1 (hk ▸ List.mem_map.2 ⟨p, hp, rfl⟩)
      rw [hne]
      exact filter_unique key r hnd.2 p hp

theorem findExt_filterMap (n : MuxNode) (l : List (Child × Int)) (hnd : (l.map (fun p => p.1.name)).Nodup)
    (p : Child × Int) (hp : p ∈ l) : findExt (l.filterMap (extOf n)) p.1.name = extOf n p := by
  unfold findExt
  have e : (l.filterMap (extOf n)).filter (fun e => e.muxed == p.1.name) =
      (l.filter (fun q => q.1.name == p.1.name)).filterMap (extOf n) := by
    rw [List.filter_filterMap, List.filterMap_filter]
    apply List.filterMap_congr
    intro q _
    unfold extOf
    split
    · simp
    · by_cases hq : q.1.name = p.1.name
      · simp [hq]
      · simp [hq]
  rw [e, filter_unique (fun q : Child × Int => q.1.name) l hnd p hp]
  simp only [List.filterMap_cons, List.filterMap_nil]
  cases extOf n p <;> rfl

theorem expand_first_mem (gc : Int) : ∀ (rs : List (Int × Int)) (xs : List Int), expand gc rs = some xs →
    ∀ r ∈ rs, r.1 ∈ xs ∧ r.1 ≤ r.2
  | [], _, _, r, hr => by cases hr
  | (f, t) :: rest, xs, h, r, hr => by
    unfold expand at h
    split at h
    · cases h
    · rename_i hc
      split at h
      · cases h
      · rename_i ys hy
        injection h with h
        subst h
        rcases List.mem_cons.1 hr with rfl | hr
        · refine ⟨List.mem_append.2 (Or.inl ((Acme.Conv.mem_expandRange _ _ _).2 ⟨Int.le_refl _, by omega⟩)), by omega⟩
        · obtain ⟨a, b⟩ := expand_first_mem gc rest ys hy r hr
          exact ⟨List.mem_append.2 (Or.inr a), b⟩

/-- what `kidIds` computes for a child the exporter wrote -/
theorem kidIds_exported (be : Bool) (n : MuxNode) (h : MuxOK n) (p : Child × Int) (hp : p ∈ seenChildren n) :
    kidIds (extsOf n) n.groupCount (kidSig be n p) = .ok p.1.gids := by
  have hc : p.1 ∈ n.children := (seen_inv n h).sub p hp
  have hids := idsOfName_eq n h p.1 hc
  have hsorted := memberIds_sorted n.groupCount p.1
  have hne := memberIds_ne_nil n h p.1 hc
  have hname : (kidSig be n p).name = p.1.name := rfl
  unfold kidIds
  rw [hname]
  -- which entry is found
  have hfind : findExt (extsOf n) p.1.name = if isExtended n then extOf n p else none := by
    unfold extsOf
    cases hx : isExtended n
    · simp [findExt]
    · simp only [Bool.not_true, Bool.false_eq_true, if_false, if_true]
      exact findExt_filterMap n _ (seen_inv n h).nodup p hp
  rw [hfind]
  have hsingle : (memberIds n.groupCount p.1).length = 1 → p.1.gids = [(p.2.toNat : Int)] := by
    intro hl
    have hgne : p.1.gids ≠ [] := by
      intro hg
      have := memberIds_fixed_length n.groupCount p.1 hg (by have := h.gc2; omega)
      have := h.gc2
      omega
    have hm := memberIds_listed n h p.1 hc hgne
    obtain ⟨g0, g1, g2⟩ := seen_group n h p hp
    have hmem : p.2 ∈ memberIds n.groupCount p.1 := (mem_memberIds _ _ _).2 ⟨g0, g1, g2⟩
    rw [hm] at hl hmem
    rw [Int.toNat_of_nonneg g0]
    match hgg : p.1.gids, hl, hmem with
    | [a], _, hmem =>
      rw [List.mem_singleton] at hmem
      rw [hmem]
  have hnone : (memberIds n.groupCount p.1).length = 1 →
      Except.ok (ε := ImpErr) (if (kidSig be n p).isMultiplexed then [((kidSig be n p).muxSwitch : Int)] else []) =
        Except.ok p.1.gids := by
    intro hl
    rw [hsingle hl]
    rfl
  by_cases hx : isExtended n = true
  · rw [if_pos hx]
    unfold extOf
    rw [hids]
    by_cases hl : (memberIds n.groupCount p.1).length = 1
    · rw [if_pos hl]
      exact hnone hl
    · rw [if_neg hl]
      dsimp only
      -- ranges round trip
      have hb : ∀ g ∈ memberIds n.groupCount p.1, 0 ≤ g ∧ g < n.groupCount := fun g hg =>
        ⟨((mem_memberIds _ _ _).1 hg).1, ((mem_memberIds _ _ _).1 hg).2.1⟩
      obtain ⟨rs, hrs, hexp⟩ := Acme.Conv.ranges_roundtrip n.groupCount _ hne hsorted hb
      rw [hrs]
      simp only [Option.getD_some]
      have hnat : natRanges (toNatRanges rs) = rs := by
        unfold natRanges toNatRanges
        rw [List.map_map]
        have : rs.map ((fun r : Nat × Nat => ((r.1 : Int), (r.2 : Int))) ∘ fun r : Int × Int => (r.1.toNat, r.2.toNat)) =
            rs.map id := by
          apply List.map_congr_left
          intro r hr
          obtain ⟨a, b⟩ := expand_first_mem _ rs _ hexp r hr
          have a0 := (hb _ a).1
          simp only [Function.comp, id]
          rw [Int.toNat_of_nonneg a0, Int.toNat_of_nonneg (by omega)]
        rw [this, List.map_id]
      unfold extIds
      rw [hnat, hexp]
      dsimp only
      rw [compactSort_of_strict _ hsorted, memberIds_back n h p.1 hc]
  · rw [if_neg hx]
    dsimp only
    -- not extended: every child is in exactly one group
    have hx' : isExtended n = false := by simpa using hx
    unfold isExtended at hx'
    have := List.any_eq_false.1 hx' p hp
    rw [hids] at this
    have hl : (memberIds n.groupCount p.1).length = 1 := by
      have h1 : ¬ (memberIds n.groupCount p.1).length ≥ 2 := by simpa using this
      have h2 : (memberIds n.groupCount p.1).length ≠ 0 := by
        intro h0
        exact hne (List.length_eq_zero_iff.1 h0)
      omega
    exact hnone hl

end Acme.Import
