/-
The SG_MUL_VAL_ loops of the generated exporter (Acme.Gen.X.exportMultiplexerSignal_loop3 / _loop4)
against the hand model (`compress` / `compressFrom` of Acme.Conv, `toNatRanges` of Acme.Import).
The generated functions are only unfolded by name (`rw [X.f]`): nothing depends on their layout.
-/
import Acme.Proofs.GenExporterDefs
namespace Acme.GenX
open Acme.Import Acme.XSem Acme.Conv Acme.Gen Acme.GoSem

/-- a written range as the pair of the hand model (the function `extView` maps over the ranges) -/
abbrev rangeView : Acme.Dbc.ExtendedMuxRange → Nat × Nat := fun r => (r.from_, r.to)

theorem extView_eq (e : Acme.Dbc.ExtendedMux) :
    extView e = ⟨e.multiplexorName, e.multiplexedName, e.ranges.map rangeView⟩ := rfl

/-- `s[len(pre)]` of `pre ++ a :: r` -/
theorem idx_append_cons {α : Type} (pre : List α) (a : α) (r : List α) :
    idx (pre ++ a :: r) (pre.length : Int) = .val a := by
  unfold idx index?
  have h : ¬ ((pre.length : Int) < 0) := by omega
  simp only [h, if_false, Int.toNat_natCast, List.getElem?_append_right (Nat.le_refl _),
    Nat.sub_self, List.getElem?_cons_zero]

theorem idx_append_cons_succ {α : Type} (pre : List α) (a b : α) (r : List α) :
    idx (pre ++ a :: b :: r) ((pre.length : Int) + 1) = .val b := by
  have h := idx_append_cons (pre ++ [a]) b r
  simp only [List.length_append, List.length_cons, List.length_nil, List.append_assoc,
    List.cons_append, List.nil_append] at h
  exact h

/-- the inner loop: from position `len(pre)` with `next = ids[len(pre)]`, the loop leaves the ranges
    of `compressFrom` — all but the last one appended to `em.ranges`, the last one in `(from, next)` -/
theorem X_loop4 : ∀ (rest pre : List Int) (curr : Int) (em : Acme.Dbc.ExtendedMux) (from_ : Int),
    (∀ x ∈ pre ++ curr :: rest, 0 ≤ x ∧ x < 2 ^ 32) → (0 ≤ from_ ∧ from_ < 2 ^ 32) →
    ∃ em' from' next',
      X.exportMultiplexerSignal_loop4 (pre ++ curr :: rest) (pre.length : Int) em from_ curr
        = .val (em', from', next') ∧
      em'.messageID = em.messageID ∧ em'.multiplexorName = em.multiplexorName ∧
      em'.multiplexedName = em.multiplexedName ∧
      (em'.ranges ++ [({ from_ := u32 from', to := u32 next' } : Acme.Dbc.ExtendedMuxRange)]).map rangeView
        = em.ranges.map rangeView ++ toNatRanges (compressFrom from_ (curr :: rest)) := by
  intro rest
  induction rest with
  | nil =>
    intro pre curr em from_ hall hf
    refine ⟨em, from_, curr, ?_, rfl, rfl, rfl, ?_⟩
    · rw [X.exportMultiplexerSignal_loop4]
      have h : ¬ ((pre.length : Int) < (((pre ++ [curr]).length : Nat) : Int) - 1) := by
        simp only [List.length_append, List.length_cons, List.length_nil]; omega
      simp only [h, dite_false]
    · have hc := hall curr (by simp)
      simp only [List.map_append, List.map_cons, List.map_nil, rangeView, compressFrom, toNatRanges,
        u32_of_range from_ hf.1 hf.2, u32_of_range curr hc.1 hc.2]
  | cons nxt rest ih =>
    intro pre curr em from_ hall hf
    have hc := hall curr (by simp)
    have hn := hall nxt (by simp)
    have hlist : pre ++ curr :: nxt :: rest = (pre ++ [curr]) ++ nxt :: rest := by simp
    have hlen : ((pre.length : Int) + 1) = (((pre ++ [curr]).length : Nat) : Int) := by
      simp only [List.length_append, List.length_cons, List.length_nil]; omega
    rw [X.exportMultiplexerSignal_loop4]
    have h : ((pre.length : Int) < (((pre ++ curr :: nxt :: rest).length : Nat) : Int) - 1) := by
      simp only [List.length_append, List.length_cons]; omega
    simp only [h, dite_true, idx_append_cons, idx_append_cons_succ, bind_val]
    by_cases hstep : nxt = curr + 1
    · simp only [hstep, if_true]
      rw [← hstep, hlist, hlen]
      obtain ⟨em', f', n', h1, h2, h3, h4, h5⟩ := ih (pre ++ [curr]) nxt em from_ (by rw [← hlist]; exact hall) hf
      refine ⟨em', f', n', h1, h2, h3, h4, ?_⟩
      rw [h5]
      simp only [compressFrom, hstep, if_true]
    · simp only [hstep, if_false]
      rw [hlist, hlen]
      obtain ⟨em', f', n', h1, h2, h3, h4, h5⟩ :=
        ih (pre ++ [curr]) nxt
          { em with ranges := em.ranges ++ [{ from_ := u32 from_, to := u32 curr }] } nxt
          (by rw [← hlist]; exact hall) hn
      refine ⟨em', f', n', h1, h2, h3, h4, ?_⟩
      rw [h5]
      simp only [compressFrom, hstep, if_false, toNatRanges, List.map_append, List.map_cons, List.map_nil,
        rangeView, u32_of_range from_ hf.1 hf.2, u32_of_range curr hc.1 hc.2, List.append_assoc,
        List.cons_append, List.nil_append]

/-- the SG_MUL_VAL_ loop of the generated exporter, against the hand model's filterMap -/
theorem X_loop3 (muxSig : MuxSig) (mid : Nat) (nestedMux : Bool) (m : List (String × List Int)) :
    ∀ (names : List String) (st : St),
      (∀ a ∈ names, mapGet m a [] ≠ [] ∧ ∀ x ∈ mapGet m a [], 0 ≤ x ∧ x < 2 ^ 32) →
      ∃ xs, X.exportMultiplexerSignal_loop3 id muxSig mid nestedMux m names st
              = .val { st with extendedMuxes := st.extendedMuxes ++ xs } ∧
        (∀ e ∈ xs, e.messageID = mid) ∧
        xs.map extView = names.filterMap (fun a =>
          if !nestedMux && (mapGet m a []).length = 1 then none
          else some ⟨muxSig.b.name, a, toNatRanges ((compress (mapGet m a [])).getD [])⟩) := by
  intro names
  induction names with
  | nil =>
    intro st _
    refine ⟨[], ?_, ?_, rfl⟩
    · rw [X.exportMultiplexerSignal_loop3, List.append_nil]
    · intro e he; cases he
  | cons a names ih =>
    intro st hall
    have ha := hall a (by simp)
    have hrest : ∀ b ∈ names, mapGet m b [] ≠ [] ∧ ∀ x ∈ mapGet m b [], 0 ≤ x ∧ x < 2 ^ 32 :=
      fun b hb => hall b (List.mem_cons_of_mem _ hb)
    rw [X.exportMultiplexerSignal_loop3]
    by_cases hskip : (!nestedMux && decide ((mapGet m a []).length = 1)) = true
    · have hcond : (¬ (nestedMux = true) ∧ (((mapGet m a []).length : Int) = 1)) := by
        cases nestedMux <;> simp at hskip ⊢
        omega
      obtain ⟨xs, h1, h2, h3⟩ := ih st hrest
      refine ⟨xs, ?_, h2, ?_⟩
      · simp only [if_pos hcond]
        exact h1
      · simp only [List.filterMap_cons, if_pos hskip]
        exact h3
    · have hcond : ¬ (¬ (nestedMux = true) ∧ (((mapGet m a []).length : Int) = 1)) := by
        intro hc
        apply hskip
        cases nestedMux <;> simp at hc ⊢
        omega
      obtain ⟨g, rest, hids⟩ : ∃ g rest, mapGet m a [] = g :: rest := by
        cases h : mapGet m a [] with
        | nil => exact absurd h ha.1
        | cons g rest => exact ⟨g, rest, rfl⟩
      have hr : ∀ x ∈ ([] : List Int) ++ g :: rest, 0 ≤ x ∧ x < 2 ^ 32 := by
        intro x hx; rw [List.nil_append, ← hids] at hx; exact ha.2 x hx
      have hg := hr g (by simp)
      obtain ⟨em', f', n', l1, l2, l3, l4, l5⟩ :=
        X_loop4 rest [] g
          { messageID := mid, multiplexorName := id muxSig.b.name, multiplexedName := a } g hr hg
      simp only [List.nil_append, List.length_nil, Int.natCast_zero] at l1
      obtain ⟨xs, h1, h2, h3⟩ := ih
        { st with extendedMuxes := st.extendedMuxes ++
            [{ em' with ranges := em'.ranges ++ [{ from_ := u32 f', to := u32 n' }] }] } hrest
      refine ⟨{ em' with ranges := em'.ranges ++ [{ from_ := u32 f', to := u32 n' }] } :: xs, ?_, ?_, ?_⟩
      · have hi0 : idx (g :: rest) 0 = .val g := idx_append_cons [] g rest
        simp only [if_neg hcond]
        rw [hids]
        simp only [hi0, bind_val, l1]
        rw [h1]
        simp only [List.append_assoc, List.cons_append, List.nil_append]
      · intro e he
        rcases List.mem_cons.1 he with he | he
        · rw [he]; exact l2
        · exact h2 e he
      · simp only [List.filterMap_cons, if_neg hskip]
        rw [List.map_cons, h3, hids]
        congr 1
        rw [extView_eq]
        simp only [l3, l4, l5, id, List.map_nil, List.nil_append, compress, Option.getD_some]

end Acme.GenX
