/-
Bus level of the generated exporter, part 3: one message (`X_exportMessage_view`), the messages of a
node, the nodes of the bus (`X_nodes_loop`).
-/
import Acme.Proofs.GenExporterBus2
namespace Acme.GenX
open Acme.ImportBus Acme.ExportBus Acme.XSem Acme.Gen

theorem filterMap_flatMap {α β : Type} (f : α → Option β) (l : List α) :
    l.filterMap f = l.flatMap (fun a => (f a).toList) := by
  induction l with
  | nil => rfl
  | cons x r ih =>
    rw [List.flatMap_cons, ← ih]
    cases h : f x <;> simp [h]

/-- the signals of a message -/
theorem X_msg_loop (b : MBus) (m : IMessage) : ∀ (sigs : List ISignal) (_ : ∀ s ∈ sigs, SigOK32 b s) (st : XSem.St),
    ∃ st', X.exportMessage_loop1 id (viewIMsg b m).parent m.id (sigs.map (viewISig b)) st = .val st' ∧
      AdvS b st st' (sigs.flatMap (sigComments m.id)) (sigs.flatMap (encOfSig b m.id))
        (sigs.map (exportSig b (recvOf m))) (sigs.flatMap (fun s => (enumIdx s).toList))
  | [], _, st => ⟨st, by rw [List.map_nil, X.exportMessage_loop1], AdvS.refl b st⟩
  | s :: r, hok, st => by
    obtain ⟨st1, h1, a1⟩ := X_exportSignal_leafB b m s (hok s (List.mem_cons_self ..)) st
    obtain ⟨st2, h2, a2⟩ := X_msg_loop b m r (fun s hs => hok s (List.mem_cons_of_mem _ hs)) st1
    refine ⟨st2, ?_, a1.trans a2⟩
    rw [List.map_cons, X.exportMessage_loop1, h1, bind_val, h2]

theorem X_exportMessage_eq (msg : Msg) (st : XSem.St) :
    X.exportMessage id msg st =
      bind (X.exportMessage_loop1 id msg.parent msg.canID msg.signals
          { cmtStB msg.desc { kind := .message, text := msg.desc, messageID := msg.canID } st with curSignals := [] })
        fun st => .val { st with messages := st.messages ++
          [{ id := msg.canID, name := msg.name, size := u32 msg.sizeByte, transmitter := msg.senderName,
             signals := st.curSignals }] } := rfl

theorem encs_eq (b : MBus) (m : IMessage) : m.sigs.flatMap (encOfSig b m.id) = encsOfMsg b m := by
  unfold encsOfMsg; rw [filterMap_flatMap]; rfl

/-- the generated `exportMessage` on the Go object of a model message -/
theorem X_exportMessage_view (b : MBus) (m : IMessage) (hz : lt32 m.size) (hok : ∀ s ∈ m.sigs, SigOK32 b s) (st : XSem.St) :
    ∃ st', X.exportMessage id (viewIMsg b m) st = .val st' ∧
      Adv b st st' (msgComments m) (encsOfMsg b m) [exportMsg b m] (m.sigs.filterMap enumIdx) := by
  rw [X_exportMessage_eq]
  have cR := fun c => cmtSt_rest m.desc c st
  obtain ⟨st1, h1, a1⟩ := X_msg_loop b m m.sigs hok
    { cmtStB m.desc { kind := .message, text := m.desc, messageID := m.id } st with curSignals := [] }
  have h1' : X.exportMessage_loop1 id (viewIMsg b m).parent (viewIMsg b m).canID (viewIMsg b m).signals
    { cmtStB (viewIMsg b m).desc { kind := .message, text := (viewIMsg b m).desc, messageID := (viewIMsg b m).canID } st
        with curSignals := [] } = .val st1 := h1
  rw [h1', bind_val]
  refine ⟨_, rfl, ?_⟩
  refine ⟨?_, ?_, ?_, ?_, ?_, a1.ext.trans (cR _).2.2.2.2.1, a1.tables.trans (cR _).2.2.2.2.2.1,
    a1.nodes.trans (cR _).2.2.2.2.2.2⟩
  · refine a1.comments.trans ?_
    show List.map dcommentOf (cmtStB m.desc _ st).comments ++ _ = _
    rw [cmtSt_comments, List.append_assoc]; rfl
  · refine a1.encs.trans ?_
    show List.map dencOf (cmtStB m.desc _ st).valueEncodings ++ _ = _
    rw [(cR _).1, encs_eq]
  · show List.map dmessageOf (st1.messages ++ [_]) = _
    rw [a1.msgs]
    show List.map dmessageOf ((cmtStB m.desc _ st).messages ++ [_]) = _
    rw [(cR _).2.2.2.1, List.map_append]
    congr 1
    have hc := a1.cur
    simp only [List.map_nil, List.nil_append] at hc
    simp only [List.map_cons, List.map_nil, dmessageOf, exportMsg, hc, viewIMsg, u32_nat _ hz]
  · intro h m' hm'
    rcases List.mem_append.mp hm' with h' | h'
    · rw [a1.msgs] at h'
      exact h m' (((cR _).2.2.2.1) ▸ h')
    · rw [List.mem_singleton.mp h']
      exact a1.plain (by intro s hs; cases hs)
  · refine a1.enums.trans ?_
    show regEnums b (cmtStB m.desc _ st).sigEnums _ = _
    rw [(cR _).2.2.1, filterMap_flatMap]

/-! ## the messages of a node, the nodes -/

theorem X_node_msgs (b : MBus) : ∀ (ms : List IMessage) (_ : ∀ m ∈ ms, lt32 m.size ∧ ∀ s ∈ m.sigs, SigOK32 b s)
    (st : XSem.St),
    ∃ st', X.exportNodeInterfaces_loop2 id (ms.map (viewIMsg b)) st = .val st' ∧
      Adv b st st' (ms.flatMap msgComments) (ms.flatMap (encsOfMsg b)) (ms.map (exportMsg b))
        (ms.flatMap (fun m => m.sigs.filterMap enumIdx))
  | [], _, st => ⟨st, by rw [List.map_nil, X.exportNodeInterfaces_loop2], Adv.refl b st⟩
  | m :: r, hok, st => by
    obtain ⟨st1, h1, a1⟩ := X_exportMessage_view b m (hok m (List.mem_cons_self ..)).1 (hok m (List.mem_cons_self ..)).2 st
    obtain ⟨st2, h2, a2⟩ := X_node_msgs b r (fun m hm => hok m (List.mem_cons_of_mem _ hm)) st1
    refine ⟨st2, ?_, a1.trans a2⟩
    rw [List.map_cons, X.exportNodeInterfaces_loop2, h1, bind_val, h2]

theorem Adv.cast {b : MBus} {s s' : XSem.St} {c c' e e' d d' n n'} (h : Adv b s s' c e d n)
    (hc : c = c') (he : e = e') (hd : d = d') (hn : n = n') : Adv b s s' c' e' d' n' := by
  subst hc he hd hn; exact h

theorem Adv_cmt (b : MBus) (d : String) (c : Acme.Dbc.Comment) (st : XSem.St) :
    Adv b st (cmtStB d c st) (cmIf d (dcommentOf c)) [] [] [] := by
  obtain ⟨c1, c2, c3, c4, c5, c6, c7⟩ := cmtSt_rest d c st
  exact ⟨cmtSt_comments d c st, by rw [c1]; simp, by rw [c4]; simp, fun h => c4 ▸ h, c3, c5, c6, c7⟩

/-- a node interface of the bus, as the Go object -/
def viewNode (b : MBus) (n : INode) : NodeInt :=
  { nodeName := n.name, nodeDesc := n.desc, sentMessages := (msgsOf b n).map (viewIMsg b) }

theorem X_nodes_loop (b : MBus) (hok : ∀ m ∈ b.msgs, lt32 m.size ∧ ∀ s ∈ m.sigs, SigOK32 b s) :
    ∀ (ns : List INode) (dn : DbcNodes) (st : XSem.St),
    ∃ st', X.exportNodeInterfaces_loop1 id (ns.map (viewNode b)) dn st =
        .val ({ names := dn.names ++ ns.map (·.name) }, st') ∧
      Adv b st st' (ns.flatMap (nodeComments b)) ((ns.flatMap (msgsOf b)).flatMap (encsOfMsg b))
        ((ns.flatMap (msgsOf b)).map (exportMsg b))
        ((ns.flatMap (msgsOf b)).flatMap (fun m => m.sigs.filterMap enumIdx))
  | [], dn, st => ⟨st, by rw [List.map_nil, X.exportNodeInterfaces_loop1]; simp, Adv.refl b st⟩
  | n :: r, dn, st => by
    have a0 := Adv_cmt b n.desc { kind := .node, text := n.desc, nodeName := n.name } st
    obtain ⟨st1, h1, a1⟩ := X_node_msgs b (msgsOf b n) (fun m hm => hok m (mem_msgsOf.mp hm).1)
      (cmtStB n.desc { kind := .node, text := n.desc, nodeName := n.name } st)
    obtain ⟨st2, h2, a2⟩ := X_nodes_loop b hok r { names := dn.names ++ [n.name] } st1
    refine ⟨st2, ?_, ((a0.trans a1).trans a2).cast ?_ ?_ ?_ ?_⟩
    · rw [List.map_cons, X.exportNodeInterfaces_loop1]
      have h1' : X.exportNodeInterfaces_loop2 id (viewNode b n).sentMessages
          (cmtStB (viewNode b n).nodeDesc { kind := .node, text := (viewNode b n).nodeDesc, nodeName := id (viewNode b n).nodeName } st)
          = .val st1 := h1
      unfold cmtStB at h1'
      simp only [h1', bind_val]
      rw [show id (viewNode b n).nodeName = n.name from rfl, h2]
      simp
    · simp [List.flatMap_cons, nodeComments]; rfl
    · simp [List.flatMap_cons, List.flatMap_append]
    · simp [List.flatMap_cons, List.map_append]
    · simp [List.flatMap_cons, List.flatMap_append]
end Acme.GenX
