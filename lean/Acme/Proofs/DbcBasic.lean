/-
C08 / C09: basic facts about the DBC token model — the `Except` monad on concrete results,
the primitive expectations on the tokens the writer emits, the simple token loops, fuel
monotonicity of the two fuelled loops and the fuel-free run relation `Runs`.
-/
import Acme.Core.Dbc
import Acme.Core.DbcWrite
import Acme.Core.DbcParse
import Acme.Spec.Dbc
import Acme.Proofs.DbcNum

namespace Acme.Dbc

/-! ## `Except` on concrete results -/

@[simp] theorem ok_bind {ε α β} (a : α) (f : α → Except ε β) : (Except.ok a >>= f) = f a := rfl
@[simp] theorem error_bind {ε α β} (e : ε) (f : α → Except ε β) :
    (Except.error e >>= f) = Except.error e := rfl
@[simp] theorem pure_eq_ok {ε α} (a : α) : (pure a : Except ε α) = .ok a := rfl
@[simp] theorem perr_bind {α β} (m : String) (f : α → Except PErr β) :
    (perr m >>= f) = perr m := rfl

/-! ## keyword / punct tables -/

@[simp] theorem getPunctKind_punctText (k : PunctKind) : getPunctKind (punctText k) = k := by
  cases k <;> decide

@[simp] theorem getKeywordKind_getKeyword (k : KeywordKind) :
    getKeywordKind (getKeyword k) = k := by
  cases k <;> decide

theorem isKeywordStr_getKeyword (k : KeywordKind) : isKeywordStr (getKeyword k) = true := by
  cases k <;> decide

theorem accessTypeOfName?_name (a : AccessType) : accessTypeOfName? (accessTypeName a) = some a := by
  cases a <;> decide

/-! ## primitive expectations -/

@[simp] theorem expectPunct_p (k : PunctKind) (ts : List Token) :
    expectPunct k (Token.p k :: ts) = .ok ts := by
  simp [expectPunct, Token.p]

@[simp] theorem scanIdent_ident (m v : String) (ts : List Token) :
    scanIdent m (.ident v :: ts) = .ok (v, ts) := rfl

@[simp] theorem scanString_string (m v : String) (ts : List Token) :
    scanString m (.string v :: ts) = .ok (v, ts) := rfl

@[simp] theorem scanNumber_number (m v : String) (ts : List Token) :
    scanNumber m (.number v :: ts) = .ok (v, ts) := rfl

/-- (`uintTok n` unfolded: the parser's matches need to see the `number` constructor) -/
theorem scanUint_uintTok (m1 m2 : String) (n : Nat) (ts : List Token) (h : u32 n = true) :
    scanUint m1 m2 (.number (formatUint n) :: ts) = .ok (n, ts) := by
  simp [scanUint, uintOf, parseUint_formatUint n h]

theorem parseMessageID_uintTok (n : Nat) (ts : List Token) (h : u32 n = true) :
    parseMessageID (.number (formatUint n) :: ts) = .ok (n, ts) := scanUint_uintTok _ _ n ts h

theorem parseUint_lit0 : parseUint "0" = some 0 := by decide
theorem parseUint_lit1 : parseUint "1" = some 1 := by decide
theorem parseUint_lit2 : parseUint "2" = some 2 := by decide

theorem scanDouble_number (m1 m2 x : String) (ts : List Token) (h : acceptedFloatText x = true) :
    scanDouble m1 m2 (.number x :: ts) = .ok (x, ts) := by
  simp [scanDouble, doubleOf, parseDouble_of_accepted h]

/-! ## identifier facts -/

theorem classifyWord_of_identOK {s : String} (h : identOK s = true) : classifyWord s = .ident s := by
  unfold identOK at h
  rw [Bool.and_eq_true] at h
  exact of_decide_eq_true h.2

/-! ## simple loops -/

/-- the head of the list is not an identifier -/
def NoIdentHead : List Token → Prop
  | .ident _ :: _ => False
  | _ => True

/-- the head of the list is not a comma -/
def NoCommaHead : List Token → Prop
  | .punct p :: _ => getPunctKind p ≠ .comma
  | _ => True

theorem parseIdents_stop (ts : List Token) (h : NoIdentHead ts) : parseIdents ts = ([], ts) := by
  unfold parseIdents
  split
  · exact absurd h (by simp [NoIdentHead])
  · rfl

theorem parseIdents_words (names : List String) (rest : List Token)
    (h : names.all identOK = true) (hr : NoIdentHead rest) :
    parseIdents (names.map classifyWord ++ rest) = (names, rest) := by
  induction names with
  | nil => exact parseIdents_stop rest hr
  | cons n ns ih =>
    simp only [List.all_cons, Bool.and_eq_true] at h
    simp only [List.map_cons, List.cons_append, classifyWord_of_identOK h.1, parseIdents, ih h.2]

theorem parseCommaIdents_stop (m : String) (ts : List Token) (h : NoCommaHead ts) :
    parseCommaIdents m ts = .ok ([], ts) := by
  unfold parseCommaIdents
  split
  · simp only [NoCommaHead] at h
    simp [h]
  · simp only [NoCommaHead] at h
    simp [h]
  · rfl

theorem parseCommaIdents_words (m : String) (names : List String) (rest : List Token)
    (h : names.all identOK = true) (hr : NoCommaHead rest) :
    parseCommaIdents m (commaTail wordToks names ++ rest) = .ok (names, rest) := by
  induction names with
  | nil => exact parseCommaIdents_stop m rest hr
  | cons n ns ih =>
    simp only [List.all_cons, Bool.and_eq_true] at h
    simp only [commaTail, wordToks, List.cons_append, List.nil_append,
      classifyWord_of_identOK h.1, Token.p, parseCommaIdents, getPunctKind_punctText, if_true,
      ih h.2]

theorem parseCommaStrings_stop (m : String) (ts : List Token) (h : NoCommaHead ts) :
    parseCommaStrings m ts = .ok ([], ts) := by
  unfold parseCommaStrings
  split
  · simp only [NoCommaHead] at h
    simp [h]
  · simp only [NoCommaHead] at h
    simp [h]
  · rfl

theorem parseCommaStrings_strings (m : String) (vals : List String) (rest : List Token)
    (hr : NoCommaHead rest) :
    parseCommaStrings m (commaTail stringToks vals ++ rest) = .ok (vals, rest) := by
  induction vals with
  | nil => exact parseCommaStrings_stop m rest hr
  | cons n ns ih =>
    simp only [commaTail, stringToks, List.cons_append, List.nil_append,
      Token.p, parseCommaStrings, getPunctKind_punctText, if_true, ih]

theorem parseValueDescriptions_write (vds : List ValueDescription) (rest : List Token)
    (h : vds.all valueDescriptionOK = true) :
    parseValueDescriptions (writeValueDescriptions vds ++ Token.p .semicolon :: rest) =
      .ok (vds, Token.p .semicolon :: rest) := by
  induction vds with
  | nil => simp [writeValueDescriptions, parseValueDescriptions, Token.p]
  | cons vd vds ih =>
    simp only [List.all_cons, Bool.and_eq_true, valueDescriptionOK] at h
    simp only [writeValueDescriptions, writeValueDescription, uintTok, List.cons_append,
      List.nil_append, parseValueDescriptions, parseUint_formatUint _ h.1.1,
      ih h.2]

theorem noCommaHead_p (k : PunctKind) (hk : k ≠ .comma) (ts : List Token) :
    NoCommaHead (Token.p k :: ts) := by
  simp [NoCommaHead, Token.p, hk]

theorem noIdentHead_p (k : PunctKind) (ts : List Token) : NoIdentHead (Token.p k :: ts) := by
  simp [NoIdentHead, Token.p]

/-! ## follow sets -/

/-- what follows a section in the writer's output: a section keyword or the final `eof` -/
def Follow : List Token → Prop
  | .eof :: _ => True
  | .keyword v :: _ => getKeywordKind v ≠ .signal
  | _ => False

/-- what follows a signal: `Follow`, or the `SG_` of the next signal -/
def FollowSig : List Token → Prop
  | .eof :: _ => True
  | .keyword _ :: _ => True
  | _ => False

theorem Follow.sig {ts : List Token} (h : Follow ts) : FollowSig ts := by
  unfold Follow at h
  split at h <;> simp_all [FollowSig]

theorem FollowSig.noComma {ts : List Token} (h : FollowSig ts) : NoCommaHead ts := by
  unfold FollowSig at h
  split at h <;> simp_all [NoCommaHead]

theorem FollowSig.noIdent {ts : List Token} (h : FollowSig ts) : NoIdentHead ts := by
  unfold FollowSig at h
  split at h <;> simp_all [NoIdentHead]

theorem follow_kw (k : KeywordKind) (hk : k ≠ .signal) (ts : List Token) :
    Follow (Token.kw k :: ts) := by
  simp [Follow, Token.kw, hk]

theorem follow_eof (ts : List Token) : Follow (.eof :: ts) := trivial

/-! ## fuel -/

theorem parseSignals_succ_kw (n : Nat) (v : String) (ts : List Token) :
    parseSignals (n + 1) (.keyword v :: ts) =
      if getKeywordKind v = .signal then
        match parseSignal ts with
        | .error e => .error e
        | .ok (sig, ts') =>
          match parseSignals n ts' with
          | .ok (sigs, r) => .ok (sig :: sigs, r)
          | .error e => .error e
      else .ok ([], .keyword v :: ts) := rfl

theorem parseSignals_succ_other (n : Nat) (ts : List Token)
    (h : ∀ v r, ts ≠ .keyword v :: r) : parseSignals (n + 1) ts = .ok ([], ts) := by
  cases ts with
  | nil => rfl
  | cons t ts =>
    cases t <;> first | rfl | exact absurd rfl (h _ _)

theorem parseSignals_mono (n : Nat) : ∀ (ts : List Token) (r : PRes (List Signal)),
    parseSignals n ts = r → r ≠ .error .fuel → ∀ m, n ≤ m → parseSignals m ts = r := by
  induction n with
  | zero =>
    intro ts r h hr
    simp only [parseSignals] at h
    exact absurd h.symm hr
  | succ n ih =>
    intro ts r h hr m hm
    obtain ⟨m, rfl⟩ : ∃ m', m = m' + 1 := ⟨m - 1, by omega⟩
    have hm' : n ≤ m := by omega
    by_cases hk : ∃ v ts', ts = .keyword v :: ts'
    · obtain ⟨v, ts', rfl⟩ := hk
      rw [parseSignals_succ_kw] at h ⊢
      by_cases hv : getKeywordKind v = .signal
      · rw [if_pos hv] at h ⊢
        cases hs : parseSignal ts' with
        | error e => rw [hs] at h; exact h
        | ok p =>
          obtain ⟨sig, ts''⟩ := p
          rw [hs] at h
          simp only at h ⊢
          cases hrec : parseSignals n ts'' with
          | error e =>
            rw [hrec] at h
            simp only at h
            have : parseSignals m ts'' = .error e := by
              apply ih _ _ hrec _ m hm'
              intro he
              rw [he] at h
              exact hr h.symm
            rw [this]
            exact h
          | ok q =>
            rw [hrec] at h
            have : parseSignals m ts'' = .ok q := ih _ _ hrec (by simp) m hm'
            rw [this]
            exact h
      · rw [if_neg hv] at h ⊢
        exact h
    · have hk' : ∀ v r, ts ≠ .keyword v :: r := fun v r e => hk ⟨v, r, e⟩
      rw [parseSignals_succ_other _ _ hk'] at h ⊢
      exact h

theorem parseLoop_succ_kw (hex : Bool) (n : Nat) (fl : PFlags) (ast : File) (v : String)
    (ts : List Token) :
    parseLoop hex (n + 1) fl ast (.keyword v :: ts) =
      match parseSection hex (getKeywordKind v) fl ast ts with
      | .error e => .error e
      | .ok ((ast', fl'), ts') => parseLoop hex n fl' ast' ts' := rfl

theorem parseLoop_succ_other (hex : Bool) (n m : Nat) (fl : PFlags) (ast : File)
    (ts : List Token) (h : ∀ v r, ts ≠ .keyword v :: r) :
    parseLoop hex (n + 1) fl ast ts = parseLoop hex (m + 1) fl ast ts := by
  cases ts with
  | nil => rfl
  | cons t ts =>
    cases t <;> first | rfl | exact absurd rfl (h _ _)

theorem parseLoop_mono (hex : Bool) (n : Nat) : ∀ (fl : PFlags) (ast : File) (ts : List Token)
    (r : Except PErr File), parseLoop hex n fl ast ts = r → r ≠ .error .fuel →
    ∀ m, n ≤ m → parseLoop hex m fl ast ts = r := by
  induction n with
  | zero =>
    intro fl ast ts r h hr
    simp only [parseLoop] at h
    exact absurd h.symm hr
  | succ n ih =>
    intro fl ast ts r h hr m hm
    obtain ⟨m, rfl⟩ : ∃ m', m = m' + 1 := ⟨m - 1, by omega⟩
    have hm' : n ≤ m := by omega
    by_cases hk : ∃ v ts', ts = .keyword v :: ts'
    · obtain ⟨v, ts', rfl⟩ := hk
      rw [parseLoop_succ_kw] at h ⊢
      cases hs : parseSection hex (getKeywordKind v) fl ast ts' with
      | error e => rw [hs] at h; exact h
      | ok p =>
        obtain ⟨⟨ast', fl'⟩, ts''⟩ := p
        rw [hs] at h
        simp only at h ⊢
        exact ih _ _ _ _ h hr m hm'
    · have hk' : ∀ v r, ts ≠ .keyword v :: r := fun v r e => hk ⟨v, r, e⟩
      rw [← parseLoop_succ_other hex n m fl ast ts hk']
      exact h

/-! ## fuel-free runs of the top-level loop -/

/-- the section at the head of the token list (the body of `case tokenKeyword`) -/
def stepSection (hex : Bool) (fl : PFlags) (ast : File) : List Token → PRes (File × PFlags)
  | .keyword v :: ts => parseSection hex (getKeywordKind v) fl ast ts
  | _ => perr "unexpected token"

/-- the top-level loop, started with flags `fl` and document `ast` on `ts`, ends with `f` -/
def Runs (hex : Bool) (fl : PFlags) (ast : File) (ts : List Token) (f : File) : Prop :=
  ∃ n, parseLoop hex n fl ast ts = .ok f

theorem Runs.eof {hex fl ast ts} : Runs hex fl ast (.eof :: ts) ast := ⟨1, rfl⟩

theorem Runs.step {hex fl ast ts fl' ast' ts' f}
    (h : stepSection hex fl ast ts = .ok ((ast', fl'), ts')) (hr : Runs hex fl' ast' ts' f) :
    Runs hex fl ast ts f := by
  obtain ⟨n, hn⟩ := hr
  refine ⟨n + 1, ?_⟩
  unfold stepSection at h
  split at h
  · unfold parseLoop
    simp only [h]
    exact hn
  · cases h

end Acme.Dbc
