/-
C08, parse-then-write-then-parse, part 1: what the parser's results satisfy.

`Sat Q r`: if the parser result `r` is `ok (x, _)` then `Q x`.  On a token list in the image of
the scanner (`TokensWF`) every parser function returns a well-formed item
(`DbcWFParsed`-style predicates of `Acme.Spec.Dbc`, floats being accepted number texts), and
attribute values in parser-normal form (`retag` is the identity).
-/
import Acme.Proofs.DbcBasic
import Acme.Proofs.DbcTotal

set_option linter.unusedSimpArgs false
set_option linter.unusedVariables false

namespace Acme.Dbc

/-! ## number facts: ranges of parsed values -/

theorem u32_of_parseUintCs {cs : List Char} {n : Nat} (h : parseUintCs cs = some n) :
    u32 n = true := by
  unfold parseUintCs at h
  split at h
  · split at h
    · rename_i hlt
      cases h
      simpa [u32] using hlt
    · cases h
  · cases h

theorem u32_of_parseUint {s : String} {n : Nat} (h : parseUint s = some n) : u32 n = true :=
  u32_of_parseUintCs h

theorem i64_of_parseInt {s : String} {i : Int} (h : parseInt s = some i) : i64 i = true := by
  unfold parseInt at h
  simp only [i64, decide_eq_true_eq]
  split at h
  · split at h
    · split at h
      · cases h; omega
      · cases h
    · cases h
  · split at h
    · split at h
      · cases h; omega
      · cases h
    · cases h
  · split at h
    · split at h
      · cases h; omega
      · cases h
    · cases h

theorem u32_of_parseHexCs {cs : List Char} {n : Nat} (h : parseHexCs cs = some n) :
    u32 n = true := by
  unfold parseHexCs at h
  split at h
  · cases h
  · split at h
    · split at h
      · rename_i hlt
        cases h
        simpa [u32] using hlt
      · cases h
    · cases h

theorem u32_of_parseHexInt {hex : Bool} {s : String} {n : Nat} (h : parseHexInt hex s = some n) :
    u32 n = true := by
  unfold parseHexInt at h
  split at h
  · exact u32_of_parseUint h
  · split at h
    · cases h
    · exact u32_of_parseHexCs h

theorem accepted_of_parseDouble {s x : String} (h : parseDouble s = some x) :
    acceptedFloatText x = true := by
  have := parseDouble_eq_some h
  subst this
  simp [acceptedFloatText, h]

/-- a hex-looking text is not a decimal number -/
theorem parseUint_hexPrefix {s : String} (h : hasHexPrefix s = true) : parseUint s = none := by
  unfold hasHexPrefix at h
  unfold parseUint parseUintCs decDigits?
  generalize s.toList = cs at h
  unfold hasHexPrefixCs at h
  split at h
  · simp
  · simp
  · cases h

theorem parseHexInt_false_hexPrefix {s : String} (h : hasHexPrefix s = true) :
    parseHexInt false s = none := by
  simp [parseHexInt, parseUint_hexPrefix h]

theorem sat_parseMuxIndicator {v : String} {a b : Bool} {n : Nat}
    (h : parseMuxIndicator v = .ok (a, b, n)) : u32 n = true ∧ (b || n == 0) = true := by
  unfold parseMuxIndicator at h
  simp only at h
  split at h
  · cases h
  · split at h
    · rename_i hp
      injection h with h
      simp only [Prod.mk.injEq] at h
      obtain ⟨_, rfl, rfl⟩ := h
      exact ⟨u32_of_parseUintCs hp, rfl⟩
    · cases h
  · injection h with h
    simp only [Prod.mk.injEq] at h
    obtain ⟨_, rfl, rfl⟩ := h
    exact ⟨by decide, rfl⟩

theorem sat_parseRangeText {v : String} {r : ExtendedMuxRange} (h : parseRangeText v = .ok r) :
    extendedMuxRangeOK r = true := by
  unfold parseRangeText at h
  simp only at h
  split at h
  · cases h
  · split at h
    · rename_i ha hb
      injection h with h
      subst h
      simp [extendedMuxRangeOK, u32_of_parseUintCs ha, u32_of_parseUintCs hb]
    · cases h

/-! ## token lists -/

theorem TokensWF.tail {t : Token} {ts : List Token} (h : TokensWF (t :: ts)) : TokensWF ts :=
  fun x hx => h x (List.mem_cons_of_mem _ hx)

theorem TokensWF.head {t : Token} {ts : List Token} (h : TokensWF (t :: ts)) : tokenOK t = true :=
  h t (List.mem_cons_self ..)

theorem tokensWF_cons {t : Token} {ts : List Token} :
    TokensWF (t :: ts) ↔ tokenOK t = true ∧ TokensWF ts := by
  constructor
  · intro h; exact ⟨h.head, h.tail⟩
  · intro h x hx
    rw [List.mem_cons] at hx
    cases hx with
    | inl e => rw [e]; exact h.1
    | inr hx => exact h.2 x hx

theorem TokensWF.suffix {ts' ts : List Token} (h : TokensWF ts) (hs : ts' <:+ ts) : TokensWF ts' :=
  fun x hx => h x (hs.subset hx)

/-! ## `Sat` and its bind rules -/

def Sat {α : Type} (Q : α → Prop) (r : PRes α) : Prop := ∀ x ts', r = .ok (x, ts') → Q x

def SatV {α : Type} (Q : α → Prop) (r : Except PErr α) : Prop := ∀ x, r = .ok x → Q x

theorem Sat.perr {α : Type} {Q : α → Prop} (m : String) : Sat Q (perr m : PRes α) := by
  intro x ts' h; cases h

theorem Sat.error {α : Type} {Q : α → Prop} (e : PErr) : Sat Q (.error e : PRes α) := by
  intro x ts' h; cases h

theorem Sat.pure {α : Type} {Q : α → Prop} {x : α} {ts : List Token} (h : Q x) :
    Sat Q (pure (x, ts) : PRes α) := by
  intro y ts' e
  cases e
  exact h

theorem Sat.ok {α : Type} {Q : α → Prop} {x : α} {ts : List Token} (h : Q x) :
    Sat Q (.ok (x, ts) : PRes α) := Sat.pure h

theorem Sat.imp {α : Type} {Q Q' : α → Prop} {r : PRes α} (h : Sat Q r) (hq : ∀ x, Q x → Q' x) :
    Sat Q' r := fun x ts' e => hq x (h x ts' e)

theorem Sat.bind {α β : Type} {ts : List Token} {Q1 : α → Prop} {Q : β → Prop} {r : PRes α}
    {k : α × List Token → PRes β} (hg : GoodR ts r) (hts : TokensWF ts) (hr : Sat Q1 r)
    (hk : ∀ a ts1, TokensWF ts1 → Q1 a → Sat Q (k (a, ts1))) : Sat Q (r >>= k) := by
  cases r with
  | error e => exact Sat.error e
  | ok p =>
    obtain ⟨a, ts1⟩ := p
    exact hk a ts1 (hts.suffix hg) (hr a ts1 rfl)

theorem Sat.bindT {β : Type} {ts : List Token} {Q : β → Prop} {r : Except PErr (List Token)}
    {k : List Token → PRes β} (hg : GoodT ts r) (hts : TokensWF ts)
    (hk : ∀ ts1, TokensWF ts1 → Sat Q (k ts1)) : Sat Q (r >>= k) := by
  cases r with
  | error e => exact Sat.error e
  | ok ts1 => exact hk ts1 (hts.suffix hg)

theorem Sat.bindV {α β : Type} {Q1 : α → Prop} {Q : β → Prop} {r : Except PErr α}
    {k : α → PRes β} (hr : SatV Q1 r) (hk : ∀ a, Q1 a → Sat Q (k a)) : Sat Q (r >>= k) := by
  cases r with
  | error e => exact Sat.error e
  | ok a => exact hk a (hr a rfl)

theorem pure_bind' {ε α β : Type} (a : α) (f : α → Except ε β) :
    ((pure a : Except ε α) >>= f) = f a := rfl

/-! ## automation -/

/-- `TokensWF` of the current list or of a tail of a list in the context -/
macro "tokwf" : tactic => `(tactic| first
  | assumption
  | exact TokensWF.tail (by assumption)
  | exact TokensWF.tail (TokensWF.tail (by assumption)))

/-- known `Sat` facts, found by instance resolution (indexed by the parser function) -/
class SatC {α : Type} (r : PRes α) (ts : outParam (List Token)) (Q : outParam (α → Prop)) :
    Prop where
  out : TokensWF ts → Sat Q r

class SatVC {α : Type} (r : Except PErr α) (Q : outParam (α → Prop)) : Prop where
  out : SatV Q r

theorem Sat.bindC {α β : Type} {ts : List Token} {Q1 : α → Prop} {Q : β → Prop} {r : PRes α}
    {k : α × List Token → PRes β} [hg : GoodC r ts] [hs : SatC r ts Q1] (hts : TokensWF ts)
    (hk : ∀ a ts1, TokensWF ts1 → Q1 a → Sat Q (k (a, ts1))) : Sat Q (r >>= k) :=
  Sat.bind hg.out hts (hs.out hts) hk

theorem Sat.bindTC {β : Type} {ts : List Token} {Q : β → Prop} {r : Except PErr (List Token)}
    {k : List Token → PRes β} [hg : GoodTC r ts] (hts : TokensWF ts)
    (hk : ∀ ts1, TokensWF ts1 → Sat Q (k ts1)) : Sat Q (r >>= k) :=
  Sat.bindT hg.out hts hk

theorem Sat.bindVC {α β : Type} {Q1 : α → Prop} {Q : β → Prop} {r : Except PErr α}
    {k : α → PRes β} [hs : SatVC r Q1] (hk : ∀ a, Q1 a → Sat Q (k a)) : Sat Q (r >>= k) :=
  Sat.bindV hs.out hk

/-- walks through a `do` block; leaves the goals `Q x` of the `pure (x, _)` leaves -/
macro "sat" : tactic => `(tactic| repeat' (first
  | with_reducible exact Sat.perr _
  | with_reducible refine Sat.pure ?_
  | with_reducible refine Sat.ok ?_
  | rw [pure_bind']
  | rw [perr_bind]
  | rw [bind_assoc]
  | ((with_reducible refine Sat.bindC (by tokwf) ?_); intro _ _ _ _)
  | ((with_reducible refine Sat.bindTC (by tokwf) ?_); intro _ _)
  | ((with_reducible refine Sat.bindVC ?_); intro _ _)
  | dsimp only
  | split))

theorem GoodT.cons {t : Token} {ts : List Token} {r : Except PErr (List Token)} (h : GoodT ts r) :
    GoodT (t :: ts) r := by
  cases r with
  | error e => exact h
  | ok ts' => exact List.IsSuffix.trans h (List.suffix_cons _ _)

/-! ## primitives -/

theorem scanIdent_sat (m : String) (ts : List Token) (hts : TokensWF ts) :
    Sat (fun v => identOK v = true) (scanIdent m ts) := by
  unfold scanIdent
  split
  · exact Sat.ok hts.head
  · exact Sat.perr _
instance (m : String) (ts : List Token) : SatC (scanIdent m ts) ts (fun v => identOK v = true) := ⟨fun hts => scanIdent_sat m ts hts⟩

theorem scanString_sat (m : String) (ts : List Token) (hts : TokensWF ts) :
    Sat (fun v => strOK v = true) (scanString m ts) := by
  unfold scanString
  split
  · exact Sat.ok hts.head
  · exact Sat.perr _
instance (m : String) (ts : List Token) : SatC (scanString m ts) ts (fun v => strOK v = true) := ⟨fun hts => scanString_sat m ts hts⟩

theorem scanNumber_sat (m : String) (ts : List Token) :
    Sat (fun _ => True) (scanNumber m ts) := fun _ _ _ => trivial
instance (m : String) (ts : List Token) : SatC (scanNumber m ts) ts (fun _ => True) := ⟨fun _ => scanNumber_sat m ts⟩

theorem uintOf_sat (m v : String) : SatV (fun n => u32 n = true) (uintOf m v) := by
  intro n h
  unfold uintOf at h
  split at h
  · cases h; exact u32_of_parseUint ‹_›
  · cases h
instance (m v : String) : SatVC (uintOf m v) (fun n => u32 n = true) := ⟨uintOf_sat m v⟩

theorem intOf_sat (m v : String) : SatV (fun n => i64 n = true) (intOf m v) := by
  intro n h
  unfold intOf at h
  split at h
  · cases h; exact i64_of_parseInt ‹_›
  · cases h
instance (m v : String) : SatVC (intOf m v) (fun n => i64 n = true) := ⟨intOf_sat m v⟩

theorem hexOf_sat (hex : Bool) (m v : String) : SatV (fun n => u32 n = true) (hexOf hex m v) := by
  intro n h
  unfold hexOf at h
  split at h
  · cases h; exact u32_of_parseHexInt ‹_›
  · cases h
instance (hex : Bool) (m v : String) : SatVC (hexOf hex m v) (fun n => u32 n = true) := ⟨hexOf_sat hex m v⟩

theorem doubleOf_sat (m v : String) :
    SatV (fun x => acceptedFloatText x = true) (doubleOf m v) := by
  intro n h
  unfold doubleOf at h
  split at h
  · cases h; exact accepted_of_parseDouble ‹_›
  · cases h
instance (m v : String) : SatVC (doubleOf m v) (fun x => acceptedFloatText x = true) := ⟨doubleOf_sat m v⟩

theorem scanUint_sat (m1 m2 : String) (ts : List Token) (hts : TokensWF ts) :
    Sat (fun n => u32 n = true) (scanUint m1 m2 ts) := by
  unfold scanUint
  sat
  assumption
instance (m1 m2 : String) (ts : List Token) : SatC (scanUint m1 m2 ts) ts (fun n => u32 n = true) := ⟨fun hts => scanUint_sat m1 m2 ts hts⟩

theorem scanDouble_sat (m1 m2 : String) (ts : List Token) (hts : TokensWF ts) :
    Sat (fun x => acceptedFloatText x = true) (scanDouble m1 m2 ts) := by
  unfold scanDouble
  sat
  assumption
instance (m1 m2 : String) (ts : List Token) : SatC (scanDouble m1 m2 ts) ts (fun x => acceptedFloatText x = true) := ⟨fun hts => scanDouble_sat m1 m2 ts hts⟩

theorem parseNodeName_sat (ts : List Token) (hts : TokensWF ts) :
    Sat (fun v => identOK v = true) (parseNodeName ts) := scanIdent_sat _ _ hts
instance (ts : List Token) : SatC (parseNodeName ts) ts (fun v => identOK v = true) := ⟨fun hts => parseNodeName_sat ts hts⟩
theorem parseSignalName_sat (ts : List Token) (hts : TokensWF ts) :
    Sat (fun v => identOK v = true) (parseSignalName ts) := scanIdent_sat _ _ hts
instance (ts : List Token) : SatC (parseSignalName ts) ts (fun v => identOK v = true) := ⟨fun hts => parseSignalName_sat ts hts⟩
theorem parseEnvVarName_sat (ts : List Token) (hts : TokensWF ts) :
    Sat (fun v => identOK v = true) (parseEnvVarName ts) := scanIdent_sat _ _ hts
instance (ts : List Token) : SatC (parseEnvVarName ts) ts (fun v => identOK v = true) := ⟨fun hts => parseEnvVarName_sat ts hts⟩
theorem parseMessageID_sat (ts : List Token) (hts : TokensWF ts) :
    Sat (fun n => u32 n = true) (parseMessageID ts) := scanUint_sat _ _ _ hts
instance (ts : List Token) : SatC (parseMessageID ts) ts (fun n => u32 n = true) := ⟨fun hts => parseMessageID_sat ts hts⟩

end Acme.Dbc
