/-
Bus-level importer model, part 5: a sufficient condition for acceptance.
`FileOK f → ∃ b, importBus f = .ok b` — every check of the importer is discharged from a clause
of `FileOK` (Acme.Spec.ExportBus).  Used by the round trip (the exported document is `FileOK`).
Core Lean only.
-/
import Acme.Spec.ExportBus
import Acme.Proofs.ImportBusTotal

namespace Acme.ImportBus
open Acme.Arith Acme.ExportBus
open Acme.Import (sortBy insBy)

/-! ### values -/

theorem checkValues_ok : ∀ (l : List DVal) (is : List Nat) (ns : List String),
    (l.map (·.1)).Nodup → (l.map (·.2)).Nodup → (∀ v ∈ l, v.1 ∉ is ∧ v.2 ∉ ns) →
    checkValues is ns l = .ok ()
  | [], _, _, _, _, _ => rfl
  | v :: r, is, ns, h1, h2, h3 => by
    unfold checkValues
    have hv := h3 v (List.mem_cons_self ..)
    rw [if_neg (fun hc => hv.1 (List.contains_iff_mem.mp hc)),
        if_neg (fun hc => hv.2 (List.contains_iff_mem.mp hc))]
    rw [List.map_cons, List.nodup_cons] at h1 h2
    refine checkValues_ok r _ _ h1.2 h2.2 ?_
    intro w hw
    have hw' := h3 w (List.mem_cons_of_mem _ hw)
    refine ⟨?_, ?_⟩
    · intro hm
      rcases List.mem_cons.mp hm with heq | hm
      · exact h1.1 (heq ▸ List.mem_map_of_mem hw)
      · exact hw'.1 hm
    · intro hm
      rcases List.mem_cons.mp hm with heq | hm
      · exact h2.1 (heq ▸ List.mem_map_of_mem hw)
      · exact hw'.2 hm

theorem valsOK_check {vs : List DVal} (h : ValsOK vs) : checkValues [] [] vs = .ok () :=
  checkValues_ok vs [] [] h.1 h.2 (fun _ _ => ⟨by simp, by simp⟩)

theorem valsOK_sortVals {vs : List DVal} (h : ValsOK vs) : ValsOK (sortVals vs) :=
  ⟨(((sortVals_perm vs).map (·.1)).nodup_iff).mpr h.1, (((sortVals_perm vs).map (·.2)).nodup_iff).mpr h.2⟩

theorem importTables_ok : ∀ (l : List DTable), (∀ t ∈ l, ValsOK t.values) → ∃ reg, importTables l = .ok reg
  | [], _ => ⟨[], rfl⟩
  | t :: r, h => by
    obtain ⟨reg, hreg⟩ := importTables_ok r (fun t' ht' => h t' (List.mem_cons_of_mem _ ht'))
    unfold importTables importTable
    rw [valsOK_check (h t (List.mem_cons_self ..))]
    simp only [hreg]
    exact ⟨_, rfl⟩

theorem importEncs_ok {reg : List IEnum} : ∀ (l : List DEnc) (enums : List IEnum) (se : SigEnums),
    (∀ c ∈ l, ValsOK c.values) → ∃ r, importEncs reg enums se l = .ok r
  | [], enums, se, _ => ⟨(enums, se), rfl⟩
  | c :: r, enums, se, h => by
    unfold importEncs
    have hc := valsOK_check (valsOK_sortVals (h c (List.mem_cons_self ..)))
    have hrest := fun enums' se' => importEncs_ok (reg := reg) r enums' se' (fun c' hc' => h c' (List.mem_cons_of_mem _ hc'))
    unfold importEnc
    simp only
    split
    · rename_i e heq
      split at heq
      · cases heq
      · rw [hc] at heq
        cases heq
    · rename_i enums' se' heq
      exact hrest enums' se'

/-! ### nodes -/

theorem addNodes_ok (cs : List DComment) : ∀ (l : List (String × Nat)) (ns : List INode),
    (l.map (·.1)).Nodup → (l.map (·.2)).Nodup → (∀ n ∈ ns, ∀ p ∈ l, n.name ≠ p.1 ∧ n.id ≠ p.2) →
    ∃ ns', addNodes cs ns l = .ok ns'
  | [], ns, _, _, _ => ⟨ns, rfl⟩
  | (name, idx) :: r, ns, h1, h2, h3 => by
    rw [List.map_cons, List.nodup_cons] at h1 h2
    unfold addNodes
    split
    · exact addNodes_ok cs r ns h1.2 h2.2 (fun n hn p hp => h3 n hn p (List.mem_cons_of_mem _ hp))
    · have hadd : addNode ns { name := name, id := idx, desc := descOf (selNode name) cs }
          = .ok (ns ++ [{ name := name, id := idx, desc := descOf (selNode name) cs }]) := by
        unfold addNode
        rw [if_neg, if_neg]
        · simp only [List.any_eq_true, decide_eq_true_eq, not_exists, not_and]
          intro m hm
          exact (h3 m hm _ (List.mem_cons_self ..)).2
        · simp only [List.any_eq_true, decide_eq_true_eq, not_exists, not_and]
          intro m hm
          exact (h3 m hm _ (List.mem_cons_self ..)).1
      rw [hadd]
      simp only
      refine addNodes_ok cs r _ h1.2 h2.2 ?_
      intro n hn p hp
      rcases List.mem_append.mp hn with hn | hn
      · exact h3 n hn p (List.mem_cons_of_mem _ hp)
      · simp only [List.mem_singleton] at hn
        subst hn
        refine ⟨?_, ?_⟩
        · intro heq
          exact h1.1 (List.mem_map.mpr ⟨p, hp, heq.symm⟩)
        · intro heq
          exact h2.1 (List.mem_map.mpr ⟨p, hp, heq.symm⟩)

theorem mem_nodesOf {cs : List DComment} {l : List (String × Nat)} {n : INode} (h : n ∈ nodesOf cs l) :
    n.name ≠ placeholder ∧ (n.name, n.id) ∈ l := by
  unfold nodesOf at h
  obtain ⟨p, hp, rfl⟩ := List.mem_map.mp h
  obtain ⟨hp1, hp2⟩ := List.mem_filter.mp hp
  exact ⟨by simpa using hp2, hp1⟩

theorem importNodes_ok (cs : List DComment) {names : List String} (hnd : names.Nodup)
    (hlen : names.length ≤ placeholderId) : ∃ ns, importNodes cs names = .ok ns := by
  obtain ⟨ns, hns⟩ := addNodes_ok cs names.zipIdx [] (by rw [List.zipIdx_map_fst]; exact hnd)
    (by rw [List.zipIdx_map_snd]; exact List.nodup_range' 1) (fun n hn => by simp at hn)
  obtain ⟨heq, _⟩ := addNodes_spec cs _ hns (by simp)
  unfold importNodes
  rw [hns]
  simp only
  have hadd : addNode ns placeholderNode = .ok (ns ++ [placeholderNode]) := by
    unfold addNode
    rw [if_neg, if_neg]
    · simp only [List.any_eq_true, decide_eq_true_eq, not_exists, not_and]
      intro m hm
      rw [heq, List.nil_append] at hm
      obtain ⟨_, hmem⟩ := mem_nodesOf hm
      have := List.mem_zipIdx hmem
      simp only [placeholderNode]
      omega
    · simp only [List.any_eq_true, decide_eq_true_eq, not_exists, not_and]
      intro m hm
      rw [heq, List.nil_append] at hm
      exact (mem_nodesOf hm).1
  rw [hadd]
  exact ⟨ns, rfl⟩

theorem mem_nodeNames {cs : List DComment} {names : List String} {r : String}
    (hr : r ∈ names) (hne : r ≠ placeholder) : r ∈ (nodesOf cs names.zipIdx).map (·.name) := by
  obtain ⟨i, hi, rfl⟩ := List.mem_iff_getElem.mp hr
  unfold nodesOf
  rw [List.map_map]
  refine List.mem_map.mpr ⟨(names[i], i), List.mem_filter.mpr ⟨?_, by simpa using hne⟩, rfl⟩
  rw [List.mem_iff_getElem?]
  exact ⟨i, by simp [hi]⟩

/-! ### enums -/

theorem calcSize_pos (n : Nat) : 1 ≤ calcSize (n : Int) := by
  unfold calcSize len64
  split
  · omega
  · split
    · simp [maxSize]
    · split <;> omega

theorem importEnumRef_ok {st : St} {eid size : Nat} {e : IEnum} (he : st.enums[eid]? = some e)
    (hsz : calcSize (maxIndex e.values : Nat) ≤ (size : Int)) : ∃ r, importEnumRef st eid size = .ok r := by
  have hpos := calcSize_pos (maxIndex e.values)
  unfold importEnumRef
  rw [he]
  simp only
  split
  · exact ⟨_, rfl⟩
  · rename_i hne
    split
    · rename_i hbad
      exfalso
      obtain ⟨hgt, hmin⟩ := hbad
      unfold IEnum.size enumSize at hgt
      simp only at hgt
      split at hgt <;> omega
    · split
      · exact ⟨_, rfl⟩
      · have key : ∀ (nm : String) (rf : Nat),
            ({ name := nm, values := e.values, minSize := size, refs := rf } : IEnum).size = (size : Int) := by
          intro nm rf
          unfold IEnum.size enumSize
          simp only
          split <;> omega
        split
        · rw [if_neg (by simpa using key e.name 1)]
          exact ⟨_, rfl⟩
        · rw [if_neg (by simpa using key e.name 1)]
          exact ⟨_, rfl⟩

/-! ### the link between `signalEnums` and the file -/

/-- `signalEnums` holds, for every signal key, the enum object with the values of the file -/
def EncLink (f : DFile) (st : St) : Prop :=
  ∀ (id : Nat) (name : String),
    match encOf f.encs id name with
    | some vals => ∃ eid e, st.sigEnums.lookup (id, name) = some eid ∧ st.enums[eid]? = some e ∧
        e.values = sortVals vals
    | none => st.sigEnums.lookup (id, name) = none

theorem EncLink.mono {f : DFile} {st st' : St} (hle : StLe st st') (h : EncLink f st) : EncLink f st' := by
  intro id name
  have hk := h id name
  rw [hle.2.2.1]
  cases hv : encOf f.encs id name with
  | some vals =>
    rw [hv] at hk
    obtain ⟨eid, e, hl, hg, hvals⟩ := hk
    obtain ⟨e', hg', hle'⟩ := hle.2.2.2 eid e hg
    exact ⟨eid, e', hl, hg', by rw [hle'.1, hvals]⟩
  | none =>
    rw [hv] at hk
    exact hk

theorem encLink_init {f : DFile} {reg enums : List IEnum} {se : SigEnums}
    (h : importEncs reg reg [] f.encs = .ok (enums, se)) : EncLink f (initSt enums se) := by
  obtain ⟨_, hkeys⟩ := importEncs_spec f.encs (Ext.refl reg) h
  intro id name
  have hk := hkeys id name
  cases hv : encOf f.encs id name with
  | some vals =>
    rw [hv] at hk
    simpa [initSt] using hk
  | none =>
    rw [hv] at hk
    simpa [initSt] using hk

/-! ### signals -/

theorem importSignal_ok {f : DFile} {id : Nat} {st : St} {d : DSignal} (hl : EncLink f st)
    (hp : SigPre f id d) : ∃ r, importSignal f.comments id st d = .ok r := by
  obtain ⟨h64, hkind⟩ := hp
  have hk := hl id d.name
  unfold importSignal
  rw [if_neg (by omega)]
  simp only
  cases hv : encOf f.encs id d.name with
  | some vals =>
    rw [hv] at hk hkind
    obtain ⟨eid, e, hlook, hg, hvals⟩ := hk
    rw [hlook]
    simp only
    obtain ⟨⟨st', rid⟩, hr⟩ := importEnumRef_ok (size := d.size) hg (by rw [hvals]; exact hkind)
    rw [hr]
    exact ⟨_, rfl⟩
  | none =>
    rw [hv] at hk hkind
    rw [hk]
    simp only
    have : ∃ r, importType st d = .ok r := by
      unfold importType
      split
      · exact ⟨_, rfl⟩
      · split
        · exact ⟨_, rfl⟩
        · rw [if_neg (by simp only at hkind; omega)]
          exact ⟨_, rfl⟩
    obtain ⟨⟨st1, tid⟩, hr⟩ := this
    rw [hr]
    exact ⟨_, rfl⟩

theorem importSignals_ok {f : DFile} {id : Nat} : ∀ (l : List DSignal) (st : St) (lastEnd : Nat),
    WF st → EncLink f st → (∀ d ∈ l, SigPre f id d) → chainOK lastEnd l = true →
    ∃ r, importSignals f.comments id st lastEnd l = .ok r
  | [], st, _, _, _, _, _ => ⟨(st, []), rfl⟩
  | d :: r, st, lastEnd, hw, hl, hp, hc => by
    obtain ⟨⟨st1, s⟩, h1⟩ := importSignal_ok hl (hp d (List.mem_cons_self ..))
    obtain ⟨hw1, hle1, _⟩ := importSignal_spec hw h1
    simp only [chainOK, Bool.and_eq_true, decide_eq_true_eq] at hc
    obtain ⟨⟨st2, ss⟩, h2⟩ := importSignals_ok r st1 (d.start + d.size) hw1 (hl.mono hle1)
      (fun d' hd' => hp d' (List.mem_cons_of_mem _ hd')) hc.2
    unfold importSignals
    rw [h1]
    simp only
    rw [if_neg (by omega), h2]
    exact ⟨_, rfl⟩

theorem firstLoop_ok {cap : Nat} : ∀ (l : List DSignal) (seen : List String),
    (l.map (·.name)).Nodup → (∀ s ∈ l, s.name ∉ seen) → (∀ s ∈ l, s.start + s.size ≤ cap) →
    firstLoop cap seen l = .ok ()
  | [], _, _, _, _ => rfl
  | s :: r, seen, h1, h2, h3 => by
    rw [List.map_cons, List.nodup_cons] at h1
    unfold firstLoop
    rw [if_neg (fun hc => h2 s (List.mem_cons_self ..) (List.contains_iff_mem.mp hc)),
        if_neg (by have := h3 s (List.mem_cons_self ..); omega)]
    refine firstLoop_ok r _ h1.2 ?_ (fun x hx => h3 x (List.mem_cons_of_mem _ hx))
    intro x hx hm
    rcases List.mem_cons.mp hm with heq | hm
    · exact h1.1 (heq ▸ List.mem_map_of_mem hx)
    · exact h2 x (List.mem_cons_of_mem _ hx) hm

/-! ### messages -/

theorem importMessage_ok {f : DFile} {st : St} {done : List IMessage} {m : DMessage}
    (hw : WF st) (hl : EncLink f st) (hp : MsgPre f m)
    (hdone : ∀ d ∈ done, d.id ≠ m.id ∧ ¬(d.sender = m.transmitter ∧ d.name = m.name)) :
    ∃ r, importMessage ((nodesOf f.comments f.nodes.zipIdx).map (·.name)) f.comments st done m = .ok r := by
  obtain ⟨hnames, hbounds, hrecv, htx, hris, hsize, hchain, hsigs⟩ := hp
  obtain ⟨⟨st', isigs⟩, hs⟩ := importSignals_ok (sortedSigs m) st 0 hw hl hsigs hchain
  unfold importMessage
  simp only
  have hfl := firstLoop_ok (cap := m.size * 8) (sortedSigs m) [] hnames (fun _ _ => by simp) hbounds
  unfold sortedSigs at hfl hs
  rw [hfl]
  simp only
  have hmem : ∀ r, r ∈ receiversOf (sortBy (·.start) m.sigs) → r ≠ placeholder ∧ ∃ d ∈ m.sigs, r ∈ d.receivers := by
    intro r hr
    obtain ⟨hne, d, hd, hrd⟩ := mem_receiversOf.mp hr
    exact ⟨hne, d, (mem_sortBy' _).mp hd, hrd⟩
  rw [if_neg, if_neg, if_neg, if_neg, if_neg (by omega), if_neg, hs]
  · exact ⟨_, rfl⟩
  · simp only [List.any_eq_true, decide_eq_true_eq, not_exists, not_and]
    intro d hd
    exact (hdone d hd).1
  · simp only [List.any_eq_true, decide_eq_true_eq, not_exists, not_and]
    intro d hd h1
    exact fun h2 => (hdone d hd).2 ⟨h1, h2⟩
  · intro hc
    obtain ⟨hne, d, hd, hrd⟩ := hmem _ (List.contains_iff_mem.mp hc)
    rcases hris with hph | hno
    · exact hne hph
    · exact hno d hd hrd
  · rintro ⟨hne, hc⟩
    rcases htx with hph | hin
    · exact hne hph
    · have := mem_nodeNames (cs := f.comments) hin hne
      rw [List.contains_iff_mem.mpr this] at hc
      simp at hc
  · simp only [List.any_eq_true, Bool.not_eq_eq_eq_not, Bool.not_true, not_exists, not_and, Bool.not_eq_false]
    intro r hr
    obtain ⟨hne, d, hd, hrd⟩ := hmem r hr
    rcases hrecv d hd r hrd with hph | hin
    · exact absurd hph hne
    · exact List.contains_iff_mem.mpr (mem_nodeNames hin hne)

theorem importMessages_ok {f : DFile} : ∀ (l : List DMessage) (st : St) (done : List IMessage),
    WF st → EncLink f st → (∀ m ∈ l, MsgPre f m) →
    l.Pairwise (fun m₁ m₂ => m₁.id ≠ m₂.id ∧ ¬(m₁.transmitter = m₂.transmitter ∧ m₁.name = m₂.name)) →
    (∀ d ∈ done, ∀ m ∈ l, d.id ≠ m.id ∧ ¬(d.sender = m.transmitter ∧ d.name = m.name)) →
    ∃ r, importMessages ((nodesOf f.comments f.nodes.zipIdx).map (·.name)) f.comments st done l = .ok r
  | [], st, done, _, _, _, _, _ => ⟨(st, done), rfl⟩
  | m :: r, st, done, hw, hl, hp, hpw, hdone => by
    obtain ⟨⟨st1, im⟩, h1⟩ := importMessage_ok hw hl (hp m (List.mem_cons_self ..))
      (fun d hd => hdone d hd m (List.mem_cons_self ..))
    obtain ⟨hw1, hle1, hmsg, _⟩ := importMessage_spec hw h1
    rw [List.pairwise_cons] at hpw
    unfold importMessages
    rw [h1]
    simp only
    refine importMessages_ok r st1 _ hw1 (hl.mono hle1) (fun m' hm' => hp m' (List.mem_cons_of_mem _ hm')) hpw.2 ?_
    intro d hd m' hm'
    rcases List.mem_append.mp hd with hd | hd
    · exact hdone d hd m' (List.mem_cons_of_mem _ hm')
    · simp only [List.mem_singleton] at hd
      subst hd
      have := hpw.1 m' hm'
      rw [hmsg.1, hmsg.2.1, hmsg.2.2.2.1]
      exact this

/-- a sufficient condition for acceptance -/
theorem importBus_accepts {f : DFile} (h : FileOK f) : ∃ b, importBus f = .ok b := by
  obtain ⟨htab, henc, hnd, hlen, hpw, hmsgs⟩ := h
  obtain ⟨reg, hreg⟩ := importTables_ok f.tables htab
  obtain ⟨⟨enums, se⟩, hencs⟩ := importEncs_ok (reg := reg) f.encs reg [] henc
  obtain ⟨ns, hns⟩ := importNodes_ok f.comments hnd hlen
  have hnseq : ns = nodesOf f.comments f.nodes.zipIdx := (importNodes_spec hns).1
  obtain ⟨⟨st, msgs⟩, hm⟩ := importMessages_ok f.msgs (initSt enums se) [] (wf_init enums se)
    (encLink_init hencs) hmsgs hpw (fun d hd => by simp at hd)
  unfold importBus
  rw [hreg]
  simp only
  rw [hencs]
  simp only
  rw [hns]
  simp only
  rw [hnseq, hm]
  exact ⟨_, rfl⟩

end Acme.ImportBus
