/-
Payload world, part D: the message operations preserve the invariant.
-/
import Acme.Proofs.PayloadInv

namespace Acme.Payload
open Acme.Layout Acme.Bits Acme.Arith

/-- writing back re-positioned slots of one message, then regenerating its filters -/
theorem inv_setStarts_regen {w : W} (h : Inv w) {m : Nat} {msg : MsgE} (hm : w.msgs.get m = some msg)
    (sl : List Slot)
    (hmap : sl.map (fun x => (x.id, x.size)) = (slotsOf w msg.layout).map (fun x => (x.id, x.size)))
    (hwf : WF msg.cap sl)
    (w1 : W) (ht : w1.types = w.types) (hv : w1.vals = w.vals) (he : w1.enums = w.enums)
    (hs : w1.sigs = setStarts w.sigs sl) (hmm : w1.msgs = w.msgs) :
    Inv (regen w1 m) := by
  have hS := h.toS
  obtain ⟨hw, hf⟩ := wf_fresh_regen (w1 := w1) hS h.toWF h.toFresh m
    (fun i sg _ => sizeOf_struct sg ht he)
    (by
      intro i sg m' hi hp hne
      have : i ∉ msg.layout := hS.noparent_notin hm hi (by rw [hp]; intro e; injection e with e; exact hne e)
      rw [hs, setStarts_get_notin hmap this]; exact hi)
    (fun _ _ => by rw [hmm])
    (by
      intro msg1 h1
      rw [hmm, hm] at h1
      injection h1 with h1
      subst h1
      rw [slotsOf_setStarts (hS.layout_present hm) (hS.layoutNodup m _ hm) hmap w1 hs ht he]
      exact hwf)
  refine Inv.ofParts ?_ ?_ hw hf
  · exact (InvV.congr (w' := w1) (fun _ => by rw [hv]) (fun _ => by rw [he]) h.toV).regen m
  · exact (InvS.congr (w' := w1) (fun _ => by rw [ht]) (fun i => by rw [hs]; exact setStarts_core w.sigs sl i)
      (fun _ => by rw [hmm]) (fun _ => by rw [he]) hS).regen m

theorem inv_msgCompact (w : W) (m : Nat) (h : Inv w) : Inv (step w (.msgCompact m)).1 := by
  simp only [step]
  cases hm : w.msgs.get m with
  | none => exact h
  | some msg =>
    simp only
    have := compact_spec msg.cap _ (h.wf m msg hm)
    exact inv_setStarts_regen h hm _ this.2.2.1 this.1 _ rfl rfl rfl rfl rfl

theorem map_start_idsize (l : List Slot) (g : Slot → Slot)
    (hg : ∀ x, (g x).id = x.id ∧ (g x).size = x.size) :
    (l.map g).map (fun x => (x.id, x.size)) = l.map (fun x => (x.id, x.size)) := by
  rw [List.map_map]
  apply List.map_congr_left
  intro x _
  simp [(hg x).1, (hg x).2]

theorem shiftLeft_idsize (cap : Int) (l : List Slot) (h : WF cap l) (hn : IdsNodup l) (id : Nat) (a : Int) :
    (shiftLeft l id a).1.map (fun x => (x.id, x.size)) = l.map (fun x => (x.id, x.size)) := by
  have := (shiftLeft_spec cap l h hn id a).2
  cases hf : find id l with
  | none => rw [hf] at this; simp only at this; rw [this]
  | some s =>
    rw [hf] at this
    simp only at this
    rw [this.2]
    apply map_start_idsize
    intro x; split <;> simp

theorem shiftRight_idsize (cap : Int) (l : List Slot) (h : WF cap l) (hn : IdsNodup l) (id : Nat) (a : Int) :
    (shiftRight cap l id a).1.map (fun x => (x.id, x.size)) = l.map (fun x => (x.id, x.size)) := by
  have := (shiftRight_spec cap l h hn id a).2
  cases hf : find id l with
  | none => rw [hf] at this; simp only at this; rw [this]
  | some s =>
    rw [hf] at this
    simp only at this
    rw [this.2]
    apply map_start_idsize
    intro x; split <;> simp

theorem inv_msgShiftL (w : W) (m s : Nat) (a : Int) (h : Inv w) : Inv (step w (.msgShiftL m s a)).1 := by
  simp only [step]
  cases hm : w.msgs.get m with
  | none => exact h
  | some msg =>
    simp only
    split
    · exact h
    · have hwf := h.wf m msg hm
      have hn := h.toS.idsNodup hm
      have h1 := (shiftLeft_spec msg.cap _ hwf hn s a).1
      have h2 := shiftLeft_idsize msg.cap _ hwf hn s a
      cases hsh : shiftLeft (slotsOf w msg.layout) s a with
      | mk sl d =>
        rw [hsh] at h1 h2
        exact inv_setStarts_regen h hm sl h2 h1 _ rfl rfl rfl rfl rfl

theorem inv_msgShiftR (w : W) (m s : Nat) (a : Int) (h : Inv w) : Inv (step w (.msgShiftR m s a)).1 := by
  simp only [step]
  cases hm : w.msgs.get m with
  | none => exact h
  | some msg =>
    simp only
    split
    · exact h
    · have hwf := h.wf m msg hm
      have hn := h.toS.idsNodup hm
      have h1 := (shiftRight_spec msg.cap _ hwf hn s a).1
      have h2 := shiftRight_idsize msg.cap _ hwf hn s a
      cases hsh : shiftRight msg.cap (slotsOf w msg.layout) s a with
      | mk sl d =>
        rw [hsh] at h1 h2
        exact inv_setStarts_regen h hm sl h2 h1 _ rfl rfl rfl rfl rfl

/-- replacing the entry of message `m` by one with the same layout and byte order -/
theorem InvS.updMsg {w : W} (h : InvS w) {m : Nat} {msg : MsgE} (hm : w.msgs.get m = some msg) (msg' : MsgE)
    (hl : msg'.layout = msg.layout) (hb : msg'.be = msg.be)
    (hc : msg'.cap = msg'.sizeByte * 8 ∧ 0 ≤ msg'.sizeByte)
    (w1 : W) (ht : w1.types = w.types) (he : w1.enums = w.enums) (hs : w1.sigs = w.sigs)
    (hmsgs : w1.msgs = upd w.msgs m msg') : InvS w1 := by
  have hname : ∀ s, sigName w1 s = sigName w s := fun s => sigName_congr (by rw [hs])
  have henum : ∀ s, enumOf w1 s = enumOf w s := fun s => enumOf_congr (by rw [hs])
  have gm : ∀ m' msg1, w1.msgs.get m' = some msg1 → ∃ msg0, w.msgs.get m' = some msg0 ∧
      msg1.layout = msg0.layout := by
    intro m' msg1 h1
    rw [hmsgs, upd_get] at h1
    split at h1
    · subst_vars; injection h1 with h1; subst h1; exact ⟨msg, hm, hl⟩
    · exact ⟨msg1, h1, rfl⟩
  obtain ⟨l1, l2, l3⟩ := h.links_congr (w' := w1) (fun s => by rw [hs]) (by
    intro m'
    rw [hmsgs, upd_get]
    split
    · subst_vars; simp [hm, hl, hb]
    · rfl)
  refine ⟨?_, ?_, ?_, l1, l2, l3, ?_, ?_, ?_⟩
  · intro t ty h1; rw [ht] at h1; exact h.typesPos t ty h1
  · exact h.kind_mono (fun t => by rw [ht]; exact id) (fun e => by rw [he]; exact id)
      (fun s sg' h1 => Or.inl ⟨sg', by rw [← hs]; exact h1, rfl⟩)
  · intro m' msg1 h1
    rw [hmsgs, upd_get] at h1
    split at h1
    · injection h1 with h1; subst h1; exact hc
    · exact h.msgCap m' msg1 h1
  · exact h.names_congr (fun m' msg1 h1 => by
      obtain ⟨msg0, h2, h3⟩ := gm m' msg1 h1
      exact ⟨msg0, h2, h3, fun s _ => hname s⟩)
  · exact h.refs_congr (fun e en' h1 => ⟨en', by rw [← he]; exact h1, rfl⟩) henum
  · exact h.apart_congr (fun m' msg1 h1 => by
      obtain ⟨msg0, h2, h3⟩ := gm m' msg1 h1
      exact ⟨msg0, h2, h3, fun s _ => henum s⟩)

theorem inv_msgResize (w : W) (m : Nat) (k : Int) (h : Inv w) : Inv (step w (.msgResize m k)).1 := by
  simp only [step]
  cases hm : w.msgs.get m with
  | none => exact h
  | some msg =>
    simp only
    split
    · exact h
    · split
      · exact h
      · split
        · exact h
        · rename_i hk _ _ hv
          have hk' : 0 ≤ k := by omega
          generalize hw1 : ({ w with msgs := upd w.msgs m { msg with sizeByte := k, cap := k * 8 } } : W) = w1
          have ht : w1.types = w.types := by rw [← hw1]
          have hvv : w1.vals = w.vals := by rw [← hw1]
          have he : w1.enums = w.enums := by rw [← hw1]
          have hs : w1.sigs = w.sigs := by rw [← hw1]
          have hmsgs : w1.msgs = upd w.msgs m { msg with sizeByte := k, cap := k * 8 } := by rw [← hw1]
          have hS := h.toS
          have hS1 : InvS w1 := hS.updMsg hm { msg with sizeByte := k, cap := k * 8 } rfl rfl ⟨rfl, hk'⟩ w1 ht he hs hmsgs
          obtain ⟨hw, hf⟩ := wf_fresh_regen (w1 := w1) hS h.toWF h.toFresh m
            (fun i sg _ => sizeOf_struct sg ht he)
            (fun i sg m' hi _ _ => by rw [hs]; exact hi)
            (fun m' hne => by rw [hmsgs, upd_get, if_neg hne])
            (by
              intro msg1 h1
              rw [hmsgs, upd_get, if_pos rfl] at h1
              injection h1 with h1
              subst h1
              simp only
              rw [slotsOf_struct hs ht he]
              have hr := resize_spec msg.cap _ (h.wf m msg hm) (k * 8) (by omega)
              exact hr.2.1 (hr.1.1 hv))
          exact Inv.ofParts ((InvV.congr (w' := w1) (fun _ => by rw [hvv]) (fun _ => by rw [he]) h.toV).regen m)
            (hS1.regen m) hw hf

end Acme.Payload
