/-
Translator stage 11, base vocabulary: relating a TEXT (what the generated writer `Acme.Gen.W` appends)
to the token list of the hand model `Acme.Dbc.writeToks`.

A `Frag` list is a text cut into tokens and blank pieces IN THE ORDER THE WRITER PRINTS THEM (blanks
in front of and behind tokens, several in a row).  `layoutOf` is the explicit separator assignment:
it turns a fragment list into the `lead` / `(token, separator behind it)` form of `Spec/DbcScan.lean`
(`render`), by giving every token the concatenation of the blank pieces up to the next token.
`okFrom` is `chainOK` on fragments, as a state machine (state = the last token if nothing but empty
pieces followed it), so that it composes under `++`.
-/
import Acme.Spec.DbcScan
import Acme.Core.DbcWrite

namespace Acme.GenW
open Acme.Dbc Acme.Dbc.Scan

inductive Frag
  | tok (t : Token)
  | sp (s : String)
  deriving Repr

/-- the text of a fragment list -/
def fragText : List Frag → String
  | [] => ""
  | .tok t :: l => tokText t ++ fragText l
  | .sp s :: l => s ++ fragText l

/-- its tokens -/
def toks : List Frag → List Token
  | [] => []
  | .tok t :: l => t :: toks l
  | .sp _ :: l => toks l

/-- the separator assignment: (lead, tokens with the blank text behind each) -/
def layoutOf : List Frag → String × List (Token × String)
  | [] => ("", [])
  | .sp s :: l => (s ++ (layoutOf l).1, (layoutOf l).2)
  | .tok t :: l => ("", (t, (layoutOf l).1) :: (layoutOf l).2)

/-- `chainOK` on fragments: `p` = the previous token when only empty pieces separate it from here -/
def okFrom : Option Token → List Frag → Bool
  | _, [] => true
  | p, .sp s :: l => isBlankStr s && okFrom (if s.isEmpty then p else none) l
  | p, .tok t :: l => (match p with | none => true | some q => noMerge q t) && okFrom (some t) l

def endSt : Option Token → List Frag → Option Token
  | p, [] => p
  | p, .sp s :: l => endSt (if s.isEmpty then p else none) l
  | _, .tok t :: l => endSt (some t) l

/-- a complete section: admissible from a fresh start, and ends behind a non-empty blank -/
def SecOK (fs : List Frag) : Prop := okFrom none fs = true ∧ endSt none fs = none

/-! ## generic facts -/

@[simp] theorem fragText_nil : fragText [] = "" := rfl
@[simp] theorem fragText_tok (t : Token) (l : List Frag) : fragText (.tok t :: l) = tokText t ++ fragText l := rfl
@[simp] theorem fragText_sp (s : String) (l : List Frag) : fragText (.sp s :: l) = s ++ fragText l := rfl

@[simp] theorem fragText_append (a b : List Frag) : fragText (a ++ b) = fragText a ++ fragText b := by
  induction a with
  | nil => simp
  | cons x a ih => cases x <;> simp [ih, String.append_assoc]

@[simp] theorem toks_nil : toks [] = [] := rfl
@[simp] theorem toks_tok (t : Token) (l : List Frag) : toks (.tok t :: l) = t :: toks l := rfl
@[simp] theorem toks_sp (s : String) (l : List Frag) : toks (.sp s :: l) = toks l := rfl

@[simp] theorem toks_append (a b : List Frag) : toks (a ++ b) = toks a ++ toks b := by
  induction a with
  | nil => simp
  | cons x a ih => cases x <;> simp [ih]

theorem okFrom_append (a b : List Frag) : ∀ p, okFrom p (a ++ b) = (okFrom p a && okFrom (endSt p a) b) := by
  induction a with
  | nil => intro p; simp [okFrom, endSt]
  | cons x a ih =>
    intro p
    cases x with
    | tok t => simp [okFrom, endSt, ih, Bool.and_assoc]
    | sp s => simp [okFrom, endSt, ih, Bool.and_assoc]

theorem endSt_append (a b : List Frag) : ∀ p, endSt p (a ++ b) = endSt (endSt p a) b := by
  induction a with
  | nil => intro p; simp [endSt]
  | cons x a ih => intro p; cases x <;> simp [endSt, ih]

theorem secOK_nil : SecOK [] := ⟨rfl, rfl⟩

theorem secOK_append {a b : List Frag} (ha : SecOK a) (hb : SecOK b) : SecOK (a ++ b) := by
  refine ⟨?_, ?_⟩
  · rw [okFrom_append, ha.1, ha.2, hb.1]; rfl
  · rw [endSt_append, ha.2, hb.2]

/-- the rendered layout IS the text -/
theorem render_layoutOf (fs : List Frag) : render (layoutOf fs).1 (layoutOf fs).2 = fragText fs := by
  induction fs with
  | nil => rfl
  | cons x l ih =>
    cases x with
    | tok t =>
      simp only [layoutOf, fragText_tok, render, renderToks] at ih ⊢
      rw [← ih]; simp [String.append_assoc]
    | sp s =>
      simp only [layoutOf, fragText_sp, render] at ih ⊢
      rw [← ih, String.append_assoc]

/-- the layout carries exactly the tokens -/
theorem layoutOf_toks (fs : List Frag) : (layoutOf fs).2.map (·.1) = toks fs := by
  induction fs with
  | nil => rfl
  | cons x l ih => cases x <;> simp [layoutOf, ih]

theorem isBlankStr_append (a b : String) : isBlankStr (a ++ b) = (isBlankStr a && isBlankStr b) := by
  simp [isBlankStr, String.toList_append, List.all_append]

theorem isEmpty_append (a b : String) : (a ++ b).isEmpty = (a.isEmpty && b.isEmpty) := by
  rw [Bool.eq_iff_iff]
  simp only [String.isEmpty_iff, Bool.and_eq_true]
  constructor
  · intro h
    have h2 : (a ++ b).toList = [] := by rw [h]; rfl
    rw [String.toList_append, List.append_eq_nil_iff] at h2
    exact ⟨String.toList_eq_nil_iff.mp h2.1, String.toList_eq_nil_iff.mp h2.2⟩
  · rintro ⟨rfl, rfl⟩; rfl

def headNoMerge (q : Token) : List (Token × String) → Bool
  | [] => true
  | p :: _ => noMerge q p.1

theorem chainOK_cons' (p : Token × String) (l : List (Token × String)) :
    chainOK (p :: l) = (isBlankStr p.2 && (!p.2.isEmpty || headNoMerge p.1 l) && chainOK l) := by
  cases l with
  | nil => simp [chainOK, headNoMerge]
  | cons q l => simp [chainOK, sepOK, headNoMerge]

/-- admissible fragments give an admissible layout -/
theorem okFrom_layoutOf (fs : List Frag) : ∀ p, okFrom p fs = true →
    isBlankStr (layoutOf fs).1 = true ∧ chainOK (layoutOf fs).2 = true ∧
    (∀ q, p = some q → (layoutOf fs).1.isEmpty = true → headNoMerge q (layoutOf fs).2 = true) := by
  induction fs with
  | nil => intro p _; exact ⟨rfl, rfl, fun _ _ _ => rfl⟩
  | cons x l ih =>
    intro p h
    cases x with
    | sp s =>
      simp only [okFrom, Bool.and_eq_true] at h
      obtain ⟨h1, h2, h3⟩ := ih _ h.2
      refine ⟨?_, h2, ?_⟩
      · simp only [layoutOf]; rw [isBlankStr_append, h.1, h1]; rfl
      · intro q hq he
        simp only [layoutOf] at he ⊢
        rw [isEmpty_append, Bool.and_eq_true] at he
        apply h3 q _ he.2
        rw [if_pos he.1]; exact hq
    | tok t =>
      simp only [okFrom, Bool.and_eq_true] at h
      obtain ⟨h1, h2, h3⟩ := ih _ h.2
      refine ⟨rfl, ?_, ?_⟩
      · simp only [layoutOf]
        rw [chainOK_cons', h1, h2]
        simp only [Bool.true_and, Bool.and_true, Bool.or_eq_true, Bool.not_eq_true']
        by_cases he : (layoutOf l).1.isEmpty = true
        · right; exact h3 t rfl he
        · left; simpa using he
      · intro q hq _
        subst hq
        simpa [layoutOf, headNoMerge] using h.1

/-! ## `noMerge` facts for the writer's glued tokens -/

theorem nm_str (s : String) (t : Token) : noMerge (.string s) t = true := by simp [noMerge, selfDelimiting]

theorem nm_p_left (k : PunctKind) (t : Token) (h1 : k ≠ .plus) (h2 : k ≠ .minus) :
    noMerge (Token.p k) t = true := by
  cases k <;> first | (exact absurd rfl h1) | (exact absurd rfl h2) | (simp [noMerge, selfDelimiting, Token.p, punctText])

theorem noMerge_of_head {t₁ t₂ : Token} {c : Char} {cs : List Char} (h : (tokText t₂).toList = c :: cs)
    (hc : hardStop c = true) : noMerge t₁ t₂ = true := by
  unfold noMerge; rw [h]; simp [hc]

theorem nm_p_right (t : Token) (k : PunctKind) (h : k ≠ .minus) : noMerge t (Token.p k) = true := by
  cases k with
  | minus => exact absurd rfl h
  | colon => exact noMerge_of_head (c := ':') (cs := []) (by simp [Token.p, punctText, tokText]) (by decide)
  | comma => exact noMerge_of_head (c := ',') (cs := []) (by simp [Token.p, punctText, tokText]) (by decide)
  | leftParen => exact noMerge_of_head (c := '(') (cs := []) (by simp [Token.p, punctText, tokText]) (by decide)
  | rightParen => exact noMerge_of_head (c := ')') (cs := []) (by simp [Token.p, punctText, tokText]) (by decide)
  | leftSquareBrace => exact noMerge_of_head (c := '[') (cs := []) (by simp [Token.p, punctText, tokText]) (by decide)
  | rightSquareBrace => exact noMerge_of_head (c := ']') (cs := []) (by simp [Token.p, punctText, tokText]) (by decide)
  | pipe => exact noMerge_of_head (c := '|') (cs := []) (by simp [Token.p, punctText, tokText]) (by decide)
  | semicolon => exact noMerge_of_head (c := ';') (cs := []) (by simp [Token.p, punctText, tokText]) (by decide)
  | «at» => exact noMerge_of_head (c := '@') (cs := []) (by simp [Token.p, punctText, tokText]) (by decide)
  | plus => exact noMerge_of_head (c := '+') (cs := []) (by simp [Token.p, punctText, tokText]) (by decide)

theorem nm_num_minus (v : String) : noMerge (.number v) (Token.p .minus) = true := by
  simp [noMerge, isNumTok, Token.p, punctText]

theorem nm_right_str (t : Token) (s : String) : noMerge t (.string s) = true :=
  noMerge_of_head (c := '"') (cs := s.toList ++ ['"']) (by simp [tokText, String.toList_append]) (by decide)

theorem tt_ident (v : String) : tokText (.ident v) = v := rfl
theorem tt_number (v : String) : tokText (.number v) = v := rfl
theorem tt_range (v : String) : tokText (.numberRange v) = v := rfl
theorem tt_mux (v : String) : tokText (.muxIndicator v) = v := rfl
theorem tt_string (v : String) : tokText (.string v) = "\"" ++ v ++ "\"" := rfl
theorem tt_keyword (v : String) : tokText (.keyword v) = v := rfl
theorem tt_punct (v : String) : tokText (.punct v) = v := rfl

theorem tokText_classifyWord (w : String) : tokText (classifyWord w) = w := by
  unfold classifyWord
  split
  · rfl
  · dsimp only; split
    · rfl
    · split <;> rfl

end Acme.GenW
