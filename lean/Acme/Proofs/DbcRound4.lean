/-
C08, write-then-parse, part 4: the head sections (version, new symbols, bit timing, nodes),
the generic section-list lemma and the assembly along the fixed order of `writeFile`.
-/
import Acme.Proofs.DbcBasic
import Acme.Proofs.DbcRound1
import Acme.Proofs.DbcRound2
import Acme.Proofs.DbcRound3

set_option linter.unusedSimpArgs false

namespace Acme.Dbc

/-! ## head sections -/

theorem step_version (hex : Bool) (pf : PFlags) (ast : File) (v : String) (rest : List Token)
    (hpf : pf.foundVer = false) :
    stepSection hex pf ast (writeVersion v ++ rest) =
      .ok (({ ast with version := v }, { pf with foundVer := true }), rest) := by
  simp [stepSection, writeVersion, Token.kw, parseSection, parseVersion, hpf]

theorem classifyWord_newSymbol : ∀ s ∈ newSymbolsValues,
    (classifyWord s = .keyword s ∧ getKeywordKind s ≠ .bitTiming) ∨ classifyWord s = .ident s := by
  decide

theorem parseNewSymbolsLoop_write (syms : List String) (rest : List Token)
    (h : syms.all (fun s => newSymbolsValues.contains s) = true) :
    parseNewSymbolsLoop (syms.map classifyWord ++ Token.kw .bitTiming :: rest) =
      .ok (syms, Token.kw .bitTiming :: rest) := by
  induction syms with
  | nil => simp [parseNewSymbolsLoop, Token.kw]
  | cons s ss ih =>
    simp only [List.all_cons, Bool.and_eq_true] at h
    have hmem : s ∈ newSymbolsValues := by
      have := h.1
      simpa using this
    rcases classifyWord_newSymbol s hmem with ⟨hk, hne⟩ | hi
    · simp only [List.map_cons, List.cons_append, hk, parseNewSymbolsLoop, if_neg hne, h.1, if_true,
        ih h.2]
    · simp only [List.map_cons, List.cons_append, hi, parseNewSymbolsLoop, h.1, if_true, ih h.2]

theorem step_newSymbols (hex : Bool) (pf : PFlags) (ast : File) (syms : List String)
    (rest : List Token) (hpf : pf.foundNewSym = false)
    (h : syms.all (fun s => newSymbolsValues.contains s) = true) :
    stepSection hex pf ast (writeNewSymbols syms ++ Token.kw .bitTiming :: rest) =
      .ok (({ ast with newSymbols := some syms }, { pf with foundNewSym := true }),
        Token.kw .bitTiming :: rest) := by
  have := parseNewSymbolsLoop_write syms rest h
  simp only [Token.kw] at this
  simp [stepSection, writeNewSymbols, Token.kw, parseSection, parseNewSymbols, hpf, this]

theorem step_bitTiming (hex : Bool) (pf : PFlags) (ast : File) (bt : BitTiming)
    (rest : List Token) (hpf : pf.foundBitTim = false) (h : bitTimingOK bt = true)
    (hr : FollowSig rest) :
    stepSection hex pf ast (writeBitTiming bt ++ rest) =
      .ok (({ ast with bitTiming := some bt }, { pf with foundBitTim := true }), rest) := by
  simp only [bitTimingOK, Bool.and_eq_true] at h
  obtain ⟨b, r1, r2⟩ := bt
  by_cases hz : b = 0 ∧ r1 = 0 ∧ r2 = 0
  · obtain ⟨rfl, rfl, rfl⟩ := hz
    cases rest with
    | nil => exact absurd hr (by simp [FollowSig])
    | cons t ts =>
      cases t <;> first
        | (simp [stepSection, writeBitTiming, Token.kw, parseSection, parseBitTiming, hpf]; done)
        | (simp [FollowSig] at hr)
  · simp [stepSection, writeBitTiming, hz, uintTok, Token.kw, parseSection, parseBitTiming, hpf,
      uintOf, parseUint_formatUint _ h.1.1, parseUint_formatUint _ h.1.2,
      parseUint_formatUint _ h.2]

theorem step_nodes (hex : Bool) (pf : PFlags) (ast : File) (ns : List String)
    (rest : List Token) (hpf : pf.foundNode = false) (h : ns.all identOK = true)
    (hr : NoIdentHead rest) :
    stepSection hex pf ast (writeNodes ns ++ rest) =
      .ok (({ ast with nodes := some ns }, { pf with foundNode := true }), rest) := by
  simp [stepSection, writeNodes, Token.kw, parseSection, parseNodes, hpf,
    parseIdents_words _ _ h hr]

/-! ## runs with a follow-set fact -/

/-- `Runs` on a token list that starts a section (or is the final eof) -/
def RunsF (hex : Bool) (pf : PFlags) (ast : File) (ts : List Token) (f : File) : Prop :=
  Follow ts ∧ Runs hex pf ast ts f

theorem RunsF.eof {hex pf ast f} (h : ast = f) : RunsF hex pf ast [.eof] f :=
  ⟨trivial, h ▸ Runs.eof⟩

theorem follow_of_head {ts : List Token} (h : ∃ k body, k ≠ KeywordKind.signal ∧ ts = Token.kw k :: body) :
    Follow ts := by
  obtain ⟨k, body, hk, rfl⟩ := h
  exact follow_kw k hk body

/-- a list of sections of one kind -/
theorem runsF_slice {α : Type} (hex : Bool) (w : α → List Token) (upd : File → α → File)
    (nf : α → α) (P : α → Prop)
    (hhead : ∀ x rest, ∃ k body, k ≠ KeywordKind.signal ∧ w x ++ rest = Token.kw k :: body)
    (hstep : ∀ x, P x → ∀ pf ast rest, Follow rest →
      stepSection hex pf ast (w x ++ rest) = .ok ((upd ast (nf x), pf), rest))
    (xs : List α) (hP : ∀ x ∈ xs, P x) (pf : PFlags) (rest : List Token) (f : File) :
    ∀ ast, RunsF hex pf (xs.foldl (fun a x => upd a (nf x)) ast) rest f →
      RunsF hex pf ast (writeSlice w xs ++ rest) f := by
  induction xs with
  | nil => intro ast h; exact h
  | cons x xs ih =>
    intro ast h
    have hrec := ih (fun y hy => hP y (List.mem_cons_of_mem _ hy)) (upd ast (nf x)) h
    refine ⟨?_, ?_⟩
    · simp only [writeSlice, List.append_assoc]
      exact follow_of_head (hhead x _)
    · simp only [writeSlice, List.append_assoc]
      exact Runs.step (hstep x (hP x (List.mem_cons_self ..)) pf ast _ hrec.1) hrec.2

/-! ## accumulation of the section lists -/

theorem foldl_valueTables (xs : List ValueTable) (ast : File) :
    xs.foldl (fun a x => { a with valueTables := a.valueTables ++ [x] }) ast =
      { ast with valueTables := ast.valueTables ++ xs } := by
  induction xs generalizing ast with
  | nil => simp
  | cons x xs ih => simp [List.foldl, ih, List.append_assoc]

theorem foldl_messages (xs : List Message) (ast : File) :
    xs.foldl (fun a x => { a with messages := a.messages ++ [x] }) ast =
      { ast with messages := ast.messages ++ xs } := by
  induction xs generalizing ast with
  | nil => simp
  | cons x xs ih => simp [List.foldl, ih, List.append_assoc]

theorem foldl_messageTransmitters (xs : List MessageTransmitter) (ast : File) :
    xs.foldl (fun a x => { a with messageTransmitters := a.messageTransmitters ++ [x] }) ast =
      { ast with messageTransmitters := ast.messageTransmitters ++ xs } := by
  induction xs generalizing ast with
  | nil => simp
  | cons x xs ih => simp [List.foldl, ih, List.append_assoc]

theorem foldl_envVars (xs : List EnvVar) (ast : File) :
    xs.foldl (fun a x => { a with envVars := a.envVars ++ [x] }) ast =
      { ast with envVars := ast.envVars ++ xs } := by
  induction xs generalizing ast with
  | nil => simp
  | cons x xs ih => simp [List.foldl, ih, List.append_assoc]

theorem foldl_envVarDatas (xs : List EnvVarData) (ast : File) :
    xs.foldl (fun a x => { a with envVarDatas := a.envVarDatas ++ [x] }) ast =
      { ast with envVarDatas := ast.envVarDatas ++ xs } := by
  induction xs generalizing ast with
  | nil => simp
  | cons x xs ih => simp [List.foldl, ih, List.append_assoc]

theorem foldl_signalTypes (xs : List SignalType) (ast : File) :
    xs.foldl (fun a x => { a with signalTypes := a.signalTypes ++ [x] }) ast =
      { ast with signalTypes := ast.signalTypes ++ xs } := by
  induction xs generalizing ast with
  | nil => simp
  | cons x xs ih => simp [List.foldl, ih, List.append_assoc]

theorem foldl_comments (xs : List Comment) (ast : File) :
    xs.foldl (fun a x => { a with comments := a.comments ++ [x] }) ast =
      { ast with comments := ast.comments ++ xs } := by
  induction xs generalizing ast with
  | nil => simp
  | cons x xs ih => simp [List.foldl, ih, List.append_assoc]

theorem foldl_attributes (xs : List Attribute) (ast : File) :
    xs.foldl (fun a x => { a with attributes := a.attributes ++ [x] }) ast =
      { ast with attributes := ast.attributes ++ xs } := by
  induction xs generalizing ast with
  | nil => simp
  | cons x xs ih => simp [List.foldl, ih, List.append_assoc]

theorem foldl_attributeDefaults (hex : Bool) (xs : List AttributeDefault) (ast : File) :
    xs.foldl (fun a x => { a with attributeDefaults := a.attributeDefaults ++ [normAttributeDefault hex x] }) ast =
      { ast with attributeDefaults := ast.attributeDefaults ++ xs.map (normAttributeDefault hex) } := by
  induction xs generalizing ast with
  | nil => simp
  | cons x xs ih => simp [List.foldl, ih, List.append_assoc]

theorem foldl_attributeValues (hex : Bool) (xs : List AttributeValue) (ast : File) :
    xs.foldl (fun a x => { a with attributeValues := a.attributeValues ++ [normAttributeValue hex x] }) ast =
      { ast with attributeValues := ast.attributeValues ++ xs.map (normAttributeValue hex) } := by
  induction xs generalizing ast with
  | nil => simp
  | cons x xs ih => simp [List.foldl, ih, List.append_assoc]

theorem foldl_valueEncodings (xs : List ValueEncoding) (ast : File) :
    xs.foldl (fun a x => { a with valueEncodings := a.valueEncodings ++ [x] }) ast =
      { ast with valueEncodings := ast.valueEncodings ++ xs } := by
  induction xs generalizing ast with
  | nil => simp
  | cons x xs ih => simp [List.foldl, ih, List.append_assoc]

theorem foldl_signalTypeRefs (xs : List SignalTypeRef) (ast : File) :
    xs.foldl (fun a x => { a with signalTypeRefs := a.signalTypeRefs ++ [x] }) ast =
      { ast with signalTypeRefs := ast.signalTypeRefs ++ xs } := by
  induction xs generalizing ast with
  | nil => simp
  | cons x xs ih => simp [List.foldl, ih, List.append_assoc]

theorem foldl_signalGroups (xs : List SignalGroup) (ast : File) :
    xs.foldl (fun a x => { a with signalGroups := a.signalGroups ++ [x] }) ast =
      { ast with signalGroups := ast.signalGroups ++ xs } := by
  induction xs generalizing ast with
  | nil => simp
  | cons x xs ih => simp [List.foldl, ih, List.append_assoc]

theorem foldl_signalExtValueTypes (xs : List SignalExtValueType) (ast : File) :
    xs.foldl (fun a x => { a with signalExtValueTypes := a.signalExtValueTypes ++ [x] }) ast =
      { ast with signalExtValueTypes := ast.signalExtValueTypes ++ xs } := by
  induction xs generalizing ast with
  | nil => simp
  | cons x xs ih => simp [List.foldl, ih, List.append_assoc]

theorem foldl_extendedMuxes (xs : List ExtendedMux) (ast : File) :
    xs.foldl (fun a x => { a with extendedMuxes := a.extendedMuxes ++ [x] }) ast =
      { ast with extendedMuxes := ast.extendedMuxes ++ xs } := by
  induction xs generalizing ast with
  | nil => simp
  | cons x xs ih => simp [List.foldl, ih, List.append_assoc]

/-! ## the section lists, in the order of `writeFile` -/

theorem runsF_slices (fl : String → Bool) (hfl : ∀ s, fl s = true → acceptedFloatText s = true)
    (hex : Bool) (f : File)
    (h_valueTables : ∀ x ∈ f.valueTables, valueTableOK x = true)
    (h_messages : ∀ x ∈ f.messages, messageOK fl x = true)
    (h_messageTransmitters : ∀ x ∈ f.messageTransmitters, messageTransmitterOK x = true)
    (h_envVars : ∀ x ∈ f.envVars, envVarOK fl x = true)
    (h_envVarDatas : ∀ x ∈ f.envVarDatas, envVarDataOK x = true)
    (h_signalTypes : ∀ x ∈ f.signalTypes, signalTypeOK fl x = true)
    (h_comments : ∀ x ∈ f.comments, commentOK x = true)
    (h_attributes : ∀ x ∈ f.attributes, attributeOK fl x = true)
    (h_attributeDefaults : ∀ x ∈ f.attributeDefaults, attributeDefaultOK fl x = true)
    (h_attributeValues : ∀ x ∈ f.attributeValues, attributeValueOK fl x = true)
    (h_valueEncodings : ∀ x ∈ f.valueEncodings, valueEncodingOK x = true)
    (h_signalTypeRefs : ∀ x ∈ f.signalTypeRefs, signalTypeRefOK x = true)
    (h_signalGroups : ∀ x ∈ f.signalGroups, signalGroupOK x = true)
    (h_signalExtValueTypes : ∀ x ∈ f.signalExtValueTypes, signalExtValueTypeOK x = true)
    (h_extendedMuxes : ∀ x ∈ f.extendedMuxes, extendedMuxOK x = true)
    (pf : PFlags) (ast : File) :
    RunsF hex pf ast
      (writeSlice writeValueTable f.valueTables ++
      (writeSlice writeMessage f.messages ++
      (writeSlice writeMessageTransmitter f.messageTransmitters ++
      (writeSlice writeEnvVar f.envVars ++
      (writeSlice writeEnvVarData f.envVarDatas ++
      (writeSlice writeSignalType f.signalTypes ++
      (writeSlice writeComment f.comments ++
      (writeSlice (writeAttribute hex) f.attributes ++
      (writeSlice (writeAttributeDefault hex) f.attributeDefaults ++
      (writeSlice (writeAttributeValue hex) f.attributeValues ++
      (writeSlice writeValueEncoding f.valueEncodings ++
      (writeSlice writeSignalTypeRef f.signalTypeRefs ++
      (writeSlice writeSignalGroup f.signalGroups ++
      (writeSlice writeSignalExtValueType f.signalExtValueTypes ++
      (writeSlice writeExtendedMux f.extendedMuxes ++ [Token.eof])))))))))))))))
      { ast with
        valueTables := ast.valueTables ++ f.valueTables,
        messages := ast.messages ++ f.messages,
        messageTransmitters := ast.messageTransmitters ++ f.messageTransmitters,
        envVars := ast.envVars ++ f.envVars,
        envVarDatas := ast.envVarDatas ++ f.envVarDatas,
        signalTypes := ast.signalTypes ++ f.signalTypes,
        comments := ast.comments ++ f.comments,
        attributes := ast.attributes ++ f.attributes,
        attributeDefaults := ast.attributeDefaults ++ f.attributeDefaults.map (normAttributeDefault hex),
        attributeValues := ast.attributeValues ++ f.attributeValues.map (normAttributeValue hex),
        valueEncodings := ast.valueEncodings ++ f.valueEncodings,
        signalTypeRefs := ast.signalTypeRefs ++ f.signalTypeRefs,
        signalGroups := ast.signalGroups ++ f.signalGroups,
        signalExtValueTypes := ast.signalExtValueTypes ++ f.signalExtValueTypes,
        extendedMuxes := ast.extendedMuxes ++ f.extendedMuxes } := by
  refine runsF_slice hex writeValueTable (fun a x => { a with valueTables := a.valueTables ++ [x] }) (fun x => x)
    (fun x => valueTableOK x = true) (fun x rest => ⟨_, _, by decide, rfl⟩)
    (fun x hx pf ast rest hrest => step_valueTable hex pf ast x rest hx) f.valueTables h_valueTables pf _ _ _ ?_
  simp only [foldl_valueTables]
  refine runsF_slice hex writeMessage (fun a x => { a with messages := a.messages ++ [x] }) (fun x => x)
    (fun x => messageOK fl x = true) (fun x rest => ⟨_, _, by decide, rfl⟩)
    (fun x hx pf ast rest hrest => step_message fl hfl hex pf ast x rest hx hrest) f.messages h_messages pf _ _ _ ?_
  simp only [foldl_messages]
  refine runsF_slice hex writeMessageTransmitter (fun a x => { a with messageTransmitters := a.messageTransmitters ++ [x] }) (fun x => x)
    (fun x => messageTransmitterOK x = true) (fun x rest => ⟨_, _, by decide, rfl⟩)
    (fun x hx pf ast rest hrest => step_messageTransmitter hex pf ast x rest hx) f.messageTransmitters h_messageTransmitters pf _ _ _ ?_
  simp only [foldl_messageTransmitters]
  refine runsF_slice hex writeEnvVar (fun a x => { a with envVars := a.envVars ++ [x] }) (fun x => x)
    (fun x => envVarOK fl x = true) (fun x rest => ⟨_, _, by decide, rfl⟩)
    (fun x hx pf ast rest hrest => step_envVar fl hfl hex pf ast x rest hx) f.envVars h_envVars pf _ _ _ ?_
  simp only [foldl_envVars]
  refine runsF_slice hex writeEnvVarData (fun a x => { a with envVarDatas := a.envVarDatas ++ [x] }) (fun x => x)
    (fun x => envVarDataOK x = true) (fun x rest => ⟨_, _, by decide, rfl⟩)
    (fun x hx pf ast rest hrest => step_envVarData hex pf ast x rest hx) f.envVarDatas h_envVarDatas pf _ _ _ ?_
  simp only [foldl_envVarDatas]
  refine runsF_slice hex writeSignalType (fun a x => { a with signalTypes := a.signalTypes ++ [x] }) (fun x => x)
    (fun x => signalTypeOK fl x = true) (fun x rest => ⟨_, _, by decide, rfl⟩)
    (fun x hx pf ast rest hrest => step_signalType fl hfl hex pf ast x rest hx) f.signalTypes h_signalTypes pf _ _ _ ?_
  simp only [foldl_signalTypes]
  refine runsF_slice hex writeComment (fun a x => { a with comments := a.comments ++ [x] }) (fun x => x)
    (fun x => commentOK x = true) (fun x rest => ⟨_, _, by decide, rfl⟩)
    (fun x hx pf ast rest hrest => step_comment hex pf ast x rest hx) f.comments h_comments pf _ _ _ ?_
  simp only [foldl_comments]
  refine runsF_slice hex (writeAttribute hex) (fun a x => { a with attributes := a.attributes ++ [x] }) (fun x => x)
    (fun x => attributeOK fl x = true) (fun x rest => ⟨_, _, by decide, rfl⟩)
    (fun x hx pf ast rest hrest => step_attribute fl hfl hex pf ast x rest hx) f.attributes h_attributes pf _ _ _ ?_
  simp only [foldl_attributes]
  refine runsF_slice hex (writeAttributeDefault hex) (fun a x => { a with attributeDefaults := a.attributeDefaults ++ [x] }) (normAttributeDefault hex)
    (fun x => attributeDefaultOK fl x = true) (fun x rest => ⟨_, _, by decide, rfl⟩)
    (fun x hx pf ast rest hrest => step_attributeDefault fl hfl hex pf ast x rest hx) f.attributeDefaults h_attributeDefaults pf _ _ _ ?_
  simp only [foldl_attributeDefaults]
  refine runsF_slice hex (writeAttributeValue hex) (fun a x => { a with attributeValues := a.attributeValues ++ [x] }) (normAttributeValue hex)
    (fun x => attributeValueOK fl x = true) (fun x rest => ⟨_, _, by decide, rfl⟩)
    (fun x hx pf ast rest hrest => step_attributeValue fl hfl hex pf ast x rest hx) f.attributeValues h_attributeValues pf _ _ _ ?_
  simp only [foldl_attributeValues]
  refine runsF_slice hex writeValueEncoding (fun a x => { a with valueEncodings := a.valueEncodings ++ [x] }) (fun x => x)
    (fun x => valueEncodingOK x = true) (fun x rest => ⟨_, _, by decide, rfl⟩)
    (fun x hx pf ast rest hrest => step_valueEncoding hex pf ast x rest hx) f.valueEncodings h_valueEncodings pf _ _ _ ?_
  simp only [foldl_valueEncodings]
  refine runsF_slice hex writeSignalTypeRef (fun a x => { a with signalTypeRefs := a.signalTypeRefs ++ [x] }) (fun x => x)
    (fun x => signalTypeRefOK x = true) (fun x rest => ⟨_, _, by decide, rfl⟩)
    (fun x hx pf ast rest hrest => step_signalTypeRef hex pf ast x rest hx) f.signalTypeRefs h_signalTypeRefs pf _ _ _ ?_
  simp only [foldl_signalTypeRefs]
  refine runsF_slice hex writeSignalGroup (fun a x => { a with signalGroups := a.signalGroups ++ [x] }) (fun x => x)
    (fun x => signalGroupOK x = true) (fun x rest => ⟨_, _, by decide, rfl⟩)
    (fun x hx pf ast rest hrest => step_signalGroup hex pf ast x rest hx) f.signalGroups h_signalGroups pf _ _ _ ?_
  simp only [foldl_signalGroups]
  refine runsF_slice hex writeSignalExtValueType (fun a x => { a with signalExtValueTypes := a.signalExtValueTypes ++ [x] }) (fun x => x)
    (fun x => signalExtValueTypeOK x = true) (fun x rest => ⟨_, _, by decide, rfl⟩)
    (fun x hx pf ast rest hrest => step_signalExtValueType hex pf ast x rest hx) f.signalExtValueTypes h_signalExtValueTypes pf _ _ _ ?_
  simp only [foldl_signalExtValueTypes]
  refine runsF_slice hex writeExtendedMux (fun a x => { a with extendedMuxes := a.extendedMuxes ++ [x] }) (fun x => x)
    (fun x => extendedMuxOK x = true) (fun x rest => ⟨_, _, by decide, rfl⟩)
    (fun x hx pf ast rest hrest => step_extendedMux hex pf ast x rest hx) f.extendedMuxes h_extendedMuxes pf _ _ _ ?_
  simp only [foldl_extendedMuxes]
  exact RunsF.eof rfl

end Acme.Dbc
