/-
Round trip of messages, interfaces and buses, with the state the loader threads through them
(attached interfaces, sent and received messages of the interfaces).
-/
import Acme.Proofs.SaveSig

namespace Acme.Save
open List

/-! ## top-level signals -/

theorem loadTop_map {t T : Tbl} (hr : TRel t T) (own : Id → Option Owner) (o : Owner)
    (refs : List (Id × Nat)) (hn : (refs.map (·.1)).Nodup)
    (l : List (Sig × Nat))
    (hl : ∀ p ∈ l, sigWf t p.1 = true ∧ sigInRange p.1 = true ∧ (p.1.id, p.2) ∈ refs ∧
      ∀ q ∈ sigOwners o p.1, own q.1 = some q.2) :
    ∀ sn, Agrees sn own →
      ∃ sn', loadTop T refs o sn (l.map fun p => saveSig t p.1) = .ok (l.map fun p => (normSig t p.1, p.2), sn') ∧
        Agrees sn' own := by
  induction l with
  | nil => intro sn ha; exact ⟨sn, by simp [loadTop], ha⟩
  | cons x xs ih =>
    intro sn ha
    obtain ⟨h1, h2, h3, h4⟩ := hl x (by simp)
    obtain ⟨sn1, e1, ha1⟩ := loadSig_saveSig hr own x.1 o h1 h2 h4 sn ha
    obtain ⟨sn2, e2, ha2⟩ := ih (fun p hp => hl p (by simp [hp])) sn1 ha1
    refine ⟨sn2, ?_, ha2⟩
    simp only [List.map_cons, loadTop, e1, saveSig_id, lookupLast_of_mem hn h3, e2]

/-! ## receivers -/

theorem upsert_of_not_mem {α : Type} (key : α → Id) (x : α) (l : List α) (h : key x ∉ l.map key) :
    upsert key x l = l ++ [x] := by
  induction l with
  | nil => rfl
  | cons y ys ih =>
    simp only [List.map_cons, List.mem_cons, not_or] at h
    have : (key y == key x) = false := by simpa using fun he : key y = key x => h.1 he.symm
    simp [upsert, this, ih h.2]

theorem loadRecvs_map {t T : Tbl} (hr : TRel t T) (mid : Id) (st : St) (acc l : List Recv)
    (hn : ((acc ++ l).map (·.node)).Nodup)
    (hw : ∀ r ∈ l, recvWf t r = true ∧ fits32 r.num = true ∧ ((r.node, r.num), mid) ∉ st.sent) :
    loadRecvs T mid st acc (l.map fun r => (r.node, u32 r.num)) =
      .ok (acc ++ l, { st with received := (l.map fun r => ((r.node, r.num), mid)).reverse ++ st.received }) := by
  induction l generalizing acc st with
  | nil => simp [loadRecvs]
  | cons r rs ih =>
    obtain ⟨h1, h2, h3⟩ := hw r (by simp)
    simp only [recvWf] at h1
    cases hx : t.node r.node with
    | none => simp [hx] at h1
    | some x =>
      simp only [hx, decide_eq_true_eq] at h1
      obtain ⟨y, hy, hifc⟩ := hr.node _ _ hx
      have hnn : r.node ∉ acc.map (·.node) := by
        intro hc
        simp only [List.map_append, List.map_cons] at hn
        rw [List.nodup_append] at hn
        exact hn.2.2 _ hc _ (by simp) rfl
      simp only [List.map_cons, loadRecvs, hy, u32_of_fits h2, hifc]
      rw [if_neg (by omega), if_neg (by simpa using h3)]
      rw [upsert_of_not_mem Recv.node ⟨r.node, r.num⟩ acc hnn]
      rw [ih]
      · simp
      · simpa [List.append_assoc] using hn
      · intro r' hr'
        exact hw r' (by simp [hr'])

/-! ## messages -/

theorem msgWf_iff (t : Tbl) (m : Msg) (h : msgWf t m = true) :
    asgsWf t m.asg = true ∧ (∀ v, m.static = some v → m.mid = v) ∧
    (∀ p ∈ m.sigs, sigWf t p.1 = true) ∧ (m.sigs.map (·.1.id)).Nodup ∧
    (∀ r ∈ m.recvs, recvWf t r = true) ∧ (m.recvs.map (·.node)).Nodup := by
  simp only [msgWf, Bool.and_eq_true, List.all_eq_true, nodupB, decide_eq_true_eq] at h
  obtain ⟨⟨⟨⟨⟨h1, h2⟩, h3⟩, h4⟩, h5⟩, h6⟩ := h
  refine ⟨h1, ?_, h3, h4, h5, h6⟩
  intro v hv
  simpa [hv] using h2

theorem msgInRange_iff (m : Msg) (h : msgInRange m = true) :
    fits32 m.mid = true ∧ (∀ v, m.static = some v → fits32 v = true) ∧
    (∀ p ∈ m.sigs, sigInRange p.1 = true ∧ fits32 p.2 = true) ∧ (∀ r ∈ m.recvs, fits32 r.num = true) := by
  simp only [msgInRange, Bool.and_eq_true, List.all_eq_true] at h
  obtain ⟨⟨⟨h1, h2⟩, h3⟩, h4⟩ := h
  refine ⟨h1, ?_, h3, h4⟩
  intro v hv
  simpa [hv] using h2

/-- the message ids a state mentions -/
def St.Fresh (st : St) (id : Id) : Prop :=
  (∀ x ∈ st.sent, x.2 ≠ id) ∧ (∀ x ∈ st.received, x.2 ≠ id) ∧ id ∉ st.msgs

theorem loadMsg_saveMsg {t T : Tbl} (hr : TRel t T) (own : Id → Option Owner) (st : St) (m : Msg)
    (hw : msgWf t m = true) (hi : msgInRange m = true) (hf : st.Fresh m.e.id)
    (ho : ∀ q ∈ msgOwners m, own q.1 = some q.2) (hs : Agrees st.sigs own) :
    ∃ sn, loadMsg T st (saveMsg t m) =
      .ok (normMsg t m,
        { st with received := ((sortBy (recvLe t) m.recvs).map fun r => ((r.node, r.num), m.e.id)).reverse ++ st.received
                  msgs := m.e.id :: st.msgs, sigs := sn }) ∧ Agrees sn own := by
  obtain ⟨w1, w2, w3, w4, w5, w6⟩ := msgWf_iff t m hw
  obtain ⟨i1, i2, i3, i4⟩ := msgInRange_iff m hi
  obtain ⟨sn, htop, hsn⟩ := loadTop_map hr own (.msg m.e.id) ((sortBy topLe m.sigs).map fun p => (p.1.id, u32 p.2))
      (by
        simp only [List.map_map, Function.comp_def]
        exact nodup_map_sortBy _ _ w4)
      (sortBy topLe m.sigs)
      (by
        intro p hp
        have hp' := mem_sortBy.mp hp
        refine ⟨w3 p hp', (i3 p hp').1, ?_, ?_⟩
        · exact List.mem_map.mpr ⟨p, hp, by rw [u32_of_fits (i3 p hp').2]⟩
        · intro q hq
          exact ho q (List.mem_flatMap.mpr ⟨p, hp', hq⟩))
      st.sigs hs
  refine ⟨sn, ?_, hsn⟩
  have hrec := loadRecvs_map hr m.e.id { st with msgs := m.e.id :: st.msgs, sigs := sn } []
    (sortBy (recvLe t) m.recvs)
    (by simpa using nodup_map_sortBy _ _ w6)
    (fun r hr' => ⟨w5 r (mem_sortBy.mp hr'), i4 r (mem_sortBy.mp hr'),
      fun hc => hf.1 _ hc rfl⟩)
  simp only [List.nil_append] at hrec
  have hnew : (st.msgs.contains m.e.id) = false := by simpa using hf.2.2
  simp only [loadMsg, saveMsg, hnew, Bool.false_eq_true, if_false, htop, hrec,
    loadAsgs_saveAsgs hr.attr m.e.id m.asg w1]
  congr 2
  obtain ⟨e, asg, mid, static, sigs, recvs⟩ := m
  simp only [normMsg, Msg.mk.injEq, true_and, and_true]
  cases static with
  | none => simpa using u32_of_fits i1
  | some v =>
    have := w2 v rfl
    simp only at this
    subst this
    simp [u32_of_fits (i2 _ rfl)]

/-! ## the state while a network is loaded -/

/-- the state mentions interfaces among `A` and message ids among `M` only, and the signal ids it
    has seen are owned as `own` says -/
structure StOK (own : Id → Option Owner) (st : St) (A : List (Id × Nat)) (M : List Id) : Prop where
  att : ∀ k ∈ st.attached, k ∈ A
  sent : ∀ x ∈ st.sent, x.2 ∈ M
  recv : ∀ x ∈ st.received, x.2 ∈ M
  msgs : ∀ x ∈ st.msgs, x ∈ M
  sigs : Agrees st.sigs own

theorem StOK.fresh {own : Id → Option Owner} {st : St} {A : List (Id × Nat)} {M : List Id}
    (h : StOK own st A M) {id : Id} (hid : id ∉ M) : st.Fresh id :=
  ⟨fun x hx he => hid (he ▸ h.sent x hx), fun x hx he => hid (he ▸ h.recv x hx),
   fun hc => hid (h.msgs id hc)⟩

theorem StOK.mono {own : Id → Option Owner} {st : St} {A A' : List (Id × Nat)} {M M' : List Id}
    (h : StOK own st A M)
    (hA : ∀ k ∈ A, k ∈ A') (hM : ∀ k ∈ M, k ∈ M') : StOK own st A' M' :=
  ⟨fun k hk => hA k (h.att k hk), fun x hx => hM _ (h.sent x hx), fun x hx => hM _ (h.recv x hx),
   fun x hx => hM _ (h.msgs x hx), h.sigs⟩

theorem loadMsgs_cons_ok {T : Tbl} {key : Id × Nat} {st st1 st2 : St} {p : PMsg} {r : List PMsg}
    {m : Msg} {ms : List Msg} (h1 : loadMsg T st p = .ok (m, st1))
    (h2 : (key, m.e.id) ∉ st1.sent) (h3 : (key, m.e.id) ∉ st1.received)
    (h4 : loadMsgs T key { st1 with sent := (key, m.e.id) :: st1.sent } r = .ok (ms, st2)) :
    loadMsgs T key st (p :: r) = .ok (m :: ms, st2) := by
  simp only [loadMsgs, h1]
  rw [if_neg (by simpa using h2), if_neg (by simpa using h3), h4]

theorem loadMsgs_map {t T : Tbl} (hr : TRel t T) (own : Id → Option Owner) (key : Id × Nat)
    (A : List (Id × Nat)) (M : List Id)
    (st : St) (l : List Msg) (hst : StOK own st A M)
    (hw : ∀ m ∈ l, msgWf t m = true ∧ msgInRange m = true ∧ ⟨key.1, key.2⟩ ∉ m.recvs ∧
      ∀ q ∈ msgOwners m, own q.1 = some q.2)
    (hn : (l.map (·.e.id)).Nodup) (hd : ∀ m ∈ l, m.e.id ∉ M) :
    ∃ st', loadMsgs T key st (l.map (saveMsg t)) = .ok (l.map (normMsg t), st') ∧
      StOK own st' A (l.map (·.e.id) ++ M) := by
  induction l generalizing st M with
  | nil => exact ⟨st, by simp [loadMsgs], by simpa using hst⟩
  | cons m ms ih =>
    obtain ⟨h1, h2, h3, h4⟩ := hw m (by simp)
    simp only [List.map_cons, List.nodup_cons] at hn
    have hfresh := hst.fresh (hd m (by simp))
    have hnorm : (normMsg t m).e.id = m.e.id := rfl
    obtain ⟨sn, hload, hsn⟩ := loadMsg_saveMsg hr own st m h1 h2 hfresh h4 hst.sigs
    -- the state after the message and its registration as sent
    let st1 : St := { st with received :=
      ((sortBy (recvLe t) m.recvs).map fun r => ((r.node, r.num), m.e.id)).reverse ++ st.received
                              msgs := m.e.id :: st.msgs, sigs := sn }
    let st2 : St := { st1 with sent := (key, m.e.id) :: st1.sent }
    have hst2 : StOK own st2 A (m.e.id :: M) := by
      refine ⟨hst.att, ?_, ?_, ?_, hsn⟩
      · intro x hx
        rcases List.mem_cons.mp hx with rfl | hx
        · simp
        · exact List.mem_cons_of_mem _ (hst.sent x hx)
      · intro x hx
        rcases List.mem_append.mp hx with hx | hx
        · simp only [List.mem_reverse, List.mem_map] at hx
          obtain ⟨r, _, rfl⟩ := hx
          simp
        · exact List.mem_cons_of_mem _ (hst.recv x hx)
      · intro x hx
        rcases List.mem_cons.mp hx with rfl | hx
        · simp
        · exact List.mem_cons_of_mem _ (hst.msgs x hx)
    obtain ⟨st', hl, hst'⟩ := ih (m.e.id :: M) st2 hst2 (fun m' hm' => hw m' (by simp [hm'])) hn.2
      (by
        intro m' hm' hc
        rcases List.mem_cons.mp hc with he | hc
        · exact hn.1 (List.mem_map.mpr ⟨m', hm', he⟩)
        · exact hd m' (by simp [hm']) hc)
    refine ⟨st', ?_, hst'.mono (fun k hk => hk) (by
      intro k hk
      simp only [List.mem_append, List.mem_cons, List.map_cons] at hk ⊢
      rcases hk with h | h | h
      · exact Or.inl (Or.inr h)
      · exact Or.inl (Or.inl h)
      · exact Or.inr h)⟩
    refine loadMsgs_cons_ok hload ?_ ?_ hl
    · exact fun hc => hfresh.1 _ hc rfl
    · -- the interface does not receive the message
      simp only [List.mem_append, List.mem_reverse, List.mem_map, not_or]
      refine ⟨?_, fun hc => hfresh.2.1 _ hc rfl⟩
      rintro ⟨r, hr', he⟩
      apply h3
      have := mem_sortBy.mp hr'
      obtain ⟨n, k⟩ := r
      simp only [Prod.mk.injEq] at he
      rw [← he.1]
      exact this

/-! ## interfaces -/

def Iface.key (i : Iface) : Id × Nat := (i.node, i.num)
def Iface.mids (i : Iface) : List Id := i.msgs.map (·.e.id)
def Iface.owners (i : Iface) : List (Id × Owner) := i.msgs.flatMap msgOwners

theorem ifaceWf_iff (t : Tbl) (i : Iface) (h : ifaceWf t i = true) :
    recvWf t ⟨i.node, i.num⟩ = true ∧
    ∀ m ∈ i.msgs, msgWf t m = true ∧ ⟨i.node, i.num⟩ ∉ m.recvs := by
  simp only [ifaceWf, Bool.and_eq_true, List.all_eq_true, Bool.not_eq_true', List.contains_eq_mem,
    decide_eq_false_iff_not] at h
  exact h

theorem loadIface_saveIface {t T : Tbl} (hr : TRel t T) (own : Id → Option Owner)
    (A : List (Id × Nat)) (M : List Id) (st : St)
    (i : Iface) (hst : StOK own st A M) (hw : ifaceWf t i = true)
    (hi : fits31 i.num = true ∧ ∀ m ∈ i.msgs, msgInRange m = true)
    (ho : ∀ q ∈ i.owners, own q.1 = some q.2)
    (hk : i.key ∉ A) (hn : i.mids.Nodup) (hd : ∀ id ∈ i.mids, id ∉ M) :
    ∃ st', loadIface T st (saveIface t i) = .ok (normIface t i, st') ∧
      StOK own st' (i.key :: A) (i.mids ++ M) := by
  obtain ⟨w1, w2⟩ := ifaceWf_iff t i hw
  simp only [recvWf] at w1
  cases hx : t.node i.node with
  | none => simp [hx] at w1
  | some x =>
    simp only [hx, decide_eq_true_eq] at w1
    obtain ⟨y, hy, hifc⟩ := hr.node _ _ hx
    obtain ⟨st1, hl, hst1⟩ := loadMsgs_map hr own (i.node, i.num) A M st (sortBy msgLe i.msgs) hst
      (fun m hm => ⟨(w2 m (mem_sortBy.mp hm)).1, hi.2 m (mem_sortBy.mp hm), (w2 m (mem_sortBy.mp hm)).2,
        fun q hq => ho q (List.mem_flatMap.mpr ⟨m, mem_sortBy.mp hm, hq⟩)⟩)
      (nodup_map_sortBy _ _ hn)
      (fun m hm => hd _ (List.mem_map.mpr ⟨m, mem_sortBy.mp hm, rfl⟩))
    refine ⟨{ st1 with attached := (i.node, i.num) :: st1.attached }, ?_, ?_⟩
    · simp only [loadIface, saveIface, hy, i32_of_fits hi.1, Int.toNat_natCast, hifc]
      rw [if_neg (by omega), if_neg (by omega), if_neg]
      · simp only [hl, normIface]
      · have : (i.node, i.num) ∉ st.attached := fun hc => hk (hst.att _ hc)
        simpa using this
    · refine ⟨?_, ?_, ?_, ?_, hst1.sigs⟩
      · intro k hk'
        rcases List.mem_cons.mp hk' with rfl | hk'
        · simp [Iface.key]
        · exact List.mem_cons_of_mem _ (hst1.att k hk')
      · intro x hx'
        have := hst1.sent x hx'
        simp only [Iface.mids, List.mem_append, List.mem_map] at this ⊢
        rcases this with ⟨m, hm, he⟩ | h
        · exact Or.inl ⟨m, mem_sortBy.mp hm, he⟩
        · exact Or.inr h
      · intro x hx'
        have := hst1.recv x hx'
        simp only [Iface.mids, List.mem_append, List.mem_map] at this ⊢
        rcases this with ⟨m, hm, he⟩ | h
        · exact Or.inl ⟨m, mem_sortBy.mp hm, he⟩
        · exact Or.inr h
      · intro x hx'
        have := hst1.msgs x hx'
        simp only [Iface.mids, List.mem_append, List.mem_map] at this ⊢
        rcases this with ⟨m, hm, he⟩ | h
        · exact Or.inl ⟨m, mem_sortBy.mp hm, he⟩
        · exact Or.inr h

theorem loadIfaces_map {t T : Tbl} (hr : TRel t T) (own : Id → Option Owner)
    (A : List (Id × Nat)) (M : List Id) (st : St)
    (l : List Iface) (hst : StOK own st A M)
    (hw : ∀ i ∈ l, ifaceWf t i = true ∧ (fits31 i.num = true ∧ ∀ m ∈ i.msgs, msgInRange m = true) ∧
      ∀ q ∈ i.owners, own q.1 = some q.2)
    (hk : (l.map Iface.key).Nodup) (hkd : ∀ i ∈ l, i.key ∉ A)
    (hn : (l.flatMap Iface.mids).Nodup) (hd : ∀ id ∈ l.flatMap Iface.mids, id ∉ M) :
    ∃ st', loadIfaces T st (l.map (saveIface t)) = .ok (l.map (normIface t), st') ∧
      StOK own st' (l.map Iface.key ++ A) (l.flatMap Iface.mids ++ M) := by
  induction l generalizing st A M with
  | nil => exact ⟨st, by simp [loadIfaces], by simpa using hst⟩
  | cons i is ih =>
    obtain ⟨h1, h2, h3⟩ := hw i (by simp)
    simp only [List.map_cons, List.nodup_cons] at hk
    simp only [List.flatMap_cons, List.nodup_append] at hn
    obtain ⟨st1, hl1, hst1⟩ := loadIface_saveIface hr own A M st i hst h1 h2 h3 (hkd i (by simp)) hn.1
      (fun id hid => hd id (by simp [hid]))
    obtain ⟨st2, hl2, hst2⟩ := ih (i.key :: A) (i.mids ++ M) st1 hst1 (fun j hj => hw j (by simp [hj])) hk.2
      (by
        intro j hj hc
        rcases List.mem_cons.mp hc with he | hc
        · exact hk.1 (List.mem_map.mpr ⟨j, hj, he⟩)
        · exact hkd j (by simp [hj]) hc)
      hn.2.1
      (by
        intro id hid hc
        rcases List.mem_append.mp hc with hc | hc
        · exact hn.2.2 id hc id hid rfl
        · exact hd id (by simp only [List.flatMap_cons, List.mem_append]; exact Or.inr hid) hc)
    refine ⟨st2, ?_, hst2.mono ?_ ?_⟩
    · simp only [List.map_cons, loadIfaces, hl1, hl2]
    · intro k hk'
      simp only [List.mem_append, List.mem_cons, List.map_cons] at hk' ⊢
      rcases hk' with h | h | h
      · exact Or.inl (Or.inr h)
      · exact Or.inl (Or.inl h)
      · exact Or.inr h
    · intro k hk'
      simp only [List.mem_append, List.flatMap_cons] at hk' ⊢
      rcases hk' with h | h | h
      · exact Or.inl (Or.inr h)
      · exact Or.inl (Or.inl h)
      · exact Or.inr h

/-! ## buses -/

def Bus.keys (b : Bus) : List (Id × Nat) := b.ifaces.map Iface.key
def Bus.mids (b : Bus) : List Id := b.ifaces.flatMap Iface.mids
def Bus.owners (b : Bus) : List (Id × Owner) := b.ifaces.flatMap Iface.owners

theorem busWf_iff (t : Tbl) (b : Bus) (h : busWf t b = true) :
    asgsWf t b.asg = true ∧
    (∀ id, b.builder = some id → id ≠ "" ∧ (t.builder id).isSome = true) ∧
    ∀ i ∈ b.ifaces, ifaceWf t i = true := by
  simp only [busWf, Bool.and_eq_true, List.all_eq_true] at h
  obtain ⟨⟨h1, h2⟩, h3⟩ := h
  refine ⟨h1, ?_, h3⟩
  intro id hid
  simpa [hid] using h2

def busInRange (b : Bus) : Bool := b.ifaces.all fun i => fits31 i.num && i.msgs.all msgInRange

theorem busInRange_iff (b : Bus) (h : busInRange b = true) :
    ∀ i ∈ b.ifaces, fits31 i.num = true ∧ ∀ m ∈ i.msgs, msgInRange m = true := by
  simpa [busInRange] using h

theorem loadBus_saveBus {t T : Tbl} (hr : TRel t T) (own : Id → Option Owner)
    (A : List (Id × Nat)) (M : List Id) (st : St)
    (b : Bus) (hst : StOK own st A M) (hw : busWf t b = true) (hi : busInRange b = true)
    (ho : ∀ q ∈ b.owners, own q.1 = some q.2)
    (hk : b.keys.Nodup) (hkd : ∀ k ∈ b.keys, k ∉ A)
    (hn : b.mids.Nodup) (hd : ∀ id ∈ b.mids, id ∉ M) :
    ∃ st', loadBus T st (saveBus t b) = .ok (normBus t b, st') ∧ StOK own st' (b.keys ++ A) (b.mids ++ M) := by
  obtain ⟨w1, w2, w3⟩ := busWf_iff t b hw
  have hir := busInRange_iff b hi
  have hperm := sortBy_perm (ifaceLe t) b.ifaces
  obtain ⟨st1, hl, hst1⟩ := loadIfaces_map hr own A M st (sortBy (ifaceLe t) b.ifaces) hst
    (fun i hi' => ⟨w3 i (mem_sortBy.mp hi'), hir i (mem_sortBy.mp hi'),
      fun q hq => ho q (List.mem_flatMap.mpr ⟨i, mem_sortBy.mp hi', hq⟩)⟩)
    ((hperm.map _).nodup_iff.mpr hk)
    (fun i hi' => hkd _ (List.mem_map.mpr ⟨i, mem_sortBy.mp hi', rfl⟩))
    ((hperm.flatMap_right _).nodup_iff.mpr hn)
    (fun id hid => hd id ((hperm.flatMap_right _).mem_iff.mp hid))
  refine ⟨st1, ?_, hst1.mono ?_ ?_⟩
  · have hb : ((b.builder.getD "" != "") && (T.builder (b.builder.getD "")).isNone) = false := by
      cases hbb : b.builder with
      | none => simp
      | some id =>
        obtain ⟨hne, hs⟩ := w2 id hbb
        have hT := hr.builder id hs
        simp only [Option.getD_some]
        cases hTb : T.builder id with
        | none => simp [hTb] at hT
        | some _ => simp
    simp only [loadBus, saveBus, hb, hl, loadAsgs_saveAsgs hr.attr b.e.id b.asg w1]
    simp only [Bool.false_eq_true, if_false]
    congr 2
    obtain ⟨e, builder, ifaces, asg⟩ := b
    simp only [normBus, Bus.mk.injEq, true_and, and_true]
    cases builder with
    | none => simp
    | some id => simp [(w2 id rfl).1]
  · intro k hk'
    simp only [List.mem_append] at hk' ⊢
    rcases hk' with hk' | hk'
    · exact Or.inl ((hperm.map _).mem_iff.mp hk')
    · exact Or.inr hk'
  · intro k hk'
    simp only [List.mem_append] at hk' ⊢
    rcases hk' with hk' | hk'
    · exact Or.inl ((hperm.flatMap_right _).mem_iff.mp hk')
    · exact Or.inr hk'

theorem loadBuses_map {t T : Tbl} (hr : TRel t T) (own : Id → Option Owner)
    (A : List (Id × Nat)) (M : List Id) (st : St)
    (seen : List Id) (l : List Bus) (hst : StOK own st A M)
    (hw : ∀ b ∈ l, busWf t b = true ∧ busInRange b = true ∧ ∀ q ∈ b.owners, own q.1 = some q.2)
    (hid : (l.map (·.e.id)).Nodup) (hsd : ∀ b ∈ l, b.e.id ∉ seen)
    (hk : (l.flatMap Bus.keys).Nodup) (hkd : ∀ k ∈ l.flatMap Bus.keys, k ∉ A)
    (hn : (l.flatMap Bus.mids).Nodup) (hd : ∀ id ∈ l.flatMap Bus.mids, id ∉ M) :
    loadBuses T st seen (l.map (saveBus t)) = .ok (l.map (normBus t)) := by
  induction l generalizing st A M seen with
  | nil => simp [loadBuses]
  | cons b bs ih =>
    obtain ⟨h1, h2, h3⟩ := hw b (by simp)
    simp only [List.map_cons, List.nodup_cons] at hid
    simp only [List.flatMap_cons, List.nodup_append] at hk hn
    obtain ⟨st1, hl1, hst1⟩ := loadBus_saveBus hr own A M st b hst h1 h2 h3 hk.1
      (fun k hk' => hkd k (by simp [hk'])) hn.1 (fun id hid' => hd id (by simp [hid']))
    have hnorm : (normBus t b).e.id = b.e.id := rfl
    simp only [List.map_cons, loadBuses, hl1, hnorm]
    rw [if_neg (by simpa using hsd b (by simp))]
    rw [ih (b.keys ++ A) (b.mids ++ M) st1 (b.e.id :: seen) hst1 (fun c hc => hw c (by simp [hc])) hid.2]
    · intro c hc hcs
      rcases List.mem_cons.mp hcs with he | hcs
      · exact hid.1 (List.mem_map.mpr ⟨c, hc, he⟩)
      · exact hsd c (by simp [hc]) hcs
    · exact hk.2.1
    · intro k hk' hc
      rcases List.mem_append.mp hc with hc | hc
      · exact hk.2.2 k hc k hk' rfl
      · exact hkd k (by simp only [List.flatMap_cons, List.mem_append]; exact Or.inr hk') hc
    · exact hn.2.1
    · intro id hid' hc
      rcases List.mem_append.mp hc with hc | hc
      · exact hn.2.2 id hc id hid' rfl
      · exact hd id (by simp only [List.flatMap_cons, List.mem_append]; exact Or.inr hid') hc

end Acme.Save
