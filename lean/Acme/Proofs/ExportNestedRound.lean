/-
C11 at message level, nested multiplexers, part 6: the context of a tree of `ExpressibleNested`
and what is known about the exported message (signals up to switch values, entries, names).
-/
import Acme.Proofs.ExportNestedGlue

namespace Acme.Import
open Acme.Layout Acme.Conv Acme.Arith

/-- the pairs (owner, child) of the whole message -/
def Dt (t : ITree) (r : MuxNode) : List DEntry := Dn t.nested (t.nested.length + 1) r

structure NCtx (t : ITree) (r : MuxNode) : Prop where
  size0 : 0 ≤ t.sizeByte
  size8 : t.sizeByte ≤ 8
  wf : TopWF (8 * t.sizeByte) t.top
  mux : muxesOf t.top = [r]
  tree : Tree t.bigEndian t.nested (t.nested.length + 1) r
  names : (sigNamesN t r).Nodup
  ne : t.nested ≠ []
  perm : (reach t r).Perm t.nested

theorem theMux_some (top : List Item) (r : MuxNode) (h : theMux top = some r) : muxesOf top = [r] := by
  unfold theMux at h
  split at h
  · injection h with h; subst h; assumption
  · cases h

theorem nctx_of (t : ITree) (h : ExpressibleNested t) : ∃ r, theMux t.top = some r ∧ NCtx t r := by
  obtain ⟨h1, h2, h3, h4, h5⟩ := h
  cases hm : theMux t.top with
  | none => rw [hm] at h5; exact h5.elim
  | some r =>
    rw [hm] at h5
    obtain ⟨hn, hl, hp⟩ := h5
    have hmux := theMux_some _ _ hm
    have hrtop : Item.mux r ∈ t.top := (mem_muxesOf _ _).1 (by rw [hmux]; exact List.mem_singleton.2 rfl)
    have hr0 : 0 ≤ r.start := by
      have hm' : (Item.mux r).slot ∈ topSlots t.top := List.mem_map.2 ⟨_, hrtop, rfl⟩
      exact (WFfrom_mem h3 _ hm').1
    refine ⟨r, rfl, h1, h2, h3, hmux, ?_, hn, h4, hp⟩
    apply tree_of _ _ _ _ hl hr0
    intro m hmm
    unfold sigNamesN reach at hn
    rw [List.nodup_append] at hn
    have h6 := (List.nodup_cons.1 hn.2.1).2
    exact (sublist_flatMap_of_mem (fun n : MuxNode => n.children.map (·.name)) _ m hmm).nodup h6

section
variable {t : ITree} {r : MuxNode} (c : NCtx t r)
include c

theorem NCtx.rtop : Item.mux r ∈ t.top :=
  (mem_muxesOf _ _).1 (by rw [c.mux]; exact List.mem_singleton.2 rfl)

theorem NCtx.good : ∀ d ∈ Dt t r, Good t.bigEndian t.nested d ∧ d.1 ∈ r :: reach t r := by
  intro d hd
  obtain ⟨g, h⟩ := Dn_good _ _ _ _ c.tree d hd
  refine ⟨g, ?_⟩
  rcases h with h | h
  · rw [h]; exact List.mem_cons_self ..
  · exact List.mem_cons_of_mem _ h

/-- the root's name and the names of all children at all depths are pairwise different -/
theorem NCtx.dnames : (r.name :: (Dt t r).map (fun d => d.2.1.name)).Nodup := by
  have hn := c.names
  unfold sigNamesN at hn
  rw [List.nodup_append] at hn
  have h6 := hn.2.1
  have hp := Dn_names_perm _ _ _ _ c.tree
  exact ((List.Perm.cons r.name hp).nodup_iff).2 h6

theorem NCtx.dnodup : (Dt t r).Nodup := List.Nodup.of_map _ (List.nodup_cons.1 c.dnames).2

theorem NCtx.leafNames : ∀ l ∈ leavesOf t.top, l.name ≠ r.name ∧ l.name ∉ (Dt t r).map (fun d => d.2.1.name) := by
  intro l hl
  have hn := c.names
  unfold sigNamesN at hn
  rw [List.nodup_append] at hn
  have hd := hn.2.2 l.name (List.mem_map.2 ⟨l, hl, rfl⟩)
  have hp := Dn_names_perm _ _ _ _ c.tree
  constructor
  · intro he
    exact hd r.name (List.mem_cons_self ..) he
  · intro hm
    exact hd l.name (List.mem_cons_of_mem _ (hp.mem_iff.1 hm)) rfl

/-- the name written for an entry is the child's name -/
theorem NCtx.sigName (d : DEntry) (hd : d ∈ Dt t r) : (sigOfD t.bigEndian t.nested d).name = d.2.1.name := by
  obtain ⟨g, _⟩ := c.good d hd
  unfold sigOfD
  cases hs : subOf t.nested d.2.1 with
  | none => rfl
  | some sub => exact (g.link sub hs).2.2.2.2.2

theorem NCtx.below_eq : reach t r = ((Dt t r).filter (isSub t.nested)).filterMap (fun d => subOf t.nested d.2.1) := by
  unfold reach Dt
  rw [below_eq_Dn, List.filterMap_filter]
  apply List.filterMap_congr
  intro d _
  unfold isSub
  cases subOf t.nested d.2.1 <;> rfl

/-- the names of the multiplexers are pairwise different -/
theorem NCtx.nodeNames : ((r :: reach t r).map (·.name)).Nodup := by
  have hsub : ((reach t r).map (·.name)).Sublist ((Dt t r).map (fun d => d.2.1.name)) := by
    unfold reach Dt
    rw [below_eq_Dn]
    have : ∀ l : List DEntry, (∀ d ∈ l, d ∈ Dt t r) →
        ((l.filterMap (fun d => subOf t.nested d.2.1)).map (·.name)).Sublist (l.map (fun d => d.2.1.name)) := by
      intro l
      induction l with
      | nil => intro _; exact List.Sublist.refl _
      | cons x rest ih =>
        intro hl
        have ih' := ih (fun d hd => hl d (List.mem_cons_of_mem _ hd))
        obtain ⟨g, _⟩ := c.good x (hl x (List.mem_cons_self ..))
        rw [List.filterMap_cons]
        cases hs : subOf t.nested x.2.1 with
        | none => exact ih'.trans (List.sublist_cons_self _ _)
        | some sub =>
          simp only [List.map_cons]
          rw [(g.link sub hs).2.2.2.2.2]
          exact List.Sublist.cons_cons _ ih'
    exact this _ (fun d hd => hd)
  rw [List.map_cons]
  exact (List.Sublist.cons_cons r.name hsub).nodup c.dnames

/-- every multiplexer of the tree -/
theorem NCtx.nodeOK (m : MuxNode) (hm : m ∈ r :: reach t r) :
    MuxOKN m ∧ 0 ≤ m.start ∧ (m = r ∨ fileStart t.bigEndian r.start < fileStart t.bigEndian m.start) := by
  rcases List.mem_cons.1 hm with rfl | hm
  · obtain ⟨a, b⟩ := tree_ok _ _ _ _ c.tree
    exact ⟨a, b, Or.inl rfl⟩
  · obtain ⟨⟨f, hf⟩, hlt⟩ := below_tree _ _ _ _ c.tree m hm
    obtain ⟨a, b⟩ := tree_ok _ _ _ _ hf
    exact ⟨a, b, Or.inr hlt⟩

theorem NCtx.own (m : MuxNode) (hm : m ∈ r :: reach t r) :
    (Dt t r).filter (fun d => d.1.name == m.name) = (seenChildren m).map (fun p => ((m, p) : DEntry)) :=
  own_filter _ _ _ _ c.tree c.dnodup c.nodeNames m hm

end

end Acme.Import
