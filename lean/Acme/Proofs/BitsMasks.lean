/-
Saw-tooth numbering, published mask bits, D08 witnesses.
-/
import Acme.Proofs.BitsChain

namespace Acme.Bits
open Acme.Layout

/-! ### saw-tooth -/

theorem conv_conv (p : Nat) : conv (conv p) = p := by
  unfold conv; omega

theorem conv_succ (p : Nat) : conv (p + 1) = sawNext (conv p) := by
  unfold sawNext conv
  split <;> omega

theorem bitBE_eq (data : List Nat) (p : Nat) : bitBE data p = bitLE data (conv p) := by
  have h1 : conv p / 8 = p / 8 := by unfold conv; omega
  have h2 : conv p % 8 = 7 - p % 8 := by unfold conv; omega
  simp only [bitBE, bitLE, h1, h2]

theorem rawBE_motorola (data : List Nat) (p sz : Nat) :
    rawBE data p sz = motorola data (conv p) sz := by
  induction sz generalizing p with
  | zero => rfl
  | succ n ih => rw [rawBE_succ', motorola, ih (p + 1), conv_succ, bitBE_eq]

theorem sawtooth (data : List Nat) (p sz : Nat) :
    bitBE data p = bitLE data (conv p) ∧ conv (p + 1) = sawNext (conv p) ∧ conv (conv p) = p ∧
    rawBE data p sz = motorola data (conv p) sz :=
  ⟨bitBE_eq data p, conv_succ p, conv_conv p, rawBE_motorola data p sz⟩

/-! ### published bits -/

/-- payload bit (Intel number) at place `p` of the signal's numbering -/
def cv (be : Bool) (p : Nat) : Nat := if be then conv p else p

theorem cv_inj (be : Bool) {p q : Nat} (h : cv be p = cv be q) : p = q := by
  cases be
  · exact h
  · have := congrArg conv h
    simpa [cv, conv_conv] using this

theorem filterBits_nodup (f : Filter) : (filterBits f).Nodup := by
  unfold filterBits
  have h : ((List.range 8).filter (fun j => f.mask.testBit j)).Nodup :=
    List.Nodup.sublist List.filter_sublist List.nodup_range
  exact List.Pairwise.map _ (fun a b hab => by omega) h

theorem filterBits_mem (f : Filter) (k lo len : Nat) (hk : f.byteIdx = (k : Int))
    (hm : MaskIs f.mask lo len) (h8 : lo + len ≤ 8) (x : Nat) :
    x ∈ filterBits f ↔ 8 * k + lo ≤ x ∧ x < 8 * k + lo + len := by
  unfold filterBits
  rw [hk, Int.toNat_natCast]
  simp only [List.mem_map, List.mem_filter, List.mem_range, hm _, decide_eq_true_eq]
  constructor
  · rintro ⟨j, ⟨_, _⟩, rfl⟩
    omega
  · intro h
    exact ⟨x - 8 * k, ⟨by omega, by omega⟩, by omega⟩

theorem goodF_mem {be : Bool} {id pos len : Nat} {f : Filter} (hf : GoodF be id pos len f) (x : Nat) :
    x ∈ filterBits f ↔ ∃ p, pos ≤ p ∧ p < pos + len ∧ x = cv be p := by
  obtain ⟨k, lo, -, -, hk, -, -, h1, h8, hm, hpos⟩ := hf
  rw [filterBits_mem f k lo len hk hm h8]
  cases be
  · simp only [Bool.false_eq_true, if_false] at hpos
    simp only [cv, Bool.false_eq_true, if_false]
    constructor
    · intro h; exact ⟨x, by omega, by omega, rfl⟩
    · rintro ⟨p, h1, h2, rfl⟩; omega
  · simp only [if_true] at hpos
    simp only [cv, if_true]
    constructor
    · intro h
      refine ⟨8 * k + (7 - (x - 8 * k)), by omega, by omega, ?_⟩
      unfold conv; omega
    · rintro ⟨p, h1, h2, rfl⟩
      unfold conv; omega

theorem chain_bits {be : Bool} {id pos tot : Nat} {fs : List Filter} (h : Chain be id pos fs tot) :
    (fs.flatMap filterBits).Nodup ∧
    ∀ x, x ∈ fs.flatMap filterBits ↔ ∃ p, pos ≤ p ∧ p < pos + tot ∧ x = cv be p := by
  induction h with
  | nil pos =>
    refine ⟨by simp, fun x => ?_⟩
    simp only [List.flatMap_nil, List.not_mem_nil, false_iff]
    rintro ⟨p, h1, h2, -⟩
    omega
  | @cons pos len f rest tot hf _ ih =>
    obtain ⟨ihn, ihm⟩ := ih
    have hfm := goodF_mem hf
    refine ⟨?_, fun x => ?_⟩
    · rw [List.flatMap_cons, List.nodup_append]
      refine ⟨filterBits_nodup f, ihn, ?_⟩
      intro a ha b hb hab
      obtain ⟨p, hp1, hp2, rfl⟩ := (hfm a).1 ha
      obtain ⟨q, hq1, hq2, rfl⟩ := (ihm b).1 hb
      have := cv_inj be hab
      omega
    · rw [List.flatMap_cons, List.mem_append, hfm x, ihm x]
      constructor
      · rintro (⟨p, h1, h2, h3⟩ | ⟨p, h1, h2, h3⟩)
        · exact ⟨p, h1, by omega, h3⟩
        · exact ⟨p, by omega, by omega, h3⟩
      · rintro ⟨p, h1, h2, h3⟩
        by_cases hp : p < pos + len
        · exact Or.inl ⟨p, h1, hp, h3⟩
        · exact Or.inr ⟨p, by omega, by omega, h3⟩

theorem sigBits_spec (s : Slot) (be : Bool) (h0 : 0 ≤ s.start) (h1 : 1 ≤ s.size)
    (hok : be = true → BeOK s) :
    (sigBits s be).Nodup ∧
    ∀ x, x ∈ sigBits s be ↔
      ∃ p, s.start.toNat ≤ p ∧ p < s.start.toNat + s.size.toNat ∧ x = cv be p :=
  chain_bits (chain_sigFilters s be h0 h1 hok)

theorem masks_le (s : Slot) (h0 : 0 ≤ s.start) (h1 : 1 ≤ s.size) :
    (sigBits s false).Nodup ∧
    ∀ k, k ∈ sigBits s false ↔ s.start ≤ k ∧ (k : Int) < s.start + s.size := by
  obtain ⟨hn, hm⟩ := sigBits_spec s false h0 h1 (by simp)
  refine ⟨hn, fun k => ?_⟩
  rw [hm k]
  simp only [cv, Bool.false_eq_true, if_false]
  constructor
  · rintro ⟨p, h1, h2, rfl⟩; omega
  · intro h; exact ⟨k, by omega, by omega, rfl⟩

theorem masks_be (s : Slot) (h0 : 0 ≤ s.start) (h1 : 1 ≤ s.size) (hok : BeOK s) :
    (sigBits s true).Nodup ∧
    ∀ k, k ∈ sigBits s true ↔
      ∃ p : Nat, s.start ≤ p ∧ (p : Int) < s.start + s.size ∧ k = conv p := by
  obtain ⟨hn, hm⟩ := sigBits_spec s true h0 h1 (fun _ => hok)
  refine ⟨hn, fun k => ?_⟩
  rw [hm k]
  simp only [cv, if_true]
  constructor
  · rintro ⟨p, h1, h2, h3⟩; exact ⟨p, by omega, by omega, h3⟩
  · rintro ⟨p, h1, h2, h3⟩; exact ⟨p, by omega, by omega, h3⟩

/-! ### disjointness -/

theorem wfBits_mem {lo cap : Int} {l : List Slot} (h : WFfrom lo cap l) :
    ∀ a ∈ l, lo ≤ a.start ∧ 0 < a.size := by
  induction l generalizing lo with
  | nil => intro a ha; cases ha
  | cons s rest ih =>
    obtain ⟨h1, h2, h3⟩ := h
    intro a ha
    rcases List.mem_cons.1 ha with rfl | ha
    · exact ⟨h1, h2⟩
    · have := ih h3 a ha
      omega

theorem wfBits_disj {lo cap : Int} {l : List Slot} (h : WFfrom lo cap l) :
    ∀ a ∈ l, ∀ b ∈ l, a ≠ b →
      a.start + a.size ≤ b.start ∨ b.start + b.size ≤ a.start := by
  induction l generalizing lo with
  | nil => intro a ha; cases ha
  | cons s rest ih =>
    obtain ⟨h1, h2, h3⟩ := h
    intro a ha b hb hab
    rcases List.mem_cons.1 ha with rfl | ha' <;> rcases List.mem_cons.1 hb with rfl | hb'
    · exact absurd rfl hab
    · exact Or.inl (wfBits_mem h3 b hb').1
    · exact Or.inr (wfBits_mem h3 a ha').1
    · exact ih h3 a ha' b hb' hab

theorem masks_disjoint (cap : Int) (l : List Slot) (hwf : WF cap l) (a b : Slot) (be : Bool)
    (ha : a ∈ l) (hb : b ∈ l) (hab : a ≠ b) (hok : be = true → BeOK a ∧ BeOK b) :
    ∀ k, ¬ (k ∈ sigBits a be ∧ k ∈ sigBits b be) := by
  rintro k ⟨hka, hkb⟩
  have ha' := wfBits_mem hwf a ha
  have hb' := wfBits_mem hwf b hb
  have hd := wfBits_disj hwf a ha b hb hab
  obtain ⟨p, hp1, hp2, rfl⟩ :=
    ((sigBits_spec a be (by omega) (by omega) (fun h => (hok h).1)).2 k).1 hka
  obtain ⟨q, hq1, hq2, hq3⟩ :=
    ((sigBits_spec b be (by omega) (by omega) (fun h => (hok h).2)).2 _).1 hkb
  have := cv_inj be hq3
  omega

/-! ### decidability of the specification predicates on concrete data (non-vacuity examples) -/

instance bitsDecWFfrom : ∀ (lo cap : Int) (l : List Slot), Decidable (WFfrom lo cap l)
  | lo, cap, [] => inferInstanceAs (Decidable (lo ≤ cap))
  | lo, cap, s :: rest =>
    have := bitsDecWFfrom (s.start + s.size) cap rest
    inferInstanceAs (Decidable (lo ≤ s.start ∧ 0 < s.size ∧ WFfrom (s.start + s.size) cap rest))

instance bitsDecWF (cap : Int) (l : List Slot) : Decidable (WF cap l) := bitsDecWFfrom 0 cap l

instance bitsDecBeOK (s : Slot) : Decidable (BeOK s) := by unfold BeOK; infer_instance

instance bitsDecDataOK (n : Nat) (data : List Nat) : Decidable (DataOK n data) := by
  unfold DataOK; infer_instance

/-! ### D08 witnesses -/

theorem d08_instance :
    decodeRaw (genFilters [((⟨1, 28, 4⟩ : Slot), true)]) [0, 0, 0, 0x90, 0, 0, 0, 0] = some [(1, 9)] ∧
    rawBE [0, 0, 0, 0x90, 0, 0, 0, 0] 28 4 = 0 := by
  decide

theorem d08_witness :
    ¬ (∀ (n : Nat) (l : List Slot), WF (8 * n) l → IdsNodup l → (∀ s ∈ l, s.size ≤ 64) →
      ∀ data, DataOK n data →
        decodeRaw (genFilters (l.map (fun s => (s, true)))) data =
          some (l.map (fun s => (s.id, rawBE data s.start.toNat s.size.toNat)))) := by
  intro h
  have h' := h 8 [⟨1, 28, 4⟩] (by simp [WF, WFfrom]) (by simp [IdsNodup]) (by simp)
    [0, 0, 0, 0x90, 0, 0, 0, 0] (by simp [DataOK])
  revert h'
  decide

theorem d08_masks_witness :
    ∃ k, k ∈ sigBits ⟨1, 8, 4⟩ true ∧ k ∈ sigBits ⟨2, 12, 8⟩ true :=
  ⟨8, by decide⟩

end Acme.Bits
