/-
Lemmas for C11 (kernel level).  Names used by Acme.Props.C11: convStart_invol,
ranges_roundtrip, ranges_wellformed, enum_attr_roundtrip, selector_roundtrip.
Core Lean only.
-/
import Acme.Core.Conv
import Acme.Proofs.Arith

namespace Acme.Conv

/-! ### start-bit conversion -/

theorem convStart_eq (s : Int) (h : 0 ≤ s) : convStart s = s + 7 - 2 * (s % 8) := by
  unfold convStart
  rw [Int.tmod_eq_emod_of_nonneg h]

theorem convStart_nonneg (s : Int) (h : 0 ≤ s) : 0 ≤ convStart s := by
  rw [convStart_eq s h]; omega

theorem convStart_invol (s : Int) (h : 0 ≤ s) : convStart (convStart s) = s ∧ 0 ≤ convStart s := by
  have h1 := convStart_nonneg s h
  refine ⟨?_, h1⟩
  rw [convStart_eq _ h1, convStart_eq s h]
  omega

/-- the conversion stays inside the byte of `s` -/
theorem convStart_byte (s : Int) (h : 0 ≤ s) : convStart s / 8 = s / 8 := by
  rw [convStart_eq s h]; omega

/-! ### `expandRange` -/

theorem expandRange_self (n : Int) : expandRange n n = [n] := by
  simp [expandRange, List.range_succ]

theorem expandRange_succ (f t : Int) (h : f ≤ t + 1) :
    expandRange f (t + 1) = expandRange f t ++ [t + 1] := by
  have e : (t + 1 - f + 1).toNat = (t - f + 1).toNat + 1 := by omega
  have e2 : f + (((t - f + 1).toNat : Nat) : Int) = t + 1 := by omega
  unfold expandRange
  rw [e, List.range_succ, List.map_append, List.map_singleton, e2]

theorem mem_expandRange (f t x : Int) : x ∈ expandRange f t ↔ f ≤ x ∧ x ≤ t := by
  unfold expandRange
  rw [List.mem_map]
  constructor
  · rintro ⟨k, hk, rfl⟩
    rw [List.mem_range] at hk
    omega
  · rintro ⟨h1, h2⟩
    refine ⟨(x - f).toNat, ?_, ?_⟩
    · rw [List.mem_range]; omega
    · omega

/-! ### compress ∘ expand -/

theorem expand_compressFrom (gc : Int) (rest : List Int) :
    ∀ (f g : Int), f ≤ g → (g :: rest).Pairwise (· < ·) → (∀ x ∈ g :: rest, x < gc) →
      expand gc (compressFrom f (g :: rest)) = some (expandRange f g ++ rest) := by
  induction rest with
  | nil =>
    intro f g hfg _ hb
    have hg : ¬ (f > g ∨ g ≥ gc) := by
      have := hb g (List.mem_cons_self ..); omega
    simp [compressFrom, expand, hg]
  | cons n rest ih =>
    intro f g hfg hp hb
    have hp' : (n :: rest).Pairwise (· < ·) := (List.pairwise_cons.1 hp).2
    have hgn : g < n := (List.pairwise_cons.1 hp).1 n (List.mem_cons_self ..)
    have hb' : ∀ x ∈ n :: rest, x < gc := fun x hx => hb x (List.mem_cons_of_mem _ hx)
    by_cases hn : n = g + 1
    · rw [compressFrom, if_pos hn, ih f n (by omega) hp' hb']
      subst hn
      rw [expandRange_succ f g (by omega), List.append_assoc]
      rfl
    · have hg : ¬ (f > g ∨ g ≥ gc) := by
        have := hb g (List.mem_cons_self ..); omega
      rw [compressFrom, if_neg hn, expand, if_neg hg, ih n n (Int.le_refl _) hp' hb',
        expandRange_self]
      rfl

theorem ranges_roundtrip (gc : Int) (gs : List Int) (hne : gs ≠ [])
    (hs : gs.Pairwise (· < ·)) (hb : ∀ g ∈ gs, 0 ≤ g ∧ g < gc) :
    ∃ rs, compress gs = some rs ∧ expand gc rs = some gs := by
  cases gs with
  | nil => exact absurd rfl hne
  | cons g rest =>
    refine ⟨compressFrom g (g :: rest), rfl, ?_⟩
    rw [expand_compressFrom gc rest g g (Int.le_refl _) hs (fun x hx => (hb x hx).2),
      expandRange_self]
    rfl

/-! ### shape of the compressed ranges -/

theorem compressFrom_wf (rest : List Int) :
    ∀ (f g : Int), f ≤ g → (g :: rest).Pairwise (· < ·) →
      (∀ r ∈ compressFrom f (g :: rest), f ≤ r.1 ∧ r.1 ≤ r.2) ∧
      (compressFrom f (g :: rest)).Pairwise (fun a b => a.2 + 1 < b.1) := by
  induction rest with
  | nil =>
    intro f g hfg _
    simp [compressFrom, hfg]
  | cons n rest ih =>
    intro f g hfg hp
    have hp' : (n :: rest).Pairwise (· < ·) := (List.pairwise_cons.1 hp).2
    have hgn : g < n := (List.pairwise_cons.1 hp).1 n (List.mem_cons_self ..)
    by_cases hn : n = g + 1
    · rw [compressFrom, if_pos hn]
      exact ih f n (by omega) hp'
    · rw [compressFrom, if_neg hn]
      obtain ⟨hm, hpw⟩ := ih n n (Int.le_refl _) hp'
      constructor
      · intro r hr
        rcases List.mem_cons.1 hr with rfl | hr
        · exact ⟨Int.le_refl _, hfg⟩
        · have := hm r hr
          exact ⟨by omega, this.2⟩
      · rw [List.pairwise_cons]
        refine ⟨?_, hpw⟩
        intro b hb
        have := (hm b hb).1
        show g + 1 < b.1
        omega

theorem ranges_wellformed (gs : List Int) (hs : gs.Pairwise (· < ·)) (rs : List (Int × Int))
    (h : compress gs = some rs) :
    (∀ r ∈ rs, r.1 ≤ r.2) ∧ rs.Pairwise (fun a b => a.2 + 1 < b.1) := by
  cases gs with
  | nil => cases h
  | cons g rest =>
    have e : rs = compressFrom g (g :: rest) := by
      simp only [compress, Option.some.injEq] at h; exact h.symm
    subst e
    obtain ⟨hm, hpw⟩ := compressFrom_wf rest g g (Int.le_refl _) hs
    exact ⟨fun r hr => (hm r hr).2, hpw⟩

/-! ### enum attribute value ↔ index -/

theorem findIdx?_mem (values : List String) (v : String) (hv : v ∈ values) :
    ∃ i, values.findIdx? (· = v) = some i ∧ values[i]? = some v := by
  induction values with
  | nil => cases hv
  | cons a as ih =>
    rw [List.findIdx?_cons]
    by_cases ha : a = v
    · exact ⟨0, by simp [ha], by simp [ha]⟩
    · have hv' : v ∈ as := by
        rcases List.mem_cons.1 hv with h | h
        · exact absurd h.symm ha
        · exact h
      obtain ⟨i, h1, h2⟩ := ih hv'
      refine ⟨i + 1, ?_, ?_⟩
      · simp [ha, h1]
      · simpa using h2

theorem enum_attr_roundtrip (values : List String) (_hn : values.Nodup) (v : String)
    (hv : v ∈ values) : enumValueAt values (enumIndex values v) = some v := by
  obtain ⟨i, h1, h2⟩ := findIdx?_mem values v hv
  unfold enumIndex enumValueAt
  rw [h1]
  have : ¬ ((i : Int) < 0) := by omega
  simp only [this, if_false, Int.toNat_natCast]
  exact h2

/-- with distinct values the converse direction holds as well: the index of the value at a
    valid index is that index -/
theorem enum_index_of_at (values : List String) (hn : values.Nodup) (i : Nat) (v : String)
    (h : enumValueAt values i = some v) : enumIndex values v = i := by
  have hi : values[i]? = some v := by
    unfold enumValueAt at h
    have : ¬ ((i : Int) < 0) := by omega
    simpa [this] using h
  have hv : v ∈ values := List.mem_of_getElem? hi
  obtain ⟨j, h1, h2⟩ := findIdx?_mem values v hv
  unfold enumIndex
  rw [h1]
  show j = i
  obtain ⟨hj, ej⟩ := List.getElem?_eq_some_iff.1 h2
  obtain ⟨hi', ei⟩ := List.getElem?_eq_some_iff.1 hi
  exact (List.getElem_inj hn).1 (ej.trans ei.symm)

/-! ### selector width ↔ group count -/

theorem calcValue_pow (n : Nat) (h1 : 1 ≤ n) (h2 : n ≤ 62) :
    Acme.Arith.calcValue (n : Int) = ((2 ^ n : Nat) : Int) := by
  have hc : ¬ ((n : Int) ≤ 0) := by omega
  have hlt : 2 ^ n < 2 ^ 63 := Nat.pow_lt_pow_right (by decide) (by omega)
  have hn : (1#64 <<< n).toNat = 2 ^ n := by
    rw [BitVec.toNat_shiftLeft, Nat.shiftLeft_eq]
    simp only [BitVec.toNat_ofNat]
    have : 2 ^ n < 2 ^ 64 := by omega
    simp [Nat.mod_eq_of_lt this]
  unfold Acme.Arith.calcValue
  rw [if_neg hc, Int.toNat_natCast, Acme.Arith.toInt_of_lt _ (by rw [hn]; exact hlt), hn]

theorem calcSize_pow_pred (n : Nat) (h1 : 1 ≤ n) :
    Acme.Arith.calcSize (((2 ^ n : Nat) : Int) - 1) = n := by
  have hpos : 0 < 2 ^ n := Nat.two_pow_pos n
  have h0 : (0 : Int) ≤ ((2 ^ n : Nat) : Int) - 1 := by omega
  obtain ⟨hc1, hc2, hc3⟩ := Acme.Arith.calcSize_spec _ h0
  generalize Acme.Arith.calcSize (((2 ^ n : Nat) : Int) - 1) = c at *
  obtain ⟨m, rfl⟩ := Int.eq_ofNat_of_zero_le (by omega : (0 : Int) ≤ c)
  rw [Int.toNat_natCast] at hc2 hc3
  have hc2' : 2 ^ n - 1 < 2 ^ m := by
    have : (((2 ^ n - 1 : Nat)) : Int) < ((2 ^ m : Nat) : Int) := by
      rw [Int.natCast_pow]; push_cast; omega
    exact_mod_cast this
  have hnm : n ≤ m := by
    have : 2 ^ n ≤ 2 ^ m := by omega
    exact (Nat.pow_le_pow_iff_right (by decide)).1 this
  rcases hc3 with hc3 | hc3
  · have : m = 1 := by omega
    omega
  · have hc3' : 2 ^ (m - 1) < 2 ^ n := by
      have : ((2 ^ (m - 1) : Nat) : Int) ≤ ((2 ^ n - 1 : Nat) : Int) := by
        rw [Int.natCast_pow]; push_cast; omega
      have : 2 ^ (m - 1) ≤ 2 ^ n - 1 := by exact_mod_cast this
      omega
    have : m - 1 < n := (Nat.pow_lt_pow_iff_right (by decide)).1 hc3'
    omega

theorem selector_roundtrip (w : Int) (h1 : 1 ≤ w) (h2 : w ≤ 62) :
    exportSelWidth (importGroupCount w) = w := by
  obtain ⟨n, rfl⟩ := Int.eq_ofNat_of_zero_le (by omega : (0 : Int) ≤ w)
  unfold exportSelWidth importGroupCount
  rw [calcValue_pow n (by omega) (by omega), calcSize_pow_pred n (by omega)]

end Acme.Conv
