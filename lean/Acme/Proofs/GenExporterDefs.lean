/-
Vocabulary for the obligations of the generated exporter (Acme/Gen/Exporter.lean, namespace
Acme.Gen.X, regenerated from exporter.go on every run): the VIEW of a model tree
(`Acme.Import.ITree`, the input of the hand model `exportAny`) as the Go objects the exporter
walks (`Acme.XSem.Msg` / `Sig`), the view of the written `dbc.Signal` / `dbc.ExtendedMux` as the
`DSig` / `DExt` of the hand model, and the condition `TreeOK` under which the two exporters are
compared.

THE VIEW.  A multiplexer node `n` of the tree is the Go object whose `GetSignalGroups()` answers,
for the group ids `0 … groupCount-1`, the signals of `groupOf n.children k` in that order (this IS
`groups[k].signals`: Acme.Core.Import); a child that is a multiplexer is the object of the node of
its name (`findNode`), every other child a standard or enum signal at the absolute start bit
`n.start + n.selW + c.rel`.  What the tree does not hold — descriptions, signal types, units, enums,
receivers, the message's name and sender — is arbitrary: the parameter `P : Pay`.

`TreeOK` (decidable): the tree is a tree (every `isMux` child names a node, within the depth
`nested.length + 1` the hand model uses), the children of a multiplexer have different names (as
`MultiplexerSignal.InsertSignal` guarantees; the exporter keys its bookkeeping by the name), and every
number that goes through `uint32(…)` is in `[0, 2^32)` (the hand model writes `Int.toNat`).
-/
import Acme.Gen.Exporter
import Acme.Core.ImportNested
import Acme.Spec.ExportImportNested

namespace Acme.GenX
open Acme.Import Acme.XSem Acme.Conv

/-- what a tree does not say about a leaf signal -/
structure LeafPay where
  desc : String := ""
  /-- `some e`: an enum signal of that enum; `none`: a standard signal -/
  enum : Option SigEnum := none
  typ : SigType := {}
  unit : Option SigUnit := none
  deriving Inhabited

/-- what a tree does not say about the message and its signals -/
structure Pay where
  leaf : String → LeafPay := fun _ => {}
  muxDesc : String → String := fun _ => ""
  msgName : String := ""
  msgDesc : String := ""
  sender : String := ""
  /-- `Receivers()` -/
  receivers : List String := []
  deriving Inhabited

def bo (be : Bool) : MsgByteOrder := if be then .bigEndian else .littleEndian

def leafSig (P : Pay) (name : String) (start size : Int) (muxed : Bool) : Sig :=
  let b : SigBase := { name := name, desc := (P.leaf name).desc, startBit := start, hasParentMux := muxed }
  match (P.leaf name).enum with
  | none => .standard { b := b, size := size, typ := (P.leaf name).typ, unit := (P.leaf name).unit }
  | some e => .enum { b := b, size := size, enum := e }

/-- the Go object of a multiplexer node; `muxed` = it is a child of a multiplexer -/
def viewMux (P : Pay) (N : List MuxNode) : Nat → Bool → MuxNode → Sig
  | 0, muxed, n => leafSig P n.name n.start 0 muxed          -- not reached on a `TreeOK` tree
  | fuel + 1, muxed, n =>
    .mux { b := { name := n.name, desc := P.muxDesc n.name, startBit := n.start, hasParentMux := muxed },
           groupCount := n.groupCount, groupCountSize := n.selW }
      ((List.range n.groupCount.toNat).map (fun (k : Nat) =>
        (groupOf n.children (k : Int)).map (fun c =>
          if c.isMux then
            match findNode N c.name with
            | some sub => viewMux P N fuel true sub
            | none => leafSig P c.name (n.start + n.selW + c.rel) c.size true   -- not reached
          else leafSig P c.name (n.start + n.selW + c.rel) c.size true)))

def viewItem (P : Pay) (N : List MuxNode) : Item → Sig
  | .sig l => leafSig P l.name l.start l.size false
  | .mux n => viewMux P N (N.length + 1) false n

/-- the `*Message` the exporter is handed -/
def viewMsg (P : Pay) (t : ITree) : Msg :=
  { name := P.msgName, desc := P.msgDesc, canID := t.id, sizeByte := t.sizeByte, senderName := P.sender,
    parent := { byteOrder := bo t.bigEndian, receivers := P.receivers },
    signals := t.top.map (viewItem P t.nested) }

/-! ## the written side -/

def sigView (s : DbcSignal) : DSig :=
  { name := s.name, start := s.startBit, size := s.size, bigEndian := decide (s.byteOrder = .bigEndian),
    isMultiplexor := s.isMultiplexor, isMultiplexed := s.isMultiplexed, muxSwitch := s.muxSwitchValue }

def extView (e : Acme.Dbc.ExtendedMux) : DExt :=
  { muxor := e.multiplexorName, muxed := e.multiplexedName, ranges := e.ranges.map (fun r => (r.from_, r.to)) }

/-- a written message with the SG_MUL_VAL_ entries written for it, as the `DMsg` of Acme.Import -/
def dmsgOf (m : DbcMessage) (exts : List Acme.Dbc.ExtendedMux) : DMsg :=
  { id := m.id, size := m.size, sigs := m.signals.map sigView, exts := exts.map extView }

/-! ## the condition -/

/-- the value survives `uint32(…)` -/
def U32 (x : Int) : Prop := 0 ≤ x ∧ x < 2 ^ 32

instance (x : Int) : Decidable (U32 x) := by unfold U32; exact inferInstance

/-- the position the exporter writes (`getStartBit`, before the conversion to `uint32`) -/
def wpos (be : Bool) (x : Int) : Int := if be then convStart x else x

def NodeOK (be : Bool) (N : List MuxNode) : Nat → MuxNode → Prop
  | 0, _ => False
  | fuel + 1, n =>
    U32 (wpos be n.start) ∧ U32 n.selW ∧ n.groupCount ≤ 2 ^ 32 ∧ (n.children.map (·.name)).Nodup ∧
    ∀ c ∈ n.children,
      if c.isMux then optAll (findNode N c.name) (fun sub => NodeOK be N fuel sub)
      else U32 (wpos be (n.start + n.selW + c.rel)) ∧ U32 c.size

instance decNodeOK (be : Bool) (N : List MuxNode) : ∀ (fuel : Nat) (n : MuxNode), Decidable (NodeOK be N fuel n)
  | 0, _ => isFalse (fun h => h)
  | fuel + 1, n => by
    have := decNodeOK be N fuel
    unfold NodeOK
    exact inferInstance

def ItemOK (be : Bool) (N : List MuxNode) : Item → Prop
  | .sig l => U32 (wpos be l.start) ∧ U32 l.size
  | .mux n => NodeOK be N (N.length + 1) n

instance (be : Bool) (N : List MuxNode) (x : Item) : Decidable (ItemOK be N x) := by
  cases x <;> (unfold ItemOK; exact inferInstance)

def TreeOK (t : ITree) : Prop :=
  U32 t.sizeByte ∧ ∀ x ∈ t.top, ItemOK t.bigEndian t.nested x

instance (t : ITree) : Decidable (TreeOK t) := by unfold TreeOK; exact inferInstance

end Acme.GenX
