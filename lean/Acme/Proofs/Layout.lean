/-
Lemmas for the layout algebra (C01 part 1).  Names used by Acme.Props.C01:
verifyInsert_spec, insert_wf, verifyAppend_spec, append_wf, remove_wf, compact_spec,
resize_spec, verifyGrow_spec, grow_wf, grow_nopanic, shrink_spec, shiftLeft_spec,
shiftRight_spec.
-/
import Acme.Core.Layout
import Acme.Spec.Layout

namespace Acme.Layout

end Acme.Layout
