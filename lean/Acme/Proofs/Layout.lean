/-
Lemmas for the layout algebra (C01 part 1).  Names used by Acme.Props.C01:
verifyInsert_spec, insert_wf, verifyAppend_spec, append_wf, remove_wf, compact_spec,
resize_spec, verifyGrow_spec, grow_wf, grow_nopanic, shrink_spec, shiftLeft_spec,
shiftRight_spec.

The proofs are split over
  Acme.Proofs.LayoutBasic  (decidability instances, WFfrom facts, insert/append/remove/compact/resize)
  Acme.Proofs.LayoutIds    (IdsNodup / find / setSize facts)
  Acme.Proofs.LayoutShift  (shrink, shiftLeft, shiftRight)
  Acme.Proofs.LayoutGrow   (verifyGrow, growStarts)
`List.Forall₂` (used by the statements in Props) comes from Batteries.Data.List.Basic,
imported by LayoutBasic.
-/
import Acme.Core.Layout
import Acme.Spec.Layout
import Acme.Proofs.LayoutBasic
import Acme.Proofs.LayoutIds
import Acme.Proofs.LayoutShift
import Acme.Proofs.LayoutGrow
